/-
  Otr.KeyFile — libotr key files: ImportKeys / ExportKeysToFile, DSAPrivateKey.Import,
  ParsePrivateKey, DSAPrivateKey.Serialize, DSAPublicKey.Fingerprint.
  Go anchors: keys.go (readAccounts … readParameter, readPotential*, assignParameter,
  exportAccounts … exportParameter, DSAPrivateKey.Import/Parse/Serialize, notHex).

  Numbers read from a key file are `*big.Int` that may be nil (`#zz#` makes SetString fail and
  the reader stores the nil pointer without complaint) or negative (`#-5#`): `Option Int`.

  Termination: see Otr.Sexp.  The loops of readAccounts and readDSAPrivateKey run on fuel =
  number of bytes left + 1; every round that continues has consumed a "(".

  Core Lean only.
-/
import Otr.Sexp
import Otr.Conv
namespace Otr

/-- dsa.PrivateKey as read from a key file: every number may be nil -/
structure DsaPriv where
  p : Option Int := none
  q : Option Int := none
  g : Option Int := none
  y : Option Int := none
  x : Option Int := none
  deriving Repr, DecidableEq

/-- otr3.Account (Key is always a *DSAPrivateKey here) -/
structure Account where
  name : Bytes
  protocol : Bytes
  key : DsaPriv
  deriving Repr, DecidableEq

/-! ### reading -/

/-- readPotentialBigNum -/
def readPotentialBigNum (r : Rd) : Run ((Option Int × Bool) × Rd) := do
  let ((v, _), r) ← readValue r
  match v with
  | .big val => pure ((val, true), r)
  | _ => pure ((none, false), r)

/-- readPotentialSymbol -/
def readPotentialSymbol (r : Rd) : Run ((Bytes × Bool) × Rd) := do
  let ((v, _), r) ← readValue r
  match v with
  | .sym s => pure ((s, true), r)
  | _ => pure (([], false), r)

/-- readPotentialStringOrSymbol -/
def readPotentialStringOrSymbol (r : Rd) : Run ((Bytes × Bool) × Rd) := do
  let ((v, _), r) ← readValue r
  match v with
  | .str s => pure ((s, true), r)
  | .sym s => pure ((s, true), r)
  | _ => pure (([], false), r)

/-- readSymbolAndExpect -/
def readSymbolAndExpect (r : Rd) (s : Bytes) : Run (Bool × Rd) := do
  let ((res, ok), r) ← readPotentialSymbol r
  pure (ok && res == s, r)

/-- assignParameter; `none` = unknown tag -/
def assignParameter (k : DsaPriv) (s : Bytes) (v : Option Int) : Option DsaPriv :=
  if s = [0x67] then some { k with g := v }
  else if s = [0x70] then some { k with p := v }
  else if s = [0x71] then some { k with q := v }
  else if s = [0x78] then some { k with x := v }
  else if s = [0x79] then some { k with y := v }
  else none

/-- result of readParameter -/
structure ParamRes where
  tag : Bytes
  value : Option Int
  atEnd : Bool
  ok : Bool
  deriving Repr, DecidableEq

def ParamRes.stop : ParamRes := ⟨[], none, true, true⟩

/-- readParameter -/
def readParameter (r : Rd) : Run (ParamRes × Rd) :=
  match expect r chLParen with
  | (false, r) => pure (ParamRes.stop, r)
  | (true, r) => do
    let ((tag, ok1), r) ← readPotentialSymbol r
    let ((value, ok2), r) ← readPotentialBigNum r
    match expect r chRParen with
    | (false, r) => pure (ParamRes.stop, r)
    | (true, r) => pure (⟨tag, value, false, ok1 && ok2⟩, r)

/-- the `for` loop of readDSAPrivateKey; inner `none` = `return nil, false` -/
def readDSAParams : Nat → DsaPriv → Rd → Run (Option DsaPriv × Rd)
  | 0, _, _ => .outOfFuel
  | fuel + 1, k, r => do
    let (pr, r) ← readParameter r
    if !pr.ok then pure (none, r)
    else if pr.atEnd then pure (some k, r)
    else
      match assignParameter k pr.tag pr.value with
      | none => pure (none, r)
      | some k => readDSAParams fuel k r

/-- readDSAPrivateKey: (key or nil, ok) -/
def readDSAPrivateKey (r : Rd) : Run ((Option DsaPriv × Bool) × Rd) := do
  let (_, r) := expect r chLParen
  let (ok1, r) ← readSymbolAndExpect r (strBytes "dsa")
  let (k, r) ← readDSAParams (r.inp.length + 1) {} r
  match k with
  | none => pure ((none, false), r)
  | some k =>
    let (ok2, r) := expect r chRParen
    pure ((some k, ok1 && ok2), r)

/-- readPrivateKey -/
def readPrivateKey (r : Rd) : Run ((DsaPriv × Bool) × Rd) := do
  let (_, r) := expect r chLParen
  let (ok1, r) ← readSymbolAndExpect r (strBytes "private-key")
  let ((res, ok2), r) ← readDSAPrivateKey r
  let k : DsaPriv := if ok2 then res.getD {} else {}
  let (ok3, r) := expect r chRParen
  pure ((k, ok1 && ok2 && ok3), r)

/-- readAccountName -/
def readAccountName (r : Rd) : Run ((Bytes × Bool) × Rd) := do
  let (_, r) := expect r chLParen
  let (ok1, r) ← readSymbolAndExpect r (strBytes "name")
  let ((nm, ok2), r) ← readPotentialStringOrSymbol r
  let (ok3, r) := expect r chRParen
  -- repaired code: a name with a double quote (possible when written as a symbol) could not be
  -- written back by the export and is not accepted
  pure ((nm, ok1 && ok2 && ok3 && !nm.contains 34), r)

/-- readAccountProtocol -/
def readAccountProtocol (r : Rd) : Run ((Bytes × Bool) × Rd) := do
  let (_, r) := expect r chLParen
  let (ok1, r) ← readSymbolAndExpect r (strBytes "protocol")
  let ((nm, ok2), r) ← readPotentialSymbol r
  let (ok3, r) := expect r chRParen
  pure ((nm, ok1 && ok2 && ok3), r)

/-- readAccount: (account, ok, atEnd); the account is `none` when atEnd -/
def readAccount (r : Rd) : Run ((Option Account × Bool × Bool) × Rd) :=
  match expect r chLParen with
  | (false, r) => pure ((none, true, true), r)
  | (true, r) => do
    let (ok1, r) ← readSymbolAndExpect r (strBytes "account")
    let ((name, ok2), r) ← readAccountName r
    let ((proto, ok3), r) ← readAccountProtocol r
    let ((key, ok4), r) ← readPrivateKey r
    let (ok5, r) := expect r chRParen
    pure ((some ⟨name, proto, key⟩, ok1 && ok2 && ok3 && ok4 && ok5, false), r)

/-- the `for` loop of readAccounts: (accounts so far, ok2) -/
def readAccountsLoop : Nat → List Account → Bool → Rd → Run ((List Account × Bool) × Rd)
  | 0, _, _, _ => .outOfFuel
  | fuel + 1, as, ok2, r => do
    let ((a, ok, atEnd), r) ← readAccount r
    let ok2 := ok2 && ok
    if atEnd then pure ((as, ok2), r)
    else
      match a with
      | some a => readAccountsLoop fuel (as ++ [a]) ok2 r
      | none => readAccountsLoop fuel as ok2 r

/-- readAccounts -/
def readAccounts (r : Rd) : Run ((List Account × Bool) × Rd) := do
  let (_, r) := expect r chLParen
  let (ok1, r) ← readSymbolAndExpect r (strBytes "privkeys")
  let ((as, ok2), r) ← readAccountsLoop (r.inp.length + 1) [] true r
  let (ok3, r) := expect r chRParen
  pure ((as, ok1 && ok2 && ok3), r)

/-- ImportKeys(bytes.NewReader(b)): `none` = error -/
def importKeys (b : Bytes) : Run (Option (List Account)) := do
  let ((as, ok), _) ← readAccounts ⟨b, none⟩
  pure (if ok then some as else none)

/-! ### writing -/

/-- exportParameter: `fmt.Sprintf("(%s #%X#)\n", name, val)` after the indent -/
def exportParameter (name : Bytes) (v : Option Int) : Bytes :=
  strBytes "        (" ++ name ++ strBytes " #" ++ fmtX v ++ strBytes "#)\n"

/-- exportDSAPrivateKey -/
def exportDSAPrivateKey (k : DsaPriv) : Bytes :=
  strBytes "      (dsa\n" ++
  exportParameter [0x70] k.p ++ exportParameter [0x71] k.q ++ exportParameter [0x67] k.g ++
  exportParameter [0x79] k.y ++ exportParameter [0x78] k.x ++
  strBytes "      )\n"

/-- exportPrivateKey -/
def exportPrivateKey (k : DsaPriv) : Bytes :=
  strBytes "    (private-key\n" ++ exportDSAPrivateKey k ++ strBytes "    )\n"

/-- exportName -/
def exportName (n : Bytes) : Bytes := strBytes "    (name \"" ++ n ++ strBytes "\")\n"

/-- exportProtocol -/
def exportProtocol (n : Bytes) : Bytes := strBytes "    (protocol " ++ n ++ strBytes ")\n"

/-- exportAccount -/
def exportAccount (a : Account) : Bytes :=
  strBytes "  (account\n" ++ exportName a.name ++ exportProtocol a.protocol ++ exportPrivateKey a.key ++
  strBytes "  )\n"

/-- exportAccounts / ExportKeysToFile: the contents of the file -/
def exportKeys (as : List Account) : Bytes :=
  strBytes "(privkeys\n" ++ (as.map exportAccount).flatten ++ strBytes ")\n"

/-! ### DSAPrivateKey.Import -/

/-- `in[bytes.Index(in, " #")+2:]`; `none` when " #" does not occur -/
def afterMpiStart : Bytes → Option Bytes
  | 0x20 :: 0x23 :: rest => some rest
  | _ :: rest => afterMpiStart rest
  | [] => none

/-- negation of notHex, on bytes (a byte ≥ 0x80 starts or continues a non-ASCII or invalid rune,
    which notHex rejects, so `bytes.IndexFunc(in, notHex)` is the index of the first byte that is
    not an ASCII hex digit) -/
def isHexByte (c : UInt8) : Bool := (sxHexVal c).isSome

/-- the scanning loop of Import: `k` more numbers to find -/
def importScan : Nat → Bytes → Option (List Nat)
  | 0, _ => some []
  | k + 1, inp =>
    match afterMpiStart inp with
    | none => none
    | some rest =>
      let hexBytes := rest.takeWhile isHexByte
      let rest' := rest.dropWhile isHexByte
      if rest'.isEmpty then none                -- IndexFunc = -1: the digits run to the end of the input
      else
        -- an odd number of digits is padded with a leading '0' (repaired code); hex.Decode then
        -- big.Int.SetBytes: the value of the digit string (0 for the empty string)
        match parseHexDigits hexBytes 0, importScan k rest' with
        | some v, some vs => some (v :: vs)
        | _, _ => none

structure DsaNat where
  p : Nat
  q : Nat
  g : Nat
  y : Nat
  x : Nat
  deriving Repr, DecidableEq

/-- is (g, p) inside the contract of constbn.Int.ExpB ("m has to be an odd number, x has to be
    smaller than m"; m = 1 is degenerate)?  Outside of it the Go code computes something that is
    not g^x mod p (no panic was ever observed), and the model does not say what. -/
def constbnDomain (g p : Nat) : Bool := p % 2 = 1 && 3 ≤ p && g < p

/-- DSAPrivateKey.Import: `none` = false without touching the key; otherwise the key that was
    stored and the verdict `g^x mod p == y` (`none` = outside constbn's contract) -/
def keyImport (b : Bytes) : Option (DsaNat × Option Bool) :=
  match importScan 5 b with
  | some [p, q, g, y, x] =>
    some (⟨p, q, g, y, x⟩,
      if constbnDomain g p then some (CryptoReal.powMod g x p == y) else none)
  | _ => none

/-! ### wire form -/

/-- ParsePrivateKey / DSAPrivateKey.Parse: (index, ok, key); the key is reported only on success -/
def parsePrivateKey (b : Bytes) : Bytes × Option (DsaPub × Nat) :=
  match extractShort b with
  | none => (b, none)
  | some (tag, _) =>
    if tag ≠ 0 then (b, none)
    else
      match parsePublicKey b with
      | none => ([], none)
      | some (pk, rest) =>
        match extractMPI rest with
        | none => ([], none)
        | some (x, rest) => (rest, some (pk, x))

/-- DSAPublicKey.serialize on a key whose numbers may be nil (nil result = empty) -/
def DsaPriv.pubSerialize (k : DsaPriv) : Bytes :=
  match k.p, k.q, k.g, k.y with
  | some p, some q, some g, some y => DsaPub.serialize ⟨p.natAbs, q.natAbs, g.natAbs, y.natAbs⟩
  | _, _, _, _ => []

/-- DSAPrivateKey.Serialize: `AppendMPI(pub.serialize(), X)`; `X.Bytes()` on a nil X is a nil
    pointer dereference -/
def DsaPriv.serialize (k : DsaPriv) : Res Bytes :=
  match k.x with
  | none => .panic "AppendMPI: nil *big.Int"
  | some x => .ok (appendMPI k.pubSerialize x.natAbs)

/-- DSAPublicKey.Fingerprint: nil when a public number is missing -/
def DsaPriv.fingerprint (K : Crypto) (k : DsaPriv) : Option Bytes :=
  match k.p, k.q, k.g, k.y with
  | some _, some _, some _, some _ => some (K.hash1 (k.pubSerialize.drop 2))
  | _, _, _, _ => none

end Otr
