/-
  Otr.DriverPure — line protocol for the function-level ("pure") correspondence profile.
  One op per line in, one canonical result line out; formats mirror /repo/verif_hooks.go
  (VerifParse / VerifBuild / …) and /verif/harness/pure.go.
-/
import Otr.Msg
import Otr.Frag
import Otr.B64
import Otr.Wire
namespace Otr.Driver
open Otr

def hx (b : Bytes) : String := if b.isEmpty then "-" else toHex b

def unhx (s : String) : Option Bytes := if s = "-" then some [] else fromHex s

def hxList (bs : List Bytes) : String :=
  "[" ++ ",".intercalate (bs.map hx) ++ "]"

def big (n : Nat) : String := hx (natToBytes n)

def tlvsStr (ts : List Tlv) : String :=
  "[" ++ ",".intercalate (ts.map fun t => s!"{t.typ}:{t.len}:{hx t.value}") ++ "]"

def optStr (o : Option String) : String :=
  match o with
  | none => "none"
  | some s => "some " ++ s

def boolStr (b : Bool) : String := if b then "true" else "false"

def parseOp (kind : String) (msg : Bytes) : String :=
  match kind with
  | "dhcommit" => optStr ((DhCommit.deserialize msg).map fun m => s!"{hx m.encryptedGx} {hx m.hashedGx}")
  | "dhkey" => optStr ((DhKey.deserialize msg).map fun m => big m.gy)
  | "revealsig" => optStr ((RevealSig.deserialize msg).map fun m => s!"{hx m.r} {hx m.encryptedSig} {hx m.macSig}")
  | "sig" => optStr ((Sig.deserialize msg).map fun m => s!"{hx m.encryptedSig} {hx m.macSig}")
  | "data" => optStr ((DataMsg.deserialize msg).map fun m =>
      s!"{m.flag} {m.senderKeyID} {m.recipientKeyID} {big m.y} {hx m.topHalfCtr} {hx m.encryptedMsg} {hx m.authenticator} [{",".intercalate (m.oldMACKeys.map hx)}] {hx m.unsignedRaw}")
  | "plain" =>
      let (p, ok) := PlainDataMsg.deserialize msg
      s!"{boolStr ok} {hx p.message} {tlvsStr p.tlvs}"
  | "tlv" => optStr ((Tlv.deserialize msg).map fun t => tlvsStr [t])
  | "smp1" => optStr ((toSmp1 msg).map fun x =>
      s!"smp1 {big x.g2a} {big x.g3a} {big x.c2} {big x.c3} {big x.d2} {big x.d3} {boolStr x.hasQuestion} {hx x.question}")
  | "smp1q" => optStr ((toSmp1Q msg).map fun x =>
      s!"smp1 {big x.g2a} {big x.g3a} {big x.c2} {big x.c3} {big x.d2} {big x.d3} {boolStr x.hasQuestion} {hx x.question}")
  | "smp2" => optStr ((toSmp2 msg).map fun x =>
      s!"smp2 {big x.g2b} {big x.g3b} {big x.c2} {big x.c3} {big x.d2} {big x.d3} {big x.pb} {big x.qb} {big x.cp} {big x.d5} {big x.d6}")
  | "smp3" => optStr ((toSmp3 msg).map fun x =>
      s!"smp3 {big x.pa} {big x.qa} {big x.cp} {big x.d5} {big x.d6} {big x.d7} {big x.ra} {big x.cr}")
  | "smp4" => optStr ((toSmp4 msg).map fun x => s!"smp4 {big x.cr} {big x.d7} {big x.rb}")
  | "mpis" => optStr ((extractMPIs msg).map fun (vs, rest) => s!"[{",".intercalate (vs.map big)}] {hx rest}")
  | "mpi" => optStr ((extractMPI msg).map fun (v, rest) => s!"{big v} {hx rest}")
  | "dat" => optStr ((extractData msg).map fun (v, rest) => s!"{hx v} {hx rest}")
  | "word" => optStr ((extractWord msg).map fun (v, rest) => s!"{v} {hx rest}")
  | "short" => optStr ((extractShort msg).map fun (v, rest) => s!"{v} {hx rest}")
  | "long" => optStr ((extractLong msg).map fun (v, rest) => s!"{v} {hx rest}")
  | _ => "unknown-kind"

def resBytes (r : Res Bytes) : String :=
  match r with
  | .ok b => hx b
  | .panic s => "PANIC " ++ s

def mkTlvs : List Nat → List Bytes → List Tlv
  | ty :: ln :: ns, v :: vs => ⟨ty % 65536, ln % 65536, v⟩ :: mkTlvs ns vs
  | _, _ => []

def buildOp (kind : String) (nums : List Nat) (bs : List Bytes) : String :=
  match kind, nums, bs with
  | "dhcommit", _, [a, b] => hx (DhCommit.serialize ⟨a, b⟩)
  | "dhkey", _, [a] => hx (DhKey.serialize ⟨bytesToNat a⟩)
  | "revealsig", _, [r, e, m] => resBytes (RevealSig.serialize ⟨r, e, m⟩)
  | "sig", _, [e, m] => resBytes (Sig.serialize ⟨e, m⟩)
  | "data", [f, s, r], y :: ctr :: enc :: auth :: old =>
      let raw := serializeUnsignedFields f s r (bytesToNat y) ctr enc
      hx (DataMsg.serialize ⟨f, s, r, bytesToNat y, ctr, enc, auth, old, raw⟩)
  | "dataunsigned", [f, s, r], [y, ctr, enc] => hx (serializeUnsignedFields f s r (bytesToNat y) ctr enc)
  | "plain", ns, t :: vs => hx (PlainDataMsg.serialize ⟨t, mkTlvs ns vs⟩)
  | "plainpad", ns, t :: vs => hx ((PlainDataMsg.pad ⟨t, mkTlvs ns vs⟩).serialize)
  | "tlv", [ty, ln], [v] => hx (Tlv.serialize ⟨ty, ln, v⟩)
  | "smptlv", [tp], vs => hx (genSMPTLV tp (vs.map bytesToNat)).serialize
  | "smp1q", _, [g2a, c2, d2, g3a, c3, d3, q] =>
      hx (Smp1Msg.tlv ⟨bytesToNat g2a, bytesToNat g3a, bytesToNat c2, bytesToNat c3, bytesToNat d2, bytesToNat d3, true, q⟩).serialize
  | "mpis", _, vs => hx (appendMPIs (appendWord [] vs.length) (vs.map bytesToNat))
  | _, _, _ => "bad-build"

def fnv (ps : List Bytes) : UInt64 :=
  ps.foldl (fun h p =>
    let h := p.foldl (fun (h : UInt64) c => (h ^^^ c.toUInt64) * 1099511628211) h
    (h ^^^ 0xff) * 1099511628211) 14695981039346656037

def fragDigest (ps : List Bytes) : String :=
  let maxLen := ps.foldl (fun m p => max m p.length) 0
  let shown := if ps.length ≤ 6 then ps else
    match ps with
    | a :: b :: _ => [a, b, ps.getLast!]
    | _ => ps
  s!"{ps.length} {maxLen} {fnv ps} {hxList shown}"

def splitArgs (line : String) : List String :=
  (line.splitOn " ").filter (· ≠ "")

def natArg (s : String) : Nat := s.toNat?.getD 0

def fragAcceptOp (frag : Bytes) (idx ln : Nat) (body : Bytes) : String :=
  -- VerifFragAccept: OTRv2 conversation, prefix "?OTR," + body; v2 parseFragmentPrefix needs ≥ 5 bytes (always true)
  match parseFragment body with
  | none => s!"err {hx frag} {idx} {ln} {boolStr (FragCtx.finished ⟨frag, idx, ln⟩)}"
  | some (d, ix, l) =>
    let c := fragAccept ⟨frag, idx, ln⟩ d ix l
    s!"nil {hx c.frag} {c.index} {c.len} {boolStr c.finished}"

/-- one function-level op -/
def pureOp (line : String) : Option String :=
  match splitArgs line with
  | ["parse", kind, h] => (unhx h).map (parseOp kind)
  | "build" :: kind :: rest =>
    let nums := (rest.takeWhile (· ≠ ";")).map natArg
    let bs := (rest.dropWhile (· ≠ ";")).drop 1
    match bs.mapM unhx with
    | some bs => some (buildOp kind nums bs)
    | none => none
  | ["b64enc", h] => (unhx h).map fun b => hx (b64encode b)
  | ["b64dec", h] => (unhx h).map fun b => optStr ((b64decode b).map hx)
  | ["guess", h] => (unhx h).map fun b => toString (guessMessageType b).toNat
  | ["frag", v, its, itr, size, h] =>
    (unhx h).map fun b => fragDigest (fragment (if v = "2" then .v2 else .v3) (natArg its) (natArg itr) b (natArg size))
  | ["fragprefix", v, n, t, its, itr] =>
    some (hx (fragmentPrefix (if v = "2" then .v2 else .v3) (natArg n) (natArg t) (natArg its) (natArg itr)))
  | ["u16", h] => (unhx h).map fun b => optStr ((bytesToUint16 b).map toString)
  | ["itag", h] => (unhx h).map fun b => optStr ((parseItag b).map toString)
  | ["parsefrag", h] => (unhx h).map fun b =>
      optStr ((parseFragment b).map fun (d, ix, l) => s!"{hx d} {ix} {l}")
  | ["fragaccept", f, i, l, b] =>
    match unhx f, unhx b with
    | some f, some b => some (fragAcceptOp f (natArg i) (natArg l) b)
    | _, _ => none
  | _ => none

end Otr.Driver
