/-
  Otr.B64 — Go's `base64.StdEncoding` as used by b64.go.

  Encode: standard alphabet with '=' padding.
  Decode (non-strict): '\r' and '\n' are skipped wherever they occur; the rest must be
  quanta of four alphabet characters, the last one possibly `xx==` or `xxx=`; anything
  after the padding, a dangling partial quantum, or a foreign character is an error.
-/
import Otr.Bytes
namespace Otr

def b64Char (n : Nat) : UInt8 :=
  if n < 26 then b8 (65 + n)
  else if n < 52 then b8 (97 + (n - 26))
  else if n < 62 then b8 (48 + (n - 52))
  else if n = 62 then 43 else 47

def b64Val (c : UInt8) : Option Nat :=
  if 65 ≤ c && c ≤ 90 then some (c.toNat - 65)
  else if 97 ≤ c && c ≤ 122 then some (c.toNat - 97 + 26)
  else if 48 ≤ c && c ≤ 57 then some (c.toNat - 48 + 52)
  else if c = 43 then some 62
  else if c = 47 then some 63
  else none

def b64encode : Bytes → Bytes
  | a :: b :: c :: rest =>
    let n := a.toNat * 65536 + b.toNat * 256 + c.toNat
    b64Char (n / 262144) :: b64Char (n / 4096 % 64) :: b64Char (n / 64 % 64) :: b64Char (n % 64) :: b64encode rest
  | [a, b] =>
    let n := a.toNat * 65536 + b.toNat * 256
    [b64Char (n / 262144), b64Char (n / 4096 % 64), b64Char (n / 64 % 64), 61]
  | [a] =>
    let n := a.toNat * 65536
    [b64Char (n / 262144), b64Char (n / 4096 % 64), 61, 61]
  | [] => []

/-- decode of a string from which CR/LF have been removed -/
def b64decodeClean : Bytes → Option Bytes
  | [] => some []
  | [a, b, 61, 61] =>
    match b64Val a, b64Val b with
    | some x, some y => some [b8 ((x * 64 + y) / 16)]
    | _, _ => none
  | [a, b, c, 61] =>
    match b64Val a, b64Val b, b64Val c with
    | some x, some y, some z =>
      let n := (x * 64 + y) * 64 + z
      some [b8 (n / 1024), b8 (n / 4)]
    | _, _, _ => none
  | a :: b :: c :: d :: rest =>
    match b64Val a, b64Val b, b64Val c, b64Val d with
    | some x, some y, some z, some w =>
      let n := ((x * 64 + y) * 64 + z) * 64 + w
      match b64decodeClean rest with
      | some r => some (b8 (n / 65536) :: b8 (n / 256) :: b8 n :: r)
      | none => none
    | _, _, _, _ => none
  | _ => none

def b64decode (inp : Bytes) : Option Bytes :=
  b64decodeClean (inp.filter fun c => c != 10 && c != 13)

end Otr
