/-
  Otr.SpecRef — an executable REFERENCE IMPLEMENTATION of the OTR v2/v3 protocol document,
  written only on top of `Otr.Spec` (the formalisation of the document), the record of
  cryptographic primitives `Otr.Crypto` and the byte-string primitives of `Otr.Bytes` / `Otr.Codec`.

  It does NOT import the executable model of the library (Msg / Keys / Conv / Frag / Wire / Smp):
  everything here follows the protocol document as `Spec.lean` transcribes it, with the state the
  document's "Data exchange" / "The protocol state machine" sections describe
      our_dh[our_keyid], our_dh[our_keyid-1], their_y[their_keyid], their_y[their_keyid-1],
      a counter per (our key, their key) pair, the old MAC keys that wait to be revealed.

  It is given the SECRETS of a session (D-H exponents, r, the long-term public keys, the DSA
  signatures the parties made) and re-derives from them, as the document prescribes, every message
  of the session; `Otr.DriverSpec` exposes it on the driver's line protocol so that the harness
  profile `spec` can compare byte for byte with what the library emitted (property C10), and can have
  it build messages of its own that the library must accept.

  Where the document leaves a freedom the reference either makes the choice libotr makes (smallest
  legal counter, fixed-width fragment numerals, largest pieces that fit) or takes the sender's choice
  as an input and CHECKS that it is one the document allows (padding TLV / plaintext layout, flags,
  which of the retired receiving MAC keys are revealed).
-/
import Otr.Spec
import Otr.Crypto
import Otr.Bytes
import Otr.Codec
namespace Otr.SpecRef
open Otr Otr.Spec

/-! ## Small helpers -/

/-- the public half of the D-H key with secret exponent `x`: g^x (spec: "g is the generator 2") -/
def dhPublic (K : Crypto) (x : Nat) : Nat := K.gexp dhG x

def validDHPublicB (gy : Nat) : Bool := decide (2 ≤ gy ∧ gy ≤ dhP - 2)

theorem validDHPublicB_iff (gy : Nat) : validDHPublicB gy = true ↔ validDHPublic gy := by
  simp [validDHPublicB, validDHPublic]

/-- association lists keyed by a key-id pair -/
abbrev Pair := Nat × Nat

def lookupPair {α} (l : List (Pair × α)) (p : Pair) : Option α :=
  (l.find? fun e => e.1 == p).map (·.2)

def setPair {α} (l : List (Pair × α)) (p : Pair) (a : α) : List (Pair × α) :=
  (p, a) :: l.filter fun e => e.1 != p

/-! ## base-64 reading (inverse of `Spec.base64`) and the armour -/

/-- the value of a base-64 character: the `n < 64` with `Spec.b64Char n = c` -/
def b64Val (c : UInt8) : Option Nat := (List.range 64).find? fun n => b64Char n == c

def unbase64Aux : Nat → Bytes → Option Bytes
  | 0, _ => some []
  | _ + 1, [] => some []
  | fuel + 1, a :: b :: c :: d :: rest =>
    match b64Val a, b64Val b with
    | some x, some y =>
      if c == 61 && d == 61 then
        if rest.isEmpty then some [b8 (x * 4 + y / 16)] else none
      else
        match b64Val c with
        | none => none
        | some z =>
          if d == 61 then
            if rest.isEmpty then some [b8 (x * 4 + y / 16), b8 (y % 16 * 16 + z / 4)] else none
          else
            match b64Val d with
            | none => none
            | some w =>
              match unbase64Aux fuel rest with
              | none => none
              | some r => some (b8 (x * 4 + y / 16) :: b8 (y % 16 * 16 + z / 4) :: b8 (z % 4 * 64 + w) :: r)
    | _, _ => none
  | _ + 1, _ => none

/-- decode; accepted only if re-encoding gives the same characters (canonical RFC 4648 form) -/
def unbase64 (s : Bytes) : Option Bytes :=
  match unbase64Aux s.length s with
  | none => none
  | some b => if base64 b == s then some b else none

/-- strip "?OTR:" … "." and decode -/
def unarmor (wire : Bytes) : Option Bytes :=
  let pre := strBytes "?OTR:"
  if pre.isPrefixOf wire && wire.getLast? == some 46 then
    unbase64 ((wire.drop pre.length).dropLast)
  else none

/-! ## Fragmentation -/

def chunksAux (n : Nat) : Nat → Bytes → List Bytes
  | 0, _ => []
  | fuel + 1, l => if l.isEmpty then [] else l.take n :: chunksAux n fuel (l.drop n)

/-- cut into pieces of `n ≥ 1` bytes (the last may be shorter, none is empty) -/
def chunks (n : Nat) (l : Bytes) : List Bytes := chunksAux n l.length l

/-- bytes a fragment of the canonical form adds around its piece:
    "?OTR|%08x|%08x,%05hu,%05hu," … ","  resp.  "?OTR,%05hu,%05hu," … "," -/
def fragmentOverhead : Version → Nat
  | .v2 => 18
  | .v3 => 36

def digitsAux (base : Nat) (dig : Nat → UInt8) : Nat → Nat → Bytes → Bytes
  | 0, _, acc => acc
  | fuel + 1, n, acc =>
    if n < base then dig n :: acc else digitsAux base dig fuel (n / base) (dig (n % base) :: acc)

/-- `%x`: lower-case hexadecimal without leading zeros -/
def hexShort (n : Nat) : Bytes := digitsAux 16 hexDigitLower 64 n []
/-- `%hu`: decimal without leading zeros -/
def decShort (n : Nat) : Bytes := digitsAux 10 decDigit 64 n []

/-- which of the numeral forms the document allows is written -/
inductive Numerals where
  /-- libotr's fixed widths "%08x" / "%05hu" -/
  | canonical
  /-- k and n exactly as the format string says ("%hu", no leading zeros), tags with eight digits -/
  | shortKN
  /-- everything exactly as the format string says: "?OTR|%x|%x,%hu,%hu,%s," -/
  | short
  deriving DecidableEq, Repr

/-- one fragment, in one of the forms `Spec.IsFragmentV2` / `Spec.IsFragmentV3` allow -/
def fragmentOne (ver : Version) (nm : Numerals) (sender receiver k n : Nat) (piece : Bytes) : Bytes :=
  match ver, nm with
  | .v2, .canonical => fragmentV2 k n piece
  | .v3, .canonical => fragmentV3 sender receiver k n piece
  | .v2, _ => strBytes "?OTR," ++ decShort k ++ strBytes "," ++ decShort n ++ strBytes "," ++ piece ++ strBytes ","
  | .v3, .shortKN => strBytes "?OTR|" ++ hex8 sender ++ strBytes "|" ++ hex8 receiver ++ strBytes "," ++
                   decShort k ++ strBytes "," ++ decShort n ++ strBytes "," ++ piece ++ strBytes ","
  | .v3, .short => strBytes "?OTR|" ++ hexShort sender ++ strBytes "|" ++ hexShort receiver ++ strBytes "," ++
                   decShort k ++ strBytes "," ++ decShort n ++ strBytes "," ++ piece ++ strBytes ","

def enumFrom1 {α} : Nat → List α → List (Nat × α)
  | _, [] => []
  | k, a :: l => (k, a) :: enumFrom1 (k + 1) l

/-- spec "Fragmentation": "If you have information about the maximum size of message you are able to
    send ... break it up into sufficiently many pieces".  `maxSize = 0`: no limit known.  A message
    that fits is sent whole; otherwise it is cut into the largest pieces whose (canonical) fragments
    fit, each non-empty, at most 65535 of them.  `none`: this cannot be done within the document's
    constraints. -/
def fragments (ver : Version) (nm : Numerals) (sender receiver maxSize : Nat) (msg : Bytes) :
    Option (List Bytes) :=
  if maxSize = 0 ∨ msg.length ≤ maxSize then some [msg]
  else
    let pieceLen := maxSize - fragmentOverhead ver
    if pieceLen = 0 then none
    else
      let ps := chunks pieceLen msg
      if ps.length > 65535 then none
      else some ((enumFrom1 1 ps).map fun (k, p) => fragmentOne ver nm sender receiver k ps.length p)

def splitOn (sep : UInt8) : Bytes → List Bytes
  | [] => [[]]
  | c :: rest =>
    if c == sep then [] :: splitOn sep rest
    else
      match splitOn sep rest with
      | [] => [[c]]
      | h :: t => (c :: h) :: t

structure Fragment where
  sender : Nat
  receiver : Nat
  k : Nat
  n : Nat
  piece : Bytes

/-- read one fragment exactly as `Spec.IsFragmentV2` / `Spec.IsFragmentV3` allow it to be written -/
def parseFragment (ver : Version) (frag : Bytes) : Option Fragment :=
  let numeral (f : Bytes → Option Nat) (s : Bytes) : Option Nat := if s.isEmpty then none else f s
  match ver with
  | .v2 =>
    let pre := strBytes "?OTR,"
    if ¬ pre.isPrefixOf frag then none else
    match splitOn 44 (frag.drop pre.length) with
    | [dk, dn, piece, []] =>
      match numeral decValue dk, numeral decValue dn with
      | some k, some n =>
        if 1 ≤ k ∧ k ≤ n ∧ n ≤ 65535 ∧ ¬ piece.isEmpty then some ⟨0, 0, k, n, piece⟩ else none
      | _, _ => none
    | _ => none
  | .v3 =>
    let pre := strBytes "?OTR|"
    if ¬ pre.isPrefixOf frag then none else
    match splitOn 44 (frag.drop pre.length) with
    | [tags, dk, dn, piece, []] =>
      match splitOn 124 tags with
      | [hs, hr] =>
        match numeral hexValue hs, numeral hexValue hr, numeral decValue dk, numeral decValue dn with
        | some s, some r, some k, some n =>
          if 1 ≤ k ∧ k ≤ n ∧ n ≤ 65535 ∧ ¬ piece.isEmpty then some ⟨s, r, k, n, piece⟩ else none
        | _, _, _, _ => none
      | _ => none
    | _ => none

def reassembleAux (ver : Version) (sender receiver n : Nat) : Nat → List Bytes → Option Bytes
  | _, [] => none
  | k, f :: rest =>
    match parseFragment ver f with
    | none => none
    | some fr =>
      if fr.k = k ∧ fr.n = n ∧ (ver = .v2 ∨ (fr.sender = sender ∧ fr.receiver = receiver)) then
        if k = n then (if rest.isEmpty then some fr.piece else none)
        else (reassembleAux ver sender receiver n (k + 1) rest).map (fr.piece ++ ·)
      else none

/-- what arrived for one message: either the message itself or all its fragments 1..n in order,
    from `sender` to `receiver` -/
def reassemble (ver : Version) (sender receiver : Nat) (wire : List Bytes) : Option Bytes :=
  match wire with
  | [m] =>
    if (strBytes "?OTR:").isPrefixOf m then some m
    else
      match parseFragment ver m with
      | some fr => reassembleAux ver sender receiver fr.n 1 wire
      | none => none
  | f :: _ =>
    match parseFragment ver f with
    | some fr => reassembleAux ver sender receiver fr.n 1 wire
    | none => none
  | [] => none

/-! ## The authenticated key exchange -/

/-- everything that determines an AKE: Bob is the party that sends the D-H Commit (and the Reveal
    Signature), Alice the one that answers with the D-H Key (and the Signature) -/
structure AkeInput where
  ver : Version
  tagB : Nat
  tagA : Nat
  /-- Bob's secret exponent x, his random AES key r, Alice's secret exponent y -/
  x : Nat
  r : Bytes
  y : Nat
  pubB : DsaPub
  pubA : DsaPub
  /-- sig_B(M_B) and sig_A(M_A) as (r, s) -/
  sigB : Nat × Nat
  sigA : Nat × Nat
  keyidB : Nat
  keyidA : Nat

structure Ake where
  inp : AkeInput
  gx : Nat
  gy : Nat
  /-- s as Bob computes it, (g^y)^x, and as Alice computes it, (g^x)^y -/
  sB : Nat
  sA : Nat
  keys : AkeKeys
  MB : Bytes
  MA : Bytes
  sigBValid : Bool
  sigAValid : Bool
  encSigB : Option Bytes
  encSigA : Option Bytes

/-- "sig_B(M_B): the signature ... of the 32-byte M_B (taken modulo q instead of being truncated, and
    not hashed again)": DSA verification of (r, s) on that integer -/
def sigValid (K : Crypto) (pub : DsaPub) (M : Bytes) (sig : Nat × Nat) : Bool :=
  K.dsaVerify pub (magnitude (akeSignedValue pub.q M)) sig.1 sig.2

def runAke (K : Crypto) (i : AkeInput) : Ake :=
  let gx := dhPublic K i.x
  let gy := dhPublic K i.y
  let sB := sharedSecret K gy i.x
  let sA := sharedSecret K gx i.y
  let keys := akeKeys K sB
  -- Bob: M_B = MAC_m1(g^x, g^y, pub_B, keyid_B);  Alice: M_A = MAC_m1'(g^y, g^x, pub_A, keyid_A)
  let MB := akeM K keys.m1 gx gy i.pubB i.keyidB
  let MA := akeM K keys.m1' gy gx i.pubA i.keyidA
  { inp := i, gx, gy, sB, sA, keys, MB, MA
    sigBValid := sigValid K i.pubB MB i.sigB
    sigAValid := sigValid K i.pubA MA i.sigA
    encSigB := akeEncryptX K keys.c (akeX i.pubB i.keyidB i.sigB.1 i.sigB.2)
    encSigA := akeEncryptX K keys.c' (akeX i.pubA i.keyidA i.sigA.1 i.sigA.2) }

/-- the conditions the document puts on the AKE's values -/
def Ake.wellFormed (a : Ake) : Bool :=
  a.sB == a.sA && validDHPublicB a.gx && validDHPublicB a.gy &&
  decide (0 < a.inp.keyidB) && decide (0 < a.inp.keyidA) && a.inp.r.length == 16 &&
  (a.inp.ver == .v2 ||
    (decide (0x100 ≤ a.inp.tagB ∧ a.inp.tagB < 4294967296) && decide (0x100 ≤ a.inp.tagA ∧ a.inp.tagA < 4294967296)))

inductive AkeMsg where
  | commit | key | reveal | sig
  deriving DecidableEq, Repr

/-- the four messages (binary form).  `rtag`: the receiver instance tag Bob writes into the D-H
    Commit ("0 indicates that the recipient instance is not (yet) known"); every later message
    carries both real tags. -/
def Ake.message (K : Crypto) (a : Ake) (m : AkeMsg) (rtag : Nat) : Option Bytes :=
  let i := a.inp
  match m with
  | .commit =>
    (dhCommitBody K i.r a.gx).map fun b => header i.ver msgTypeDHCommit i.tagB rtag ++ b
  | .key => some (header i.ver msgTypeDHKey i.tagA i.tagB ++ dhKeyBody a.gy)
  | .reveal =>
    a.encSigB.map fun e => header i.ver msgTypeRevealSig i.tagB i.tagA ++ revealSigBody K i.r e a.keys.m2
  | .sig =>
    a.encSigA.map fun e => header i.ver msgTypeSig i.tagA i.tagB ++ signatureBody K e a.keys.m2'

/-- sender / receiver instance tag of each AKE message (also written into its fragments) -/
def Ake.tags (a : Ake) (m : AkeMsg) (rtag : Nat) : Nat × Nat :=
  match m with
  | .commit => (a.inp.tagB, rtag)
  | .reveal => (a.inp.tagB, a.inp.tagA)
  | .key | .sig => (a.inp.tagA, a.inp.tagB)

/-- "it should be displayed as two 32-bit bigendian unsigned values, in C's %08x format.  If the user
    transmitted the Reveal Signature message during the AKE that produced this ssid, then display the
    first 32 bits in bold ...; if the user transmitted the Signature message instead, ... the second".
    Result: the two halves and the index of the bold one. -/
def ssidDisplay (ssid : Bytes) (sentRevealSig : Bool) : Bytes × Bytes × Nat :=
  (hex8 (bytesToNat (ssid.take 4)), hex8 (bytesToNat ((ssid.drop 4).take 4)), if sentRevealSig then 0 else 1)

/-! ## Data exchange: the per-party state of the protocol document -/

structure DHKey where
  priv : Nat
  pub : Nat

structure Party where
  ver : Version
  ourTag : Nat
  theirTag : Nat
  /-- our_keyid; our_dh[our_keyid] and our_dh[our_keyid−1] -/
  ourKeyId : Nat
  ourCur : DHKey
  ourPrev : DHKey
  /-- their_keyid; their_y[their_keyid] and (once known) their_y[their_keyid−1] -/
  theirKeyId : Nat
  theirCur : Nat
  theirPrev : Option Nat
  /-- per (our keyid, their keyid): the last counter we used / the last counter we accepted -/
  sendCtr : List (Pair × Nat) := []
  recvCtr : List (Pair × Nat) := []
  /-- receiving MAC keys that "were actually used to verify a MAC on a message", by pair -/
  verified : List (Pair × Bytes) := []
  /-- retired receiving MAC keys waiting for "the next Data Message you send": those that were used
      (must be revealed) and all that the retired keys generated (may be revealed) -/
  mustReveal : List Bytes := []
  mayReveal : List Bytes := []
  /-- MSGSTATE_FINISHED after a type 1 TLV -/
  finished : Bool := false

/-- "When starting a private conversation": the D-H keys of the AKE are our_dh[keyid], their_y[keyid]
    with the key ids announced in the AKE; the next key (our_keyid = keyid+1) is `fresh`. -/
def startBob (K : Crypto) (a : Ake) (fresh : Nat) : Party where
  ver := a.inp.ver
  ourTag := a.inp.tagB
  theirTag := a.inp.tagA
  ourKeyId := a.inp.keyidB + 1
  ourCur := ⟨fresh, dhPublic K fresh⟩
  ourPrev := ⟨a.inp.x, a.gx⟩
  theirKeyId := a.inp.keyidA
  theirCur := a.gy
  theirPrev := none

def startAlice (K : Crypto) (a : Ake) (fresh : Nat) : Party where
  ver := a.inp.ver
  ourTag := a.inp.tagA
  theirTag := a.inp.tagB
  ourKeyId := a.inp.keyidA + 1
  ourCur := ⟨fresh, dhPublic K fresh⟩
  ourPrev := ⟨a.inp.y, a.gy⟩
  theirKeyId := a.inp.keyidB
  theirCur := a.gx
  theirPrev := none

/-- A new AKE replaces a private conversation that is still open on this side: all of its D-H keys
    are forgotten at once, so "Revealing MAC keys" applies to every one of them — the receiving MAC
    keys that were used to verify a message must, all receiving MAC keys its key pairs generated
    may, be revealed in the next Data Message (of the new conversation). The same holds for a side that
    has seen the peer's disconnect (MSGSTATE_FINISHED): it cannot send anything until a new conversation
    begins, whose first Data Message is then "the next" one. `recvMacs` are the receiving MAC keys of
    the old side's four key pairs. -/
def Party.carryOver (old new : Party) (recvMacs : List Bytes) : Party :=
  let must := old.mustReveal ++ (old.verified.map (·.2)).filter (fun k => !old.mustReveal.contains k)
  { new with mustReveal := must, mayReveal := (old.mayReveal ++ recvMacs ++ must).eraseDups }

def Party.ourKey (p : Party) (id : Nat) : Option DHKey :=
  if id = 0 then none
  else if id = p.ourKeyId then some p.ourCur
  else if id + 1 = p.ourKeyId then some p.ourPrev
  else none

def Party.theirKey (p : Party) (id : Nat) : Option Nat :=
  if id = 0 then none
  else if id = p.theirKeyId then some p.theirCur
  else if id + 1 = p.theirKeyId then p.theirPrev
  else none

/-- the keys of the pair (our key `o`, their key `t`): "Uses Diffie-Hellman to compute a shared secret
    from the two keys" and then `Spec.dataKeys` -/
def Party.pairKeys (K : Crypto) (p : Party) (o t : Nat) : Option DataKeys :=
  match p.ourKey o, p.theirKey t with
  | some ok, some ty => some (dataKeys K ok.pub ty (sharedSecret K ty ok.priv))
  | _, _ => none

/-! ### Plaintext: message, NUL, TLVs -/

def parseTLVsAux : Nat → Bytes → Option (List (Nat × Bytes))
  | 0, b => if b.isEmpty then some [] else none
  | fuel + 1, b =>
    if b.isEmpty then some [] else
    match extractShort b with
    | none => none
    | some (ty, r1) =>
      match extractShort r1 with
      | none => none
      | some (len, r2) =>
        if r2.length < len then none
        else (parseTLVsAux fuel (r2.drop len)).map ((ty, r2.take len) :: ·)

/-- "a human-readable message, optionally followed by a single NUL and zero or more TLV records":
    `(message, NUL present, TLVs)`; `none` if what follows the NUL is not a sequence of whole TLVs -/
def parsePlaintext (p : Bytes) : Option (Bytes × Bool × List (Nat × Bytes)) :=
  let msg := p.takeWhile (· != 0)
  let rest := p.drop msg.length
  match rest with
  | [] => some (msg, false, [])
  | _ :: tl => (parseTLVsAux tl.length tl).map fun ts => (msg, true, ts)

/-- the plaintext the document describes for (message, NUL?, TLVs) -/
def buildPlaintext (msg : Bytes) (nul : Bool) (tlvs : List (Nat × Bytes)) : Bytes :=
  if nul then msg ++ [0] ++ (tlvs.map fun t => TLV t.1 t.2).flatten else plaintext msg tlvs

/-- read exactly `n` MPIs (minimum-length encoding) filling `b` -/
def exactMPIs (b : Bytes) : Option (List Nat) :=
  match extractMPIs b with
  | some (ns, []) => if smpPayload ns == b then some ns else none
  | _ => none

/-- things in a TLV the document says "should"/"must" be otherwise.  The names are part of the line
    protocol (the harness computes the same list from the library's message). -/
def tlvNotes (t : Nat × Bytes) : List String :=
  let smp (count : Nat) (name : String) (v : Bytes) : List String :=
    match exactMPIs v with
    | some ns => if ns.length = count then [] else [name ++ "-mpi-count"]
    | none => [name ++ "-malformed"]
  if t.1 = tlvSMP1 then smp 6 "smp1" t.2
  else if t.1 = tlvSMP2 then smp 11 "smp2" t.2
  else if t.1 = tlvSMP3 then smp 8 "smp3" t.2
  else if t.1 = tlvSMP4 then smp 3 "smp4" t.2
  else if t.1 = tlvSMP1Q then
    let q := t.2.takeWhile (· != 0)
    match t.2.drop q.length with
    | [] => ["smp1q-no-nul"]
    | _ :: v => smp 6 "smp1q" v
  else if t.1 = tlvSMPAbort then
    -- "The associated length should be zero and the associated value should be empty."
    if t.2.isEmpty then [] else ["smp-abort-tlv-carries-value"]
  else if t.1 = tlvDisconnected then
    if t.2.isEmpty then [] else ["disconnected-tlv-carries-value"]
  else if t.1 = tlvExtraKey then
    if t.2.length < 4 then ["extra-key-tlv-short"] else []
  else []

/-! ### Sending a Data Message -/

/-- how the "Old MAC keys to be revealed" are chosen -/
inductive Reveal where
  /-- the reference's own choice: exactly the keys that must be revealed -/
  | auto
  /-- the sender's choice, to be checked: every key that must be revealed, only keys that may be, none twice -/
  | witness (keys : List Bytes)

def subsetB (a b : List Bytes) : Bool := a.all fun x => b.contains x

def Reveal.resolve (p : Party) : Reveal → Except String (List Bytes)
  | .auto => pure p.mustReveal
  | .witness ks =>
    if !subsetB p.mustReveal ks then throw "old-mac-keys:used-key-not-revealed"
    else if !subsetB ks p.mayReveal then throw "old-mac-keys:not-a-retired-receiving-key"
    else if ks.eraseDups.length != ks.length then throw "old-mac-keys:revealed-twice"
    else if !ks.all (·.length == 20) then throw "old-mac-keys:length"
    else pure ks

structure Sent where
  party : Party
  /-- the Data Message, binary -/
  binary : Bytes
  senderKeyId : Nat
  recipientKeyId : Nat
  counter : Nat
  extraKey : Bytes
  text : Bytes
  tlvs : List (Nat × Bytes)
  notes : List String

/-- "Sending a Data Message" for the plaintext `plain` (checked to be a legal one):
    key ids `Spec.sendKeyIds`, next D-H key our_dh[our_keyid], the pair's keys `Spec.dataKeys`,
    the smallest counter not yet used for the pair, `Spec.encryptData`, `Spec.dataMessage`
    (authenticator under the sending MAC key), the old MAC keys. -/
def Party.send (K : Crypto) (p : Party) (flags : Nat) (plain : Bytes) (rv : Reveal) : Except String Sent := do
  if p.finished then throw "not-encrypted"
  if flags ≥ 256 then throw "flags"
  let (msg, nul, tlvs) ← (parsePlaintext plain).elim (throw "plaintext-not-legal") pure
  if buildPlaintext msg nul tlvs != plain then throw "plaintext-not-legal"
  let (sk, rk) := sendKeyIds p.ourKeyId p.theirKeyId
  if sk = 0 ∨ rk = 0 then throw "keyid-zero"
  let keys ← (p.pairKeys K sk rk).elim (throw "no-keys") pure
  let ctr := ((lookupPair p.sendCtr (sk, rk)).getD 0) + 1
  if ctr ≥ 18446744073709551616 then throw "counter-exhausted"
  let topHalf := fixedBE 8 ctr
  let enc ← (encryptData K keys.sendAES topHalf plain).elim (throw "aes") pure
  let old ← rv.resolve p
  let d : DataMessage :=
    { flags, senderKeyId := sk, recipientKeyId := rk, nextDH := p.ourCur.pub, topHalf, encMsg := enc,
      oldMacKeys := old.flatten }
  let hdr := header p.ver msgTypeData p.ourTag p.theirTag
  let bin := dataMessage K keys.sendMAC hdr d
  let p' := { p with sendCtr := setPair p.sendCtr (sk, rk) ctr, mustReveal := [], mayReveal := [] }
  return { party := p', binary := bin, senderKeyId := sk, recipientKeyId := rk, counter := ctr,
           extraKey := keys.extraKey, text := msg, tlvs, notes := (tlvs.map tlvNotes).flatten }

/-- the extra symmetric key that goes with the next message we send -/
def Party.extraKey (K : Crypto) (p : Party) : Option Bytes :=
  let (sk, rk) := sendKeyIds p.ourKeyId p.theirKeyId
  (p.pairKeys K sk rk).map (·.extraKey)

/-! ### Receiving a Data Message -/

structure Received where
  party : Party
  flags : Nat
  text : Bytes
  tlvs : List (Nat × Bytes)
  /-- for a type 8 TLV: (use, use-specific data, the extra symmetric key) -/
  extra : Option (Nat × Bytes × Bytes)
  revealed : List Bytes

structure Parsed where
  hdr : Bytes
  d : DataMessage
  mac : Bytes
  old : Bytes

/-- dissect the binary form of a Data Message addressed by `theirTag` to `ourTag` -/
def parseDataMessage (ver : Version) (ourTag theirTag : Nat) (bin : Bytes) : Option Parsed := do
  let hl := match ver with | .v2 => 3 | .v3 => 11
  let hdr := bin.take hl
  if hdr != header ver msgTypeData theirTag ourTag then none
  let (flags, b) ← extractByte (bin.drop hl)
  let (sk, b) ← extractWord b
  let (rk, b) ← extractWord b
  let (yb, b) ← extractData b
  -- "MPIs must use the minimum-length encoding"
  if MPI (bytesToNat yb) != DATA yb then none
  let (top, b) ← extractFixedData b 8
  let (enc, b) ← extractData b
  let (mac, b) ← extractFixedData b 20
  let (old, b) ← extractData b
  if ¬ b.isEmpty then none
  if old.length % 20 != 0 then none
  pure { hdr, d := { flags, senderKeyId := sk, recipientKeyId := rk, nextDH := bytesToNat yb, topHalf := top,
                     encMsg := enc, oldMacKeys := old }, mac, old }

/-- the receiving MAC key of pair (o, t), if both keys are held -/
def Party.recvMac (K : Crypto) (p : Party) (o t : Nat) : List Bytes :=
  match p.pairKeys K o t with
  | some k => [k.recvMAC]
  | none => []

/-- "Receiving a Data Message" in MSGSTATE_ENCRYPTED: "Verify the information (MAC, keyids, ctr value,
    etc.)"; decrypt; then
      "If the recipient keyid in the Data message equals our_keyid": forget our_dh[our_keyid−1],
         our_keyid += 1 and the new our_dh[our_keyid] is `fresh`;
      "If the sender keyid equals their_keyid": forget their_y[their_keyid−1], their_keyid += 1 and
         their_y[their_keyid] is the "next D-H key" of the message;
    with, for every key that is forgotten, "Revealing MAC keys": "take all of the receiving MAC keys
    that were generated by that key (... up to two ...; but note that you only need to take MAC keys
    that were actually used to verify a MAC on a message)".
    `fresh`: our next secret exponent, consumed exactly when our keys rotate. -/
def Party.receive (K : Crypto) (p : Party) (bin : Bytes) (fresh : Option Nat) : Except String Received := do
  if p.finished then throw "not-encrypted"
  let m ← (parseDataMessage p.ver p.ourTag p.theirTag bin).elim (throw "malformed") pure
  let sk := m.d.senderKeyId
  let rk := m.d.recipientKeyId
  if sk = 0 ∨ rk = 0 then throw "keyid-zero"
  let keys ← (p.pairKeys K rk sk).elim (throw "keyid-unknown") pure
  if dataMessageAuthenticator K keys.recvMAC m.hdr m.d != m.mac then throw "mac"
  let ctr := bytesToNat m.d.topHalf
  if ctr = 0 then throw "counter-zero"
  if ctr ≤ (lookupPair p.recvCtr (rk, sk)).getD 0 then throw "counter-not-increasing"
  if ¬ validDHPublicB m.d.nextDH then throw "next-dh-out-of-range"
  let plain ← (encryptData K keys.recvAES m.d.topHalf m.d.encMsg).elim (throw "aes") pure
  let (text, _, tlvs) ← (parsePlaintext plain).elim (throw "plaintext-not-legal") pure
  let rotateOurs : Bool := rk == p.ourKeyId
  let rotateTheirs : Bool := sk == p.theirKeyId
  if rotateOurs ∧ fresh.isNone then throw "fresh-key-missing"
  if ¬ rotateOurs ∧ fresh.isSome then throw "fresh-key-unexpected"
  let verified := setPair p.verified (rk, sk) keys.recvMAC
  -- keys generated by our_dh[our_keyid−1] resp. their_y[their_keyid−1], which are about to be forgotten
  let oRet := p.ourKeyId - 1
  let tRet := p.theirKeyId - 1
  let mayO := if rotateOurs then p.recvMac K oRet p.theirKeyId ++ p.recvMac K oRet tRet else []
  let mayT := if rotateTheirs then p.recvMac K p.ourKeyId tRet ++ p.recvMac K oRet tRet else []
  let retired (e : Pair × Bytes) : Bool := (rotateOurs && e.1.1 == oRet) || (rotateTheirs && e.1.2 == tRet)
  let must := (verified.filter retired).map (·.2)
  let live {α} (l : List (Pair × α)) : List (Pair × α) :=
    l.filter fun e => !((rotateOurs && e.1.1 == oRet) || (rotateTheirs && e.1.2 == tRet))
  let p1 : Party :=
    { p with
      recvCtr := live (setPair p.recvCtr (rk, sk) ctr)
      sendCtr := live p.sendCtr
      verified := live verified
      mustReveal := p.mustReveal ++ must.filter (fun k => !p.mustReveal.contains k)
      mayReveal := (p.mayReveal ++ mayO ++ mayT ++ must).eraseDups }
  let p2 : Party :=
    match rotateOurs, fresh with
    | true, some f => { p1 with ourKeyId := p1.ourKeyId + 1, ourPrev := p1.ourCur, ourCur := ⟨f, dhPublic K f⟩ }
    | _, _ => p1
  let p3 : Party :=
    if rotateTheirs then
      { p2 with theirKeyId := p2.theirKeyId + 1, theirPrev := some p2.theirCur, theirCur := m.d.nextDH }
    else p2
  let extra := (tlvs.find? fun t => t.1 == tlvExtraKey && t.2.length ≥ 4).map fun t =>
    (bytesToNat (t.2.take 4), t.2.drop 4, keys.extraKey)
  -- "Type 1: Disconnected — ... transition to MSGSTATE_FINISHED"
  let p4 := if tlvs.any (·.1 == tlvDisconnected) then { p3 with finished := true } else p3
  return { party := p4, flags := m.d.flags, text, tlvs, extra,
           revealed := chunks 20 m.old }

end Otr.SpecRef
