/-
  Otr.Keys — key management context: DH key generations, per-pair counters,
  MAC key history, reveal queue, session key derivation.
  Go anchor: key_management.go (as repaired: keys → MAC → counter order, one history
  entry per pair, counters pruned on rotation), wipe.go.

  Key ids and counters are `Nat`; the Go types are uint32 / uint64.  Wrap-around of a key id
  needs 2^32 rotations of one session and is not modelled (DESIGN §6).
-/
import Otr.Crypto
import Otr.Codec
import Otr.Msg
namespace Otr

/-- errors are compared by class only -/
inductive Err where
  | conflict (msg : String)          -- newOtrConflictError
  | other (msg : String)             -- newOtrError / anything else
  | invalidMessage                   -- errInvalidOTRMessage
  | otherInstance                    -- errReceivedMessageForOtherInstance
  | notInPrivate                     -- errMessageNotInPrivate
  | shortRandom                      -- errShortRandomRead
  | unsupportedVersion               -- errUnsupportedOTRVersion
  | wrongVersion                     -- errWrongProtocolVersion
  | invalidVersion                   -- errInvalidVersion
  | noKeyForVersion                  -- errors.New("no possible key for current version")
  | notWaitingForSecret              -- errNotWaitingForSMPSecret
  | cantAuthenticate                 -- errCantAuthenticateWithoutEncryption
  | corruptEncSig                    -- errCorruptEncryptedSignature
  deriving Repr, DecidableEq

def Err.isConflict : Err → Bool
  | .conflict _ => true
  | _ => false

def Err.cls : Err → String
  | .conflict _ => "conflict"
  | _ => "err"

structure DhPair where
  pub : Nat
  priv : Bytes
  deriving Repr, DecidableEq

structure Counter where
  ourKeyID : Nat
  theirKeyID : Nat
  ourCounter : Nat
  theirCounter : Nat
  deriving Repr, DecidableEq

structure MacUse where
  ourKeyID : Nat
  theirKeyID : Nat
  key : Bytes
  deriving Repr, DecidableEq

structure Keys where
  ourKeyID : Nat := 0
  theirKeyID : Nat := 0
  ourCur : Option DhPair := none
  ourPrev : Option DhPair := none
  theirCur : Option Nat := none
  theirPrev : Option Nat := none
  counters : List Counter := []
  macHistory : List MacUse := []
  oldMACKeys : List Bytes := []
  deriving Repr, DecidableEq

structure SessionKeys where
  sendAES : Bytes
  recvAES : Bytes
  sendMAC : Bytes
  recvMAC : Bytes
  extraKey : Bytes
  deriving Repr, DecidableEq

/-- calculateDHSessionKeys (the pure function) -/
def sessionKeysOf (K : Crypto) (ourPriv : Bytes) (ourPub theirPub : Nat) : SessionKeys :=
  let (sendbyte, recvbyte) : UInt8 × UInt8 := if ourPub > theirPub then (1, 2) else (2, 1)
  let s := K.gexp theirPub (bytesToNat ourPriv)
  let secbytes := appendMPI [] s
  let sendAES := (K.hash1 (sendbyte :: secbytes)).take keyLength
  let recvAES := (K.hash1 (recvbyte :: secbytes)).take keyLength
  ⟨sendAES, recvAES, K.hash1 sendAES, K.hash1 recvAES, K.hash2 (0xFF :: secbytes)⟩

/-- pickOurKeys -/
def Keys.pickOurKeys (k : Keys) (id : Nat) : Except Err (Option DhPair) :=
  if id = 0 ∨ k.ourKeyID = 0 then .error (.conflict "invalid key id for local peer")
  else if id = k.ourKeyID then .ok k.ourCur
  else if id = k.ourKeyID - 1 then .ok k.ourPrev
  else .error (.conflict "mismatched key id for local peer")

/-- pickTheirKey -/
def Keys.pickTheirKey (k : Keys) (id : Nat) : Except Err (Option Nat) :=
  if id = 0 ∨ k.theirKeyID = 0 then .error (.conflict "invalid key id for remote peer")
  else if id = k.theirKeyID then .ok k.theirCur
  else if id = k.theirKeyID - 1 then
    match k.theirPrev with
    | none => .error (.conflict "no previous key for remote peer found")
    | some v => .ok (some v)
  else .error (.conflict "mismatched key id for remote peer")

/-- deriveDHSessionKeys (repaired: a key generation that was never filled in is a conflict error,
    not a nil dereference) -/
def Keys.deriveSessionKeys (K : Crypto) (k : Keys) (ourID theirID : Nat) : Except Err SessionKeys :=
  match k.pickOurKeys ourID with
  | .error e => .error e
  | .ok ours =>
    match k.pickTheirKey theirID with
    | .error e => .error e
    | .ok theirs =>
      match ours, theirs with
      | some o, some t => .ok (sessionKeysOf K o.priv o.pub t)
      | _, _ => .error (.conflict "no key found for key id")

/-- macKeyHistory.addKeys (one entry per pair) -/
def addMacKey (h : List MacUse) (ourID theirID : Nat) (key : Bytes) : List MacUse :=
  if h.any (fun u => u.ourKeyID == ourID && u.theirKeyID == theirID) then h
  else h ++ [⟨ourID, theirID, key⟩]

/-- counterHistory.findCounterFor: the entry, and the history with the entry present -/
def findCounter (cs : List Counter) (ourID theirID : Nat) : Counter × List Counter :=
  match cs.find? (fun c => c.ourKeyID == ourID && c.theirKeyID == theirID) with
  | some c => (c, cs)
  | none => (⟨ourID, theirID, 0, 0⟩, cs ++ [⟨ourID, theirID, 0, 0⟩])

def updateCounter (cs : List Counter) (c : Counter) : List Counter :=
  cs.map fun x => if x.ourKeyID == c.ourKeyID && x.theirKeyID == c.theirKeyID then c else x

/-- checkMessageCounter: error, or the history with the counter advanced -/
def Keys.checkMessageCounter (k : Keys) (recipientKeyID senderKeyID ctr : Nat) : Keys × Option Err :=
  let (c, cs) := findCounter k.counters recipientKeyID senderKeyID
  if ctr ≤ c.theirCounter then ({ k with counters := cs }, some (.conflict "counter regressed"))
  else ({ k with counters := updateCounter cs { c with theirCounter := ctr } }, none)

/-- one step of deleteKeysAt: items[i] = items[last]; items = items[:last] -/
def swapRemove {α} (l : List α) (i : Nat) : List α :=
  match l.getLast? with
  | none => l
  | some lastEl => (l.set i lastEl).dropLast

def indicesWhere {α} (p : α → Bool) (l : List α) : List Nat :=
  (l.zipIdx.filter (fun x => p x.1)).map (·.2)

/-- forgetMACKeysForOurKey / ForTheirKey: revealed keys (in item order) and the remaining items
    (in the order Go's swap-delete leaves them) -/
def forgetMacKeys (h : List MacUse) (p : MacUse → Bool) : List Bytes × List MacUse :=
  let ret := (h.filter p).map (·.key)
  let del := indicesWhere p h
  (ret, del.reverse.foldl swapRemove h)

/-- revealMACKeys -/
def Keys.revealMACKeys (k : Keys) : List Bytes × Keys := (k.oldMACKeys, { k with oldMACKeys := [] })

/-- rotateOurKeys; `newPriv` is the result of randSizedSecret(40): none = randomness failure -/
def Keys.rotateOurKeys (K : Crypto) (k : Keys) (recipientKeyID : Nat) (newPriv : Option Bytes) : Keys × Option Err :=
  if recipientKeyID = k.ourKeyID then
    -- repaired code: the new key is drawn first; on failure nothing has changed
    match newPriv with
    | none => (k, some .shortRandom)
    | some priv =>
      let (rev, hist) := forgetMacKeys k.macHistory (fun u => u.ourKeyID == k.ourKeyID - 1)
      let k := { k with macHistory := hist, oldMACKeys := k.oldMACKeys ++ rev,
                        counters := k.counters.filter (fun c => c.ourKeyID != k.ourKeyID - 1) }
      ({ k with ourPrev := k.ourCur, ourCur := some ⟨K.gexp dhG (bytesToNat priv), priv⟩, ourKeyID := k.ourKeyID + 1 }, none)
  else (k, none)

/-- does rotateOurKeys read randomness for this recipient key id -/
def Keys.rotatesOur (k : Keys) (recipientKeyID : Nat) : Bool := recipientKeyID == k.ourKeyID

/-- rotateTheirKey -/
def Keys.rotateTheirKey (k : Keys) (senderKeyID y : Nat) : Keys :=
  if senderKeyID = k.theirKeyID then
    let (rev, hist) := forgetMacKeys k.macHistory (fun u => u.theirKeyID == k.theirKeyID - 1)
    { k with macHistory := hist, oldMACKeys := k.oldMACKeys ++ rev,
             counters := k.counters.filter (fun c => c.theirKeyID != k.theirKeyID - 1),
             theirPrev := k.theirCur, theirCur := some y, theirKeyID := k.theirKeyID + 1 }
  else k

/-- generateNewDHKeyPair (also used directly by akeHasFinished) -/
def Keys.generateNewDHKeyPair (K : Crypto) (k : Keys) (newPriv : Option Bytes) : Keys × Option Err :=
  match newPriv with
  | none => (k, some .shortRandom)
  | some priv =>
    ({ k with ourPrev := k.ourCur, ourCur := some ⟨K.gexp dhG (bytesToNat priv), priv⟩, ourKeyID := k.ourKeyID + 1 }, none)

/-- keyManagementContext.wipeAndKeepRevealKeys -/
def Keys.wipeAndKeepRevealKeys (k : Keys) : Keys := { oldMACKeys := k.oldMACKeys }

/-- calculateAKEKeys: ssid, revealSig keys (c, m1, m2), signature keys (c', m1', m2') -/
structure AkeKeys where
  c : Bytes := []
  m1 : Bytes := []
  m2 : Bytes := []
  deriving Repr, DecidableEq

def calculateAKEKeys (K : Crypto) (s : Nat) : Bytes × AkeKeys × AkeKeys :=
  let secbytes := appendMPI [] s
  let keys := K.hash2 (0x01 :: secbytes)
  let ssid := (K.hash2 (0x00 :: secbytes)).take 8
  (ssid, ⟨keys.take 16, K.hash2 (0x02 :: secbytes), K.hash2 (0x03 :: secbytes)⟩,
         ⟨keys.drop 16, K.hash2 (0x04 :: secbytes), K.hash2 (0x05 :: secbytes)⟩)

end Otr
