/-
  Otr.Conv — the conversation: state, AKE, data messages, TLVs, SMP glue, send/receive/end.
  Go anchors: conversation.go, receive.go, send.go, data_message.go, ake.go,
  auth_state_machine.go, otrv2.go/otrv3.go (headers, instance tags), version.go, query.go,
  whitespace.go, resend.go, heartbeat.go, inject_message.go, disconnect.go, extra_key.go,
  error_codes.go, instance_tags.go, authenticate.go, smp_state_machine.go, wipe.go.

  Execution model: every API call is a run of `M` over the conversation plus a per-call
  environment (the randomness reads and signing-oracle answers the real run consumed, and the
  virtual clock), producing events.  A Go panic is the `Res.panic` outcome.
-/
import Otr.Keys
import Otr.Wire
import Otr.B64
import Otr.Smp
namespace Otr

inductive MsgState where
  | plainText | encrypted | finished
  deriving Repr, DecidableEq, Inhabited

def MsgState.toNat : MsgState → Nat
  | .plainText => 0 | .encrypted => 1 | .finished => 2

inductive WsState where
  | notSent | sent | rejected
  deriving Repr, DecidableEq, Inhabited

def WsState.toNat : WsState → Nat
  | .notSent => 0 | .sent => 1 | .rejected => 2

inductive AuthState where
  | none | awaitingDHKey | awaitingRevealSig | awaitingSig (revealSigMsg : Bytes)
  deriving Repr, DecidableEq, Inhabited

def AuthState.toNat : AuthState → Nat
  | .none => 0 | .awaitingDHKey => 1 | .awaitingRevealSig => 2 | .awaitingSig _ => 3

structure Ake where
  secretExponent : Option Bytes := none
  ourPublicValue : Option Nat := none
  theirPublicValue : Option Nat := none
  r : Bytes := List.replicate 16 0
  encryptedGx : Bytes := []
  xhashedGx : Bytes := []
  revealKey : AkeKeys := {}
  sigKey : AkeKeys := {}
  ssid : Bytes := List.replicate 8 0
  /-- whether we sent the Reveal Signature message of the exchange in progress (repaired code) -/
  sentRevealSig : Bool := false
  state : AuthState := .none
  keys : Keys := {}
  lastStateChange : Option Nat := none
  deriving Repr, DecidableEq

inductive Retx where
  | no | withPrefix | exact
  deriving Repr, DecidableEq, Inhabited

def Retx.toNat : Retx → Nat
  | .no => 0 | .withPrefix => 1 | .exact => 2

structure Conv where
  version : Option Version := none
  msgState : MsgState := .plainText
  wsState : WsState := .notSent
  lastMessageStateChange : Option Nat := none
  ourTag : Nat := 0
  theirTag : Nat := 0
  ssid : Bytes := List.replicate 8 0
  /-- c.ourKeys: public parts of our long-term keys (signing is an oracle) -/
  ourKeys : List DsaPub := []
  ourCurrentKey : Option DsaPub := none
  theirKey : Option DsaPub := none
  ake : Option Ake := none
  smp : Smp := {}
  keys : Keys := {}
  policies : Policies := 0
  heartbeatLastSent : Option Nat := none
  mayRetransmit : Retx := .no
  retransmitting : Bool := false
  resendMsgs : List Bytes := []
  injections : List Bytes := []
  fragmentSize : Nat := 0
  fragCtx : FragCtx := FragCtx.empty
  sentRevealSig : Bool := false
  friendlyQuery : Bytes := []
  /-- is an ErrorMessageHandler installed (it answers code n with the bytes "E<n>") -/
  errHandler : Bool := false
  deriving Repr, DecidableEq

/-! ### the execution monad -/

structure Env where
  /-- results of the successive Read calls on Conversation.Rand: bytes, or none = error -/
  rand : List (Option Bytes) := []
  /-- signing oracle: (digest the implementation asked to sign, signature or none = failure) -/
  sigs : List (Bytes × Option Bytes) := []
  now : Nat := 0
  deriving Repr

structure MState where
  conv : Conv
  env : Env
  events : List String := []
  /-- places where the recorded trace and the model disagree on what is consumed -/
  mismatch : List String := []

abbrev M := ExceptT Err (StateT MState Res)

def getc : M Conv := do return (← get).conv
def modc (f : Conv → Conv) : M Unit := modify fun s => { s with conv := f s.conv }
def setc (c : Conv) : M Unit := modc fun _ => c
def ev (s : String) : M Unit := modify fun st => { st with events := st.events ++ [s] }
def mism (s : String) : M Unit := modify fun st => { st with mismatch := st.mismatch ++ [s] }
def goPanic {α} (site : String) : M α := ExceptT.lift (StateT.lift (Res.panic site))
def now : M Nat := do return (← get).env.now

/-- io.ReadFull(c.rand(), buf[n]): accumulate recorded reads until n bytes; none = errShortRandomRead -/
def randReadAux : Nat → Nat → Bytes → M (Option Bytes)
  | 0, _, _ => do mism "rand-fuel"; return none
  | fuel + 1, n, acc => do
    if acc.length = n then return some acc
    let st ← get
    match st.env.rand with
    | [] => do mism s!"rand-exhausted need={n}"; return none
    | none :: rest => do
      set { st with env := { st.env with rand := rest } }
      return none
    | some b :: rest => do
      set { st with env := { st.env with rand := rest } }
      if acc.length + b.length > n then do mism s!"rand-size need={n} got={acc.length + b.length}"; return none
      else if b.isEmpty then do mism "rand-empty-read"; return none
      else randReadAux fuel n (acc ++ b)

def randRead (n : Nat) : M (Option Bytes) :=
  if n = 0 then return some [] else randReadAux (n + 1) n []

/-- c.randomInto / randMPI / randSecret -/
def randomInto (n : Nat) : M Bytes := do
  match ← randRead n with
  | some b => return b
  | none => throw .shortRandom

/-- ourCurrentKey.Sign(c.rand(), mb) through the oracle -/
def signOracle (mb : Bytes) : M (Option Bytes) := do
  let st ← get
  match st.env.sigs with
  | [] => do mism "sign-exhausted"; return none
  | (d, s) :: rest => do
    set { st with env := { st.env with sigs := rest } }
    if d ≠ mb then mism s!"sign-input model={toHex mb} impl={toHex d}"
    return s

/-! ### events (formats shared with the Go harness) -/

def msgEvent (n : Nat) : M Unit := ev s!"msg:{n}"
def msgEventMsg (n : Nat) (m : Bytes) : M Unit := ev s!"msg:{n}:{if m.isEmpty then "-" else toHex m}"
def msgEventErr (n : Nat) : M Unit := ev s!"msg:{n}:err"
def secEvent (n : Nat) : M Unit := ev s!"sec:{n}"
def smpEvent (n pct : Nat) : M Unit := ev s!"smp:{n}:{pct}"
def smpEventQ (n pct : Nat) (q : Bytes) : M Unit := ev s!"smp:{n}:{pct}:{if q.isEmpty then "-" else toHex q}"

-- MessageEvent numbers (message_events.go)
def evEncryptionRequired := 0
def evEncryptionError := 1
def evConnectionEnded := 2
def evSetupError := 3
def evMessageReflected := 4
def evMessageSent := 5
def evMessageResent := 6
def evNotInPrivate := 7
def evUnreadable := 8
def evMalformed := 9
def evHeartbeatReceived := 10
def evHeartbeatSent := 11
def evGeneralError := 12
def evUnencrypted := 13
def evUnrecognized := 14
def evOtherInstance := 15
-- SecurityEvent
def secGoneInsecure := 0
def secGoneSecure := 1
def secStillSecure := 2
-- SMPEvent
def smpError := 0
def smpAbort := 1
def smpCheated := 2
def smpAskForAnswer := 3
def smpAskForSecret := 4
def smpInProgress := 5
def smpSuccess := 6
def smpFailure := 7
-- ErrorCode
def ecEncryptionError := 0
def ecUnreadable := 1
def ecMalformed := 2

def errorMarker : Bytes := strBytes "?OTR Error:"
def msgMarker : Bytes := strBytes "?OTR:"

/-- generatePotentialErrorMessage -/
def generatePotentialErrorMessage (code : Nat) : M Unit := do
  if (← getc).errHandler then
    modc fun c => { c with injections := c.injections ++ [errorMarker ++ [32] ++ strBytes s!"E{code}"] }

/-- malformedMessage -/
def malformedMessage : M Unit := do
  msgEvent evMalformed
  generatePotentialErrorMessage ecMalformed

/-! ### instance tags and headers (instance_tags.go, otrv2.go, otrv3.go) -/

/-- generateInstanceTag: draw 4 bytes until the value is ≥ 0x100 (bounded by the recorded reads) -/
def generateInstanceTagAux : Nat → M Unit
  | 0 => do mism "itag-fuel"; throw .shortRandom
  | fuel + 1 => do
    let b ← randomInto 4
    let v := bytesToNat b
    if v < 0x100 then generateInstanceTagAux fuel else modc fun c => { c with ourTag := v }

def generateInstanceTag : M Unit := do
  if (← getc).ourTag ≠ 0 then return ()
  let fuel := (← get).env.rand.length + 1
  generateInstanceTagAux fuel

/-- otrVersion.messageHeader -/
def messageHeader (msgType : Nat) : M Bytes := do
  match (← getc).version with
  | none => goPanic "messageHeader: nil version"
  | some .v2 => return appendShort [] 2 ++ [b8 msgType]
  | some .v3 =>
    generateInstanceTag
    let c ← getc
    return appendWord (appendWord (appendShort [] 3 ++ [b8 msgType]) c.ourTag) c.theirTag

def wrapMessageHeader (msgType : Nat) (msg : Bytes) : M Bytes := do
  return (← messageHeader msgType) ++ msg

/-- otrV3.verifyInstanceTags (repaired: validate, then adopt) -/
def verifyInstanceTags (their our : Nat) : M Unit := do
  if our > 0 ∧ our < 0x100 then do malformedMessage; throw .invalidMessage
  if their < 0x100 then do malformedMessage; throw .invalidMessage
  let c ← getc
  if (our ≠ 0 ∧ c.ourTag ≠ our) ∨ (c.theirTag ≠ 0 ∧ c.theirTag ≠ their) then do
    msgEvent evOtherInstance
    throw .otherInstance
  if c.theirTag = 0 then modc fun c => { c with theirTag := their }

/-- otrVersion.parseMessageHeader: (header, body) -/
def parseMessageHeader (msg : Bytes) : M (Bytes × Bytes) := do
  match (← getc).version with
  | none => goPanic "parseMessageHeader: nil version"
  | some .v2 =>
    if msg.length < 3 then throw .invalidMessage
    return (msg.take 3, msg.drop 3)
  | some .v3 =>
    if msg.length < 11 then do malformedMessage; throw .invalidMessage
    match extractWord (msg.drop 3) with
    | none => throw .invalidMessage   -- unreachable: length ≥ 11
    | some (sender, r1) =>
      match extractWord r1 with
      | none => throw .invalidMessage -- unreachable
      | some (receiver, body) =>
        verifyInstanceTags sender receiver
        return (msg.take 11, body)

/-! ### version (version.go) -/

/-- setKeyMatchingVersion: every DSA key is available for v2 and v3 -/
def setKeyMatchingVersion : M Unit := do
  match (← getc).ourKeys with
  | k :: _ => modc fun c => { c with ourCurrentKey := some k }
  | [] => throw .noKeyForVersion

/-- commitToVersionFrom -/
def commitToVersionFrom (versions : Nat) : M Unit := do
  let c ← getc
  if c.version.isSome then return ()
  match chooseVersion c.policies versions with
  | none => throw .unsupportedVersion
  | some v =>
    modc fun c => { c with version := some v }
    setKeyMatchingVersion

/-- `1 << messageVersion` as an int: zero once the shift count reaches the word size -/
def versionBit (v : Nat) : Nat := if v < 63 then 2 ^ v else 0

/-- checkVersion -/
def checkVersion (message : Bytes) : M Unit := do
  match extractShort message with
  | none => throw .invalidMessage
  | some (mv, _) =>
    commitToVersionFrom (versionBit mv)
    match (← getc).version with
    | none => goPanic "checkVersion: nil version"
    | some v => if v.num ≠ mv then throw .wrongVersion

/-! ### fragments (fragmentation.go, otrv3.go:parseFragmentPrefix) -/

/-- Conversation.parseFragmentPrefix: (rest, ignore, ok) -/
def parseFragmentPrefix (data : Bytes) : M (Bytes × Bool × Bool) := do
  let r ← tryCatch (do commitToVersionFrom (versionBit (versionFromFragment data)); pure true) (fun _ => pure false)
  if !r then return (data, true, false)
  match (← getc).version with
  | none => goPanic "parseFragmentPrefix: nil version"
  | some .v2 =>
    if data.length < 5 then return (data, false, false) else return (data.drop 5, false, true)
  | some .v3 =>
    -- repaired code: "?OTR|%x|%x," — the header ends at the first comma, whatever the width of the tags
    if !data.contains 44 then return (data, false, false)
    let headerPart := (splitOn 44 data).headD []
    match splitOn 124 headerPart with
    | _ :: s :: r :: _ =>
      match parseItag s, parseItag r with
      | some sender, some receiver =>
        let res ← tryCatch (do verifyInstanceTags sender receiver; pure (0 : Nat))
          (fun e => match e with
            | .invalidMessage => pure 1
            | .otherInstance => pure 2
            | _ => pure 0)
        match res with
        | 1 => return (data, false, false)
        | 2 => return (data, true, true)
        | _ => return (data.drop (headerPart.length + 1), false, true)
      | _, _ => return (data, false, false)
    | _ => return (data, false, false)

/-- receiveFragment: new context, or an error -/
def receiveFragment (before : FragCtx) (data : Bytes) : M FragCtx := do
  let c0 ← getc
  -- repaired code: a fragment that is rejected or discarded neither commits the conversation to its
  -- protocol version nor binds it to the instance it names
  let unbind : M Unit := modc fun c =>
    { c with version := if c0.version.isNone then none else c.version,
             ourCurrentKey := if c0.version.isNone then c0.ourCurrentKey else c.ourCurrentKey,
             theirTag := c0.theirTag }
  let (body, ignore, ok1) ← parseFragmentPrefix data
  let parsed := parseFragment body
  if ignore then do
    unbind
    msgEvent evOtherInstance
    return before
  match ok1, parsed with
  | true, some (d, ix, l) => do
    -- fragmentIsInvalid (illegal numbering) or out of sequence (neither the first piece nor the next
    -- one): the piece is discarded, it commits to nothing and binds nothing
    if (ix = 0 ∨ l = 0 ∨ ix > l) ∨ (ix ≠ 1 ∧ ¬((before.index + 1) % 65536 = ix ∧ before.len = l)) then unbind
    return fragAccept before d ix l
  | _, _ => do
    unbind
    throw (.other "invalid OTR fragment")

/-- fragEncode = fragment(encode(msg), fragmentSize) -/
def fragEncode (msg : Bytes) : M (List Bytes) := do
  let c ← getc
  let enc := msgMarker ++ b64encode msg ++ [46]
  let l := enc.length
  -- `fragment` only consults c.version when it actually fragments
  if l ≤ c.fragmentSize ∨ c.fragmentSize = 0 then return [enc]
  match c.version with
  | none => goPanic "fragment: nil version"
  | some v => return fragment v c.ourTag c.theirTag enc c.fragmentSize

/-! ### injections (inject_message.go) -/

def withInjects (vms : List Bytes) : M (List Bytes) := do
  let c ← getc
  modc fun c => { c with injections := [] }
  return vms ++ c.injections

/-! ### resend bookkeeping (resend.go) -/
def defaultResentPrefix : Bytes := strBytes "[resent] "

/-- resendContext.later -/
def resendLater (msg : Bytes) : M Unit := do
  if (← getc).retransmitting then return ()
  modc fun c => { c with resendMsgs := c.resendMsgs ++ [msg] }

/-- resendContext.last -/
def resendLast (msg : Bytes) : M Unit := do
  if (← getc).retransmitting then return ()
  modc fun c => { c with resendMsgs := [msg] }

def updateLastSent : M Unit := do
  let t ← now
  modc fun c => { c with heartbeatLastSent := some t }

/-! ### data messages (data_message.go) -/

/-- plainDataMsg.encrypt -/
def encryptPlain (K : Crypto) (key ctr : Bytes) (p : PlainDataMsg) : M Bytes := do
  match K.ctr key (ctr ++ List.replicate 8 0) (p.pad.serialize) with
  | some d => return d
  | none => return List.replicate (p.pad.serialize).length 0   -- counterEncipher error ignored: dst stays zero

/-- genDataMsgWithFlag: the data message (without header) and the extra key -/
def genDataMsgWithFlag (K : Crypto) (message : Bytes) (flag : Nat) (tlvs : List Tlv) : M (DataMsg × Bytes) := do
  let c ← getc
  if c.msgState ≠ .encrypted then throw (.conflict "cannot send message in unencrypted state")
  let sk ← match c.keys.deriveSessionKeys K (c.keys.ourKeyID - 1) c.keys.theirKeyID with
    | .error e => throw e
    | .ok sk => pure sk
  modc fun c => { c with keys := { c.keys with macHistory := addMacKey c.keys.macHistory (c.keys.ourKeyID - 1) c.keys.theirKeyID sk.recvMAC } }
  let c ← getc
  let (cnt, cs) := findCounter c.keys.counters (c.keys.ourKeyID - 1) c.keys.theirKeyID
  let ourCtr := if cnt.ourCounter = 0 then 1 else cnt.ourCounter
  let topHalf := be64 ourCtr
  modc fun c => { c with keys := { c.keys with counters := updateCounter cs { cnt with ourCounter := ourCtr + 1 } } }
  let enc ← encryptPlain K sk.sendAES topHalf ⟨message, tlvs⟩
  let header ← messageHeader msgTypeData
  let c ← getc
  let y ← match c.keys.ourCur with
    | some p => pure p.pub
    | none => goPanic "genDataMsg: nil ourCurrentDHKeys.pub"
  let (old, keys') := c.keys.revealMACKeys
  modc fun c => { c with keys := keys' }
  let raw := serializeUnsignedFields flag (c.keys.ourKeyID - 1) c.keys.theirKeyID y topHalf enc
  let auth := K.mac1 sk.sendMAC (header ++ raw)
  modc fun c => { c with mayRetransmit := .no }
  if message.length > 0 then resendLast message
  return (⟨flag, c.keys.ourKeyID - 1, c.keys.theirKeyID, y, topHalf, enc, auth, old, raw⟩, sk.extraKey)

/-- createSerializedDataMessage -/
def createSerializedDataMessage (K : Crypto) (msg : Bytes) (flag : Nat) (tlvs : List Tlv) : M (List Bytes × Bytes) := do
  let (dm, x) ← genDataMsgWithFlag K msg flag tlvs
  let res ← wrapMessageHeader msgTypeData dm.serialize
  updateLastSent
  return (← fragEncode res, x)

/-! ### AKE (ake.go, auth_state_machine.go) -/

def getAke : M Ake := do
  match (← getc).ake with
  | some a => return a
  | none => goPanic "nil c.ake"

def modAke (f : Ake → Ake) : M Unit := modc fun c => { c with ake := c.ake.map f }

/-- ake.wipe(wipeKeys) on a non-nil ake: every field to its zero value (state and lastStateChange stay) -/
def Ake.wiped (a : Ake) : Ake :=
  { state := a.state, lastStateChange := a.lastStateChange }

def DsaPub.serialize (k : DsaPub) : Bytes :=
  appendMPI (appendMPI (appendMPI (appendMPI [0, 0] k.p) k.q) k.g) k.y

def DsaPub.fingerprint (K : Crypto) (k : DsaPub) : Bytes := K.hash1 (k.serialize.drop 2)

/-- ParsePublicKey / DSAPublicKey.Parse: (key, rest) -/
def parsePublicKey (b : Bytes) : Option (DsaPub × Bytes) :=
  match extractShort b with
  | some (0, r0) =>
    match extractMPI r0 with
    | none => none
    | some (p, r1) =>
      match extractMPI r1 with
      | none => none
      | some (q, r2) =>
        match extractMPI r2 with
        | none => none
        | some (g, r3) =>
          match extractMPI r3 with
          | none => none
          | some (y, r4) => some (⟨p, q, g, y⟩, r4)
  | _ => none

/-- encrypt(key, data) of keys.go: AES-CTR with a zero IV (repaired code: the IV is its own buffer;
    before, `dst[:aes.BlockSize]` panicked for data shorter than one block) -/
def akeEncrypt (K : Crypto) (key data : Bytes) : M Bytes := do
  match K.ctr key (List.replicate 16 0) data with
  | some d => return d
  | none => return List.replicate data.length 0

/-- appendAll(one, two, publicKey, keyID) -/
def appendAll (one two : Nat) (pk : DsaPub) (keyID : Nat) : Bytes :=
  appendWord (appendMPI (appendMPI [] one) two ++ pk.serialize) keyID

def optNat (site : String) : Option Nat → M Nat
  | some v => pure v
  | none => goPanic site

/-- generateEncryptedSignature(key) → AppendData(nil, xb) -/
def generateEncryptedSignature (K : Crypto) (key : AkeKeys) : M Bytes := do
  let c ← getc
  -- repaired code: without a long-term key the exchange fails with an error (was: nil dereference)
  let pk ← match c.ourCurrentKey with
    | some k => pure k
    | none => throw (.other "no private key to sign the key exchange with")
  let a ← getAke
  let ours ← optNat "generateEncryptedSignature: nil ourPublicValue" a.ourPublicValue
  let theirs ← optNat "generateEncryptedSignature: nil theirPublicValue" a.theirPublicValue
  let verifyData := appendAll ours theirs pk a.keys.ourKeyID
  let mb := K.mac2 key.m1 verifyData
  let xb := appendWord pk.serialize a.keys.ourKeyID
  match ← signOracle mb with
  | none => throw .shortRandom
  | some sigb =>
    let enc ← akeEncrypt K key.c (xb ++ sigb)
    return appendData [] enc

/-- calcAKEKeys(calcDHSharedSecret()) -/
def calcAKEKeys (K : Crypto) : M Unit := do
  let a ← getAke
  let theirs ← optNat "calcDHSharedSecret: nil theirPublicValue" a.theirPublicValue
  let x ← match a.secretExponent with
    | some x => pure x
    | none => pure []     -- constbn ExpB with an empty exponent: base^0
  let s := K.gexp theirs (bytesToNat x)
  let (ssid, rk, sk) := calculateAKEKeys K s
  modAke fun a => { a with revealKey := rk, sigKey := sk, ssid := ssid }
  modc fun c => if c.msgState != .encrypted then { c with ssid := ssid } else c

/-- initAKE -/
def initAKE : M Unit := modc fun c => { c with ake := some {} }

/-- setSecretExponent -/
def setSecretExponent (K : Crypto) (x : Bytes) : M Unit :=
  modAke fun a => { a with secretExponent := some x, ourPublicValue := some (K.gexp dhG (bytesToNat x)) }

/-- serializeDHCommit(public) -/
def serializeDHCommit (K : Crypto) : M Bytes := do
  let a ← getAke
  let pub ← optNat "serializeDHCommit: nil ourPublicValue" a.ourPublicValue
  return (DhCommit.serialize ⟨a.encryptedGx, K.hash2 (appendMPI [] pub)⟩)

/-- dhCommitMessage -/
def dhCommitMessage (K : Crypto) : M Bytes := do
  initAKE
  let x ← randomInto 40
  setSecretExponent K x
  let r ← randomInto 16
  modAke fun a => { a with r := r }
  let a ← getAke
  let pub ← optNat "dhCommitMessage" a.ourPublicValue
  let enc ← akeEncrypt K r (appendMPI [] pub)
  modAke fun a => { a with encryptedGx := enc }
  serializeDHCommit K

/-- serializeDHKey -/
def serializeDHKey : M Bytes := do
  let a ← getAke
  let pub ← optNat "serializeDHKey: nil ourPublicValue" a.ourPublicValue
  return (DhKey.serialize ⟨pub⟩)

/-- dhKeyMessage -/
def dhKeyMessage (K : Crypto) : M Bytes := do
  initAKE
  let y ← randomInto 40
  setSecretExponent K y
  serializeDHKey

def resToM {α} : Res α → M α
  | .ok a => pure a
  | .panic s => goPanic s

/-- revealSigMessage -/
def revealSigMessage (K : Crypto) : M Bytes := do
  calcAKEKeys K
  modAke fun a => { a with keys := { a.keys with ourKeyID := a.keys.ourKeyID + 1 } }
  let a ← getAke
  let encSig ← generateEncryptedSignature K a.revealKey
  let macSig := K.mac2 a.revealKey.m2 encSig
  resToM (RevealSig.serialize ⟨a.r, encSig, macSig⟩)

/-- sigMessage -/
def sigMessage (K : Crypto) : M Bytes := do
  modAke fun a => { a with keys := { a.keys with ourKeyID := a.keys.ourKeyID + 1 } }
  let a ← getAke
  let encSig ← generateEncryptedSignature K a.sigKey
  let macSig := K.mac2 a.sigKey.m2 encSig
  resToM (Sig.serialize ⟨encSig, macSig⟩)

/-- processDHCommit -/
def processDHCommit (msg : Bytes) : M Unit := do
  match DhCommit.deserialize msg with
  | none => throw (.other "corrupt DH commit message")
  | some m => modAke fun a => { a with encryptedGx := m.encryptedGx, xhashedGx := m.hashedGx }

/-- processDHKey: isSame -/
def processDHKey (msg : Bytes) : M Bool := do
  match DhKey.deserialize msg with
  | none => throw (.other "corrupt DH key message")
  | some m =>
    if !isGroupElement m.gy then throw (.other "DH value out of range")
    let a ← getAke
    match a.theirPublicValue with
    | some t => return t == m.gy
    | none =>
      modAke fun a => { a with theirPublicValue := some m.gy }
      return false

/-- processEncryptedSig -/
def processEncryptedSig (K : Crypto) (encryptedSig theirMAC : Bytes) (keys : AkeKeys) : M Unit := do
  let myMAC := (K.mac2 keys.m2 (appendData [] encryptedSig)).take truncateLength
  if myMAC ≠ theirMAC then throw (.other "bad signature MAC in encrypted signature")
  let dec ← match K.ctr keys.c (List.replicate 16 0) encryptedSig with
    | some d => pure d
    | none => throw (.other "aes")
  -- repaired code: c.theirKey is restored on every failure, i.e. assigned only on success
  let (pk, rest) ← match parsePublicKey dec with
    | some r => pure r
    | none => throw .corruptEncSig
  let (keyID, sig) ← match extractWord rest with
    | some r => pure r
    | none => throw .corruptEncSig
  let a ← getAke
  let theirs ← optNat "expectedMessageHMAC: nil theirPublicValue" a.theirPublicValue
  let ours ← optNat "expectedMessageHMAC: nil ourPublicValue" a.ourPublicValue
  let mb := K.mac2 keys.m1 (appendAll theirs ours pk keyID)
  if sig.length < 40 then throw (.other "bad signature in encrypted signature")
  if !K.dsaVerify pk mb (bytesToNat (sig.take 20)) (bytesToNat ((sig.drop 20).take 20)) then
    throw (.other "bad signature in encrypted signature")
  if sig.length > 40 then throw .corruptEncSig
  modc fun c => { c with theirKey := some pk }
  modAke fun a => { a with keys := { a.keys with theirKeyID := keyID } }

/-- processRevealSig -/
def processRevealSig (K : Crypto) (msg : Bytes) : M Unit := do
  match RevealSig.deserialize msg with
  | none => throw (.other "corrupt reveal signature message")
  | some m =>
    let a ← getAke
    let decryptedGx ← match K.ctr m.r (List.replicate 16 0) a.encryptedGx with
      | some d => pure d
      | none => throw (.other "aes")
    if K.hash2 decryptedGx ≠ a.xhashedGx then throw (.other "bad commit MAC in reveal signature message")
    -- extractGx assigns theirPublicValue even when it then rejects it
    match extractMPI decryptedGx with
    | none =>
      modAke fun a => { a with theirPublicValue := none }
      throw (.other "gx corrupt after decryption")
    | some (gx, rest) =>
      modAke fun a => { a with theirPublicValue := some gx }
      if rest.length > 0 then throw (.other "gx corrupt after decryption")
      if !isGroupElement gx then throw (.other "DH value out of range")
      calcAKEKeys K
      let a ← getAke
      tryCatch (processEncryptedSig K m.encryptedSig m.macSig a.revealKey)
        (fun _ => throw (.other "in reveal signature message"))

/-- processSig -/
def processSig (K : Crypto) (msg : Bytes) : M Unit := do
  match Sig.deserialize msg with
  | none => throw (.other "corrupt signature message")
  | some m =>
    let a ← getAke
    tryCatch (processEncryptedSig K m.encryptedSig m.macSig a.sigKey)
      (fun _ => throw (.other "in signature message"))

/-- setTheirCurrentDHPubKey / setOurCurrentDHKeys on c.ake.keys -/
def akeSetTheirCurrent : M Unit := do
  let a ← getAke
  let t ← optNat "setTheirCurrentDHPubKey: nil" a.theirPublicValue
  modAke fun a => { a with keys := { a.keys with theirCur := some t } }

def akeSetOurCurrent : M Unit := do
  let a ← getAke
  let pub ← optNat "setOurCurrentDHKeys: nil pub" a.ourPublicValue
  let priv := a.secretExponent.getD []
  modAke fun a => { a with keys := { a.keys with ourCur := some ⟨pub, priv⟩ } }

/-- akeHasFinished; returns the error of generateNewDHKeyPair (state is changed regardless) -/
def akeHasFinished (K : Crypto) : M (Option Err) := do
  let a ← getAke
  -- repaired code: the MAC keys of the session that ends here (those waiting to be revealed and those
  -- used to accept messages) are carried over into the reveal queue of the new session
  modc fun c => { c with keys := { a.keys with oldMACKeys := a.keys.oldMACKeys ++ (c.keys.oldMACKeys ++ c.keys.macHistory.map (·.key)) },
                         ssid := if c.msgState == .encrypted then a.ssid else c.ssid,
                         sentRevealSig := if c.msgState == .encrypted then a.sentRevealSig else c.sentRevealSig }
  modAke fun a => a.wiped
  let c ← getc
  let prev := c.msgState
  let t ← now
  modc fun c => { c with lastMessageStateChange := some t, msgState := .encrypted }
  -- IsSame is pointer identity of the two key objects: a parsed key is never the same object
  let r ← randRead 40
  let c ← getc
  let (k, e) := c.keys.generateNewDHKeyPair K r
  modc fun c => { c with keys := k }
  -- deferred: StillSecure registered last runs first
  if prev == .encrypted then secEvent secStillSecure
  if prev != .encrypted then secEvent secGoneSecure
  return e

/-- run `x`; on a thrown error return the triple (state `onErr`, no message, the error) -/
def akeTry (onErr : AuthState) (x : M (AuthState × Option Bytes × Option Err)) : M (AuthState × Option Bytes × Option Err) :=
  tryCatch x (fun e => pure (onErr, none, some e))

/-- bytes.Compare(a, b) == 1 -/
def lexGreater : Bytes → Bytes → Bool
  | [], _ => false
  | _ :: _, [] => true
  | x :: xs, y :: ys => if x > y then true else if x < y then false else lexGreater xs ys

/-- authStateNone.receiveDHCommitMessage (also reached from AwaitingSig via authStateBase and from
    AwaitingDHKey when our hash is lower): on error the returned state is authStateNone -/
def recvDHCommitNone (K : Crypto) (msg : Bytes) : M (AuthState × Option Bytes × Option Err) :=
  akeTry .none do
    modAke fun a => a.wiped
    let m ← dhKeyMessage K
    let m ← wrapMessageHeader msgTypeDHKey m
    processDHCommit msg
    return (.awaitingRevealSig, some m, none)

def recvDHCommit (K : Crypto) (s : AuthState) (msg : Bytes) : M (AuthState × Option Bytes × Option Err) := do
  match s with
  | .none => recvDHCommitNone K msg
  | .awaitingSig _ =>
    -- repaired code: an unparsable DH-Commit must not disturb the exchange in progress
    if (DhCommit.deserialize msg).isNone then return (s, none, some (.other "corrupt DH commit message"))
    else recvDHCommitNone K msg
  | .awaitingRevealSig => akeTry s do
    if (DhCommit.deserialize msg).isNone then throw (.other "corrupt DH commit message")
    modAke fun a => { a with keys := a.keys.wipeAndKeepRevealKeys, xhashedGx := [], encryptedGx := [] }
    processDHCommit msg
    let m ← wrapMessageHeader msgTypeDHKey (← serializeDHKey)
    return (.awaitingRevealSig, some m, none)
  | .awaitingDHKey =>
    match extractData msg with
    | none => return (s, none, some .invalidMessage)
    | some (_, rest) =>
      match extractData rest with
      | none => return (s, none, some .invalidMessage)
      | some (theirHashedGx, _) =>
        let a ← getAke
        let pub ← optNat "awaitingDHKey.receiveDHCommit: nil ourPublicValue" a.ourPublicValue
        let hashedGx := K.hash2 (appendMPI [] pub)
        if lexGreater hashedGx theirHashedGx then akeTry s do
          let m ← wrapMessageHeader msgTypeDHCommit (← serializeDHCommit K)
          return (.awaitingRevealSig, some m, none)
        else recvDHCommitNone K msg

def recvDHKey (K : Crypto) (s : AuthState) (msg : Bytes) : M (AuthState × Option Bytes × Option Err) := do
  match s with
  | .none | .awaitingRevealSig => return (s, none, none)
  | .awaitingDHKey => akeTry s do
    let _ ← processDHKey msg
    let m ← revealSigMessage K
    let m ← wrapMessageHeader msgTypeRevealSig m
    akeSetTheirCurrent
    akeSetOurCurrent
    modAke fun a => { a with sentRevealSig := true }
    modc fun c => if c.msgState != .encrypted then { c with sentRevealSig := true } else c
    return (.awaitingSig m, some m, none)
  | .awaitingSig rs => akeTry s do
    let same ← processDHKey msg
    if same then return (s, some rs, none) else return (s, none, none)

def recvRevealSig (K : Crypto) (s : AuthState) (msg : Bytes) : M (AuthState × Option Bytes × Option Err) := do
  match s with
  | .awaitingRevealSig => akeTry s do
    let previousKey := (← getc).theirKey
    processRevealSig K msg
    -- repaired code: if the answer cannot be built the exchange has not completed, and the peer key
    -- of the conversation stays what it was
    let m ← tryCatch (do let m ← sigMessage K; wrapMessageHeader msgTypeSig m)
      (fun e => do modc (fun c => { c with theirKey := previousKey }); throw e)
    akeSetTheirCurrent
    akeSetOurCurrent
    modAke fun a => { a with sentRevealSig := false }
    modc fun c => { c with sentRevealSig := false }
    let e ← akeHasFinished K
    return (.none, some m, e)
  | _ => return (s, none, none)

def recvSig (K : Crypto) (s : AuthState) (msg : Bytes) : M (AuthState × Option Bytes × Option Err) := do
  match s with
  | .awaitingSig _ => akeTry s do
    processSig K msg
    akeSetTheirCurrent
    let e ← akeHasFinished K
    return (.none, none, e)
  | _ => return (s, none, none)

/-- retransmit (resend.go) -/
def retransmit (K : Crypto) : M (List Bytes) := do
  let c ← getc
  let msgs := c.resendMsgs
  modc fun c => { c with resendMsgs := [] }
  let resending := c.mayRetransmit == .withPrefix
  modc fun c => { c with retransmitting := true }
  let r ← tryCatch (do
      let mut ret : List Bytes := []
      for m in msgs do
        let m' := if resending then defaultResentPrefix ++ m else m
        let (dm, _) ← genDataMsgWithFlag K m' messageFlagNormal []
        let ts ← tryCatch (wrapMessageHeader msgTypeData dm.serialize) (fun _ => pure [])
        ret := ret ++ [ts]
      pure (some ret))
    (fun _ => pure none)
  match r with
  | none =>
    modc fun c => { c with retransmitting := false }
    return []          -- maybeRetransmit's error is dropped by processAKE; result nil
  | some ret =>
    for _ in msgs do
      msgEvent (if resending then evMessageResent else evMessageSent)
    updateLastSent
    modc fun c => { c with retransmitting := false }
    return ret

def maybeRetransmit (K : Crypto) : M (List Bytes) := do
  let c ← getc
  -- repaired code: nothing is dequeued unless the conversation is encrypted
  if c.resendMsgs.length > 0 ∧ c.mayRetransmit ≠ .no ∧ c.msgState = .encrypted then retransmit K else return []

/-- retransmitAfterCompletedExchange (repaired code): what waits for retransmission goes out when this
    message has completed a key exchange — not when it was rejected or ignored -/
def retransmitAfterCompletedExchange (K : Crypto) (before after : AuthState) (e : Option Err) : M (List Bytes) :=
  match before, after, e with
  | .none, _, _ => pure []
  | _, .none, none => do
    let toSend ← maybeRetransmit K
    -- MAC keys carried over from the session this exchange has replaced do not wait until the user says
    -- something (the queue would grow with every further exchange): if nothing else goes out, an empty
    -- data message reveals them right away
    if toSend.isEmpty && !(← getc).keys.oldMACKeys.isEmpty then
      tryCatch (do
          let (dm, _) ← genDataMsgWithFlag K [] messageFlagIgnoreUnreadable []
          let m ← wrapMessageHeader msgTypeData dm.serialize
          pure [m])
        (fun _ => pure [])
    else pure toSend
  | _, _, _ => pure []

/-- processAKE: messages to send, and the error (state changes are kept) -/
def processAKE (K : Crypto) (msgType : Nat) (msg : Bytes) : M (List Bytes × Option Err) := do
  if (← getc).ake.isNone then initAKE
  let s := (← getAke).state
  let (single, extra, err) ←
    if msgType = msgTypeDHCommit then do
      let (s', m, e) ← recvDHCommit K s msg
      modAke fun a => { a with state := s' }
      pure (m, [], e)
    else if msgType = msgTypeDHKey then do
      let (s', m, e) ← recvDHKey K s msg
      modAke fun a => { a with state := s' }
      pure (m, [], e)
    else if msgType = msgTypeRevealSig then do
      let (s', m, e) ← recvRevealSig K s msg
      modAke fun a => { a with state := s' }
      let extra ← retransmitAfterCompletedExchange K s s' e
      pure (m, extra, e)
    else if msgType = msgTypeSig then do
      let (s', m, e) ← recvSig K s msg
      modAke fun a => { a with state := s' }
      let extra ← retransmitAfterCompletedExchange K s s' e
      pure (m, extra, e)
    else pure (none, [], some (.other "unknown message type"))
  -- repaired code: a message that was rejected or ignored is no step of a key exchange; it does not
  -- make the conversation ignore the next query message
  let s2 := (← getAke).state
  if err.isNone && (s2.toNat != s.toNat || (match single with | some m => !m.isEmpty | none => false)) then do
    let t ← now
    modAke fun a => { a with lastStateChange := some t }
  let msgs := (match single with | some m => [m] | none => []) ++ extra
  return (msgs, err)

/-- sendDHCommit -/
def sendDHCommit (K : Crypto) : M Bytes := do
  modc fun c => { c with ake := none }
  let m ← dhCommitMessage K
  let m ← wrapMessageHeader msgTypeDHCommit m
  modAke fun a => { a with state := .awaitingDHKey }
  return m

/-- potentialAuthError -/
def potentialAuthError {α} (x : M α) : M α :=
  tryCatch x (fun e => do msgEventErr evSetupError; throw e)

/-! ### SMP glue (smp_state_machine.go, authenticate.go) -/

def smpSecretFor (K : Crypto) (initiator : Bool) (secret : Bytes) : M Nat := do
  let c ← getc
  let theirs ← match c.theirKey with
    | some k => pure (k.fingerprint K)
    | none => goPanic "generateSMPSecret: nil theirKey"
  let ours ← match c.ourCurrentKey with
    | some k => pure (k.fingerprint K)
    | none => goPanic "generateSMPSecret: nil ourCurrentKey"
  let (i, r) := if initiator then (ours, theirs) else (theirs, ours)
  return bytesToNat (K.hash2 ([1] ++ i ++ r ++ c.ssid ++ secret))

def paramLen : M Nat := do
  match (← getc).version with
  | some v => return v.parameterLength
  | none => goPanic "parameterLength: nil version"

/-- n × randMPI(b): all reads are attempted (firstError afterwards) -/
def randMPIs : Nat → Nat → M (List (Option Nat))
  | 0, _ => return []
  | k + 1, len => do
    let r ← randRead len
    let rest ← randMPIs k len
    return (r.map bytesToNat) :: rest

def allSome {α} : List (Option α) → Option (List α)
  | [] => some []
  | none :: _ => none
  | some a :: r => (allSome r).map (a :: ·)

def smpIsGroupElement : M (Nat → Bool) := do
  match (← getc).version with
  | some .v3 => return isGroupElement
  | some .v2 => return fun n => n % dhP != 0
  | none => goPanic "isGroupElement: nil version"

def smpWipe : M Unit := modc fun c => { c with smp := {} }

/-- smpStateExpect1.startAuthenticate -/
def startAuthenticateExpect1 (K : Crypto) (question secret : Bytes) : M (List Tlv) := do
  let c ← getc
  if c.msgState ≠ .encrypted then throw .cantAuthenticate
  let sec ← smpSecretFor K true secret
  let len ← paramLen
  match allSome (← randMPIs 4 len) with
  | some [a2, a3, r2, r3] =>
    let s1 := smp1Gen K a2 a3 r2 r3
    let msg := if question.isEmpty then s1.msg else { s1.msg with hasQuestion := true, question := question }
    let s1 := { s1 with msg := msg }
    -- repaired code: the secret is stored only once the call can no longer be refused
    modc fun c => { c with smp := { c.smp with secret := some sec, s1 := some s1, state := some .expect2 } }
    return [msg.tlv]
  | _ => throw .shortRandom

/-- the longest question that fits into an SMP TLV next to its terminator, the MPI count and six
    MPIs of at most 192 bytes (repaired code) -/
def maxSMPQuestionLength : Nat := 0xffff - 1 - 4 - 6 * (4 + 192)

/-- StartAuthenticate -/
def startAuthenticate (K : Crypto) (question secret : Bytes) : M (List Bytes) := do
  -- repaired code: the question is written NUL terminated
  if question.contains 0 then throw (.other "question must not contain a NUL byte")
  -- repaired code: the question travels in a TLV, whose length field has 16 bits
  if question.length > maxSMPQuestionLength then throw (.other "question too long for a TLV")
  let c ← getc
  if c.smp.state.isNone then modc fun c => { c with smp := { c.smp with state := some .expect1 } }
  let c ← getc
  let tlvs ← match c.smp.state with
    | some .expect1 => startAuthenticateExpect1 K question secret
    | _ => do
      -- smpStateBase.startAuthenticate: abort TLV first, then as in expect1 (error: abort TLV is lost too)
      let ts ← startAuthenticateExpect1 K question secret
      pure (smpAbortTlv :: ts)
  let (msgs, _) ← createSerializedDataMessage K [] messageFlagIgnoreUnreadable tlvs
  return msgs

/-- continueMessage1 in smpStateWaitingForSecret; other states: abortState(errNotWaitingForSMPSecret) -/
def continueSMP (K : Crypto) (secret : Bytes) : M Tlv := do
  let c ← getc
  match c.smp.state with
  | some (.waitingForSecret m1) =>
    if c.msgState ≠ .encrypted then do
      modc fun c => { c with smp := { c.smp with state := some .expect1 } }
      throw .cantAuthenticate
    let sec ← smpSecretFor K false secret
    modc fun c => { c with smp := { c.smp with secret := some sec } }
    let len ← paramLen
    match allSome (← randMPIs 7 len) with
    | some [b2, b3, r2, r3, r4, r5, r6] =>
      let s2 := smp2Gen K sec m1 b2 b3 r2 r3 r4 r5 r6
      modc fun c => { c with smp := { c.smp with s2 := some s2, state := some .expect3 } }
      return s2.msg.tlv
    | _ =>
      -- generateSMP2 failed: abortStateMachineAndNotifyCheated (nil error, abort message)
      smpEvent smpCheated 0
      modc fun c => { c with smp := { c.smp with state := some .expect1 } }
      return smpAbortTlv
  | _ =>
    -- repaired code: ensureSMP() first (a nil state becomes EXPECT1); nobody asked for a secret: the
    -- call is refused and changes nothing else
    modc fun c => { c with smp := { c.smp with state := some (c.smp.state.getD .expect1) } }
    throw .notWaitingForSecret

def provideAuthenticationSecret (K : Crypto) (secret : Bytes) : M (List Bytes) := do
  let t ← continueSMP K secret
  let (msgs, _) ← createSerializedDataMessage K [] messageFlagIgnoreUnreadable [t]
  return msgs

def abortAuthentication (K : Crypto) : M (List Bytes) := do
  modc fun c => { c with smp := { c.smp with state := some .expect1 } }
  let (msgs, _) ← createSerializedDataMessage K [] messageFlagIgnoreUnreadable [smpAbortTlv]
  return msgs

def setSmpState (s : SmpState) : M Unit := modc fun c => { c with smp := { c.smp with state := some s } }

/-- abortStateMachineAndNotifyCheated / NotifyError: state EXPECT1, reply abort TLV -/
def smpAbortWith (evn : Nat) : M (Option Tlv) := do
  smpEvent evn 0
  setSmpState .expect1
  return some smpAbortTlv

/-- processSMPTLV → receiveSMP → m.receivedMessage(c) -/
def processSMPTLV (K : Crypto) (t : Tlv) : M (Option Tlv) := do
  let c ← getc
  if c.smp.state.isNone then setSmpState .expect1
  let st := ((← getc).smp.state).getD .expect1
  let isGE ← smpIsGroupElement
  if t.typ = tlvTypeSMPAbort then do
    setSmpState .expect1
    smpEvent smpAbort 0
    return none
  else if t.typ = tlvTypeSMP1 ∨ t.typ = tlvTypeSMP1WithQuestion then
    match (if t.typ = tlvTypeSMP1 then toSmp1 t.value else toSmp1Q t.value) with
    | none => throw (.other "corrupt data message")
    | some m =>
      match st with
      | .expect1 =>
        if !smp1Verify K isGE m then smpAbortWith smpCheated
        else do
          if m.hasQuestion then do
            modc fun c => { c with smp := { c.smp with question := some m.question } }
            smpEventQ smpAskForAnswer 25 m.question
          else smpEvent smpAskForSecret 25
          setSmpState (.waitingForSecret m)
          return none
      | _ => smpAbortWith smpError
  else if t.typ = tlvTypeSMP2 then
    match toSmp2 t.value with
    | none => throw (.other "corrupt data message")
    | some m =>
      match st with
      | .expect2 =>
        let c ← getc
        match c.smp.s1 with
        | none => goPanic "receiveMessage2: nil smp.s1"
        | some s1 =>
          if !smp2Verify K isGE s1 m then smpAbortWith smpCheated
          else do
            let len ← paramLen
            match allSome (← randMPIs 4 len) with
            | some [r4, r5, r6, r7] =>
              let x ← optNat "generateSMP3: nil secret" c.smp.secret
              match smp3Gen K x s1 m r4 r5 r6 r7 with
              | .panic s => goPanic s
              | .ok s3 =>
                smpEvent smpInProgress 60
                modc fun c => { c with smp := { c.smp with s3 := some s3 } }
                setSmpState .expect4
                return some s3.msg.tlv
            | _ => smpAbortWith smpCheated
      | _ => smpAbortWith smpError
  else if t.typ = tlvTypeSMP3 then
    match toSmp3 t.value with
    | none => throw (.other "corrupt data message")
    | some m =>
      match st with
      | .expect3 =>
        let c ← getc
        match c.smp.s2 with
        | none => goPanic "receiveMessage3: nil smp.s2"
        | some s2 =>
          match smp3Verify K isGE s2 m with
          | .panic s => goPanic s
          | .ok false => smpAbortWith smpCheated
          | .ok true =>
            match smp3Success K s2 m with
            | .panic s => goPanic s
            | .ok false => do
              smpEvent smpFailure 100
              setSmpState .expect1
              return some smpAbortTlv
            | .ok true => do
              smpEvent smpSuccess 100
              let len ← paramLen
              match ← randRead len with
              | none => smpAbortWith smpCheated
              | some r7 =>
                match smp4Gen K s2 m (bytesToNat r7) with
                | .panic s => goPanic s
                | .ok m4 =>
                  smpWipe
                  setSmpState .expect1
                  return some m4.tlv
      | _ => smpAbortWith smpError
  else if t.typ = tlvTypeSMP4 then
    match toSmp4 t.value with
    | none => throw (.other "corrupt data message")
    | some m =>
      match st with
      | .expect4 =>
        let c ← getc
        match c.smp.s1, c.smp.s3 with
        | some s1, some s3 =>
          if !smp4Verify K isGE s3 m then smpAbortWith smpCheated
          else if !smp4Success K s1 s3 m then do
            smpEvent smpFailure 100
            setSmpState .expect1
            return some smpAbortTlv
          else do
            smpEvent smpSuccess 100
            smpWipe
            setSmpState .expect1
            return none
        | _, _ => goPanic "receiveMessage4: nil smp.s1/s3"
      | _ => smpAbortWith smpError
  else throw (.other "corrupt data message")

/-! ### TLVs (tlv.go, disconnect.go, extra_key.go) -/

def processDisconnectedTLV : M Unit := do
  let prev := (← getc).msgState
  -- repaired code: the MAC keys used in the conversation that ends here (and those already waiting) are
  -- kept to be revealed in the first data message of the next conversation, as after End()
  modc fun c => { c with lastMessageStateChange := none, msgState := .finished, smp := {}, ake := none,
                         keys := { oldMACKeys := c.keys.oldMACKeys ++ c.keys.macHistory.map (·.key) } }
  if prev == .encrypted then secEvent secGoneInsecure

def processExtraSymmetricKeyTLV (t : Tlv) (extraKey : Bytes) : M Unit := do
  if t.value.length < t.len then goPanic "processExtraSymmetricKeyTLV: tlvValue[:tlvLength]"
  match extractWord (t.value.take t.len) with
  | some (usage, rest) =>
    ev s!"key:{usage}:{if rest.isEmpty then "-" else toHex rest}:{toHex extraKey}"
  | none => return ()

/-- processTLVs: reply TLVs; an error aborts the rest and drops all replies -/
def processTLVs (K : Crypto) (tlvs : List Tlv) (extraKey : Bytes) : M (List Tlv) := do
  let mut ret : List Tlv := []
  for t in tlvs do
    if t.typ ≥ 9 then continue
    if t.typ = tlvTypePadding then continue
    else if t.typ = tlvTypeDisconnected then processDisconnectedTLV
    else if t.typ = tlvTypeExtraSymmetricKey then processExtraSymmetricKeyTLV t extraKey
    else
      match ← processSMPTLV K t with
      | some r => ret := ret ++ [r]
      | none => pure ()
  return ret

def decideFlagFrom (tlvs : List Tlv) : Nat :=
  tlvs.foldl (fun f t => if t.typ ≥ tlvTypeSMP1 ∧ t.typ ≤ tlvTypeSMP1WithQuestion then messageFlagIgnoreUnreadable else f) 0

/-- the part of processDataMessageWithRawErrors after the plaintext is known: (toSend, error) -/
def processDataMessageTail (K : Crypto) (dm : DataMsg) (tlvs : List Tlv) (extraKey : Bytes) : M (Option Bytes) := do
  -- rotateKeys
  let c ← getc
  let newPriv ← if c.keys.rotatesOur dm.recipientKeyID then randRead 40 else pure none
  let (k1, e) := c.keys.rotateOurKeys K dm.recipientKeyID newPriv
  modc fun c => { c with keys := k1 }
  -- repaired code: a rotation that cannot draw its new key changes nothing (and leaves their key alone);
  -- the TLVs of the message - authentic and accepted - are acted upon before the failure is reported
  if e.isNone then modc fun c => { c with keys := c.keys.rotateTheirKey dm.senderKeyID dm.y }
  let replies ← processTLVs K tlvs extraKey
  if let some e := e then throw e
  if replies.length > 0 then do
    let (reply, _) ← genDataMsgWithFlag K [] (decideFlagFrom replies) replies
    let ts ← wrapMessageHeader msgTypeData reply.serialize
    return some ts
  return none

/-- processDataMessageWithRawErrors (repaired order: parse, keys, MAC, counter, history).
    Returns the named results as they stand when the function returns: (plain, toSend, err). -/
def processDataMessageRaw (K : Crypto) (header msg : Bytes) : M (Option Bytes × Option Bytes × Option Err) := do
  let c ← getc
  if c.msgState ≠ .encrypted then do
    msgEvent evNotInPrivate
    return (none, none, some .notInPrivate)
  match DataMsg.deserialize msg with
  | none => return (none, none, some (.other "dataMsg.deserialize"))
  | some dm =>
  match c.keys.deriveSessionKeys K dm.recipientKeyID dm.senderKeyID with
  | .error e => return (none, none, some e)
  | .ok sk =>
  if K.mac1 sk.recvMAC (header ++ dm.unsignedRaw) ≠ dm.authenticator then
    return (none, none, some (.conflict "bad signature MAC in encrypted signature"))
  let (k', e) := c.keys.checkMessageCounter dm.recipientKeyID dm.senderKeyID (bytesToNat dm.topHalfCtr)
  modc fun c => { c with keys := k' }
  if let some e := e then return (none, none, some e)
  modc fun c => { c with keys := { c.keys with macHistory := addMacKey c.keys.macHistory dm.recipientKeyID dm.senderKeyID sk.recvMAC } }
  let plainBytes := match K.ctr sk.recvAES (dm.topHalfCtr ++ List.replicate 8 0) dm.encryptedMsg with
    | some d => d
    | none => dm.encryptedMsg
  let (p, _) := PlainDataMsg.deserialize plainBytes
  let plain ← if p.message.isEmpty then do msgEvent evHeartbeatReceived; pure none else pure (some p.message)
  tryCatch (do let ts ← processDataMessageTail K dm p.tlvs sk.extraKey; pure (plain, ts, none))
    (fun e => pure (plain, none, some e))

/-- potentialHeartbeat -/
def potentialHeartbeat (K : Crypto) (plain : Option Bytes) : M (Option Bytes) := do
  if plain.isNone then return none
  let c ← getc
  -- repaired code: the message just received may have ended the session (text together with a
  -- disconnect TLV): nothing can be sent any more, and that is not an error of this message
  if c.msgState != .encrypted then return none
  let t ← now
  let due := match c.heartbeatLastSent with
    | none => true
    | some ls => ls + 60 < t
  if !due then return none
  let (dm, _) ← genDataMsgWithFlag K [] messageFlagIgnoreUnreadable []
  let ts ← wrapMessageHeader msgTypeData dm.serialize
  updateLastSent
  msgEvent evHeartbeatSent
  return some ts

/-- notifyDataMessageError -/
def notifyDataMessageError (e : Err) : M Unit := do
  if e == .notInPrivate then return ()
  if e.isConflict then do
    msgEvent evUnreadable
    generatePotentialErrorMessage ecUnreadable
  else do
    msgEvent evMalformed
    generatePotentialErrorMessage ecMalformed

/-- extractDataMessageFlag / processDataMessage / maybeHeartbeat / receiveDataMessage:
    (plain, toSend, err) exactly as the Go function returns them -/
def receiveDataMessage (K : Crypto) (header body : Bytes) : M (Option Bytes × List Bytes × Option Err) := do
  let ignoreUnreadable := match body with
    | [] => false
    | f :: _ => f.toNat &&& 1 == 1
  let (plain, toSend, err) ← processDataMessageRaw K header body
  let err := if ignoreUnreadable then none else err
  -- maybeHeartbeat
  match err with
  | some e => do notifyDataMessageError e; return (none, [], some e)
  | none =>
    let hb ← tryCatch (do let h ← potentialHeartbeat K plain; pure (Except.ok h)) (fun e => pure (Except.error e))
    match hb with
    | .ok h => return (plain, toSend.toList ++ h.toList, none)
    | .error e => do notifyDataMessageError e; return (plain, toSend.toList, some e)

/-! ### Receive (receive.go) -/

/-- decode: strip "?OTR:" and the last byte, base64 -/
def decodeEnvelope (msg : Bytes) : Option Bytes :=
  if msg.length ≤ 5 then b64decode [] else b64decode ((msg.drop 5).dropLast)

/-- the body of receiveDecoded; the last component: a data message outside a private conversation
    (never accepted; its flag may suppress the error) -/
def receiveDecodedCore (K : Crypto) (message : Bytes) : M (Option Bytes × List Bytes × Option Err × Bool) := do
  let msgStateBefore := (← getc).msgState
  let r ← tryCatch (do checkVersion message; pure none) (fun e => pure (some e))
  if let some e := r then return (none, [], some e, false)
  let r ← tryCatch (do let x ← parseMessageHeader message; pure (Except.ok x)) (fun e => pure (Except.error e))
  match r with
  | .error e => return (none, [], some e, false)     -- including errReceivedMessageForOtherInstance (handled by receiveUnit)
  | .ok (header, body) =>
    let msgType := (header.getD 2 0).toNat
    if msgType = msgTypeData then do
      let (p, ts, err) ← receiveDataMessage K header body
      return (p, ts, err, msgStateBefore != .encrypted)
    else do
      let kind (c : Conv) : Nat := match c.ake with | some a => a.state.toNat | none => 0
      let stateBefore := kind (← getc)
      let (msgs, err) ← processAKE K msgType body
      if err.isSome then msgEventErr evSetupError
      -- a key exchange message that is not expected in the current state is ignored: no reply, no step
      -- of the exchange - and, like a rejected one, no commitment to its version or sender
      return (none, msgs, err, err.isNone && msgs.isEmpty && kind (← getc) == stateBefore)

/-- receiveDecoded (repaired code): a message that is rejected neither commits the conversation to its
    protocol version nor binds it to the instance it names -/
def receiveDecoded (K : Crypto) (message : Bytes) : M (Option Bytes × List Bytes × Option Err) := do
  let c0 ← getc
  let (p, ts, err, rejectedData) ← receiveDecodedCore K message
  if err.isSome || rejectedData then
    modc fun c => { c with version := if c0.version.isNone then none else c.version,
                           ourCurrentKey := if c0.version.isNone then c0.ourCurrentKey else c.ourCurrentKey,
                           theirTag := c0.theirTag }
  return (p, ts, err)

def isWithin (t : Option Nat) (nowT : Nat) : Bool :=
  match t with
  | none => false
  | some t => t + 60 > nowT

/-- receiveQueryMessage -/
def receiveQueryMessage (K : Crypto) (msg : Bytes) : M (List Bytes × Option Err) := do
  let c ← getc
  let versions := extractVersionsFromQueryMessage c.policies msg
  let r ← tryCatch (do commitToVersionFrom versions; pure none) (fun e => pure (some e))
  if let some e := r then return ([], some e)
  let c ← getc
  let t ← now
  if (c.msgState == .encrypted && isWithin c.lastMessageStateChange t) ||
     (match c.ake with | some a => isWithin a.lastStateChange t | none => false) then
    return ([], none)
  let r ← tryCatch (do let m ← sendDHCommit K; pure (Except.ok m)) (fun e => pure (Except.error e))
  match r with
  | .ok m => return ([m], none)
  | .error e => do msgEventErr evSetupError; return ([], some e)

/-- checkPlaintextPolicies -/
def checkPlaintextPolicies (plain : Bytes) : M Unit := do
  let c ← getc
  if c.wsState == .sent then modc fun c => { c with wsState := .rejected }
  if c.msgState != .plainText || polHas c.policies requireEncryption then
    msgEventMsg evUnencrypted plain

/-- receiveTaggedPlaintext -/
def receiveTaggedPlaintext (K : Crypto) (message : Bytes) : M (Option Bytes × List Bytes × Option Err) := do
  let (plain, versions) := extractWhitespaceTag message
  let c ← getc
  let (toSend, err) ← if !polHas c.policies whitespaceStartAKE then pure ([], none) else do
    let r ← tryCatch (do commitToVersionFrom versions; pure none) (fun e => pure (some e))
    match r with
    | some e => pure ([], some e)
    | none =>
      let r ← tryCatch (do let m ← sendDHCommit K; pure (Except.ok m)) (fun e => pure (Except.error e))
      match r with
      | .ok m => pure ([m], none)
      | .error e => do msgEventErr evSetupError; pure ([], some e)
  checkPlaintextPolicies plain
  return (some plain, toSend, err)

/-- receiveErrorMessage -/
def receiveErrorMessage (message : Bytes) : M (List Bytes) := do
  let msg := message.drop errorMarker.length
  let c ← getc
  let toSend := if polHas c.policies errorStartAKE then [queryMessage c.policies c.friendlyQuery] else []
  if c.msgState == .encrypted then modc fun c => { c with mayRetransmit := .withPrefix }
  let shown := match msg with
    | 32 :: r => r
    | r => r
  msgEventMsg evGeneralError shown
  return toSend

/-- toSendEncoded + encodeAndCombine -/
def toSendEncoded (toSend : List Bytes) (err : Option Err) : M (List Bytes) := do
  if err.isSome then return []
  match toSend with
  | [] => return []
  | first :: _ =>
    if first.isEmpty then return []
    let mut out : List Bytes := []
    for ts in toSend do
      out := out ++ (← fragEncode ts)
    return out

/-- Go distinguishes a nil plaintext from an empty one only for heartbeats; results are compared as bytes -/
structure RecvResult where
  plain : Option Bytes
  toSend : List Bytes
  err : Option Err

/-- receiveUnit(m, forgetFragments); `fuel` bounds the recursion through reassembled fragments -/
def receiveUnit (K : Crypto) : Nat → Bytes → Bool → M RecvResult
  | 0, _, _ => do mism "receive-fuel"; return ⟨none, [], none⟩
  | fuel + 1, message, forgetFragments => do
    let c ← getc
    if !isOTREnabled c.policies then return ⟨some message, [], none⟩
    let guess := guessMessageType message
    let finish (plain : Option Bytes) (toSend : List Bytes) (err : Option Err) (shouldForget : Bool) : M RecvResult := do
      if shouldForget && forgetFragments then modc fun c => { c with fragCtx := FragCtx.empty }
      let enc ← toSendEncoded toSend err
      return ⟨plain, ← withInjects enc, err⟩
    match guess with
    | .error =>
      let ts ← receiveErrorMessage message
      return ⟨none, ← withInjects ts, none⟩
    | .query =>
      let (ts, err) ← receiveQueryMessage K message
      finish none ts err true
    | .taggedPlaintext =>
      let (p, ts, err) ← receiveTaggedPlaintext K message
      finish p ts err true
    | .notOTR =>
      checkPlaintextPolicies message
      finish (some message) [] none true
    | .v1KeyExch => return ⟨none, [], some .unsupportedVersion⟩
    | .fragment =>
      let r ← tryCatch (do let x ← receiveFragment c.fragCtx message; pure (Except.ok x)) (fun e => pure (Except.error e))
      let err ← match r with
        | .ok ctx => do modc (fun c => { c with fragCtx := ctx }); pure none
        | .error e => do
          -- receiveFragment returns beforeCtx with the error; repaired code: an invalid fragment does
          -- not bind the conversation to the peer instance it names
          modc (fun c' => { c' with theirTag := c.theirTag })
          pure (some e)
      let c ← getc
      if c.fragCtx.finished then do
        let assembled := c.fragCtx.frag
        modc fun c => { c with fragCtx := FragCtx.empty }
        let r ← receiveUnit K fuel assembled false
        return ⟨r.plain, ← withInjects r.toSend, r.err⟩
      finish none [] err false
    | .unknown =>
      -- repaired code: not looked at any further, so it does not disturb a fragment stream of the peer
      msgEvent evUnrecognized
      finish none [] none false
    | .dhCommit | .dhKey | .revealSig | .signature | .data =>
      match decodeEnvelope message with
      | none => finish none [] (some .invalidMessage) true
      | some decoded =>
        let (p, ts, err) ← receiveDecoded K decoded
        -- repaired code: a message for another instance is ignored completely (pending fragments kept)
        if err == some .otherInstance then finish p ts none false
        else finish p ts err true

/-- Conversation.Receive -/
def receive (K : Crypto) (m : Bytes) : M RecvResult := receiveUnit K (m.length + 2) m true

/-- ExtractInstanceTags (instance_tags.go, repaired): (ours = receiver tag, theirs = sender tag) -/
def extractInstanceTags (m : Bytes) : Option (Nat × Nat) :=
  if hasPrefix m (strBytes "?OTR:") then
    match decodeEnvelope m with
    | none => none
    | some msg =>
      if msg.length < 11 then none else
      match extractShort msg with
      | some (3, _) =>
        match extractWord (msg.drop 3) with
        | none => none
        | some (sender, r1) =>
          match extractWord r1 with
          | none => none
          | some (receiver, _) => some (receiver, sender)
      | _ => none
  else if hasPrefix m (strBytes "?OTR|") then
    let headerPart := (splitOn 44 m).headD []
    match splitOn 124 headerPart with
    | _ :: s :: r :: _ =>
      match parseItag s, parseItag r with
      | some sender, some receiver => some (receiver, sender)
      | _, _ => none
    | _ => none
  else none

/-! ### Send, End, extra key (send.go, conversation.go, extra_key.go) -/

/-- appendWhitespaceTag -/
def appendWhitespaceTag (message : Bytes) : M Bytes := do
  let c ← getc
  if !polHas c.policies sendWhitespaceTag || c.wsState == .rejected then return message
  modc fun c => { c with wsState := .sent }
  return message ++ genWhitespaceTag c.policies

/-- Conversation.Send: (messages, err) -/
def send (K : Crypto) (message : Bytes) : M (List Bytes × Option Err) := do
  let c ← getc
  if !isOTREnabled c.policies then return ([message], none)
  match c.msgState with
  | .plainText =>
    if polHas c.policies requireEncryption then do
      msgEvent evEncryptionRequired
      updateLastSent
      if c.mayRetransmit != .exact then modc fun c => { c with resendMsgs := [] }
      modc fun c => { c with mayRetransmit := .exact }
      resendLater message
      return (← withInjects [queryMessage c.policies c.friendlyQuery], none)
    else do
      let m ← appendWhitespaceTag message
      return (← withInjects [m], none)
  | .encrypted =>
    let r ← tryCatch (do let (ms, _) ← createSerializedDataMessage K message messageFlagNormal []; pure (Except.ok ms))
      (fun e => pure (Except.error e))
    match r with
    | .ok ms => return (← withInjects ms, none)
    | .error e => do
      msgEvent evEncryptionError
      generatePotentialErrorMessage ecEncryptionError
      return (← withInjects [], some e)
  | .finished =>
    msgEvent evConnectionEnded
    return (← withInjects [], some (.other "cannot send message because secure conversation has finished"))

/-- Conversation.End -/
def endSession (K : Crypto) : M (List Bytes × Option Err) := do
  let c ← getc
  let prev := c.msgState
  -- repaired code: whatever the state, nothing of an authentication in progress survives
  smpWipe
  let (toSend, err) ← if prev == .encrypted then do
      let r ← tryCatch (do let (ms, _) ← createSerializedDataMessage K [] messageFlagIgnoreUnreadable [⟨tlvTypeDisconnected, 0, []⟩]; pure (Except.ok ms))
        (fun e => pure (Except.error e))
      match r with
      | .ok ms => pure (ms, none)
      | .error e => pure ([], some e)
    else pure ([], none)
  -- repaired code: the last text of the conversation that ends here is neither kept nor resent later;
  -- texts still waiting for a session to start (retransmitExact) are
  modc fun c => if c.mayRetransmit != .exact then { c with resendMsgs := [], mayRetransmit := .no } else c
  modc fun c => { c with lastMessageStateChange := none, ake := none, msgState := .plainText }
  modc fun c => { c with keys := { c.keys with ourCur := none, ourPrev := none, theirCur := c.keys.theirCur.map (fun _ => 0) } }
  if prev == .encrypted then secEvent secGoneInsecure
  return (toSend, err)

/-- UseExtraSymmetricKey: (key, messages, err) -/
def useExtraSymmetricKey (K : Crypto) (usage : Nat) (usageData : Bytes) : M (Bytes × List Bytes × Option Err) := do
  let c ← getc
  if c.msgState != .encrypted || c.keys.theirKeyID == 0 then
    return ([], [], some (.other "cannot send message in current state"))
  -- repaired code: the length field of a TLV has 16 bits, it must not wrap around
  if usageData.length > 0xffff - 4 then
    return ([], [], some (.other "usage data too long for a TLV"))
  let t : Tlv := ⟨tlvTypeExtraSymmetricKey, (4 + usageData.length % 65536) % 65536, appendWord [] usage ++ usageData⟩
  let r ← tryCatch (do let x ← createSerializedDataMessage K [] messageFlagIgnoreUnreadable [t]; pure (Except.ok x))
    (fun e => pure (Except.error e))
  match r with
  | .ok (ms, key) => return (key, ms, none)
  | .error e => return ([], [], some e)

end Otr
