/-
  Otr.Msg — AKE messages, data message, plaintext-with-TLVs, TLV, SMP payloads.
  Go anchors: messages.go, tlv.go, smp.go:genSMPTLV, smp_msg*.go:tlv().

  Parsers return `Option` (`none` = the Go function returned a non-conflict error /
  `ok == false`).  Trailing bytes are ignored exactly where Go ignores them.
-/
import Otr.Codec
namespace Otr

inductive Version where
  | v2 | v3
  deriving Repr, DecidableEq, Inhabited

def Version.num : Version → Nat
  | .v2 => 2
  | .v3 => 3

/-- otrV2/otrV3.truncateLength, hashLength (sha1.Size), hash2Length (sha256.Size), keyLength -/
def truncateLength : Nat := 20
def hashLength : Nat := 20
def hash2Length : Nat := 32
def keyLength : Nat := 16
/-- otrV2/otrV3.parameterLength -/
def Version.parameterLength : Version → Nat
  | .v2 => 16
  | .v3 => 192

def messageFlagNormal : Nat := 0
def messageFlagIgnoreUnreadable : Nat := 1
def msgTypeDHCommit : Nat := 0x02
def msgTypeData : Nat := 0x03
def msgTypeDHKey : Nat := 0x0A
def msgTypeRevealSig : Nat := 0x11
def msgTypeSig : Nat := 0x12

/-! ### DH-Commit -/
structure DhCommit where
  encryptedGx : Bytes
  hashedGx : Bytes
  deriving Repr, DecidableEq

def DhCommit.serialize (c : DhCommit) : Bytes :=
  appendData (appendData [] c.encryptedGx) c.hashedGx

def DhCommit.deserialize (msg : Bytes) : Option DhCommit :=
  match extractData msg with
  | none => none
  | some (g, rest) =>
    match extractData rest with
    | none => none
    | some (h, _) => some ⟨g, h⟩

/-! ### DH-Key -/
structure DhKey where
  gy : Nat
  deriving Repr, DecidableEq

def DhKey.serialize (c : DhKey) : Bytes := appendMPI [] c.gy
def DhKey.deserialize (msg : Bytes) : Option DhKey :=
  match extractMPI msg with
  | none => none
  | some (gy, _) => some ⟨gy⟩

/-! ### Reveal-Signature.  `encryptedSig` is stored *with* its length prefix on the
    sending side (generateEncryptedSignature returns AppendData(nil, xb)) and *without*
    it after parsing — the model keeps that asymmetry: `serialize` takes the prefixed form. -/
structure RevealSig where
  r : Bytes
  encryptedSig : Bytes
  macSig : Bytes
  deriving Repr, DecidableEq

/-- `c.macSig[:v.truncateLength()]` panics when the MAC is shorter than 20 bytes -/
def RevealSig.serialize (c : RevealSig) : Res Bytes :=
  if c.macSig.length < truncateLength then .panic "revealSig.serialize: macSig[:20]"
  else .ok (appendData [] c.r ++ c.encryptedSig ++ c.macSig.take truncateLength)

def RevealSig.deserialize (msg : Bytes) : Option RevealSig :=
  match extractData msg with
  | none => none
  | some (r, rest) =>
    match extractData rest with
    | none => none
    | some (encSig, mac) =>
      if r.length = 16 ∧ mac.length = truncateLength then some ⟨r, encSig, mac⟩ else none

/-! ### Signature -/
structure Sig where
  encryptedSig : Bytes
  macSig : Bytes
  deriving Repr, DecidableEq

def Sig.serialize (c : Sig) : Res Bytes :=
  if c.macSig.length < truncateLength then .panic "sig.serialize: macSig[:20]"
  else .ok (c.encryptedSig ++ c.macSig.take truncateLength)

def Sig.deserialize (msg : Bytes) : Option Sig :=
  match extractData msg with
  | none => none
  | some (encSig, mac) => if mac.length = 20 then some ⟨encSig, mac⟩ else none

/-! ### TLV -/
structure Tlv where
  typ : Nat
  len : Nat
  value : Bytes
  deriving Repr, DecidableEq

def Tlv.serialize (t : Tlv) : Bytes := appendShort (appendShort [] t.typ) t.len ++ t.value

def Tlv.deserialize (b : Bytes) : Option Tlv :=
  match extractShort b with
  | none => none
  | some (ty, r1) =>
    match extractShort r1 with
    | none => none
    | some (ln, r2) => if r2.length < ln then none else some ⟨ty, ln, r2.take ln⟩

def tlvTypePadding : Nat := 0
def tlvTypeDisconnected : Nat := 1
def tlvTypeSMP1 : Nat := 2
def tlvTypeSMP2 : Nat := 3
def tlvTypeSMP3 : Nat := 4
def tlvTypeSMP4 : Nat := 5
def tlvTypeSMPAbort : Nat := 6
def tlvTypeSMP1WithQuestion : Nat := 7
def tlvTypeExtraSymmetricKey : Nat := 8

/-! ### plaintext of a data message: text, NUL, TLVs -/
structure PlainDataMsg where
  message : Bytes
  tlvs : List Tlv
  deriving Repr, DecidableEq

def PlainDataMsg.serialize (p : PlainDataMsg) : Bytes :=
  p.message ++ [0] ++ (p.tlvs.flatMap Tlv.serialize)

/-- the TLV loop of plainDataMsg.deserialize: TLVs parsed so far, and whether the whole tail parsed.
    (`fuel` bounds the loop by the input length; every iteration consumes ≥ 4 bytes.) -/
def parseTlvs : Nat → Bytes → List Tlv × Bool
  | 0, b => ([], b.isEmpty)
  | fuel + 1, b =>
    if b.isEmpty then ([], true) else
    match Tlv.deserialize b with
    | none => ([], false)
    | some t =>
      let (ts, ok) := parseTlvs fuel (b.drop (4 + t.len))
      (t :: ts, ok)

/-- plainDataMsg.deserialize.  Go returns an error when a TLV is malformed, but the only caller
    (`decrypt` in processDataMessageWithRawErrors) ignores it and uses the fields filled so far;
    the model returns both. -/
def PlainDataMsg.deserialize (msg : Bytes) : PlainDataMsg × Bool :=
  let text := msg.takeWhile (· != 0)
  let tail := (msg.dropWhile (· != 0)).drop 1
  let (ts, ok) := parseTlvs tail.length tail
  (⟨text, ts⟩, ok)

def paddingGranularity : Nat := 256

/-- plainDataMsg.pad -/
def PlainDataMsg.pad (p : PlainDataMsg) : PlainDataMsg :=
  let padding := paddingGranularity - ((p.message.length + 4 + 1) % paddingGranularity)
  { p with tlvs := p.tlvs ++ [⟨tlvTypePadding, padding, List.replicate padding 0⟩] }

/-! ### data message -/
structure DataMsg where
  flag : Nat
  senderKeyID : Nat
  recipientKeyID : Nat
  y : Nat
  topHalfCtr : Bytes          -- 8 bytes
  encryptedMsg : Bytes
  authenticator : Bytes
  oldMACKeys : List Bytes
  /-- serializeUnsignedCache: for a parsed message the raw authenticated bytes as they arrived -/
  unsignedRaw : Bytes
  deriving Repr, DecidableEq

def serializeUnsignedFields (flag skid rkid y : Nat) (ctr enc : Bytes) : Bytes :=
  appendData (appendMPI (appendWord (appendWord [b8 flag] skid) rkid) y ++ ctr) enc

def DataMsg.serializeUnsigned (m : DataMsg) : Bytes :=
  serializeUnsignedFields m.flag m.senderKeyID m.recipientKeyID m.y m.topHalfCtr m.encryptedMsg

/-- dataMsg.serialize; the cache is what was signed -/
def DataMsg.serialize (m : DataMsg) : Bytes :=
  appendData (m.unsignedRaw ++ m.authenticator) m.oldMACKeys.flatten

/-- the reveal-keys loop of dataMsg.deserialize -/
def splitMacKeys : Nat → Bytes → Option (List Bytes)
  | 0, b => if b.isEmpty then some [] else none
  | fuel + 1, b =>
    if b.isEmpty then some [] else
    if b.length < hashLength then none else
    match splitMacKeys fuel (b.drop hashLength) with
    | none => none
    | some ks => some (b.take hashLength :: ks)

/-- dataMsg.deserializeUnsigned: parsed fields and the unconsumed rest -/
def deserializeUnsigned (msg : Bytes) : Option (DataMsg × Bytes) :=
  match msg with
  | [] => none
  | f :: in1 =>
    match extractWord in1 with
    | none => none
    | some (skid, in2) =>
      match extractWord in2 with
      | none => none
      | some (rkid, in3) =>
        match extractMPI in3 with
        | none => none
        | some (y, in4) =>
          if in4.length < 8 then none else
          let ctr := in4.take 8
          if bytesToNat ctr = 0 then none else
          match extractData (in4.drop 8) with
          | none => none
          | some (enc, rest) =>
            some (⟨f.toNat, skid, rkid, y, ctr, enc, [], [], msg.take (msg.length - rest.length)⟩, rest)

/-- dataMsg.deserialize (with the MAC length check of the repaired code) -/
def DataMsg.deserialize (msg : Bytes) : Option DataMsg :=
  match deserializeUnsigned msg with
  | none => none
  | some (m, rest) =>
    if rest.length < hashLength then none else
    match extractData (rest.drop hashLength) with
    | none => none
    | some (rk, _) =>
      match splitMacKeys rk.length rk with
      | none => none
      | some ks => some { m with authenticator := rest.take hashLength, oldMACKeys := ks }

/-! ### SMP TLV payloads -/

/-- genSMPTLV -/
def genSMPTLV (tp : Nat) (mpis : List Nat) : Tlv :=
  let data := appendMPIs (appendWord [] mpis.length) mpis
  ⟨tp, data.length % 65536, data⟩

structure Smp1Msg where
  g2a : Nat
  g3a : Nat
  c2 : Nat
  c3 : Nat
  d2 : Nat
  d3 : Nat
  hasQuestion : Bool
  question : Bytes
  deriving Repr, DecidableEq

structure Smp2Msg where
  g2b : Nat
  g3b : Nat
  c2 : Nat
  c3 : Nat
  d2 : Nat
  d3 : Nat
  pb : Nat
  qb : Nat
  cp : Nat
  d5 : Nat
  d6 : Nat
  deriving Repr, DecidableEq

structure Smp3Msg where
  pa : Nat
  qa : Nat
  cp : Nat
  d5 : Nat
  d6 : Nat
  d7 : Nat
  ra : Nat
  cr : Nat
  deriving Repr, DecidableEq

structure Smp4Msg where
  cr : Nat
  d7 : Nat
  rb : Nat
  deriving Repr, DecidableEq

def Smp1Msg.tlv (m : Smp1Msg) : Tlv :=
  let t := genSMPTLV tlvTypeSMP1 [m.g2a, m.c2, m.d2, m.g3a, m.c3, m.d3]
  if m.hasQuestion then
    let v := m.question ++ [0] ++ t.value
    ⟨tlvTypeSMP1WithQuestion, v.length % 65536, v⟩
  else t

def Smp2Msg.tlv (m : Smp2Msg) : Tlv :=
  genSMPTLV tlvTypeSMP2 [m.g2b, m.c2, m.d2, m.g3b, m.c3, m.d3, m.pb, m.qb, m.cp, m.d5, m.d6]

def Smp3Msg.tlv (m : Smp3Msg) : Tlv :=
  genSMPTLV tlvTypeSMP3 [m.pa, m.qa, m.cp, m.d5, m.d6, m.ra, m.cr, m.d7]

def Smp4Msg.tlv (m : Smp4Msg) : Tlv :=
  genSMPTLV tlvTypeSMP4 [m.rb, m.cr, m.d7]

def smpAbortTlv : Tlv := genSMPTLV tlvTypeSMPAbort []

/-- toSmpMessage1 -/
def toSmp1 (value : Bytes) : Option Smp1Msg :=
  match extractMPIs value with
  | some ([g2a, c2, d2, g3a, c3, d3], _) => some ⟨g2a, g3a, c2, c3, d2, d3, false, []⟩  -- repaired code: exactly six
  | _ => none

/-- toSmpMessage1Q: question up to the first NUL -/
def toSmp1Q (value : Bytes) : Option Smp1Msg :=
  if value.contains 0 then
    match toSmp1 ((value.dropWhile (· != 0)).drop 1) with
    | some m => some { m with hasQuestion := true, question := value.takeWhile (· != 0) }
    | none => none
  else none

def toSmp2 (value : Bytes) : Option Smp2Msg :=
  match extractMPIs value with
  | some ([g2b, c2, d2, g3b, c3, d3, pb, qb, cp, d5, d6], _) =>
      some ⟨g2b, g3b, c2, c3, d2, d3, pb, qb, cp, d5, d6⟩
  | _ => none

def toSmp3 (value : Bytes) : Option Smp3Msg :=
  match extractMPIs value with
  | some ([pa, qa, cp, d5, d6, ra, cr, d7], _) => some ⟨pa, qa, cp, d5, d6, d7, ra, cr⟩
  | _ => none

def toSmp4 (value : Bytes) : Option Smp4Msg :=
  match extractMPIs value with
  | some ([rb, cr, d7], _) => some ⟨cr, d7, rb⟩
  | _ => none

end Otr
