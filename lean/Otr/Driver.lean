/-
  Otr.Driver — dispatch of driver ops (function-level ops are stateless; conversation-level
  ops thread a table of model conversations).
-/
import Otr.DriverPure
import Otr.DriverConv
import Otr.DriverKeyFile
namespace Otr.Driver

def step (st : DState) (line : String) : DState × String :=
  match pureOp line with
  | some r => (st, r)
  | none =>
    match keyFileOp line with
    | some r => (st, r)
    | none =>
      match convOp st line with
      | some r => r
      | none => (st, "bad-op")

def runAll (lines : List String) (put : String → IO Unit) : IO DState := do
  let mut st : DState := {}
  for l in lines do
    let (st', r) := step st l
    st := st'
    put r
  return st

end Otr.Driver
