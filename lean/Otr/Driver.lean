/-
  Otr.Driver — dispatch of driver ops (function-level ops are stateless; conversation-level
  ops thread a table of model conversations; `spec.…` ops thread the reference implementation's
  own table, see Otr.DriverSpec).
-/
import Otr.DriverPure
import Otr.DriverConv
import Otr.DriverKeyFile
import Otr.DriverSpec
namespace Otr.Driver

/-- the model's conversations and, separately, the reference implementation's parties -/
structure FullState where
  conv : DState := {}
  spec : Otr.DriverSpec.SState := {}

def step (st : FullState) (line : String) : FullState × String :=
  match pureOp line with
  | some r => (st, r)
  | none =>
    match keyFileOp line with
    | some r => (st, r)
    | none =>
      match Otr.DriverSpec.specOp st.spec line with
      | some (s, r) => ({ st with spec := s }, r)
      | none =>
        match convOp st.conv line with
        | some (c, r) => ({ st with conv := c }, r)
        | none => (st, "bad-op")

def runAll (lines : List String) (put : String → IO Unit) : IO FullState := do
  let mut st : FullState := {}
  for l in lines do
    let (st', r) := step st l
    st := st'
    put r
  return st

end Otr.Driver
