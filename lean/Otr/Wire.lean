/-
  Otr.Wire — message classification, query message, whitespace tag, policies, version choice.
  Go anchors: message_type.go, query.go, whitespace.go, policy.go, version.go.
-/
import Otr.Msg
import Otr.Frag
namespace Otr

/-! ### policies (policy.go) -/
abbrev Policies := Nat

def allowV2 : Nat := 2
def allowV3 : Nat := 4
def requireEncryption : Nat := 8
def sendWhitespaceTag : Nat := 16
def whitespaceStartAKE : Nat := 32
def errorStartAKE : Nat := 64

def polHas (p : Policies) (c : Nat) : Bool := p &&& c == c
def isOTREnabled (p : Policies) : Bool := polHas p allowV2 || polHas p allowV3

/-! ### guessMessageType (message_type.go) -/
inductive Guess where
  | notOTR | taggedPlaintext | query | dhCommit | dhKey | revealSig | signature | v1KeyExch
  | data | error | fragment | unknown
  deriving Repr, DecidableEq

def Guess.toNat : Guess → Nat
  | .notOTR => 0 | .taggedPlaintext => 1 | .query => 2 | .dhCommit => 3 | .dhKey => 4
  | .revealSig => 5 | .signature => 6 | .v1KeyExch => 7 | .data => 8 | .error => 9
  | .fragment => 10 | .unknown => 11

/-- convertToWhitespace("OT") -/
def whitespaceTagHeader : Bytes := strBytes " \t  \t\t\t\t \t \t \t  "
/-- otrV2{}.whitespaceTag() = convertToWhitespace("2") -/
def whitespaceTagV2 : Bytes := strBytes "  \t\t  \t "
/-- otrV3{}.whitespaceTag() = convertToWhitespace("3") -/
def whitespaceTagV3 : Bytes := strBytes "  \t\t  \t\t"

/-- bytes.Index: position of the first occurrence of `pat` in `b` -/
def indexOf (pat : Bytes) : Bytes → Option Nat
  | [] => if pat.isEmpty then some 0 else none
  | c :: r =>
    if pat.isPrefixOf (c :: r) then some 0
    else match indexOf pat r with
      | none => none
      | some i => some (i + 1)

def containsSub (b pat : Bytes) : Bool := (indexOf pat b).isSome

def guessMessageType (msg : Bytes) : Guess :=
  let hp (s : String) := hasPrefix msg (strBytes s)
  if hp "?OTR" then
    if hp "?OTR:AAMC" then .dhCommit
    else if hp "?OTR:AAIC" then .dhCommit
    else if hp "?OTR:AAMK" then .dhKey
    else if hp "?OTR:AAIK" then .dhKey
    else if hp "?OTR:AAMR" then .revealSig
    else if hp "?OTR:AAIR" then .revealSig
    else if hp "?OTR:AAMS" then .signature
    else if hp "?OTR:AAIS" then .signature
    else if hp "?OTR:AAED" then .data
    else if hp "?OTR:AAID" then .data
    else if hp "?OTR:AAMD" then .data
    else if hp "?OTR?" then .query
    else if hp "?OTRv" then .query
    else if hp "?OTR:AAEK" then .v1KeyExch
    else if hp "?OTR Error:" then .error
    else if hp "?OTR|" then .fragment
    else if hp "?OTR," then .fragment
    else .unknown
  else if containsSub msg whitespaceTagHeader then .taggedPlaintext
  else .notOTR

/-! ### query message (query.go) -/

/-- the version digits loop: stops at '?', keeps ASCII digits (strconv.Atoi(string(c)) succeeds exactly on them) -/
def queryDigits : Bytes → List Nat
  | [] => []
  | c :: r => if c = 63 then [] else if isDigit c then (c.toNat - 48) :: queryDigits r else queryDigits r

/-- parseOTRQueryMessage -/
def parseOTRQueryMessage (msg : Bytes) : List Nat :=
  if hasPrefix msg (strBytes "?OTR") && msg.length > 4 then
    let versions := msg.drop 4
    let (pre, versions) := match versions with
      | 63 :: r => ([1], r)
      | r => ([], r)
    match versions with
    | 118 :: _ => pre ++ queryDigits versions
    | _ => pre
  else []

/-- extractVersionsFromQueryMessage: bit set of offered versions the policy allows -/
def extractVersionsFromQueryMessage (p : Policies) (msg : Bytes) : Nat :=
  (parseOTRQueryMessage msg).foldl (fun acc v =>
    if v = 3 ∧ polHas p allowV3 then acc ||| 8
    else if v = 2 ∧ polHas p allowV2 then acc ||| 4
    else acc) 0

/-- Conversation.QueryMessage -/
def queryMessage (p : Policies) (friendly : Bytes) : Bytes :=
  strBytes "?OTRv" ++ (if polHas p allowV2 then [50] else []) ++ (if polHas p allowV3 then [51] else []) ++
    (if friendly.isEmpty then [63] else [63, 32] ++ friendly)

/-! ### whitespace tag (whitespace.go) -/

def genWhitespaceTag (p : Policies) : Bytes :=
  whitespaceTagHeader ++ (if polHas p allowV2 then whitespaceTagV2 else []) ++
    (if polHas p allowV3 then whitespaceTagV3 else [])

def isWhite (c : UInt8) : Bool := c == 32 || c == 9

/-- the nextAllWhite loop of extractWhitespaceTag: versions seen and the remaining data -/
def whiteGroups : Nat → Bytes → Nat → Nat × Bytes
  | 0, d, vs => (vs, d)
  | fuel + 1, d, vs =>
    if d.length < 8 then (vs, d) else
    let g := d.take 8
    if g.all isWhite then
      let vs := if g = whitespaceTagV3 then vs ||| 8 else if g = whitespaceTagV2 then vs ||| 4 else vs
      whiteGroups fuel (d.drop 8) vs
    else (vs, d)

/-- extractWhitespaceTag (only called when the header occurs in the message) -/
def extractWhitespaceTag (msg : Bytes) : Bytes × Nat :=
  match indexOf whitespaceTagHeader msg with
  | none => (msg, 0)   -- not reachable from receiveUnit (guessMessageType found the header)
  | some pos =>
    let (vs, rest) := whiteGroups msg.length (msg.drop (pos + 16)) 0
    (msg.take pos ++ rest, vs)

/-! ### version choice (version.go) -/

/-- the `switch` of commitToVersionFrom for a conversation with no version yet -/
def chooseVersion (p : Policies) (versions : Nat) : Option Version :=
  if polHas p allowV3 ∧ versions &&& 8 > 0 then some .v3
  else if polHas p allowV2 ∧ versions &&& 4 > 0 then some .v2
  else none

/-- versionFromFragment -/
def versionFromFragment (frag : Bytes) : Nat :=
  if hasPrefix frag otrv3FragPrefix then 3 else if hasPrefix frag otrv2FragPrefix then 2 else 0

end Otr
