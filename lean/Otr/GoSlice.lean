/-
  Otr.GoSlice — a small model of Go slices and `append`, for the package-level byte slices that
  otr3 uses as append prefixes (msgMarker, errorMarker, defaultResentPrefix, …).
  A slice is a window (offset, length, capacity) on a backing array identified by a number.
-/
namespace Otr

structure GoSlice where
  arr : Nat
  off : Nat
  len : Nat
  cap : Nat
  deriving Repr, DecidableEq

/-- `append(s, x₁ … xₙ)`: when the capacity suffices Go writes the new elements into the SAME backing
    array behind the current length and returns a longer window on it; otherwise it allocates a new
    array (`fresh`), copies, and writes there. Result: the new slice and the cells written. -/
def goAppend (s : GoSlice) (n fresh : Nat) : GoSlice × List (Nat × Nat) :=
  if s.len + n ≤ s.cap then
    ({ s with len := s.len + n }, (List.range n).map fun i => (s.arr, s.off + s.len + i))
  else
    (⟨fresh, 0, s.len + n, 2 * (s.len + n)⟩, (List.range (s.len + n)).map fun i => (fresh, i))

end Otr
