/-
  Otr.Frag — fragmentation and reassembly.
  Go anchors: fragmentation.go, otrv2.go / otrv3.go (fragmentPrefix, parseFragmentPrefix),
  bytes.go:bytesToUint16, otrv3.go:parseItag, strconv.Atoi / ParseInt as used there.
-/
import Otr.Msg
namespace Otr

/-! ### strconv as used by the fragment parsers -/

def isDigit (c : UInt8) : Bool := 48 ≤ c && c ≤ 57

def decVal (ds : Bytes) : Nat := ds.foldl (fun acc c => acc * 10 + (c.toNat - 48)) 0

/-- `strconv.Atoi` on a byte string: `[+-]?[0-9]+`, value within int64; result as a signed pair -/
def atoi (s : Bytes) : Option Int :=
  let (neg, ds) := match s with
    | 45 :: r => (true, r)
    | 43 :: r => (false, r)
    | r => (false, r)
  if ds.isEmpty || !ds.all isDigit then none else
  let v := decVal ds
  if neg then (if v ≤ 9223372036854775808 then some (-(v : Int)) else none)
  else (if v ≤ 9223372036854775807 then some (v : Int) else none)

/-- bytesToUint16 (repaired code): `strconv.ParseUint(s, 10, 16)` — digits only, no sign, no
    wrap-around: the value must fit 16 bits -/
def bytesToUint16 (s : Bytes) : Option Nat :=
  if s.isEmpty || !s.all isDigit then none
  else if decVal s ≤ 65535 then some (decVal s) else none

def hexDigitVal (c : UInt8) : Option Nat :=
  if 48 ≤ c && c ≤ 57 then some (c.toNat - 48)
  else if 97 ≤ c && c ≤ 102 then some (c.toNat - 87)
  else if 65 ≤ c && c ≤ 70 then some (c.toNat - 55)
  else none

def hexVal' : Bytes → Nat → Option Nat
  | [], acc => some acc
  | c :: r, acc => match hexDigitVal c with
    | none => none
    | some d => hexVal' r (acc * 16 + d)

/-- parseItag (repaired code): `strconv.ParseUint(s, 16, 32)` — hexadecimal digits only, no sign,
    the value must fit 32 bits -/
def parseItag (s : Bytes) : Option Nat :=
  if s.isEmpty then none else
  match hexVal' s 0 with
  | none => none
  | some v => if v ≤ 4294967295 then some v else none

/-- bytes.Split(data, sep) for a one-byte separator -/
def splitOn (sep : UInt8) : Bytes → List Bytes
  | [] => [[]]
  | c :: r =>
    if c = sep then [] :: splitOn sep r
    else match splitOn sep r with
      | [] => [[c]]          -- unreachable: splitOn never returns []
      | p :: ps => (c :: p) :: ps

/-! ### fmt verbs used by fragmentPrefix -/

def decDigits : Nat → Nat → List UInt8
  | 0, _ => []
  | fuel + 1, n => if n < 10 then [b8 (48 + n)] else decDigits fuel (n / 10) ++ [b8 (48 + n % 10)]

/-- `%05d` of a non-negative int -/
def fmt05d (n : Nat) : Bytes :=
  let ds := decDigits 20 n
  List.replicate (5 - ds.length) 48 ++ ds

def hexDigits : Nat → Nat → List UInt8
  | 0, _ => []
  | fuel + 1, n =>
    let d := n % 16
    let c := if d < 10 then b8 (48 + d) else b8 (87 + d)
    if n < 16 then [c] else hexDigits fuel (n / 16) ++ [c]

/-- `%08x` of a uint32 -/
def fmt08x (n : Nat) : Bytes :=
  let ds := hexDigits 16 n
  List.replicate (8 - ds.length) 48 ++ ds

def otrv2FragPrefix : Bytes := strBytes "?OTR,"
def otrv3FragPrefix : Bytes := strBytes "?OTR|"

/-- otrV2/otrV3.fragmentPrefix(n, total, itags, itagr) — `n` is zero-based -/
def fragmentPrefix (v : Version) (n total itags itagr : Nat) : Bytes :=
  match v with
  | .v2 => otrv2FragPrefix ++ fmt05d (n + 1) ++ [44] ++ fmt05d total ++ [44]
  | .v3 => otrv3FragPrefix ++ fmt08x itags ++ [124] ++ fmt08x itagr ++ [44] ++
           fmt05d (n + 1) ++ [44] ++ fmt05d total ++ [44]

def maxFragments : Nat := 65535

/-- the pieces of `fragment` for i = from … from+k-1 -/
def fragmentPieces (v : Version) (data : Bytes) (realLen num itags itagr : Nat) : Nat → Nat → List Bytes
  | 0, _ => []
  | k + 1, i =>
    (fragmentPrefix v i num itags itagr ++
      (data.drop (i * realLen)).take (min ((i + 1) * realLen) data.length - i * realLen) ++ [44])
    :: fragmentPieces v data realLen num itags itagr k (i + 1)

/-- number of pieces: rounds up, so that no piece is empty (repaired code) -/
def numFrags (l r : Nat) : Nat := (l + r - 1) / r

/-- Conversation.fragment (repaired code: int arithmetic, > 65535 pieces → unfragmented) -/
def fragment (v : Version) (itags itagr : Nat) (data : Bytes) (fraglen : Nat) : List Bytes :=
  let l := data.length
  if l ≤ fraglen ∨ fraglen = 0 then [data] else
  let hdr := (fragmentPrefix v 1 1 itags itagr).length
  if fraglen ≤ hdr + 1 then [data] else
  let realLen := fraglen - hdr - 1
  let num := numFrags l realLen
  if num > maxFragments then [data] else
  fragmentPieces v data realLen num itags itagr num 0

/-! ### reassembly -/

structure FragCtx where
  frag : Bytes
  index : Nat
  len : Nat
  deriving Repr, DecidableEq

def FragCtx.empty : FragCtx := ⟨[], 0, 0⟩

/-- fragmentsFinished -/
def FragCtx.finished (c : FragCtx) : Bool := c.index > 0 && c.index == c.len

/-- parseFragment: body after the prefix, `ix,len,data,` — exactly four parts -/
def parseFragment (body : Bytes) : Option (Bytes × Nat × Nat) :=
  match splitOn 44 body with
  | [p0, p1, p2, p3] =>
    -- repaired code: "k,n,piece," — nothing may follow the comma that ends the piece
    if !p3.isEmpty then none else
    match bytesToUint16 p0, bytesToUint16 p1 with
    | some ix, some l => some (p2, ix, l)
    | _, _ => none
  | _ => none

inductive FragStep where
  | ignore            -- message for another instance: context unchanged, event
  | invalid           -- unparsable: context unchanged, error
  | ok (ctx : FragCtx)
  deriving Repr, DecidableEq

/-- the `switch` of receiveFragment on a parsed fragment -/
def fragAccept (before : FragCtx) (data : Bytes) (ix l : Nat) : FragCtx :=
  if ix = 0 ∨ l = 0 ∨ ix > l then before
  else if ix = 1 then ⟨data, ix, l⟩
  else if (before.index + 1) % 65536 = ix ∧ before.len = l then ⟨before.frag ++ data, ix, l⟩
  else FragCtx.empty

end Otr
