/-
  Otr.DriverConv — conversation-level ops of the line protocol (see /verif/harness/conv.go).
-/
import Otr.Conv
import Otr.DriverPure
import Otr.AkeAbs
namespace Otr.Driver
open Otr

structure DState where
  convs : List (String × Conv) := []
  keys : List (Nat × DsaPub) := []
  now : Nat := 1000

def DState.get (st : DState) (id : String) : Option Conv := (st.convs.find? (·.1 == id)).map (·.2)
def DState.put (st : DState) (id : String) (c : Conv) : DState :=
  if st.convs.any (·.1 == id) then { st with convs := st.convs.map fun (i, x) => if i == id then (i, c) else (i, x) }
  else { st with convs := (id, c) :: st.convs }

def sortBy {α} (lt : α → α → Bool) (l : List α) : List α := (l.toArray.qsort lt).toList

def snapStr (c : Conv) : String :=
  let ctr := sortBy (fun (a b : Counter) => a.ourKeyID < b.ourKeyID || (a.ourKeyID == b.ourKeyID && a.theirKeyID < b.theirKeyID)) c.keys.counters
  let mh := sortBy (fun (a b : MacUse) => a.ourKeyID < b.ourKeyID || (a.ourKeyID == b.ourKeyID && a.theirKeyID < b.theirKeyID)) c.keys.macHistory
  let ake := match c.ake with
    | none => "-"
    | some a => toString a.state.toNat
  let smp := match c.smp.state with
    | none => 0
    | some s => s.toNat
  let ver := match c.version with
    | none => 0
    | some v => v.num
  s!"ms={c.msgState.toNat} ver={ver} ws={c.wsState.toNat} ake={ake} smp={smp} o={c.keys.ourKeyID} t={c.keys.theirKeyID} " ++
  s!"ctr=[{",".intercalate (ctr.map fun k => s!"{k.ourKeyID}:{k.theirKeyID}:{k.ourCounter}:{k.theirCounter}")}] " ++
  s!"mh=[{",".intercalate (mh.map fun k => s!"{k.ourKeyID}:{k.theirKeyID}")}] old={c.keys.oldMACKeys.length} retx={c.mayRetransmit.toNat} " ++
  s!"rs=[{",".intercalate (c.resendMsgs.map hx)}] frag={c.fragCtx.index}/{c.fragCtx.len}/{c.fragCtx.frag.length} " ++
  s!"tags={c.ourTag}/{c.theirTag} ssid={hx c.ssid} srs={boolStr c.sentRevealSig} inj={c.injections.length}"

def parseRand (s : String) : Option (List (Option Bytes)) :=
  if s == "-" then some [] else
  (s.splitOn ",").mapM fun t => if t == "FAIL" then some none else (fromHex t).map some

def parseSigs (s : String) : Option (List (Bytes × Option Bytes)) :=
  if s == "-" then some [] else
  (s.splitOn ",").mapM fun t =>
    match t.splitOn ":" with
    | [d, sg] =>
      match fromHex d with
      | none => none
      | some d => if sg == "FAIL" then some (d, none) else (fromHex sg).map fun x => (d, some x)
    | _ => none

/-- split "… R:x S:y" off the argument list -/
def splitTail (args : List String) : Option (List String × List (Option Bytes) × List (Bytes × Option Bytes)) :=
  match args.reverse with
  | s :: r :: rest =>
    if s.startsWith "S:" && r.startsWith "R:" then
      match parseRand (r.drop 2).toString, parseSigs (s.drop 2).toString with
      | some rl, some sl => some (rest.reverse, rl, sl)
      | _, _ => none
    else none
  | _ => none

def errStr : Option Err → String
  | none => "nil"
  | some e => e.cls

def plainStr : Option Bytes → String
  | none => "nil"
  | some b => hx b

/-- run one API call of the model on conversation `id` -/
def runCall (st : DState) (id : String) (rl : List (Option Bytes)) (sl : List (Bytes × Option Bytes))
    (call : M String) : DState × String :=
  match st.get id with
  | none => (st, "no-such-conv")
  | some c =>
    let ms : MState := { conv := c, env := { rand := rl, sigs := sl, now := st.now } }
    match (call.run).run ms with
    | .panic site => (st, dbgTrace s!"model panic at: {site}" fun _ => "PANIC")
    | .ok (r, ms') =>
      let body := match r with
        | .ok s => s
        | .error e => "UNCAUGHT " ++ e.cls
      let mm := ms'.mismatch ++
        (if ms'.env.rand.isEmpty then [] else [s!"rand-left={ms'.env.rand.length}"]) ++
        (if ms'.env.sigs.isEmpty then [] else [s!"sign-left={ms'.env.sigs.length}"])
      let out := s!"{body} ev=[{",".intercalate ms'.events}] {snapStr ms'.conv}" ++
        (if mm.isEmpty then "" else s!" MISMATCH={mm}")
      (st.put id ms'.conv, out)

def K := Crypto.real

def convOp (st : DState) (line : String) : Option (DState × String) :=
  match splitArgs line with
  | ["key", idx, p, q, g, y] =>
    match fromHex p, fromHex q, fromHex g, fromHex y with
    | some p, some q, some g, some y =>
      some ({ st with keys := (natArg idx, ⟨bytesToNat p, bytesToNat q, bytesToNat g, bytesToNat y⟩) :: st.keys }, "ok")
    | _, _, _, _ => none
  | ["new", id, ver, pol, keyIdx, frag, errh, friendly, tag] =>
    let keys := match keyIdx.toInt? with
      | some (Int.ofNat k) => (st.keys.filter (·.1 == k)).map (·.2)
      | _ => []
    match unhx friendly with
    | none => none
    | some fr =>
      let c : Conv := {
        version := if ver == "2" then some .v2 else if ver == "3" then some .v3 else none
        policies := natArg pol, ourKeys := keys, fragmentSize := natArg frag,
        errHandler := errh == "1", friendlyQuery := fr, ourTag := natArg tag }
      some (st.put id c, "ok " ++ snapStr c)
  | ["akeabs", pat, sched] =>
    -- abstract two-party AKE system (Otr.AkeAbs): final state after the schedule, for both hash orders
    let bs := sched.toList.filterMap fun c => if c == '>' then some true else if c == '<' then some false else none
    let d (w : Bool) := AkeAbs.describe (AkeAbs.runSchedule (AkeAbs.startPattern (natArg pat) w) bs)
    some (st, if d true == d false then d true else s!"{d true}|{d false}")
  | ["xtags", h] => (unhx h).map fun m => (st, match extractInstanceTags m with
      | some (o, t) => s!"{o} {t} true"
      | none => "0 0 false")
  | ["tick", d] => some ({ st with now := st.now + natArg d }, "ok")
  | ["setfrag", id, n] => (st.get id).map fun c => (st.put id { c with fragmentSize := natArg n }, "ok")
  | ["query", id] => (st.get id).map fun c => (st, hx (queryMessage c.policies c.friendlyQuery))
  | ["info", id] => (st.get id).map fun c =>
      let fp := match c.theirKey with
        | none => "-"
        | some k => hx (k.fingerprint K)
      (st, s!"enc={boolStr (c.msgState == .encrypted)} fp={fp} ssid={toHex (c.ssid.take 4)}|{toHex (c.ssid.drop 4)} ix={if c.sentRevealSig then 0 else 1}")
  | op :: id :: rest =>
    match splitTail rest with
    | none => none
    | some (args, rl, sl) =>
      match op, args with
      | "recv", [h] => (unhx h).map fun m => runCall st id rl sl do
          let r ← receive K m
          pure s!"plain={plainStr r.plain} send={hxList r.toSend} err={errStr r.err}"
      | "send", [h] => (unhx h).map fun m => runCall st id rl sl do
          let (ms, e) ← send K m
          pure s!"send={hxList ms} err={errStr e}"
      | "end", [] => some <| runCall st id rl sl do
          let (ms, e) ← endSession K
          pure s!"send={hxList ms} err={errStr e}"
      | "smpstart", [q, s] =>
        match unhx q, unhx s with
        | some q, some s => some <| runCall st id rl sl do
            let r ← tryCatch (do let ms ← startAuthenticate K q s; pure (ms, none)) (fun e => pure ([], some e))
            pure s!"send={hxList r.1} err={errStr r.2}"
        | _, _ => none
      | "smpsecret", [s] => (unhx s).map fun s => runCall st id rl sl do
          let r ← tryCatch (do let ms ← provideAuthenticationSecret K s; pure (ms, none)) (fun e => pure ([], some e))
          pure s!"send={hxList r.1} err={errStr r.2}"
      | "smpabort", [] => some <| runCall st id rl sl do
          let r ← tryCatch (do let ms ← abortAuthentication K; pure (ms, none)) (fun e => pure ([], some e))
          pure s!"send={hxList r.1} err={errStr r.2}"
      | "sendtlvs", text :: rest =>
        -- VerifSendTLVs: createSerializedDataMessage(text, IGNORE_UNREADABLE, tlvs); rest = type value type value …
        let rec mk : List String → Option (List Tlv)
          | [] => some []
          | [_] => none
          | ty :: v :: more =>
            match unhx v, mk more with
            | some v, some ts => some (⟨natArg ty, v.length % 65536, v⟩ :: ts)
            | _, _ => none
        match unhx text, mk rest with
        | some text, some tlvs => some <| runCall st id rl sl do
            let r ← tryCatch (do let (ms, _) ← createSerializedDataMessage K text messageFlagIgnoreUnreadable tlvs; pure (ms, none))
              (fun e => pure ([], some e))
            pure s!"send={hxList r.1} err={errStr r.2}"
        | _, _ => none
      | "extrakey", [u, d] => (unhx d).map fun d => runCall st id rl sl do
          let (key, ms, e) ← useExtraSymmetricKey K (natArg u) d
          pure s!"key={hx key} send={hxList ms} err={errStr e}"
      | _, _ => none
  | _ => none

end Otr.Driver
