/-
  Otr.Codec — the Append*/Extract* primitives.
  Go anchors: gotrax_append.go, gotrax_extract.go.

  Every Go extractor returns `(rest, value, ok)`; the model returns
  `Option (value × rest)`, `none` = `ok == false`.
-/
import Otr.Bytes
namespace Otr

def appendShort (l : Bytes) (v : Nat) : Bytes := l ++ be16 v
def appendWord (l : Bytes) (v : Nat) : Bytes := l ++ be32 v
def appendLong (l : Bytes) (v : Nat) : Bytes := l ++ be64 v
/-- AppendData: uint32(len(r)) then r.  (`uint32(len)` truncation is visible: `be32` reduces mod 2^32.) -/
def appendData (l r : Bytes) : Bytes := l ++ be32 r.length ++ r
def appendMPI (l : Bytes) (n : Nat) : Bytes := appendData l (natToBytes n)
def appendMPIs (l : Bytes) (ns : List Nat) : Bytes := ns.foldl appendMPI l

def extractByte : Bytes → Option (Nat × Bytes)
  | a :: rest => some (a.toNat, rest)
  | _ => none

def extractShort : Bytes → Option (Nat × Bytes)
  | a :: b :: rest => some (de16 a b, rest)
  | _ => none

def extractWord : Bytes → Option (Nat × Bytes)
  | a :: b :: c :: d :: rest => some (de32 a b c d, rest)
  | _ => none

def extractLong : Bytes → Option (Nat × Bytes)
  | a :: b :: c :: d :: e :: f :: g :: h :: rest => some (de64 a b c d e f g h, rest)
  | _ => none

/-- ExtractData -/
def extractData (d : Bytes) : Option (Bytes × Bytes) :=
  match extractWord d with
  | none => none
  | some (n, rest) => if rest.length < n then none else some (rest.take n, rest.drop n)

/-- ExtractFixedData -/
def extractFixedData (d : Bytes) (l : Nat) : Option (Bytes × Bytes) :=
  if d.length < l then none else some (d.take l, d.drop l)

/-- ExtractMPI -/
def extractMPI (d : Bytes) : Option (Nat × Bytes) :=
  match extractData d with
  | none => none
  | some (v, rest) => some (bytesToNat v, rest)

/-- the loop of ExtractMPIs -/
def extractMPIsN : Nat → Bytes → Option (List Nat × Bytes)
  | 0, d => some ([], d)
  | n + 1, d =>
    match extractMPI d with
    | none => none
    | some (v, rest) =>
      match extractMPIsN n rest with
      | none => none
      | some (vs, rest') => some (v :: vs, rest')

/-- ExtractMPIs (with the count bound of the repaired code: count ≤ len(rest)/4).
    Second component of the result is the number of result slots Go allocates. -/
def extractMPIs (d : Bytes) : Option (List Nat × Bytes) :=
  match extractWord d with
  | none => none
  | some (count, rest) =>
    if count > rest.length / 4 then none else extractMPIsN count rest

/-- size of the `make([]*big.Int, count)` allocation requested by ExtractMPIs on this input (0 when none is made) -/
def extractMPIsAlloc (d : Bytes) : Nat :=
  match extractWord d with
  | none => 0
  | some (count, rest) => if count > rest.length / 4 then 0 else count

end Otr
