/-
  DSA signature verification, following Go's `crypto/dsa.Verify` line by line.

  NOTE on the hash: Go's `dsa.Verify` does **not** truncate `hash` to the byte
  length of `q` (its documentation says so explicitly; the code is
  `z := new(big.Int).SetBytes(hash)`).  otr3 relies on this: it passes a 32-byte
  SHA-256/HMAC value with a 160-bit `q`.  `dsaVerify` therefore uses the whole
  hash.  `dsaVerifyTrunc` is the FIPS 186-3 variant that truncates to the first
  `bitLen q / 8` bytes, provided for reference only.
-/
import Otr.Bytes
import Otr.CryptoReal.Num

namespace Otr.CryptoReal

open Otr

/-- Core of DSA verification once `z` (the hash as an integer) is known. -/
def dsaVerifyZ (p q g y : Nat) (z : Nat) (r s : Nat) : Bool :=
  if p = 0 then false
  else if ¬ (0 < r ∧ r < q) then false
  else if ¬ (0 < s ∧ s < q) then false
  else
    match modInv s q with
    | none => false
    | some w =>
      if bitLen q % 8 ≠ 0 then false
      else
        let u1 := z * w % q
        let u2 := r * w % q
        let v := (powMod g u1 p * powMod y u2 p) % p % q
        v == r

/-- Go's `dsa.Verify(&PublicKey{P:p,Q:q,G:g,Y:y}, hashed, r, s)`.
The hash is used in full (no truncation), exactly as Go does. -/
def dsaVerify (p q g y : Nat) (hashed : Bytes) (r s : Nat) : Bool :=
  dsaVerifyZ p q g y (bytesToNat hashed) r s

/-- FIPS 186-3 §4.7 variant: the hash is truncated to its first `bitLen q / 8`
bytes when longer.  *Not* what Go (and hence otr3) does. -/
def dsaVerifyTrunc (p q g y : Nat) (hashed : Bytes) (r s : Nat) : Bool :=
  dsaVerifyZ p q g y (bytesToNat (hashed.take (bitLen q / 8))) r s

end Otr.CryptoReal
