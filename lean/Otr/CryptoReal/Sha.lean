/-
  SHA-1 and SHA-256 (FIPS 180-4), executable, core Lean only.

  The public functions work on `Bytes = List UInt8`; internally the message is
  converted once to a `ByteArray`, padded, and processed block by block with
  `Array UInt32` message schedules.  Everything is total (`for` loops over
  ranges inside `Id.run`), nothing is `partial`/`unsafe`.
-/
import Otr.Bytes

namespace Otr.CryptoReal

open Otr

/-- Merkle–Damgård padding shared by SHA-1 and SHA-256: append `0x80`, then
zeros up to 56 mod 64, then the bit length as a 64-bit big-endian integer. -/
def shaPad (msg : ByteArray) : ByteArray := Id.run do
  let len := msg.size
  let bitLen : UInt64 := (UInt64.ofNat len) * 8
  let r := (len + 1) % 64
  let zeros := if r ≤ 56 then 56 - r else 120 - r
  let mut out := msg.push 0x80
  for _ in [0:zeros] do
    out := out.push 0
  for i in [0:8] do
    out := out.push (bitLen >>> (UInt64.ofNat (56 - 8 * i))).toUInt8
  return out

/-- Big-endian 32-bit load at byte offset `j`. -/
@[inline] def loadBE32 (data : ByteArray) (j : Nat) : UInt32 :=
  ((data.get! j).toUInt32 <<< 24) ||| ((data.get! (j+1)).toUInt32 <<< 16) |||
  ((data.get! (j+2)).toUInt32 <<< 8) ||| (data.get! (j+3)).toUInt32

/-- Append the big-endian bytes of a 32-bit word to a list accumulator (front). -/
@[inline] def be32Bytes (w : UInt32) : List UInt8 :=
  [(w >>> 24).toUInt8, (w >>> 16).toUInt8, (w >>> 8).toUInt8, w.toUInt8]

@[inline] def rotl32 (x : UInt32) (n : UInt32) : UInt32 := (x <<< n) ||| (x >>> (32 - n))
@[inline] def rotr32 (x : UInt32) (n : UInt32) : UInt32 := (x >>> n) ||| (x <<< (32 - n))

/-! ### SHA-256 -/

def k256 : Array UInt32 := #[
  0x428a2f98, 0x71374491, 0xb5c0fbcf, 0xe9b5dba5, 0x3956c25b, 0x59f111f1, 0x923f82a4, 0xab1c5ed5,
  0xd807aa98, 0x12835b01, 0x243185be, 0x550c7dc3, 0x72be5d74, 0x80deb1fe, 0x9bdc06a7, 0xc19bf174,
  0xe49b69c1, 0xefbe4786, 0x0fc19dc6, 0x240ca1cc, 0x2de92c6f, 0x4a7484aa, 0x5cb0a9dc, 0x76f988da,
  0x983e5152, 0xa831c66d, 0xb00327c8, 0xbf597fc7, 0xc6e00bf3, 0xd5a79147, 0x06ca6351, 0x14292967,
  0x27b70a85, 0x2e1b2138, 0x4d2c6dfc, 0x53380d13, 0x650a7354, 0x766a0abb, 0x81c2c92e, 0x92722c85,
  0xa2bfe8a1, 0xa81a664b, 0xc24b8b70, 0xc76c51a3, 0xd192e819, 0xd6990624, 0xf40e3585, 0x106aa070,
  0x19a4c116, 0x1e376c08, 0x2748774c, 0x34b0bcb5, 0x391c0cb3, 0x4ed8aa4a, 0x5b9cca4f, 0x682e6ff3,
  0x748f82ee, 0x78a5636f, 0x84c87814, 0x8cc70208, 0x90befffa, 0xa4506ceb, 0xbef9a3f7, 0xc67178f2]

/-- One SHA-256 compression step on the 64-byte block of `data` at offset `off`. -/
def sha256Block (h : Array UInt32) (data : ByteArray) (off : Nat) : Array UInt32 := Id.run do
  let mut w : Array UInt32 := Array.mkEmpty 64
  for i in [0:16] do
    w := w.push (loadBE32 data (off + 4 * i))
  for i in [16:64] do
    let w15 := w[i - 15]!
    let w2 := w[i - 2]!
    let s0 := rotr32 w15 7 ^^^ rotr32 w15 18 ^^^ (w15 >>> 3)
    let s1 := rotr32 w2 17 ^^^ rotr32 w2 19 ^^^ (w2 >>> 10)
    w := w.push (w[i - 16]! + s0 + w[i - 7]! + s1)
  let mut a := h[0]!
  let mut b := h[1]!
  let mut c := h[2]!
  let mut d := h[3]!
  let mut e := h[4]!
  let mut f := h[5]!
  let mut g := h[6]!
  let mut hh := h[7]!
  for i in [0:64] do
    let s1 := rotr32 e 6 ^^^ rotr32 e 11 ^^^ rotr32 e 25
    let ch := (e &&& f) ^^^ ((~~~ e) &&& g)
    let t1 := hh + s1 + ch + k256[i]! + w[i]!
    let s0 := rotr32 a 2 ^^^ rotr32 a 13 ^^^ rotr32 a 22
    let maj := (a &&& b) ^^^ (a &&& c) ^^^ (b &&& c)
    let t2 := s0 + maj
    hh := g
    g := f
    f := e
    e := d + t1
    d := c
    c := b
    b := a
    a := t1 + t2
  return #[h[0]! + a, h[1]! + b, h[2]! + c, h[3]! + d, h[4]! + e, h[5]! + f, h[6]! + g, h[7]! + hh]

def sha256Init : Array UInt32 :=
  #[0x6a09e667, 0xbb67ae85, 0x3c6ef372, 0xa54ff53a, 0x510e527f, 0x9b05688c, 0x1f83d9ab, 0x5be0cd19]

/-- SHA-256 on a `ByteArray`, returning the eight state words. -/
def sha256Words (msg : ByteArray) : Array UInt32 := Id.run do
  let data := shaPad msg
  let mut h := sha256Init
  for blk in [0:data.size / 64] do
    h := sha256Block h data (64 * blk)
  return h

/-- SHA-256 digest (32 bytes). -/
def sha256 (msg : Bytes) : Bytes :=
  let h := sha256Words (ByteArray.mk msg.toArray)
  h.foldr (fun w acc => be32Bytes w ++ acc) []

/-! ### SHA-1 -/

/-- One SHA-1 compression step on the 64-byte block of `data` at offset `off`. -/
def sha1Block (h : Array UInt32) (data : ByteArray) (off : Nat) : Array UInt32 := Id.run do
  let mut w : Array UInt32 := Array.mkEmpty 80
  for i in [0:16] do
    w := w.push (loadBE32 data (off + 4 * i))
  for i in [16:80] do
    w := w.push (rotl32 (w[i - 3]! ^^^ w[i - 8]! ^^^ w[i - 14]! ^^^ w[i - 16]!) 1)
  let mut a := h[0]!
  let mut b := h[1]!
  let mut c := h[2]!
  let mut d := h[3]!
  let mut e := h[4]!
  for i in [0:80] do
    let (f, k) : UInt32 × UInt32 :=
      if i < 20 then ((b &&& c) ||| ((~~~ b) &&& d), 0x5a827999)
      else if i < 40 then (b ^^^ c ^^^ d, 0x6ed9eba1)
      else if i < 60 then ((b &&& c) ||| (b &&& d) ||| (c &&& d), 0x8f1bbcdc)
      else (b ^^^ c ^^^ d, 0xca62c1d6)
    let t := rotl32 a 5 + f + e + k + w[i]!
    e := d
    d := c
    c := rotl32 b 30
    b := a
    a := t
  return #[h[0]! + a, h[1]! + b, h[2]! + c, h[3]! + d, h[4]! + e]

def sha1Init : Array UInt32 :=
  #[0x67452301, 0xefcdab89, 0x98badcfe, 0x10325476, 0xc3d2e1f0]

/-- SHA-1 on a `ByteArray`, returning the five state words. -/
def sha1Words (msg : ByteArray) : Array UInt32 := Id.run do
  let data := shaPad msg
  let mut h := sha1Init
  for blk in [0:data.size / 64] do
    h := sha1Block h data (64 * blk)
  return h

/-- SHA-1 digest (20 bytes). -/
def sha1 (msg : Bytes) : Bytes :=
  let h := sha1Words (ByteArray.mk msg.toArray)
  h.foldr (fun w acc => be32Bytes w ++ acc) []

end Otr.CryptoReal
