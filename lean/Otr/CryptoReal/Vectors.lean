/-
  Known-answer self tests for the `Otr.CryptoReal` primitives.

  `selfTest : Bool` is the conjunction of the per-primitive tests below; the
  standalone driver `CryptoTestMain.lean` prints PASS/FAIL per primitive and
  additionally replays a file of randomly generated cross-check vectors
  (produced with Go's standard library and python3).

  Expected values: SHA/HMAC from FIPS 180 / RFC 2202 / RFC 4231 (re-checked
  with python3 hashlib/hmac), AES from FIPS-197 App. C.1 and NIST SP 800-38A
  F.5.1, `powMod`/`modInv` from python3 `pow`, DSA from Go `crypto/dsa`
  (L1024N160; `dsa.Verify` results recorded next to each case).
-/
import Otr.Bytes
import Otr.CryptoReal.Sha
import Otr.CryptoReal.Hmac
import Otr.CryptoReal.Aes
import Otr.CryptoReal.Num
import Otr.CryptoReal.Dsa

namespace Otr.CryptoReal

open Otr

/-! ### Hex helpers -/

/-- Value of a hex digit (either case); non-hex characters count as 0. -/
def hexDigitVal (c : Char) : Nat :=
  if '0' ≤ c ∧ c ≤ '9' then c.toNat - '0'.toNat
  else if 'a' ≤ c ∧ c ≤ 'f' then c.toNat - 'a'.toNat + 10
  else if 'A' ≤ c ∧ c ≤ 'F' then c.toNat - 'A'.toNat + 10
  else 0

def hexCharsToBytes : List Char → Bytes
  | a :: b :: rest => UInt8.ofNat (hexDigitVal a * 16 + hexDigitVal b) :: hexCharsToBytes rest
  | _ => []

/-- Parse an even-length hex string into bytes; `"-"` and `""` denote the empty string. -/
def hexToBytes (s : String) : Bytes :=
  if s = "-" then [] else hexCharsToBytes s.toList

/-- Parse a hex string (any length) as a natural number. -/
def hexToNat (s : String) : Nat :=
  s.toList.foldl (fun acc c => acc * 16 + hexDigitVal c) 0

def hexDigitChar (n : Nat) : Char :=
  if n < 10 then Char.ofNat (n + '0'.toNat) else Char.ofNat (n - 10 + 'a'.toNat)

/-- Lower-case hex encoding. -/
def bytesToHex (b : Bytes) : String :=
  String.ofList (b.flatMap fun x => [hexDigitChar (x.toNat / 16), hexDigitChar (x.toNat % 16)])

def strBytes (s : String) : Bytes := s.toUTF8.toList

/-! ### SHA-1 / SHA-256 -/

def shaTest : Bool :=
  sha1 [] == hexToBytes "da39a3ee5e6b4b0d3255bfef95601890afd80709" &&
  sha256 [] == hexToBytes "e3b0c44298fc1c149afbf4c8996fb92427ae41e4649b934ca495991b7852b855" &&
  sha1 (strBytes "abc") == hexToBytes "a9993e364706816aba3e25717850c26c9cd0d89d" &&
  sha256 (strBytes "abc") == hexToBytes "ba7816bf8f01cfea414140de5dae2223b00361a396177a9cb410ff61f20015ad" &&
  sha1 (strBytes "abcdbcdecdefdefgefghfghighijhijkijkljklmklmnlmnomnopnopq") == hexToBytes "84983e441c3bd26ebaae4aa1f95129e5e54670f1" &&
  sha256 (strBytes "abcdbcdecdefdefgefghfghighijhijkijkljklmklmnlmnomnopnopq") == hexToBytes "248d6a61d20638b8e5c026930c3e6039a33ce45964ff2167f6ecedd419db06c1" &&
  sha1 (List.replicate 1000 0x61) == hexToBytes "291e9a6c66994949b57ba5e650361e98fc36b1ba" &&
  sha256 (List.replicate 1000 0x61) == hexToBytes "41edece42d63e8d9bf515a9ba6932e1c20cbc9f5a5d134645adb5db1b9737ea3" &&
  (sha1 (List.replicate 1000 0x61)).length == 20 &&
  (sha256 (List.replicate 1000 0x61)).length == 32

/-! ### HMAC (RFC 2202 / RFC 4231 cases 1, 2 and the long-key cases 6) -/

def hmacTest : Bool :=
  hmacSha1 (List.replicate 20 0x0b) (strBytes "Hi There") == hexToBytes "b617318655057264e28bc0b6fb378c8ef146be00" &&
  hmacSha256 (List.replicate 20 0x0b) (strBytes "Hi There") == hexToBytes "b0344c61d8db38535ca8afceaf0bf12b881dc200c9833da726e9376c2e32cff7" &&
  hmacSha1 (strBytes "Jefe") (strBytes "what do ya want for nothing?") == hexToBytes "effcdf6ae5eb2fa2d27416d5f184df9c259a7c79" &&
  hmacSha256 (strBytes "Jefe") (strBytes "what do ya want for nothing?") == hexToBytes "5bdcc146bf60754e6a042426089575c75a003f089d2739839dec58b964ec3843" &&
  hmacSha1 (List.replicate 80 0xaa) (strBytes "Test Using Larger Than Block-Size Key - Hash Key First") == hexToBytes "aa4ae5e15272d00e95705637ce8a3b55ed402112" &&
  hmacSha256 (List.replicate 131 0xaa) (strBytes "Test Using Larger Than Block-Size Key - Hash Key First") == hexToBytes "60e431591ee0b67f0d8a26aacbf5b77f8e0bc6213728c5140546040f0ee37f54" &&
  hmacSha1 (List.replicate 64 0x55) (strBytes "abc") == hexToBytes "bc707d18bf34130ec2d48254aec79904b5a384f6" &&
  hmacSha256 (List.replicate 64 0x55) (strBytes "abc") == hexToBytes "cf56e9e5fcfcad1fc044f8860c6f3e8cd5f9570043afe5302d2e4fb08c43f9bf" &&
  hmacSha1 (List.replicate 65 0x55) (strBytes "abc") == hexToBytes "2ca0514141d82110dd5a7a4e3a83a53077499d8f" &&
  hmacSha256 (List.replicate 65 0x55) (strBytes "abc") == hexToBytes "93ab563b6ae456190ccf465b33c5372562c767256c4af51b5e83a26b80610c17"

/-! ### AES-128 (FIPS-197 C.1) and AES-CTR (SP 800-38A F.5.1) -/

def aesBlockTest : Bool :=
  aes128EncryptBlock (hexToBytes "000102030405060708090a0b0c0d0e0f")
      (hexToBytes "00112233445566778899aabbccddeeff")
    == hexToBytes "69c4e0d86a7b0430d8cdb78070b4c55a" &&
  aes128EncryptBlock (hexToBytes "2b7e151628aed2a6abf7158809cf4f3c")
      (hexToBytes "6bc1bee22e409f96e93d7e117393172a")
    == hexToBytes "3ad77bb40d7a3660a89ecaf32466ef97"

def ctrKey : Bytes := hexToBytes "2b7e151628aed2a6abf7158809cf4f3c"
def ctrIv : Bytes := hexToBytes "f0f1f2f3f4f5f6f7f8f9fafbfcfdfeff"
def ctrPt : Bytes := hexToBytes
  "6bc1bee22e409f96e93d7e117393172aae2d8a571e03ac9c9eb76fac45af8e5130c81c46a35ce411e5fbc1191a0a52eff69f2445df4f9b17ad2b417be66c3710"
def ctrCt : Bytes := hexToBytes
  "874d6191b620e3261bef6864990db6ce9806f66b7970fdff8617187bb9fffdff5ae4df3edbd5d35e5b4f09020db03eab1e031dda2fbe03d1792170a0f3009cee"

def aesCtrTest : Bool :=
  aesCtr ctrKey ctrIv (ctrPt.take 16) == some (ctrCt.take 16) &&
  aesCtr ctrKey ctrIv (ctrPt.take 32) == some (ctrCt.take 32) &&
  aesCtr ctrKey ctrIv ctrPt == some ctrCt &&
  aesCtr ctrKey ctrIv ctrCt == some ctrPt &&
  aesCtr ctrKey ctrIv (ctrPt.take 21) == some (ctrCt.take 21) &&
  aesCtr ctrKey ctrIv [] == some [] &&
  (ctrKeystream ctrKey ctrIv 37).length == 37 &&
  aesCtr (ctrKey.take 15) ctrIv ctrPt == none &&
  aesCtr ctrKey (ctrIv ++ [0]) ctrPt == none &&
  -- counter increment is a full 128-bit big-endian increment with wrap-around
  incrCounter (hexToBytes "000000000000000000000000000000ff") == hexToBytes "00000000000000000000000000000100" &&
  incrCounter (hexToBytes "0000000000000000ffffffffffffffff") == hexToBytes "00000000000000010000000000000000" &&
  incrCounter (hexToBytes "ffffffffffffffffffffffffffffffff") == hexToBytes "00000000000000000000000000000000"

def aesTest : Bool := aesBlockTest && aesCtrTest

/-! ### powMod / modInv / byte conversions -/

/-- RFC 3526 1536-bit MODP prime (the OTR Diffie-Hellman modulus). -/
def tvP1536 : Nat := hexToNat
  "ffffffffffffffffc90fdaa22168c234c4c6628b80dc1cd129024e088a67cc74020bbea63b139b22514a08798e3404ddef9519b3cd3a431b302b0a6df25f14374fe1356d6d51c245e485b576625e7ec6f44c42e9a637ed6b0bff5cb6f406b7edee386bfb5a899fa5ae9f24117c4b1fe649286651ece45b3dc2007cb8a163bf0598da48361c55d39a69163fa8fd24cf5f83655d23dca3ad961c62f356208552bb9ed529077096966d670c354e4abc9804f1746c08ca237327ffffffffffffffff"
def tvBase : Nat := hexToNat
  "552d8b8e86344e60622291e4e34321c2a30bc52ba0a395a98e823d5930b8ccfbf11fee38ba567cc80193fd91570efe1a5e7e18aade76f1708f33e8a0cc03d8de07f53de839a82356eb3e33695472bddae9960b910fbfc4bf155c75e2af7173e7efa136b1a86df0b17c2f007a0e6c8d3294e2a31f840bef6a35a28830cdf17f0bdbb181ef84cde4b808662710a4ac3d48cdecfaab06f92c293426f5417e5c564f6bdc88973eee4356f7178bc3c92499465ec56e424afeb2673f216f8f586d16bb"
def tvExp320 : Nat := hexToNat
  "cdfa9d201bfca22ee8f25a0342611b31bc106fe2264df17a98c289d06abe9516e3fc2248909cb85d"
def tvRes320 : Nat := hexToNat
  "a705243a2c8dc817db350ed6fe3fdc3922bc5f2f888163dc01a2b230601da31a399af310c2d06967a10f1f3628a1d07478a6ffa621ca3ebcbb3d3fbf451c95e0270b151ebd4980c56544ab929b0d2232b7aef2e0791b1d824fb1e721a61488d520ba2539ddbc23f1df6fce4fab4569790795b9e7c3f9668a047785088d1c5d854ea1d3525110fe5942cec8aa0fab0ca75101cb80e69efa0c03b9902b579241f9301f7631d1d156d51195c2ac6eb6d8df64c64f1b688a26324bae0f9e6b23a3a8"
def tvExp1536 : Nat := hexToNat
  "d2ea6e854023bdec708be78288c58f3abe9d863e8a9e0167d1a101a0112bbe11c0afd32e3fae8f1e14d51a98285a3d9b67d60ce2a4c4b4519e0bd8083daf94b5afcf9864405aef8097c85d419c655bc93e543c5130238e89697f2213133b11e18f07b64e72ac587ad96cb5d582b4eedea7e34b4e7351bd45a105729f2c7a1c1aad9d71c1c060706625886cfd45d3479ade0e31e20ec0d012bec77c9aef85b7caf3cbb513c586569df0fd4e92c8c8292057e2307e82000af981faa3f6f402b530"
def tvRes1536 : Nat := hexToNat
  "402de67a2cec79d8a2c9cd9c34b0d16a16e8a061e5404730ce54f51c2acf7b9661bba518d66b67d24b8f2c3a6cf08f65f5cb9f45705e369c1fe587b8de9a1febbe6a6b860295ea6669053c1a70be702f7abb74f3a81fccc38f91be1a74e4e1615b09f5cb93641cbccd44d7d232e78c629e91a407996273728364e4c45f17e67ba73f02e02511de970a4cfba13f11eb6cebecb31991cfdf8bc534772236dbe554b6d0be952af0316c83a7795e3fc8e7189e4ac09fb72711d1458edc1a2d9c8a56"

def powModTest : Bool :=
  powMod 0 0 7 == 1 &&
  powMod 5 0 1 == 0 &&
  powMod 2 10 1000 == 24 &&
  powMod 2 10 1 == 0 &&
  powMod 3 200 13 == 9 &&
  powMod 4 13 497 == 445 &&
  powMod 7 5 0 == 16807 &&
  powMod 123456789 65537 1000000007 == 560583526 &&
  powMod 2 (tvP1536 - 1) tvP1536 == 1 &&
  powMod tvBase tvExp320 tvP1536 == tvRes320 &&
  powMod tvBase tvExp1536 tvP1536 == tvRes1536

def modInvTest : Bool :=
  modInv 3 7 == some 5 &&
  modInv 10 7 == some 5 &&
  modInv 1 1 == some 0 &&
  modInv 0 1 == some 0 &&
  modInv 5 1 == some 0 &&
  modInv 0 7 == none &&
  modInv 7 7 == none &&
  modInv 6 9 == none &&
  modInv 4 0 == none &&
  modInv 17 3120 == some 2753 &&
  modInv 1 2 == some 1 &&
  modInv (hexToNat "84916014425f4b3d3819a2ef71420f771b5409c2") (hexToNat "f5d23b505b5ec92e92063b352d4f23d07ea9b0b7")
    == some (hexToNat "99e5c77e4980ff6159b3c0b62271ba91153af7a5") &&
  modInv 2 tvP1536 == some ((tvP1536 + 1) / 2) &&
  modInv tvP1536 (tvP1536 * 3) == none

def bytesNatTest : Bool :=
  bytesToNat [] == 0 &&
  bytesToNat [0, 0, 1, 2] == 258 &&
  bytesToNat (hexToBytes "ffffffffffffffffff") == 2 ^ 72 - 1 &&
  natToBytes 0 == [] &&
  natToBytes 1 == [1] &&
  natToBytes 255 == [255] &&
  natToBytes 256 == [1, 0] &&
  natToBytes 65535 == [255, 255] &&
  natToBytes 65536 == [1, 0, 0] &&
  natToBytes (2 ^ 64) == 1 :: List.replicate 8 0 &&
  bytesToNat (natToBytes tvP1536) == tvP1536 &&
  (natToBytes tvP1536).length == 192 &&
  bitLen 0 == 0 && bitLen 1 == 1 && bitLen 255 == 8 && bitLen 256 == 9 && bitLen tvP1536 == 1536

def numTest : Bool := powModTest && modInvTest && bytesNatTest

/-! ### DSA (vectors produced by Go `crypto/dsa`, L1024N160) -/

def dsaP : Nat := hexToNat
  "b2391227c57e682aab6642447a2bfb371090930d6df0485d02826e061dfcd74fe775082d3b0c49f49d02c63608e4bd99c61958304afd2014737d1ced42a2af3b0da3978b9bfa488e9cb3da9f2a1e2fa0f3a79f534d06ad2eb6c4d152c7fbbee2405ff3bb4a20768d14862ac30a842b92bddb3b4d80daccc1abfd59f42b3942d1"
def dsaQ : Nat := hexToNat "f5d23b505b5ec92e92063b352d4f23d07ea9b0b7"
def dsaG : Nat := hexToNat
  "1aab2a15a52d0dff104a5c7e6a3f2af8721d5f86fb1ae3c9f310ffa3243ea6d6355938a3d5c6725badce81372fe8905edf10ebbd44d12b2a30f7ee83202b08101f88f7ca14fcabadad0225044f43c46df71c2b3797395dc071930f629d311aadaaac85264d9784728d9546606344b0695d5c1cad62bcee0482c6f7a8911a4205"
def dsaY : Nat := hexToNat
  "8e1a5b8236d20cb14b5a42f96124e5ca4646def6b5faace376fbf8150e27f60def3873434f4db50b9f38370929df62114575514f862921203bbcf689b8725a55ac987cb985566e535b5c078c2810a9b1d4274fd746bfcd9eb41f66c1b61d76cf1a546ae20e8f92b82ad73acc3bb71ef6d1154241e5f06d6d0106b4eb8820ab6f"

/-- `(name, hash, r, s, result of Go's dsa.Verify)`.  `valid32`/`badtail32` use a
32-byte hash with the 160-bit `q`: Go does not truncate the hash, so flipping a
bit in the last byte invalidates the signature. -/
def dsaCases : List (String × String × String × String × Bool) := [
  ("valid20", "75e7cfaf1c2c6f8cc90ad2c278327378c9a67334",
    "bb301ee092ed0376db2eb50ff5f041cbd9bee4eb", "84916014425f4b3d3819a2ef71420f771b5409c2", true),
  ("badhash20", "75e7cfae1c2c6f8cc90ad2c278327378c9a67334",
    "bb301ee092ed0376db2eb50ff5f041cbd9bee4eb", "84916014425f4b3d3819a2ef71420f771b5409c2", false),
  ("bads20", "75e7cfaf1c2c6f8cc90ad2c278327378c9a67334",
    "bb301ee092ed0376db2eb50ff5f041cbd9bee4eb", "84916014425f4b3d3819a2ef71420f771b5409c3", false),
  ("valid32", "ca67ac113b8b6eaf98ef211885701d4f7df66464b963c55cf94d5a3c13b8e9c9",
    "516ff35abb4c0d38917eb8cfcb3a907ff7ab18e4", "10bf767dc3ebd8652eaaf7b731b9989f28a17720", true),
  ("badtail32", "ca67ac113b8b6eaf98ef211885701d4f7df66464b963c55cf94d5a3c13b8e949",
    "516ff35abb4c0d38917eb8cfcb3a907ff7ab18e4", "10bf767dc3ebd8652eaaf7b731b9989f28a17720", false),
  ("rzero", "75e7cfaf1c2c6f8cc90ad2c278327378c9a67334",
    "0", "84916014425f4b3d3819a2ef71420f771b5409c2", false),
  ("rq", "75e7cfaf1c2c6f8cc90ad2c278327378c9a67334",
    "f5d23b505b5ec92e92063b352d4f23d07ea9b0b7", "84916014425f4b3d3819a2ef71420f771b5409c2", false),
  ("sq", "75e7cfaf1c2c6f8cc90ad2c278327378c9a67334",
    "bb301ee092ed0376db2eb50ff5f041cbd9bee4eb", "f5d23b505b5ec92e92063b352d4f23d07ea9b0b7", false)
]

def dsaCaseOk (c : String × String × String × String × Bool) : Bool :=
  dsaVerify dsaP dsaQ dsaG dsaY (hexToBytes c.2.1) (hexToNat c.2.2.1) (hexToNat c.2.2.2.1) == c.2.2.2.2

def dsaTest : Bool :=
  dsaCases.all dsaCaseOk &&
  -- p = 0 is rejected
  dsaVerify 0 dsaQ dsaG dsaY (hexToBytes "75e7cfaf1c2c6f8cc90ad2c278327378c9a67334") (hexToNat "bb301ee092ed0376db2eb50ff5f041cbd9bee4eb") (hexToNat "84916014425f4b3d3819a2ef71420f771b5409c2") == false &&
  -- a q whose bit length is not a multiple of 8 is rejected (here 7 bits)
  dsaVerify 607 101 64 64 [1] 1 1 == false

/-! ### Everything -/

def selfTest : Bool := shaTest && hmacTest && aesTest && numTest && dsaTest

end Otr.CryptoReal
