/-
  Correctness lemmas for `Otr.CryptoReal.Num` (core Lean only).
-/
import Otr.Bytes
import Otr.CryptoReal.Num

namespace Otr.CryptoReal

open Otr

/-! ### Extended Euclid / modInv -/

/-- With enough fuel (`r0 * r1 < 2 ^ fuel`, `r1 < r0`) the first component is the gcd. -/
theorem egcdAux_fst :
    ∀ (fuel r0 r1 : Nat) (t0 t1 : Int), r1 < r0 → r0 * r1 < 2 ^ fuel →
      (egcdAux fuel r0 r1 t0 t1).1 = Nat.gcd r0 r1 := by
  intro fuel
  induction fuel with
  | zero =>
    intro r0 r1 t0 t1 hlt hf
    have hz : r0 * r1 = 0 := by simpa using hf
    have : r1 = 0 := by
      rcases Nat.mul_eq_zero.mp hz with h | h
      · omega
      · exact h
    subst this
    simp [egcdAux]
  | succ fuel ih =>
    intro r0 r1 t0 t1 hlt hf
    unfold egcdAux
    by_cases h0 : r1 = 0
    · subst h0; simp
    · rw [if_neg h0]
      have hpos : 0 < r1 := Nat.pos_of_ne_zero h0
      have hmod : r0 % r1 < r1 := Nat.mod_lt _ hpos
      have hq : 1 ≤ r0 / r1 := Nat.div_pos (Nat.le_of_lt hlt) hpos
      have hdm := Nat.div_add_mod r0 r1
      have hmul : r1 * 1 ≤ r1 * (r0 / r1) := Nat.mul_le_mul_left _ hq
      have hr0 : 2 * (r0 % r1) + 1 ≤ r0 := by omega
      have hprod : r1 * (2 * (r0 % r1) + 1) ≤ r1 * r0 := Nat.mul_le_mul_left _ hr0
      have hexp : r1 * (2 * (r0 % r1) + 1) = 2 * (r1 * (r0 % r1)) + r1 := by
        rw [Nat.mul_add, Nat.mul_one, Nat.mul_left_comm]
      have hcomm : r1 * r0 = r0 * r1 := Nat.mul_comm _ _
      have hpow : 2 ^ (fuel + 1) = 2 * 2 ^ fuel := by rw [Nat.pow_succ, Nat.mul_comm]
      have hf' : r1 * (r0 % r1) < 2 ^ fuel := by omega
      rw [ih r1 (r0 % r1) _ _ hmod hf']
      rw [Nat.gcd_comm r0 r1, Nat.gcd_rec r1 r0, Nat.gcd_comm]

/-- Bézout invariant: `t * a ≡ g (mod m)` is preserved, whatever the fuel. -/
theorem egcdAux_bezout (a m : Int) :
    ∀ (fuel r0 r1 : Nat) (t0 t1 : Int), m ∣ t0 * a - (r0 : Int) → m ∣ t1 * a - (r1 : Int) →
      m ∣ (egcdAux fuel r0 r1 t0 t1).2 * a - ((egcdAux fuel r0 r1 t0 t1).1 : Int) := by
  intro fuel
  induction fuel with
  | zero => intro r0 r1 t0 t1 h0 _; simpa [egcdAux] using h0
  | succ fuel ih =>
    intro r0 r1 t0 t1 h0 h1
    unfold egcdAux
    by_cases hz : r1 = 0
    · rw [if_pos hz]; exact h0
    · rw [if_neg hz]
      apply ih _ _ _ _ h1
      have hcast : ((r0 % r1 : Nat) : Int) = (r0 : Int) - (r1 : Int) * ((r0 / r1 : Nat) : Int) := by
        rw [Int.natCast_emod, Int.emod_def]; simp
      have hre : (t0 - Int.ofNat (r0 / r1) * t1) * a - ((r0 % r1 : Nat) : Int)
          = (t0 * a - (r0 : Int)) - ((r0 / r1 : Nat) : Int) * (t1 * a - (r1 : Int)) := by
        rw [hcast]
        simp only [Int.ofNat_eq_natCast]
        grind
      rw [hre]
      exact Int.dvd_sub h0 (Int.dvd_mul_of_dvd_right h1)


/-- The fuel used by `modInv` is sufficient. -/
theorem modInv_fuel_ok (a m : Nat) (hm : m ≠ 0) : m * (a % m) < 2 ^ (2 * m.log2 + 4) := by
  have h1 : m < 2 ^ (m.log2 + 1) := Nat.lt_log2_self
  have h2 : a % m < 2 ^ (m.log2 + 1) := Nat.lt_trans (Nat.mod_lt _ (Nat.pos_of_ne_zero hm)) h1
  have h3 : m * (a % m) < 2 ^ (m.log2 + 1) * 2 ^ (m.log2 + 1) := Nat.mul_lt_mul'' h1 h2
  rw [← Nat.pow_add] at h3
  exact Nat.lt_of_lt_of_le h3 (Nat.pow_le_pow_right (by decide) (by omega))

theorem modInv_egcd_fst (a m : Nat) (hm : m ≠ 0) :
    (egcdAux (2 * m.log2 + 4) m (a % m) 0 1).1 = Nat.gcd a m := by
  rw [egcdAux_fst _ _ _ _ _ (Nat.mod_lt _ (Nat.pos_of_ne_zero hm)) (modInv_fuel_ok a m hm)]
  rw [Nat.gcd_comm m (a % m), ← Nat.gcd_rec m a, Nat.gcd_comm]

theorem modInv_egcd_bezout (a m : Nat) :
    (m : Int) ∣ (egcdAux (2 * m.log2 + 4) m (a % m) 0 1).2 * (a : Int)
      - ((egcdAux (2 * m.log2 + 4) m (a % m) 0 1).1 : Int) := by
  apply egcdAux_bezout
  · simp
  · rw [Int.one_mul, Int.natCast_emod, Int.emod_def]
    have : (a : Int) - ((a : Int) - (m : Int) * ((a : Int) / (m : Int))) = (m : Int) * ((a : Int) / (m : Int)) := by
      omega
    rw [this]
    exact Int.dvd_mul_right _ _

/-- Soundness of `modInv`: a returned value is the inverse of `a` modulo `m`, reduced to `[0, m)`. -/
theorem modInv_eq_some {a m x : Nat} (h : modInv a m = some x) :
    x < m ∧ (a * x) % m = 1 % m ∧ Nat.gcd a m = 1 := by
  unfold modInv at h
  by_cases hm : m = 0
  · simp [hm] at h
  · rw [if_neg hm] at h
    simp only at h
    have hfst := modInv_egcd_fst a m hm
    have hbez := modInv_egcd_bezout a m
    generalize egcdAux (2 * m.log2 + 4) m (a % m) 0 1 = res at h hfst hbez
    by_cases hg : res.1 = 1
    · rw [if_pos hg] at h
      have hx : x = (res.2 % (Int.ofNat m)).toNat := by injection h with h; exact h.symm
      have hmI : (m : Int) ≠ 0 := by omega
      have hmpos : (0 : Int) < (m : Int) := by omega
      have hnn : 0 ≤ res.2 % (m : Int) := Int.emod_nonneg _ hmI
      have hlt : res.2 % (m : Int) < (m : Int) := Int.emod_lt_of_pos _ hmpos
      have hxI : (x : Int) = res.2 % (m : Int) := by
        rw [hx]; exact Int.toNat_of_nonneg hnn
      refine ⟨by omega, ?_, by rw [← hfst, hg]⟩
      rw [hg] at hbez
      -- m ∣ a * x - 1 over the integers
      have hdvd : (m : Int) ∣ (a : Int) * (x : Int) - 1 := by
        rw [hxI, Int.emod_def]
        have hre : (a : Int) * (res.2 - (m : Int) * (res.2 / (m : Int))) - 1
            = (res.2 * (a : Int) - ((1 : Nat) : Int)) - (m : Int) * ((a : Int) * (res.2 / (m : Int))) := by
          simp only [Int.natCast_one]
          grind
        rw [hre]
        exact Int.dvd_sub hbez (Int.dvd_mul_right _ _)
      have hmodI : ((a : Int) * (x : Int)) % (m : Int) = 1 % (m : Int) :=
        Int.emod_eq_emod_iff_emod_sub_eq_zero.mpr (Int.emod_eq_zero_of_dvd hdvd)
      have : ((a * x % m : Nat) : Int) = ((1 % m : Nat) : Int) := by
        rw [Int.natCast_emod, Int.natCast_emod, Int.natCast_mul, Int.natCast_one]
        exact hmodI
      exact Int.natCast_inj.mp this
    · rw [if_neg hg] at h; cases h

/-- Completeness of `modInv`: it fails exactly when `m = 0` or `a` is not a unit modulo `m`. -/
theorem modInv_eq_none_iff (a m : Nat) : modInv a m = none ↔ m = 0 ∨ Nat.gcd a m ≠ 1 := by
  unfold modInv
  by_cases hm : m = 0
  · simp [hm]
  · rw [if_neg hm]
    simp only
    rw [modInv_egcd_fst a m hm]
    by_cases hg : Nat.gcd a m = 1
    · simp [hg, hm]
    · simp [hg]

/-- `modInv` succeeds iff `m ≠ 0` and `gcd a m = 1`. -/
theorem modInv_isSome_iff (a m : Nat) : (modInv a m).isSome = true ↔ m ≠ 0 ∧ Nat.gcd a m = 1 := by
  have h := modInv_eq_none_iff a m
  cases hr : modInv a m with
  | none =>
    have := h.mp hr
    simp
    intro hm hg
    rcases this with h1 | h1
    · exact hm h1
    · exact h1 hg
  | some x =>
    simp
    have hn : ¬ (m = 0 ∨ Nat.gcd a m ≠ 1) := fun hc => by
      have := h.mpr hc; rw [hr] at this; cases this
    constructor
    · intro h0; exact hn (Or.inl h0)
    · apply Classical.byContradiction; intro h1; exact hn (Or.inr h1)


/-! ### Byte-string conversions -/

theorem bytesToNat_foldl (l : Bytes) (init : Nat) :
    l.foldl (fun acc x => acc * 256 + x.toNat) init
      = init * 256 ^ l.length + l.foldl (fun acc x => acc * 256 + x.toNat) 0 := by
  induction l generalizing init with
  | nil => simp
  | cons x xs ih =>
    simp only [List.foldl_cons, List.length_cons]
    rw [ih (init * 256 + x.toNat), ih (0 * 256 + x.toNat)]
    rw [Nat.pow_succ]
    grind

theorem bytesToNat_nil : bytesToNat [] = 0 := rfl

theorem bytesToNat_cons (x : UInt8) (xs : Bytes) :
    bytesToNat (x :: xs) = x.toNat * 256 ^ xs.length + bytesToNat xs := by
  unfold bytesToNat
  rw [List.foldl_cons, bytesToNat_foldl]
  simp

theorem bytesToNat_append (xs ys : Bytes) :
    bytesToNat (xs ++ ys) = bytesToNat xs * 256 ^ ys.length + bytesToNat ys := by
  unfold bytesToNat
  rw [List.foldl_append, bytesToNat_foldl]

theorem bytesToNat_lt (l : Bytes) : bytesToNat l < 256 ^ l.length := by
  induction l with
  | nil => simp [bytesToNat]
  | cons x xs ih =>
    rw [bytesToNat_cons, List.length_cons, Nat.pow_succ]
    have hx : x.toNat < 256 := x.toNat_lt
    have : x.toNat * 256 ^ xs.length + 256 ^ xs.length ≤ 256 * 256 ^ xs.length := by
      rw [← Nat.succ_mul]; exact Nat.mul_le_mul_right _ hx
    rw [Nat.mul_comm (256 ^ xs.length) 256]
    omega

theorem natToBytesAux_spec :
    ∀ (fuel n : Nat) (acc : Bytes), n < 256 ^ fuel →
      bytesToNat (natToBytesAux fuel n acc) = n * 256 ^ acc.length + bytesToNat acc := by
  intro fuel
  induction fuel with
  | zero =>
    intro n acc h
    have : n = 0 := by simpa using h
    subst this
    simp [natToBytesAux]
  | succ fuel ih =>
    intro n acc h
    unfold natToBytesAux
    by_cases h0 : n = 0
    · subst h0; simp
    · rw [if_neg h0]
      have hdiv : n / 256 < 256 ^ fuel := by
        rw [Nat.pow_succ] at h
        exact Nat.div_lt_of_lt_mul (by rw [Nat.mul_comm]; exact h)
      rw [ih (n / 256) _ hdiv, bytesToNat_cons, List.length_cons, Nat.pow_succ]
      have hb : (UInt8.ofNat (n % 256)).toNat = n % 256 := by
        rw [UInt8.toNat_ofNat']
        exact Nat.mod_mod _ _
      rw [hb]
      have hn : n = 256 * (n / 256) + n % 256 := (Nat.div_add_mod n 256).symm
      generalize n / 256 = q at hn ⊢
      generalize n % 256 = r at hn ⊢
      subst hn
      grind

theorem natToBytes_fuel_ok (n : Nat) : n < 256 ^ (n.log2 / 8 + 1) := by
  have h1 : n < 2 ^ (n.log2 + 1) := Nat.lt_log2_self
  have h2 : (256 : Nat) ^ (n.log2 / 8 + 1) = 2 ^ (8 * (n.log2 / 8 + 1)) := by
    rw [Nat.pow_mul]
  rw [h2]
  exact Nat.lt_of_lt_of_le h1 (Nat.pow_le_pow_right (by decide) (by omega))

/-- `natToBytes` is a right inverse of `bytesToNat`. -/
theorem bytesToNat_natToBytes (n : Nat) : bytesToNat (natToBytes n) = n := by
  unfold natToBytes
  rw [natToBytesAux_spec _ _ _ (natToBytes_fuel_ok n)]
  simp [bytesToNat]

end Otr.CryptoReal
