/-
  Number-theoretic helpers on `Nat`: modular exponentiation, modular inverse
  (semantics of Go's `(*big.Int).ModInverse` for non-negative arguments), and
  big-endian byte-string conversions (Go's `big.Int.SetBytes` / `Bytes`).

  All recursions are structural on an explicit fuel argument derived from
  `Nat.log2`, so the definitions reduce in the kernel (`decide`) and compile to
  GMP-backed loops.
-/
import Otr.Bytes

namespace Otr.CryptoReal

open Otr

/-! ### Modular exponentiation -/

/-- Right-to-left square-and-multiply.  Invariant: the result is
`acc * b ^ e % m` provided `e < 2 ^ fuel` and `acc` is reduced mod `m`. -/
def powModAux (m : Nat) : Nat → Nat → Nat → Nat → Nat
  | 0, _, _, acc => acc
  | fuel + 1, b, e, acc =>
    if e = 0 then acc
    else powModAux m fuel (b * b % m) (e / 2) (if e % 2 = 1 then acc * b % m else acc)

/-- `powMod b e m = b ^ e % m` (see `powMod_eq`).  For `e = 0` this is `1 % m`;
for `m = 0` it is `b ^ e` (as `x % 0 = x`). -/
def powMod (b e m : Nat) : Nat :=
  powModAux m (e.log2 + 1) (b % m) e (1 % m)

theorem powModAux_eq (m : Nat) :
    ∀ (fuel b e acc : Nat), e < 2 ^ fuel → acc % m = acc →
      powModAux m fuel b e acc = acc * b ^ e % m := by
  intro fuel
  induction fuel with
  | zero =>
    intro b e acc he hacc
    have : e = 0 := by simpa using he
    subst this
    simp [powModAux, hacc]
  | succ fuel ih =>
    intro b e acc he hacc
    unfold powModAux
    by_cases h0 : e = 0
    · subst h0; simp [hacc]
    · rw [if_neg h0]
      have he2 : e / 2 < 2 ^ fuel := by
        rw [Nat.pow_succ] at he
        omega
      have hsplit : b ^ e = (b * b) ^ (e / 2) * b ^ (e % 2) := by
        rw [← Nat.pow_two, ← Nat.pow_mul, ← Nat.pow_add]
        congr 1
        omega
      by_cases hodd : e % 2 = 1
      · rw [if_pos hodd]
        rw [ih (b * b % m) (e / 2) (acc * b % m) he2 (Nat.mod_mod _ _)]
        rw [hsplit, hodd, Nat.pow_one]
        -- (acc*b % m) * (b*b % m)^(e/2) % m = acc * ((b*b)^(e/2) * b) % m
        rw [Nat.mul_mod, Nat.mod_mod, ← Nat.pow_mod, ← Nat.mul_mod]
        congr 1
        rw [Nat.mul_assoc, Nat.mul_comm b]
      · rw [if_neg hodd]
        have heven : e % 2 = 0 := by omega
        rw [ih (b * b % m) (e / 2) acc he2 hacc]
        rw [hsplit, heven, Nat.pow_zero, Nat.mul_one]
        rw [Nat.mul_mod, ← Nat.pow_mod, ← Nat.mul_mod]

/-- `powMod` computes modular exponentiation. -/
theorem powMod_eq (b e m : Nat) : powMod b e m = b ^ e % m := by
  unfold powMod
  rw [powModAux_eq m _ _ _ _ Nat.lt_log2_self (Nat.mod_mod _ _)]
  rw [Nat.mul_mod, Nat.mod_mod, ← Nat.pow_mod, ← Nat.mul_mod, Nat.one_mul]

/-! ### Modular inverse -/

/-- Extended Euclid on `(r0, r1)` with Bézout cofactors `(t0, t1)` for the
original `a` (invariant `r_i ≡ t_i * a (mod m)`).  Returns `(gcd, t)`. -/
def egcdAux : Nat → Nat → Nat → Int → Int → Nat × Int
  | 0, r0, _, t0, _ => (r0, t0)
  | fuel + 1, r0, r1, t0, t1 =>
    if r1 = 0 then (r0, t0)
    else egcdAux fuel r1 (r0 % r1) t1 (t0 - (Int.ofNat (r0 / r1)) * t1)

/-- Modular inverse with the semantics of Go's `new(big.Int).ModInverse(a, m)`
for `a ≥ 0`, `m > 0`: `none` iff `gcd a m ≠ 1`, otherwise the unique inverse in
`[0, m)` (which is `0` for `m = 1`).  For `m = 0` the result is `none`.

Fuel: after the initial reduction `a % m < m`, Euclid needs at most
`2 * log2 m + 2` division steps; `2 * log2 m + 4` is used. -/
def modInv (a m : Nat) : Option Nat :=
  if m = 0 then none
  else
    let res := egcdAux (2 * m.log2 + 4) m (a % m) 0 1
    if res.1 = 1 then some (res.2 % (Int.ofNat m)).toNat else none

/-! ### Byte-string conversions -/

/-- Big-endian bytes to natural number (Go's `big.Int.SetBytes`). -/
def bytesToNat (b : Bytes) : Nat := b.foldl (fun acc x => acc * 256 + x.toNat) 0

/-- Peel off base-256 digits, least significant first, consing onto `acc`. -/
def natToBytesAux : Nat → Nat → Bytes → Bytes
  | 0, _, acc => acc
  | fuel + 1, n, acc =>
    if n = 0 then acc else natToBytesAux fuel (n / 256) ((UInt8.ofNat (n % 256)) :: acc)

/-- Minimal big-endian encoding (Go's `big.Int.Bytes`); `0 ↦ []`. -/
def natToBytes (n : Nat) : Bytes := natToBytesAux (n.log2 / 8 + 1) n []

/-- Number of bits of `n` (Go's `big.Int.BitLen`); `0 ↦ 0`. -/
def bitLen (n : Nat) : Nat := if n = 0 then 0 else n.log2 + 1

end Otr.CryptoReal
