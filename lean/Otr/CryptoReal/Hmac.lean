/-
  HMAC (RFC 2104) over SHA-1 and SHA-256, block size 64, matching Go's
  `crypto/hmac`: keys longer than the block size are hashed first, then the key
  is zero-padded to the block size.
-/
import Otr.Bytes
import Otr.CryptoReal.Sha

namespace Otr.CryptoReal

open Otr

/-- Block size (in bytes) of SHA-1 and SHA-256. -/
def hmacBlockSize : Nat := 64

/-- Generic HMAC over a hash function with a 64-byte block. -/
def hmacWith (hash : Bytes → Bytes) (key data : Bytes) : Bytes :=
  let k0 := if key.length > hmacBlockSize then hash key else key
  let k := k0 ++ List.replicate (hmacBlockSize - k0.length) 0
  let ipad := k.map (· ^^^ 0x36)
  let opad := k.map (· ^^^ 0x5c)
  hash (opad ++ hash (ipad ++ data))

/-- HMAC-SHA1 (20-byte tag). -/
def hmacSha1 (key data : Bytes) : Bytes := hmacWith sha1 key data

/-- HMAC-SHA256 (32-byte tag). -/
def hmacSha256 (key data : Bytes) : Bytes := hmacWith sha256 key data

end Otr.CryptoReal
