/-
  AES-128 block encryption (FIPS-197) and AES-CTR in the style of Go's
  `cipher.NewCTR` (the 16-byte IV is the initial counter block and is incremented
  as a 128-bit big-endian integer for every block).  Core Lean only.

  The block cipher works on `ByteArray`s internally; the CTR layer
  (`ctrBlocks`, `ctrKeystream`, `xorBytes`, `aesCtr`) is written in a
  structural, proof-friendly style and its basic properties are proved at the
  end of the file.
-/
import Otr.Bytes

namespace Otr.CryptoReal

open Otr

/-! ### AES-128 block cipher -/

def aesSbox : ByteArray := ⟨#[
  0x63, 0x7c, 0x77, 0x7b, 0xf2, 0x6b, 0x6f, 0xc5, 0x30, 0x01, 0x67, 0x2b, 0xfe, 0xd7, 0xab, 0x76,
  0xca, 0x82, 0xc9, 0x7d, 0xfa, 0x59, 0x47, 0xf0, 0xad, 0xd4, 0xa2, 0xaf, 0x9c, 0xa4, 0x72, 0xc0,
  0xb7, 0xfd, 0x93, 0x26, 0x36, 0x3f, 0xf7, 0xcc, 0x34, 0xa5, 0xe5, 0xf1, 0x71, 0xd8, 0x31, 0x15,
  0x04, 0xc7, 0x23, 0xc3, 0x18, 0x96, 0x05, 0x9a, 0x07, 0x12, 0x80, 0xe2, 0xeb, 0x27, 0xb2, 0x75,
  0x09, 0x83, 0x2c, 0x1a, 0x1b, 0x6e, 0x5a, 0xa0, 0x52, 0x3b, 0xd6, 0xb3, 0x29, 0xe3, 0x2f, 0x84,
  0x53, 0xd1, 0x00, 0xed, 0x20, 0xfc, 0xb1, 0x5b, 0x6a, 0xcb, 0xbe, 0x39, 0x4a, 0x4c, 0x58, 0xcf,
  0xd0, 0xef, 0xaa, 0xfb, 0x43, 0x4d, 0x33, 0x85, 0x45, 0xf9, 0x02, 0x7f, 0x50, 0x3c, 0x9f, 0xa8,
  0x51, 0xa3, 0x40, 0x8f, 0x92, 0x9d, 0x38, 0xf5, 0xbc, 0xb6, 0xda, 0x21, 0x10, 0xff, 0xf3, 0xd2,
  0xcd, 0x0c, 0x13, 0xec, 0x5f, 0x97, 0x44, 0x17, 0xc4, 0xa7, 0x7e, 0x3d, 0x64, 0x5d, 0x19, 0x73,
  0x60, 0x81, 0x4f, 0xdc, 0x22, 0x2a, 0x90, 0x88, 0x46, 0xee, 0xb8, 0x14, 0xde, 0x5e, 0x0b, 0xdb,
  0xe0, 0x32, 0x3a, 0x0a, 0x49, 0x06, 0x24, 0x5c, 0xc2, 0xd3, 0xac, 0x62, 0x91, 0x95, 0xe4, 0x79,
  0xe7, 0xc8, 0x37, 0x6d, 0x8d, 0xd5, 0x4e, 0xa9, 0x6c, 0x56, 0xf4, 0xea, 0x65, 0x7a, 0xae, 0x08,
  0xba, 0x78, 0x25, 0x2e, 0x1c, 0xa6, 0xb4, 0xc6, 0xe8, 0xdd, 0x74, 0x1f, 0x4b, 0xbd, 0x8b, 0x8a,
  0x70, 0x3e, 0xb5, 0x66, 0x48, 0x03, 0xf6, 0x0e, 0x61, 0x35, 0x57, 0xb9, 0x86, 0xc1, 0x1d, 0x9e,
  0xe1, 0xf8, 0x98, 0x11, 0x69, 0xd9, 0x8e, 0x94, 0x9b, 0x1e, 0x87, 0xe9, 0xce, 0x55, 0x28, 0xdf,
  0x8c, 0xa1, 0x89, 0x0d, 0xbf, 0xe6, 0x42, 0x68, 0x41, 0x99, 0x2d, 0x0f, 0xb0, 0x54, 0xbb, 0x16]⟩

def aesRcon : ByteArray := ⟨#[0x01, 0x02, 0x04, 0x08, 0x10, 0x20, 0x40, 0x80, 0x1b, 0x36]⟩

@[inline] def aesSub (x : UInt8) : UInt8 := aesSbox.get! x.toNat

/-- Multiplication by `x` in GF(2^8) modulo `x^8+x^4+x^3+x+1`. -/
@[inline] def xtime (x : UInt8) : UInt8 :=
  (x <<< 1) ^^^ (if x &&& 0x80 != 0 then 0x1b else 0)

/-- Pad with zeros / truncate to exactly 16 bytes. Identity on 16-byte inputs. -/
def norm16 (l : Bytes) : Bytes := (l ++ List.replicate 16 0).take 16

theorem norm16_length (l : Bytes) : (norm16 l).length = 16 := by
  simp [norm16, List.length_take, List.length_append]

theorem norm16_of_length {l : Bytes} (h : l.length = 16) : norm16 l = l := by
  unfold norm16
  rw [List.take_append_of_le_length (by omega), List.take_of_length_le (by omega)]

/-- AES-128 key schedule: 11 round keys = 176 bytes. The key is normalised to 16 bytes. -/
def aesExpandKey (key : Bytes) : ByteArray := Id.run do
  let mut rk : ByteArray := ByteArray.mk (norm16 key).toArray
  for i in [4:44] do
    let p := 4 * (i - 1)
    let t0 := rk.get! p
    let t1 := rk.get! (p + 1)
    let t2 := rk.get! (p + 2)
    let t3 := rk.get! (p + 3)
    let q := 4 * (i - 4)
    if i % 4 == 0 then
      rk := rk.push (rk.get! q ^^^ aesSub t1 ^^^ aesRcon.get! (i / 4 - 1))
      rk := rk.push (rk.get! (q + 1) ^^^ aesSub t2)
      rk := rk.push (rk.get! (q + 2) ^^^ aesSub t3)
      rk := rk.push (rk.get! (q + 3) ^^^ aesSub t0)
    else
      rk := rk.push (rk.get! q ^^^ t0)
      rk := rk.push (rk.get! (q + 1) ^^^ t1)
      rk := rk.push (rk.get! (q + 2) ^^^ t2)
      rk := rk.push (rk.get! (q + 3) ^^^ t3)
  return rk

/-- SubBytes followed by ShiftRows (state is column-major: byte `r + 4c` is row `r`, column `c`). -/
@[inline] def aesSubShift (s : ByteArray) : ByteArray := Id.run do
  let mut t : ByteArray := ByteArray.emptyWithCapacity 16
  for i in [0:16] do
    let r := i % 4
    let c := i / 4
    t := t.push (aesSub (s.get! (r + 4 * ((c + r) % 4))))
  return t

/-- MixColumns. -/
@[inline] def aesMixColumns (s : ByteArray) : ByteArray := Id.run do
  let mut t : ByteArray := ByteArray.emptyWithCapacity 16
  for c in [0:4] do
    let a0 := s.get! (4 * c)
    let a1 := s.get! (4 * c + 1)
    let a2 := s.get! (4 * c + 2)
    let a3 := s.get! (4 * c + 3)
    let all := a0 ^^^ a1 ^^^ a2 ^^^ a3
    t := t.push (a0 ^^^ all ^^^ xtime (a0 ^^^ a1))
    t := t.push (a1 ^^^ all ^^^ xtime (a1 ^^^ a2))
    t := t.push (a2 ^^^ all ^^^ xtime (a2 ^^^ a3))
    t := t.push (a3 ^^^ all ^^^ xtime (a3 ^^^ a0))
  return t

/-- AddRoundKey with round key number `round`. -/
@[inline] def aesAddRoundKey (s rk : ByteArray) (round : Nat) : ByteArray := Id.run do
  let mut t : ByteArray := ByteArray.emptyWithCapacity 16
  for i in [0:16] do
    t := t.push (s.get! i ^^^ rk.get! (16 * round + i))
  return t

/-- Encrypt one block under expanded round keys `rk` (raw, on `ByteArray`s). -/
def aesEncryptRaw (rk : ByteArray) (block : ByteArray) : ByteArray := Id.run do
  let mut s := aesAddRoundKey block rk 0
  for round in [1:10] do
    s := aesAddRoundKey (aesMixColumns (aesSubShift s)) rk round
  return aesAddRoundKey (aesSubShift s) rk 10

/-- Encrypt one block under expanded round keys; input and output are normalised
to exactly 16 bytes, so the result has length 16 by construction. -/
def aesEncryptBlockRK (rk : ByteArray) (block : Bytes) : Bytes :=
  norm16 (aesEncryptRaw rk (ByteArray.mk (norm16 block).toArray)).toList

/-- AES-128 encryption of a single 16-byte block under a 16-byte key.
(Inputs of other lengths are zero-padded / truncated to 16 bytes.) -/
def aes128EncryptBlock (key block : Bytes) : Bytes :=
  aesEncryptBlockRK (aesExpandKey key) block

theorem aesEncryptBlockRK_length (rk : ByteArray) (block : Bytes) :
    (aesEncryptBlockRK rk block).length = 16 := norm16_length _

theorem aes128EncryptBlock_length (key block : Bytes) :
    (aes128EncryptBlock key block).length = 16 := norm16_length _

/-! ### CTR mode -/

/-- Increment a little-endian byte string by one (wrapping, length preserving). -/
def incrLE : Bytes → Bytes
  | [] => []
  | b :: bs => if b = 255 then 0 :: incrLE bs else (b + 1) :: bs

/-- Increment a big-endian counter block by one (wrapping, length preserving). -/
def incrCounter (ctr : Bytes) : Bytes := (incrLE ctr.reverse).reverse

/-- `k` consecutive keystream blocks starting from counter block `ctr`. -/
def ctrBlocks (rk : ByteArray) : Nat → Bytes → Bytes
  | 0, _ => []
  | k + 1, ctr => aesEncryptBlockRK rk ctr ++ ctrBlocks rk k (incrCounter ctr)

/-- The first `n` bytes of the AES-128-CTR keystream with initial counter block `iv`. -/
def ctrKeystream (key iv : Bytes) (n : Nat) : Bytes :=
  (ctrBlocks (aesExpandKey key) ((n + 15) / 16) iv).take n

/-- Bytewise xor, truncating to the shorter argument. -/
def xorBytes (a b : Bytes) : Bytes := List.zipWith (· ^^^ ·) a b

/-- AES-128-CTR encryption = decryption. `none` unless key and IV are 16 bytes. -/
def aesCtr (key iv data : Bytes) : Option Bytes :=
  if key.length = 16 ∧ iv.length = 16 then
    some (xorBytes data (ctrKeystream key iv data.length))
  else none

/-! ### Lemmas -/

theorem incrLE_length (c : Bytes) : (incrLE c).length = c.length := by
  induction c with
  | nil => rfl
  | cons b bs ih =>
    unfold incrLE
    split <;> simp [ih]

theorem incrCounter_length (c : Bytes) : (incrCounter c).length = c.length := by
  simp [incrCounter, incrLE_length]

theorem ctrBlocks_length (rk : ByteArray) (k : Nat) (ctr : Bytes) :
    (ctrBlocks rk k ctr).length = 16 * k := by
  induction k generalizing ctr with
  | zero => rfl
  | succ k ih =>
    simp only [ctrBlocks, List.length_append, aesEncryptBlockRK_length, ih]
    omega

theorem ctrKeystream_length (k iv : Bytes) (n : Nat) : (ctrKeystream k iv n).length = n := by
  unfold ctrKeystream
  rw [List.length_take, ctrBlocks_length]
  omega

theorem xorBytes_length (a b : Bytes) : (xorBytes a b).length = min a.length b.length := by
  simp [xorBytes]

theorem xorBytes_involutive (a b : Bytes) (h : a.length = b.length) :
    xorBytes (xorBytes a b) b = a := by
  induction a generalizing b with
  | nil => cases b <;> rfl
  | cons x xs ih =>
    cases b with
    | nil => simp at h
    | cons y ys =>
      have h' : xs.length = ys.length := by simpa using h
      have ih' := ih ys h'
      simp only [xorBytes] at ih' ⊢
      simp only [List.zipWith_cons_cons, ih']
      rw [UInt8.xor_assoc, UInt8.xor_self, UInt8.xor_zero]

theorem aesCtr_length {k iv d d' : Bytes} (h : aesCtr k iv d = some d') :
    d'.length = d.length := by
  unfold aesCtr at h
  split at h
  · cases h
    rw [xorBytes_length, ctrKeystream_length]
    omega
  · cases h

theorem aesCtr_involutive (k iv d d' : Bytes) (h : aesCtr k iv d = some d') :
    aesCtr k iv d' = some d := by
  have hlen := aesCtr_length h
  unfold aesCtr at h ⊢
  split at h
  · rename_i hk
    cases h
    rw [if_pos hk]
    rw [xorBytes_length, ctrKeystream_length] at hlen
    rw [xorBytes_length, ctrKeystream_length, Nat.min_self]
    rw [xorBytes_involutive]
    rw [ctrKeystream_length]
  · cases h

/-- `aesCtr` succeeds exactly when key and IV are 16 bytes long. -/
theorem aesCtr_isSome (k iv d : Bytes) :
    (aesCtr k iv d).isSome = true ↔ k.length = 16 ∧ iv.length = 16 := by
  unfold aesCtr
  split <;> simp_all

end Otr.CryptoReal
