/-
  Otr.Sexp — the s-expression reader of /repo/sexp (libotr key files).
  Go anchors: sexp/sexp.go (peek, Read, ReadWhitespace, ReadValue, expect, ReadDataUntil),
  sexp/cons.go (ReadList, ReadListItem), sexp/str.go, sexp/symbol.go, sexp/bignum.go
  (ReadBigNum, NewBigNum = big.Int.SetString(s, 16)).

  The reader works on a `bufio.Reader`.  What the code can observe of it through
  `ReadByte`/`UnreadByte` is: the bytes still to come, and `lastByte` (the byte the most recent
  successful `ReadByte` returned, forgotten by `UnreadByte`; a *failed* `ReadByte` at EOF leaves
  it alone, so an `UnreadByte` after a failed `ReadByte` would put the last byte that was read
  back into the stream).  The original `expect` did exactly that and made `ImportKeys("((")` loop
  for ever and `sexp.Read("((")` overflow the stack; the repaired code (commits 722c622,
  cb15827 of /repo) only un-reads a byte it has just read, collects list items in a loop and
  refuses lists nested deeper than `maxDepth`.  This file mirrors the repaired code.

  Termination.  Nesting is structural recursion on `maxDepth - depth`.  The item loop of
  `readListItem` (and the loops of keys.go) run on fuel = number of bytes left + 1: every round
  that does not end the loop consumes a byte, so the fuel cannot run out
  (`Run.outOfFuel` is unreachable: Proofs/KeyFile.lean).

  Core Lean only.
-/
import Otr.Bytes
namespace Otr

/-- result of a fuelled loop -/
inductive Run (α : Type) where
  | done (a : α)
  /-- the loop used up its fuel (the Go loop would still be running) -/
  | outOfFuel
  deriving Repr, DecidableEq

namespace Run
def bind {α β} : Run α → (α → Run β) → Run β
  | done a, f => f a
  | outOfFuel, _ => outOfFuel
instance : Monad Run where
  pure := done
  bind := Run.bind
@[simp] theorem bind_done {α β} (a : α) (f : α → Run β) : (Run.done a >>= f) = f a := rfl
@[simp] theorem bind_outOfFuel {α β} (f : α → Run β) : (Run.outOfFuel >>= f) = Run.outOfFuel := rfl
@[simp] theorem pure_eq {α} (a : α) : (pure a : Run α) = Run.done a := rfl
end Run

/-- sexp.Value.  `goNil` is the nil interface value that `ReadList`/`ReadString`/`ReadBigNum`
    return on a syntax error (and that `ReadListItem` happily puts into a `Cons`). -/
inductive Sexp where
  | goNil
  | snil
  | cons (first second : Sexp)
  | str (s : Bytes)
  | sym (s : Bytes)
  /-- BigNum{val}; `none` = nil *big.Int (SetString failed) -/
  | big (v : Option Int)
  deriving Repr, DecidableEq, Inhabited

/-- the observable state of a bufio.Reader over a finite byte string -/
structure Rd where
  inp : Bytes
  /-- bufio.Reader.lastByte; `none` = -1 -/
  last : Option UInt8 := none
  deriving Repr, DecidableEq

namespace Rd

/-- ReadByte: `none` = (0, io.EOF); a failed read keeps `lastByte` -/
def readByte (r : Rd) : Option UInt8 × Rd :=
  match r.inp with
  | c :: rest => (some c, ⟨rest, some c⟩)
  | [] => (none, r)

/-- UnreadByte (its error is ignored by every caller) -/
def unreadByte (r : Rd) : Rd :=
  match r.last with
  | some c => ⟨c :: r.inp, none⟩
  | none => r

/-- peek: ReadByte, and UnreadByte unless EOF -/
def peek (r : Rd) : Option UInt8 × Rd :=
  match r.readByte with
  | (some c, r') => (some c, r'.unreadByte)
  | (none, r') => (none, r')

end Rd

def isWhitespace (c : UInt8) : Bool := c == 0x20 || c == 0x09 || c == 0x0a || c == 0x0d

def isNotSymbolCharacter (c : UInt8) : Bool := isWhitespace c || c == 0x28 || c == 0x29

def chLParen : UInt8 := 0x28
def chRParen : UInt8 := 0x29
def chQuote : UInt8 := 0x22
def chHash : UInt8 := 0x23

/-- the loop of ReadWhitespace, on (bytes to come, lastByte): `peek`; while not EOF and
    whitespace: `ReadByte`; `peek` -/
def readWhitespaceAux : Bytes → Option UInt8 → Rd
  | [], last => ⟨[], last⟩
  | c :: rest, _last =>
    if isWhitespace c then readWhitespaceAux rest (some c) else ⟨c :: rest, none⟩

/-- ReadWhitespace -/
def readWhitespace (r : Rd) : Rd := readWhitespaceAux r.inp r.last

/-- the loop of ReadDataUntil -/
def readDataUntilAux (stop : UInt8 → Bool) : Bytes → Option UInt8 → Bytes × Rd
  | [], last => ([], ⟨[], last⟩)
  | c :: rest, _last =>
    if stop c then ([], ⟨c :: rest, none⟩)
    else
      let (d, r) := readDataUntilAux stop rest (some c)
      (c :: d, r)

/-- ReadDataUntil -/
def readDataUntil (r : Rd) (stop : UInt8 → Bool) : Bytes × Rd := readDataUntilAux stop r.inp r.last

/-- expect: ReadWhitespace; `res, err := ReadByte`; on error false (nothing is put back);
    `if res != c { UnreadByte; return false }`; true -/
def expect (r : Rd) (c : UInt8) : Bool × Rd :=
  let r := readWhitespace r
  match r.readByte with
  | (some b, r') => if b = c then (true, r') else (false, r'.unreadByte)
  | (none, r') => (false, r')

/-! ### big.Int.SetString(s, 16) -/

def sxHexVal (c : UInt8) : Option Nat :=
  if 0x30 ≤ c ∧ c ≤ 0x39 then some (c.toNat - 0x30)
  else if 0x61 ≤ c ∧ c ≤ 0x66 then some (c.toNat - 0x61 + 10)
  else if 0x41 ≤ c ∧ c ≤ 0x46 then some (c.toNat - 0x41 + 10)
  else none

/-- all of `s` as hex digits, most significant first, onto `acc`; `none` if any byte is not a hex digit -/
def parseHexDigits : Bytes → Nat → Option Nat
  | [], acc => some acc
  | c :: rest, acc =>
    match sxHexVal c with
    | some d => parseHexDigits rest (acc * 16 + d)
    | none => none

/-- a non-empty string of hex digits -/
def parseHexNat (s : Bytes) : Option Nat :=
  match s with
  | [] => none
  | _ => parseHexDigits s 0

/-- `new(big.Int).SetString(s, 16)`: optional sign, at least one hex digit, nothing else
    (no "0x", no underscores: those need base 0) -/
def parseBigHex (s : Bytes) : Option Int :=
  match s with
  | [] => none
  | 0x2d :: rest => (parseHexNat rest).map fun n => -(Int.ofNat n)
  | 0x2b :: rest => (parseHexNat rest).map Int.ofNat
  | _ => (parseHexNat s).map Int.ofNat

/-! ### the readers -/

/-- ReadSymbol -/
def readSymbol (r : Rd) : Sexp × Rd :=
  let r := readWhitespace r
  let (d, r) := readDataUntil r isNotSymbolCharacter
  (.sym d, r)

/-- ReadString -/
def readString (r : Rd) : Sexp × Rd :=
  let r := readWhitespace r
  match expect r chQuote with
  | (false, r) => (.goNil, r)
  | (true, r) =>
    let (d, r) := readDataUntil r (· == chQuote)
    match expect r chQuote with
    | (false, r) => (.goNil, r)
    | (true, r) => (.str d, r)

/-- ReadBigNum -/
def readBigNum (r : Rd) : Sexp × Rd :=
  let r := readWhitespace r
  match expect r chHash with
  | (false, r) => (.goNil, r)
  | (true, r) =>
    let (d, r) := readDataUntil r (· == chHash)
    match expect r chHash with
    | (false, r) => (.goNil, r)
    | (true, r) => (.big (parseBigHex d), r)

/-- sexp.maxDepth -/
def maxDepth : Nat := 256

/-- readList(r, depth), given readListItem(·, depth+1); `none` = `depth >= maxDepth` -/
def readListWith (item : Option (Rd → Run (Sexp × Rd))) (r : Rd) : Run (Sexp × Rd) :=
  let r := readWhitespace r
  match expect r chLParen with
  | (false, r) => .done (.goNil, r)
  | (true, r) =>
    match item with
    | none => .done (.goNil, r)
    | some item =>
      match item r with
      | .outOfFuel => .outOfFuel
      | .done (v, r) =>
        match expect r chRParen with
        | (false, r) => .done (.goNil, r)
        | (true, r) => .done (v, r)

/-- readValue(r, depth), given readList(·, depth): (value, end) -/
def readValueWith (list : Rd → Run (Sexp × Rd)) (r : Rd) : Run ((Sexp × Bool) × Rd) :=
  let r := readWhitespace r
  match r.peek with
  | (none, r) => .done ((.goNil, true), r)
  | (some c, r) =>
    if c = chLParen then
      match list r with
      | .outOfFuel => .outOfFuel
      | .done (v, r) => .done ((v, false), r)
    else if c = chRParen then .done ((.goNil, true), r)
    else if c = chQuote then let (v, r) := readString r; .done ((v, false), r)
    else if c = chHash then let (v, r) := readBigNum r; .done ((v, false), r)
    else let (v, r) := readSymbol r; .done ((v, false), r)

/-- the `for` loop of readListItem: the items up to the end of the list -/
def itemLoop (value : Rd → Run ((Sexp × Bool) × Rd)) : Nat → Rd → Run (List Sexp × Rd)
  | 0, _ => .outOfFuel
  | fuel + 1, r =>
    let r := readWhitespace r
    match value r with
    | .outOfFuel => .outOfFuel
    | .done ((_, true), r) => .done ([], r)
    | .done ((v, false), r) =>
      match itemLoop value fuel r with
      | .outOfFuel => .outOfFuel
      | .done (vs, r) => .done (v :: vs, r)

/-- the chain of cons cells readListItem builds from the items -/
def consChain (vs : List Sexp) : Sexp := vs.foldr .cons .snil

/-- readListItem(r, depth) with `budget = maxDepth - depth` -/
def readListItemAt : Nat → Rd → Run (Sexp × Rd)
  | 0, r =>
    match itemLoop (readValueWith (readListWith none)) (r.inp.length + 1) r with
    | .outOfFuel => .outOfFuel
    | .done (vs, r) => .done (consChain vs, r)
  | budget + 1, r =>
    match itemLoop (readValueWith (readListWith (some (readListItemAt budget)))) (r.inp.length + 1) r with
    | .outOfFuel => .outOfFuel
    | .done (vs, r) => .done (consChain vs, r)

/-- readList(r, depth) for `depth < maxDepth`, with `budget = maxDepth - 1 - depth` -/
def readListAt (budget : Nat) (r : Rd) : Run (Sexp × Rd) :=
  readListWith (some (readListItemAt budget)) r

/-- ReadListItem = readListItem(r, 1) -/
def readListItem (r : Rd) : Run (Sexp × Rd) := readListItemAt (maxDepth - 1) r

/-- ReadList = readList(r, 0) -/
def readList (r : Rd) : Run (Sexp × Rd) := readListAt (maxDepth - 1) r

/-- ReadValue = readValue(r, 0) -/
def readValue (r : Rd) : Run ((Sexp × Bool) × Rd) := readValueWith readList r

/-- `sexp.Read(bufio.NewReader(bytes.NewReader(b)))`, with the reader left behind -/
def read (b : Bytes) : Run (Sexp × Rd) :=
  match readValue ⟨b, none⟩ with
  | .done ((v, _), r) => .done (v, r)
  | .outOfFuel => .outOfFuel

/-! ### printing: the Go `String()` methods -/

def hexDigitUpper (n : Nat) : UInt8 :=
  if n < 10 then UInt8.ofNat (0x30 + n) else UInt8.ofNat (0x41 + (n - 10))

/-- hex digits of `n`, least significant first, nothing for 0 -/
def hexUpperLE (n : Nat) : Bytes :=
  if h : n = 0 then [] else hexDigitUpper (n % 16) :: hexUpperLE (n / 16)
decreasing_by omega

/-- `fmt.Sprintf("%X", n)` for a non-negative big.Int: no leading zeros, "0" for zero -/
def hexUpper (n : Nat) : Bytes :=
  if n = 0 then [0x30] else (hexUpperLE n).reverse

/-- `fmt.Sprintf("%X", v)` for a *big.Int -/
def fmtX : Option Int → Bytes
  | none => strBytes "<nil>"
  | some (.ofNat n) => hexUpper n
  | some (.negSucc n) => 0x2d :: hexUpper (n + 1)

end Otr
