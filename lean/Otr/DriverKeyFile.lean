/-
  Otr.DriverKeyFile — line protocol for the `keyfile` correspondence profile
  (/verif/harness/keyfile.go): the s-expression reader, ImportKeys / ExportKeysToFile,
  DSAPrivateKey.Import, ParsePrivateKey / Serialize / Fingerprint.
  One op per line in, one canonical result line out.

  Formats (identical in keyfile.go):
    bytes        lower-case hex, "-" for the empty string
    numbers      Go's `%X` of a *big.Int: upper-case hex, "0", "-5", "<nil>"
    s-expression <nil> | () | (A . B) | s:<hex> | y:<hex> | #<number>#
    OUT-OF-FUEL  a model loop ran out of fuel (never happens: Proofs/KeyFile.lean); the harness
                 prints HANG / STACKOVERFLOW when the implementation does not come back
    ser=         Serialize() of an imported key; "n/a" when x is nil (Serialize would dereference it)
-/
import Otr.DriverPure
import Otr.KeyFile
namespace Otr.Driver
open Otr

def bytesStr (b : Bytes) : String := String.ofList (b.map fun c => Char.ofNat c.toNat)

def numStr (v : Option Int) : String := bytesStr (fmtX v)

def natStr (n : Nat) : String := numStr (some (Int.ofNat n))

def sexpStr : Sexp → String
  | .goNil => "<nil>"
  | .snil => "()"
  | .cons a b => "(" ++ sexpStr a ++ " . " ++ sexpStr b ++ ")"
  | .str s => "s:" ++ hx s
  | .sym s => "y:" ++ hx s
  | .big v => "#" ++ numStr v ++ "#"

/-- what the next reads would see after an `UnreadByte` (shows both the position and lastByte) -/
def restStr (r : Rd) : String := hx r.unreadByte.inp

def runStr {α} (f : α → String) : Run α → String
  | .done a => f a
  | .outOfFuel => "OUT-OF-FUEL"

def keyFieldsStr (k : DsaPriv) : String :=
  s!"p={numStr k.p} q={numStr k.q} g={numStr k.g} y={numStr k.y} x={numStr k.x}"

def accountStr (a : Account) : String :=
  let ser := match a.key.serialize with
    | .ok b => hx b
    | .panic _ => "n/a"
  let fp := match a.key.fingerprint Crypto.real with
    | some b => hx b
    | none => "nil"
  s!"name={hx a.name} proto={hx a.protocol} {keyFieldsStr a.key} ser={ser} fp={fp}"

def accountsStr (as : List Account) : String :=
  "[" ++ ";".intercalate (as.map accountStr) ++ "]"

def numArg (s : String) : Option Int := parseBigHex (strBytes s)

/-- accounts from the flat token list `name proto p q g y x …` -/
def accountsArg : List String → Option (List Account)
  | [] => some []
  | n :: pr :: p :: q :: g :: y :: x :: rest => do
    let n ← unhx n
    let pr ← unhx pr
    let as ← accountsArg rest
    pure (⟨n, pr, ⟨numArg p, numArg q, numArg g, numArg y, numArg x⟩⟩ :: as)
  | _ => none

def natArgs5 (k : DsaNat) : String :=
  s!"{natStr k.p} {natStr k.q} {natStr k.g} {natStr k.y} {natStr k.x}"

def keyFileOp (line : String) : Option String :=
  match splitArgs line with
  | ["sexpread", h] => (unhx h).map fun b =>
      runStr (fun (((v, e), r) : (Sexp × Bool) × Rd) => s!"{sexpStr v} end={boolStr e} rest={restStr r}")
        (readValue ⟨b, none⟩)
  | ["sexplist", h] => (unhx h).map fun b =>
      runStr (fun ((v, r) : Sexp × Rd) => s!"{sexpStr v} rest={restStr r}") (readList ⟨b, none⟩)
  | ["sexpitem", h] => (unhx h).map fun b =>
      runStr (fun ((v, r) : Sexp × Rd) => s!"{sexpStr v} rest={restStr r}")
        (readListItem ⟨b, none⟩)
  | ["sexpstr", h] => (unhx h).map fun b =>
      let (v, r) := readString ⟨b, none⟩; s!"{sexpStr v} rest={restStr r}"
  | ["sexpsym", h] => (unhx h).map fun b =>
      let (v, r) := readSymbol ⟨b, none⟩; s!"{sexpStr v} rest={restStr r}"
  | ["sexpbig", h] => (unhx h).map fun b =>
      let (v, r) := readBigNum ⟨b, none⟩; s!"{sexpStr v} rest={restStr r}"
  | ["bighex", h] => (unhx h).map fun b => numStr (parseBigHex b)
  | ["importkeys", h] => (unhx h).map fun b =>
      runStr (fun (o : Option (List Account)) => optStr (o.map accountsStr)) (importKeys b)
  | ["reimport", h] => (unhx h).map fun b =>
      match importKeys b with
      | .outOfFuel => "OUT-OF-FUEL"
      | .done none => "none"
      | .done (some as) =>
        if as.any (fun a => a.key.p.isNone || a.key.q.isNone || a.key.g.isNone || a.key.y.isNone || a.key.x.isNone)
        then "incomplete" else
        match importKeys (exportKeys as) with
        | .outOfFuel => "OUT-OF-FUEL"
        | .done none => "rejected"
        | .done (some bs) => if bs == as then "same" else "differs"
  | ["importkeyserr", h, n] => (unhx h).bind fun b => n.toNat?.map fun k =>
      -- a reader that fails for good after k bytes: the import ends as at the end of input there
      runStr (fun (o : Option (List Account)) => optStr (o.map accountsStr)) (importKeys (b.take k))
  | "exportkeys" :: rest => (accountsArg rest).map fun as => hx (exportKeys as)
  | "roundtrip" :: rest => (accountsArg rest).map fun as =>
      runStr (fun (o : Option (List Account)) => boolStr (o == some as)) (importKeys (exportKeys as))
  | ["keyimport", h] => (unhx h).map fun b =>
      match keyImport b with
      | none => "false"
      | some (k, some ok) => s!"{boolStr ok} {natArgs5 k}"
      | some (k, none) => s!"unspecified {natArgs5 k}"
  | ["parsepriv", h] => (unhx h).map fun b =>
      match parsePrivateKey b with
      | (ix, none) => s!"false {hx ix}"
      | (ix, some (pk, x)) =>
        let k : DsaPriv := ⟨some pk.p, some pk.q, some pk.g, some pk.y, some x⟩
        let ser := match k.serialize with
          | .ok b => hx b
          | .panic _ => "PANIC"
        s!"true {hx ix} {keyFieldsStr k} ser={ser} fp={hx (pk.fingerprint Crypto.real)}"
  | ["fingerprint", p, q, g, y] =>
      let k : DsaPriv := ⟨numArg p, numArg q, numArg g, numArg y, none⟩
      some (match k.fingerprint Crypto.real with
        | some b => hx b
        | none => "nil")
  | _ => none

end Otr.Driver
