/-
  Otr.Bytes — byte strings, big-endian integers, hex, and the `Res` outcome type.

  Go anchors: gotrax_serialize.go (Serialize*/Deserialize*), data.go, bytes.go,
  math/big SetBytes/Bytes as used by AppendMPI / ExtractMPI.

  Core Lean only (this file is linked into the `otrm` driver).
-/
namespace Otr

/-- `[]byte`, `ValidMessage`, `MessagePlaintext`, `messageWithHeader`, `encodedMessage` -/
abbrev Bytes := List UInt8

/-- Outcome of a modelled Go call: a value, or a Go runtime panic at a named site.
    A totalised default is never used where Go would crash. -/
inductive Res (α : Type) where
  | ok (a : α)
  | panic (site : String)
  deriving Repr, DecidableEq

namespace Res
def bind {α β} : Res α → (α → Res β) → Res β
  | ok a, f => f a
  | panic s, _ => panic s
instance : Monad Res where
  pure := ok
  bind := Res.bind
def isPanic {α} : Res α → Bool
  | ok _ => false
  | panic _ => true
@[simp] theorem bind_ok {α β} (a : α) (f : α → Res β) : (Res.ok a >>= f) = f a := rfl
@[simp] theorem bind_panic {α β} (s : String) (f : α → Res β) : (Res.panic s >>= f) = Res.panic s := rfl
@[simp] theorem pure_eq {α} (a : α) : (pure a : Res α) = Res.ok a := rfl
end Res

/-! ### fixed-width big-endian integers (values are `Nat`; width bounds are hypotheses of theorems) -/

def b8 (v : Nat) : UInt8 := UInt8.ofNat v

/-- SerializeShort -/
def be16 (v : Nat) : Bytes := [b8 (v / 256), b8 v]
/-- SerializeWord -/
def be32 (v : Nat) : Bytes := [b8 (v / 16777216), b8 (v / 65536), b8 (v / 256), b8 v]
/-- SerializeLong -/
def be64 (v : Nat) : Bytes :=
  [b8 (v / 72057594037927936), b8 (v / 281474976710656), b8 (v / 1099511627776), b8 (v / 4294967296),
   b8 (v / 16777216), b8 (v / 65536), b8 (v / 256), b8 v]

def de16 (a b : UInt8) : Nat := a.toNat * 256 + b.toNat
def de32 (a b c d : UInt8) : Nat := a.toNat * 16777216 + b.toNat * 65536 + c.toNat * 256 + d.toNat
def de64 (a b c d e f g h : UInt8) : Nat :=
  a.toNat * 72057594037927936 + b.toNat * 281474976710656 + c.toNat * 1099511627776 + d.toNat * 4294967296 +
  e.toNat * 16777216 + f.toNat * 65536 + g.toNat * 256 + h.toNat

@[simp] theorem b8_toNat (v : Nat) : (b8 v).toNat = v % 256 := by
  simp [b8, UInt8.toNat_ofNat']

theorem de16_be16 (v : Nat) (h : v < 65536) :
    de16 (b8 (v / 256)) (b8 v) = v := by
  simp [de16]; omega

theorem de32_be32 (v : Nat) (h : v < 4294967296) :
    de32 (b8 (v / 16777216)) (b8 (v / 65536)) (b8 (v / 256)) (b8 v) = v := by
  simp [de32]; omega

theorem de64_be64 (v : Nat) (h : v < 18446744073709551616) :
    de64 (b8 (v / 72057594037927936)) (b8 (v / 281474976710656)) (b8 (v / 1099511627776)) (b8 (v / 4294967296))
         (b8 (v / 16777216)) (b8 (v / 65536)) (b8 (v / 256)) (b8 v) = v := by
  simp [de64]; omega

theorem de16_lt (a b : UInt8) : de16 a b < 65536 := by
  have := a.toNat_lt; have := b.toNat_lt; simp [de16]; omega
theorem de32_lt (a b c d : UInt8) : de32 a b c d < 4294967296 := by
  have := a.toNat_lt; have := b.toNat_lt; have := c.toNat_lt; have := d.toNat_lt
  simp [de32]; omega

theorem b8_toNat_self (a : UInt8) : b8 a.toNat = a := by
  simp [b8]

theorem b8_eq_of_mod (v : Nat) (a : UInt8) (h : v % 256 = a.toNat) : b8 v = a := by
  apply UInt8.toNat_inj.mp; simp [h]

theorem be16_de16 (a b : UInt8) : be16 (de16 a b) = [a, b] := by
  have ha := a.toNat_lt; have hb := b.toNat_lt
  simp only [be16, de16]
  rw [b8_eq_of_mod _ a (by omega), b8_eq_of_mod _ b (by omega)]

theorem be32_de32 (a b c d : UInt8) : be32 (de32 a b c d) = [a, b, c, d] := by
  have ha := a.toNat_lt; have hb := b.toNat_lt; have hc := c.toNat_lt; have hd := d.toNat_lt
  simp only [be32, de32]
  rw [b8_eq_of_mod _ a (by omega), b8_eq_of_mod _ b (by omega), b8_eq_of_mod _ c (by omega),
      b8_eq_of_mod _ d (by omega)]

/-! ### arbitrary precision integers: math/big `SetBytes` and `Bytes` -/

/-- big.Int.SetBytes: big-endian, leading zeros allowed -/
def bytesToNat (b : Bytes) : Nat := b.foldl (fun acc x => acc * 256 + x.toNat) 0

/-- little-endian digits of `n`, no trailing zero -/
def natToBytesLE (n : Nat) : Bytes :=
  if h : n = 0 then [] else b8 (n % 256) :: natToBytesLE (n / 256)
decreasing_by omega

/-- big.Int.Bytes: minimal big-endian form, zero is the empty string -/
def natToBytes (n : Nat) : Bytes := (natToBytesLE n).reverse

/-! ### hex (driver protocol and `%x` formatting) -/

def hexDigit (n : Nat) : Char :=
  if n < 10 then Char.ofNat (48 + n) else Char.ofNat (87 + n)

def toHex (b : Bytes) : String :=
  String.ofList (b.flatMap fun x => [hexDigit (x.toNat / 16), hexDigit (x.toNat % 16)])

def hexVal (c : Char) : Option Nat :=
  if '0' ≤ c ∧ c ≤ '9' then some (c.toNat - 48)
  else if 'a' ≤ c ∧ c ≤ 'f' then some (c.toNat - 87)
  else if 'A' ≤ c ∧ c ≤ 'F' then some (c.toNat - 55)
  else none

def fromHexChars : List Char → Option Bytes
  | [] => some []
  | [_] => none
  | a :: b :: rest => do
      let x ← hexVal a
      let y ← hexVal b
      let r ← fromHexChars rest
      pure (b8 (x * 16 + y) :: r)

def fromHex (s : String) : Option Bytes := fromHexChars s.toList

/-- bytes of an ASCII string literal (kernel-reducible, unlike `String.toUTF8`; the model only uses it on ASCII) -/
def strBytes (s : String) : Bytes := s.toList.map (fun c => UInt8.ofNat c.toNat)

/-- does `p` occur as a prefix of `b` (bytes.HasPrefix) -/
def hasPrefix (b p : Bytes) : Bool := p.isPrefixOf b

end Otr
