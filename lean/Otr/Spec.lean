/-
  Otr.Spec — a declarative statement of what "Off-the-Record Messaging Protocol version 3"
  (and, where it differs, version 2) prescribes for everything that is put on the wire and
  for every key that is derived.

  This file is written from the protocol document, in the document's own vocabulary
  (BYTE / SHORT / INT / MPI / DATA / CTR / MAC / PUBKEY / SIG, "secbytes", h1, h2, M_B, X_B, ...).
  It deliberately does NOT import the executable model of the library (Msg/Keys/Conv/Frag/Wire):
  it only uses byte strings (`Otr.Bytes`: `be16`, `be32`, `natToBytes`, `strBytes`), and the
  record of cryptographic primitives (`Otr.Crypto`).  `Proofs/Spec.lean` relates the model to it.

  Section names in the doc comments ("Data types", "D-H Commit Message", ...) are the headings of
  the protocol document (otr.cypherpunks.ca/Protocol-v3-4.x.x.html).
-/
import Otr.Bytes
import Otr.Codec
import Otr.Crypto
namespace Otr.Spec

/-! ## 0. Data types  (spec: "Data types") -/

/-- "Bytes (BYTE): 1 byte unsigned value". -/
def BYTE (v : Nat) : Bytes := [b8 v]

/-- "Shorts (SHORT): 2 byte unsigned value, big-endian". -/
def SHORT (v : Nat) : Bytes := [b8 (v / 256), b8 v]

/-- "Ints (INT): 4 byte unsigned value, big-endian". -/
def INT (v : Nat) : Bytes := [b8 (v / 16777216), b8 (v / 65536), b8 (v / 256), b8 v]

/-- "Opaque variable-length data (DATA): 4 byte unsigned len, big-endian; len byte data". -/
def DATA (d : Bytes) : Bytes := INT d.length ++ d

/-- The magnitude of a multi-precision integer: big-endian, "MPIs must use the minimum-length
    encoding; i.e. no leading 0x00 bytes.  This is important when calculating public key
    fingerprints."  Zero is the empty string. -/
def magnitude (n : Nat) : Bytes := natToBytes n

/-- "Multi-precision integers (MPI): 4 byte unsigned len, big-endian; len byte unsigned value,
    big-endian". -/
def MPI (n : Nat) : Bytes := DATA (magnitude n)

/-- "Initial CTR-mode counter value (CTR): 8 bytes data" — a well-formedness predicate. -/
def IsCTR (b : Bytes) : Prop := b.length = 8

/-- "Message Authentication Code (MAC): 20 bytes MAC data" — a well-formedness predicate. -/
def IsMAC (b : Bytes) : Prop := b.length = 20

/-- "Public keys (PUBKEY): Pubkey type (SHORT) — DSA public keys have type 0x0000;
    p (MPI), q (MPI), g (MPI), y (MPI) — (p,q,g,y) are the DSA public key parameters". -/
def PUBKEY (k : DsaPub) : Bytes := SHORT 0 ++ MPI k.p ++ MPI k.q ++ MPI k.g ++ MPI k.y

/-- `len`-byte unsigned big-endian value (left-padded with zero bytes). -/
def fixedBE (len n : Nat) : Bytes :=
  List.replicate (len - (magnitude n).length) 0 ++ magnitude n

/-- "DSA signatures (SIG): (len is the length of the DSA public parameter q, which in current
    implementations must be 20 bytes, or 160 bits)  len byte unsigned r, big-endian;
    len byte unsigned s, big-endian". -/
def SIG (r s : Nat) : Bytes := fixedBE 20 r ++ fixedBE 20 s

/-- "Public key fingerprints: ... the SHA-1 hash of the byte-level representation of the public
    key.  However, there is an exception for backwards compatibility: if the pubkey type is 0x0000,
    those two leading 0x00 bytes are omitted from the data to be hashed." -/
def fingerprint (K : Crypto) (k : DsaPub) : Bytes :=
  K.hash1 (MPI k.p ++ MPI k.q ++ MPI k.g ++ MPI k.y)

/-! ## 4. Instance tags  (spec: "Instance Tags") -/

/-- "Instance tags are 32-bit values ... the smallest valid instance tag is 0x00000100."
    A sender instance tag must be a valid tag. -/
def validInstanceTag (t : Nat) : Prop := 0x100 ≤ t ∧ t < 4294967296

/-- "The receiver instance tag ... 0 indicates that the recipient instance is not (yet) known"
    (used in a D-H Commit); "messages should be discarded if the sender instance tag is less than
    0x100 or the receiver instance tag is > 0 and < 0x100". -/
def validReceiverTag (t : Nat) : Prop := t = 0 ∨ validInstanceTag t

/-! ## 1. Message encodings -/

/-- the two protocol versions covered -/
inductive Version where
  | v2 | v3
  deriving DecidableEq, Repr

/-- "Protocol version (SHORT): the version number of this protocol is 0x0002 / 0x0003". -/
def Version.num : Version → Nat
  | .v2 => 2
  | .v3 => 3

/-- "Message type (BYTE)": D-H Commit 0x02, D-H Key 0x0a, Reveal Signature 0x11,
    Signature 0x12, Data 0x03. -/
def msgTypeDHCommit : Nat := 0x02
def msgTypeDHKey : Nat := 0x0a
def msgTypeRevealSig : Nat := 0x11
def msgTypeSig : Nat := 0x12
def msgTypeData : Nat := 0x03

/-- Every encoded message starts with
      Protocol version (SHORT), Message type (BYTE)
    and, in version 3 only,
      Sender Instance tag (INT), Receiver Instance tag (INT).
    The version 2 header is 3 bytes, the version 3 header 11 bytes. -/
def header (v : Version) (msgType sender receiver : Nat) : Bytes :=
  match v with
  | .v2 => SHORT 2 ++ BYTE msgType
  | .v3 => SHORT 3 ++ BYTE msgType ++ INT sender ++ INT receiver

/-- "AES128-CTR, with ... initial counter value 0": sixteen zero bytes. -/
def zeroCounter : Bytes := List.replicate 16 0

/-- spec: "D-H Commit Message" (type 0x02).
      Encrypted g^x (DATA): "Serialize g^x as an MPI, gxmpi.  Encrypt gxmpi using AES128-CTR, with
        key r and initial counter value 0. ... Encode this encrypted value as the DATA field."
      Hashed g^x (DATA): "the SHA256 hash of gxmpi". -/
def dhCommitBody (K : Crypto) (r : Bytes) (gx : Nat) : Option Bytes :=
  match K.ctr r zeroCounter (MPI gx) with
  | none => none
  | some enc => some (DATA enc ++ DATA (K.hash2 (MPI gx)))

/-- the same, given the two already-computed fields -/
def dhCommitFields (encryptedGx hashedGx : Bytes) : Bytes := DATA encryptedGx ++ DATA hashedGx

/-- spec: "D-H Key Message" (type 0x0a):  g^y (MPI). -/
def dhKeyBody (gy : Nat) : Bytes := MPI gy

/-- "SHA256-HMAC-160 (that is, the first 160 bits of the SHA256-HMAC) of the encrypted signature
    field (including the four-byte length), using the key m2". -/
def macdSignature (K : Crypto) (m2 encSig : Bytes) : Bytes := (K.mac2 m2 (DATA encSig)).take 20

/-- spec: "Reveal Signature Message" (type 0x11):
      Revealed key (DATA): r;  Encrypted signature (DATA): AES_c(X_B);  MAC'd signature (MAC). -/
def revealSigBody (K : Crypto) (r encSig m2 : Bytes) : Bytes :=
  DATA r ++ DATA encSig ++ macdSignature K m2 encSig

/-- spec: "Signature Message" (type 0x12):
      Encrypted signature (DATA): AES_c'(X_A);  MAC'd signature (MAC) with key m2'. -/
def signatureBody (K : Crypto) (encSig m2' : Bytes) : Bytes :=
  DATA encSig ++ macdSignature K m2' encSig

/-- The fields of a Data Message (spec: "Data Message", type 0x03). -/
structure DataMessage where
  /-- "Flags (BYTE): the bitwise-OR of the flags for this message"; IGNORE_UNREADABLE = 0x01 -/
  flags : Nat
  /-- "Sender keyid (INT): must be strictly greater than 0, and increment by 1 with each key change" -/
  senderKeyId : Nat
  /-- "Recipient keyid (INT): must therefore be strictly greater than 0" -/
  recipientKeyId : Nat
  /-- "DH y (MPI): the *next* [i.e. sender_keyid+1] public key for the sender" -/
  nextDH : Nat
  /-- "Top half of counter init (CTR): ... must not be all 0x00" -/
  topHalf : Bytes
  /-- "Encrypted message (DATA)" -/
  encMsg : Bytes
  /-- "Old MAC keys to be revealed (DATA)" -/
  oldMacKeys : Bytes

/-- "Authenticator (MAC): the SHA1-HMAC ... of everything from the Protocol version to the end of
    the encrypted message": this is that stretch of bytes (T_A with the header in front). -/
def dataMessageAuthenticated (hdr : Bytes) (d : DataMessage) : Bytes :=
  hdr ++ BYTE d.flags ++ INT d.senderKeyId ++ INT d.recipientKeyId ++ MPI d.nextDH ++
    d.topHalf ++ DATA d.encMsg

/-- the Data Message without its header: flags ‖ keyids ‖ next_dh ‖ ctr ‖ DATA enc -/
def dataMessageFields (d : DataMessage) : Bytes := dataMessageAuthenticated [] d

/-- the authenticator of a Data Message under the sending MAC key `mk` -/
def dataMessageAuthenticator (K : Crypto) (mk hdr : Bytes) (d : DataMessage) : Bytes :=
  K.mac1 mk (dataMessageAuthenticated hdr d)

/-- the complete Data Message: authenticated part ‖ Authenticator (MAC) ‖ Old MAC keys (DATA) -/
def dataMessage (K : Crypto) (mk hdr : Bytes) (d : DataMessage) : Bytes :=
  dataMessageAuthenticated hdr d ++ dataMessageAuthenticator K mk hdr d ++ DATA d.oldMacKeys

/-- "The initial counter is a 16-byte value whose first 8 bytes are the above 'top half of counter
    init' value, and whose last 8 bytes are all 0x00." -/
def dataCounter (topHalf : Bytes) : Bytes := topHalf ++ List.replicate 8 0

/-- "perform AES128 counter-mode (CTR) encryption of the message" with the key ek. -/
def encryptData (K : Crypto) (ek topHalf msg : Bytes) : Option Bytes :=
  K.ctr ek (dataCounter topHalf) msg

/-! ### RFC 4648 base64 (the spec says "base-64 encoded") -/

/-- the base64 alphabet A–Z a–z 0–9 + / -/
def b64Char (n : Nat) : UInt8 :=
  if n < 26 then b8 (65 + n)
  else if n < 52 then b8 (97 + (n - 26))
  else if n < 62 then b8 (48 + (n - 52))
  else if n = 62 then 43 else 47

/-- RFC 4648 §4, with '=' padding -/
def base64 : Bytes → Bytes
  | [] => []
  | [a] => [b64Char (a.toNat / 4), b64Char (a.toNat % 4 * 16), 61, 61]
  | [a, b] => [b64Char (a.toNat / 4), b64Char (a.toNat % 4 * 16 + b.toNat / 16),
               b64Char (b.toNat % 16 * 4), 61]
  | a :: b :: c :: rest =>
      b64Char (a.toNat / 4) :: b64Char (a.toNat % 4 * 16 + b.toNat / 16) ::
      b64Char (b.toNat % 16 * 4 + c.toNat / 64) :: b64Char (c.toNat % 64) :: base64 rest

/-- spec: "OTR messages ... the binary form is base-64 encoded, prefixed by the five bytes
    \"?OTR:\" and followed by the byte \".\"". -/
def armor (binary : Bytes) : Bytes := strBytes "?OTR:" ++ base64 binary ++ strBytes "."

/-! ### Fragmentation (spec: "Fragmentation") -/

def hexDigitLower (n : Nat) : UInt8 := if n < 10 then b8 (48 + n) else b8 (87 + n)
def decDigit (n : Nat) : UInt8 := b8 (48 + n)

/-- value of a string of lower-case hexadecimal digits, `none` if some byte is not one
    (printf `%x` prints lower case) -/
def hexValue (s : Bytes) : Option Nat :=
  s.foldl (fun acc c =>
    match acc with
    | none => none
    | some v =>
      if 48 ≤ c.toNat ∧ c.toNat ≤ 57 then some (v * 16 + (c.toNat - 48))
      else if 97 ≤ c.toNat ∧ c.toNat ≤ 102 then some (v * 16 + (c.toNat - 87))
      else none) (some 0)

/-- value of a string of decimal digits -/
def decValue (s : Bytes) : Option Nat :=
  s.foldl (fun acc c =>
    match acc with
    | none => none
    | some v => if 48 ≤ c.toNat ∧ c.toNat ≤ 57 then some (v * 10 + (c.toNat - 48)) else none) (some 0)

/-- The spec gives the fragment format as the printf formats
      version 3:  "?OTR|%x|%x,%hu,%hu,%s,"   (sender_instance, receiver_instance, k, n, piece[k])
      version 2:  "?OTR,%hu,%hu,%s,"         (k, n, piece[k])
    and adds: "Note that k and n are unsigned short ints (2 bytes), and each has a maximum value of
    65535.  Also, each piece[k] must be non-empty.  The instance tags (if applicable) and the k and n
    values may have leading zeroes."
    Hence the freedom: any non-empty lower-case hex numeral (with leading zeros) for a tag, any
    non-empty decimal numeral (with leading zeros) for k and n.  Upper-case hex is NOT what `%x`
    produces. `IsFragmentV3` is this relation.
    (The library used to emit an EMPTY last piece when the armoured length was a multiple of the
    payload size per fragment; repaired, see `Otr.fragment_allowed`.) -/
def IsFragmentV3 (sender receiver k n : Nat) (piece frag : Bytes) : Prop :=
  ∃ hs hr dk dn : Bytes,
    hs ≠ [] ∧ hr ≠ [] ∧ dk ≠ [] ∧ dn ≠ [] ∧
    hexValue hs = some sender ∧ hexValue hr = some receiver ∧
    decValue dk = some k ∧ decValue dn = some n ∧
    1 ≤ k ∧ k ≤ n ∧ n ≤ 65535 ∧ piece ≠ [] ∧
    frag = strBytes "?OTR|" ++ hs ++ strBytes "|" ++ hr ++ strBytes "," ++ dk ++ strBytes "," ++ dn ++
             strBytes "," ++ piece ++ strBytes ","

def IsFragmentV2 (k n : Nat) (piece frag : Bytes) : Prop :=
  ∃ dk dn : Bytes,
    dk ≠ [] ∧ dn ≠ [] ∧ decValue dk = some k ∧ decValue dn = some n ∧
    1 ≤ k ∧ k ≤ n ∧ n ≤ 65535 ∧ piece ≠ [] ∧
    frag = strBytes "?OTR," ++ dk ++ strBytes "," ++ dn ++ strBytes "," ++ piece ++ strBytes ","

/-- `%08x`: the eight-digit lower-case form (what libotr itself emits; one of the forms allowed). -/
def hex8 (v : Nat) : Bytes :=
  [hexDigitLower (v / 268435456 % 16), hexDigitLower (v / 16777216 % 16),
   hexDigitLower (v / 1048576 % 16), hexDigitLower (v / 65536 % 16),
   hexDigitLower (v / 4096 % 16), hexDigitLower (v / 256 % 16),
   hexDigitLower (v / 16 % 16), hexDigitLower (v % 16)]

/-- `%05hu`: the five-digit decimal form (what libotr itself emits; one of the forms allowed). -/
def dec5 (v : Nat) : Bytes :=
  [decDigit (v / 10000 % 10), decDigit (v / 1000 % 10), decDigit (v / 100 % 10),
   decDigit (v / 10 % 10), decDigit (v % 10)]

/-- the canonical (libotr) choice among the allowed version 3 fragment forms:
    "?OTR|%08x|%08x,%05hu,%05hu,%s," -/
def fragmentV3 (sender receiver k n : Nat) (piece : Bytes) : Bytes :=
  strBytes "?OTR|" ++ hex8 sender ++ strBytes "|" ++ hex8 receiver ++ strBytes "," ++
    dec5 k ++ strBytes "," ++ dec5 n ++ strBytes "," ++ piece ++ strBytes ","

/-- the canonical (libotr) choice among the allowed version 2 fragment forms: "?OTR,%05hu,%05hu,%s," -/
def fragmentV2 (k n : Nat) (piece : Bytes) : Bytes :=
  strBytes "?OTR," ++ dec5 k ++ strBytes "," ++ dec5 n ++ strBytes "," ++ piece ++ strBytes ","

/-! ### Query messages, whitespace tag, error messages (spec: "OTR Query Messages",
    "Tagged plaintext messages", "OTR Error Messages") -/

/-- "?OTR" then an optional "?" (offers version 1) then optionally "v", a string of version
    characters, and "?".   "?OTRv2?" = version 2 only; "?OTRv23?" = versions 2 and 3;
    "?OTR?v2?" = versions 1 and 2; "?OTRv?" = no version at all ("a bizarre claim"). -/
def queryMessage (offerV1 : Bool) (versions : Option String) : Bytes :=
  strBytes "?OTR" ++ (if offerV1 then strBytes "?" else []) ++
    (match versions with
     | none => []
     | some vs => strBytes "v" ++ strBytes vs ++ strBytes "?")

/-- "\x20\x09\x20\x20\x09\x09\x09\x09 \x20\x09\x20\x09\x20\x09\x20\x20" — the 16-byte tag base -/
def whitespaceTagBase : Bytes := [0x20, 0x09, 0x20, 0x20, 0x09, 0x09, 0x09, 0x09,
                                  0x20, 0x09, 0x20, 0x09, 0x20, 0x09, 0x20, 0x20]
/-- "\x20\x09\x20\x09\x20\x20\x09\x20" indicates a willingness to use OTR version 1 -/
def whitespaceTagV1 : Bytes := [0x20, 0x09, 0x20, 0x09, 0x20, 0x20, 0x09, 0x20]
/-- "\x20\x20\x09\x09\x20\x20\x09\x20" indicates a willingness to use OTR version 2 -/
def whitespaceTagV2 : Bytes := [0x20, 0x20, 0x09, 0x09, 0x20, 0x20, 0x09, 0x20]
/-- "\x20\x20\x09\x09\x20\x20\x09\x09" indicates a willingness to use OTR version 3 -/
def whitespaceTagV3 : Bytes := [0x20, 0x20, 0x09, 0x09, 0x20, 0x20, 0x09, 0x09]

/-- "the tag base, followed by one or more of the version tags" (order not prescribed; we list
    ascending as libotr does) -/
def whitespaceTag (v2 v3 : Bool) : Bytes :=
  whitespaceTagBase ++ (if v2 then whitespaceTagV2 else []) ++ (if v3 then whitespaceTagV3 else [])

/-- "Any message containing the string \"?OTR Error:\" is an OTR Error Message.  The following part
    of the message should contain human-readable details of the error." -/
def errorMessage (text : Bytes) : Bytes := strBytes "?OTR Error:" ++ text

/-! ## 2. Key derivations -/

/-- spec "Authenticated Key Exchange (AKE)": the shared secret s = (g^y)^x. -/
def sharedSecret (K : Crypto) (theirPublic ourSecret : Nat) : Nat := K.gexp theirPublic ourSecret

/-- "Write the value of s as a minimum-length MPI ...; let this (4+len)-byte value be 'secbytes'". -/
def secbytes (s : Nat) : Bytes := MPI s

/-- "For a given byte b, define h2(b) to be the 256-bit output of the SHA256 hash of the (5+len)
    bytes consisting of the byte b followed by secbytes." -/
def h2 (K : Crypto) (b : Nat) (s : Nat) : Bytes := K.hash2 (BYTE b ++ secbytes s)

/-- "For a given byte b, define h1(b) to be the 160-bit output of the SHA-1 hash of the (5+len)
    bytes consisting of the byte b followed by secbytes." -/
def h1 (K : Crypto) (b : Nat) (s : Nat) : Bytes := K.hash1 (BYTE b ++ secbytes s)

structure AkeKeys where
  ssid : Bytes
  c : Bytes
  c' : Bytes
  m1 : Bytes
  m2 : Bytes
  m1' : Bytes
  m2' : Bytes
  deriving DecidableEq, Repr

/-- spec "Computing AKE keys":
     "Let ssid be the first 64 bits of h2(0x00).
      Let c be the first 128 bits of h2(0x01), and let c' be the second 128 bits of h2(0x01).
      Let m1 be h2(0x02).  Let m2 be h2(0x03).  Let m1' be h2(0x04).  Let m2' be h2(0x05)." -/
def akeKeys (K : Crypto) (s : Nat) : AkeKeys where
  ssid := (h2 K 0 s).take 8
  c := (h2 K 1 s).take 16
  c' := ((h2 K 1 s).drop 16).take 16
  m1 := h2 K 2 s
  m2 := h2 K 3 s
  m1' := h2 K 4 s
  m2' := h2 K 5 s

/-- The data MAC'd in the AKE: Bob's "g^x (MPI), g^y (MPI), pub_B (PUBKEY), keyid_B (INT)";
    Alice's "g^y (MPI), g^x (MPI), pub_A (PUBKEY), keyid_A (INT)" — i.e. in both cases the signer's
    own D-H public key, the peer's D-H public key, the signer's long-term key and key id. -/
def akeMInput (ownDH peerDH : Nat) (pub : DsaPub) (keyid : Nat) : Bytes :=
  MPI ownDH ++ MPI peerDH ++ PUBKEY pub ++ INT keyid

/-- "Compute the 32-byte value M_B to be the SHA256-HMAC of the following data, using the key m1" -/
def akeM (K : Crypto) (m1 : Bytes) (ownDH peerDH : Nat) (pub : DsaPub) (keyid : Nat) : Bytes :=
  K.mac2 m1 (akeMInput ownDH peerDH pub keyid)

/-- "sig_B(M_B): the signature, using the private part of the key pub_B, of the 32-byte M_B (taken
    modulo q instead of being truncated (as described in FIPS-186), and not hashed again)":
    the integer that is signed / verified. -/
def akeSignedValue (q : Nat) (M : Bytes) : Nat := bytesToNat M % q

/-- "Let X_B be the following structure: pub_B (PUBKEY), keyid_B (INT), sig_B(M_B) (SIG)". -/
def akeX (pub : DsaPub) (keyid r s : Nat) : Bytes := PUBKEY pub ++ INT keyid ++ SIG r s

/-- "Encrypt X_B using AES128-CTR with key c and initial counter value 0." -/
def akeEncryptX (K : Crypto) (c X : Bytes) : Option Bytes := K.ctr c zeroCounter X

/-- the keys for one (our D-H key, their D-H key) pair -/
structure DataKeys where
  sendAES : Bytes
  recvAES : Bytes
  sendMAC : Bytes
  recvMAC : Bytes
  extraKey : Bytes
  deriving DecidableEq, Repr

/-- "Both sides will compare their public keys to determine who is the 'high' end and who is the
    'low' end: the one with the numerically larger public key is high." -/
def isHighEnd (ourPublic theirPublic : Nat) : Bool := decide (ourPublic > theirPublic)

/-- "If she is the high end use 0x01 as sendbyte and 0x02 as recvbyte; if the low end, 0x02 as
    sendbyte and 0x01 as recvbyte." -/
def sendByte (ourPublic theirPublic : Nat) : Nat := if isHighEnd ourPublic theirPublic then 1 else 2
def recvByte (ourPublic theirPublic : Nat) : Nat := if isHighEnd ourPublic theirPublic then 2 else 1

/-- spec "Computing AES keys, MAC keys":
     "The sending AES key is the first 16 bytes of h1(sendbyte).
      The sending MAC key is the 20-byte SHA-1 hash of the 16-byte sending AES key.
      The receiving AES key is the first 16 bytes of h1(recvbyte).
      The receiving MAC key is the 20-byte SHA-1 hash of the 16-byte receiving AES key."
    and "Extra symmetric key": SHA256(0xFF ‖ secbytes), the same secbytes. -/
def dataKeys (K : Crypto) (ourPublic theirPublic s : Nat) : DataKeys where
  sendAES := (h1 K (sendByte ourPublic theirPublic) s).take 16
  recvAES := (h1 K (recvByte ourPublic theirPublic) s).take 16
  sendMAC := K.hash1 ((h1 K (sendByte ourPublic theirPublic) s).take 16)
  recvMAC := K.hash1 ((h1 K (recvByte ourPublic theirPublic) s).take 16)
  extraKey := K.hash2 (BYTE 0xff ++ secbytes s)

/-- spec "Sending a Data Message" (state machine section):
     "Set sender keyid to our_keyid−1 (the most recent of our keys the peer has acknowledged),
      recipient keyid to their_keyid (their most recent key we have seen),
      DH y to the public half of our_dh[our_keyid] (our most recent key),
      and use the keys derived from our_dh[our_keyid−1] and their_y[their_keyid]." -/
def sendKeyIds (ourKeyId theirKeyId : Nat) : Nat × Nat := (ourKeyId - 1, theirKeyId)

/-- D-H public keys received from the peer must satisfy 2 ≤ g^y ≤ p−2. -/
def validDHPublic (gy : Nat) : Prop := 2 ≤ gy ∧ gy ≤ dhP - 2

/-! ## 3. Data message plaintext, TLVs, SMP -/

/-- "Type (SHORT), Length (SHORT), Value (len BYTEs)". -/
def TLV (type : Nat) (value : Bytes) : Bytes := SHORT type ++ SHORT value.length ++ value

def tlvPadding : Nat := 0
def tlvDisconnected : Nat := 1
def tlvSMP1 : Nat := 2
def tlvSMP2 : Nat := 3
def tlvSMP3 : Nat := 4
def tlvSMP4 : Nat := 5
def tlvSMPAbort : Nat := 6
def tlvSMP1Q : Nat := 7
def tlvExtraKey : Nat := 8

/-- "a human-readable message ..., optionally followed by: a single NUL (a BYTE with value 0x00)
    and zero or more TLV records".  The relation leaves the freedom the spec leaves: with no TLVs,
    the NUL may or may not be present. -/
def IsPlaintext (msg : Bytes) (tlvs : List (Nat × Bytes)) (p : Bytes) : Prop :=
  (tlvs = [] ∧ p = msg) ∨ p = msg ++ [0] ++ (tlvs.map fun t => TLV t.1 t.2).flatten

/-- the shortest such plaintext -/
def plaintext (msg : Bytes) (tlvs : List (Nat × Bytes)) : Bytes :=
  match tlvs with
  | [] => msg
  | _ => msg ++ [0] ++ (tlvs.map fun t => TLV t.1 t.2).flatten

/-- "Type 0: Padding — the value may be an arbitrary amount of data, which should be ignored.  This
    type can be used to disguise the length of the plaintext message." -/
def paddingTLV (junk : Bytes) : Bytes := TLV tlvPadding junk

/-- "Type 8: Extra symmetric key — ... the first four bytes of the value are a use-specific
    context, the remainder use-specific data". -/
def extraKeyTLV (usage : Nat) (data : Bytes) : Bytes := TLV tlvExtraKey (INT usage ++ data)

/-- SMP payload: "MPI count (INT) then the MPIs". -/
def smpPayload (mpis : List Nat) : Bytes := INT mpis.length ++ (mpis.map MPI).flatten

/-- "SMP Message 1 (type 2): g2a, c2, D2, g3a, c3, D3". -/
def smp1 (g2a c2 D2 g3a c3 D3 : Nat) : Bytes := TLV tlvSMP1 (smpPayload [g2a, c2, D2, g3a, c3, D3])
/-- "SMP Message 1Q (type 7): like SMP Message 1 but ... a null-terminated user-specified question"
    precedes the MPI block. -/
def smp1Q (question : Bytes) (g2a c2 D2 g3a c3 D3 : Nat) : Bytes :=
  TLV tlvSMP1Q (question ++ [0] ++ smpPayload [g2a, c2, D2, g3a, c3, D3])
/-- "SMP Message 2 (type 3): g2b, c2, D2, g3b, c3, D3, Pb, Qb, cP, D5, D6". -/
def smp2 (g2b c2 D2 g3b c3 D3 Pb Qb cP D5 D6 : Nat) : Bytes :=
  TLV tlvSMP2 (smpPayload [g2b, c2, D2, g3b, c3, D3, Pb, Qb, cP, D5, D6])
/-- "SMP Message 3 (type 4): Pa, Qa, cP, D5, D6, Ra, cR, D7". -/
def smp3 (Pa Qa cP D5 D6 Ra cR D7 : Nat) : Bytes :=
  TLV tlvSMP3 (smpPayload [Pa, Qa, cP, D5, D6, Ra, cR, D7])
/-- "SMP Message 4 (type 5): Rb, cR, D7". -/
def smp4 (Rb cR D7 : Nat) : Bytes := TLV tlvSMP4 (smpPayload [Rb, cR, D7])
/-- "Type 6: SMP Abort Message — ... The associated length should be zero and the associated value
    should be empty."
    DEVIATION of the library: it sends type 6 with length 4 and value 00 00 00 00 (an MPI count of zero);
    see `Otr.deviation_smpAbort` in Proofs/Spec.lean. -/
def smpAbort : Bytes := TLV tlvSMPAbort []

/-- spec "SMP Hash function": "a SHA256 hash of an integer followed by one or two MPIs ...
      Version (BYTE), First MPI (MPI), Second MPI (MPI) — if only one MPI is given, this field is
      simply omitted";  the result is read as a big-endian integer.
    Versions: 1, 2 (c2, c3 of message 1), 3, 4, 5 (c2, c3, cP of message 2), 6, 7 (cP, cR of
    message 3), 8 (cR of message 4). -/
def smpHashInput (version : Nat) (mpis : List Nat) : Bytes := BYTE version ++ (mpis.map MPI).flatten
def smpHash (K : Crypto) (version : Nat) (mpis : List Nat) : Nat :=
  bytesToNat (K.hash2 (smpHashInput version mpis))

/-- spec "Secret information": "Version (BYTE) 0x01, Initiator fingerprint (20 BYTEs), Responder
    fingerprint (20 BYTEs), Secure Session ID, User-specified secret" — hashed with SHA256. -/
def smpSecretInput (initiatorFP responderFP ssid userSecret : Bytes) : Bytes :=
  BYTE 1 ++ initiatorFP ++ responderFP ++ ssid ++ userSecret
def smpSecret (K : Crypto) (initiatorFP responderFP ssid userSecret : Bytes) : Nat :=
  bytesToNat (K.hash2 (smpSecretInput initiatorFP responderFP ssid userSecret))

/-- SMP: "check that g2a, g3a are >= 2 and <= modulus−2", "D2, D3 are >= 1 and < order".
    DEVIATION of the library (receiving side): in version 2 conversations the group element check is
    `n mod p ≠ 0` (`Otr.deviation_smp_v2_group_element`, known as C12). -/
def smpValidGroupElement (x : Nat) : Prop := 2 ≤ x ∧ x ≤ dhP - 2
def smpValidExponent (x : Nat) : Prop := 1 ≤ x ∧ x < dhQ

/-!
## Summary of deviations of coyim/otr3 from this specification (proved in Proofs/Spec.lean)

  1. SMP abort TLV carries a 4-byte value (00 00 00 00) instead of an empty one   — `deviation_smpAbort`
     (pinned by the library's unit tests; recorded as a known finding of C10)
  2. OTRv2 SMP group elements are only checked to be ≠ 0 mod p (C12)               — `deviation_smp_v2_group_element`
     (pinned by the library's unit tests; known finding of C12)
  Repaired in the library after this specification exposed them: the last fragment could carry an empty
  piece (`fragment_allowed`); SMP exponents D2..D7 were not range-checked on receipt (`isExponent_spec`).

  Not deviations, but freedoms of the spec the library uses in a particular way: the NUL after the message is
  always written; every data message is padded with one type-0 TLV computed from the message length only
  (`pad_multiple_of_256`, `pad_length_mod`); fragments use the fixed-width libotr forms %08x / %05hu; c' is
  "everything after the first 16 bytes" of h2(0x01), which is the second 128 bits for SHA-256
  (`calculateAKEKeys_spec_raw`); the query message never offers version 1.
-/

end Otr.Spec
