/-
  Otr.Smp — Socialist Millionaires' Protocol arithmetic and zero-knowledge proofs.
  Go anchors: smp.go, smp_msg1.go … smp_msg4.go, bn_utils.go.
  (The state machine glue lives in Otr.Conv.)
-/
import Otr.Crypto
import Otr.Codec
import Otr.Msg
namespace Otr

structure Smp1State where
  a2 : Nat
  a3 : Nat
  r2 : Nat
  r3 : Nat
  msg : Smp1Msg
  deriving Repr, DecidableEq

structure Smp2State where
  y : Nat
  b2 : Nat
  b3 : Nat
  r2 : Nat
  r3 : Nat
  r4 : Nat
  r5 : Nat
  r6 : Nat
  g3a : Nat
  g2 : Nat
  g3 : Nat
  pb : Nat
  qb : Nat
  msg : Smp2Msg
  deriving Repr, DecidableEq

structure Smp3State where
  x : Nat
  g3b : Nat
  r4 : Nat
  r5 : Nat
  r6 : Nat
  r7 : Nat
  qaqb : Nat
  papb : Nat
  msg : Smp3Msg
  deriving Repr, DecidableEq

inductive SmpState where
  | expect1 | expect2 | expect3 | expect4 | waitingForSecret (msg : Smp1Msg)
  deriving Repr, DecidableEq

/-- identity() + 1 of debug.go, 0 = nil state -/
def SmpState.toNat : SmpState → Nat
  | .expect1 => 1 | .waitingForSecret _ => 2 | .expect2 => 3 | .expect3 => 4 | .expect4 => 5

structure Smp where
  state : Option SmpState := none
  question : Option Bytes := none
  secret : Option Nat := none
  s1 : Option Smp1State := none
  s2 : Option Smp2State := none
  s3 : Option Smp3State := none
  deriving Repr, DecidableEq

/-! ### bn_utils.go -/
def mulModP (a b : Nat) : Nat := a * b % dhP
/-- subMod(l, r, q): big.Int.Mod is Euclidean, the result is in [0, q) -/
def subModQ (l r : Nat) : Nat := (((l : Int) - (r : Int)) % (dhQ : Int)).toNat

/-- divMod(l, r, p) = l · r⁻¹ mod p; ModInverse returning nil is dereferenced by Mul -/
def divModP (K : Crypto) (l r : Nat) : Res Nat :=
  match K.modInv r dhP with
  | some inv => .ok (l * inv % dhP)
  | none => .panic "divMod: ModInverse returned nil"

/-- hashMPIsBN(sha256, magic, mpis…) -/
def hashMPIsBN (K : Crypto) (magic : Nat) (mpis : List Nat) : Nat :=
  bytesToNat (K.hash2 (b8 magic :: (mpis.flatMap fun m => appendMPI [] m)))

def gexp1 (K : Crypto) (e : Nat) : Nat := K.gexp dhG e

/-- generateZKP(r, a, ix) -/
def generateZKP (K : Crypto) (r a ix : Nat) : Nat × Nat :=
  let c := hashMPIsBN K ix [gexp1 K r]
  (c, subModQ r (a * c))

/-- verifyZKP(d, gen, c, ix) -/
def verifyZKP (K : Crypto) (d gen c ix : Nat) : Bool :=
  c == hashMPIsBN K ix [mulModP (gexp1 K d) (K.gexp gen c)]

/-- verifyZKP2 / verifyZKP3 (same computation) -/
def verifyZKP2 (K : Crypto) (g2 g3 d5 d6 pb qb cp ix : Nat) : Bool :=
  let l := mulModP (K.gexp g3 d5) (K.gexp pb cp)
  let r := (gexp1 K d5 * K.gexp g2 d6) * K.gexp qb cp % dhP
  cp == hashMPIsBN K ix [l, r]

/-- verifyZKP4(cr, g3a, d7, qaqb, ra, ix) -/
def verifyZKP4 (K : Crypto) (cr g3a d7 qaqb ra ix : Nat) : Bool :=
  let l := mulModP (gexp1 K d7) (K.gexp g3a cr)
  let r := mulModP (K.gexp qaqb d7) (K.gexp ra cr)
  cr == hashMPIsBN K ix [l, r]

/-- isExponent: the range the protocol prescribes for the proof exponents (repaired code) -/
def isExponent (d : Nat) : Bool := decide (1 ≤ d) && decide (d < dhQ)

/-! ### message 1 -/
def smp1Gen (K : Crypto) (a2 a3 r2 r3 : Nat) : Smp1State :=
  let (c2, d2) := generateZKP K r2 a2 1
  let (c3, d3) := generateZKP K r3 a3 2
  ⟨a2, a3, r2, r3, ⟨gexp1 K a2, gexp1 K a3, c2, c3, d2, d3, false, []⟩⟩

def smp1Verify (K : Crypto) (isGE : Nat → Bool) (m : Smp1Msg) : Bool :=
  isGE m.g2a && isGE m.g3a && (isExponent m.d2 && isExponent m.d3) && verifyZKP K m.d2 m.g2a m.c2 1 && verifyZKP K m.d3 m.g3a m.c3 2

/-! ### message 2 -/
def smp2Gen (K : Crypto) (y : Nat) (m1 : Smp1Msg) (b2 b3 r2 r3 r4 r5 r6 : Nat) : Smp2State :=
  let (c2, d2) := generateZKP K r2 b2 3
  let (c3, d3) := generateZKP K r3 b3 4
  let g2 := K.gexp m1.g2a b2
  let g3 := K.gexp m1.g3a b3
  let pb := K.gexp g3 r4
  let qb := mulModP (gexp1 K r4) (K.gexp g2 y)
  let cp := hashMPIsBN K 5 [K.gexp g3 r5, mulModP (gexp1 K r5) (K.gexp g2 r6)]
  let d5 := subModQ r5 (r4 * cp)
  let d6 := subModQ r6 (y * cp)
  ⟨y, b2, b3, r2, r3, r4, r5, r6, m1.g3a, g2, g3, pb, qb,
    ⟨gexp1 K b2, gexp1 K b3, c2, c3, d2, d3, pb, qb, cp, d5, d6⟩⟩

def smp2Verify (K : Crypto) (isGE : Nat → Bool) (s1 : Smp1State) (m : Smp2Msg) : Bool :=
  isGE m.g2b && isGE m.g3b && isGE m.pb && isGE m.qb &&
  (isExponent m.d2 && isExponent m.d3 && isExponent m.d5 && isExponent m.d6) &&
  verifyZKP K m.d2 m.g2b m.c2 3 && verifyZKP K m.d3 m.g3b m.c3 4 &&
  verifyZKP2 K (K.gexp m.g2b s1.a2) (K.gexp m.g3b s1.a3) m.d5 m.d6 m.pb m.qb m.cp 5

/-! ### message 3 -/
def smp3Gen (K : Crypto) (x : Nat) (s1 : Smp1State) (m2 : Smp2Msg) (r4 r5 r6 r7 : Nat) : Res Smp3State := do
  let g2 := K.gexp m2.g2b s1.a2
  let g3 := K.gexp m2.g3b s1.a3
  let pa := K.gexp g3 r4
  let qa := mulModP (gexp1 K r4) (K.gexp g2 x)
  let qaqb ← divModP K qa m2.qb
  let papb ← divModP K pa m2.pb
  let cp := hashMPIsBN K 6 [K.gexp g3 r5, mulModP (gexp1 K r5) (K.gexp g2 r6)]
  let d5 := subModQ r5 (r4 * cp)
  let d6 := subModQ r6 (x * cp)
  let ra := K.gexp qaqb s1.a3
  let cr := hashMPIsBN K 7 [gexp1 K r7, K.gexp qaqb r7]
  let d7 := subModQ r7 (s1.a3 * cr)
  pure ⟨x, m2.g3b, r4, r5, r6, r7, qaqb, papb, ⟨pa, qa, cp, d5, d6, d7, ra, cr⟩⟩

def smp3Verify (K : Crypto) (isGE : Nat → Bool) (s2 : Smp2State) (m : Smp3Msg) : Res Bool := do
  if !(isGE m.pa && isGE m.qa && isGE m.ra) then return false
  if !(isExponent m.d5 && isExponent m.d6 && isExponent m.d7) then return false
  if !verifyZKP2 K s2.g2 s2.g3 m.d5 m.d6 m.pa m.qa m.cp 6 then return false
  let qaqb ← divModP K m.qa s2.qb
  return verifyZKP4 K m.cr s2.g3a m.d7 qaqb m.ra 7

/-- verifySMP3ProtocolSuccess -/
def smp3Success (K : Crypto) (s2 : Smp2State) (m : Smp3Msg) : Res Bool := do
  let papb ← divModP K m.pa s2.pb
  return K.gexp m.ra s2.b3 == papb

/-! ### message 4 -/
def smp4Gen (K : Crypto) (s2 : Smp2State) (m3 : Smp3Msg) (r7 : Nat) : Res Smp4Msg := do
  let qaqb ← divModP K m3.qa s2.qb
  let rb := K.gexp qaqb s2.b3
  let cr := hashMPIsBN K 8 [gexp1 K r7, K.gexp qaqb r7]
  let d7 := subModQ r7 (s2.b3 * cr)
  pure ⟨cr, d7, rb⟩

def smp4Verify (K : Crypto) (isGE : Nat → Bool) (s3 : Smp3State) (m : Smp4Msg) : Bool :=
  isGE m.rb && isExponent m.d7 && verifyZKP4 K m.cr s3.g3b m.d7 s3.qaqb m.rb 8

/-- verifySMP4ProtocolSuccess -/
def smp4Success (K : Crypto) (s1 : Smp1State) (s3 : Smp3State) (m : Smp4Msg) : Bool :=
  K.gexp m.rb s1.a3 == s3.papb

end Otr
