/-
  Otr.Crypto — the record of cryptographic operations the protocol model is written against,
  and its executable instance `Crypto.real` (SHA-1/SHA-256/HMAC/AES-128-CTR/modexp/DSA-verify,
  validated differentially against Go's crypto/*, math/big and constbn; not verified).
-/
import Otr.Bytes
import Otr.CryptoReal.Sha
import Otr.CryptoReal.Hmac
import Otr.CryptoReal.Aes
import Otr.CryptoReal.Num
import Otr.CryptoReal.Dsa
namespace Otr

structure DsaPub where
  p : Nat
  q : Nat
  g : Nat
  y : Nat
  deriving Repr, DecidableEq

structure Crypto where
  /-- SHA-1 (otrVersion.hash, fingerprints) -/
  hash1 : Bytes → Bytes
  /-- SHA-256 (otrVersion.hash2) -/
  hash2 : Bytes → Bytes
  /-- HMAC-SHA1 key data (data message authenticator) -/
  mac1 : Bytes → Bytes → Bytes
  /-- HMAC-SHA256 key data (AKE) -/
  mac2 : Bytes → Bytes → Bytes
  /-- AES-CTR key iv data; `none` = aes.NewCipher rejected the key size -/
  ctr : Bytes → Bytes → Bytes → Option Bytes
  /-- base ^ (big-endian bytes) mod p  (constbn ExpB / big.Int.Exp) -/
  gexp : Nat → Nat → Nat
  /-- big.Int.ModInverse a m -/
  modInv : Nat → Nat → Option Nat
  dsaVerify : DsaPub → Bytes → Nat → Nat → Bool

/-- RFC 3526 group 5 (dh.go) -/
def dhP : Nat := 0xFFFFFFFFFFFFFFFFC90FDAA22168C234C4C6628B80DC1CD129024E088A67CC74020BBEA63B139B22514A08798E3404DDEF9519B3CD3A431B302B0A6DF25F14374FE1356D6D51C245E485B576625E7EC6F44C42E9A637ED6B0BFF5CB6F406B7EDEE386BFB5A899FA5AE9F24117C4B1FE649286651ECE45B3DC2007CB8A163BF0598DA48361C55D39A69163FA8FD24CF5F83655D23DCA3AD961C62F356208552BB9ED529077096966D670C354E4ABC9804F1746C08CA237327FFFFFFFFFFFFFFFF
def dhQ : Nat := 0x7FFFFFFFFFFFFFFFE487ED5110B4611A62633145C06E0E68948127044533E63A0105DF531D89CD9128A5043CC71A026EF7CA8CD9E69D218D98158536F92F8A1BA7F09AB6B6A8E122F242DABB312F3F637A262174D31BF6B585FFAE5B7A035BF6F71C35FDAD44CFD2D74F9208BE258FF324943328F6722D9EE1003E5C50B1DF82CC6D241B0E2AE9CD348B1FD47E9267AFC1B2AE91EE51D6CB0E3179AB1042A95DCF6A9483B84B4B36B3861AA7255E4C0278BA36046511B993FFFFFFFFFFFFFFFF
def dhG : Nat := 2

/-- dh.go:isGroupElement — 2 ≤ n ≤ p − 2 -/
def isGroupElement (n : Nat) : Bool := 2 ≤ n && n ≤ dhP - 2

def Crypto.real : Crypto where
  hash1 := CryptoReal.sha1
  hash2 := CryptoReal.sha256
  mac1 := CryptoReal.hmacSha1
  mac2 := CryptoReal.hmacSha256
  ctr := CryptoReal.aesCtr
  gexp := fun b e => CryptoReal.powMod b e dhP
  modInv := CryptoReal.modInv
  dsaVerify := fun k h r s => CryptoReal.dsaVerify k.p k.q k.g k.y h r s

end Otr
