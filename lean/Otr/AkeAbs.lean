/-
  Otr.AkeAbs — abstract two-party model of the OTR authenticated key exchange (AKE) of coyim/otr3
  and an exhaustive schedule explorer (property C07).

  Cryptographic values are replaced by identifiers.  The transition rules were derived from
  `Otr/Conv.lean` (`sendDHCommit`, `recvDHCommit`, `recvDHKey`, `recvRevealSig`, `recvSig`,
  `processAKE`, `receiveQueryMessage`), which mirror auth_state_machine.go / ake.go / receive.go.

  Core Lean only (this file is linked into the executable driver).
-/

namespace Otr.AkeAbs

/-- identifiers naming DH values; party A draws 100, 101, …, party B draws 200, 201, … -/
abbrev Id := Nat

/-- ake.state (authState) -/
inductive Auth where
  | none | awaitDHKey | awaitRevealSig | awaitSig
  deriving DecidableEq, Repr, Inhabited

/-- messages on the wire -/
inductive Msg where
  /-- query message (`?OTRv…?`) -/
  | query
  /-- DH-commit: commits to (hides) the DH value `x` -/
  | commit (x : Id)
  /-- DH-key: the responder's DH value `y` -/
  | key (y : Id)
  /-- reveal-signature: reveals `x`; the signature binds (`x`, `y'`) where `y'` is the sender's view
      of the peer's DH value -/
  | reveal (x y' : Id)
  /-- signature: binds (`y`, `x'`) -/
  | sig (y x' : Id)
  deriving DecidableEq, Repr, Inhabited

/-- one party (the AKE-relevant part of `Conv`) -/
structure Party where
  /-- c.ake.state -/
  auth : Auth := .none
  /-- c.msgState = encrypted -/
  enc : Bool := false
  /-- c.lastMessageStateChange lies within the last 60 s (became encrypted during this run) -/
  encRecent : Bool := false
  /-- the (x, y) pair of the exchange that made this party encrypted (x initiator's, y responder's) -/
  session : Option (Id × Id) := none
  /-- ake.ourPublicValue / ake.secretExponent -/
  ourX : Option Id := none
  /-- ake.theirPublicValue -/
  theirPub : Option Id := none
  /-- the x committed to by the stored ake.encryptedGx / ake.xhashedGx -/
  commitFrom : Option Id := none
  /-- the reveal-signature message remembered by authStateAwaitingSig -/
  savedReveal : Option Msg := none
  /-- c.ake ≠ nil -/
  hasAke : Bool := false
  /-- ake.lastStateChange was set by processAKE (within the last 60 s) -/
  akeStamped : Bool := false
  /-- next fresh identifier -/
  nextId : Nat := 0
  deriving DecidableEq, Repr, Inhabited

/-- the two-party system with one FIFO queue per direction -/
structure Sys where
  /-- outcome of the hash comparison in a DH-commit collision: `true` = A's hash is the higher one -/
  aWins : Bool
  a : Party
  b : Party
  /-- messages in flight from A to B (head = next delivered) -/
  qAB : List Msg := []
  /-- messages in flight from B to A -/
  qBA : List Msg := []
  deriving DecidableEq, Repr, Inhabited

/-! ### party transitions -/

/-- sendDHCommit: forget the old ake, fresh x, state awaitDHKey; the new ake is not stamped -/
def startAKE (p : Party) : Party × List Msg :=
  let x := p.nextId
  ({ p with auth := .awaitDHKey, ourX := some x, theirPub := none, commitFrom := none,
            savedReveal := none, hasAke := true, akeStamped := false, nextId := x + 1 },
   [.commit x])

/-- authStateNone.receiveDHCommitMessage (`recvDHCommitNone`): the ake context is re-created with a
    fresh y, the commitment is stored, a DH-key message is sent -/
def commitFresh (p : Party) (c : Id) : Party × List Msg :=
  let y := p.nextId
  ({ p with auth := .awaitRevealSig, ourX := some y, theirPub := none, commitFrom := some c,
            savedReveal := none, nextId := y + 1 },
   [.key y])

/-- akeHasFinished (+ ake.wipe): encrypted in session `sess`, ake fields cleared, ake object kept -/
def finish (p : Party) (sess : Id × Id) : Party :=
  { p with auth := .none, enc := true, encRecent := true, session := some sess,
           ourX := none, theirPub := none, commitFrom := none, savedReveal := none }

/-- the state-machine part of processAKE (`recvDHCommit`/`recvDHKey`/`recvRevealSig`/`recvSig`).
    `weWin`: in a DH-commit collision our hash is the higher one.  `query` is not an AKE message. -/
def recvAke (weWin : Bool) (p : Party) : Msg → Party × List Msg
  | .query => (p, [])
  | .commit c =>
    match p.auth with
    | .none | .awaitSig => commitFresh p c
    | .awaitRevealSig =>
      -- store the new commitment, keep our y, send the same DH-key message again
      match p.ourX with
      | some y => ({ p with commitFrom := some c }, [.key y])
      | none => ({ p with commitFrom := some c }, [])        -- unreachable (Go: nil dereference)
    | .awaitDHKey =>
      if weWin then
        -- our hash is higher: send our DH-commit again, and move to awaitRevealSig (sic; pinned by a
        -- unit test of the Go code)
        match p.ourX with
        | some x => ({ p with auth := .awaitRevealSig }, [.commit x])
        | none => (p, [])                                    -- unreachable
      else commitFresh p c
  | .key k =>
    match p.auth with
    | .awaitDHKey =>
      -- processDHKey stores k unless a value is already stored (never the case here)
      let t := p.theirPub.getD k
      match p.ourX with
      | some x =>
        ({ p with auth := .awaitSig, theirPub := some t, savedReveal := some (.reveal x t) },
         [.reveal x t])
      | none => (p, [])                                      -- unreachable
    | .awaitSig =>
      match p.theirPub with
      | some t => if t = k then (p, p.savedReveal.toList) else (p, [])
      | none => ({ p with theirPub := some k }, [])          -- unreachable
    | _ => (p, [])
  | .reveal x k =>
    match p.auth with
    | .awaitRevealSig =>
      if p.commitFrom = some x ∧ p.ourX = some k then (finish p (x, k), [.sig k x]) else (p, [])
    | _ => (p, [])
  | .sig y x' =>
    match p.auth with
    | .awaitSig =>
      if p.theirPub = some y ∧ p.ourX = some x' then (finish p (x', y), []) else (p, [])
    | _ => (p, [])

/-- receive one message: `receiveQueryMessage` for a query, `processAKE` otherwise (which creates the
    ake object if needed and always stamps ake.lastStateChange at the end) -/
def recv (weWin : Bool) (p : Party) (m : Msg) : Party × List Msg :=
  match m with
  | .query =>
    if (p.enc && p.encRecent) || (p.hasAke && p.akeStamped) then (p, []) else startAKE p
  | m =>
    let r := recvAke weWin p m
    ({ r.1 with hasAke := true, akeStamped := true }, r.2)

/-! ### system transitions -/

/-- deliver the head of `qAB` (to B) when `ab` is true, else the head of `qBA` (to A); the emitted
    messages are appended to the opposite queue.  `none` if the chosen queue is empty. -/
def step (s : Sys) (ab : Bool) : Option Sys :=
  if ab then
    match s.qAB with
    | [] => none
    | m :: rest =>
      let r := recv (!s.aWins) s.b m
      some { s with b := r.1, qAB := rest, qBA := s.qBA ++ r.2 }
  else
    match s.qBA with
    | [] => none
    | m :: rest =>
      let r := recv s.aWins s.a m
      some { s with a := r.1, qBA := rest, qAB := s.qAB ++ r.2 }

/-- both queues empty -/
def quiescent (s : Sys) : Bool := s.qAB.isEmpty && s.qBA.isEmpty

/-- both parties have a session and it is the same one -/
def sameSession (s : Sys) : Bool := s.a.session.isSome && s.a.session == s.b.session

/-- both encrypted in one common session -/
def success (s : Sys) : Bool := s.a.enc && s.b.enc && sameSession s

/-- follow a schedule; impossible choices (empty queue) are skipped -/
def runSchedule (s : Sys) : List Bool → Sys
  | [] => s
  | b :: bs =>
    match step s b with
    | some s' => runSchedule s' bs
    | none => runSchedule s bs

/-! ### explorer -/

inductive Outcome where
  /-- every maximal schedule is finite within the fuel and ends in a success state -/
  | allGood
  /-- a schedule leading to a quiescent non-success state, and that state -/
  | bad (trace : List Bool) (final : Sys)
  | outOfFuel
  deriving DecidableEq, Repr, Inhabited

/-- outcome of the subtree below delivery choice `b`, given the outcome `o` of the successor -/
def Outcome.cons (b : Bool) : Outcome → Outcome
  | .bad tr fin => .bad (b :: tr) fin
  | o => o

/-- combine the outcomes of the two delivery choices: a counterexample wins, then outOfFuel -/
def Outcome.both : Outcome → Outcome → Outcome
  | .bad tr fin, _ => .bad tr fin
  | _, .bad tr fin => .bad tr fin
  | .outOfFuel, _ => .outOfFuel
  | _, .outOfFuel => .outOfFuel
  | .allGood, .allGood => .allGood

/-- follow ALL delivery choices from `s` until quiescence (depth ≤ `fuel`); `good` is the predicate
    required of quiescent states -/
def exploreWith (good : Sys → Bool) : Nat → Sys → Outcome
  | fuel, s =>
    if quiescent s then
      if good s then .allGood else .bad [] s
    else
      match fuel with
      | 0 => .outOfFuel
      | fuel + 1 =>
        Outcome.both
          (match step s true with
            | none => .allGood
            | some s' => (exploreWith good fuel s').cons true)
          (match step s false with
            | none => .allGood
            | some s' => (exploreWith good fuel s').cons false)

/-- the C07 explorer: quiescent states must be `success` states -/
def explore (fuel : Nat) (s : Sys) : Outcome := exploreWith success fuel s

/-- stronger goal: success, and both state machines are back in `none` (the exchange completed) -/
def settled (s : Sys) : Bool := success s && s.a.auth == .none && s.b.auth == .none

/-- both state machines wait for a reveal-signature message (that nobody will send) -/
def stuck (s : Sys) : Bool := s.a.auth == .awaitRevealSig && s.b.auth == .awaitRevealSig

/-- the DH-commit collision deadlock: both wait for a reveal-signature message, nobody encrypted -/
def deadlock (s : Sys) : Bool := stuck s && !s.a.enc && !s.b.enc

/-- statistics over the whole schedule tree: (maximal schedules ending in success, maximal schedules
    ending in a quiescent non-success state, schedules cut off by the fuel, length of the longest
    schedule seen) -/
def stats : Nat → Sys → Nat × Nat × Nat × Nat
  | fuel, s =>
    if quiescent s then
      if success s then (1, 0, 0, 0) else (0, 1, 0, 0)
    else
      match fuel with
      | 0 => (0, 0, 1, 0)
      | fuel + 1 =>
        let sub (b : Bool) : Nat × Nat × Nat × Nat :=
          match step s b with
          | none => (0, 0, 0, 0)
          | some s' => let r := stats fuel s'; (r.1, r.2.1, r.2.2.1, r.2.2.2 + 1)
        let l := sub true
        let r := sub false
        (l.1 + r.1, l.2.1 + r.2.1, l.2.2.1 + r.2.2.1, max l.2.2.2 r.2.2.2)

/-! ### presentation -/

def Auth.name : Auth → String
  | .none => "none" | .awaitDHKey => "awaitDHKey" | .awaitRevealSig => "awaitRevealSig"
  | .awaitSig => "awaitSig"

/-- one-line canonical summary `authA/authB/encA/encB/sameSession`,
    e.g. `none/none/true/true/true` or `awaitRevealSig/awaitRevealSig/false/false/false` -/
def describe (s : Sys) : String :=
  s!"{s.a.auth.name}/{s.b.auth.name}/{s.a.enc}/{s.b.enc}/{sameSession s}"

/-- schedule as a string: `>` = deliver A→B (`true`), `<` = deliver B→A (`false`) -/
def showSchedule (bs : List Bool) : String :=
  String.ofList (bs.map fun b => if b then '>' else '<')

/-! ### start patterns -/

def freshA : Party := { nextId := 100 }
def freshB : Party := { nextId := 200 }

/-- a party after an earlier, long finished exchange (session (1, 2)): encrypted, not recently;
    the ake object exists but its time stamp is old -/
def oldEnc (nextId : Nat) : Party :=
  { enc := true, encRecent := false, session := some (1, 2), hasAke := true, akeStamped := false,
    nextId := nextId }

/-- Start patterns (`aWins` = A's hash is the higher one in a DH-commit collision).

    * 1 — A alone starts: B's query is in flight to A (`qBA = [query]`).
    * 2 — B alone starts: A's query is in flight to B (`qAB = [query]`).
    * 3 — both start: two queries crossing (`query` in both queues).
    * 4 — both have already sent a DH-commit (`startAKE` on both, the commits in both queues).
    * 5 — refresh, single: both already encrypted in a common old session (`encRecent = false`),
          then as 1.
    * 6 — whitespace-tag start: A (receiver of a tagged message) has performed `startAKE`, its
          commit is in `qAB`; nothing else in flight.
    * 7 — A starts twice: two queries in flight to A (`qBA = [query, query]`).
    * 8 — refresh, both: as 5, but then as 3 (two queries crossing).
    * other — the idle system (quiescent, not encrypted). -/
def startPattern (n : Nat) (aWins : Bool) : Sys :=
  match n with
  | 1 => { aWins, a := freshA, b := freshB, qBA := [.query] }
  | 2 => { aWins, a := freshA, b := freshB, qAB := [.query] }
  | 3 => { aWins, a := freshA, b := freshB, qAB := [.query], qBA := [.query] }
  | 4 =>
    let ra := startAKE freshA
    let rb := startAKE freshB
    { aWins, a := ra.1, b := rb.1, qAB := ra.2, qBA := rb.2 }
  | 5 => { aWins, a := oldEnc 100, b := oldEnc 200, qBA := [.query] }
  | 6 =>
    let ra := startAKE freshA
    { aWins, a := ra.1, b := freshB, qAB := ra.2 }
  | 7 => { aWins, a := freshA, b := freshB, qBA := [.query, .query] }
  | 8 => { aWins, a := oldEnc 100, b := oldEnc 200, qAB := [.query], qBA := [.query] }
  | _ => { aWins, a := freshA, b := freshB }

end Otr.AkeAbs
