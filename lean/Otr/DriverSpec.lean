/-
  Otr.DriverSpec — the `spec.…` ops of the driver's line protocol: the reference implementation of
  the protocol document (`Otr.SpecRef`, built on `Otr.Spec` + `Crypto.real` only) replays the secrets
  of real sessions recorded by the harness profile `spec` (/verif/harness/spec.go) and prints what
  the document prescribes; the harness's expectation is what the library actually did (C10).

  Grammar (tokens separated by one space; <hex> is lower-case hex, "-" the empty string;
  numbers are decimal unless said otherwise):

    spec.key <i> <p> <q> <g> <y>                    declare DSA public key number i (hex magnitudes)       -> ok
    spec.fp <i>                                     fingerprint of key i                                   -> <hex>
    spec.query <v2:0|1> <v3:0|1>                    the OTR Query Message offering these versions          -> <hex>
    spec.wstag <v2> <v3> <text>                     text followed by the whitespace tag                    -> <hex>
    spec.error <text>                               OTR Error Message with this human-readable part        -> <hex>
    spec.ake <sid> <2|3> <tagB> <tagA> <x> <r> <y> <keyB> <keyA> <sigB> <sigA> <keyidB> <keyidA>
        Bob = sender of the D-H Commit.  x, r, y hex; keyB/keyA key numbers; sigB/sigA 40 bytes r‖s.
                                                    -> ok ssid=<hex> sigB=<bool> sigA=<bool> wf=<bool>
    spec.ssid <sid> <B|A>                           how that party displays the session id                 -> <left> <right> <bold index>
    spec.akemsg <sid> <commit|key|reveal|sig> <rtag> <frag>
        the message as it goes on the wire; rtag = receiver tag written in a D-H Commit (ignored for
        the others); <frag> = maximum fragment size, 0 = none; suffix "s": k and n written without leading zeros,
        suffix "x": the instance tags too ("?OTR|%x|%x,%hu,%hu,%s," to the letter)
                                                    -> [<hex>,…]
    spec.start <sid> <pidB> <pidA> <freshB> <freshA> the two parties' states when the AKE completes; fresh = the
        secret exponent of the next D-H key each generates (hex)                                           -> ok
    spec.send <pid> <flags> <plaintext> <auto|W:<hex>,…|W:-> <frag>
        party pid sends a Data Message with this plaintext (message, NUL, TLVs: must be legal) and these
        old MAC keys (auto: the reference's choice; W: the sender's choice, checked)
                                                    -> wire=[<hex>,…] ids=<sender keyid>/<recipient keyid>/<ctr>
                                                       text=<hex> tlvs=[<type>:<len>,…] notes=[…] o=<our_keyid> t=<their_keyid>
                                                     | error <reason>
    spec.recv <pid> [<hex>,…] <fresh|->             party pid receives the message (whole or all fragments in order)
                                                    -> ok flags=<n> text=<hex> tlvs=[<type>:<hex>,…] xk=<use>:<data>:<key>|-
                                                       old=<n> o=<our_keyid> t=<their_keyid> fin=<bool>   (o, t are "-" once finished)
                                                     | reject <reason>
    spec.fork <pid> <newpid>                        a second party that starts in pid's present state (it is this
        copy that sends the messages the library itself would not send, so that pid stays in step with
        the real conversation it shadows)                                                                  -> ok
    spec.extrakey <pid>                             extra symmetric key going with the next message pid sends -> <hex>
-/
import Otr.SpecRef
namespace Otr.DriverSpec
open Otr Otr.Spec Otr.SpecRef

def K : Crypto := Crypto.real

structure SState where
  keys : List (Nat × DsaPub) := []
  akes : List (String × Ake) := []
  parties : List (String × Party) := []

def SState.key (st : SState) (i : Nat) : Option DsaPub := (st.keys.find? (·.1 == i)).map (·.2)
def SState.ake (st : SState) (id : String) : Option Ake := (st.akes.find? (·.1 == id)).map (·.2)
def SState.party (st : SState) (id : String) : Option Party := (st.parties.find? (·.1 == id)).map (·.2)
def SState.putParty (st : SState) (id : String) (p : Party) : SState :=
  { st with parties := (id, p) :: st.parties.filter (·.1 != id) }

def hx (b : Bytes) : String := if b.isEmpty then "-" else toHex b
def unhx (s : String) : Option Bytes := if s = "-" then some [] else fromHex s
def hxList (bs : List Bytes) : String := "[" ++ ",".intercalate (bs.map hx) ++ "]"
def boolStr (b : Bool) : String := if b then "true" else "false"
def str (b : Bytes) : String := String.ofList (b.map fun c => Char.ofNat c.toNat)

def unhxList (s : String) : Option (List Bytes) :=
  if s.startsWith "[" && s.endsWith "]" then
    let inner := ((s.drop 1).dropEnd 1).toString
    if inner.isEmpty then some [] else (inner.splitOn ",").mapM unhx
  else none

def num (s : String) : Option Nat := s.toNat?
def hexNat (s : String) : Option Nat := (unhx s).map bytesToNat

def version (s : String) : Option Version :=
  if s = "2" then some .v2 else if s = "3" then some .v3 else none

/-- "<n>", "<n>s" (k, n without leading zeros) or "<n>x" (instance tags too) -/
def fragArg (s : String) : Option (Nat × Numerals) :=
  if s.endsWith "s" then ((s.dropEnd 1).toString.toNat?).map (·, .shortKN)
  else if s.endsWith "x" then ((s.dropEnd 1).toString.toNat?).map (·, .short)
  else s.toNat?.map (·, .canonical)

def revealArg (s : String) : Option Reveal :=
  if s = "auto" then some .auto
  else if s.startsWith "W:" then
    let r := (s.drop 2).toString
    if r = "-" then some (.witness []) else ((r.splitOn ",").mapM fromHex).map .witness
  else none

def sigArg (s : String) : Option (Nat × Nat) :=
  match fromHex s with
  | some b => if b.length = 40 then some (bytesToNat (b.take 20), bytesToNat (b.drop 20)) else none
  | none => none

def versionsString (v2 v3 : Bool) : String := (if v2 then "2" else "") ++ (if v3 then "3" else "")

/-- armour and fragment one binary message -/
def onWire (ver : Version) (sender receiver : Nat) (frag : Nat × Numerals) (bin : Bytes) : Option (List Bytes) :=
  fragments ver frag.2 sender receiver frag.1 (armor bin)

def akeMsgKind (s : String) : Option AkeMsg :=
  match s with
  | "commit" => some .commit
  | "key" => some .key
  | "reveal" => some .reveal
  | "sig" => some .sig
  | _ => none

def sendOp (st : SState) (pid : String) (flags : Nat) (plain : Bytes) (rv : Reveal) (frag : Nat × Numerals) :
    SState × String :=
  match st.party pid with
  | none => (st, "error no-party")
  | some p =>
    match p.send K flags plain rv with
    | .error e => (st, "error " ++ e)
    | .ok s =>
      match onWire p.ver p.ourTag p.theirTag frag s.binary with
      | none => (st, "error cannot-fragment")
      | some w =>
        (st.putParty pid s.party,
         s!"wire={hxList w} ids={s.senderKeyId}/{s.recipientKeyId}/{s.counter} text={hx s.text} " ++
         s!"tlvs=[{",".intercalate (s.tlvs.map fun t => s!"{t.1}:{t.2.length}")}] " ++
         s!"notes=[{",".intercalate s.notes}] o={s.party.ourKeyId} t={s.party.theirKeyId}")

def recvOp (st : SState) (pid : String) (wire : List Bytes) (fresh : Option Nat) : SState × String :=
  match st.party pid with
  | none => (st, "reject no-party")
  | some p =>
    match reassemble p.ver p.theirTag p.ourTag wire with
    | none => (st, "reject fragments")
    | some whole =>
      match unarmor whole with
      | none => (st, "reject armor")
      | some bin =>
        match p.receive K bin fresh with
        | .error e => (st, "reject " ++ e)
        | .ok r =>
          let xk := match r.extra with
            | none => "-"
            | some (u, d, k) => s!"{u}:{hx d}:{hx k}"
          let fin := r.party.finished
          let o := if fin then "-" else toString r.party.ourKeyId
          let t := if fin then "-" else toString r.party.theirKeyId
          (st.putParty pid r.party,
           s!"ok flags={r.flags} text={hx r.text} tlvs=[{",".intercalate (r.tlvs.map fun t => s!"{t.1}:{hx t.2}")}] " ++
           s!"xk={xk} old={r.revealed.length} o={o} t={t} fin={boolStr fin}")

def specOp (st : SState) (line : String) : Option (SState × String) :=
  if ¬ line.startsWith "spec." then none else
  let bad : Option (SState × String) := some (st, "bad-args")
  match line.splitOn " " with
  | ["spec.key", i, p, q, g, y] =>
    match num i, hexNat p, hexNat q, hexNat g, hexNat y with
    | some i, some p, some q, some g, some y =>
      some ({ st with keys := (i, ⟨p, q, g, y⟩) :: st.keys.filter (·.1 != i) }, "ok")
    | _, _, _, _, _ => bad
  | ["spec.fp", i] =>
    match (num i).bind st.key with
    | some k => some (st, hx (fingerprint K k))
    | none => bad
  | ["spec.query", v2, v3] =>
    some (st, hx (queryMessage false (some (versionsString (v2 == "1") (v3 == "1")))))
  | ["spec.wstag", v2, v3, text] =>
    match unhx text with
    | some t => some (st, hx (t ++ whitespaceTag (v2 == "1") (v3 == "1")))
    | none => bad
  | ["spec.error", text] =>
    match unhx text with
    | some t => some (st, hx (errorMessage t))
    | none => bad
  | ["spec.ake", sid, ver, tagB, tagA, x, r, y, kB, kA, sigB, sigA, kidB, kidA] =>
    match version ver, num tagB, num tagA, hexNat x, unhx r, hexNat y with
    | some ver, some tagB, some tagA, some x, some r, some y =>
      match (num kB).bind st.key, (num kA).bind st.key, sigArg sigB, sigArg sigA, num kidB, num kidA with
      | some pubB, some pubA, some sigB, some sigA, some keyidB, some keyidA =>
        let a := runAke K { ver, tagB, tagA, x, r, y, pubB, pubA, sigB, sigA, keyidB, keyidA }
        some ({ st with akes := (sid, a) :: st.akes.filter (·.1 != sid) },
              s!"ok ssid={hx a.keys.ssid} sigB={boolStr a.sigBValid} sigA={boolStr a.sigAValid} wf={boolStr a.wellFormed}")
      | _, _, _, _, _, _ => bad
    | _, _, _, _, _, _ => bad
  | ["spec.ssid", sid, who] =>
    match st.ake sid with
    | some a =>
      let (l, r, ix) := ssidDisplay a.keys.ssid (who == "B")
      some (st, s!"{str l} {str r} {ix}")
    | none => bad
  | ["spec.akemsg", sid, kind, rtag, frag] =>
    match st.ake sid, akeMsgKind kind, num rtag, fragArg frag with
    | some a, some kind, some rtag, some frag =>
      let (s, r) := a.tags kind rtag
      match (a.message K kind rtag).bind (onWire a.inp.ver s r frag) with
      | some w => some (st, hxList w)
      | none => some (st, "error")
    | _, _, _, _ => bad
  | ["spec.start", sid, pidB, pidA, freshB, freshA] =>
    match st.ake sid, hexNat freshB, hexNat freshA with
    | some a, some fB, some fA =>
      -- a party that was in a private conversation already carries its MAC keys to reveal over
      let carry (pid : String) (fresh : Party) : Party :=
        match st.party pid with
        | some old =>
          let o := old.ourKeyId
          let t := old.theirKeyId
          Party.carryOver old fresh (old.recvMac K o t ++ old.recvMac K o (t - 1) ++ old.recvMac K (o - 1) t ++ old.recvMac K (o - 1) (t - 1))
        | none => fresh
      some ((st.putParty pidB (carry pidB (startBob K a fB))).putParty pidA (carry pidA (startAlice K a fA)), "ok")
    | _, _, _ => bad
  | ["spec.send", pid, flags, plain, old, frag] =>
    match num flags, unhx plain, revealArg old, fragArg frag with
    | some flags, some plain, some rv, some frag => some (sendOp st pid flags plain rv frag)
    | _, _, _, _ => bad
  | ["spec.recv", pid, wire, fresh] =>
    match unhxList wire, (if fresh = "-" then some none else (hexNat fresh).map some) with
    | some wire, some fresh => some (recvOp st pid wire fresh)
    | _, _ => bad
  | ["spec.fork", pid, newPid] =>
    match st.party pid with
    | some p => some (st.putParty newPid p, "ok")
    | none => bad
  | ["spec.extrakey", pid] =>
    match (st.party pid).bind (·.extraKey K) with
    | some k => some (st, hx k)
    | none => some (st, "none")
  | _ => some (st, "bad-op")

end Otr.DriverSpec
