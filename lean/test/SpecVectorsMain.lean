/-
  Replays known-answer vectors of the Go test-suite (/repo/key_management_test.go, ake_test.go,
  fixtures_test.go, keys_test.go, smp_test.go, smp_data_test.go, fragmentation_test.go) against the
  declarative specification `Otr.Spec`, instantiated with the executable primitives `Crypto.real`.

      lake env lean --run test/SpecVectorsMain.lean

  Prints PASS/FAIL per vector; exit code 0 iff `specVectorsOK`.
-/
import Otr.Spec

open Otr

namespace SpecVectors

def hexNat (s : String) : Nat :=
  s.toList.foldl (fun acc c => acc * 16 + ((hexVal c).getD 0)) 0

/-- hex string (even length) to bytes; odd length strings get a leading 0 nibble -/
def hx (s : String) : Bytes :=
  let s := if s.length % 2 = 1 then "0" ++ s else s
  (fromHex s).getD []

def K : Crypto := Crypto.real

def secretHex : String := "b15e9eb80f16f4beabcf7ac44c06f0b69b9f890a86a11b6cc2fd29e0f7cd15d9af7c052c4c55dfce929783e339ef094eedcfcaeb9edf896b7e201d46f16ba42dbec0a9738daa37c47a598849735b8b9ac8c98578431f8c7a6a54944ec6d830cb0ffcdf31d39cb8414bd3ddae0c483daf4e80a5990f7618edf648e68935126639d1752f49b2b8a83b170f39dd7d2a2c4ab99cb28684df2c6ee1feff9d171c25059eb6920bdf4cdab2fc0aed4aafeb66a51e938db8ca80881ad219413ecf7e0257"
def aliceKeyHex : String := "000000000080c81c2cb2eb729b7e6fd48e975a932c638b3a9055478583afa46755683e30102447f6da2d8bec9f386bbb5da6403b0040fee8650b6ab2d7f32c55ab017ae9b6aec8c324ab5844784e9a80e194830d548fb7f09a0410df2c4d5c8bc2b3e9ad484e65412be689cf0834694e0839fb2954021521ffdffb8f5c32c14dbf2020b3ce7500000014da4591d58def96de61aea7b04a8405fe1609308d000000808ddd5cb0b9d66956e3dea5a915d9aba9d8a6e7053b74dadb2fc52f9fe4e5bcc487d2305485ed95fed026ad93f06ebb8c9e8baf693b7887132c7ffdd3b0f72f4002ff4ed56583ca7c54458f8c068ca3e8a4dfa309d1dd5d34e2a4b68e6f4338835e5e0fb4317c9e4c7e4806dafda3ef459cd563775a586dd91b1319f72621bf3f00000080b8147e74d8c45e6318c37731b8b33b984a795b3653c2cd1d65cc99efe097cb7eb2fa49569bab5aab6e8a1c261a27d0f7840a5e80b317e6683042b59b6dceca2879c6ffc877a465be690c15e4a42f9a7588e79b10faac11b1ce3741fcef7aba8ce05327a2c16d279ee1b3d77eb783fb10e3356caa25635331e26dd42b8396c4d00000001420bec691fea37ecea58a5c717142f0b804452f57"
def bobKeyHex : String := "000000000080a5138eb3d3eb9c1d85716faecadb718f87d31aaed1157671d7fee7e488f95e8e0ba60ad449ec732710a7dec5190f7182af2e2f98312d98497221dff160fd68033dd4f3a33b7c078d0d9f66e26847e76ca7447d4bab35486045090572863d9e4454777f24d6706f63e02548dfec2d0a620af37bbc1d24f884708a212c343b480d00000014e9c58f0ea21a5e4dfd9f44b6a9f7f6a9961a8fa9000000803c4d111aebd62d3c50c2889d420a32cdf1e98b70affcc1fcf44d59cca2eb019f6b774ef88153fb9b9615441a5fe25ea2d11b74ce922ca0232bd81b3c0fcac2a95b20cb6e6c0c5c1ace2e26f65dc43c751af0edbb10d669890e8ab6beea91410b8b2187af1a8347627a06ecea7e0f772c28aae9461301e83884860c9b656c722f0000008065af8625a555ea0e008cd04743671a3cda21162e83af045725db2eb2bb52712708dc0cc1a84c08b3649b88a966974bde27d8612c2861792ec9f08786a246fcadd6d8d3a81a32287745f309238f47618c2bd7612cb8b02d940571e0f30b96420bcd462ff542901b46109b1e5ad6423744448d20a57818a8cbb1647d0fea3b664e0000001440f9f2eb554cb00d45a5826b54bfa419b6980e48"
def fixedXHex : String := "bbcdabcdabcdabcdabcdabcdabcdabcdabcdabcdabcdabcdabcdabcdabcdabcdabcdabcdabcdabcd"
def fixedYHex : String := "abcdabcdabcdabcdabcdabcdabcdabcdabcdabcdabcdabcdabcdabcdabcdabcdabcdabcdabcdabcd"
def fixedGXHex : String := "75dfab5a1eab059052d0ad881c4938d52669630d61833a367155d67d03a457f619683d0fa829781e974fd24f6865e8128a9312a167b77326a87dea032fc31784d05b18b9cbafebe162ae9b5369f8b0c5911cf1be757f45f2a674be5126a714a6366c28086b3c7088911dcc4e5fb1481ad70a5237b8e4a6aff4954c2ca6df338b9f08691e4c0defe12689b37d4df30ddef2687f789fcf623c5d0cf6f09b7e5e69f481d5fd1b24a77636fb676e6d733d129eb93e81189340233044766a36eb07d"
def fixedGYHex : String := "2cdacabb00e63d8949aa85f7e6a095b1ee81a60779e58f8938ff1a7ed1e651d954bd739162e699cc73b820728af53aae60a46d529620792ddf839c5d03d2d4e92137a535b27500e3b3d34d59d0cd460d1f386b5eb46a7404b15c1ef84840697d2d3d2405dcdda351014d24a8717f7b9c51f6c84de365fea634737ae18ba22253a8e15249d9beb2dded640c6c0d74e4f7e19161cf828ce3ffa9d425fb68c0fddcaa7cbe81a7a5c2c595cce69a255059d9e5c04b49fb15901c087e225da850ff27"
def hashedFixedGXHex : String := "a3f2c4b9e3a7d1f565157ae7b0e71c721d59d3c79d39e5e4e8d08cb8464ff857"
def encryptedFixedGXHex : String := "5dd6a5999be73a99b80bdb78194a125f3067bd79e69c648b76a068117a8c4d0f36f275305423a933541937145d85ab4618094cbafbe4db0c0081614c1ff0f516c3dc4f352e9c92f88e4883166f12324d82240a8f32874c3d6bc35acedb8d501aa0111937a4859f33aa9b43ec342d78c3a45a5939c1e58e6b4f02725c1922f3df8754d1e1ab7648f558e9043ad118e63603b3ba2d8cbfea99a481835e42e73e6cd6019840f4470b606e168b1cd4a1f401c3dc52525d79fa6b959a80d4e11f1ec3a7984cf9"
def revealEncSigHex : String := "000001d2dda2d4ef365711c172dad92804b201fcd2fdd6444568ebf0844019fb65ca4f5f57031936f9a339e08bfd4410905ab86c5d6f73e6c94de6a207f373beff3f7676faee7b1d3be21e630fe42e95db9d4ac559252bff530481301b590e2163b99bde8aa1b07448bf7252588e317b0ba2fc52f85a72a921ba757785b949e5e682341d98800aa180aa0bd01f51180d48260e4358ffae72a97f652f02eb6ae3bc6a25a317d0ca5ed0164a992240baac8e043f848332d22c10a46d12c745dc7b1b0ee37fd14614d4b69d500b8ce562040e3a4bfdd1074e2312d3e3e4c68bd15d70166855d8141f695b21c98c6055a5edb9a233925cf492218342450b806e58b3a821e5d1d2b9c6b9cbcba263908d7190a3428ace92572c064a328f86fa5b8ad2a9c76d5b9dcaeae5327f545b973795f7c655248141c2f82db0a2045e95c1936b726d6474f50283289e92ab5c7297081a54b9e70fce87603506dedd6734bab3c1567ee483cd4bcb0e669d9d97866ca274f178841dafc2acfdcd10cb0e2d07db244ff4b1d23afe253831f142083d912a7164a3425f82c95675298cf3c5eb3e096bbc95e44ecffafbb585738723c0adbe11f16c311a6cddde630b9c304717ce5b09247d482f32709ea71ced16ba930a554f9949c1acbecf"
def revealMacHex : String := "8e6e5ef63a4e8d6aa2cfb1c5fe1831498862f69d7de32af4f9895180e4b494e6"
def sigEncSigHex : String := "000001d2b4f6ac650cc1d28f61a3b9bdf3cd60e2d1ea55d4c56e9f954eb22e10764861fb40d69917f5c4249fa701f3c04fae9449cd13a5054861f95fbc5775fc3cfd931cf5cc1a89eac82e7209b607c4fbf18df945e23bd0e91365fcc6c5dac072703dd8e2287372107f6a2cbb9139f5e82108d4cbcc1c6cdfcc772014136e756338745e2210d42c6e3ec4e9cf87fa8ebd8190e00f3a54bec86ee06cb7664059bb0fa79529e9d2e563ffecc5561477b3ba6bbf4ac679624b6da69a85822ed5c6ceb56a98740b1002026c503c39badab13b5d5ec948bbb961f0c90e68894a1fb70645a8e21ffe6b78e2e4ee62a62c48bd54e3d27c1166d098791518b53a10c409b5e55d16555b721a7750b7084e8972540bf0f1d76602e9b5fd58f94ed2dbf69fafccef84fdca2f9d800346b2358a200db060d8cf1b984a5213d02f7c27e452ad1cd893b0a668aaf6733809c31a392fc6cfc754691aca9a51582b636b92ea10abd661dd88bfd4c5f19b3ce265951728637b23fff7f7c0638721b6a01b3f1c3e923c10ea37d4e240fd973647d34dde6991cc3a04ce459c23e3ee2a858912ff78f405bbd9951935a120017904537db50f6e9e29338938f2b45ed323fc508d02fd0a0703e53ffc1889bccdec87e7c3d87e442fe29a7654d1"
def sigMacHex : String := "66b47e29be91a7cf4803d731921482fd514b4a53a9dd1639b17705c90185f91d"

def secret : Nat := hexNat secretHex
def x : Nat := hexNat fixedXHex
def y : Nat := hexNat fixedYHex
def gx : Nat := hexNat fixedGXHex
def gy : Nat := hexNat fixedGYHex
def fixedr : Bytes := hx "abcdabcdabcdabcdabcdabcdabcdabcd"

/-- the public half of a serialised DSA private key: type SHORT, then MPIs p q g y (x follows) -/
def parsePub (b : Bytes) : Option DsaPub := do
  let (p, r1) ← extractMPI (b.drop 2)
  let (q, r2) ← extractMPI r1
  let (g, r3) ← extractMPI r2
  let (yy, _) ← extractMPI r3
  pure ⟨p, q, g, yy⟩

def bobPub : DsaPub := (parsePub (hx bobKeyHex)).getD ⟨0, 0, 0, 0⟩
def alicePub : DsaPub := (parsePub (hx aliceKeyHex)).getD ⟨0, 0, 0, 0⟩

/-- Known-answer check of an encrypted signature produced by the library (`AppendData(nil, AES_c(X))`) and
    its MAC: decrypt with the spec key `c`, split off r and s, and check that
      • the plaintext is exactly the spec's X = PUBKEY ‖ INT keyid ‖ SIG(r, s),
      • (r, s) is a valid DSA signature, under `pub`, of the spec's M = HMAC-SHA256_m1(MPI own ‖ MPI peer ‖ PUBKEY ‖ INT keyid),
      • re-encrypting X gives the library's bytes back,
      • the spec's MAC'd signature is the first 20 bytes of the library's MAC. -/
def checkEncSig (c m1 m2 : Bytes) (own peer : Nat) (pub : DsaPub) (keyid : Nat)
    (encSigWithLen mac : Bytes) : Bool :=
  match extractData encSigWithLen with
  | none => false
  | some (enc, rest) =>
    rest.isEmpty &&
    (match Spec.akeEncryptX K c enc with      -- CTR decryption = encryption
     | none => false
     | some xb =>
       let pre := Spec.PUBKEY pub ++ Spec.INT keyid
       let sig := xb.drop pre.length
       let r := bytesToNat (sig.take 20)
       let s := bytesToNat (sig.drop 20)
       xb.take pre.length == pre && sig.length == 40 &&
       xb == Spec.akeX pub keyid r s &&
       K.dsaVerify pub (Spec.akeM K m1 own peer pub keyid) r s &&
       Spec.akeEncryptX K c (Spec.akeX pub keyid r s) == some enc &&
       Spec.macdSignature K m2 enc == mac.take 20 &&
       Spec.DATA enc == encSigWithLen)

def ak : Spec.AkeKeys := Spec.akeKeys K secret
def dk : Spec.DataKeys := Spec.dataKeys K gx gy (Spec.sharedSecret K gy x)

def vectors : List (String × Bool) := [
  -- ake_test.go: Test_calcDHSharedSecret
  ("sharedSecret bob   (g^y)^x", Spec.sharedSecret K gy x == secret),
  ("sharedSecret alice (g^x)^y", Spec.sharedSecret K gx y == secret),
  -- key_management_test.go: Test_calculateAKEKeys / ake_test.go: Test_calcAKEKeys
  ("akeKeys ssid", ak.ssid == hx "9cee5d2c7edbc86d"),
  ("akeKeys c", ak.c == hx "5745340b350364a02a0ac1467a318dcc"),
  ("akeKeys c'", ak.c' == hx "d942cc80b66503414c05e3752d9ba5c4"),
  ("akeKeys m1", ak.m1 == hx "d3251498fb9d977d07392a96eafb8c048d6bc67064bd7da72aa38f20f87a2e3d"),
  ("akeKeys m2", ak.m2 == hx "79c101a78a6c5819547a36b4813c84a8ac553d27a5d4b58be45dd0f3a67d3ca6"),
  ("akeKeys m1'", ak.m1' == hx "b6254b8eab0ad98152949454d23c8c9b08e4e9cf423b27edc09b1975a76eb59c"),
  ("akeKeys m2'", ak.m2' == hx "954be27015eeb0455250144d906e83e7d329c49581aea634c4189a3c981184f5"),
  -- key_management_test.go: Test_calculateDHSessionKeys (our key g^x / x, their key g^y)
  ("dataKeys sending AES", dk.sendAES == hx "42e258bebf031acf442f52d6ef52d6f1"),
  ("dataKeys sending MAC", dk.sendMAC == hx "a45e2b122f58bbe2042f73f092329ad9b5dfe23e"),
  ("dataKeys receiving AES", dk.recvAES == hx "c778c71cb63161e8e06d245e77ff6430"),
  ("dataKeys receiving MAC", dk.recvMAC == hx "03f8034b891b1e843db5bba9a41ec68a1f5f8bbf"),
  ("dataKeys extra symmetric key", dk.extraKey == hx "0e1810c7c62c3bace6450dcbef16af8a271b5ac93030b83e9d0d80e0641e3c18"),
  ("dataKeys low end (g^x < g^y)", Spec.isHighEnd gx gy == false),
  -- ake_test.go: Test_dhCommitMessage (fixtures encryptedFixedGX, hashedFixedGX)
  ("D-H Commit body", Spec.dhCommitBody K fixedr gx ==
      some (Spec.DATA (hx encryptedFixedGXHex) ++ Spec.DATA (hx hashedFixedGXHex))),
  -- ake_test.go: Test_dhKeyMessage
  ("D-H Key body", Spec.dhKeyBody gx == hx "000000c0" ++ hx fixedGXHex),
  -- ake_test.go: Test_generateRevealKeyEncryptedSignature / Test_revealSigMessage (Bob, keyid 1)
  ("Reveal Signature: X_B, M_B, sig_B, AES_c, MAC_m2",
      checkEncSig ak.c ak.m1 ak.m2 gx gy bobPub 1 (hx revealEncSigHex) (hx revealMacHex)),
  ("Reveal Signature body",
      (match extractData (hx revealEncSigHex) with
       | some (enc, _) => Spec.revealSigBody K fixedr enc ak.m2 ==
           Spec.DATA fixedr ++ hx revealEncSigHex ++ (hx revealMacHex).take 20
       | none => false)),
  -- ake_test.go: Test_generateSigKeyEncryptedSignature / Test_sigMessage (Alice, keyid 1)
  ("Signature: X_A, M_A, sig_A, AES_c', MAC_m2'",
      checkEncSig ak.c' ak.m1' ak.m2' gy gx alicePub 1 (hx sigEncSigHex) (hx sigMacHex)),
  ("Signature body",
      (match extractData (hx sigEncSigHex) with
       | some (enc, _) => Spec.signatureBody K enc ak.m2' == hx sigEncSigHex ++ (hx sigMacHex).take 20
       | none => false)),
  -- keys_test.go: Test_PublicKey_fingerprint_willGenerateACorrectFingerprint (Alice's key)
  ("fingerprint", Spec.fingerprint K alicePub == hx "0bb01c360424522e94ee9c346ce877a1a4288b2f"),
  -- smp_test.go: Test_generateSMPSecretGeneratesASecret
  ("SMP secret", Spec.smpSecret K (hx "0102030405060708090A0B0C0D0E0F1011121314")
      (hx "3132333435363738393A3B3C3D3E3F4041424344") (hx "FFF1D1E412345668")
      (strBytes "this is something secret") ==
      hexNat "D9B2E56321F9A9F8E364607C8C82DECD8E8E6209E2CB952C7E649620F5286FE3"),
  -- smp_data_test.go: fixtureMessage1 (c2 = SHA256(1, g1^r2), c3 = SHA256(2, g1^r3))
  ("SMP hash version 1 (c2 of message 1)",
      Spec.smpHash K 1 [K.gexp 2 (hexNat "CBCDABCDABCDABCDABCDABCDABCDABCD")] ==
      hexNat "d3b6ef5528fa97e983395bec165fa4ced7657bdabf3742d60880965c369c880c"),
  ("SMP hash version 2 (c3 of message 1)",
      Spec.smpHash K 2 [K.gexp 2 (hexNat "DBCDABCDABCDABCDABCDABCDABCDABCD")] ==
      hexNat "57d8cfda442854ecb01b28e631aa9165d51d1192f7f464bf17ea7f6665c05030"),
  -- fragmentation_test.go: Test_fragment_returnsFragmentsForNeededFragmentation
  ("fragment v3 text", Spec.fragmentV3 0x100 0x102 1 11 (strBytes "one ") ==
      strBytes "?OTR|00000100|00000102,00001,00011,one ,"),
  ("fragment v2 text", Spec.fragmentV2 11 11 (strBytes "e") == strBytes "?OTR,00011,00011,e,"),
  -- query_test.go / whitespace_test.go
  ("query ?OTRv23?", Spec.queryMessage false (some "23") == strBytes "?OTRv23?"),
  ("query ?OTR?v2?", Spec.queryMessage true (some "2") == strBytes "?OTR?v2?"),
  ("whitespace tag v2+v3", Spec.whitespaceTag true true ==
      strBytes " \t  \t\t\t\t \t \t \t  " ++ strBytes "  \t\t  \t " ++ strBytes "  \t\t  \t\t"),
  -- data types
  ("MPI 0 / MPI 256 / MPI 0x80", Spec.MPI 0 == [0, 0, 0, 0] && Spec.MPI 256 == [0, 0, 0, 2, 1, 0] &&
      Spec.MPI 128 == [0, 0, 0, 1, 128]),
  ("SIG 1 2", Spec.SIG 1 2 == List.replicate 19 0 ++ [1] ++ List.replicate 19 0 ++ [2]),
  -- RFC 4648 §10
  ("base64 foobar", Spec.base64 (strBytes "foobar") == strBytes "Zm9vYmFy"),
  ("base64 fooba", Spec.base64 (strBytes "fooba") == strBytes "Zm9vYmE="),
  ("base64 foob", Spec.base64 (strBytes "foob") == strBytes "Zm9vYg=="),
  ("armour of a v3 D-H Commit header starts with ?OTR:AAMC",
      (Spec.armor (Spec.header .v3 Spec.msgTypeDHCommit 0x100 0 ++ [0])).take 9 == strBytes "?OTR:AAMC")
]

def specVectorsOK : Bool := vectors.all (·.2)

end SpecVectors

def main : IO UInt32 := do
  let mut bad := 0
  for (name, ok) in SpecVectors.vectors do
    IO.println s!"{if ok then "PASS" else "FAIL"}  {name}"
    if !ok then bad := bad + 1
  IO.println s!"{SpecVectors.vectors.length - bad}/{SpecVectors.vectors.length} vectors passed; specVectorsOK = {SpecVectors.specVectorsOK}"
  return (if bad == 0 then 0 else 1)
