module govec
go 1.23
