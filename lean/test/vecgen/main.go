package main

import (
	"crypto/aes"
	"crypto/cipher"
	"crypto/dsa"
	"crypto/hmac"
	"crypto/rand"
	"crypto/sha1"
	"crypto/sha256"
	"encoding/hex"
	"fmt"
	"math/big"
	mrand "math/rand"
	"os"
)

func hx(b []byte) string {
	if len(b) == 0 {
		return "-"
	}
	return hex.EncodeToString(b)
}

func rnd(r *mrand.Rand, n int) []byte {
	b := make([]byte, n)
	r.Read(b)
	return b
}

func main() {
	// ---- DSA ----
	var params dsa.Parameters
	if err := dsa.GenerateParameters(&params, rand.Reader, dsa.L1024N160); err != nil {
		panic(err)
	}
	priv := new(dsa.PrivateKey)
	priv.Parameters = params
	if err := dsa.GenerateKey(priv, rand.Reader); err != nil {
		panic(err)
	}
	d, _ := os.Create("dsa.txt")
	emit := func(tag string, hash []byte, r, s *big.Int) {
		ok := dsa.Verify(&priv.PublicKey, hash, r, s)
		fmt.Fprintf(d, "%s hash=%s r=%s s=%s go=%v\n", tag, hx(hash), r.Text(16), s.Text(16), ok)
	}
	fmt.Fprintf(d, "p=%s\nq=%s\ng=%s\ny=%s\n", priv.P.Text(16), priv.Q.Text(16), priv.G.Text(16), priv.Y.Text(16))
	h20 := sha1.Sum([]byte("otr3 dsa test vector, 20-byte hash"))
	r, s, err := dsa.Sign(rand.Reader, priv, h20[:])
	if err != nil {
		panic(err)
	}
	emit("valid20", h20[:], r, s)
	bad := append([]byte{}, h20[:]...)
	bad[3] ^= 1
	emit("badhash20", bad, r, s)
	emit("bads20", h20[:], r, new(big.Int).Add(s, big.NewInt(1)))
	h32 := sha256.Sum256([]byte("otr3 dsa test vector, 32-byte hash (not truncated by Go)"))
	r2, s2, err := dsa.Sign(rand.Reader, priv, h32[:])
	if err != nil {
		panic(err)
	}
	emit("valid32", h32[:], r2, s2)
	bad32 := append([]byte{}, h32[:]...)
	bad32[31] ^= 0x80 // change only in the part FIPS truncation would drop
	emit("badtail32", bad32, r2, s2)
	emit("rzero", h20[:], big.NewInt(0), s)
	emit("rq", h20[:], priv.Q, s)
	emit("sq", h20[:], r, priv.Q)
	d.Close()

	// ---- random cross-check vectors ----
	rr := mrand.New(mrand.NewSource(20260923))
	f, _ := os.Create("crypto_vectors.txt")
	defer f.Close()
	for i := 0; i < 220; i++ {
		n := rr.Intn(301)
		if i < 8 {
			n = []int{0, 1, 55, 56, 63, 64, 119, 128}[i]
		}
		m := rnd(rr, n)
		a := sha1.Sum(m)
		b := sha256.Sum256(m)
		fmt.Fprintf(f, "sha %s %s %s\n", hx(m), hx(a[:]), hx(b[:]))
	}
	for i := 0; i < 220; i++ {
		kn := rr.Intn(140)
		if i < 6 {
			kn = []int{0, 1, 63, 64, 65, 130}[i]
		}
		k := rnd(rr, kn)
		m := rnd(rr, rr.Intn(301))
		h1 := hmac.New(sha1.New, k)
		h1.Write(m)
		h2 := hmac.New(sha256.New, k)
		h2.Write(m)
		fmt.Fprintf(f, "hmac %s %s %s %s\n", hx(k), hx(m), hx(h1.Sum(nil)), hx(h2.Sum(nil)))
	}
	for i := 0; i < 220; i++ {
		k := rnd(rr, 16)
		iv := rnd(rr, 16)
		switch i {
		case 0:
			for j := range iv {
				iv[j] = 0xff
			} // full wrap-around
		case 1:
			for j := 8; j < 16; j++ {
				iv[j] = 0xff
			} // carry across the 64-bit boundary
		case 2:
			iv[15] = 0xff
			iv[14] = 0xff
		}
		n := rr.Intn(301)
		if i < 6 {
			n = []int{48, 48, 48, 0, 15, 16}[i]
		}
		m := rnd(rr, n)
		blk, _ := aes.NewCipher(k)
		out := make([]byte, len(m))
		cipher.NewCTR(blk, iv).XORKeyStream(out, m)
		fmt.Fprintf(f, "ctr %s %s %s %s\n", hx(k), hx(iv), hx(m), hx(out))
		// single block ECB
		if i < 50 {
			pt := rnd(rr, 16)
			ct := make([]byte, 16)
			blk.Encrypt(ct, pt)
			fmt.Fprintf(f, "aes %s %s %s\n", hx(k), hx(pt), hx(ct))
		}
	}
}
