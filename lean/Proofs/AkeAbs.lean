/-
  Proofs.AkeAbs — soundness of the exhaustive explorer of `Otr.AkeAbs` and the C07 results on the
  abstract two-party AKE system.
-/
import Otr.AkeAbs

namespace Otr.AkeAbs

/-! ### reachability -/

/-- `Reachable s t`: `t` is reached from `s` by finitely many deliveries -/
inductive Reachable : Sys → Sys → Prop
  | refl (s : Sys) : Reachable s s
  | head {s t u : Sys} (b : Bool) : step s b = some t → Reachable t u → Reachable s u

/-- `Run s n t`: `t` is reached from `s` by exactly `n` deliveries -/
inductive Run : Sys → Nat → Sys → Prop
  | zero (s : Sys) : Run s 0 s
  | succ {s t u : Sys} {n : Nat} (b : Bool) : step s b = some t → Run t n u → Run s (n + 1) u

theorem Reachable.trans {s t u : Sys} (h₁ : Reachable s t) (h₂ : Reachable t u) : Reachable s u := by
  induction h₁ with
  | refl => exact h₂
  | head b hs _ ih => exact .head b hs (ih h₂)

theorem Reachable.tail {s t u : Sys} (b : Bool) (h₁ : Reachable s t) (h₂ : step t b = some u) :
    Reachable s u :=
  h₁.trans (.head b h₂ (.refl u))

theorem Run.reachable {s t : Sys} {n : Nat} (h : Run s n t) : Reachable s t := by
  induction h with
  | zero => exact .refl _
  | succ b hs _ ih => exact .head b hs ih

theorem Reachable.run {s t : Sys} (h : Reachable s t) : ∃ n, Run s n t := by
  induction h with
  | refl => exact ⟨0, .zero _⟩
  | head b hs _ ih => obtain ⟨n, hn⟩ := ih; exact ⟨n + 1, .succ b hs hn⟩

theorem reachable_iff_run {s t : Sys} : Reachable s t ↔ ∃ n, Run s n t :=
  ⟨Reachable.run, fun ⟨_, h⟩ => h.reachable⟩

theorem runSchedule_reachable (s : Sys) (bs : List Bool) : Reachable s (runSchedule s bs) := by
  induction bs generalizing s with
  | nil => exact .refl s
  | cons b bs ih =>
    unfold runSchedule
    cases h : step s b with
    | none => exact ih s
    | some s' => exact .head b h (ih s')

theorem runSchedule_append (s : Sys) (bs cs : List Bool) :
    runSchedule s (bs ++ cs) = runSchedule (runSchedule s bs) cs := by
  induction bs generalizing s with
  | nil => rfl
  | cons b bs ih =>
    simp only [List.cons_append, runSchedule]
    cases step s b <;> exact ih _

/-- every reachable state is the result of a schedule -/
theorem Reachable.schedule {s t : Sys} (h : Reachable s t) : ∃ bs, runSchedule s bs = t := by
  induction h with
  | refl => exact ⟨[], rfl⟩
  | head b hs _ ih =>
    obtain ⟨bs, hbs⟩ := ih
    exact ⟨b :: bs, by simp only [runSchedule, hs, hbs]⟩

/-! ### quiescence -/

theorem step_none_of_quiescent {s : Sys} (h : quiescent s = true) (b : Bool) : step s b = none := by
  simp only [quiescent, Bool.and_eq_true, List.isEmpty_iff] at h
  cases b <;> simp [step, h.1, h.2]

theorem exists_step_of_not_quiescent {s : Sys} (h : quiescent s = false) :
    ∃ b t, step s b = some t := by
  cases hq : s.qAB with
  | cons m rest =>
    cases hs : step s true with
    | some t => exact ⟨true, t, hs⟩
    | none => simp [step, hq] at hs
  | nil =>
    cases hq' : s.qBA with
    | cons m rest =>
      cases hs : step s false with
      | some t => exact ⟨false, t, hs⟩
      | none => simp [step, hq'] at hs
    | nil => simp [quiescent, hq, hq'] at h

theorem not_quiescent_of_step {s t : Sys} {b : Bool} (h : step s b = some t) : quiescent s = false := by
  cases hq : quiescent s with
  | false => rfl
  | true => rw [step_none_of_quiescent hq] at h; cases h

/-- a quiescent state has no successor, so it only reaches itself -/
theorem Reachable.eq_of_quiescent {s t : Sys} (h : Reachable s t) (hq : quiescent s = true) : t = s := by
  cases h with
  | refl => rfl
  | head b hs _ => rw [step_none_of_quiescent hq] at hs; cases hs

/-! ### unfolding the explorer -/

theorem Outcome.cons_eq_allGood {b : Bool} {o : Outcome} : o.cons b = .allGood ↔ o = .allGood := by
  cases o <;> simp [Outcome.cons]

theorem Outcome.both_eq_allGood {l r : Outcome} :
    l.both r = .allGood ↔ l = .allGood ∧ r = .allGood := by
  cases l <;> cases r <;> simp [Outcome.both]

theorem Outcome.cons_eq_bad {b : Bool} {o : Outcome} {tr : List Bool} {fin : Sys} :
    o.cons b = .bad tr fin → ∃ tr', tr = b :: tr' ∧ o = .bad tr' fin := by
  cases o <;> simp [Outcome.cons]
  intro h₁ h₂; exact ⟨_, h₁.symm, rfl, h₂⟩

theorem Outcome.both_eq_bad {l r : Outcome} {tr : List Bool} {fin : Sys} :
    l.both r = .bad tr fin → l = .bad tr fin ∨ r = .bad tr fin := by
  cases l <;> cases r <;> simp [Outcome.both] <;> intro h₁ h₂ <;> simp [h₁, h₂]

theorem exploreWith_quiescent (good : Sys → Bool) (fuel : Nat) {s : Sys} (hq : quiescent s = true) :
    exploreWith good fuel s = if good s then .allGood else .bad [] s := by
  cases fuel <;> simp [exploreWith, hq]

theorem exploreWith_zero (good : Sys → Bool) {s : Sys} (hq : quiescent s = false) :
    exploreWith good 0 s = .outOfFuel := by
  simp [exploreWith, hq]

theorem exploreWith_succ (good : Sys → Bool) (fuel : Nat) {s : Sys} (hq : quiescent s = false) :
    exploreWith good (fuel + 1) s =
      Outcome.both
        (match step s true with
          | none => .allGood
          | some s' => (exploreWith good fuel s').cons true)
        (match step s false with
          | none => .allGood
          | some s' => (exploreWith good fuel s').cons false) := by
  rw [exploreWith]; simp only [hq, Bool.false_eq_true, if_false]; rfl

/-- `.allGood` is inherited by successors (with one unit of fuel less) -/
theorem allGood_step {good : Sys → Bool} {fuel : Nat} {s t : Sys} {b : Bool}
    (h : exploreWith good fuel s = .allGood) (hs : step s b = some t) :
    ∃ f, fuel = f + 1 ∧ exploreWith good f t = .allGood := by
  have hq := not_quiescent_of_step hs
  cases fuel with
  | zero => rw [exploreWith_zero good hq] at h; cases h
  | succ f =>
    refine ⟨f, rfl, ?_⟩
    rw [exploreWith_succ good f hq, Outcome.both_eq_allGood] at h
    cases b with
    | true => have h₁ := h.1; rw [hs] at h₁; exact Outcome.cons_eq_allGood.mp h₁
    | false => have h₂ := h.2; rw [hs] at h₂; exact Outcome.cons_eq_allGood.mp h₂

theorem allGood_quiescent {good : Sys → Bool} {fuel : Nat} {s : Sys}
    (h : exploreWith good fuel s = .allGood) (hq : quiescent s = true) : good s = true := by
  rw [exploreWith_quiescent good fuel hq] at h
  cases hg : good s with
  | true => rfl
  | false => simp [hg] at h

theorem allGood_run {good : Sys → Bool} {s t : Sys} {n : Nat} (hr : Run s n t) :
    ∀ {fuel : Nat}, exploreWith good fuel s = .allGood →
      ∃ f, fuel = f + n ∧ exploreWith good f t = .allGood := by
  induction hr with
  | zero => intro fuel h; exact ⟨fuel, rfl, h⟩
  | succ b hs _ ih =>
    intro fuel h
    obtain ⟨f, hf, h'⟩ := allGood_step h hs
    obtain ⟨f', hf', h''⟩ := ih h'
    exact ⟨f', by omega, h''⟩

theorem allGood_reaches_quiescent {good : Sys → Bool} {fuel : Nat} {s : Sys}
    (h : exploreWith good fuel s = .allGood) : ∃ u, Reachable s u ∧ quiescent u = true := by
  induction fuel generalizing s with
  | zero =>
    cases hq : quiescent s with
    | true => exact ⟨s, .refl s, hq⟩
    | false => rw [exploreWith_zero good hq] at h; cases h
  | succ f ih =>
    cases hq : quiescent s with
    | true => exact ⟨s, .refl s, hq⟩
    | false =>
      obtain ⟨b, t, hs⟩ := exists_step_of_not_quiescent hq
      obtain ⟨f', hf', h'⟩ := allGood_step h hs
      have : f' = f := by omega
      subst this
      obtain ⟨u, hu, hqu⟩ := ih h'
      exact ⟨u, .head b hs hu, hqu⟩

/-! ### soundness of the explorer -/

/-- What `.allGood` means: with respect to the goal predicate `good`, from `s`
    * `safe`: every reachable quiescent state is a `good` state;
    * `progress`: every reachable state can reach quiescence;
    * `bounded`: every run has at most `fuel` deliveries (so every maximal run is finite and has length
      ≤ `fuel`; in particular there is no infinite schedule). -/
structure Live (good : Sys → Bool) (fuel : Nat) (s : Sys) : Prop where
  safe : ∀ t, Reachable s t → quiescent t = true → good t = true
  progress : ∀ t, Reachable s t → ∃ u, Reachable t u ∧ quiescent u = true
  bounded : ∀ n t, Run s n t → n ≤ fuel

theorem exploreWith_sound {good : Sys → Bool} {fuel : Nat} {s : Sys}
    (h : exploreWith good fuel s = .allGood) : Live good fuel s where
  safe t ht hq := by
    obtain ⟨n, hn⟩ := ht.run
    obtain ⟨f, _, hf⟩ := allGood_run hn h
    exact allGood_quiescent hf hq
  progress t ht := by
    obtain ⟨n, hn⟩ := ht.run
    obtain ⟨f, _, hf⟩ := allGood_run hn h
    exact allGood_reaches_quiescent hf
  bounded n t hn := by
    obtain ⟨f, hf, _⟩ := allGood_run (good := good) hn h
    omega

/-- Deliverable 1.  If the explorer answers `.allGood` then, from `s`: every reachable quiescent state
    is a success state, every reachable state can reach quiescence, and every run has length ≤ `fuel`. -/
theorem explore_sound {fuel : Nat} {s : Sys} (h : explore fuel s = .allGood) : Live success fuel s :=
  exploreWith_sound h

/-- No infinite schedule: there is no infinite sequence of states linked by deliveries. -/
theorem Live.no_infinite_run {good : Sys → Bool} {fuel : Nat} {s : Sys} (h : Live good fuel s) :
    ¬ ∃ σ : Nat → Sys, σ 0 = s ∧ ∀ i, ∃ b, step (σ i) b = some (σ (i + 1)) := by
  rintro ⟨σ, h0, hstep⟩
  have run : ∀ n i, Run (σ i) n (σ (i + n)) := by
    intro n
    induction n with
    | zero => intro i; exact .zero _
    | succ n ih =>
      intro i
      obtain ⟨b, hb⟩ := hstep i
      have := ih (i + 1)
      rw [show i + 1 + n = i + (n + 1) by omega] at this
      exact .succ b hb this
  have := h.bounded (fuel + 1) (σ (0 + (fuel + 1))) (h0 ▸ run (fuel + 1) 0)
  omega

/-- The same in terms of schedules (`runSchedule` skips impossible choices): whatever schedule is
    followed, if the result is quiescent it is a `good` state; and every schedule can be extended to one
    that ends in a quiescent (hence `good`) state. -/
theorem Live.schedules {good : Sys → Bool} {fuel : Nat} {s : Sys} (h : Live good fuel s)
    (bs : List Bool) :
    (quiescent (runSchedule s bs) = true → good (runSchedule s bs) = true) ∧
    ∃ cs, quiescent (runSchedule s (bs ++ cs)) = true ∧ good (runSchedule s (bs ++ cs)) = true := by
  refine ⟨h.safe _ (runSchedule_reachable s bs), ?_⟩
  obtain ⟨u, hu, hq⟩ := h.progress _ (runSchedule_reachable s bs)
  obtain ⟨cs, hcs⟩ := hu.schedule
  refine ⟨cs, ?_, ?_⟩ <;> rw [runSchedule_append, hcs]
  · exact hq
  · exact h.safe u ((runSchedule_reachable s bs).trans hu) hq

theorem exploreWith_bad_sound {good : Sys → Bool} {fuel : Nat} {s : Sys} {tr : List Bool} {fin : Sys}
    (h : exploreWith good fuel s = .bad tr fin) :
    runSchedule s tr = fin ∧ Run s tr.length fin ∧ quiescent fin = true ∧ good fin = false := by
  induction fuel generalizing s tr with
  | zero =>
    cases hq : quiescent s with
    | false => rw [exploreWith_zero good hq] at h; cases h
    | true =>
      rw [exploreWith_quiescent good 0 hq] at h
      cases hg : good s with
      | true => simp [hg] at h
      | false =>
        simp only [hg, Bool.false_eq_true, if_false, Outcome.bad.injEq] at h
        obtain ⟨rfl, rfl⟩ := h
        exact ⟨rfl, .zero _, hq, hg⟩
  | succ f ih =>
    cases hq : quiescent s with
    | true =>
      rw [exploreWith_quiescent good _ hq] at h
      cases hg : good s with
      | true => simp [hg] at h
      | false =>
        simp only [hg, Bool.false_eq_true, if_false, Outcome.bad.injEq] at h
        obtain ⟨rfl, rfl⟩ := h
        exact ⟨rfl, .zero _, hq, hg⟩
    | false =>
      rw [exploreWith_succ good f hq] at h
      have key : ∀ b : Bool,
          (match step s b with
            | none => Outcome.allGood
            | some s' => (exploreWith good f s').cons b) = .bad tr fin →
          runSchedule s tr = fin ∧ Run s tr.length fin ∧ quiescent fin = true ∧ good fin = false := by
        intro b hb
        cases hs : step s b with
        | none => rw [hs] at hb; cases hb
        | some s' =>
          rw [hs] at hb
          obtain ⟨tr', rfl, hb'⟩ := Outcome.cons_eq_bad hb
          obtain ⟨h₁, h₂, h₃, h₄⟩ := ih hb'
          exact ⟨by simp only [runSchedule, hs, h₁], .succ b hs h₂, h₃, h₄⟩
      rcases Outcome.both_eq_bad h with h | h
      · exact key true h
      · exact key false h

/-- Deliverable 2.  A `.bad` answer carries a genuine counterexample: the schedule `tr` (in which no
    choice is skipped: it is a run of `tr.length` deliveries) leads from `s` to `fin`, which is
    quiescent and not a success state. -/
theorem explore_bad_sound {fuel : Nat} {s : Sys} {tr : List Bool} {fin : Sys}
    (h : explore fuel s = .bad tr fin) :
    runSchedule s tr = fin ∧ Run s tr.length fin ∧ quiescent fin = true ∧ success fin = false :=
  exploreWith_bad_sound h

/-! ### evaluation on the start patterns

  Fuel 12 suffices everywhere (the longest schedule has 9 deliveries).  Schedules are written with
  `>` = deliver A→B (`true`) and `<` = deliver B→A (`false`).

  Results of `explore 12 (startPattern n aWins)` (same for both values of `aWins` unless noted), with
  the number of maximal schedules (good / bad) and the longest one:

  | n | pattern                       | outcome  | good / bad | longest |
  |---|-------------------------------|----------|-----------:|--------:|
  | 1 | A alone starts (query to A)   | allGood  |  1 / 0     | 5       |
  | 2 | B alone starts (query to B)   | allGood  |  1 / 0     | 5       |
  | 3 | two queries crossing          | bad      |  0 / 8     | 7       |
  | 4 | two DH-commits crossing       | bad      |  0 / 4     | 5       |
  | 5 | refresh, A alone              | allGood  |  1 / 0     | 5       |
  | 6 | whitespace tag (commit A→B)   | allGood  |  1 / 0     | 4       |
  | 7 | A starts twice                | allGood  | 16 / 0     | 9       |
  | 8 | refresh, two queries crossing | allGood* |  8 / 0     | 7       |

  In patterns 3 and 4 EVERY schedule ends in the deadlock `awaitRevealSig/awaitRevealSig/false/false/
  false` (`c07_collision_always_deadlocks`).  Witness schedules found by the explorer:
    pattern 3, aWins = true :  ><><><<   [true, false, true, false, true, false, false]
    pattern 3, aWins = false:  ><><><>   [true, false, true, false, true, false, true]
    pattern 4, aWins = true :  ><><<     [true, false, true, false, false]
    pattern 4, aWins = false:  ><><>     [true, false, true, false, true]

  (*) Pattern 8 is `.allGood` only by the letter of the success predicate: the same collision happens
  and both state machines end stuck in `awaitRevealSig` on every schedule, but both parties are still
  encrypted in the OLD common session (1, 2), which `success` accepts.  With the stronger goal `settled`
  the explorer reports the deadlock (`c07_refresh_collision_stuck`).
-/

/-- the fuel used for all evaluations -/
abbrev N : Nat := 12

theorem c07_single_start_live : ∀ aWins, explore N (startPattern 1 aWins) = .allGood := by
  decide +kernel

theorem c07_single_start_live_B : ∀ aWins, explore N (startPattern 2 aWins) = .allGood := by
  decide +kernel

theorem c07_refresh_single_live : ∀ aWins, explore N (startPattern 5 aWins) = .allGood := by
  decide +kernel

theorem c07_whitespace_start_live : ∀ aWins, explore N (startPattern 6 aWins) = .allGood := by
  decide +kernel

theorem c07_double_start_live : ∀ aWins, explore N (startPattern 7 aWins) = .allGood := by
  decide +kernel

/-- by the letter of `success` only: see `c07_refresh_collision_stuck` -/
theorem c07_refresh_both_live : ∀ aWins, explore N (startPattern 8 aWins) = .allGood := by
  decide +kernel

/-- in all these patterns the exchange also really completes (both state machines back in `none`) -/
theorem c07_live_settled :
    ∀ n ∈ [1, 2, 5, 6, 7], ∀ aWins, exploreWith settled N (startPattern n aWins) = .allGood := by
  decide +kernel

/-- the explorer's answers on the collision patterns -/
theorem c07_collision_outcomes :
    explore N (startPattern 4 true) =
      .bad [true, false, true, false, false] (runSchedule (startPattern 4 true) [true, false, true, false, false]) ∧
    explore N (startPattern 4 false) =
      .bad [true, false, true, false, true] (runSchedule (startPattern 4 false) [true, false, true, false, true]) ∧
    explore N (startPattern 3 true) =
      .bad [true, false, true, false, true, false, false]
        (runSchedule (startPattern 3 true) [true, false, true, false, true, false, false]) ∧
    explore N (startPattern 3 false) =
      .bad [true, false, true, false, true, false, true]
        (runSchedule (startPattern 3 false) [true, false, true, false, true, false, true]) := by
  decide +kernel

/-- The DH-commit collision deadlock (patterns 4 and 3, both values of `aWins`): a schedule leading to
    a quiescent state in which both parties wait for a reveal-signature message and nobody is encrypted.
    Witnesses: pattern 4: `><><<` (aWins) / `><><>` (¬aWins); pattern 3: `><><><<` / `><><><>`. -/
theorem c07_collision_deadlock :
    ∀ n ∈ [3, 4], ∀ aWins, ∃ tr,
      let fin := runSchedule (startPattern n aWins) tr
      Run (startPattern n aWins) tr.length fin ∧ quiescent fin = true ∧ success fin = false ∧
      fin.a.auth = .awaitRevealSig ∧ fin.b.auth = .awaitRevealSig ∧
      fin.a.enc = false ∧ fin.b.enc = false := by
  have h := c07_collision_outcomes
  have fields : ∀ s : Sys, deadlock s = true →
      s.a.auth = .awaitRevealSig ∧ s.b.auth = .awaitRevealSig ∧ s.a.enc = false ∧ s.b.enc = false := by
    intro s hs
    simpa [deadlock, stuck, and_assoc] using hs
  intro n hn aWins
  simp only [List.mem_cons, List.mem_nil_iff, or_false] at hn
  rcases hn with rfl | rfl <;> cases aWins
  · obtain ⟨h₁, h₂, h₃, h₄⟩ := explore_bad_sound h.2.2.2
    exact ⟨_, h₁ ▸ h₂, h₃, h₄, fields _ (by decide +kernel)⟩
  · obtain ⟨h₁, h₂, h₃, h₄⟩ := explore_bad_sound h.2.2.1
    exact ⟨_, h₁ ▸ h₂, h₃, h₄, fields _ (by decide +kernel)⟩
  · obtain ⟨h₁, h₂, h₃, h₄⟩ := explore_bad_sound h.2.1
    exact ⟨_, h₁ ▸ h₂, h₃, h₄, fields _ (by decide +kernel)⟩
  · obtain ⟨h₁, h₂, h₃, h₄⟩ := explore_bad_sound h.1
    exact ⟨_, h₁ ▸ h₂, h₃, h₄, fields _ (by decide +kernel)⟩

/-- Stronger than `c07_collision_deadlock`: once both sides have a DH-commit (or a query) in flight,
    EVERY schedule terminates (within 7 deliveries) in the deadlock. -/
theorem c07_collision_always_deadlocks :
    ∀ n ∈ [3, 4], ∀ aWins, Live deadlock N (startPattern n aWins) := by
  have h : ∀ n ∈ [3, 4], ∀ aWins, exploreWith deadlock N (startPattern n aWins) = .allGood := by
    decide +kernel
  intro n hn aWins
  exact exploreWith_sound (h n hn aWins)

/-- Refresh with two queries crossing (pattern 8): every schedule ends with both state machines stuck in
    `awaitRevealSig`, both parties still encrypted in the old session (1, 2); the new exchange never
    completes. -/
theorem c07_refresh_collision_stuck :
    ∀ aWins,
      Live (fun s => stuck s && s.a.session == some (1, 2) && s.b.session == some (1, 2))
        N (startPattern 8 aWins) ∧
      ∃ tr fin, exploreWith settled N (startPattern 8 aWins) = .bad tr fin := by
  have h : ∀ aWins,
      exploreWith (fun s => stuck s && s.a.session == some (1, 2) && s.b.session == some (1, 2))
        N (startPattern 8 aWins) = .allGood := by
    decide +kernel
  have h' : ∀ aWins, ∃ tr,
      exploreWith settled N (startPattern 8 aWins) = .bad tr (runSchedule (startPattern 8 aWins) tr) := by
    intro aWins
    cases aWins
    · exact ⟨[true, false, true, false, true, false, true], by decide +kernel⟩
    · exact ⟨[true, false, true, false, true, false, false], by decide +kernel⟩
  intro aWins
  obtain ⟨tr, htr⟩ := h' aWins
  exact ⟨exploreWith_sound (h aWins), tr, _, htr⟩

/-! ### final statements -/

/-- the start patterns for which C07 holds on the abstract system -/
def livePatterns : List Nat := [1, 2, 5, 6, 7, 8]

/-- C07 on the abstract system, for the live patterns (a single initiator, possibly starting twice, or
    a refresh): from the start state, every reachable quiescent state has both parties encrypted in one
    common session, every reachable state can reach quiescence, and no run has more than `N = 12`
    deliveries (so every schedule terminates).  For pattern 8 see the caveat at
    `c07_refresh_collision_stuck`. -/
theorem c07_partial : ∀ n ∈ livePatterns, ∀ aWins, Live success N (startPattern n aWins) := by
  have h : ∀ n ∈ livePatterns, ∀ aWins, explore N (startPattern n aWins) = .allGood := by
    decide +kernel
  intro n hn aWins
  exact explore_sound (h n hn aWins)

/-- `c07_partial` spelled out -/
theorem c07_partial' (n : Nat) (hn : n ∈ livePatterns) (aWins : Bool) :
    (∀ t, Reachable (startPattern n aWins) t → quiescent t = true →
      t.a.enc = true ∧ t.b.enc = true ∧ t.a.session = t.b.session ∧ t.a.session ≠ none) ∧
    (∀ t, Reachable (startPattern n aWins) t → ∃ u, Reachable t u ∧ quiescent u = true) ∧
    (∀ k t, Run (startPattern n aWins) k t → k ≤ N) ∧
    (¬ ∃ σ : Nat → Sys, σ 0 = startPattern n aWins ∧ ∀ i, ∃ b, step (σ i) b = some (σ (i + 1))) := by
  have h := c07_partial n hn aWins
  refine ⟨?_, h.progress, h.bounded, h.no_infinite_run⟩
  intro t ht hq
  have hs := h.safe t ht hq
  simp only [success, sameSession, Bool.and_eq_true, beq_iff_eq] at hs
  obtain ⟨⟨h₁, h₂⟩, h₃, h₄⟩ := hs
  refine ⟨h₁, h₂, h₄, ?_⟩
  intro hnone
  rw [hnone] at h₃
  cases h₃

/-- The full property C07 is false on the abstract system: it is not the case that for every start
    pattern every reachable quiescent state is a success state (DH-commit collision, patterns 3, 4). -/
theorem c07_full_false :
    ¬ ∀ n aWins t, Reachable (startPattern n aWins) t → quiescent t = true → success t = true := by
  intro h
  obtain ⟨tr, _, hq, hs, _⟩ := c07_collision_deadlock 4 (by decide) true
  have := h 4 true _ (runSchedule_reachable _ tr) hq
  rw [hs] at this
  cases this

/-- …and not only for some schedule: when both DH-commits are in flight no schedule at all leads to a
    success state. -/
theorem c07_collision_never_succeeds :
    ∀ n ∈ [3, 4], ∀ aWins t, Reachable (startPattern n aWins) t → quiescent t = true →
      success t = false := by
  intro n hn aWins t ht hq
  have hd := (c07_collision_always_deadlocks n hn aWins).safe t ht hq
  simp only [deadlock, Bool.and_eq_true, Bool.not_eq_true'] at hd
  simp [success, hd.1.2]

end Otr.AkeAbs
