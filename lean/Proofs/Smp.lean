/-
  Proofs.Smp — the Socialist Millionaires' Protocol arithmetic of `Otr.Smp` (properties C11, C12).

  Everything is stated for an arbitrary `K : Crypto` under `K.ArithOK` (gexp is exponentiation mod p,
  modInv is the modular inverse; nothing is assumed about the hash).  `Crypto.real_arithOK` shows the
  executable instance satisfies it.  Group facts:
    * `two_pow_dhQ : 2 ^ dhQ % dhP = 1`      PROVED (kernel evaluation of `powMod`, then `powMod_eq`)
    * `dhP_odd`, `dhP_eq : dhP = 2*dhQ+1`     PROVED (`decide`)
    * `Nat.Prime dhP`, `Nat.Prime dhQ`        HYPOTHESES `hp`, `hqp`, used only by `c11_unequal_fail`
                                              (both) and the C12 no-panic theorems (`hp` only).

  Main results
    zkp_complete, zkp2_complete, zkp4_complete          honest proofs verify (bases = powers of g)
    zkp2_complete_subgroup, zkp4_complete_subgroup      same for arbitrary bases h with h^q ≡ 1 (mod p)
    isExponent_iff, isExponent_subModQ_iff              the range check 1 ≤ d < q of the repaired code; an
                                                        honest d = r - a·c mod q is always < q
    smp_honest_run                                      core: an honest run with secrets x (initiator),
                                                        y (responder): no panic, explicit discrete logs
                                                        of the 10 transmitted elements, the 10 transmitted
                                                        proof exponents are < q, all verifications pass
                                                        PROVIDED these exponents are nonzero, both success
                                                        tests decide g^(Mx) = g^(My), M = a2·b2·a3·b3
    c11_equal_success (_v2, _v3)                        x = y (+ transmitted proof exponents ≠ 0, which
                                                        excludes a probability-2^-1535 event in which the
                                                        library, like libotr, rejects an honest message)
                                                        ⇒ success on both sides
    c12_exponent_out_of_range_rejected_1..4             a received exponent outside [1, q) ⇒ smpNVerify
    c12_exponent_plus_q_rejected_1..4, _zero_           returns false (message 3: `.ok false`, no panic);
    smpNVerify_exponents                                in particular d ↦ d + q and d = 0
    c11_unequal_fail                                    x ≠ y (+ hp, hqp, exponents ≠ 0 mod q) ⇒ failure
                                                        on both sides
    divModP_spec, divModP_panic_iff                     what divModP computes / when it panics
    smp3Gen_no_panic, smp2Gen_pb_qb_ne_zero,
    smp3_no_panic_of_state, c12_no_panic_responder      C12: no panic on verified input (needs hp)
    group_facts_of_arithOK                              the arithmetic hypotheses of `ConvData.GroupOK`
    c12_success_guard3, c12_success_guard4              success test ⇒ Ra^b3·Pb ≡ Pa, Rb^a3 = Pa/Pb
    c12_success_event_guard                             `processSMPTLV` emits the success event only
                                                        after smp3Verify ∧ smp3Success (resp. smp4…)

  Not proved here
    * primality of dhP and dhQ (kept as hypotheses).
    * `c11_equal_success_v3` needs the side condition that no transmitted element is 1 or p−1
      (e.g. r4 ≡ r4' mod q gives Qa/Qb = 1, Ra = 1, which the OTRv3 range check rejects); the last
      `example` shows the side condition is satisfiable.
    * soundness / zero-knowledge of the proofs, and anything about the hash function.
-/
import Otr.Smp
import Otr.Conv
import Otr.CryptoReal.NumLemmas
import Mathlib.Data.ZMod.Basic
import Mathlib.Algebra.Field.ZMod
import Mathlib.Data.Nat.ModEq
import Mathlib.Tactic.Ring
import Mathlib.Tactic.LinearCombination
import Mathlib.GroupTheory.OrderOfElement

namespace Otr

/-! ## Hypotheses on the arithmetic fields of `K : Crypto` -/

structure Crypto.ArithOK (K : Crypto) : Prop where
  gexp_eq : ∀ b e, K.gexp b e = b ^ e % dhP
  modInv_some : ∀ a x, K.modInv a dhP = some x → x < dhP ∧ a * x % dhP = 1 % dhP
  modInv_none : ∀ a, K.modInv a dhP = none ↔ Nat.gcd a dhP ≠ 1

theorem dhP_ne_zero : dhP ≠ 0 := by decide
theorem dhP_odd : dhP % 2 = 1 := by decide
theorem dhP_eq : dhP = 2 * dhQ + 1 := by decide
theorem dhQ_pos : 0 < dhQ := by decide
theorem one_lt_dhP : 1 < dhP := by decide
theorem two_lt_dhP : 2 < dhP := by decide
theorem sixteen_lt_dhP : 16 < dhP := by decide

theorem Crypto.real_modInv : Crypto.real.modInv = CryptoReal.modInv := rfl
theorem Crypto.real_gexp : Crypto.real.gexp = fun b e => CryptoReal.powMod b e dhP := rfl

theorem Crypto.real_arithOK : Crypto.real.ArithOK := by
  refine ⟨?_, ?_, ?_⟩
  · intro b e
    rw [Crypto.real_gexp]
    exact CryptoReal.powMod_eq b e dhP
  · intro a x h
    rw [Crypto.real_modInv] at h
    have h' := CryptoReal.modInv_eq_some h
    exact ⟨h'.1, h'.2.1⟩
  · intro a
    rw [Crypto.real_modInv, CryptoReal.modInv_eq_none_iff]
    constructor
    · rintro (h | h)
      · exact absurd h dhP_ne_zero
      · exact h
    · exact Or.inr

theorem powMod_two_dhQ : CryptoReal.powMod 2 dhQ dhP = 1 := by decide +kernel
theorem pow_of_powMod {b e m r : Nat} (h : CryptoReal.powMod b e m = r) : b ^ e % m = r := by
  rw [← CryptoReal.powMod_eq]; exact h
/-- the generator 2 has order dividing q (`hq1`) -/
theorem two_pow_dhQ : 2 ^ dhQ % dhP = 1 := pow_of_powMod powMod_two_dhQ

attribute [local irreducible] dhP dhQ

theorem one_mod_dhP : 1 % dhP = 1 := Nat.mod_eq_of_lt one_lt_dhP

theorem coprime_two_dhP : Nat.Coprime 2 dhP :=
  (Nat.coprime_two_left).mpr (Nat.odd_iff.mpr dhP_odd)

theorem coprime_two_pow_mod (k : Nat) : Nat.Coprime (2 ^ k % dhP) dhP := by
  have h : Nat.Coprime (2 ^ k) dhP := Nat.Coprime.pow_left k coprime_two_dhP
  unfold Nat.Coprime at h ⊢
  rw [← Nat.gcd_rec, Nat.gcd_comm]
  exact h


/-! ## Exponent arithmetic modulo q -/

theorem two_pow_congr {a b : Nat} (h : a ≡ b [MOD dhQ]) : 2 ^ a % dhP = 2 ^ b % dhP := by
  have key : ∀ n : Nat, 2 ^ n % dhP = 2 ^ (n % dhQ) % dhP := by
    intro n
    have h1 : (2 ^ dhQ) ^ (n / dhQ) ≡ 1 [MOD dhP] := by
      have : 2 ^ dhQ ≡ 1 [MOD dhP] := by
        unfold Nat.ModEq; rw [two_pow_dhQ, one_mod_dhP]
      simpa using this.pow (n / dhQ)
    have h2 : 2 ^ n = 2 ^ (n % dhQ) * (2 ^ dhQ) ^ (n / dhQ) := by
      rw [← pow_mul, ← pow_add, Nat.mod_add_div]
    rw [h2]
    have := (Nat.ModEq.refl (2 ^ (n % dhQ))).mul h1 (n := dhP)
    simpa [Nat.ModEq] using this
  rw [key a, key b, h]

/-- Euclidean subtraction mod q really subtracts mod q -/
theorem subModQ_add (r s : Nat) : subModQ r s + s ≡ r [MOD dhQ] := by
  have hq : (dhQ : Int) ≠ 0 := by exact_mod_cast dhQ_pos.ne'
  unfold subModQ
  apply Int.natCast_inj.mp
  push_cast
  rw [Int.toNat_of_nonneg (Int.emod_nonneg _ hq), Int.emod_add_emod]
  congr 1; ring

theorem subModQ_lt (r s : Nat) : subModQ r s < dhQ := by
  have hq : (0 : Int) < (dhQ : Int) := by exact_mod_cast dhQ_pos
  unfold subModQ
  have := Int.emod_lt_of_pos ((r : Int) - s) hq
  have h0 := Int.emod_nonneg ((r : Int) - s) hq.ne'
  omega

/-! ## The exponent range check `isExponent` (1 ≤ d < q) of the repaired code -/

theorem isExponent_iff (d : Nat) : isExponent d = true ↔ 1 ≤ d ∧ d < dhQ := by
  unfold isExponent
  rw [Bool.and_eq_true, decide_eq_true_iff, decide_eq_true_iff]

theorem isExponent_eq_false_iff (d : Nat) : isExponent d = false ↔ d = 0 ∨ dhQ ≤ d := by
  rw [← Bool.not_eq_true, isExponent_iff]
  omega

theorem isExponent_zero : isExponent 0 = false :=
  (isExponent_eq_false_iff 0).mpr (Or.inl rfl)

/-- every representative `d + q`, `d + 2q`, … of an exponent is rejected -/
theorem isExponent_add_dhQ (d : Nat) : isExponent (d + dhQ) = false :=
  (isExponent_eq_false_iff _).mpr (Or.inr (Nat.le_add_left _ _))

/-- An honestly computed proof exponent `d = r - a·c mod q` is always `< q`, so it passes the range
check exactly when it is nonzero. -/
theorem isExponent_subModQ_iff (r s : Nat) : isExponent (subModQ r s) = true ↔ 1 ≤ subModQ r s := by
  rw [isExponent_iff]
  exact ⟨fun h => h.1, fun h => ⟨h, subModQ_lt r s⟩⟩

theorem isExponent_subModQ {r s : Nat} (h : 1 ≤ subModQ r s) : isExponent (subModQ r s) = true :=
  (isExponent_subModQ_iff r s).mpr h

/-- an exponent representing `a - b` modulo q -/
def subQ (a b : Nat) : Nat := a + (dhQ - b % dhQ)

theorem subQ_add (a b : Nat) : subQ a b + b ≡ a [MOD dhQ] := by
  unfold subQ
  have hb : b % dhQ < dhQ := Nat.mod_lt _ dhQ_pos
  have h1 : a + (dhQ - b % dhQ) + b = a + dhQ * (1 + b / dhQ) := by
    have := Nat.mod_add_div b dhQ
    rw [Nat.mul_add, Nat.mul_one]
    omega
  rw [h1]
  simp [Nat.ModEq]

/-! ## Normal forms of honest group elements: everything is `gexp1 K e` -/

section Arith
variable {K : Crypto} (A : K.ArithOK)
include A

theorem gexp_lt (b e : Nat) : K.gexp b e < dhP := by
  rw [A.gexp_eq]; exact Nat.mod_lt _ (Nat.pos_of_ne_zero dhP_ne_zero)

theorem gexp1_eq (e : Nat) : gexp1 K e = 2 ^ e % dhP := by
  unfold gexp1 dhG; rw [A.gexp_eq]

theorem gexp1_lt (e : Nat) : gexp1 K e < dhP := gexp_lt A _ _

theorem gexp1_congr {a b : Nat} (h : a ≡ b [MOD dhQ]) : gexp1 K a = gexp1 K b := by
  rw [gexp1_eq A, gexp1_eq A]; exact two_pow_congr h

theorem gexp_gexp1 (a b : Nat) : K.gexp (gexp1 K a) b = gexp1 K (a * b) := by
  rw [gexp1_eq A, gexp1_eq A, A.gexp_eq, ← Nat.pow_mod, pow_mul]

theorem mulModP_gexp1 (a b : Nat) : mulModP (gexp1 K a) (gexp1 K b) = gexp1 K (a + b) := by
  unfold mulModP
  rw [gexp1_eq A, gexp1_eq A, gexp1_eq A, ← Nat.mul_mod, pow_add]

theorem mul3_gexp1 (a b c : Nat) :
    gexp1 K a * gexp1 K b * gexp1 K c % dhP = gexp1 K (a + b + c) := by
  have h1 : gexp1 K a * gexp1 K b % dhP = gexp1 K (a + b) := mulModP_gexp1 A a b
  rw [← Nat.mod_mul_mod, h1]
  exact mulModP_gexp1 A (a + b) c

theorem coprime_gexp1 (e : Nat) : Nat.Coprime (gexp1 K e) dhP := by
  rw [gexp1_eq A]; exact coprime_two_pow_mod e

theorem gexp1_mod_ne_zero (e : Nat) : gexp1 K e % dhP ≠ 0 := by
  intro h
  rw [Nat.mod_eq_of_lt (gexp1_lt A e)] at h
  have := coprime_gexp1 A e
  rw [h, Nat.Coprime, Nat.gcd_zero_left] at this
  exact absurd this one_lt_dhP.ne'

/-- `divModP` on honest values: never panics, and divides the exponents. -/
theorem divModP_gexp1 (a b c : Nat) (h : c + b ≡ a [MOD dhQ]) :
    divModP K (gexp1 K a) (gexp1 K b) = .ok (gexp1 K c) := by
  unfold divModP
  cases hi : K.modInv (gexp1 K b) dhP with
  | none => exact absurd (coprime_gexp1 A b) ((A.modInv_none _).mp hi)
  | some inv =>
    obtain ⟨_, hinv⟩ := A.modInv_some _ _ hi
    rw [one_mod_dhP] at hinv
    show Res.ok _ = Res.ok _
    congr 1
    have e1 : gexp1 K a = gexp1 K c * gexp1 K b % dhP := by
      rw [← mulModP, mulModP_gexp1 A]; exact gexp1_congr A h.symm
    have h1 : gexp1 K a * inv ≡ gexp1 K c * (gexp1 K b * inv) [MOD dhP] := by
      rw [e1, ← mul_assoc]
      exact (Nat.mod_modEq _ _).mul_right _
    have h2 : gexp1 K c * (gexp1 K b * inv) ≡ gexp1 K c * 1 [MOD dhP] := by
      apply Nat.ModEq.mul_left
      unfold Nat.ModEq; rw [hinv, one_mod_dhP]
    have h3 := h1.trans h2
    rw [mul_one] at h3
    unfold Nat.ModEq at h3
    rw [h3]; exact Nat.mod_eq_of_lt (gexp1_lt A c)

theorem divModP_gexp1_subQ (a b : Nat) :
    divModP K (gexp1 K a) (gexp1 K b) = .ok (gexp1 K (subQ a b)) :=
  divModP_gexp1 A a b _ (subQ_add a b)


theorem gexp1_congr' {a b : Nat} (h : (a : ZMod dhQ) = b) : gexp1 K a = gexp1 K b :=
  gexp1_congr A ((ZMod.natCast_eq_natCast_iff a b dhQ).mp h)

omit A in
theorem cast_subModQ (r s : Nat) : ((subModQ r s : Nat) : ZMod dhQ) = (r : ZMod dhQ) - s := by
  have := (ZMod.natCast_eq_natCast_iff _ _ dhQ).mpr (subModQ_add r s)
  push_cast at this
  linear_combination this

omit A in
theorem cast_subQ (a b : Nat) : ((subQ a b : Nat) : ZMod dhQ) = (a : ZMod dhQ) - b := by
  have := (ZMod.natCast_eq_natCast_iff _ _ dhQ).mpr (subQ_add a b)
  push_cast at this
  linear_combination this

theorem hash2_congr (ix : Nat) {e1 e1' e2 e2' : Nat}
    (h1 : (e1 : ZMod dhQ) = e1') (h2 : (e2 : ZMod dhQ) = e2') :
    hashMPIsBN K ix [gexp1 K e1, gexp1 K e2] = hashMPIsBN K ix [gexp1 K e1', gexp1 K e2'] := by
  rw [gexp1_congr' A h1, gexp1_congr' A h2]

/-! ## C11 part 1: completeness of the zero-knowledge proofs -/

/-- An honestly generated Schnorr proof (generateZKP) verifies. -/
theorem zkp_complete (r a ix : Nat) :
    verifyZKP K (generateZKP K r a ix).2 (gexp1 K a) (generateZKP K r a ix).1 ix = true := by
  unfold verifyZKP generateZKP
  simp only [gexp_gexp1 A, mulModP_gexp1 A]
  rw [beq_iff_eq]
  congr 2
  exact (gexp1_congr A (subModQ_add r _)).symm

theorem zkp2_complete_aux (e2 e3 r4 r5 r6 y ix cp : Nat)
    (hcp : cp = hashMPIsBN K ix
      [K.gexp (gexp1 K e3) r5, mulModP (gexp1 K r5) (K.gexp (gexp1 K e2) r6)]) :
    verifyZKP2 K (gexp1 K e2) (gexp1 K e3) (subModQ r5 (r4 * cp)) (subModQ r6 (y * cp))
      (K.gexp (gexp1 K e3) r4) (mulModP (gexp1 K r4) (K.gexp (gexp1 K e2) y)) cp ix = true := by
  unfold verifyZKP2
  simp only [gexp_gexp1 A, mulModP_gexp1 A, mul3_gexp1 A] at hcp ⊢
  rw [beq_iff_eq]
  refine hcp.trans (hash2_congr A ix ?_ ?_) <;>
  · push_cast [cast_subModQ]
    ring

theorem zkp4_complete_aux (a e r7 ix cr : Nat)
    (hcr : cr = hashMPIsBN K ix [gexp1 K r7, K.gexp (gexp1 K e) r7]) :
    verifyZKP4 K cr (gexp1 K a) (subModQ r7 (a * cr)) (gexp1 K e) (K.gexp (gexp1 K e) a) ix
      = true := by
  unfold verifyZKP4
  simp only [gexp_gexp1 A, mulModP_gexp1 A] at hcr ⊢
  rw [beq_iff_eq]
  refine hcr.trans (hash2_congr A ix ?_ ?_) <;>
  · push_cast [cast_subModQ]
    ring


/-- Completeness of the composite proof of messages 2 and 3 (`verifyZKP2` = Go's verifyZKP2/verifyZKP3)
for generators `g2 = g^e2`, `g3 = g^e3`: the `(cp, d5, d6)` computed by `smp2Gen`/`smp3Gen` verify
against the `P = g3^r4`, `Q = g^r4·g2^y` computed alongside. -/
theorem zkp2_complete (e2 e3 r4 r5 r6 y ix : Nat) :
    let g2 := gexp1 K e2
    let g3 := gexp1 K e3
    let cp := hashMPIsBN K ix [K.gexp g3 r5, mulModP (gexp1 K r5) (K.gexp g2 r6)]
    verifyZKP2 K g2 g3 (subModQ r5 (r4 * cp)) (subModQ r6 (y * cp))
      (K.gexp g3 r4) (mulModP (gexp1 K r4) (K.gexp g2 y)) cp ix = true :=
  zkp2_complete_aux A e2 e3 r4 r5 r6 y ix _ rfl

/-- Completeness of the equality-of-discrete-logs proof of messages 3 and 4 (`verifyZKP4`) for a
base `Qa/Qb = g^e`: the `(cr, d7)` computed by `smp3Gen`/`smp4Gen` verify against `g^a` and
`R = (Qa/Qb)^a`. -/
theorem zkp4_complete (a e r7 ix : Nat) :
    let cr := hashMPIsBN K ix [gexp1 K r7, K.gexp (gexp1 K e) r7]
    verifyZKP4 K cr (gexp1 K a) (subModQ r7 (a * cr)) (gexp1 K e) (K.gexp (gexp1 K e) a) ix
      = true :=
  zkp4_complete_aux A a e r7 ix _ rfl

theorem hash1_congr (ix : Nat) {e1 e1' : Nat} (h1 : (e1 : ZMod dhQ) = e1') :
    hashMPIsBN K ix [gexp1 K e1] = hashMPIsBN K ix [gexp1 K e1'] := by
  rw [gexp1_congr' A h1]

/-- multiplying both sides by the same power of g -/
theorem gexp1_add_congr (c : Nat) {a b a' b' : Nat}
    (ha : (a : ZMod dhQ) + c = a') (hb : (b : ZMod dhQ) + c = b')
    (h : gexp1 K a = gexp1 K b) : gexp1 K a' = gexp1 K b' := by
  have ha' : gexp1 K a' = gexp1 K (a + c) := gexp1_congr' A (by push_cast; exact ha.symm)
  have hb' : gexp1 K b' = gexp1 K (b + c) := gexp1_congr' A (by push_cast; exact hb.symm)
  rw [ha', hb', ← mulModP_gexp1 A, ← mulModP_gexp1 A, h]

/-- cancellation: equality of powers of g is invariant under a common shift of the exponents -/
theorem gexp1_eq_iff_shift (c : Nat) {a b a' b' : Nat}
    (ha : (a : ZMod dhQ) + c = a') (hb : (b : ZMod dhQ) + c = b') :
    gexp1 K a = gexp1 K b ↔ gexp1 K a' = gexp1 K b' := by
  refine ⟨gexp1_add_congr A c ha hb, gexp1_add_congr A (subQ 0 c) ?_ ?_⟩
  · rw [cast_subQ, ← ha]; push_cast; ring
  · rw [cast_subQ, ← hb]; push_cast; ring

end Arith

/-! ## Decision structure of the message-3 verification (no arithmetic) -/

theorem smp3Verify_ok_true_iff (K : Crypto) (isGE : Nat → Bool) (s2 : Smp2State) (m : Smp3Msg) :
    smp3Verify K isGE s2 m = .ok true ↔
      (isGE m.pa && isGE m.qa && isGE m.ra) = true ∧
      (isExponent m.d5 && isExponent m.d6 && isExponent m.d7) = true ∧
      verifyZKP2 K s2.g2 s2.g3 m.d5 m.d6 m.pa m.qa m.cp 6 = true ∧
      ∃ qaqb, divModP K m.qa s2.qb = .ok qaqb ∧
        verifyZKP4 K m.cr s2.g3a m.d7 qaqb m.ra 7 = true := by
  unfold smp3Verify
  cases h1 : (isGE m.pa && isGE m.qa && isGE m.ra) <;>
  cases he : (isExponent m.d5 && isExponent m.d6 && isExponent m.d7) <;>
  cases h2 : verifyZKP2 K s2.g2 s2.g3 m.d5 m.d6 m.pa m.qa m.cp 6 <;>
  cases h3 : divModP K m.qa s2.qb <;> simp

/-- the group elements that go over the wire in a complete SMP run -/
def smpTransmitted (s1 : Smp1State) (s2 : Smp2State) (s3 : Smp3State) (m4 : Smp4Msg) : List Nat :=
  [s1.msg.g2a, s1.msg.g3a, s2.msg.g2b, s2.msg.g3b, s2.msg.pb, s2.msg.qb,
   s3.msg.pa, s3.msg.qa, s3.msg.ra, m4.rb]

/-- the zero-knowledge-proof exponents that go over the wire in a complete SMP run (the values the
receiver range-checks with `isExponent`): message 1 d2, d3; message 2 d2, d3, d5, d6; message 3 d5,
d6, d7; message 4 d7 -/
def smpExponents (s1 : Smp1State) (s2 : Smp2State) (s3 : Smp3State) (m4 : Smp4Msg) : List Nat :=
  [s1.msg.d2, s1.msg.d3, s2.msg.d2, s2.msg.d3, s2.msg.d5, s2.msg.d6,
   s3.msg.d5, s3.msg.d6, s3.msg.d7, m4.d7]

/-- discrete logarithms (base g = 2, modulo q) of the transmitted group elements of an honest run:
g2a, g3a, g2b, g3b, Pb, Qb, Pa, Qa, Ra, Rb -/
def smpTransmittedExps (x y a2 a3 b2 b3 r4 r4' : Nat) : List Nat :=
  [a2, a3, b2, b3, a3 * b3 * r4, r4 + a2 * b2 * y, a3 * b3 * r4', r4' + a2 * b2 * x,
   subQ (r4' + a2 * b2 * x) (r4 + a2 * b2 * y) * a3,
   subQ (r4' + a2 * b2 * x) (r4 + a2 * b2 * y) * b3]

section Run
variable {K : Crypto} (A : K.ArithOK)
include A

/-- Core statement about an honest run in which the initiator uses secret `x` and the responder `y`:
nothing panics, every transmitted group element is a power of the generator, every transmitted proof
exponent is `< q`, every verification passes as soon as the group-membership predicate accepts the
transmitted elements and the ten transmitted proof exponents are nonzero, and each side's success
test decides `g^(a2·b2·a3·b3·x) = g^(a2·b2·a3·b3·y)`.

The hypothesis `∀ d ∈ smpExponents …, 1 ≤ d` is needed since the repaired code range-checks the
received exponents (`isExponent`, 1 ≤ d < q): an honest `d = r - a·c mod q` is uniformly distributed
in [0, q) and equals 0 with probability 1/q ≈ 2^-1535 per exponent; in that event the library (like
libotr) rejects an honest message.  The hypothesis excludes exactly this event. -/
theorem smp_honest_run (isGE : Nat → Bool)
    (x y a2 a3 r2 r3 b2 b3 r2' r3' r4 r5 r6 r4' r5' r6' r7 r7' : Nat) :
    let s1 := smp1Gen K a2 a3 r2 r3
    let s2 := smp2Gen K y s1.msg b2 b3 r2' r3' r4 r5 r6
    ∃ s3 m4, smp3Gen K x s1 s2.msg r4' r5' r6' r7 = .ok s3 ∧
      smp4Gen K s2 s3.msg r7' = .ok m4 ∧
      smpTransmitted s1 s2 s3 m4 = (smpTransmittedExps x y a2 a3 b2 b3 r4 r4').map (gexp1 K) ∧
      (∀ d ∈ smpExponents s1 s2 s3 m4, d < dhQ) ∧
      ((∀ n ∈ smpTransmitted s1 s2 s3 m4, isGE n = true) →
        (∀ d ∈ smpExponents s1 s2 s3 m4, 1 ≤ d) →
        smp1Verify K isGE s1.msg = true ∧ smp2Verify K isGE s1 s2.msg = true ∧
        smp3Verify K isGE s2 s3.msg = .ok true ∧ smp4Verify K isGE s3 m4 = true) ∧
      smp3Success K s2 s3.msg
        = .ok (decide (gexp1 K (a2 * b2 * a3 * b3 * x) = gexp1 K (a2 * b2 * a3 * b3 * y))) ∧
      smp4Success K s1 s3 m4
        = decide (gexp1 K (a2 * b2 * a3 * b3 * x) = gexp1 K (a2 * b2 * a3 * b3 * y)) := by
  intro s1 s2
  refine ⟨?s3, ?m4, ?g3, ?g4, ?pow, ?lt, ?ver, ?suc3, ?suc4⟩
  case g3 =>
    simp only [s1, s2, smp1Gen, smp2Gen, smp3Gen, generateZKP, gexp_gexp1 A, mulModP_gexp1 A,
      divModP_gexp1_subQ A, Res.bind_ok, Res.pure_eq]
    rfl
  case g4 =>
    simp only [s1, s2, smp1Gen, smp2Gen, smp4Gen, generateZKP, gexp_gexp1 A, mulModP_gexp1 A,
      divModP_gexp1_subQ A, Res.bind_ok, Res.pure_eq]
    rfl
  case pow =>
    simp only [s1, s2, smpTransmitted, smpTransmittedExps, smp1Gen, smp2Gen, generateZKP,
      gexp_gexp1 A, mulModP_gexp1 A, List.map, List.cons.injEq, and_true]
    split_ands <;> first
      | trivial
      | (apply gexp1_congr' A; push_cast [cast_subModQ, cast_subQ]; ring)
  case lt =>
    simp only [s1, s2, smpExponents, smp1Gen, smp2Gen, generateZKP, List.mem_cons,
      forall_eq_or_imp, List.not_mem_nil, false_imp_iff, implies_true, and_true]
    split_ands <;> exact subModQ_lt _ _
  case ver =>
    intro hT hE
    simp only [s1, s2, smpTransmitted, smp1Gen, smp2Gen, generateZKP, gexp_gexp1 A,
      mulModP_gexp1 A, List.mem_cons, forall_eq_or_imp, List.not_mem_nil, false_imp_iff,
      implies_true, and_true] at hT
    obtain ⟨h1, h2, h3, h4, h5, h6, h7, h8, h9, h10⟩ := hT
    simp only [s1, s2, smpExponents, smp1Gen, smp2Gen, generateZKP, gexp_gexp1 A,
      mulModP_gexp1 A, List.mem_cons, forall_eq_or_imp,
      List.not_mem_nil, false_imp_iff, implies_true, and_true] at hE
    obtain ⟨e1, e2, e3, e4, e5, e6, e7, e8, e9, e10⟩ := hE
    replace e1 := isExponent_subModQ e1
    replace e2 := isExponent_subModQ e2
    replace e3 := isExponent_subModQ e3
    replace e4 := isExponent_subModQ e4
    replace e5 := isExponent_subModQ e5
    replace e6 := isExponent_subModQ e6
    replace e7 := isExponent_subModQ e7
    replace e8 := isExponent_subModQ e8
    replace e9 := isExponent_subModQ e9
    replace e10 := isExponent_subModQ e10
    rw [smp3Verify_ok_true_iff]
    simp only [s1, s2, smp1Gen, smp2Gen, generateZKP, smp1Verify, smp2Verify,
      smp4Verify, verifyZKP, verifyZKP2, verifyZKP4,
      gexp_gexp1 A, mulModP_gexp1 A, mul3_gexp1 A, divModP_gexp1_subQ A,
      h1, h2, h3, h4, h5, h6, h7, h8, h9, h10, e1, e2, e3, e4, e5, e6, e7, e8, e9, e10,
      Bool.and_true, Bool.true_and, Bool.and_eq_true,
      beq_iff_eq, Res.ok.injEq, exists_eq_left', true_and]
    refine ⟨⟨?_, ?_⟩, ⟨⟨?_, ?_⟩, ?_⟩, ⟨?_, ?_⟩, ?_⟩
    all_goals first
      | (apply hash1_congr A; push_cast [cast_subModQ, cast_subQ]; ring)
      | (apply hash2_congr A <;> (push_cast [cast_subModQ, cast_subQ]; ring))
  case suc3 =>
    simp only [s1, s2, smp1Gen, smp2Gen, generateZKP, smp3Success, gexp_gexp1 A, mulModP_gexp1 A,
      divModP_gexp1_subQ A, Res.bind_ok, Res.pure_eq]
    congr 1
    rw [Bool.eq_iff_iff, beq_iff_eq, decide_eq_true_iff]
    apply gexp1_eq_iff_shift A
      (subQ (r4 * a3 * b3 + a2 * b2 * a3 * b3 * y) (r4' * a3 * b3)) <;>
    · push_cast [cast_subModQ, cast_subQ]; ring
  case suc4 =>
    simp only [s1, smp1Gen, generateZKP, smp4Success, gexp_gexp1 A]
    rw [Bool.eq_iff_iff, beq_iff_eq, decide_eq_true_iff]
    apply gexp1_eq_iff_shift A
      (subQ (r4 * a3 * b3 + a2 * b2 * a3 * b3 * y) (r4' * a3 * b3)) <;>
    · push_cast [cast_subModQ, cast_subQ]; ring


/-- The OTRv2 group-membership predicate of the repaired code (`smpIsGroupElement`, version 2). -/
def isGEv2 : Nat → Bool := fun n => n % dhP != 0

theorem isGEv2_gexp1 (e : Nat) : isGEv2 (gexp1 K e) = true := by
  unfold isGEv2
  rw [bne_iff_ne]
  exact gexp1_mod_ne_zero A e

/-- For a power of the generator the OTRv3 range check only excludes the values 1 and p-1. -/
theorem isGroupElement_gexp1_iff (e : Nat) :
    isGroupElement (gexp1 K e) = true ↔ gexp1 K e ≠ 1 ∧ gexp1 K e ≠ dhP - 1 := by
  have h0 : gexp1 K e ≠ 0 := by
    have := gexp1_mod_ne_zero A e
    rwa [Nat.mod_eq_of_lt (gexp1_lt A e)] at this
  have hlt := gexp1_lt A e
  unfold isGroupElement
  rw [Bool.and_eq_true, decide_eq_true_iff, decide_eq_true_iff]
  omega

/-- **C11, equal secrets.**  An honest complete run in which both sides use the same secret `x`
never panics and, as soon as the group-membership predicate `isGE` accepts the ten transmitted group
elements and the ten transmitted proof exponents (`smpExponents`, each automatically `< q`) are
nonzero, passes every verification and reports success on both sides.  The exponent hypothesis
excludes an event of probability ≈ 10·2^-1535 (an honest `d = r - a·c mod q` equal to 0), in which
the library (like libotr) rejects an honest message because of the range check 1 ≤ d < q. -/
theorem c11_equal_success (isGE : Nat → Bool)
    (x a2 a3 r2 r3 b2 b3 r2' r3' r4 r5 r6 r4' r5' r6' r7 r7' : Nat) :
    let s1 := smp1Gen K a2 a3 r2 r3
    let s2 := smp2Gen K x s1.msg b2 b3 r2' r3' r4 r5 r6
    ∃ s3 m4, smp3Gen K x s1 s2.msg r4' r5' r6' r7 = .ok s3 ∧
      smp4Gen K s2 s3.msg r7' = .ok m4 ∧
      ((∀ n ∈ smpTransmitted s1 s2 s3 m4, isGE n = true) →
        (∀ d ∈ smpExponents s1 s2 s3 m4, 1 ≤ d) →
        smp1Verify K isGE s1.msg = true ∧ smp2Verify K isGE s1 s2.msg = true ∧
        smp3Verify K isGE s2 s3.msg = .ok true ∧ smp3Success K s2 s3.msg = .ok true ∧
        smp4Verify K isGE s3 m4 = true ∧ smp4Success K s1 s3 m4 = true) := by
  intro s1 s2
  obtain ⟨s3, m4, h3, h4, _, _, hv, hs3, hs4⟩ :=
    smp_honest_run A isGE x x a2 a3 r2 r3 b2 b3 r2' r3' r4 r5 r6 r4' r5' r6' r7 r7'
  refine ⟨s3, m4, h3, h4, fun hT hE => ?_⟩
  obtain ⟨v1, v2, v3, v4⟩ := hv hT hE
  refine ⟨v1, v2, v3, ?_, v4, ?_⟩
  · rw [hs3, decide_eq_true rfl]
  · rw [hs4, decide_eq_true rfl]

/-- C11, equal secrets, OTRv2 predicate (`n % p ≠ 0`): no condition on the group elements; the only
hypothesis is that the ten transmitted proof exponents are nonzero (see `c11_equal_success`: this
excludes the probability-2^-1535 event in which the range check rejects an honest message). -/
theorem c11_equal_success_v2
    (x a2 a3 r2 r3 b2 b3 r2' r3' r4 r5 r6 r4' r5' r6' r7 r7' : Nat) :
    let s1 := smp1Gen K a2 a3 r2 r3
    let s2 := smp2Gen K x s1.msg b2 b3 r2' r3' r4 r5 r6
    ∃ s3 m4, smp3Gen K x s1 s2.msg r4' r5' r6' r7 = .ok s3 ∧
      smp4Gen K s2 s3.msg r7' = .ok m4 ∧
      ((∀ d ∈ smpExponents s1 s2 s3 m4, 1 ≤ d) →
        smp1Verify K isGEv2 s1.msg = true ∧ smp2Verify K isGEv2 s1 s2.msg = true ∧
        smp3Verify K isGEv2 s2 s3.msg = .ok true ∧ smp3Success K s2 s3.msg = .ok true ∧
        smp4Verify K isGEv2 s3 m4 = true ∧ smp4Success K s1 s3 m4 = true) := by
  intro s1 s2
  obtain ⟨s3, m4, h3, h4, hpow, _, hv, hs3, hs4⟩ :=
    smp_honest_run A isGEv2 x x a2 a3 r2 r3 b2 b3 r2' r3' r4 r5 r6 r4' r5' r6' r7 r7'
  have hT : ∀ n ∈ smpTransmitted s1 s2 s3 m4, isGEv2 n = true := by
    intro n hn
    rw [hpow, List.mem_map] at hn
    obtain ⟨e, _, rfl⟩ := hn
    exact isGEv2_gexp1 A e
  refine ⟨s3, m4, h3, h4, fun hE => ?_⟩
  obtain ⟨v1, v2, v3, v4⟩ := hv hT hE
  refine ⟨v1, v2, v3, ?_, v4, ?_⟩
  · rw [hs3, decide_eq_true rfl]
  · rw [hs4, decide_eq_true rfl]

/-- C11, equal secrets, OTRv3 predicate `isGroupElement` (2 ≤ n ≤ p-2): holds whenever none of the
ten transmitted group elements is 1 or p-1 (they are powers of 2 mod p, so never 0 and always < p)
and none of the ten transmitted proof exponents is 0 (see `c11_equal_success`; both side conditions
exclude events of probability ≈ 2^-1535 in which the library, like libotr, rejects an honest
message). -/
theorem c11_equal_success_v3
    (x a2 a3 r2 r3 b2 b3 r2' r3' r4 r5 r6 r4' r5' r6' r7 r7' : Nat) :
    let s1 := smp1Gen K a2 a3 r2 r3
    let s2 := smp2Gen K x s1.msg b2 b3 r2' r3' r4 r5 r6
    ∃ s3 m4, smp3Gen K x s1 s2.msg r4' r5' r6' r7 = .ok s3 ∧
      smp4Gen K s2 s3.msg r7' = .ok m4 ∧
      ((∀ n ∈ smpTransmitted s1 s2 s3 m4, n ≠ 1 ∧ n ≠ dhP - 1) →
        (∀ d ∈ smpExponents s1 s2 s3 m4, 1 ≤ d) →
        smp1Verify K isGroupElement s1.msg = true ∧ smp2Verify K isGroupElement s1 s2.msg = true ∧
        smp3Verify K isGroupElement s2 s3.msg = .ok true ∧ smp3Success K s2 s3.msg = .ok true ∧
        smp4Verify K isGroupElement s3 m4 = true ∧ smp4Success K s1 s3 m4 = true) := by
  intro s1 s2
  obtain ⟨s3, m4, h3, h4, hpow, _, hv, hs3, hs4⟩ :=
    smp_honest_run A isGroupElement x x a2 a3 r2 r3 b2 b3 r2' r3' r4 r5 r6 r4' r5' r6' r7 r7'
  refine ⟨s3, m4, h3, h4, fun hR hE => ?_⟩
  have hT : ∀ n ∈ smpTransmitted s1 s2 s3 m4, isGroupElement n = true := by
    intro n hn
    have hn' := hn
    rw [hpow, List.mem_map] at hn'
    obtain ⟨e, _, rfl⟩ := hn'
    exact (isGroupElement_gexp1_iff A e).mpr (hR _ hn)
  obtain ⟨v1, v2, v3, v4⟩ := hv hT hE
  refine ⟨v1, v2, v3, ?_, v4, ?_⟩
  · rw [hs3, decide_eq_true rfl]
  · rw [hs4, decide_eq_true rfl]

/-! ## C11, unequal secrets (needs that p and q are prime) -/

omit A in
/-- 2 has order exactly q in (ℤ/p)ˣ -/
theorem two_pow_inj_mod (hp : Nat.Prime dhP) (hqp : Nat.Prime dhQ) {a b : Nat}
    (h : 2 ^ a % dhP = 2 ^ b % dhP) : a ≡ b [MOD dhQ] := by
  have : Fact (Nat.Prime dhP) := ⟨hp⟩
  have h2 : (2 : ZMod dhP) ≠ 0 := by
    have : ((2 : ℕ) : ZMod dhP) ≠ 0 := by
      rw [Ne, ZMod.natCast_eq_zero_iff]
      intro hd
      exact absurd (Nat.le_of_dvd (by norm_num) hd) (by have := two_lt_dhP; omega)
    simpa using this
  let u : (ZMod dhP)ˣ := Units.mk0 (2 : ZMod dhP) h2
  have hu : ∀ n : ℕ, ((u ^ n : (ZMod dhP)ˣ) : ZMod dhP) = ((2 ^ n % dhP : ℕ) : ZMod dhP) := by
    intro n
    rw [ZMod.natCast_mod]; push_cast; rfl
  have huq : u ^ dhQ = 1 := by
    apply Units.ext
    rw [hu, two_pow_dhQ]; simp
  have hord : orderOf u = dhQ := by
    rcases (Nat.dvd_prime hqp).mp (orderOf_dvd_of_pow_eq_one huq) with h1 | h1
    · exfalso
      rw [orderOf_eq_one_iff] at h1
      have h21 : (2 : ZMod dhP) = 1 := by
        have := congrArg (fun v : (ZMod dhP)ˣ => (v : ZMod dhP)) h1
        simpa [u] using this
      have h10 : ((1 : ℕ) : ZMod dhP) = 0 := by
        push_cast
        linear_combination h21
      rw [ZMod.natCast_eq_zero_iff] at h10
      exact absurd (Nat.le_of_dvd (by norm_num) h10) (by have := one_lt_dhP; omega)
    · exact h1
  have : u ^ a = u ^ b := by
    apply Units.ext
    rw [hu, hu, h]
  rw [pow_eq_pow_iff_modEq, hord] at this
  exact this

theorem gexp1_inj_mod (hp : Nat.Prime dhP) (hqp : Nat.Prime dhQ) {a b : Nat}
    (h : gexp1 K a = gexp1 K b) : a ≡ b [MOD dhQ] := by
  rw [gexp1_eq A, gexp1_eq A] at h
  exact two_pow_inj_mod hp hqp h

/-- **C11, unequal secrets.**  If p and q are prime, the honest exponents a2, a3, b2, b3 are nonzero
mod q and the two secrets are different residues, then the run still completes without panic but the
responder's test (`verifySMP3ProtocolSuccess`) and the initiator's test (`verifySMP4ProtocolSuccess`)
both report failure. -/
theorem c11_unequal_fail (hp : Nat.Prime dhP) (hqp : Nat.Prime dhQ)
    (x y a2 a3 r2 r3 b2 b3 r2' r3' r4 r5 r6 r4' r5' r6' r7 r7' : Nat)
    (hx : x < dhQ) (hy : y < dhQ) (hxy : x ≠ y)
    (ha2 : a2 % dhQ ≠ 0) (ha3 : a3 % dhQ ≠ 0) (hb2 : b2 % dhQ ≠ 0) (hb3 : b3 % dhQ ≠ 0) :
    let s1 := smp1Gen K a2 a3 r2 r3
    let s2 := smp2Gen K y s1.msg b2 b3 r2' r3' r4 r5 r6
    ∃ s3 m4, smp3Gen K x s1 s2.msg r4' r5' r6' r7 = .ok s3 ∧
      smp4Gen K s2 s3.msg r7' = .ok m4 ∧
      smp3Success K s2 s3.msg = .ok false ∧ smp4Success K s1 s3 m4 = false := by
  intro s1 s2
  obtain ⟨s3, m4, h3, h4, _, _, _, hs3, hs4⟩ :=
    smp_honest_run A (fun _ => true) x y a2 a3 r2 r3 b2 b3 r2' r3' r4 r5 r6 r4' r5' r6' r7 r7'
  have hne : ¬ gexp1 K (a2 * b2 * a3 * b3 * x) = gexp1 K (a2 * b2 * a3 * b3 * y) := by
    intro h
    have hm := gexp1_inj_mod A hp hqp h
    have : Fact (Nat.Prime dhQ) := ⟨hqp⟩
    rw [← ZMod.natCast_eq_natCast_iff] at hm
    push_cast at hm
    have nz : ∀ n : ℕ, n % dhQ ≠ 0 → (n : ZMod dhQ) ≠ 0 := by
      intro n hn h0
      rw [ZMod.natCast_eq_zero_iff] at h0
      exact hn (Nat.mod_eq_zero_of_dvd h0)
    have hM : (a2 : ZMod dhQ) * b2 * a3 * b3 ≠ 0 :=
      mul_ne_zero (mul_ne_zero (mul_ne_zero (nz _ ha2) (nz _ hb2)) (nz _ ha3)) (nz _ hb3)
    have hxy' : (x : ZMod dhQ) = y := mul_left_cancel₀ hM hm
    rw [ZMod.natCast_eq_natCast_iff', Nat.mod_eq_of_lt hx, Nat.mod_eq_of_lt hy] at hxy'
    exact hxy hxy'
  refine ⟨s3, m4, h3, h4, ?_, ?_⟩
  · rw [hs3, decide_eq_false hne]
  · rw [hs4, decide_eq_false hne]

end Run

/-! ## C12: no panic on verified input, and the success guard -/

section NoPanic
variable {K : Crypto} (A : K.ArithOK)
include A

/-- What `divModP` returns: the unique residue `v` with `v · r ≡ l (mod p)`. -/
theorem divModP_spec {l r v : Nat} (h : divModP K l r = .ok v) :
    v < dhP ∧ v * r % dhP = l % dhP := by
  unfold divModP at h
  cases hi : K.modInv r dhP with
  | none => rw [hi] at h; cases h
  | some inv =>
    rw [hi] at h
    obtain ⟨_, hinv⟩ := A.modInv_some _ _ hi
    injection h with h
    subst h
    refine ⟨Nat.mod_lt _ (Nat.pos_of_ne_zero dhP_ne_zero), ?_⟩
    have h1 : l * inv % dhP * r ≡ l * inv * r [MOD dhP] := (Nat.mod_modEq _ _).mul_right _
    have h2 : l * inv * r = l * (r * inv) := by ring
    have h3 : l * (r * inv) ≡ l * 1 [MOD dhP] := by
      apply Nat.ModEq.mul_left
      exact hinv
    rw [h2] at h1
    have := h1.trans h3
    rw [mul_one] at this
    exact this

theorem divModP_ok_of_coprime (l : Nat) {r : Nat} (h : Nat.Coprime r dhP) :
    ∃ v, divModP K l r = .ok v := by
  unfold divModP
  cases hi : K.modInv r dhP with
  | none => exact absurd h ((A.modInv_none _).mp hi)
  | some inv => exact ⟨_, rfl⟩

/-- `divModP` panics exactly on divisors that are not coprime to p. -/
theorem divModP_panic_iff (l r : Nat) :
    (∃ s, divModP K l r = .panic s) ↔ Nat.gcd r dhP ≠ 1 := by
  unfold divModP
  cases hi : K.modInv r dhP with
  | none => simpa using (A.modInv_none _).mp hi
  | some inv =>
    have : ¬ Nat.gcd r dhP ≠ 1 := fun hc => by
      have := (A.modInv_none r).mpr hc
      rw [hi] at this; cases this
    simpa using this

omit A in
theorem coprime_of_mod_ne_zero (hp : Nat.Prime dhP) {n : Nat} (h : n % dhP ≠ 0) :
    Nat.Coprime n dhP := by
  rw [Nat.coprime_comm, Nat.Prime.coprime_iff_not_dvd hp]
  intro hd
  exact h (Nat.mod_eq_zero_of_dvd hd)

theorem divModP_ok_of_ne_zero (hp : Nat.Prime dhP) (l : Nat) {r : Nat} (h : r % dhP ≠ 0) :
    ∃ v, divModP K l r = .ok v :=
  divModP_ok_of_coprime A l (coprime_of_mod_ne_zero hp h)

theorem gexp_mod_ne_zero (hp : Nat.Prime dhP) {b : Nat} (h : b % dhP ≠ 0) (e : Nat) :
    K.gexp b e % dhP ≠ 0 := by
  rw [A.gexp_eq, Nat.mod_mod]
  intro h0
  exact h (Nat.mod_eq_zero_of_dvd (hp.dvd_of_dvd_pow (Nat.dvd_of_mod_eq_zero h0)))

omit A in
theorem mulModP_mod_ne_zero (hp : Nat.Prime dhP) {a b : Nat} (ha : a % dhP ≠ 0)
    (hb : b % dhP ≠ 0) : mulModP a b % dhP ≠ 0 := by
  unfold mulModP
  rw [Nat.mod_mod]
  intro h0
  rcases (hp.dvd_mul).mp (Nat.dvd_of_mod_eq_zero h0) with h | h
  · exact ha (Nat.mod_eq_zero_of_dvd h)
  · exact hb (Nat.mod_eq_zero_of_dvd h)

/-- The four arithmetic facts that the conversation-level no-panic proof (`ConvData.GroupOK`) assumes,
derived from `ArithOK` and the primality of p. -/
theorem group_facts_of_arithOK (hp : Nat.Prime dhP) :
    (∀ a, a % dhP ≠ 0 → K.modInv a dhP ≠ none) ∧
    (∀ b e, b % dhP ≠ 0 → K.gexp b e % dhP ≠ 0) ∧
    (∀ a b, a % dhP ≠ 0 → b % dhP ≠ 0 → a * b % dhP ≠ 0) ∧
    dhG % dhP ≠ 0 := by
  refine ⟨fun a ha hn => ?_, fun b e hb => gexp_mod_ne_zero A hp hb e, fun a b ha hb => ?_, ?_⟩
  · exact (A.modInv_none a).mp hn (coprime_of_mod_ne_zero hp ha)
  · have := mulModP_mod_ne_zero hp ha hb
    unfold mulModP at this
    rwa [Nat.mod_mod] at this
  · unfold dhG
    rw [Nat.mod_eq_of_lt two_lt_dhP]
    decide

omit A in
/-- both concrete group-membership predicates exclude multiples of p -/
theorem isGEv2_mod_ne_zero (n : Nat) (h : isGEv2 n = true) : n % dhP ≠ 0 := by
  unfold isGEv2 at h; rwa [bne_iff_ne] at h

omit A in
theorem isGroupElement_mod_ne_zero (n : Nat) (h : isGroupElement n = true) : n % dhP ≠ 0 := by
  unfold isGroupElement at h
  rw [Bool.and_eq_true, decide_eq_true_iff, decide_eq_true_iff] at h
  have := two_lt_dhP
  rw [Nat.mod_eq_of_lt (by omega)]
  omega

/-- message 3 generation: no panic once message 2 passed verification under a predicate that
excludes multiples of p -/
theorem smp3Gen_no_panic (hp : Nat.Prime dhP) (isGE : Nat → Bool)
    (hGE : ∀ n, isGE n = true → n % dhP ≠ 0)
    (s1 : Smp1State) (m2 : Smp2Msg) (hv : smp2Verify K isGE s1 m2 = true) (x r4 r5 r6 r7 : Nat) :
    ∃ s3, smp3Gen K x s1 m2 r4 r5 r6 r7 = .ok s3 := by
  unfold smp2Verify at hv
  simp only [Bool.and_eq_true] at hv
  obtain ⟨⟨⟨⟨⟨⟨⟨_, _⟩, hpb⟩, hqb⟩, _⟩, _⟩, _⟩, _⟩ := hv
  unfold smp3Gen
  obtain ⟨v1, h1⟩ := divModP_ok_of_ne_zero A hp
    (mulModP (gexp1 K r4) (K.gexp (K.gexp m2.g2b s1.a2) x)) (hGE _ hqb)
  obtain ⟨v2, h2⟩ := divModP_ok_of_ne_zero A hp (K.gexp (K.gexp m2.g3b s1.a3) r4) (hGE _ hpb)
  simp only [h1, h2, Res.bind_ok, Res.pure_eq]
  exact ⟨_, rfl⟩

/-- the responder's locally computed `pb`, `qb` are nonzero mod p when the received `g2a`, `g3a` are -/
theorem smp2Gen_pb_qb_ne_zero (hp : Nat.Prime dhP) (y : Nat) (m1 : Smp1Msg)
    (h2 : m1.g2a % dhP ≠ 0) (h3 : m1.g3a % dhP ≠ 0) (b2 b3 r2 r3 r4 r5 r6 : Nat) :
    (smp2Gen K y m1 b2 b3 r2 r3 r4 r5 r6).pb % dhP ≠ 0 ∧
    (smp2Gen K y m1 b2 b3 r2 r3 r4 r5 r6).qb % dhP ≠ 0 := by
  simp only [smp2Gen, generateZKP]
  refine ⟨gexp_mod_ne_zero A hp (gexp_mod_ne_zero A hp h3 _) _, ?_⟩
  exact mulModP_mod_ne_zero hp (gexp1_mod_ne_zero A _)
    (gexp_mod_ne_zero A hp (gexp_mod_ne_zero A hp h2 _) _)

/-- message 3 verification, success test and message 4 generation never panic for ANY received
message 3, as long as the local state has `qb`, `pb` nonzero mod p -/
theorem smp3_no_panic_of_state (hp : Nat.Prime dhP) (isGE : Nat → Bool) (s2 : Smp2State)
    (hpb : s2.pb % dhP ≠ 0) (hqb : s2.qb % dhP ≠ 0) (m : Smp3Msg) (r7 : Nat) :
    (∃ b, smp3Verify K isGE s2 m = .ok b) ∧ (∃ b, smp3Success K s2 m = .ok b) ∧
    (∃ m4, smp4Gen K s2 m r7 = .ok m4) := by
  obtain ⟨v1, h1⟩ := divModP_ok_of_ne_zero A hp m.qa hqb
  obtain ⟨v2, h2⟩ := divModP_ok_of_ne_zero A hp m.pa hpb
  refine ⟨?_, ?_, ?_⟩
  · unfold smp3Verify
    simp only [h1, Res.bind_ok, Res.pure_eq]
    split
    · exact ⟨_, rfl⟩
    · split
      · exact ⟨_, rfl⟩
      · split <;> exact ⟨_, rfl⟩
  · unfold smp3Success
    simp only [h2, Res.bind_ok, Res.pure_eq]
    exact ⟨_, rfl⟩
  · unfold smp4Gen
    simp only [h1, Res.bind_ok, Res.pure_eq]
    exact ⟨_, rfl⟩

/-- **C12, no panic.**  Responder side, end to end: message 1 passed `smp1Verify` under a predicate
excluding multiples of p, the responder generated its state with `smp2Gen`; then for every message 3
whatsoever, `smp3Verify`, `smp3Success` and `smp4Gen` return `.ok`. -/
theorem c12_no_panic_responder (hp : Nat.Prime dhP) (isGE : Nat → Bool)
    (hGE : ∀ n, isGE n = true → n % dhP ≠ 0)
    (m1 : Smp1Msg) (hv : smp1Verify K isGE m1 = true) (y b2 b3 r2 r3 r4 r5 r6 : Nat)
    (m : Smp3Msg) (r7 : Nat) :
    let s2 := smp2Gen K y m1 b2 b3 r2 r3 r4 r5 r6
    (∃ b, smp3Verify K isGE s2 m = .ok b) ∧ (∃ b, smp3Success K s2 m = .ok b) ∧
    (∃ m4, smp4Gen K s2 m r7 = .ok m4) := by
  intro s2
  unfold smp1Verify at hv
  simp only [Bool.and_eq_true] at hv
  obtain ⟨⟨⟨⟨h2, h3⟩, _⟩, _⟩, _⟩ := hv
  obtain ⟨hpb, hqb⟩ := smp2Gen_pb_qb_ne_zero A hp y m1 (hGE _ h2) (hGE _ h3) b2 b3 r2 r3 r4 r5 r6
  exact smp3_no_panic_of_state A hp isGE s2 hpb hqb m r7

/-- **C12, success guard (arithmetic content).**  When the responder's test succeeds the received
values satisfy `Ra^b3 · Pb ≡ Pa (mod p)`, i.e. `Ra^b3 = Pa/Pb`. -/
theorem c12_success_guard3 (s2 : Smp2State) (m : Smp3Msg)
    (h : smp3Success K s2 m = .ok true) :
    divModP K m.pa s2.pb = .ok (K.gexp m.ra s2.b3) ∧
    K.gexp m.ra s2.b3 * s2.pb % dhP = m.pa % dhP := by
  unfold smp3Success at h
  cases hd : divModP K m.pa s2.pb with
  | panic s => rw [hd] at h; cases h
  | ok v =>
    rw [hd] at h
    simp only [Res.bind_ok, Res.pure_eq, Res.ok.injEq, beq_iff_eq] at h
    subst h
    exact ⟨rfl, (divModP_spec A hd).2⟩

omit A in
theorem c12_success_guard4 (s1 : Smp1State) (s3 : Smp3State) (m : Smp4Msg) :
    smp4Success K s1 s3 m = true ↔ K.gexp m.rb s1.a3 = s3.papb := by
  unfold smp4Success; exact beq_iff_eq

end NoPanic

/-! ## C12: out-of-range proof exponents are rejected (no arithmetic, any `K`, any `isGE`)

The repaired code checks `1 ≤ d < q` (`isExponent`) for every zero-knowledge-proof exponent of a
received SMP message before it evaluates the proof.  Messages 1, 2 and 4: the verification returns
false.  Message 3: `smp3Verify` checks the group elements first, then the exponents, then the proofs
and only then calls `divModP`; a message with an out-of-range exponent therefore yields `.ok false`
(never `.ok true`, and never a panic: the early return precedes the only partial operation). -/

section ExponentRange
variable (K : Crypto) (isGE : Nat → Bool)

theorem c12_exponent_out_of_range_rejected_1 (m : Smp1Msg)
    (h : isExponent m.d2 = false ∨ isExponent m.d3 = false) :
    smp1Verify K isGE m = false := by
  unfold smp1Verify
  rcases h with h | h <;>
    simp only [h, Bool.and_false, Bool.false_and]

theorem c12_exponent_out_of_range_rejected_2 (s1 : Smp1State) (m : Smp2Msg)
    (h : isExponent m.d2 = false ∨ isExponent m.d3 = false ∨
      isExponent m.d5 = false ∨ isExponent m.d6 = false) :
    smp2Verify K isGE s1 m = false := by
  unfold smp2Verify
  rcases h with h | h | h | h <;>
    simp only [h, Bool.and_false, Bool.false_and]

theorem c12_exponent_out_of_range_rejected_3 (s2 : Smp2State) (m : Smp3Msg)
    (h : isExponent m.d5 = false ∨ isExponent m.d6 = false ∨ isExponent m.d7 = false) :
    smp3Verify K isGE s2 m = .ok false := by
  have he : (isExponent m.d5 && isExponent m.d6 && isExponent m.d7) = false := by
    rcases h with h | h | h <;> simp only [h, Bool.and_false, Bool.false_and]
  unfold smp3Verify
  cases h1 : (isGE m.pa && isGE m.qa && isGE m.ra) <;> simp [he]

theorem c12_exponent_out_of_range_rejected_4 (s3 : Smp3State) (m : Smp4Msg)
    (h : isExponent m.d7 = false) :
    smp4Verify K isGE s3 m = false := by
  unfold smp4Verify
  simp only [h, Bool.and_false, Bool.false_and]

/-- In particular no out-of-range exponent is compatible with acceptance: every accepted message has
all its proof exponents in [1, q). -/
theorem smp1Verify_exponents (m : Smp1Msg) (h : smp1Verify K isGE m = true) :
    (1 ≤ m.d2 ∧ m.d2 < dhQ) ∧ (1 ≤ m.d3 ∧ m.d3 < dhQ) := by
  unfold smp1Verify at h
  simp only [Bool.and_eq_true, isExponent_iff] at h
  exact h.1.1.2

theorem smp2Verify_exponents (s1 : Smp1State) (m : Smp2Msg) (h : smp2Verify K isGE s1 m = true) :
    (1 ≤ m.d2 ∧ m.d2 < dhQ) ∧ (1 ≤ m.d3 ∧ m.d3 < dhQ) ∧
    (1 ≤ m.d5 ∧ m.d5 < dhQ) ∧ (1 ≤ m.d6 ∧ m.d6 < dhQ) := by
  unfold smp2Verify at h
  simp only [Bool.and_eq_true, isExponent_iff] at h
  obtain ⟨⟨⟨⟨_, ⟨⟨⟨e2, e3⟩, e5⟩, e6⟩⟩, _⟩, _⟩, _⟩ := h
  exact ⟨e2, e3, e5, e6⟩

theorem smp3Verify_exponents (s2 : Smp2State) (m : Smp3Msg)
    (h : smp3Verify K isGE s2 m = .ok true) :
    (1 ≤ m.d5 ∧ m.d5 < dhQ) ∧ (1 ≤ m.d6 ∧ m.d6 < dhQ) ∧ (1 ≤ m.d7 ∧ m.d7 < dhQ) := by
  have he := ((smp3Verify_ok_true_iff K isGE s2 m).mp h).2.1
  simp only [Bool.and_eq_true, isExponent_iff] at he
  exact ⟨he.1.1, he.1.2, he.2⟩

theorem smp4Verify_exponents (s3 : Smp3State) (m : Smp4Msg) (h : smp4Verify K isGE s3 m = true) :
    1 ≤ m.d7 ∧ m.d7 < dhQ := by
  unfold smp4Verify at h
  simp only [Bool.and_eq_true, isExponent_iff] at h
  exact h.1.2

/-- The typical malleation `d ↦ d + q` (same residue, so the proof equation still holds for a base
of order q) and the degenerate `d = 0` are rejected in every position of every message. -/
theorem c12_exponent_plus_q_rejected_1 (m : Smp1Msg) :
    smp1Verify K isGE { m with d2 := m.d2 + dhQ } = false ∧
    smp1Verify K isGE { m with d3 := m.d3 + dhQ } = false :=
  ⟨c12_exponent_out_of_range_rejected_1 K isGE _ (Or.inl (isExponent_add_dhQ _)),
   c12_exponent_out_of_range_rejected_1 K isGE _ (Or.inr (isExponent_add_dhQ _))⟩

theorem c12_exponent_plus_q_rejected_2 (s1 : Smp1State) (m : Smp2Msg) :
    smp2Verify K isGE s1 { m with d2 := m.d2 + dhQ } = false ∧
    smp2Verify K isGE s1 { m with d3 := m.d3 + dhQ } = false ∧
    smp2Verify K isGE s1 { m with d5 := m.d5 + dhQ } = false ∧
    smp2Verify K isGE s1 { m with d6 := m.d6 + dhQ } = false :=
  ⟨c12_exponent_out_of_range_rejected_2 K isGE s1 _ (Or.inl (isExponent_add_dhQ _)),
   c12_exponent_out_of_range_rejected_2 K isGE s1 _ (Or.inr (Or.inl (isExponent_add_dhQ _))),
   c12_exponent_out_of_range_rejected_2 K isGE s1 _ (Or.inr (Or.inr (Or.inl (isExponent_add_dhQ _)))),
   c12_exponent_out_of_range_rejected_2 K isGE s1 _ (Or.inr (Or.inr (Or.inr (isExponent_add_dhQ _))))⟩

theorem c12_exponent_plus_q_rejected_3 (s2 : Smp2State) (m : Smp3Msg) :
    smp3Verify K isGE s2 { m with d5 := m.d5 + dhQ } = .ok false ∧
    smp3Verify K isGE s2 { m with d6 := m.d6 + dhQ } = .ok false ∧
    smp3Verify K isGE s2 { m with d7 := m.d7 + dhQ } = .ok false :=
  ⟨c12_exponent_out_of_range_rejected_3 K isGE s2 _ (Or.inl (isExponent_add_dhQ _)),
   c12_exponent_out_of_range_rejected_3 K isGE s2 _ (Or.inr (Or.inl (isExponent_add_dhQ _))),
   c12_exponent_out_of_range_rejected_3 K isGE s2 _ (Or.inr (Or.inr (isExponent_add_dhQ _)))⟩

theorem c12_exponent_plus_q_rejected_4 (s3 : Smp3State) (m : Smp4Msg) :
    smp4Verify K isGE s3 { m with d7 := m.d7 + dhQ } = false :=
  c12_exponent_out_of_range_rejected_4 K isGE s3 _ (isExponent_add_dhQ _)

theorem c12_exponent_zero_rejected_1 (m : Smp1Msg) :
    smp1Verify K isGE { m with d2 := 0 } = false ∧ smp1Verify K isGE { m with d3 := 0 } = false :=
  ⟨c12_exponent_out_of_range_rejected_1 K isGE _ (Or.inl isExponent_zero),
   c12_exponent_out_of_range_rejected_1 K isGE _ (Or.inr isExponent_zero)⟩

theorem c12_exponent_zero_rejected_2 (s1 : Smp1State) (m : Smp2Msg) :
    smp2Verify K isGE s1 { m with d2 := 0 } = false ∧
    smp2Verify K isGE s1 { m with d3 := 0 } = false ∧
    smp2Verify K isGE s1 { m with d5 := 0 } = false ∧
    smp2Verify K isGE s1 { m with d6 := 0 } = false :=
  ⟨c12_exponent_out_of_range_rejected_2 K isGE s1 _ (Or.inl isExponent_zero),
   c12_exponent_out_of_range_rejected_2 K isGE s1 _ (Or.inr (Or.inl isExponent_zero)),
   c12_exponent_out_of_range_rejected_2 K isGE s1 _ (Or.inr (Or.inr (Or.inl isExponent_zero))),
   c12_exponent_out_of_range_rejected_2 K isGE s1 _ (Or.inr (Or.inr (Or.inr isExponent_zero)))⟩

theorem c12_exponent_zero_rejected_3 (s2 : Smp2State) (m : Smp3Msg) :
    smp3Verify K isGE s2 { m with d5 := 0 } = .ok false ∧
    smp3Verify K isGE s2 { m with d6 := 0 } = .ok false ∧
    smp3Verify K isGE s2 { m with d7 := 0 } = .ok false :=
  ⟨c12_exponent_out_of_range_rejected_3 K isGE s2 _ (Or.inl isExponent_zero),
   c12_exponent_out_of_range_rejected_3 K isGE s2 _ (Or.inr (Or.inl isExponent_zero)),
   c12_exponent_out_of_range_rejected_3 K isGE s2 _ (Or.inr (Or.inr isExponent_zero))⟩

theorem c12_exponent_zero_rejected_4 (s3 : Smp3State) (m : Smp4Msg) :
    smp4Verify K isGE s3 { m with d7 := 0 } = false :=
  c12_exponent_out_of_range_rejected_4 K isGE s3 _ isExponent_zero

end ExponentRange

/-! ## Completeness of the composite proofs for arbitrary bases in the order-q subgroup

The honest-run theorems above only need bases that are powers of g.  The same completeness holds
for any bases `h` with `h^q ≡ 1 (mod p)` (what the peer sends is not required to be a power of 2). -/

section Subgroup
variable {K : Crypto} (A : K.ArithOK)
include A

omit A in
theorem natCast_inj_of_lt {a b : Nat} (ha : a < dhP) (hb : b < dhP)
    (h : (a : ZMod dhP) = b) : a = b := by
  rw [ZMod.natCast_eq_natCast_iff', Nat.mod_eq_of_lt ha, Nat.mod_eq_of_lt hb] at h
  exact h

theorem cast_gexp (b e : Nat) : ((K.gexp b e : ℕ) : ZMod dhP) = (b : ZMod dhP) ^ e := by
  rw [A.gexp_eq, ZMod.natCast_mod]; push_cast; rfl

theorem cast_gexp1 (e : Nat) : ((gexp1 K e : ℕ) : ZMod dhP) = 2 ^ e := by
  unfold gexp1 dhG; rw [cast_gexp A]; norm_num

omit A in
theorem cast_mulModP (a b : Nat) : ((mulModP a b : ℕ) : ZMod dhP) = (a : ZMod dhP) * b := by
  unfold mulModP; rw [ZMod.natCast_mod]; push_cast; rfl

omit A in
theorem mulModP_lt (a b : Nat) : mulModP a b < dhP :=
  Nat.mod_lt _ (Nat.pos_of_ne_zero dhP_ne_zero)

omit A in
theorem cast_pow_q {h : Nat} (hh : h ^ dhQ % dhP = 1) : (h : ZMod dhP) ^ dhQ = 1 := by
  have := congrArg (fun n : ℕ => (n : ZMod dhP)) hh
  simp only [ZMod.natCast_mod] at this
  push_cast at this
  exact this

omit A in
theorem pow_subModQ {h : ZMod dhP} (hh : h ^ dhQ = 1) (r s : Nat) :
    h ^ subModQ r s * h ^ s = h ^ r := by
  rw [← pow_add, pow_eq_pow_mod _ hh, show (subModQ r s + s) % dhQ = r % dhQ from subModQ_add r s,
    ← pow_eq_pow_mod _ hh]

theorem zkp2_complete_subgroup (g2 g3 : Nat) (h2 : g2 ^ dhQ % dhP = 1) (h3 : g3 ^ dhQ % dhP = 1)
    (r4 r5 r6 y ix : Nat) :
    let cp := hashMPIsBN K ix [K.gexp g3 r5, mulModP (gexp1 K r5) (K.gexp g2 r6)]
    verifyZKP2 K g2 g3 (subModQ r5 (r4 * cp)) (subModQ r6 (y * cp))
      (K.gexp g3 r4) (mulModP (gexp1 K r4) (K.gexp g2 y)) cp ix = true := by
  intro cp
  have hG : ((2 : ℕ) : ZMod dhP) ^ dhQ = 1 := cast_pow_q two_pow_dhQ
  have hG' : (2 : ZMod dhP) ^ dhQ = 1 := by simpa using hG
  have H2 := cast_pow_q h2
  have H3 := cast_pow_q h3
  have e1 : mulModP (K.gexp g3 (subModQ r5 (r4 * cp))) (K.gexp (K.gexp g3 r4) cp)
      = K.gexp g3 r5 := by
    apply natCast_inj_of_lt (mulModP_lt _ _) (gexp_lt A _ _)
    rw [cast_mulModP, cast_gexp A, cast_gexp A, cast_gexp A, cast_gexp A, ← pow_mul]
    exact pow_subModQ H3 r5 (r4 * cp)
  have e2 : (gexp1 K (subModQ r5 (r4 * cp)) * K.gexp g2 (subModQ r6 (y * cp)))
      * K.gexp (mulModP (gexp1 K r4) (K.gexp g2 y)) cp % dhP
      = mulModP (gexp1 K r5) (K.gexp g2 r6) := by
    apply natCast_inj_of_lt (Nat.mod_lt _ (Nat.pos_of_ne_zero dhP_ne_zero)) (mulModP_lt _ _)
    rw [ZMod.natCast_mod]
    push_cast [cast_mulModP, cast_gexp A, cast_gexp1 A]
    rw [← pow_subModQ hG' r5 (r4 * cp), ← pow_subModQ H2 r6 (y * cp)]
    ring
  unfold verifyZKP2
  simp only [e1, e2]
  exact beq_self_eq_true _

theorem zkp4_complete_subgroup (qaqb : Nat) (hq : qaqb ^ dhQ % dhP = 1) (a r7 ix : Nat) :
    let cr := hashMPIsBN K ix [gexp1 K r7, K.gexp qaqb r7]
    verifyZKP4 K cr (gexp1 K a) (subModQ r7 (a * cr)) qaqb (K.gexp qaqb a) ix = true := by
  intro cr
  have hG : ((2 : ℕ) : ZMod dhP) ^ dhQ = 1 := cast_pow_q two_pow_dhQ
  have hG' : (2 : ZMod dhP) ^ dhQ = 1 := by simpa using hG
  have HQ := cast_pow_q hq
  have e1 : mulModP (gexp1 K (subModQ r7 (a * cr))) (K.gexp (gexp1 K a) cr) = gexp1 K r7 := by
    apply natCast_inj_of_lt (mulModP_lt _ _) (gexp1_lt A _)
    rw [cast_mulModP, cast_gexp A, cast_gexp1 A, cast_gexp1 A, cast_gexp1 A, ← pow_mul]
    exact pow_subModQ hG' r7 (a * cr)
  have e2 : mulModP (K.gexp qaqb (subModQ r7 (a * cr))) (K.gexp (K.gexp qaqb a) cr)
      = K.gexp qaqb r7 := by
    apply natCast_inj_of_lt (mulModP_lt _ _) (gexp_lt A _ _)
    rw [cast_mulModP, cast_gexp A, cast_gexp A, cast_gexp A, cast_gexp A, ← pow_mul]
    exact pow_subModQ HQ r7 (a * cr)
  unfold verifyZKP4
  simp only [e1, e2]
  exact beq_self_eq_true _

end Subgroup


/-! ## C12, success guard at the level of the conversation state machine (`processSMPTLV`)

A small weakest-precondition calculus for the execution monad `M` (runs that end
in a Go panic satisfy every postcondition) is used to walk through all branches of `processSMPTLV`. -/

/-- the event string appended by `smpEvent smpSuccess 100` -/
def smpSuccessEvent : String := s!"smp:{smpSuccess}:{100}"

def smpGE : Option Version → Nat → Bool
  | some .v3 => isGroupElement
  | some .v2 => fun n => n % dhP != 0
  | none => fun _ => false

def SmpSuccessGuard (K : Crypto) (t : Tlv) (st : MState) : Prop :=
  (t.typ = tlvTypeSMP3 ∧ ∃ m s2, toSmp3 t.value = some m ∧
      st.conv.smp.state = some .expect3 ∧ st.conv.smp.s2 = some s2 ∧
      smp3Verify K (smpGE st.conv.version) s2 m = .ok true ∧ smp3Success K s2 m = .ok true) ∨
  (t.typ = tlvTypeSMP4 ∧ ∃ m s1 s3, toSmp4 t.value = some m ∧
      st.conv.smp.state = some .expect4 ∧ st.conv.smp.s1 = some s1 ∧ st.conv.smp.s3 = some s3 ∧
      smp4Verify K (smpGE st.conv.version) s3 m = true ∧ smp4Success K s1 s3 m = true)

theorem smpGE_v3 : smpGE (some .v3) = isGroupElement := rfl
theorem smpGE_v2 : smpGE (some .v2) = isGEv2 := rfl

theorem smpEvent_success : smpEvent smpSuccess 100 = ev smpSuccessEvent := rfl

namespace SmpWP

def WP {α} (m : M α) (Q : Except Err α → MState → Prop) (st : MState) : Prop :=
  ∀ r st', m.run.run st = .ok (r, st') → Q r st'

theorem run_bind {α β} (m : M α) (f : α → M β) (st) :
    (m >>= f).run.run st = (m.run.run st >>= fun p : Except Err α × MState =>
      match p with
      | (.ok a, s) => (f a).run.run s
      | (.error e, s) => pure (.error e, s)) := by
  show ((m.run >>= ExceptT.bindCont f : StateT MState Res _)).run st = _
  show (m.run.run st >>= fun p => (ExceptT.bindCont f p.1).run p.2) = _
  congr 1
  funext p
  obtain ⟨a, s⟩ := p
  cases a <;> rfl

theorem WP_bind {α β} (m : M α) (f : α → M β) (Q) (st) :
    WP (m >>= f) Q st ↔ WP m (fun r st1 => match r with
      | .ok a => WP (f a) Q st1
      | .error e => Q (.error e) st1) st := by
  unfold WP
  constructor
  · intro h r1 st1 hm
    cases r1 with
    | ok a =>
      intro r st' hr
      apply h
      rw [run_bind, hm]; exact hr
    | error e =>
      apply h
      rw [run_bind, hm]; rfl
  · intro h r st' hr
    rw [run_bind] at hr
    cases hm : m.run.run st with
    | panic s => rw [hm] at hr; cases hr
    | ok p =>
      obtain ⟨r1, st1⟩ := p
      rw [hm] at hr
      have h1 := h r1 st1 hm
      cases r1 with
      | ok a => exact h1 r st' hr
      | error e =>
        have : r = .error e ∧ st' = st1 := by
          cases hr; exact ⟨rfl, rfl⟩
        obtain ⟨rfl, rfl⟩ := this
        exact h1

theorem WP_elim {α} {m : M α} {Q} {st : MState} (h : WP m Q st) {r st'}
    (hr : m.run.run st = .ok (r, st')) : Q r st' := h r st' hr

theorem WP_of_run {α} {m : M α} {st : MState} {r0 st0} (h : m.run.run st = .ok (r0, st0)) (Q) :
    WP m Q st ↔ Q r0 st0 := by
  unfold WP
  constructor
  · intro hq; exact hq _ _ h
  · intro hq r st' hr; rw [h] at hr; cases hr; exact hq

theorem WP_pure {α} (a : α) (Q) (st) : WP (pure a : M α) Q st ↔ Q (.ok a) st :=
  WP_of_run rfl Q
theorem WP_getc (Q) (st) : WP getc Q st ↔ Q (.ok st.conv) st := WP_of_run rfl Q
theorem WP_modc (f) (Q) (st : MState) :
    WP (modc f) Q st ↔ Q (.ok ()) { st with conv := f st.conv } := WP_of_run rfl Q
theorem WP_ev (s) (Q) (st : MState) :
    WP (ev s) Q st ↔ Q (.ok ()) { st with events := st.events ++ [s] } := WP_of_run rfl Q
theorem WP_throw {α} (e : Err) (Q) (st : MState) : WP (throw e : M α) Q st ↔ Q (.error e) st :=
  WP_of_run rfl Q
theorem WP_goPanic {α} (s : String) (Q) (st : MState) : WP (goPanic s : M α) Q st ↔ True := by
  unfold WP
  simp only [iff_true]
  intro r st' hr
  have : (goPanic s : M α).run.run st = .panic s := rfl
  rw [this] at hr; cases hr

theorem WP_ite {α} (c : Prop) [Decidable c] (a b : M α) (Q) (st) :
    WP (if c then a else b) Q st ↔ (c → WP a Q st) ∧ (¬ c → WP b Q st) := by
  by_cases h : c <;> simp [h]


theorem WP_get (Q) (st : MState) : WP (get : M MState) Q st ↔ Q (.ok st) st := WP_of_run rfl Q
theorem WP_set (s : MState) (Q) (st : MState) : WP (set s : M PUnit) Q st ↔ Q (.ok ⟨⟩) s :=
  WP_of_run rfl Q
theorem WP_mism (s) (Q) (st : MState) :
    WP (mism s) Q st ↔ Q (.ok ()) { st with mismatch := st.mismatch ++ [s] } := WP_of_run rfl Q

theorem WP_mono {α} {m : M α} {Q Q' : Except Err α → MState → Prop} {st : MState}
    (h : WP m Q st) (hq : ∀ r st', Q r st' → Q' r st') : WP m Q' st := by
  intro r st' hr; exact hq _ _ (h r st' hr)

/-- postcondition: events and conversation state untouched -/
def Frame {α} (st : MState) : Except Err α → MState → Prop :=
  fun _ st' => st'.events = st.events ∧ st'.conv = st.conv

theorem randReadAux_frame : ∀ (fuel n : Nat) (acc : Bytes) (st : MState),
    WP (randReadAux fuel n acc) (Frame st) st := by
  intro fuel
  induction fuel with
  | zero =>
    intro n acc st
    unfold randReadAux
    simp only [WP_bind, WP_mism, WP_pure, Frame, and_self]
  | succ fuel ih =>
    intro n acc st
    unfold randReadAux
    simp only [WP_bind, WP_ite, WP_pure, WP_get]
    refine ⟨fun _ => ⟨rfl, rfl⟩, fun _ => ?_⟩
    split
    · simp only [WP_bind, WP_mism, WP_pure, Frame, and_self]
    · simp only [WP_bind, WP_set, WP_pure, Frame, and_self]
    · simp only [WP_bind, WP_set, WP_ite, WP_mism, WP_pure, Frame, and_self, implies_true, true_and]
      intro _ _
      exact ih _ _ _

theorem randRead_frame (n : Nat) (st : MState) : WP (randRead n) (Frame st) st := by
  unfold randRead
  simp only [WP_ite, WP_pure]
  exact ⟨fun _ => ⟨rfl, rfl⟩, fun _ => randReadAux_frame _ _ _ _⟩

theorem randMPIs_frame : ∀ (k len : Nat) (st : MState), WP (randMPIs k len) (Frame st) st := by
  intro k
  induction k with
  | zero => intro len st; unfold randMPIs; simp only [WP_pure, Frame, and_self]
  | succ k ih =>
    intro len st
    unfold randMPIs
    simp only [WP_bind]
    refine WP_mono (randRead_frame len st) ?_
    rintro r st1 ⟨he, hc⟩
    cases r with
    | error e => exact ⟨he, hc⟩
    | ok a =>
      simp only
      refine WP_mono (ih len st1) ?_
      rintro r2 st2 ⟨he2, hc2⟩
      cases r2 with
      | error e => exact ⟨he2.trans he, hc2.trans hc⟩
      | ok b =>
        simp only [WP_pure]
        exact ⟨he2.trans he, hc2.trans hc⟩

attribute [local irreducible] WP

def PostEv {α} (evs0 : List String) (G : Prop) : Except Err α → MState → Prop :=
  fun _ st' => ∃ l, st'.events = evs0 ++ l ∧ (smpSuccessEvent ∈ l → G)

theorem ev_ne_abort : smpSuccessEvent ≠ toString "smp:" ++ toString smpAbort ++ toString ":" ++ toString 0 := by decide
theorem ev_ne_cheated : smpSuccessEvent ≠ toString "smp:" ++ toString smpCheated ++ toString ":" ++ toString 0 := by decide
theorem ev_ne_error : smpSuccessEvent ≠ toString "smp:" ++ toString smpError ++ toString ":" ++ toString 0 := by decide
theorem ev_ne_secret : smpSuccessEvent ≠ toString "smp:" ++ toString smpAskForSecret ++ toString ":" ++ toString 25 := by decide
theorem ev_ne_progress : smpSuccessEvent ≠ toString "smp:" ++ toString smpInProgress ++ toString ":" ++ toString 60 := by decide
theorem ev_ne_failure : smpSuccessEvent ≠ toString "smp:" ++ toString smpFailure ++ toString ":" ++ toString 100 := by decide
theorem ev_ne_answer (X : String) : smpSuccessEvent ≠
    toString "smp:" ++ toString smpAskForAnswer ++ toString ":" ++ toString 25 ++ toString ":" ++ toString X := by
  intro h
  have := congrArg String.toList h
  have d6 : Nat.toDigits 10 6 = ['6'] := by decide
  have d3 : Nat.toDigits 10 3 = ['3'] := by decide
  simp [smpSuccessEvent, String.toList_append, smpSuccess, smpAskForAnswer, d6, d3] at this

local macro "smp_wp_go" : tactic => `(tactic| repeat' (first
    | (simp only [WP_bind, WP_getc, WP_pure, WP_ite, WP_modc, WP_ev, WP_throw, WP_goPanic,
        setSmpState, smpEvent, smpEventQ, smpAbortWith, smpWipe, smpIsGroupElement, Option.getD_some,
        optNat, paramLen])
    | intro _
    | apply And.intro
    | (refine WP_mono (randMPIs_frame _ _ _) ?_
       rintro _ ⟨_, _, _, _⟩ ⟨he, hc⟩
       simp only at he hc
       subst he hc)
    | (refine WP_mono (randRead_frame _ _) ?_
       rintro _ ⟨_, _, _, _⟩ ⟨he, hc⟩
       simp only at he hc
       subst he hc)
    | split))

theorem processSMPTLV_wp (K : Crypto) (t : Tlv) (st : MState) :
    WP (processSMPTLV K t) (PostEv st.events (SmpSuccessGuard K t st)) st := by
  unfold processSMPTLV
  smp_wp_go
  all_goals try (
    simp only [PostEv, List.append_assoc, List.append_cancel_left_eq, List.self_eq_append_right,
      exists_eq_left, exists_eq_left', List.cons_append, List.nil_append, List.mem_cons,
      List.not_mem_nil, or_false, false_imp_iff, ev_ne_abort, ev_ne_cheated, ev_ne_error, ev_ne_secret,
      ev_ne_progress, ev_ne_failure, ev_ne_answer]; done)
  all_goals (
    refine ⟨_, (by first | rfl | rw [List.append_assoc]), fun _ => ?_⟩
    first
      | (refine Or.inl ⟨by assumption, _, _, by assumption, ?_, by assumption, ?_, by assumption⟩
         · cases hs : st.conv.smp.state <;> simp_all
         · simp only [*, smpGE])
      | (refine Or.inr ⟨by assumption, _, _, _, by assumption, ?_, by assumption, by assumption,
          ?_, ?_⟩
         · cases hs : st.conv.smp.state <;> simp_all
         all_goals simp_all [smpGE]))

end SmpWP

/-- **C12, success guard.**  Whenever a (non-panicking) run of `processSMPTLV` appends the SMP success
event, the TLV was an SMP3 (resp. SMP4) message which passed `smp3Verify` and `smp3Success`
(resp. `smp4Verify` and `smp4Success`) against the stored state, under the group-membership
predicate of the negotiated version; events are only ever appended. -/
theorem c12_success_event_guard (K : Crypto) (t : Tlv) (st st' : MState)
    (r : Except Err (Option Tlv))
    (h : (processSMPTLV K t).run.run st = .ok (r, st')) :
    ∃ l, st'.events = st.events ++ l ∧ (smpSuccessEvent ∈ l → SmpSuccessGuard K t st) :=
  SmpWP.WP_elim (SmpWP.processSMPTLV_wp K t st) h

/-! ## The hypotheses are satisfiable -/

example : Crypto.real.ArithOK := Crypto.real_arithOK
example : 2 ^ dhQ % dhP = 1 := two_pow_dhQ
example : dhP % 2 = 1 := dhP_odd

/-- `c11_equal_success_v2` at the executable instance: the only hypothesis left is that the ten
transmitted proof exponents are nonzero. -/
example (x a2 a3 r2 r3 b2 b3 r2' r3' r4 r5 r6 r4' r5' r6' r7 r7' : Nat) :
    let s1 := smp1Gen Crypto.real a2 a3 r2 r3
    let s2 := smp2Gen Crypto.real x s1.msg b2 b3 r2' r3' r4 r5 r6
    ∃ s3 m4, smp3Gen Crypto.real x s1 s2.msg r4' r5' r6' r7 = .ok s3 ∧
      smp4Gen Crypto.real s2 s3.msg r7' = .ok m4 ∧
      ((∀ d ∈ smpExponents s1 s2 s3 m4, 1 ≤ d) →
        smp1Verify Crypto.real isGEv2 s1.msg = true ∧ smp2Verify Crypto.real isGEv2 s1 s2.msg = true ∧
        smp3Verify Crypto.real isGEv2 s2 s3.msg = .ok true ∧
        smp3Success Crypto.real s2 s3.msg = .ok true ∧
        smp4Verify Crypto.real isGEv2 s3 m4 = true ∧ smp4Success Crypto.real s1 s3 m4 = true) :=
  c11_equal_success_v2 Crypto.real_arithOK x a2 a3 r2 r3 b2 b3 r2' r3' r4 r5 r6 r4' r5' r6' r7 r7'

/-- The range hypothesis of `c11_equal_success_v3` is satisfiable: with all exponents 1 except the
initiator's r4' = 2 the ten transmitted elements are 2,2,2,2,2,4,4,8,2,2. -/
example :
    let s1 := smp1Gen Crypto.real 1 1 1 1
    let s2 := smp2Gen Crypto.real 1 s1.msg 1 1 1 1 1 1 1
    ∃ s3 m4, smp3Gen Crypto.real 1 s1 s2.msg 2 1 1 1 = .ok s3 ∧
      smp4Gen Crypto.real s2 s3.msg 1 = .ok m4 ∧
      ∀ n ∈ smpTransmitted s1 s2 s3 m4, n ≠ 1 ∧ n ≠ dhP - 1 := by
  intro s1 s2
  have A := Crypto.real_arithOK
  obtain ⟨s3, m4, h3, h4, hpow, _⟩ :=
    smp_honest_run A (fun _ => true) 1 1 1 1 1 1 1 1 1 1 1 1 1 2 1 1 1 1
  refine ⟨s3, m4, h3, h4, ?_⟩
  have small : ∀ e, 2 ^ e < dhP → gexp1 Crypto.real e = 2 ^ e := by
    intro e he
    rw [gexp1_eq A, Nat.mod_eq_of_lt he]
  have hsub : gexp1 Crypto.real (subQ (2 + 1 * 1 * 1) (1 + 1 * 1 * 1) * 1) = gexp1 Crypto.real 1 := by
    apply gexp1_congr' A
    push_cast [cast_subQ]
    ring
  have hb := sixteen_lt_dhP
  rw [hpow]
  simp only [smpTransmittedExps, List.map, List.mem_cons, forall_eq_or_imp, List.not_mem_nil,
    false_imp_iff, implies_true, and_true, hsub]
  simp only [Nat.reduceMul, Nat.reduceAdd, small 1 (by omega), small 2 (by omega),
    small 3 (by omega), Nat.reducePow]
  omega

/-- The exponent hypothesis `∀ d ∈ smpExponents …, 1 ≤ d` of `smp_honest_run` / `c11_equal_success*`
is satisfiable together with the range hypothesis of `c11_equal_success_v3`: in the run of the
previous example at the executable instance (real SHA-256 and 1536-bit arithmetic, evaluated by the
kernel) no transmitted element is 1 or p-1 and all ten transmitted proof exponents are nonzero. -/
example :
    ∃ s3 m4,
      smp3Gen Crypto.real 1 (smp1Gen Crypto.real 1 1 1 1)
        (smp2Gen Crypto.real 1 (smp1Gen Crypto.real 1 1 1 1).msg 1 1 1 1 1 1 1).msg 2 1 1 1 = .ok s3 ∧
      smp4Gen Crypto.real (smp2Gen Crypto.real 1 (smp1Gen Crypto.real 1 1 1 1).msg 1 1 1 1 1 1 1)
        s3.msg 1 = .ok m4 ∧
      (∀ n ∈ smpTransmitted (smp1Gen Crypto.real 1 1 1 1)
        (smp2Gen Crypto.real 1 (smp1Gen Crypto.real 1 1 1 1).msg 1 1 1 1 1 1 1) s3 m4,
        n ≠ 1 ∧ n ≠ dhP - 1) ∧
      (∀ d ∈ smpExponents (smp1Gen Crypto.real 1 1 1 1)
        (smp2Gen Crypto.real 1 (smp1Gen Crypto.real 1 1 1 1).msg 1 1 1 1 1 1 1) s3 m4, 1 ≤ d) := by
  have key : (match smp3Gen Crypto.real 1 (smp1Gen Crypto.real 1 1 1 1)
        (smp2Gen Crypto.real 1 (smp1Gen Crypto.real 1 1 1 1).msg 1 1 1 1 1 1 1).msg 2 1 1 1 with
      | .ok s3 =>
        (match smp4Gen Crypto.real
            (smp2Gen Crypto.real 1 (smp1Gen Crypto.real 1 1 1 1).msg 1 1 1 1 1 1 1) s3.msg 1 with
        | .ok m4 =>
          (smpTransmitted (smp1Gen Crypto.real 1 1 1 1)
            (smp2Gen Crypto.real 1 (smp1Gen Crypto.real 1 1 1 1).msg 1 1 1 1 1 1 1) s3 m4).all
              (fun n => decide (n ≠ 1 ∧ n ≠ dhP - 1)) &&
          (smpExponents (smp1Gen Crypto.real 1 1 1 1)
            (smp2Gen Crypto.real 1 (smp1Gen Crypto.real 1 1 1 1).msg 1 1 1 1 1 1 1) s3 m4).all
              (fun d => decide (1 ≤ d))
        | .panic _ => false)
      | .panic _ => false) = true := by decide +kernel
  split at key
  · rename_i s3 h3
    split at key
    · rename_i m4 h4
      rw [Bool.and_eq_true, List.all_eq_true, List.all_eq_true] at key
      refine ⟨s3, m4, h3, h4, fun n hn => ?_, fun d hd => ?_⟩
      · exact of_decide_eq_true (key.1 n hn)
      · exact of_decide_eq_true (key.2 d hd)
    · cases key
  · cases key

/-- The side conditions of `c11_unequal_fail` on exponents and secrets are satisfiable (its other two
hypotheses, primality of `dhP` and `dhQ`, are true but not provable by computation here). -/
example : (1 : Nat) % dhQ ≠ 0 ∧ 1 < dhQ ∧ 2 < dhQ ∧ (1 : Nat) ≠ 2 := by decide +kernel

end Otr
