/-
  Proofs.VersionEmit — property C16, emission: every message the conversation builds through `messageHeader`
  carries the protocol-version field of the version the conversation is committed to.

  `HasVer v raw`: `raw` starts with the SHORT `v.num`.  `armour raw` = "?OTR:" ‖ base64(raw) ‖ "." (what `fragEncode`
  emits when it does not fragment); `decodeEnvelope_armour`: `Receive`'s decoder gives `raw` back.
  §1 headers: `messageHeader_hasVer`, `wrapMessageHeader_hasVer`.  §2 the armouring: `fragEncode_wire`.
  §3 data messages: `createSerializedDataMessage_wire`, `send_encrypted_emits` (all encrypted states, also the
  failure path).  Outside the encrypted state `Send` builds no message (exact results: `send_disabled`,
  `send_plain`, `send_requireEncryption`, `send_finished` in Proofs.ConvLife): what it returns is the user's text
  (with the whitespace tag), the query message, or queued injections.
  §4 the start of a key exchange: `sendDHCommit_ver`, `receiveQueryMessage_emits`.
  Not covered: the replies of `processAKE` (see Props.C16Api).
-/
import Proofs.VersionInv
import Proofs.B64
import Proofs.Frag
import Proofs.Keys
set_option linter.unusedSimpArgs false
set_option linter.unusedVariables false
namespace Otr

/-- `raw` starts with the protocol-version field (SHORT) of `v` -/
def HasVer (v : Version) (raw : Bytes) : Prop := raw.take 2 = be16 v.num

/-- the unfragmented wire form of `raw` -/
def armour (raw : Bytes) : Bytes := msgMarker ++ b64encode raw ++ [46]

theorem msgMarker_eq : msgMarker = [63, 79, 84, 82, 58] := by decide

theorem decodeEnvelope_armour (raw : Bytes) : decodeEnvelope (armour raw) = some raw := by
  unfold decodeEnvelope armour
  rw [msgMarker_eq]
  have hl : ¬ ([63, 79, 84, 82, 58] ++ b64encode raw ++ [46] : Bytes).length ≤ 5 := by
    simp only [List.length_append, List.length_cons, List.length_nil]; omega
  rw [if_neg hl]
  have : (([63, 79, 84, 82, 58] ++ b64encode raw ++ [46] : Bytes).drop 5).dropLast = b64encode raw := by
    simp [List.dropLast_concat]
  rw [this, b64decode_encode]

theorem HasVer.append {v : Version} {h : Bytes} (hh : HasVer v h) (hl : 2 ≤ h.length) (m : Bytes) :
    HasVer v (h ++ m) := by
  unfold HasVer at *
  rw [List.take_append_of_le_length hl]; exact hh

theorem runM_ite_cases {α} {c : Prop} [Decidable c] {x y : M α} {s : MState} {r : Out α}
    (h : runM (if c then x else y) s = r) : (c ∧ runM x s = r) ∨ (¬ c ∧ runM y s = r) := by
  by_cases hc : c
  · rw [if_pos hc] at h; exact Or.inl ⟨hc, h⟩
  · rw [if_neg hc] at h; exact Or.inr ⟨hc, h⟩

/-! ## 1. headers -/

/-- a header is built only for the committed version, starts with its version field, and building it leaves the
    version alone -/
theorem messageHeader_hasVer (t : Nat) (s s' : MState) (h : Bytes)
    (hr : runM (messageHeader t) s = .ok (.ok h, s')) :
    ∃ v, s.conv.version = some v ∧ s'.conv.version = some v ∧ HasVer v h ∧ 2 ≤ h.length := by
  have hvp := messageHeader_vp t s _ s' hr
  have hv' : s'.conv.version = s.conv.version := congrArg Prod.fst hvp
  unfold messageHeader at hr
  simp only [runM_bind, runM_getc, bindM_ok] at hr
  cases hv : s.conv.version with
  | none => simp only [hv, runM_goPanic] at hr; cases hr
  | some v =>
    refine ⟨v, rfl, by rw [hv', hv], ?_⟩
    cases v with
    | v2 =>
      simp only [hv, runM_pure, Res.ok.injEq, Prod.mk.injEq, Except.ok.injEq] at hr
      rw [← hr.1]
      exact ⟨rfl, by simp [appendShort, be16]⟩
    | v3 =>
      simp only [hv, runM_bind] at hr
      obtain ⟨_, s1, -, h2⟩ := bindM_ok_inv hr
      simp only [runM_getc, bindM_ok, runM_pure, Res.ok.injEq, Prod.mk.injEq, Except.ok.injEq] at h2
      rw [← h2.1]
      exact ⟨by simp [HasVer, appendWord, appendShort, be16, be32, Version.num],
        by simp [appendWord, appendShort, be16, be32]⟩

theorem wrapMessageHeader_hasVer (t : Nat) (m : Bytes) (s s' : MState) (x : Bytes)
    (hr : runM (wrapMessageHeader t m) s = .ok (.ok x, s')) :
    ∃ v, s.conv.version = some v ∧ s'.conv.version = some v ∧ HasVer v x := by
  unfold wrapMessageHeader at hr
  simp only [runM_bind] at hr
  obtain ⟨h, s1, h1, h2⟩ := bindM_ok_inv hr
  simp only [runM_pure, Res.ok.injEq, Prod.mk.injEq, Except.ok.injEq] at h2
  obtain ⟨v, hv, hv1, hh, hl⟩ := messageHeader_hasVer t s s1 h h1
  rw [← h2.1, ← h2.2]
  exact ⟨v, hv, hv1, hh.append hl m⟩

/-! ## 2. the armouring -/

theorem fragmentPrefix_not_marker (v : Version) (j num its itr : Nat) (rest : Bytes) :
    hasPrefix (fragmentPrefix v j num its itr ++ rest) msgMarker = false := by
  have h2 : otrv2FragPrefix = [63, 79, 84, 82, 44] := by decide
  have h3 : otrv3FragPrefix = [63, 79, 84, 82, 124] := by decide
  cases v <;> simp [fragmentPrefix, h2, h3, msgMarker_eq, hasPrefix, List.isPrefixOf]

/-- what `fragEncode raw` returns: the state is untouched, and every item that starts with "?OTR:" is the
    armour of `raw` (the pieces of a fragmented message start with "?OTR," or "?OTR|") -/
theorem fragEncode_wire (raw : Bytes) (s s' : MState) (l : List Bytes)
    (hr : runM (fragEncode raw) s = .ok (.ok l, s')) :
    s' = s ∧ ∀ y ∈ l, hasPrefix y msgMarker = true → y = armour raw := by
  unfold fragEncode at hr
  simp only [runM_bind, runM_getc, bindM_ok] at hr
  split at hr
  · simp only [runM_pure, Res.ok.injEq, Prod.mk.injEq, Except.ok.injEq] at hr
    refine ⟨hr.2.symm, fun y hy _ => ?_⟩
    rw [← hr.1] at hy
    simp only [List.mem_singleton] at hy
    exact hy
  · cases hv : s.conv.version with
    | none => simp only [hv, runM_goPanic] at hr; cases hr
    | some v =>
      simp only [hv, runM_pure, Res.ok.injEq, Prod.mk.injEq, Except.ok.injEq] at hr
      refine ⟨hr.2.symm, fun y hy hp => ?_⟩
      rw [← hr.1] at hy
      unfold fragment at hy
      dsimp only at hy
      split at hy
      · simp only [List.mem_singleton] at hy; exact hy
      · split at hy
        · simp only [List.mem_singleton] at hy; exact hy
        · split at hy
          · simp only [List.mem_singleton] at hy; exact hy
          · obtain ⟨j, -, -, hj⟩ := fragmentPieces_mem _ _ _ _ _ _ _ _ _ hy
            rw [hj, List.append_assoc, fragmentPrefix_not_marker] at hp
            cases hp

/-! ## 3. data messages -/

/-- **every data message** (`Send` in the encrypted state, the SMP calls, `End`, the extra key, `sendtlvs`, all
    built by `createSerializedDataMessage`): the conversation is committed to a version `v` and stays so, and
    every returned item that starts with "?OTR:" is the armour of bytes that start with the version field of `v` -/
theorem createSerializedDataMessage_wire (K : Crypto) (m : Bytes) (flag : Nat) (tlvs : List Tlv) (s s' : MState)
    (l : List Bytes) (x : Bytes)
    (hr : runM (createSerializedDataMessage K m flag tlvs) s = .ok (.ok (l, x), s')) :
    ∃ v raw, s.conv.version = some v ∧ s'.conv.version = some v ∧ HasVer v raw ∧
      ∀ y ∈ l, hasPrefix y msgMarker = true → y = armour raw ∧ decodeEnvelope y = some raw := by
  unfold createSerializedDataMessage at hr
  simp only [runM_bind] at hr
  obtain ⟨⟨dm, x0⟩, s1, h1, h2⟩ := bindM_ok_inv hr
  have hv1 : s1.conv.version = s.conv.version := congrArg Prod.fst (genDataMsgWithFlag_vp K m flag tlvs s _ s1 h1)
  obtain ⟨raw, s2, h3, h4⟩ := bindM_ok_inv h2
  obtain ⟨v, hv, hv2, hh⟩ := wrapMessageHeader_hasVer _ _ s1 s2 raw h3
  obtain ⟨_, s3, h5, h6⟩ := bindM_ok_inv h4
  have hv3 : s3.conv.version = s2.conv.version := congrArg Prod.fst (updateLastSent_vp s2 _ s3 h5)
  obtain ⟨l0, s4, h7, h8⟩ := bindM_ok_inv h6
  simp only [runM_pure, Res.ok.injEq, Prod.mk.injEq, Except.ok.injEq] at h8
  obtain ⟨hs4, hl0⟩ := fragEncode_wire raw s3 s4 l0 h7
  refine ⟨v, raw, by rw [← hv1]; exact hv, by rw [← h8.2, hs4, hv3]; exact hv2, hh, fun y hy hp => ?_⟩
  rw [← h8.1.1] at hy
  have := hl0 y hy hp
  exact ⟨this, by rw [this, decodeEnvelope_armour]⟩

/-- the reply `Send` queues when it cannot encrypt -/
def sendErrReply : Bytes := errorMarker ++ [32] ++ strBytes s!"E{ecEncryptionError}"

/-- **`Send` in the encrypted state, every state and every outcome.**  Each returned item is an injection that was
    already queued, or the error reply queued by this call — or, if it starts with "?OTR:", it is the armour of
    bytes starting with the version field of the version `v` the conversation is committed to before and after -/
theorem send_encrypted_emits (K : Crypto) (m : Bytes) (s s' : MState) (msgs : List Bytes) (err : Option Err)
    (hen : isOTREnabled s.conv.policies = true) (he : s.conv.msgState = .encrypted)
    (hr : runM (send K m) s = .ok (.ok (msgs, err), s')) :
    ∀ y ∈ msgs, y ∈ s.conv.injections ∨ y = sendErrReply ∨
      (hasPrefix y msgMarker = true → ∃ v raw, s.conv.version = some v ∧ s'.conv.version = some v ∧
        HasVer v raw ∧ y = armour raw ∧ decodeEnvelope y = some raw) := by
  unfold send at hr
  simp only [runM_bind, runM_getc, bindM_ok, hen, Bool.not_true, Bool.false_eq_true, if_false, he,
    runM_tryCatch] at hr
  cases hc : runM (createSerializedDataMessage K m messageFlagNormal []) s with
  | panic p => simp only [hc, bindM_panic, catchM_panic] at hr; cases hr
  | ok o =>
    obtain ⟨r, s1⟩ := o
    have hinj : s1.conv.injections = s.conv.injections := by
      have := createSerializedDataMessage_sendFrame K m messageFlagNormal [] s r s1 hc
      simp only [Keeps, sendKept, Prod.mk.injEq] at this
      exact this.2.2.2.2.2.2.2.2.2.2.2.2.2.2.2.2.1
    cases r with
    | ok lx =>
      obtain ⟨l, x⟩ := lx
      obtain ⟨v, raw, hv, hv1, hh, hl⟩ := createSerializedDataMessage_wire K m _ _ s s1 l x hc
      simp only [hc, bindM_ok, runM_pure, catchM_ok, withInjects, runM_bind, runM_getc, runM_modc, Res.ok.injEq,
        Prod.mk.injEq, Except.ok.injEq] at hr
      intro y hy
      rw [← hr.1.1, List.mem_append] at hy
      rcases hy with hy | hy
      · refine Or.inr (Or.inr fun hp => ⟨v, raw, hv, ?_, hh, hl y hy hp⟩)
        rw [← hr.2]; exact hv1
      · left; rw [← hinj]; exact hy
    | error e =>
      simp only [hc, bindM_error, catchM_error, runM_pure, bindM_ok, runM_bind, runM_evEncryptionError,
        generatePotentialErrorMessage, runM_getc, withInjects, runM_modc] at hr
      intro y hy
      split at hr
      · simp only [runM_modc, bindM_ok, runM_pure, runM_bind, runM_getc, List.nil_append, Res.ok.injEq,
          Prod.mk.injEq, Except.ok.injEq] at hr
        rw [← hr.1.1, List.mem_append, List.mem_singleton] at hy
        rcases hy with hy | hy
        · left; rw [← hinj]; exact hy
        · right; left; exact hy
      · simp only [runM_modc, bindM_ok, runM_pure, runM_bind, runM_getc, List.nil_append, Res.ok.injEq,
          Prod.mk.injEq, Except.ok.injEq] at hr
        rw [← hr.1.1] at hy
        left; rw [← hinj]; exact hy

/-! ## 4. the start of a key exchange -/

/-- the DH-Commit message that starts a key exchange carries the version field of the committed version -/
theorem sendDHCommit_ver (K : Crypto) (s s' : MState) (x : Bytes)
    (hr : runM (sendDHCommit K) s = .ok (.ok x, s')) :
    ∃ v, s.conv.version = some v ∧ s'.conv.version = some v ∧ HasVer v x := by
  have hvp : s'.conv.version = s.conv.version := congrArg Prod.fst (sendDHCommit_vp K s _ s' hr)
  unfold sendDHCommit at hr
  simp only [runM_bind, runM_modc, bindM_ok] at hr
  obtain ⟨m0, s1, h1, h2⟩ := bindM_ok_inv hr
  have hv1 : s1.conv.version = s.conv.version := congrArg Prod.fst (dhCommitMessage_vp K _ _ s1 h1)
  obtain ⟨m1, s2, h3, h4⟩ := bindM_ok_inv h2
  obtain ⟨v, hv, -, hh⟩ := wrapMessageHeader_hasVer _ _ s1 s2 m1 h3
  obtain ⟨_, s3, -, h6⟩ := bindM_ok_inv h4
  simp only [runM_pure, Res.ok.injEq, Prod.mk.injEq, Except.ok.injEq] at h6
  rw [← h6.1]
  exact ⟨v, by rw [← hv1]; exact hv, by rw [hvp, ← hv1]; exact hv, hh⟩

/-- **answer to a query message**: whatever `receiveQueryMessage` hands back to be sent (the DH-Commit message)
    starts with the version field of the version the conversation is committed to afterwards — a version the
    policy allows if the conversation had none before (`commitToVersionFrom_verF`) -/
theorem receiveQueryMessage_emits (K : Crypto) (msg : Bytes) (s s' : MState) (ts : List Bytes) (err : Option Err)
    (hr : runM (receiveQueryMessage K msg) s = .ok (.ok (ts, err), s')) :
    ∀ y ∈ ts, ∃ v, s'.conv.version = some v ∧ HasVer v y ∧
      (s.conv.version = none → allowsVersion s.conv.policies v = true) := by
  have hvf := receiveQueryMessage_vr commitToVersionFrom_verF K msg s _ s' hr
  unfold receiveQueryMessage at hr
  simp only [runM_bind, runM_getc, bindM_ok, runM_tryCatch] at hr
  obtain ⟨r, s1, h1, h2⟩ := bindM_ok_inv hr
  cases r with
  | some e =>
    simp only [runM_pure, Res.ok.injEq, Prod.mk.injEq, Except.ok.injEq] at h2
    intro y hy; rw [← h2.1.1] at hy; cases hy
  | none =>
    simp only [runM_getc, bindM_ok, runM_bind, runM_now] at h2
    rcases runM_ite_cases h2 with ⟨-, h2⟩ | ⟨-, h2⟩
    · simp only [runM_pure, Res.ok.injEq, Prod.mk.injEq, Except.ok.injEq] at h2
      intro y hy; rw [← h2.1.1] at hy; cases hy
    · simp only [runM_bind, runM_tryCatch] at h2
      obtain ⟨r2, s2, h3, h4⟩ := bindM_ok_inv h2
      cases r2 with
      | error e =>
        simp only [runM_bind, runM_pure] at h4
        obtain ⟨_, s3, -, h5⟩ := bindM_ok_inv h4
        simp only [Res.ok.injEq, Prod.mk.injEq, Except.ok.injEq] at h5
        intro y hy; rw [← h5.1.1] at hy; cases hy
      | ok x =>
        simp only [runM_pure, Res.ok.injEq, Prod.mk.injEq, Except.ok.injEq] at h4
        cases hx : runM (sendDHCommit K) s1 with
        | panic p => simp only [hx, bindM_panic, catchM_panic] at h3; cases h3
        | ok o =>
          obtain ⟨rx, sx⟩ := o
          cases rx with
          | error e =>
            simp only [hx, bindM_error, catchM_error, runM_pure, Res.ok.injEq, Prod.mk.injEq] at h3
            have := h3.1
            simp only [Except.ok.injEq, reduceCtorEq] at this
          | ok x' =>
            simp only [hx, bindM_ok, runM_pure, catchM_ok, Res.ok.injEq, Prod.mk.injEq, Except.ok.injEq] at h3
            obtain ⟨v, -, hv', hh⟩ := sendDHCommit_ver K s1 sx x' hx
            intro y hy
            rw [← h4.1.1, List.mem_singleton] at hy
            refine ⟨v, by rw [← h4.2, ← h3.2]; exact hv', by rw [hy, ← h3.1]; exact hh, fun hn => ?_⟩
            have hv2 : s'.conv.version = some v := by rw [← h4.2, ← h3.2]; exact hv'
            rcases hvf.2 v hv2 with h | h
            · rw [hn] at h; cases h
            · exact h

/-! ## 5. the hypotheses are satisfiable -/

/-- an encrypted OTRv2 conversation some messages in -/
def vEncrypted : MState :=
  ⟨{ version := some .v2, policies := allowV2, msgState := .encrypted, keys := Keys.example1 }, {}, [], []⟩

/-- `Send` from it returns exactly one item, which starts with "?OTR:" and decodes to bytes starting 0x00 0x02 -/
example : (match runM (send vCrypto [104, 105]) vEncrypted with
    | .ok (.ok ([y], none), s') =>
      hasPrefix y msgMarker && ((decodeEnvelope y).map (·.take 2) == some (be16 2)) && (s'.conv.version == some .v2)
    | _ => false) = true := by
  decide +kernel

example : isOTREnabled vEncrypted.conv.policies = true ∧ vEncrypted.conv.msgState = .encrypted := by decide

/-- a query message offering version 3 makes the fresh conversation `vFresh23` answer with a DH-Commit message
    whose first two bytes are 0x00 0x03 -/
example : (match runM (receiveQueryMessage vCrypto (strBytes "?OTRv23?")) ⟨vFresh23, vEnv, [], []⟩ with
    | .ok (.ok ([y], none), s') => (y.take 2 == be16 3) && (s'.conv.version == some .v3)
    | _ => false) = true := by
  decide +kernel

end Otr
