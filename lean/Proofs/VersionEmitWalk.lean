/-
  Proofs.VersionEmitWalk — groundwork for Proofs.VersionEmit2 (property C16, emission):
  §0 `VerMsg ver y` (y starts with the field of the set version `ver`), `Good ver st` (what an authentication state
     must satisfy under version `ver`), the result logic `Yields ver Q x` with its rules (pure, throw, bind, bind',
     tryCatch, ite, wrap, forIn), the tactic `vp_all`;
  §1 the four handlers: `RecvQ`, `recvDHCommitNone/recvDHCommit/recvDHKey/recvSig/recvRevealSig_yields`;
  §2 retransmission: `TagOK`, `Est`, `messageHeader_est`, `wrapMessageHeader_no_throw`, `genDataMsgWithFlag_est`,
     `retransmit_yields`, `maybeRetransmit_yields`, `retransmitAfterCompletedExchange_yields`;
  §3 the frame `KI` (injection queue unchanged) through `processAKE` and `sendDHCommit`.
-/
import Proofs.VersionEmit
set_option linter.unusedSimpArgs false
set_option linter.unusedVariables false
namespace Otr

/-! ## 0. vocabulary -/

/-- `y` starts with the version field of the version `ver` (which is set) -/
def VerMsg (ver : Option Version) (y : Bytes) : Prop := ∃ v, ver = some v ∧ HasVer v y

/-- what the authentication state `st` must satisfy in a conversation whose version is `ver`: an exchange is in
    progress only in a conversation committed to a version, and the Reveal-Signature message stored in
    AWAITING_SIG (to be retransmitted on a repeated D-H Key message) starts with the field of that version -/
def Good (ver : Option Version) : AuthState → Prop
  | .none => True
  | .awaitingSig rs => VerMsg ver rs
  | _ => ver.isSome = true

theorem Good.isSome {ver : Option Version} {st : AuthState} (h : Good ver st) (hn : st ≠ .none) : ver.isSome = true := by
  cases st with
  | none => exact absurd rfl hn
  | awaitingSig rs => obtain ⟨v, hv, -⟩ := h; rw [hv]; rfl
  | awaitingDHKey => exact h
  | awaitingRevealSig => exact h

theorem Good.none (ver : Option Version) : Good ver .none := trivial

/-- result-only postcondition of a computation that runs in a conversation of version `ver` -/
def Yields {α} (ver : Option Version) (Q : α → Prop) (x : M α) : Prop :=
  ∀ s a s', s.conv.version = ver → runM x s = .ok (.ok a, s') → Q a

theorem vp_version {α} {x : M α} (h : Stable VPFrame x) {s : MState} {r : Except Err α} {s' : MState}
    (hr : runM x s = .ok (r, s')) : s'.conv.version = s.conv.version := congrArg Prod.fst (h s r s' hr)

section YieldsRules
variable {α β : Type} {ver : Option Version}

theorem Yields.pure {Q : α → Prop} {a : α} (h : Q a) : Yields ver Q (pure a : M α) := by
  intro s b s' _ hr
  simp only [runM_pure, Res.ok.injEq, Prod.mk.injEq, Except.ok.injEq] at hr
  rw [← hr.1]; exact h

theorem Yields.throw {Q : α → Prop} (e : Err) : Yields ver Q (throw e : M α) := by
  intro s b s' _ hr
  simp only [runM_throw, Res.ok.injEq, Prod.mk.injEq, reduceCtorEq, false_and] at hr

theorem Yields.goPanic {Q : α → Prop} (site : String) : Yields ver Q (goPanic site : M α) := by
  intro s b s' _ hr
  simp only [runM_goPanic, reduceCtorEq] at hr

theorem Yields.throw_bind {Q : β → Prop} (e : Err) (f : α → M β) : Yields ver Q ((MonadExcept.throw e : M α) >>= f) := by
  intro s b s' _ hr
  simp only [runM_bind, runM_throw, bindM_error, Res.ok.injEq, Prod.mk.injEq, reduceCtorEq, false_and] at hr

theorem Yields.mono {P Q : α → Prop} {x : M α} (hx : Yields ver P x) (h : ∀ a, P a → Q a) : Yields ver Q x :=
  fun s a s' hv hr => h a (hx s a s' hv hr)

theorem Yields.bind {P : α → Prop} {Q : β → Prop} {x : M α} {f : α → M β}
    (hx : Yields ver P x) (hv : Stable VPFrame x) (hf : ∀ a, P a → Yields ver Q (f a)) : Yields ver Q (x >>= f) := by
  intro s b s' hs hr
  rw [runM_bind] at hr
  obtain ⟨a, s1, h1, h2⟩ := bindM_ok_inv hr
  exact hf a (hx s a s1 hs h1) s1 b s' ((vp_version hv h1).trans hs) h2

theorem Yields.bind' {Q : β → Prop} {x : M α} {f : α → M β}
    (hv : Stable VPFrame x) (hf : ∀ a, Yields ver Q (f a)) : Yields ver Q (x >>= f) :=
  Yields.bind (P := fun _ => True) (fun _ _ _ _ _ => trivial) hv (fun a _ => hf a)

theorem Yields.tryCatch {Q : α → Prop} {x : M α} {h : Err → M α}
    (hx : Yields ver Q x) (hv : Stable VPFrame x) (hh : ∀ e, Yields ver Q (h e)) : Yields ver Q (tryCatch x h) := by
  intro s a s' hs hr
  rw [runM_tryCatch] at hr
  cases hx' : runM x s with
  | panic p => rw [hx'] at hr; cases hr
  | ok v =>
    obtain ⟨v, s1⟩ := v
    rw [hx'] at hr
    cases v with
    | ok a0 =>
      simp only [catchM_ok, Res.ok.injEq, Prod.mk.injEq, Except.ok.injEq] at hr
      rw [← hr.1]; exact hx s a0 s1 hs hx'
    | error e =>
      simp only [catchM_error] at hr
      exact hh e s1 a s' ((vp_version hv hx').trans hs) hr

theorem Yields.ite {Q : α → Prop} {c : Prop} [Decidable c] {x y : M α} (hx : Yields ver Q x) (hy : Yields ver Q y) :
    Yields ver Q (if c then x else y) := by
  split <;> assumption

theorem Yields.wrap (t : Nat) (m : Bytes) : Yields ver (VerMsg ver) (wrapMessageHeader t m) := by
  intro s x s' hs hr
  obtain ⟨v, hv, -, hh⟩ := wrapMessageHeader_hasVer t m s s' x hr
  exact ⟨v, hs ▸ hv, hh⟩

end YieldsRules

/-- every `Stable VPFrame` fact of Proofs.VersionVP at once -/
macro "vp_all" : tactic => `(tactic| vp_walk [msgEvent_vp, msgEventMsg_vp, msgEventErr_vp, secEvent_vp, smpEvent_vp,
  smpEventQ_vp, randRead_vp, randomInto_vp, signOracle_vp, messageHeader_vp, wrapMessageHeader_vp,
  genDataMsgWithFlag_vp, createSerializedDataMessage_vp, updateLastSent_vp, fragEncode_vp, withInjects_vp,
  generatePotentialErrorMessage_vp, malformedMessage_vp, resendLater_vp, resendLast_vp, verifyInstanceTags_vp,
  parseMessageHeader_vp, toSendEncoded_vp, getAke_vp, modAke_vp, optNat_vp, akeEncrypt_vp, resToM_vp, initAKE_vp,
  setSecretExponent_vp, generateEncryptedSignature_vp, calcAKEKeys_vp, serializeDHCommit_vp, serializeDHKey_vp,
  dhCommitMessage_vp, dhKeyMessage_vp, revealSigMessage_vp, sigMessage_vp, processDHCommit_vp, processDHKey_vp,
  processEncryptedSig_vp, processRevealSig_vp, processSig_vp, akeSetTheirCurrent_vp, akeSetOurCurrent_vp,
  akeHasFinished_vp, recvDHCommitNone_vp, recvDHCommit_vp, recvDHKey_vp, recvRevealSig_vp, recvSig_vp,
  sendDHCommit_vp, retransmit_vp, maybeRetransmit_vp, retransmitAfterCompletedExchange_vp, processAKE_vp,
  processSMPTLV_vp, processDisconnectedTLV_vp, processExtraSymmetricKeyTLV_vp, processTLVs_vp,
  processDataMessageTail_vp, processDataMessageRaw_vp, potentialHeartbeat_vp, notifyDataMessageError_vp,
  receiveDataMessage_vp, checkPlaintextPolicies_vp, receiveErrorMessage_vp])

/-! ## 1. the four message handlers of the key exchange -/

/-- what a handler called in state `st` returns: the new state is `Good`, the reply (if any) carries the version -/
def RecvQ (ver : Option Version) (st : AuthState) (r : AuthState × Option Bytes × Option Err) : Prop :=
  Good ver st → Good ver r.1 ∧ ∀ y, r.2.1 = some y → VerMsg ver y

theorem akeTry_yields {ver : Option Version} {st : AuthState} {Q : AuthState × Option Bytes × Option Err → Prop}
    {x : M (AuthState × Option Bytes × Option Err)} (hx : Yields ver Q x) (hv : Stable VPFrame x)
    (hq : ∀ e, Q (st, none, some e)) : Yields ver Q (akeTry st x) :=
  Yields.tryCatch hx hv (fun e => Yields.pure (hq e))

theorem VerMsg.isSome {ver : Option Version} {y : Bytes} (h : VerMsg ver y) : ver.isSome = true := by
  obtain ⟨v, hv, -⟩ := h; rw [hv]; rfl

theorem recvQ_same (ver : Option Version) (st : AuthState) (e : Option Err) : RecvQ ver st (st, none, e) :=
  fun hg => ⟨hg, fun y hy => by cases hy⟩

theorem recvDHCommitNone_yields (K : Crypto) (msg : Bytes) (ver : Option Version) (st : AuthState) :
    Yields ver (RecvQ ver st) (recvDHCommitNone K msg) := by
  unfold recvDHCommitNone
  refine akeTry_yields ?_ (by vp_all) (fun e hg => ⟨trivial, fun y hy => by cases hy⟩)
  refine Yields.bind' (by vp_all) fun _ => ?_
  refine Yields.bind' (by vp_all) fun m0 => ?_
  refine Yields.bind (Yields.wrap _ _) (by vp_all) fun m hm => ?_
  refine Yields.bind' (by vp_all) fun _ => ?_
  exact Yields.pure (fun _ => ⟨hm.isSome, fun y hy => by cases hy; exact hm⟩)

theorem recvDHCommit_yields (K : Crypto) (st : AuthState) (msg : Bytes) (ver : Option Version) :
    Yields ver (RecvQ ver st) (recvDHCommit K st msg) := by
  unfold recvDHCommit
  cases st with
  | none => exact recvDHCommitNone_yields K msg ver _
  | awaitingSig rs =>
    dsimp only
    exact Yields.ite (Yields.pure (recvQ_same _ _ _)) (recvDHCommitNone_yields K msg ver _)
  | awaitingRevealSig =>
    dsimp only
    refine akeTry_yields ?_ (by vp_all) (fun e => recvQ_same _ _ _)
    refine Yields.ite (Yields.throw_bind _ _) ?_
    refine Yields.bind' (by vp_all) fun _ => ?_
    refine Yields.bind' (by vp_all) fun _ => ?_
    refine Yields.bind' (by vp_all) fun _ => ?_
    refine Yields.bind (Yields.wrap _ _) (by vp_all) fun m hm => ?_
    exact Yields.pure (fun _ => ⟨hm.isSome, fun y hy => by cases hy; exact hm⟩)
  | awaitingDHKey =>
    dsimp only
    split
    · exact Yields.pure (recvQ_same _ _ _)
    · split
      · exact Yields.pure (recvQ_same _ _ _)
      · refine Yields.bind' (by vp_all) fun _ => ?_
        refine Yields.bind' (by vp_all) fun _ => ?_
        refine Yields.ite ?_ (recvDHCommitNone_yields K msg ver _)
        refine akeTry_yields ?_ (by vp_all) (fun e => recvQ_same _ _ _)
        refine Yields.bind' (by vp_all) fun _ => ?_
        refine Yields.bind (Yields.wrap _ _) (by vp_all) fun m hm => ?_
        exact Yields.pure (fun _ => ⟨hm.isSome, fun y hy => by cases hy; exact hm⟩)

theorem recvDHKey_yields (K : Crypto) (st : AuthState) (msg : Bytes) (ver : Option Version) :
    Yields ver (RecvQ ver st) (recvDHKey K st msg) := by
  unfold recvDHKey
  cases st with
  | none => exact Yields.pure (recvQ_same _ _ _)
  | awaitingRevealSig => exact Yields.pure (recvQ_same _ _ _)
  | awaitingDHKey =>
    dsimp only
    refine akeTry_yields ?_ (by vp_all) (fun e => recvQ_same _ _ _)
    refine Yields.bind' (by vp_all) fun _ => ?_
    refine Yields.bind' (by vp_all) fun _ => ?_
    refine Yields.bind (Yields.wrap _ _) (by vp_all) fun m hm => ?_
    refine Yields.bind' (by vp_all) fun _ => ?_
    refine Yields.bind' (by vp_all) fun _ => ?_
    refine Yields.bind' (by vp_all) fun _ => ?_
    refine Yields.bind' (by vp_all) fun _ => ?_
    exact Yields.pure (fun _ => ⟨hm, fun y hy => by cases hy; exact hm⟩)
  | awaitingSig rs =>
    dsimp only
    refine akeTry_yields ?_ (by vp_all) (fun e => recvQ_same _ _ _)
    refine Yields.bind' (by vp_all) fun same => ?_
    refine Yields.ite (Yields.pure fun hg => ⟨hg, fun y hy => by cases hy; exact hg⟩) (Yields.pure (recvQ_same _ _ _))

theorem recvSig_yields (K : Crypto) (st : AuthState) (msg : Bytes) (ver : Option Version) :
    Yields ver (RecvQ ver st) (recvSig K st msg) := by
  unfold recvSig
  cases st with
  | none => exact Yields.pure (recvQ_same _ _ _)
  | awaitingRevealSig => exact Yields.pure (recvQ_same _ _ _)
  | awaitingDHKey => exact Yields.pure (recvQ_same _ _ _)
  | awaitingSig rs =>
    dsimp only
    refine akeTry_yields ?_ (by vp_all) (fun e => recvQ_same _ _ _)
    refine Yields.bind' (by vp_all) fun _ => ?_
    refine Yields.bind' (by vp_all) fun _ => ?_
    refine Yields.bind' (by vp_all) fun _ => ?_
    exact Yields.pure (fun _ => ⟨trivial, fun y hy => by cases hy⟩)

theorem recvRevealSig_yields (K : Crypto) (st : AuthState) (msg : Bytes) (ver : Option Version) :
    Yields ver (RecvQ ver st) (recvRevealSig K st msg) := by
  unfold recvRevealSig
  cases st with
  | none => exact Yields.pure (recvQ_same _ _ _)
  | awaitingSig rs => exact Yields.pure (recvQ_same _ _ _)
  | awaitingDHKey => exact Yields.pure (recvQ_same _ _ _)
  | awaitingRevealSig =>
    dsimp only
    refine akeTry_yields ?_ (by vp_all) (fun e => recvQ_same _ _ _)
    refine Yields.bind' (by vp_all) fun _ => ?_
    refine Yields.bind' (by vp_all) fun _ => ?_
    refine Yields.bind (P := VerMsg ver) ?_ (by vp_all) fun m hm => ?_
    · refine Yields.tryCatch ?_ (by vp_all) (fun e => ?_)
      · refine Yields.bind' (by vp_all) fun _ => ?_
        exact Yields.wrap _ _
      · refine Yields.bind' (by vp_all) fun _ => ?_
        exact Yields.throw _
    refine Yields.bind' (by vp_all) fun _ => ?_
    refine Yields.bind' (by vp_all) fun _ => ?_
    refine Yields.bind' (by vp_all) fun _ => ?_
    refine Yields.bind' (by vp_all) fun _ => ?_
    refine Yields.bind' (by vp_all) fun _ => ?_
    exact Yields.pure (fun _ => ⟨trivial, fun y hy => by cases hy; exact hm⟩)

/-! ## 2. retransmission: a header that was built once is built again (the instance tag is there) -/

/-- an OTRv3 conversation has its instance tag -/
def TagOK (s : MState) : Prop := s.conv.version = some .v3 → s.conv.ourTag ≠ 0

def TagF (s s' : MState) : Prop := TagOK s → TagOK s'

instance : Frame TagF where
  refl _ := id
  trans h1 h2 := fun h => h2 (h1 h)

/-- a normal return of `x` establishes `TagOK` -/
def Est {α} (x : M α) : Prop := ∀ s a s', runM x s = .ok (.ok a, s') → TagOK s'

theorem Est.bind_right {α β} {x : M α} {f : α → M β} (hf : ∀ a, Est (f a)) : Est (x >>= f) := by
  intro s b s' hr
  rw [runM_bind] at hr
  obtain ⟨a, s1, -, h2⟩ := bindM_ok_inv hr
  exact hf a s1 b s' h2

theorem Est.bind_left {α β} {x : M α} {f : α → M β} (hx : Est x) (hf : ∀ a, Stable TagF (f a)) : Est (x >>= f) := by
  intro s b s' hr
  rw [runM_bind] at hr
  obtain ⟨a, s1, h1, h2⟩ := bindM_ok_inv hr
  exact hf a s1 _ s' h2 (hx s a s1 h1)

theorem Est.throw {α} (e : Err) : Est (throw e : M α) := by
  intro s b s' hr
  simp only [runM_throw, Res.ok.injEq, Prod.mk.injEq, reduceCtorEq, false_and] at hr

theorem Est.throw_bind {α β} (e : Err) (f : α → M β) : Est ((MonadExcept.throw e : M α) >>= f) := by
  intro s b s' hr
  simp only [runM_bind, runM_throw, bindM_error, Res.ok.injEq, Prod.mk.injEq, reduceCtorEq, false_and] at hr

theorem messageHeader_est (t : Nat) : Est (messageHeader t) := by
  intro s h s' hr
  unfold messageHeader at hr
  simp only [runM_bind, runM_getc, bindM_ok] at hr
  cases hv : s.conv.version with
  | none => simp only [hv, runM_goPanic] at hr; cases hr
  | some v =>
    cases v with
    | v2 =>
      simp only [hv, runM_pure, Res.ok.injEq, Prod.mk.injEq] at hr
      intro h3; rw [← hr.2, hv] at h3; cases h3
    | v3 =>
      simp only [hv, runM_bind] at hr
      obtain ⟨_, s1, h1, h2⟩ := bindM_ok_inv hr
      simp only [runM_getc, bindM_ok, runM_pure, Res.ok.injEq, Prod.mk.injEq] at h2
      have ht := (generateInstanceTag_tag s _ s1 h1).1 rfl
      intro _
      rw [← h2.2]
      by_cases h0 : s.conv.ourTag = 0
      · have := (ht.2 h0).1; omega
      · rw [ht.1 h0]; exact h0

theorem messageHeader_no_throw (t : Nat) (s : MState) (e : Err) (s' : MState) (h : TagOK s) :
    runM (messageHeader t) s ≠ .ok (.error e, s') := by
  unfold messageHeader
  simp only [runM_bind, runM_getc, bindM_ok]
  cases hv : s.conv.version with
  | none => simp only [runM_goPanic]; exact fun h => by cases h
  | some v =>
    cases v with
    | v2 => simp only [runM_pure]; exact fun h => by cases h
    | v3 =>
      simp only [runM_bind, generateInstanceTag_noop s (h hv), bindM_ok, runM_getc, runM_pure]
      exact fun h => by cases h

theorem wrapMessageHeader_no_throw (t : Nat) (m : Bytes) (s : MState) (e : Err) (s' : MState) (h : TagOK s) :
    runM (wrapMessageHeader t m) s ≠ .ok (.error e, s') := by
  unfold wrapMessageHeader
  rw [runM_bind]
  cases hh : runM (messageHeader t) s with
  | panic p => exact fun h => by cases h
  | ok o =>
    obtain ⟨r, s1⟩ := o
    cases r with
    | error e1 => exact absurd hh (messageHeader_no_throw t s e1 s1 h)
    | ok a => simp only [bindM_ok, runM_pure]; exact fun h => by cases h

theorem resendLast_tagF (m : Bytes) : Stable TagF (resendLast m) := by
  unfold resendLast
  stable [Stable.modc _ (fun _ h => h)]

theorem genDataMsgWithFlag_est (K : Crypto) (m : Bytes) (flag : Nat) (tlvs : List Tlv) :
    Est (genDataMsgWithFlag K m flag tlvs) := by
  unfold genDataMsgWithFlag
  repeat' (first
    | exact Est.throw _
    | exact Est.throw_bind _ _
    | (refine Est.bind_left (messageHeader_est _) (fun header => ?_)
       stable [Stable.modc _ (fun _ h => h), resendLast_tagF])
    | with_reducible apply Est.bind_right
    | with_reducible intro _
    | split
    | dsimp only)

theorem Yields.forIn {γ σ : Type} {ver : Option Version} (Inv : σ → Prop) (l : List γ) (init : σ)
    (f : γ → σ → M (ForInStep σ)) (h0 : Inv init)
    (hf : ∀ a b, Inv b → Yields ver (fun r => match r with | .yield b' => Inv b' | .done b' => Inv b') (f a b))
    (hv : ∀ a b, Stable VPFrame (f a b)) : Yields ver Inv (forIn l init f) := by
  induction l generalizing init with
  | nil => exact Yields.pure h0
  | cons a l ih =>
    rw [List.forIn_cons]
    refine Yields.bind (hf a init h0) (hv a init) fun r hr => ?_
    cases r with
    | done b => exact Yields.pure hr
    | yield b => exact ih b hr

/-- all items carry the version -/
def AllVer (ver : Option Version) (l : List Bytes) : Prop := ∀ y ∈ l, VerMsg ver y

theorem retransmit_yields (K : Crypto) (ver : Option Version) : Yields ver (AllVer ver) (retransmit K) := by
  unfold retransmit
  refine Yields.bind' (by vp_all) fun c => ?_
  refine Yields.bind' (by vp_all) fun _ => ?_
  refine Yields.bind' (by vp_all) fun _ => ?_
  refine Yields.bind (P := fun r => ∀ ret, r = some ret → AllVer ver ret) ?_ (by vp_all) fun r hr => ?_
  · refine Yields.tryCatch ?_ (by vp_all) (fun e => Yields.pure (fun ret h => by cases h))
    refine Yields.bind (P := AllVer ver) ?_ (by vp_all) fun ret hret => ?_
    · refine Yields.forIn (AllVer ver) _ _ _ (fun y hy => by cases hy) ?_ (fun a b => by vp_all)
      intro m ret hret s r s' hs hr
      dsimp only at hr
      rw [runM_bind] at hr
      obtain ⟨⟨dm, x⟩, s1, h1, h2⟩ := bindM_ok_inv hr
      dsimp only at h2
      rw [runM_bind] at h2
      obtain ⟨ts, s2, h3, h4⟩ := bindM_ok_inv h2
      simp only [runM_pure, Res.ok.injEq, Prod.mk.injEq, Except.ok.injEq] at h4
      rw [← h4.1]
      have hs1 : s1.conv.version = ver := (vp_version (genDataMsgWithFlag_vp K _ _ _) h1).trans hs
      have ht1 : TagOK s1 := genDataMsgWithFlag_est K _ _ _ s _ s1 h1
      rw [runM_tryCatch] at h3
      cases hw : runM (wrapMessageHeader msgTypeData dm.serialize) s1 with
      | panic p => rw [hw] at h3; cases h3
      | ok o =>
        obtain ⟨rw', sw⟩ := o
        cases rw' with
        | error e => exact absurd hw (wrapMessageHeader_no_throw _ _ s1 e sw ht1)
        | ok w =>
          rw [hw] at h3
          simp only [catchM_ok, Res.ok.injEq, Prod.mk.injEq, Except.ok.injEq] at h3
          have hwv : VerMsg ver w := Yields.wrap _ _ s1 w sw hs1 hw
          intro y hy
          rw [List.mem_append, List.mem_singleton] at hy
          rcases hy with hy | hy
          · exact hret y hy
          · rw [hy, ← h3.1]; exact hwv
    · exact Yields.pure (fun r h => by cases h; exact hret)
  · cases r with
    | none =>
      dsimp only
      refine Yields.bind' (by vp_all) fun _ => ?_
      exact Yields.pure (fun y hy => by cases hy)
    | some ret =>
      dsimp only
      refine Yields.bind' (by vp_all) fun _ => ?_
      refine Yields.bind' (by vp_all) fun _ => ?_
      refine Yields.bind' (by vp_all) fun _ => ?_
      exact Yields.pure (hr ret rfl)

theorem AllVer.nil (ver : Option Version) : AllVer ver [] := fun y hy => by cases hy

theorem maybeRetransmit_yields (K : Crypto) (ver : Option Version) : Yields ver (AllVer ver) (maybeRetransmit K) := by
  unfold maybeRetransmit
  refine Yields.bind' (by vp_all) fun c => ?_
  exact Yields.ite (retransmit_yields K ver) (Yields.pure (AllVer.nil ver))

theorem retransmitAfterCompletedExchange_yields (K : Crypto) (b a : AuthState) (e : Option Err)
    (ver : Option Version) : Yields ver (AllVer ver) (retransmitAfterCompletedExchange K b a e) := by
  unfold retransmitAfterCompletedExchange
  split
  · exact Yields.pure (AllVer.nil ver)
  · refine Yields.bind (maybeRetransmit_yields K ver) (by vp_all) fun toSend hts => ?_
    refine Yields.bind' (by vp_all) fun c => ?_
    refine Yields.ite ?_ (Yields.pure hts)
    refine Yields.tryCatch ?_ (by vp_all) (fun e => Yields.pure (AllVer.nil ver))
    refine Yields.bind' (by vp_all) fun p => ?_
    refine Yields.bind (Yields.wrap _ _) (by vp_all) fun m hm => ?_
    exact Yields.pure (fun y hy => by rw [List.mem_singleton] at hy; rw [hy]; exact hm)
  · exact Yields.pure (AllVer.nil ver)

/-! ## 3. the injection queue: untouched by the key exchange -/

def kiKept (s : MState) := s.conv.injections
abbrev KI : MState → MState → Prop := Keeps kiKept

macro "ki_leaf" : tactic => `(tactic| first
  | exact Stable.modc _ (fun _ => rfl)
  | (refine Stable.modc _ (fun s => ?_); show kiKept _ = kiKept _; unfold kiKept; (try dsimp only);
     split <;> rfl)
  | exact Stable.mism _ (fun _ => rfl)
  | exact Stable.ev _ (fun _ => rfl))

macro "ki_core" : tactic => `(tactic| first
  | exact Stable.pure _ | exact Stable.throw _ | exact Stable.goPanic _
  | exact Stable.getc | exact Stable.get | exact Stable.now
  | ki_leaf
  | with_reducible apply Stable.bind | with_reducible apply Stable.tryCatch
  | with_reducible apply Stable.ite | with_reducible apply Stable.map
  | with_reducible apply Stable.forIn)

syntax "ki_walk" "[" term,* "]" : tactic
macro_rules
  | `(tactic| ki_walk [$ls,*]) => do
    let tacs ← ls.getElems.mapM fun l => `(tactic| with_reducible apply $l)
    `(tactic| repeat' (first | ki_core $[| $tacs:tactic]* | with_reducible intro _ | split | dsimp only))

theorem Stable.send_ki {α} {x : M α} (h : Stable SendFrame x) : Stable KI x :=
  Stable.mono (fun s s' hs => by
    have h2 : sendKept s' = sendKept s := hs
    unfold sendKept at h2
    simp only [Prod.mk.injEq] at h2
    exact h2.2.2.2.2.2.2.2.2.2.2.2.2.2.2.2.2.1) h

theorem msgEvent_ki (n : Nat) : Stable KI (msgEvent n) := by
  unfold msgEvent; ki_walk []
theorem secEvent_ki (n : Nat) : Stable KI (secEvent n) := by
  unfold secEvent; ki_walk []
theorem randRead_ki (n : Nat) : Stable KI (randRead n) := (randRead_sendFrame n).send_ki
theorem randomInto_ki (n : Nat) : Stable KI (randomInto n) := (randomInto_sendFrame n).send_ki
theorem signOracle_ki (mb : Bytes) : Stable KI (signOracle mb) := by
  intro s r s' h
  obtain ⟨r0, env', mm', hr⟩ := signOracle_run mb s
  rw [hr] at h
  simp only [Res.ok.injEq, Prod.mk.injEq] at h
  rw [← h.2]; rfl
theorem messageHeader_ki (t : Nat) : Stable KI (messageHeader t) := (messageHeader_sendFrame t).send_ki
theorem wrapMessageHeader_ki (t : Nat) (m : Bytes) : Stable KI (wrapMessageHeader t m) := by
  unfold wrapMessageHeader; ki_walk [messageHeader_ki]
theorem genDataMsgWithFlag_ki (K : Crypto) (m : Bytes) (f : Nat) (tlvs : List Tlv) :
    Stable KI (genDataMsgWithFlag K m f tlvs) := (genDataMsgWithFlag_sendFrame K m f tlvs).send_ki
theorem updateLastSent_ki : Stable KI updateLastSent := by
  unfold updateLastSent; ki_walk []
theorem getAke_ki : Stable KI getAke := by
  unfold getAke; ki_walk []
theorem modAke_ki (f : Ake → Ake) : Stable KI (modAke f) := by
  unfold modAke; ki_walk []
theorem optNat_ki (site : String) (v : Option Nat) : Stable KI (optNat site v) := by
  unfold optNat; ki_walk []
theorem akeEncrypt_ki (K : Crypto) (key data : Bytes) : Stable KI (akeEncrypt K key data) := by
  unfold akeEncrypt; ki_walk []
theorem resToM_ki {α} (r : Res α) : Stable KI (resToM r) := by
  unfold resToM; ki_walk []
theorem initAKE_ki : Stable KI initAKE := by
  unfold initAKE; ki_walk []
theorem setSecretExponent_ki (K : Crypto) (x : Bytes) : Stable KI (setSecretExponent K x) := by
  unfold setSecretExponent; ki_walk [modAke_ki]
theorem generateEncryptedSignature_ki (K : Crypto) (key : AkeKeys) :
    Stable KI (generateEncryptedSignature K key) := by
  unfold generateEncryptedSignature
  ki_walk [getAke_ki, optNat_ki, signOracle_ki, akeEncrypt_ki]
theorem calcAKEKeys_ki (K : Crypto) : Stable KI (calcAKEKeys K) := by
  unfold calcAKEKeys; ki_walk [getAke_ki, optNat_ki, modAke_ki]
theorem serializeDHCommit_ki (K : Crypto) : Stable KI (serializeDHCommit K) := by
  unfold serializeDHCommit; ki_walk [getAke_ki, optNat_ki]
theorem serializeDHKey_ki : Stable KI serializeDHKey := by
  unfold serializeDHKey; ki_walk [getAke_ki, optNat_ki]
theorem dhCommitMessage_ki (K : Crypto) : Stable KI (dhCommitMessage K) := by
  unfold dhCommitMessage
  ki_walk [initAKE_ki, randomInto_ki, setSecretExponent_ki, modAke_ki, getAke_ki, optNat_ki,
    akeEncrypt_ki, serializeDHCommit_ki]
theorem dhKeyMessage_ki (K : Crypto) : Stable KI (dhKeyMessage K) := by
  unfold dhKeyMessage
  ki_walk [initAKE_ki, randomInto_ki, setSecretExponent_ki, serializeDHKey_ki]
theorem revealSigMessage_ki (K : Crypto) : Stable KI (revealSigMessage K) := by
  unfold revealSigMessage
  ki_walk [calcAKEKeys_ki, modAke_ki, getAke_ki, generateEncryptedSignature_ki, resToM_ki]
theorem sigMessage_ki (K : Crypto) : Stable KI (sigMessage K) := by
  unfold sigMessage
  ki_walk [modAke_ki, getAke_ki, generateEncryptedSignature_ki, resToM_ki]
theorem processDHCommit_ki (m : Bytes) : Stable KI (processDHCommit m) := by
  unfold processDHCommit; ki_walk [modAke_ki]
theorem processDHKey_ki (m : Bytes) : Stable KI (processDHKey m) := by
  unfold processDHKey; ki_walk [modAke_ki, getAke_ki]
theorem processEncryptedSig_ki (K : Crypto) (es tm : Bytes) (keys : AkeKeys) :
    Stable KI (processEncryptedSig K es tm keys) := by
  unfold processEncryptedSig; ki_walk [modAke_ki, getAke_ki, optNat_ki]
theorem processRevealSig_ki (K : Crypto) (m : Bytes) : Stable KI (processRevealSig K m) := by
  unfold processRevealSig
  ki_walk [modAke_ki, getAke_ki, calcAKEKeys_ki, processEncryptedSig_ki]
theorem processSig_ki (K : Crypto) (m : Bytes) : Stable KI (processSig K m) := by
  unfold processSig; ki_walk [getAke_ki, processEncryptedSig_ki]
theorem akeSetTheirCurrent_ki : Stable KI akeSetTheirCurrent := by
  unfold akeSetTheirCurrent; ki_walk [modAke_ki, getAke_ki, optNat_ki]
theorem akeSetOurCurrent_ki : Stable KI akeSetOurCurrent := by
  unfold akeSetOurCurrent; ki_walk [modAke_ki, getAke_ki, optNat_ki]
theorem akeHasFinished_ki (K : Crypto) : Stable KI (akeHasFinished K) := by
  intro s r s' h
  cases ha : s.conv.ake with
  | none => rw [akeHasFinished_none K s ha] at h; cases h
  | some a =>
    obtain ⟨r0, env', mm', hs, h'⟩ := akeHasFinished_run K s a ha
    rw [h'] at h
    simp only [Res.ok.injEq, Prod.mk.injEq] at h
    rw [← h.2]; rfl
theorem recvDHCommitNone_ki (K : Crypto) (m : Bytes) : Stable KI (recvDHCommitNone K m) := by
  unfold recvDHCommitNone akeTry
  ki_walk [modAke_ki, dhKeyMessage_ki, wrapMessageHeader_ki, processDHCommit_ki]
theorem recvDHCommit_ki (K : Crypto) (st : AuthState) (m : Bytes) : Stable KI (recvDHCommit K st m) := by
  unfold recvDHCommit akeTry
  ki_walk [recvDHCommitNone_ki, modAke_ki, processDHCommit_ki, wrapMessageHeader_ki, serializeDHKey_ki,
    serializeDHCommit_ki, getAke_ki, optNat_ki]
theorem recvDHKey_ki (K : Crypto) (st : AuthState) (m : Bytes) : Stable KI (recvDHKey K st m) := by
  unfold recvDHKey akeTry
  ki_walk [processDHKey_ki, revealSigMessage_ki, wrapMessageHeader_ki, akeSetTheirCurrent_ki,
    akeSetOurCurrent_ki, modAke_ki]
theorem recvRevealSig_ki (K : Crypto) (st : AuthState) (m : Bytes) : Stable KI (recvRevealSig K st m) := by
  unfold recvRevealSig akeTry
  ki_walk [processRevealSig_ki, sigMessage_ki, wrapMessageHeader_ki, akeSetTheirCurrent_ki,
    akeSetOurCurrent_ki, modAke_ki, akeHasFinished_ki]
theorem recvSig_ki (K : Crypto) (st : AuthState) (m : Bytes) : Stable KI (recvSig K st m) := by
  unfold recvSig akeTry
  ki_walk [processSig_ki, akeSetTheirCurrent_ki, akeHasFinished_ki]
theorem sendDHCommit_ki (K : Crypto) : Stable KI (sendDHCommit K) := by
  unfold sendDHCommit
  ki_walk [dhCommitMessage_ki, wrapMessageHeader_ki, modAke_ki]
theorem retransmit_ki (K : Crypto) : Stable KI (retransmit K) := by
  unfold retransmit
  ki_walk [genDataMsgWithFlag_ki, wrapMessageHeader_ki, msgEvent_ki, updateLastSent_ki]
theorem maybeRetransmit_ki (K : Crypto) : Stable KI (maybeRetransmit K) := by
  unfold maybeRetransmit; ki_walk [retransmit_ki]
theorem retransmitAfterCompletedExchange_ki (K : Crypto) (b a : AuthState) (e : Option Err) :
    Stable KI (retransmitAfterCompletedExchange K b a e) := by
  unfold retransmitAfterCompletedExchange
  ki_walk [maybeRetransmit_ki, genDataMsgWithFlag_ki, wrapMessageHeader_ki]
theorem processAKE_ki (K : Crypto) (t : Nat) (m : Bytes) : Stable KI (processAKE K t m) := by
  unfold processAKE
  ki_walk [initAKE_ki, getAke_ki, modAke_ki, recvDHCommit_ki, recvDHKey_ki, recvRevealSig_ki, recvSig_ki,
    retransmitAfterCompletedExchange_ki]

end Otr
