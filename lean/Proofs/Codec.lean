/-
  Proofs.Codec — round-trip lemmas for the Append*/Extract* primitives.
-/
import Otr.Codec
import Proofs.Bytes
namespace Otr

theorem extractShort_be16 (v : Nat) (rest : Bytes) (h : v < 65536) :
    extractShort (be16 v ++ rest) = some (v, rest) := by
  simp only [be16, extractShort, List.cons_append, List.nil_append]
  rw [de16_be16 v h]

theorem extractWord_be32 (v : Nat) (rest : Bytes) (h : v < 4294967296) :
    extractWord (be32 v ++ rest) = some (v, rest) := by
  simp only [be32, extractWord, List.cons_append, List.nil_append]
  rw [de32_be32 v h]

theorem extractLong_be64 (v : Nat) (rest : Bytes) (h : v < 18446744073709551616) :
    extractLong (be64 v ++ rest) = some (v, rest) := by
  simp only [be64, extractLong, List.cons_append, List.nil_append]
  rw [de64_be64 v h]

/- NB: `unfold`/`simp` on a function applied to `be32 (…) ++ …` makes the elaborator normalise the
   `Nat.div`/`Nat.mod` terms inside `be32` symbolically, which takes minutes; the lemmas are therefore
   first stated for a generic argument and then instantiated. -/
theorem extractData_of_word (x r : Bytes) (n : Nat) (hw : extractWord x = some (n, r)) (hn : n ≤ r.length) :
    extractData x = some (r.take n, r.drop n) := by
  unfold extractData
  rw [hw]
  have : ¬ r.length < n := by omega
  simp only [this, ↓reduceIte]

theorem extractMPI_of_data (x b rest : Bytes) (hd : extractData x = some (b, rest)) :
    extractMPI x = some (bytesToNat b, rest) := by
  unfold extractMPI
  rw [hd]

theorem extractData_appendData (r rest : Bytes) (h : r.length < 4294967296) :
    extractData (be32 r.length ++ r ++ rest) = some (r, rest) := by
  have hw := extractWord_be32 r.length (r ++ rest) h
  rw [← List.append_assoc] at hw
  have := extractData_of_word _ _ _ hw (by simp)
  simpa using this

theorem extractMPI_appendMPI (n : Nat) (rest : Bytes) (h : (natToBytes n).length < 4294967296) :
    extractMPI (be32 (natToBytes n).length ++ natToBytes n ++ rest) = some (n, rest) := by
  have := extractMPI_of_data _ _ _ (extractData_appendData (natToBytes n) rest h)
  rw [bytesToNat_natToBytes] at this
  exact this

/-- every MPI of the list has a length that fits the 32-bit prefix -/
def mpisFit (ns : List Nat) : Prop := ∀ n ∈ ns, (natToBytes n).length < 4294967296

theorem appendMPIs_cons (l : Bytes) (n : Nat) (ns : List Nat) :
    appendMPIs l (n :: ns) = appendMPIs (appendMPI l n) ns := rfl

theorem appendMPIs_eq (l : Bytes) (ns : List Nat) :
    appendMPIs l ns = l ++ appendMPIs [] ns := by
  induction ns generalizing l with
  | nil => simp [appendMPIs]
  | cons n ns ih =>
    rw [appendMPIs_cons, ih, appendMPIs_cons, ih (appendMPI [] n)]
    simp [appendMPI, appendData]

theorem extractMPIsN_appendMPIs (ns : List Nat) (rest : Bytes) (h : mpisFit ns) :
    extractMPIsN ns.length (appendMPIs [] ns ++ rest) = some (ns, rest) := by
  induction ns with
  | nil => simp [extractMPIsN, appendMPIs]
  | cons n ns ih =>
    have hn : (natToBytes n).length < 4294967296 := h n (by simp)
    have hns : mpisFit ns := fun m hm => h m (by simp [hm])
    rw [appendMPIs_cons, appendMPIs_eq]
    simp only [List.length_cons, extractMPIsN, appendMPI, appendData, List.nil_append]
    rw [List.append_assoc, extractMPI_appendMPI n _ hn]
    simp [ih hns]

/-- the serialised size of an MPI list is at least four bytes per element -/
theorem appendMPIs_length_ge (ns : List Nat) : 4 * ns.length ≤ (appendMPIs [] ns).length := by
  induction ns with
  | nil => simp [appendMPIs]
  | cons n ns ih =>
    rw [appendMPIs_cons, appendMPIs_eq]
    simp [appendMPI, appendData, be32]
    omega

theorem extractMPIs_appendMPIs (ns : List Nat) (rest : Bytes) (h : mpisFit ns)
    (hl : ns.length < 4294967296) :
    extractMPIs (appendMPIs (appendWord [] ns.length) ns ++ rest) = some (ns, rest) := by
  unfold extractMPIs
  rw [appendMPIs_eq]
  simp only [appendWord, List.nil_append, List.append_assoc]
  rw [extractWord_be32 _ _ hl]
  have := appendMPIs_length_ge ns
  have hc : ¬ ns.length > (appendMPIs [] ns ++ rest).length / 4 := by
    simp; omega
  simp only [hc, ↓reduceIte]
  exact extractMPIsN_appendMPIs ns rest h

end Otr
