/-
  Proofs.NoPanicBase — foundations of the panic-freedom proof of the conversation model (property C13):
  the conversation invariant `Inv`, hypotheses on the abstract cryptography (`CryptoOK`), exact-state
  weakest-precondition rules for the leaves (randomness, signing oracle, message header), and the
  sending path of a data message (`genDataMsgWithFlag`, `createSerializedDataMessage`).
-/
import Proofs.ConvData
import Proofs.ConvLife
set_option linter.unusedSimpArgs false
set_option linter.unusedVariables false
namespace Otr
open ConvData

/-- the empty set of panic sites: `wp x Q NoP s` says `x` does not panic from `s` -/
abbrev NoP : String → Prop := fun _ => False

/-! ## hypotheses on the abstract cryptography -/

/-- what the panic-freedom proof needs of `K : Crypto`:
    group arithmetic mod the prime `p` (`GroupOK`: `ModInverse` succeeds off the multiples of `p`, powers
    and products of non-multiples are non-multiples), and an HMAC-SHA256 output of at least the 20 bytes that
    `revealSig.serialize` / `sig.serialize` slice off (`macSig[:20]`) -/
structure CryptoOK (K : Crypto) : Prop where
  group : GroupOK K
  mac2_len : ∀ k d : Bytes, 20 ≤ (K.mac2 k d).length

/-! `mac2_len` for the executable cryptography `Crypto.real` (HMAC-SHA256, 32 bytes) is not proved in general (it
   needs loop invariants of the SHA-256 implementation, which is validated differentially, not verified); on
   concrete inputs the kernel confirms it (short key / key longer than one block, empty / non-empty data): -/
example : (Crypto.real.mac2 [] []).length = 32 := by decide +kernel
example : (Crypto.real.mac2 (List.replicate 70 7) (strBytes "abc")).length = 32 := by decide +kernel

/-! ## the invariant -/

/-- what the AKE state `st` relies on in the AKE context `a` (`ock` = the conversation's `ourCurrentKey`):
    our DH value exists while a DH-Key / Reveal-Signature / Signature message is awaited; while the Signature
    message is awaited also the peer's DH value, our DH key pair in `ake.keys`, and our long-term key -/
def AkeOK (ock : Option DsaPub) (st : AuthState) (a : Ake) : Prop :=
  match st with
  | .none => True
  | .awaitingDHKey => a.ourPublicValue ≠ none
  | .awaitingRevealSig => a.ourPublicValue ≠ none
  | .awaitingSig _ => a.ourPublicValue ≠ none ∧ a.theirPublicValue ≠ none ∧ a.keys.ourCur ≠ none ∧ ock ≠ none

/-- **the conversation invariant** -/
structure Inv (K : Crypto) (c : Conv) : Prop where
  /-- the stored SMP values each SMP state relies on are present -/
  smpWF : SmpWF c
  /-- our own SMP values `Pb`, `Qb` are invertible mod p -/
  smpNum : SmpNumWF K c
  /-- the message-1 values kept while waiting for the user's secret were validated -/
  smpWait : SmpWaitWF c
  /-- an encrypted conversation has a protocol version, a current DH key pair, our long-term key and the
      peer's long-term key -/
  enc : c.msgState = .encrypted →
    c.version ≠ none ∧ c.keys.ourCur ≠ none ∧ c.ourCurrentKey ≠ none ∧ c.theirKey ≠ none
  /-- the AKE context, when present, holds what its state relies on -/
  ake : ∀ a, c.ake = some a → AkeOK c.ourCurrentKey a.state a
  /-- a key exchange under way means that the conversation is committed to a protocol version (repaired code:
      a rejected message takes back the version it had committed the conversation to — and only a message that
      was not rejected starts an exchange) -/
  akeVer : c.version = none → ∀ a, c.ake = some a → a.state = .none

/-- `Inv` contains `FullWF` (the invariant of the data path) as soon as a version is set -/
theorem Inv.fullWF {K : Crypto} {c : Conv} (h : Inv K c) (hv : c.version ≠ none) : FullWF K c :=
  ⟨h.smpWF, h.smpNum, hv, fun he => (h.enc he).2.1⟩

/-- `Inv` depends only on version, message state, our current DH pair, the two long-term keys, the AKE context
    and the SMP context -/
theorem Inv.congr {K : Crypto} {c c' : Conv} (h : Inv K c)
    (hv : c'.version = c.version) (hm : c'.msgState = c.msgState) (hk : c'.keys.ourCur = c.keys.ourCur)
    (ho : c'.ourCurrentKey = c.ourCurrentKey) (ht : c'.theirKey = c.theirKey) (ha : c'.ake = c.ake)
    (hs : c'.smp = c.smp) : Inv K c' := by
  refine ⟨?_, ?_, ?_, ?_, ?_, ?_⟩
  · have := h.smpWF; unfold SmpWF at *; rw [hs]; exact this
  · have := h.smpNum; unfold SmpNumWF at *; rw [hs]; exact this
  · have := h.smpWait; unfold SmpWaitWF at *; rw [hs]; exact this
  · rw [hv, hm, hk, ho, ht]; exact h.enc
  · rw [ha, ho]; exact h.ake
  · rw [hv, ha]; exact h.akeVer

theorem AkeOK.mono {ock ock' : Option DsaPub} {st : AuthState} {a : Ake} (h : AkeOK ock st a)
    (ho : ock ≠ none → ock' ≠ none) : AkeOK ock' st a := by
  unfold AkeOK at *
  cases st with
  | none => trivial
  | awaitingDHKey => exact h
  | awaitingRevealSig => exact h
  | awaitingSig rs => exact ⟨h.1, h.2.1, h.2.2.1, ho h.2.2.2⟩

/-- the AKE context may be dropped -/
theorem Inv.dropAke {K : Crypto} {c : Conv} (h : Inv K c) : Inv K { c with ake := none } :=
  ⟨h.smpWF, h.smpNum, h.smpWait, h.enc, fun a ha => (by cases ha), fun _ a ha => (by cases ha)⟩

/-- the AKE context may be replaced by one that holds what its state relies on -/
theorem Inv.setAke {K : Crypto} {c : Conv} (h : Inv K c) (x : Option Ake)
    (hx : ∀ a, x = some a → AkeOK c.ourCurrentKey a.state a)
    (hxv : c.version = none → ∀ a, x = some a → a.state = .none) : Inv K { c with ake := x } :=
  ⟨h.smpWF, h.smpNum, h.smpWait, h.enc, hx, hxv⟩

/-- a fresh conversation: any policies, keys (also none), fragment size, error handler, instance tag, and a
    version that may be preset (as the driver does) or not -/
def freshConv (version : Option Version) (policies : Policies) (keys : List DsaPub) (fragmentSize : Nat)
    (errHandler : Bool) (friendlyQuery : Bytes) (ourTag : Nat) : Conv :=
  { version := version, policies := policies, ourKeys := keys, fragmentSize := fragmentSize,
    errHandler := errHandler, friendlyQuery := friendlyQuery, ourTag := ourTag }

theorem inv_init (K : Crypto) (version : Option Version) (policies : Policies) (keys : List DsaPub)
    (fragmentSize : Nat) (errHandler : Bool) (friendlyQuery : Bytes) (ourTag : Nat) :
    Inv K (freshConv version policies keys fragmentSize errHandler friendlyQuery ourTag) := by
  refine ⟨?_, ?_, ?_, ?_, ?_, ?_⟩
  · simp [SmpWF, freshConv]
  · simp [SmpNumWF, freshConv]
  · simp [SmpWaitWF, freshConv]
  · intro h; simp [freshConv] at h
  · intro a h; simp [freshConv] at h
  · intro _ a h; simp [freshConv] at h

/-! ## wp: bridges and exact-state rules for the leaves -/

theorem run'_eq_runM {α} (x : M α) (s : MState) : run' x s = runM x s := rfl

theorem wp_of_runM {α} (x : M α) (Q : Except Err α → MState → Prop) (S : String → Prop) (s s' : MState)
    (r : Except Err α) (hr : runM x s = .ok (r, s')) (h : Q r s') : wp x Q S s := by
  unfold wp; rw [run'_eq_runM, hr]; exact h

/-- a `wp` fact can be strengthened by a frame fact -/
theorem wp_stable {α} (x : M α) (Q : Except Err α → MState → Prop) (S : String → Prop)
    (R : MState → MState → Prop) (s : MState) (h : wp x Q S s) (hR : Stable R x) :
    wp x (fun r s' => Q r s' ∧ R s s') S s := by
  unfold wp at *
  cases hx : run' x s with
  | panic p => rw [hx] at h; exact h
  | ok v =>
    obtain ⟨r, s'⟩ := v
    rw [hx] at h
    exact ⟨h, hR s r s' hx⟩

/-- no panic, in the form asked -/
theorem wp_no_panic {α} (x : M α) (Q : Except Err α → MState → Prop) (s : MState) (h : wp x Q NoP s) :
    ∀ site, runM x s ≠ .panic site := by
  intro site hp
  unfold wp at h
  rw [run'_eq_runM, hp] at h
  exact h

theorem wp_post {α} (x : M α) (Q : Except Err α → MState → Prop) (S : String → Prop) (s s' : MState)
    (r : Except Err α) (h : wp x Q S s) (hr : runM x s = .ok (r, s')) : Q r s' :=
  wp_of_run x Q S s s' r h hr

/-- `randRead`: never throws or panics; only the recorded reads and the diagnostics change -/
theorem wp_randRead_x (n : Nat) (Q : Except Err (Option Bytes) → MState → Prop) (S) (s : MState)
    (h : ∀ r env' mm', Q (.ok r) { s with env := env', mismatch := mm' }) : wp (randRead n) Q S s := by
  obtain ⟨r, env', mm', hr, -, -⟩ := randRead_run n s
  exact wp_of_runM _ _ _ _ _ _ hr (h r env' mm')

theorem wp_randomInto_x (n : Nat) (Q : Except Err Bytes → MState → Prop) (S) (s : MState)
    (h : ∀ r env' mm', Q r { s with env := env', mismatch := mm' }) : wp (randomInto n) Q S s := by
  obtain ⟨env', mm', -, hh⟩ := randomInto_run n s
  rcases hh with ⟨b, -, hb⟩ | hb
  · exact wp_of_runM _ _ _ _ _ _ hb (h _ env' mm')
  · exact wp_of_runM _ _ _ _ _ _ hb (h _ env' mm')

theorem signOracle_run' (mb : Bytes) (s : MState) :
    ∃ r env' mm', runM (signOracle mb) s = .ok (.ok r, { s with env := env', mismatch := mm' }) := by
  unfold signOracle
  simp only [runM_bind, runM_get, bindM_ok]
  split
  · exact ⟨none, s.env, _, by simp only [runM_bind, runM_mism, bindM_ok, runM_pure]; rfl⟩
  · rename_i d sg rest h
    simp only [runM_bind, runM_set, bindM_ok]
    by_cases hd : d = mb
    · exact ⟨sg, { s.env with sigs := rest }, s.mismatch, by simp [hd]⟩
    · exact ⟨sg, _, _, by simp only [ne_eq, hd, not_false_eq_true, ↓reduceIte, runM_bind, runM_mism, bindM_ok, runM_pure]; rfl⟩

theorem wp_signOracle_x (mb : Bytes) (Q : Except Err (Option Bytes) → MState → Prop) (S) (s : MState)
    (h : ∀ r env' mm', Q (.ok r) { s with env := env', mismatch := mm' }) : wp (signOracle mb) Q S s := by
  obtain ⟨r, env', mm', hr⟩ := signOracle_run' mb s
  exact wp_of_runM _ _ _ _ _ _ hr (h r env' mm')

/-- `generateInstanceTag`: only `ourTag`, the reads and the diagnostics change; no panic -/
theorem wp_generateInstanceTag_x (Q : Except Err Unit → MState → Prop) (S) (s : MState)
    (h : ∀ r v env' mm', Q r { s with conv := { s.conv with ourTag := v }, env := env', mismatch := mm' }) :
    wp generateInstanceTag Q S s := by
  by_cases h0 : s.conv.ourTag = 0
  · obtain ⟨env', mm', -, hh⟩ := generateInstanceTag_run s h0
    rcases hh with ⟨v, -, -, hv⟩ | hv
    · exact wp_of_runM _ _ _ _ _ _ hv (h _ v env' mm')
    · refine wp_of_runM _ _ _ _ _ _ hv ?_
      exact h _ s.conv.ourTag env' mm'
  · refine wp_of_runM _ _ _ _ _ _ (generateInstanceTag_noop s h0) ?_
    exact h _ s.conv.ourTag s.env s.mismatch

/-- `messageHeader` with a version set: only `ourTag`, the reads and the diagnostics change; no panic -/
theorem wp_messageHeader_x (t : Nat) (Q : Except Err Bytes → MState → Prop) (S) (s : MState)
    (hv : s.conv.version ≠ none)
    (h : ∀ r v env' mm', Q r { s with conv := { s.conv with ourTag := v }, env := env', mismatch := mm' }) :
    wp (messageHeader t) Q S s := by
  unfold messageHeader
  simp only [wp_bind, wp_getc]
  split
  · rename_i hn; exact absurd hn hv
  · exact h _ s.conv.ourTag s.env s.mismatch
  · simp only [wp_bind]
    apply wp_generateInstanceTag_x
    intro r v env' mm'
    cases r with
    | error e => exact h _ v env' mm'
    | ok u =>
      simp only [wp_bind, wp_getc, wp_pure]
      exact h _ v env' mm'

theorem wp_wrapMessageHeader_x (t : Nat) (m : Bytes) (Q : Except Err Bytes → MState → Prop) (S) (s : MState)
    (hv : s.conv.version ≠ none)
    (h : ∀ r v env' mm', Q r { s with conv := { s.conv with ourTag := v }, env := env', mismatch := mm' }) :
    wp (wrapMessageHeader t m) Q S s := by
  unfold wrapMessageHeader
  simp only [wp_bind]
  apply wp_messageHeader_x _ _ _ _ hv
  intro r v env' mm'
  cases r with
  | error e => exact h _ v env' mm'
  | ok u => exact h _ v env' mm'

/-- symbolic execution under `wp` (as `wp_exec`, with `tryCatch`, `get`/`set`, diagnostics) -/
macro "wpx" : tactic => `(tactic| repeat' (first
    | simp only [wp_bind, wp_getc, wp_modc, wp_ite', wp_pure, wp_throw, wp_ev, wp_goPanic, wp_now, wp_tryCatch,
        wp_mism, wp_get, wp_set]
    | refine ⟨fun _ => ?_, fun _ => ?_⟩
    | split))

/-! ## sending a data message -/

theorem genData_notEnc (K : Crypto) (m : Bytes) (f : Nat) (tlvs : List Tlv) (s : MState)
    (h : s.conv.msgState ≠ .encrypted) :
    runM (genDataMsgWithFlag K m f tlvs) s =
      .ok (.error (.conflict "cannot send message in unencrypted state"), s) := by
  unfold genDataMsgWithFlag
  simp [h]

/-- `genDataMsgWithFlag` from a state satisfying the invariant: no panic, invariant kept, version and message
    state unchanged -/
theorem genData_inv (K : Crypto) (m : Bytes) (f : Nat) (tlvs : List Tlv) (s : MState) (h : Inv K s.conv) :
    wp (genDataMsgWithFlag K m f tlvs)
      (fun r s' => Inv K s'.conv ∧ s'.conv.version = s.conv.version ∧ s'.conv.msgState = s.conv.msgState ∧
        ((∃ a, r = .ok a) → s.conv.msgState = .encrypted)) NoP s := by
  by_cases he : s.conv.msgState = .encrypted
  · obtain ⟨hv, hc, -, -⟩ := h.enc he
    have h1 := wp_stable _ _ _ _ s (genDataMsgWithFlag_spec K m f tlvs s) (genDataMsgWithFlag_sendFrame K m f tlvs)
    refine wp_mono _ _ _ _ _ _ h1 ?_ ?_
    · intro r s' ⟨hg, hk⟩
      simp only [Keeps, sendKept, Prod.mk.injEq] at hk
      obtain ⟨-, -, -, k4, k5, -, -, -, -, -, k11, k12, k13, k14, -⟩ := hk
      exact ⟨h.congr k4 k5 hg.2.2.2.2.2.1 k11 k12 k13 k14, k4, k5, fun _ => he⟩
    · intro site hs
      rcases hs with ⟨-, h2⟩ | ⟨-, -, h3⟩
      · exact hv h2
      · exact hc h3
  · refine wp_of_runM _ _ _ _ _ _ (genData_notEnc K m f tlvs s he) ⟨h, rfl, rfl, ?_⟩
    rintro ⟨a, ha⟩; cases ha

/-- `fragEncode` needs the version only to fragment -/
theorem wp_fragEncode (msg : Bytes) (Q : Except Err (List Bytes) → MState → Prop) (s : MState)
    (hv : s.conv.version ≠ none) (h : ∀ r, Q (.ok r) s) : wp (fragEncode msg) Q NoP s := by
  unfold fragEncode
  wpx
  all_goals first
    | exact h _
    | (rename_i hn; exact absurd hn hv)

/-- `createSerializedDataMessage` from a state satisfying the invariant -/
theorem createSDM_inv (K : Crypto) (m : Bytes) (f : Nat) (tlvs : List Tlv) (s : MState) (h : Inv K s.conv) :
    wp (createSerializedDataMessage K m f tlvs)
      (fun _ s' => Inv K s'.conv ∧ s'.conv.version = s.conv.version ∧ s'.conv.msgState = s.conv.msgState) NoP s := by
  unfold createSerializedDataMessage
  rw [wp_bind]
  refine wp_mono _ _ _ _ _ _ (genData_inv K m f tlvs s h) ?_ (fun _ hs => hs)
  intro r s1 ⟨h1, hv1, hm1, henc⟩
  cases r with
  | error e => exact ⟨h1, hv1, hm1⟩
  | ok a =>
    have he := henc ⟨a, rfl⟩
    have hv : s1.conv.version ≠ none := by rw [hv1]; exact (h.enc he).1
    simp only [wp_bind]
    apply wp_wrapMessageHeader_x _ _ _ _ _ hv
    intro r v env' mm'
    cases r with
    | error e => exact ⟨h1.congr rfl rfl rfl rfl rfl rfl rfl, hv1, hm1⟩
    | ok res =>
      simp only [updateLastSent, wp_bind, wp_now, wp_modc]
      refine wp_fragEncode _ _ _ hv ?_
      intro r
      simp only [wp_pure]
      exact ⟨h1.congr rfl rfl rfl rfl rfl rfl rfl, hv1, hm1⟩

/-! ## the data-message receive path -/

/-- invariant plus: a protocol version is set -/
def InvV (K : Crypto) (c : Conv) : Prop := Inv K c ∧ c.version ≠ none

theorem Inv.setKeys {K : Crypto} {c : Conv} (h : Inv K c) (k : Keys)
    (hk : c.msgState = .encrypted → k.ourCur ≠ none) : Inv K { c with keys := k } :=
  ⟨h.smpWF, h.smpNum, h.smpWait, fun he => ⟨(h.enc he).1, hk he, (h.enc he).2.2⟩, h.ake, h.akeVer⟩

theorem Inv.ofSmpFrame {K : Crypto} {c c' : Conv} (h : Inv K c) (hf : SmpFrame c c')
    (h1 : SmpWF c') (h2 : SmpNumWF K c') (h3 : SmpWaitWF c') : Inv K c' := by
  unfold SmpFrame at hf
  refine ⟨h1, h2, h3, ?_, ?_, ?_⟩
  · rw [hf]; exact h.enc
  · rw [hf]; exact h.ake
  · rw [hf]; exact h.akeVer

/-- the peer's disconnect TLV re-establishes the invariant trivially -/
theorem Inv.disc {K : Crypto} {c : Conv} (h : Inv K c) :
    Inv K { c with lastMessageStateChange := none, msgState := .finished, smp := {}, ake := none,
                   keys := { oldMACKeys := c.keys.oldMACKeys ++ c.keys.macHistory.map (·.key) } } := by
  refine ⟨by simp [SmpWF], by simp [SmpNumWF], by simp [SmpWaitWF], ?_, ?_, ?_⟩
  · intro he; cases he
  · intro a ha; cases ha
  · intro _ a ha; cases ha

theorem processSMPTLV_inv (K : Crypto) (hK : GroupOK K) (t : Tlv) (s : MState) (h : InvV K s.conv) :
    wp (processSMPTLV K t) (fun _ s' => InvV K s'.conv) NoP s := by
  obtain ⟨hi, hv⟩ := h
  have h1 := processSMPTLV_safe K t s hi.smpWF hi.smpNum hv hK.inv
  have h2 := processSMPTLV_wait K t s hi.smpWait
  have h3 := processSMPTLV_frame K t s
  refine wp_mono _ _ _ _ _ _ (wp_and _ _ _ _ _ _ (wp_and _ _ _ _ _ _ h1 h2) h3) ?_ (fun _ hs => hs.1.1)
  intro r s' ⟨⟨⟨ha, hb⟩, hc⟩, hf⟩
  refine ⟨hi.ofSmpFrame hf ha hb hc, ?_⟩
  unfold SmpFrame at hf
  rw [hf]; exact hv

theorem tailRest_inv (K : Crypto) (hK : GroupOK K) (tlvs : List Tlv) (x : Bytes)
    (hlen : ∀ t ∈ tlvs, t.value.length = t.len) (s : MState) (h : InvV K s.conv) :
    wp (tailRest K tlvs x) (fun _ s' => InvV K s'.conv) NoP s := by
  unfold tailRest
  rw [wp_bind]
  refine wp_mono _ _ _ _ _ _ (processTLVs_gen K tlvs x (InvV K) NoP ?_ (processSMPTLV_inv K hK) hlen s h) ?_
    (fun _ hs => hs)
  · intro c hc; exact ⟨hc.1.disc, hc.2⟩
  intro r s1 h1
  cases r with
  | error e => exact h1
  | ok replies =>
    simp only [wp_ite', wp_pure, wp_bind]
    refine ⟨fun _ => ?_, fun _ => h1⟩
    refine wp_mono _ _ _ _ _ _ (genData_inv K _ _ _ s1 h1.1) ?_ (fun _ hs => hs)
    intro r s2 ⟨h2, hv2, _, _⟩
    have hv2' : s2.conv.version ≠ none := by rw [hv2]; exact h1.2
    cases r with
    | error e => exact ⟨h2, hv2'⟩
    | ok a =>
      simp only [wp_bind, wp_pure]
      apply wp_wrapMessageHeader_x _ _ _ _ _ hv2'
      intro r v env' mm'
      cases r <;> exact ⟨h2.congr rfl rfl rfl rfl rfl rfl rfl, hv2'⟩

theorem tail_inv (K : Crypto) (hK : GroupOK K) (dm : DataMsg) (tlvs : List Tlv) (x : Bytes)
    (hlen : ∀ t ∈ tlvs, t.value.length = t.len) (s : MState) (h : InvV K s.conv)
    (hcur : s.conv.keys.ourCur ≠ none) :
    wp (processDataMessageTail K dm tlvs x) (fun _ s' => InvV K s'.conv) NoP s := by
  have hrest := fun s1 h1 => tailRest_inv K hK tlvs x hlen s1 h1
  have hrot1 : ∀ np, InvV K { s.conv with keys := (s.conv.keys.rotateOurKeys K dm.recipientKeyID np).1 } :=
    fun np => ⟨h.1.setKeys _ (fun _ => rotateOurKeys_ourCur K _ _ _ hcur), h.2⟩
  have hrot2 : ∀ np, InvV K { s.conv with keys :=
      ((s.conv.keys.rotateOurKeys K dm.recipientKeyID np).1).rotateTheirKey dm.senderKeyID dm.y } :=
    fun np => ⟨h.1.setKeys _ (fun _ => by
      rw [rotateTheirKey_ourCur]; exact rotateOurKeys_ourCur K _ _ _ hcur), h.2⟩
  unfold tailRest at hrest
  unfold processDataMessageTail
  simp only [wp_bind, wp_getc, wp_ite', wp_modc, wp_throw, wp_pure] at hrest ⊢
  refine ⟨fun _ => ?_, fun _ => ?_⟩
  · apply wp_randRead_x
    intro np env' mm'
    simp only [wp_bind, wp_modc, wp_ite', wp_pure]
    cases hE : (Keys.rotateOurKeys K s.conv.keys dm.recipientKeyID np).snd with
    | none =>
      simp only [wp_bind, wp_modc, wp_ite', wp_pure, Option.isNone_none, true_implies, not_true_eq_false,
        false_implies, and_true]
      exact hrest ⟨_, env', s.events, mm'⟩ (hrot2 np)
    | some e =>
      simp only [wp_bind, wp_modc, wp_ite', wp_pure, Option.isNone_some, Bool.false_eq_true, false_implies,
        not_false_eq_true, true_implies, true_and]
      refine wp_mono _ _ _ _ _ _ (processTLVs_gen K tlvs x (InvV K) NoP (fun c hc => ⟨hc.1.disc, hc.2⟩)
        (processSMPTLV_inv K hK) hlen ⟨_, env', s.events, mm'⟩ (hrot1 np)) ?_ (fun _ hs => hs)
      intro r s2 h2
      cases r with
      | error e => exact h2
      | ok a => simp only [wp_bind, wp_throw]; exact h2
  · cases hE : (Keys.rotateOurKeys K s.conv.keys dm.recipientKeyID none).snd with
    | none =>
      simp only [wp_bind, wp_modc, wp_ite', wp_pure, Option.isNone_none, true_implies, not_true_eq_false,
        false_implies, and_true]
      exact hrest ⟨_, s.env, s.events, s.mismatch⟩ (hrot2 none)
    | some e =>
      simp only [wp_bind, wp_modc, wp_ite', wp_pure, Option.isNone_some, Bool.false_eq_true, false_implies,
        not_false_eq_true, true_implies, true_and]
      refine wp_mono _ _ _ _ _ _ (processTLVs_gen K tlvs x (InvV K) NoP (fun c hc => ⟨hc.1.disc, hc.2⟩)
        (processSMPTLV_inv K hK) hlen ⟨_, s.env, s.events, s.mismatch⟩ (hrot1 none)) ?_ (fun _ hs => hs)
      intro r s2 h2
      cases r with
      | error e => exact h2
      | ok a => simp only [wp_bind, wp_throw]; exact h2

theorem raw_inv' (K : Crypto) (hK : GroupOK K) (header msg : Bytes) (s : MState) (h : InvV K s.conv) :
    ∃ r s', run' (processDataMessageRaw K header msg) s = .ok (.ok r, s') ∧ InvV K s'.conv := by
  by_cases hA : ∃ dm sk, Accepts K header msg s dm sk
  · obtain ⟨dm, sk, hA⟩ := hA
    have hcur := (h.1.enc hA.1).2.1
    rw [raw_of_accepts K header msg s dm sk hA, acceptCont_run]
    have ht := tail_inv K hK dm _ sk.extraKey (plainDataMsg_tlvs_length (plainBytesOf K sk dm))
      (if (PlainDataMsg.deserialize (plainBytesOf K sk dm)).1.message.isEmpty
        then { acceptState s dm sk with events := (acceptState s dm sk).events ++ ["msg:10"] }
        else acceptState s dm sk)
      (by split <;> exact ⟨h.1.setKeys _ (fun _ => hcur), h.2⟩)
      (by split <;> exact hcur)
    unfold wp at ht
    split
    · rename_i heq; rw [heq] at ht; exact ⟨_, _, rfl, ht⟩
    · rename_i heq; rw [heq] at ht; exact ⟨_, _, rfl, ht⟩
    · rename_i heq; rw [heq] at ht; exact ht.elim
  · obtain ⟨e, t, hr, _, _, _, hc⟩ := raw_of_not_accepts K header msg s hA
    refine ⟨_, t, hr, ?_⟩
    rcases hc with hc | ⟨dm, _, hc⟩
    · rw [hc]; exact h
    · rw [hc]
      by_cases he : s.conv.msgState = .encrypted
      · exact ⟨h.1.setKeys _ (fun _ => (h.1.enc he).2.1), h.2⟩
      · exact ⟨h.1.setKeys _ (fun he' => absurd he' he), h.2⟩

/-- `processDataMessageRaw` from a state satisfying the invariant, with a version set: no panic, no throw,
    invariant kept -/
theorem raw_inv (K : Crypto) (hK : GroupOK K) (header msg : Bytes) (s : MState) (h : InvV K s.conv) :
    wp (processDataMessageRaw K header msg) (fun r s' => InvV K s'.conv ∧ ∃ a, r = .ok a) NoP s := by
  obtain ⟨r, s', hr, hi⟩ := raw_inv' K hK header msg s h
  exact wp_of_runM _ _ _ _ _ _ hr ⟨hi, _, rfl⟩

theorem notify_inv (K : Crypto) (e : Err) (s : MState) (h : InvV K s.conv) :
    wp (notifyDataMessageError e) (fun r s' => InvV K s'.conv ∧ r = .ok ()) NoP s := by
  unfold notifyDataMessageError generatePotentialErrorMessage msgEvent
  wpx
  all_goals first
    | exact ⟨h, rfl⟩
    | exact ⟨h, trivial⟩
    | exact ⟨⟨h.1.congr rfl rfl rfl rfl rfl rfl rfl, h.2⟩, rfl⟩
    | exact ⟨⟨h.1.congr rfl rfl rfl rfl rfl rfl rfl, h.2⟩, trivial⟩

theorem potentialHeartbeat_inv (K : Crypto) (plain : Option Bytes) (s : MState) (h : InvV K s.conv) :
    wp (potentialHeartbeat K plain) (fun _ s' => InvV K s'.conv) NoP s := by
  unfold potentialHeartbeat
  simp only [wp_ite', wp_pure, wp_bind, wp_getc, wp_now]
  refine ⟨fun _ => h, fun _ => ⟨fun _ => h, fun _ => ⟨fun _ => h, fun _ => ?_⟩⟩⟩
  refine wp_mono _ _ _ _ _ _ (genData_inv K _ _ _ s h.1) ?_ (fun _ hs => hs)
  intro r s1 ⟨h1, hv1, _, _⟩
  have hv1' : s1.conv.version ≠ none := by rw [hv1]; exact h.2
  cases r with
  | error e => exact ⟨h1, hv1'⟩
  | ok a =>
    simp only [wp_bind, wp_pure]
    apply wp_wrapMessageHeader_x _ _ _ _ _ hv1'
    intro r v env' mm'
    cases r with
    | error e => exact ⟨h1.congr rfl rfl rfl rfl rfl rfl rfl, hv1'⟩
    | ok hdr =>
      simp only [updateLastSent, msgEvent]
      wpx
      exact ⟨h1.congr rfl rfl rfl rfl rfl rfl rfl, hv1'⟩

/-- **the data-message receive path**: from a state satisfying the invariant with a version set,
    `receiveDataMessage` does not panic, does not throw, and re-establishes the invariant -/
theorem receiveDataMessage_inv (K : Crypto) (hK : GroupOK K) (header body : Bytes) (s : MState)
    (h : InvV K s.conv) :
    wp (receiveDataMessage K header body) (fun r s' => InvV K s'.conv ∧ ∃ a, r = .ok a) NoP s := by
  unfold receiveDataMessage
  rw [wp_bind]
  refine wp_mono _ _ _ _ _ _ (raw_inv K hK header body s h) ?_ (fun _ hs => hs)
  intro r s1 ⟨h1, a, ha⟩
  subst ha
  obtain ⟨plain, toSend, err⟩ := a
  simp only []
  split
  · simp only [wp_bind, wp_pure]
    refine wp_mono _ _ _ _ _ _ (notify_inv K _ s1 h1) ?_ (fun _ hs => hs)
    intro r s2 ⟨h2, hr⟩
    subst hr
    exact ⟨h2, _, rfl⟩
  · simp only [wp_bind, wp_tryCatch, wp_pure]
    refine wp_mono _ _ _ _ _ _ (potentialHeartbeat_inv K _ s1 h1) ?_ (fun _ hs => hs)
    intro r s2 h2
    cases r with
    | ok a => exact ⟨h2, _, rfl⟩
    | error e =>
      simp only [wp_bind, wp_pure]
      refine wp_mono _ _ _ _ _ _ (notify_inv K _ s2 h2) ?_ (fun _ hs => hs)
      intro r s3 ⟨h3, hr⟩
      subst hr
      exact ⟨h3, _, rfl⟩

end Otr
