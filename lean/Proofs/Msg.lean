/-
  Proofs.Msg — round trips of the message structures (helper lemmas for Props.C17).
-/
import Otr.Msg
import Proofs.Codec
namespace Otr

/-! generic "parse after the prefix is known" lemmas -/

theorem extractData_append (r rest : Bytes) (h : r.length < 4294967296) :
    extractData (appendData [] r ++ rest) = some (r, rest) := by
  have := extractData_appendData r rest h
  simpa [appendData] using this

theorem extractMPI_append (n : Nat) (rest : Bytes) (h : (natToBytes n).length < 4294967296) :
    extractMPI (appendMPI [] n ++ rest) = some (n, rest) := by
  have := extractMPI_appendMPI n rest h
  simpa [appendMPI, appendData] using this

theorem appendData_eq (l r : Bytes) : appendData l r = l ++ appendData [] r := by
  simp [appendData]

theorem appendMPI_eq (l : Bytes) (n : Nat) : appendMPI l n = l ++ appendMPI [] n := by
  simp [appendMPI, appendData]

theorem appendWord_eq (l : Bytes) (n : Nat) : appendWord l n = l ++ be32 n := rfl
theorem appendShort_eq (l : Bytes) (n : Nat) : appendShort l n = l ++ be16 n := rfl

/-! ### DH-Commit -/
theorem dhCommit_deserialize_of (x g h r1 r2 : Bytes)
    (h1 : extractData x = some (g, r1)) (h2 : extractData r1 = some (h, r2)) :
    DhCommit.deserialize x = some ⟨g, h⟩ := by
  unfold DhCommit.deserialize
  rw [h1]; simp only; rw [h2]

theorem dhCommit_roundtrip (c : DhCommit) (extra : Bytes)
    (hg : c.encryptedGx.length < 4294967296) (hh : c.hashedGx.length < 4294967296) :
    DhCommit.deserialize (c.serialize ++ extra) = some c := by
  have e : c.serialize ++ extra = appendData [] c.encryptedGx ++ (appendData [] c.hashedGx ++ extra) := by
    simp [DhCommit.serialize, appendData]
  rw [e]
  exact dhCommit_deserialize_of _ _ _ _ _ (extractData_append _ _ hg) (extractData_append _ _ hh)

/-! ### DH-Key -/
theorem dhKey_deserialize_of (x : Bytes) (n : Nat) (r : Bytes) (h : extractMPI x = some (n, r)) :
    DhKey.deserialize x = some ⟨n⟩ := by
  unfold DhKey.deserialize; rw [h]

theorem dhKey_roundtrip (k : DhKey) (extra : Bytes) (h : (natToBytes k.gy).length < 4294967296) :
    DhKey.deserialize (k.serialize ++ extra) = some k := by
  unfold DhKey.serialize
  exact dhKey_deserialize_of _ _ _ (extractMPI_append _ _ h)

/-! ### Reveal-Signature / Signature -/
theorem revealSig_deserialize_of (x r e mac r1 : Bytes)
    (h1 : extractData x = some (r, r1)) (h2 : extractData r1 = some (e, mac))
    (hr : r.length = 16) (hm : mac.length = truncateLength) :
    RevealSig.deserialize x = some ⟨r, e, mac⟩ := by
  unfold RevealSig.deserialize
  rw [h1]; simp only; rw [h2]; simp [hr, hm]

theorem revealSig_roundtrip (r x mac : Bytes) (hr : r.length = 16) (hm : mac.length = 20)
    (hx : x.length < 4294967296) :
    ∃ b, RevealSig.serialize ⟨r, appendData [] x, mac⟩ = .ok b ∧
         RevealSig.deserialize b = some ⟨r, x, mac⟩ := by
  refine ⟨appendData [] r ++ (appendData [] x ++ mac), ?_, ?_⟩
  · simp [RevealSig.serialize, truncateLength, hm, List.take_of_length_le]
  · exact revealSig_deserialize_of _ _ _ _ _ (extractData_append _ _ (by omega))
      (extractData_append _ _ hx) hr (by simp [truncateLength, hm])

theorem sig_deserialize_of (x e mac : Bytes) (h : extractData x = some (e, mac)) (hm : mac.length = 20) :
    Sig.deserialize x = some ⟨e, mac⟩ := by
  unfold Sig.deserialize; rw [h]; simp [hm]

theorem sig_roundtrip (x mac : Bytes) (hm : mac.length = 20) (hx : x.length < 4294967296) :
    ∃ b, Sig.serialize ⟨appendData [] x, mac⟩ = .ok b ∧ Sig.deserialize b = some ⟨x, mac⟩ := by
  refine ⟨appendData [] x ++ mac, ?_, ?_⟩
  · simp [Sig.serialize, truncateLength, hm, List.take_of_length_le]
  · exact sig_deserialize_of _ _ _ (extractData_append _ _ hx) hm

/-! ### TLV -/
def Tlv.WF (t : Tlv) : Prop := t.typ < 65536 ∧ t.len < 65536 ∧ t.len = t.value.length

theorem tlv_deserialize_of (x : Bytes) (ty ln : Nat) (r1 r2 : Bytes)
    (h1 : extractShort x = some (ty, r1)) (h2 : extractShort r1 = some (ln, r2)) (hl : ln ≤ r2.length) :
    Tlv.deserialize x = some ⟨ty, ln, r2.take ln⟩ := by
  unfold Tlv.deserialize
  rw [h1]; simp only; rw [h2]
  have : ¬ r2.length < ln := by omega
  simp [this]

theorem tlv_roundtrip (t : Tlv) (rest : Bytes) (h : t.WF) :
    Tlv.deserialize (t.serialize ++ rest) = some t := by
  obtain ⟨h1, h2, h3⟩ := h
  have e : t.serialize ++ rest = be16 t.typ ++ (be16 t.len ++ (t.value ++ rest)) := by
    simp [Tlv.serialize, appendShort]
  rw [e]
  have := tlv_deserialize_of _ t.typ t.len _ (t.value ++ rest) (extractShort_be16 _ _ h1)
    (extractShort_be16 _ _ h2) (by simp [h3])
  rw [this]
  cases t
  simp_all

theorem tlv_serialize_length (t : Tlv) : t.serialize.length = 4 + t.value.length := by
  simp [Tlv.serialize, appendShort, be16]; omega

end Otr

namespace Otr

/-! ### plaintext with TLVs -/

theorem takeWhile_nulfree (m rest : Bytes) (h : ∀ x ∈ m, x ≠ 0) :
    (m ++ 0 :: rest).takeWhile (· != 0) = m := by
  induction m with
  | nil => simp
  | cons a m ih =>
    have ha : a ≠ 0 := h a (by simp)
    have := ih (fun x hx => h x (by simp [hx]))
    simp [ha, this]

theorem dropWhile_nulfree (m rest : Bytes) (h : ∀ x ∈ m, x ≠ 0) :
    (m ++ 0 :: rest).dropWhile (· != 0) = 0 :: rest := by
  induction m with
  | nil => simp
  | cons a m ih =>
    have ha : a ≠ 0 := h a (by simp)
    have := ih (fun x hx => h x (by simp [hx]))
    simp [ha, this]

theorem parseTlvs_roundtrip (ts : List Tlv) (h : ∀ t ∈ ts, t.WF) :
    ∀ fuel, ts.length ≤ fuel → parseTlvs fuel (ts.flatMap Tlv.serialize) = (ts, true) := by
  induction ts with
  | nil => intro fuel _; cases fuel <;> simp [parseTlvs]
  | cons t ts ih =>
    intro fuel hf
    cases fuel with
    | zero => simp at hf
    | succ fuel =>
      have hwf : t.WF := h t (by simp)
      have hne : (t.serialize ++ ts.flatMap Tlv.serialize).isEmpty = false := by
        have := tlv_serialize_length t
        cases hs : t.serialize with
        | nil => rw [hs] at this; simp at this; omega
        | cons a b => simp
      simp only [List.flatMap_cons, parseTlvs, hne]
      rw [tlv_roundtrip t _ hwf]
      simp only [Bool.false_eq_true, ↓reduceIte]
      have hl : 4 + t.len = t.serialize.length := by
        rw [tlv_serialize_length, hwf.2.2]
      rw [hl, List.drop_left]
      rw [ih (fun x hx => h x (by simp [hx])) fuel (by simp at hf; omega)]

theorem flatMap_serialize_length_ge (ts : List Tlv) :
    ts.length ≤ (ts.flatMap Tlv.serialize).length := by
  induction ts with
  | nil => simp
  | cons t ts ih =>
    simp only [List.flatMap_cons, List.length_append, List.length_cons, tlv_serialize_length]
    omega

theorem plainDataMsg_roundtrip (p : PlainDataMsg) (hm : ∀ x ∈ p.message, x ≠ 0) (ht : ∀ t ∈ p.tlvs, t.WF) :
    PlainDataMsg.deserialize p.serialize = (p, true) := by
  unfold PlainDataMsg.deserialize PlainDataMsg.serialize
  simp only [List.append_assoc, List.singleton_append]
  rw [takeWhile_nulfree _ _ hm, dropWhile_nulfree _ _ hm]
  simp only [List.drop_succ_cons, List.drop_zero]
  rw [parseTlvs_roundtrip p.tlvs ht _ (flatMap_serialize_length_ge _)]

end Otr

namespace Otr

/-! ### data message -/

theorem deserializeUnsigned_of (msg : Bytes) (f : UInt8) (in1 in2 in3 in4 enc rest : Bytes) (skid rkid y : Nat)
    (h0 : msg = f :: in1) (h1 : extractWord in1 = some (skid, in2)) (h2 : extractWord in2 = some (rkid, in3))
    (h3 : extractMPI in3 = some (y, in4)) (h4 : ¬ in4.length < 8) (h5 : ¬ bytesToNat (in4.take 8) = 0)
    (h6 : extractData (in4.drop 8) = some (enc, rest)) :
    deserializeUnsigned msg =
      some (⟨f.toNat, skid, rkid, y, in4.take 8, enc, [], [], msg.take (msg.length - rest.length)⟩, rest) := by
  subst h0
  unfold deserializeUnsigned
  simp only [h1, h2, h3, h4, h5, h6, ↓reduceIte]

structure DataMsg.WF (m : DataMsg) : Prop where
  flag : m.flag < 256
  skid : m.senderKeyID < 4294967296
  rkid : m.recipientKeyID < 4294967296
  y : (natToBytes m.y).length < 4294967296
  ctrLen : m.topHalfCtr.length = 8
  ctrNZ : bytesToNat m.topHalfCtr ≠ 0
  enc : m.encryptedMsg.length < 4294967296
  auth : m.authenticator.length = 20
  old : ∀ k ∈ m.oldMACKeys, k.length = 20
  oldLen : m.oldMACKeys.flatten.length < 4294967296
  raw : m.unsignedRaw = m.serializeUnsigned

theorem serializeUnsignedFields_eq (flag skid rkid y : Nat) (ctr enc : Bytes) :
    serializeUnsignedFields flag skid rkid y ctr enc =
      b8 flag :: (be32 skid ++ (be32 rkid ++ (appendMPI [] y ++ (ctr ++ appendData [] enc)))) := by
  simp [serializeUnsignedFields, appendData, appendMPI, appendWord]

theorem deserializeUnsigned_roundtrip (m : DataMsg) (rest : Bytes) (h : m.WF) :
    deserializeUnsigned (m.serializeUnsigned ++ rest) =
      some (⟨m.flag, m.senderKeyID, m.recipientKeyID, m.y, m.topHalfCtr, m.encryptedMsg, [], [], m.serializeUnsigned⟩, rest) := by
  have hb : (b8 m.flag).toNat = m.flag := by have := h.flag; simp; omega
  have e : m.serializeUnsigned ++ rest =
      b8 m.flag :: (be32 m.senderKeyID ++ (be32 m.recipientKeyID ++ (appendMPI [] m.y ++ (m.topHalfCtr ++ (appendData [] m.encryptedMsg ++ rest))))) := by
    simp [DataMsg.serializeUnsigned, serializeUnsignedFields_eq]
  have h4 : ¬ (m.topHalfCtr ++ (appendData [] m.encryptedMsg ++ rest)).length < 8 := by
    simp [h.ctrLen]
  have ht : (m.topHalfCtr ++ (appendData [] m.encryptedMsg ++ rest)).take 8 = m.topHalfCtr := by
    rw [← h.ctrLen]; simp
  have hd : (m.topHalfCtr ++ (appendData [] m.encryptedMsg ++ rest)).drop 8 = appendData [] m.encryptedMsg ++ rest := by
    rw [← h.ctrLen]; simp
  have := deserializeUnsigned_of (m.serializeUnsigned ++ rest) (b8 m.flag) _ _ _ _ m.encryptedMsg rest
    m.senderKeyID m.recipientKeyID m.y e
    (extractWord_be32 _ _ h.skid) (extractWord_be32 _ _ h.rkid) (extractMPI_append _ _ h.y) h4
    (by rw [ht]; exact h.ctrNZ) (by rw [hd]; exact extractData_append _ _ h.enc)
  rw [this, ht, hb]
  simp

theorem splitMacKeys_roundtrip (ks : List Bytes) (h : ∀ k ∈ ks, k.length = 20) :
    ∀ fuel, ks.length ≤ fuel → splitMacKeys fuel ks.flatten = some ks := by
  induction ks with
  | nil => intro fuel _; cases fuel <;> simp [splitMacKeys]
  | cons k ks ih =>
    intro fuel hf
    cases fuel with
    | zero => simp at hf
    | succ fuel =>
      have hk : k.length = 20 := h k (by simp)
      have hne : (k ++ ks.flatten).isEmpty = false := by
        cases k with
        | nil => simp at hk
        | cons a b => simp
      have hl : ¬ (k ++ ks.flatten).length < hashLength := by simp [hashLength, hk]
      simp only [List.flatten_cons, splitMacKeys, hne, hl, Bool.false_eq_true, ↓reduceIte]
      have hd : (k ++ ks.flatten).drop hashLength = ks.flatten := by
        simp [hashLength, ← hk]
      have ht : (k ++ ks.flatten).take hashLength = k := by
        simp [hashLength, ← hk]
      rw [hd, ht, ih (fun x hx => h x (by simp [hx])) fuel (by simp at hf; omega)]

theorem flatten_length_ge (ks : List Bytes) (h : ∀ k ∈ ks, k.length = 20) : ks.length ≤ ks.flatten.length := by
  induction ks with
  | nil => simp
  | cons k ks ih =>
    have hk := h k (by simp)
    have := ih (fun x hx => h x (by simp [hx]))
    simp only [List.length_cons, List.flatten_cons, List.length_append, hk]
    omega

theorem dataMsg_deserialize_of (msg : Bytes) (m : DataMsg) (rest rk r2 : Bytes) (ks : List Bytes)
    (h1 : deserializeUnsigned msg = some (m, rest)) (h2 : ¬ rest.length < hashLength)
    (h3 : extractData (rest.drop hashLength) = some (rk, r2)) (h4 : splitMacKeys rk.length rk = some ks) :
    DataMsg.deserialize msg = some { m with authenticator := rest.take hashLength, oldMACKeys := ks } := by
  unfold DataMsg.deserialize
  simp only [h1, h2, h3, h4, ↓reduceIte]

theorem dataMsg_roundtrip (m : DataMsg) (h : m.WF) : DataMsg.deserialize m.serialize = some m := by
  have e : m.serialize = m.serializeUnsigned ++ (m.authenticator ++ appendData [] m.oldMACKeys.flatten) := by
    simp [DataMsg.serialize, appendData, h.raw]
  have hl : ¬ (m.authenticator ++ appendData [] m.oldMACKeys.flatten).length < hashLength := by
    simp [hashLength, h.auth]
  have hd : (m.authenticator ++ appendData [] m.oldMACKeys.flatten).drop hashLength = appendData [] m.oldMACKeys.flatten ++ [] := by
    simp [hashLength, ← h.auth]
  have ht : (m.authenticator ++ appendData [] m.oldMACKeys.flatten).take hashLength = m.authenticator := by
    simp [hashLength, ← h.auth]
  have := dataMsg_deserialize_of m.serialize _ _ m.oldMACKeys.flatten [] m.oldMACKeys
    (by rw [e]; exact deserializeUnsigned_roundtrip m _ h) hl
    (by rw [hd]; exact extractData_append _ _ h.oldLen)
    (splitMacKeys_roundtrip _ h.old _ (flatten_length_ge _ h.old))
  rw [this, ht]
  have hr := h.raw
  cases m
  simp_all [DataMsg.serializeUnsigned]

end Otr

namespace Otr

/-! ### SMP payloads -/

theorem genSMPTLV_value (tp : Nat) (mpis : List Nat) :
    (genSMPTLV tp mpis).value = appendMPIs (appendWord [] mpis.length) mpis := rfl

theorem extractMPIs_genSMPTLV (tp : Nat) (mpis : List Nat) (h : mpisFit mpis) (hl : mpis.length < 4294967296) :
    extractMPIs (genSMPTLV tp mpis).value = some (mpis, []) := by
  have := extractMPIs_appendMPIs mpis [] h hl
  simpa [genSMPTLV_value] using this

theorem toSmp1_of (v : Bytes) (a b c d e f : Nat) (r : Bytes)
    (h : extractMPIs v = some ([a, b, c, d, e, f], r)) : toSmp1 v = some ⟨a, d, b, e, c, f, false, []⟩ := by
  unfold toSmp1; rw [h]

theorem toSmp2_of (v : Bytes) (a b c d e f g h' i j k : Nat) (r : Bytes)
    (h : extractMPIs v = some ([a, b, c, d, e, f, g, h', i, j, k], r)) :
    toSmp2 v = some ⟨a, d, b, e, c, f, g, h', i, j, k⟩ := by
  unfold toSmp2; rw [h]

theorem toSmp3_of (v : Bytes) (a b c d e f g h' : Nat) (r : Bytes)
    (h : extractMPIs v = some ([a, b, c, d, e, f, g, h'], r)) :
    toSmp3 v = some ⟨a, b, c, d, e, h', f, g⟩ := by
  unfold toSmp3; rw [h]

theorem toSmp4_of (v : Bytes) (a b c : Nat) (r : Bytes)
    (h : extractMPIs v = some ([a, b, c], r)) : toSmp4 v = some ⟨b, c, a⟩ := by
  unfold toSmp4; rw [h]

/-! repaired code: the SMP payload parsers accept exactly their number of MPIs (6 / 11 / 8 / 3) — a TLV
    that declares and carries one MPI more or fewer (or any other number) is rejected, for every list -/

theorem toSmp1_wrong_count (v : Bytes) (mpis : List Nat) (r : Bytes)
    (h : extractMPIs v = some (mpis, r)) (hl : mpis.length ≠ 6) : toSmp1 v = none := by
  unfold toSmp1
  split
  · rename_i heq
    rw [h] at heq
    simp only [Option.some.injEq, Prod.mk.injEq] at heq
    rw [heq.1] at hl
    exact absurd rfl hl
  · rfl

theorem toSmp2_wrong_count (v : Bytes) (mpis : List Nat) (r : Bytes)
    (h : extractMPIs v = some (mpis, r)) (hl : mpis.length ≠ 11) : toSmp2 v = none := by
  unfold toSmp2
  split
  · rename_i heq
    rw [h] at heq
    simp only [Option.some.injEq, Prod.mk.injEq] at heq
    rw [heq.1] at hl
    exact absurd rfl hl
  · rfl

theorem toSmp3_wrong_count (v : Bytes) (mpis : List Nat) (r : Bytes)
    (h : extractMPIs v = some (mpis, r)) (hl : mpis.length ≠ 8) : toSmp3 v = none := by
  unfold toSmp3
  split
  · rename_i heq
    rw [h] at heq
    simp only [Option.some.injEq, Prod.mk.injEq] at heq
    rw [heq.1] at hl
    exact absurd rfl hl
  · rfl

theorem toSmp4_wrong_count (v : Bytes) (mpis : List Nat) (r : Bytes)
    (h : extractMPIs v = some (mpis, r)) (hl : mpis.length ≠ 3) : toSmp4 v = none := by
  unfold toSmp4
  split
  · rename_i heq
    rw [h] at heq
    simp only [Option.some.injEq, Prod.mk.injEq] at heq
    rw [heq.1] at hl
    exact absurd rfl hl
  · rfl

/-- a payload whose MPI list cannot be read at all is rejected by all four parsers -/
theorem toSmp_unparsable (v : Bytes) (h : extractMPIs v = none) :
    toSmp1 v = none ∧ toSmp2 v = none ∧ toSmp3 v = none ∧ toSmp4 v = none := by
  unfold toSmp1 toSmp2 toSmp3 toSmp4
  rw [h]
  exact ⟨rfl, rfl, rfl, rfl⟩

/-- exact acceptance condition of the four parsers: the MPI list can be read and has exactly 6 / 11 / 8 / 3
    elements (whatever follows the list is ignored, as in the Go code) -/
theorem toSmp1_isSome_iff (v : Bytes) :
    (toSmp1 v).isSome = true ↔ ∃ mpis r, extractMPIs v = some (mpis, r) ∧ mpis.length = 6 := by
  constructor
  · intro hs
    cases h : extractMPIs v with
    | none => rw [(toSmp_unparsable v h).1] at hs; cases hs
    | some p =>
      obtain ⟨mpis, r⟩ := p
      refine ⟨mpis, r, rfl, Classical.byContradiction fun hl => ?_⟩
      rw [toSmp1_wrong_count v mpis r h hl] at hs; cases hs
  · rintro ⟨mpis, r, h, hl⟩
    match mpis, hl with
    | [a, b, c, d, e, f], _ => rw [toSmp1_of v a b c d e f r h]; rfl

theorem toSmp2_isSome_iff (v : Bytes) :
    (toSmp2 v).isSome = true ↔ ∃ mpis r, extractMPIs v = some (mpis, r) ∧ mpis.length = 11 := by
  constructor
  · intro hs
    cases h : extractMPIs v with
    | none => rw [(toSmp_unparsable v h).2.1] at hs; cases hs
    | some p =>
      obtain ⟨mpis, r⟩ := p
      refine ⟨mpis, r, rfl, Classical.byContradiction fun hl => ?_⟩
      rw [toSmp2_wrong_count v mpis r h hl] at hs; cases hs
  · rintro ⟨mpis, r, h, hl⟩
    match mpis, hl with
    | [a, b, c, d, e, f, g, h', i, j, k], _ => rw [toSmp2_of v a b c d e f g h' i j k r h]; rfl

theorem toSmp3_isSome_iff (v : Bytes) :
    (toSmp3 v).isSome = true ↔ ∃ mpis r, extractMPIs v = some (mpis, r) ∧ mpis.length = 8 := by
  constructor
  · intro hs
    cases h : extractMPIs v with
    | none => rw [(toSmp_unparsable v h).2.2.1] at hs; cases hs
    | some p =>
      obtain ⟨mpis, r⟩ := p
      refine ⟨mpis, r, rfl, Classical.byContradiction fun hl => ?_⟩
      rw [toSmp3_wrong_count v mpis r h hl] at hs; cases hs
  · rintro ⟨mpis, r, h, hl⟩
    match mpis, hl with
    | [a, b, c, d, e, f, g, h'], _ => rw [toSmp3_of v a b c d e f g h' r h]; rfl

theorem toSmp4_isSome_iff (v : Bytes) :
    (toSmp4 v).isSome = true ↔ ∃ mpis r, extractMPIs v = some (mpis, r) ∧ mpis.length = 3 := by
  constructor
  · intro hs
    cases h : extractMPIs v with
    | none => rw [(toSmp_unparsable v h).2.2.2] at hs; cases hs
    | some p =>
      obtain ⟨mpis, r⟩ := p
      refine ⟨mpis, r, rfl, Classical.byContradiction fun hl => ?_⟩
      rw [toSmp4_wrong_count v mpis r h hl] at hs; cases hs
  · rintro ⟨mpis, r, h, hl⟩
    match mpis, hl with
    | [a, b, c], _ => rw [toSmp4_of v a b c r h]; rfl

/-- the same for the payload the sender's serialiser `genSMPTLV` writes for an arbitrary MPI list (any TLV
    type): with a length other than 6 / 11 / 8 / 3 the corresponding parser returns `none` -/
theorem toSmp_genSMPTLV_wrong_count (tp : Nat) (mpis : List Nat) (h : mpisFit mpis)
    (hl : mpis.length < 4294967296) :
    (mpis.length ≠ 6 → toSmp1 (genSMPTLV tp mpis).value = none) ∧
    (mpis.length ≠ 11 → toSmp2 (genSMPTLV tp mpis).value = none) ∧
    (mpis.length ≠ 8 → toSmp3 (genSMPTLV tp mpis).value = none) ∧
    (mpis.length ≠ 3 → toSmp4 (genSMPTLV tp mpis).value = none) := by
  have he := extractMPIs_genSMPTLV tp mpis h hl
  exact ⟨toSmp1_wrong_count _ _ _ he, toSmp2_wrong_count _ _ _ he, toSmp3_wrong_count _ _ _ he,
    toSmp4_wrong_count _ _ _ he⟩

/-- small numbers fit -/
theorem mpisFit_of_lt (ns : List Nat) (h : ∀ n ∈ ns, n < 256 ^ 8) : mpisFit ns := by
  intro n hn
  unfold natToBytes
  rw [List.length_reverse]
  have := natToBytesLE_length_le 8 n (h n hn)
  omega

/-- the hypotheses are satisfiable: a well-formed SMP1 payload with a seventh MPI appended, and one with the
    sixth dropped, are both refused by `toSmp1` (before the repair the first was accepted); likewise SMP4 -/
example : toSmp1 (genSMPTLV tlvTypeSMP1 [1, 2, 3, 4, 5, 6, 7]).value = none ∧
    toSmp1 (genSMPTLV tlvTypeSMP1 [1, 2, 3, 4, 5]).value = none ∧
    toSmp4 (genSMPTLV tlvTypeSMP4 [1, 2, 3, 4]).value = none ∧
    toSmp4 (genSMPTLV tlvTypeSMP4 [1, 2]).value = none := by
  have fit : ∀ ns : List Nat, (∀ n ∈ ns, n < 8) → mpisFit ns :=
    fun ns h => mpisFit_of_lt ns (fun n hn => Nat.lt_trans (h n hn) (by decide))
  refine ⟨(toSmp_genSMPTLV_wrong_count _ _ (fit _ (by decide)) (by decide)).1 (by decide),
    (toSmp_genSMPTLV_wrong_count _ _ (fit _ (by decide)) (by decide)).1 (by decide),
    (toSmp_genSMPTLV_wrong_count _ _ (fit _ (by decide)) (by decide)).2.2.2 (by decide),
    (toSmp_genSMPTLV_wrong_count _ _ (fit _ (by decide)) (by decide)).2.2.2 (by decide)⟩

theorem smp1_roundtrip (m : Smp1Msg) (hq : m.hasQuestion = false) (hq2 : m.question = [])
    (h : mpisFit [m.g2a, m.c2, m.d2, m.g3a, m.c3, m.d3]) : toSmp1 m.tlv.value = some m := by
  have := toSmp1_of _ _ _ _ _ _ _ _ (extractMPIs_genSMPTLV tlvTypeSMP1 _ h (by simp))
  cases m
  simp_all [Smp1Msg.tlv]

theorem smp2_roundtrip (m : Smp2Msg)
    (h : mpisFit [m.g2b, m.c2, m.d2, m.g3b, m.c3, m.d3, m.pb, m.qb, m.cp, m.d5, m.d6]) :
    toSmp2 m.tlv.value = some m := by
  have := toSmp2_of _ _ _ _ _ _ _ _ _ _ _ _ _ (extractMPIs_genSMPTLV tlvTypeSMP2 _ h (by simp))
  cases m
  simp_all [Smp2Msg.tlv]

theorem smp3_roundtrip (m : Smp3Msg)
    (h : mpisFit [m.pa, m.qa, m.cp, m.d5, m.d6, m.ra, m.cr, m.d7]) : toSmp3 m.tlv.value = some m := by
  have := toSmp3_of _ _ _ _ _ _ _ _ _ _ (extractMPIs_genSMPTLV tlvTypeSMP3 _ h (by simp))
  cases m
  simp_all [Smp3Msg.tlv]

theorem smp4_roundtrip (m : Smp4Msg) (h : mpisFit [m.rb, m.cr, m.d7]) : toSmp4 m.tlv.value = some m := by
  have := toSmp4_of _ _ _ _ _ (extractMPIs_genSMPTLV tlvTypeSMP4 _ h (by simp))
  cases m
  simp_all [Smp4Msg.tlv]

theorem contains_zero_append (q rest : Bytes) : (q ++ 0 :: rest).contains 0 = true := by
  simp

theorem smp1q_roundtrip (m : Smp1Msg) (hq : m.hasQuestion = true) (hn : ∀ x ∈ m.question, x ≠ 0)
    (h : mpisFit [m.g2a, m.c2, m.d2, m.g3a, m.c3, m.d3]) : toSmp1Q m.tlv.value = some m := by
  have h1 := toSmp1_of _ _ _ _ _ _ _ _ (extractMPIs_genSMPTLV tlvTypeSMP1 _ h (by simp))
  have hv : m.tlv.value = m.question ++ 0 :: (genSMPTLV tlvTypeSMP1 [m.g2a, m.c2, m.d2, m.g3a, m.c3, m.d3]).value := by
    simp [Smp1Msg.tlv, hq]
  unfold toSmp1Q
  rw [hv, contains_zero_append, dropWhile_nulfree _ _ hn, takeWhile_nulfree _ _ hn]
  simp only [List.drop_succ_cons, List.drop_zero, ↓reduceIte, h1]
  cases m
  simp_all

end Otr
