/-
  Proofs.Fixes4 — theorems about the fourth round of repairs mirrored in the model (Otr/Conv.lean):

  §1  C12: a `ProvideAuthenticationSecret` that nobody asked for is refused and changes nothing: `continueSMP`
        outside `waitingForSecret` throws `notWaitingForSecret` and leaves the conversation as it was, except that
        a nil SMP state becomes EXPECT1 (`ensureSMP`) — continueSMP_refused_keeps_state (exact),
        continueSMP_refused_unchanged (state ≠ nil: the whole `MState` is untouched),
        provideAuthenticationSecret_refused_frame / _unchanged (the API call: nothing is sent), with a concrete
        conversation in EXPECT2 (the run that the refused call no longer aborts behind the peer's back).
  §2  C15: a message of an unknown type — whose instance tags are never looked at — does not disturb a fragment
        stream of the peer: receiveUnit_unknown_frame (exact: no plaintext, only the pending injections to send, no
        error; the conversation is what it was but for the emptied injection queue, the log gains
        ReceivedMessageUnrecognized), receive_unknown_frame, receive_unknown_fragCtx, with a concrete message.
  §3  C11/C12: a `StartAuthenticate` that is refused keeps the SMP state (the secret is stored only once the call
        can no longer be refused): randMPIs_run / smpSecretFor_run / paramLen_run (exact runs of the helpers),
        startAuthenticateExpect1_refused (only `cantAuthenticate` / `shortRandom` are thrown, conversation and log
        untouched), startAuthenticateExpect1_short_random_keeps_smp, startAuthenticateExpect1_run_short_random (a
        failing read makes the call throw), startAuthenticate_run_of_expect1_error,
        startAuthenticate_short_random_keeps_smp (API level: up to `ensureSMP`), with a conversation in EXPECT2 and
        a tape of failing reads.
  §4  C15: an out-of-sequence fragment binds nothing: receiveFragment_out_of_sequence_unbinds (empty context, no
        error, version / key choice / peer tag as before the call), receiveFragment_in_sequence_binds, with a
        concrete fresh conversation holding piece 1 of 3 that receives piece 3 of 3.
-/
import Proofs.ConvLife
import Proofs.Fixes3
namespace Otr

/-! ## 1. C12: a refused `ProvideAuthenticationSecret` keeps the SMP state -/

/-- the conversation after `ensureSMP`: a nil SMP state becomes EXPECT1, any other state — and everything else —
    stays -/
def ensureSmpConv (c : Conv) : Conv :=
  { c with smp := { c.smp with state := some (c.smp.state.getD .expect1) } }

theorem ensureSmpConv_of_some (c : Conv) (st : SmpState) (h : c.smp.state = some st) : ensureSmpConv c = c := by
  unfold ensureSmpConv
  rw [h, Option.getD_some, ← h]

theorem ensureSmpConv_of_none (c : Conv) (h : c.smp.state = none) :
    ensureSmpConv c = { c with smp := { c.smp with state := some .expect1 } } := by
  unfold ensureSmpConv
  rw [h, Option.getD_none]

/-- everything but the SMP state is as before, and the SMP state is the old one unless that was nil -/
theorem ensureSmpConv_frame (c : Conv) :
    ensureSmpConv c = { c with smp := { c.smp with state := (ensureSmpConv c).smp.state } } ∧
    (ensureSmpConv c).smp.state = some (c.smp.state.getD .expect1) ∧
    (∀ st, c.smp.state = some st → (ensureSmpConv c).smp.state = some st) ∧
    (c.smp.state = none → (ensureSmpConv c).smp.state = some .expect1) :=
  ⟨rfl, rfl, fun st h => by rw [ensureSmpConv_of_some c st h, h], fun h => by rw [ensureSmpConv_of_none c h]⟩

/-- **C12 (repaired code, exact).**  `continueSMP` in any state but `waitingForSecret` (nobody asked for a secret):
    the call throws `notWaitingForSecret`; randomness, clock, log and conversation are untouched, except that a nil
    SMP state becomes EXPECT1.  In particular a run in progress (EXPECT2, EXPECT3, EXPECT4) is not reset behind the
    peer's back. -/
theorem continueSMP_refused_keeps_state (K : Crypto) (secret : Bytes) (s : MState)
    (h : ∀ m, s.conv.smp.state ≠ some (.waitingForSecret m)) :
    runM (continueSMP K secret) s =
      .ok (.error .notWaitingForSecret, { s with conv := ensureSmpConv s.conv }) := by
  unfold continueSMP
  rw [runM_bind, runM_getc, bindM_ok]
  split
  · rename_i m hst
    exact absurd hst (h m)
  · rw [runM_bind, runM_modc, bindM_ok, runM_throw]
    rfl

/-- … with a state that is set (the normal case: `ensureSMP` has run in every earlier SMP call), the call changes
    nothing at all -/
theorem continueSMP_refused_unchanged (K : Crypto) (secret : Bytes) (s : MState) (st : SmpState)
    (hst : s.conv.smp.state = some st) (h : ∀ m, st ≠ .waitingForSecret m) :
    runM (continueSMP K secret) s = .ok (.error .notWaitingForSecret, s) := by
  rw [continueSMP_refused_keeps_state K secret s (fun m hm => h m (by rw [hst] at hm; exact Option.some.inj hm)),
    ensureSmpConv_of_some _ st hst]

/-- **C12 (repaired code, exact), API level.**  `ProvideAuthenticationSecret` when nobody asked for a secret: the
    error `notWaitingForSecret` is returned — so no message is produced, nothing is queued for injection
    (`injections` is part of the conversation), no event is raised, no randomness is consumed — and the
    conversation is what it was except that a nil SMP state becomes EXPECT1 -/
theorem provideAuthenticationSecret_refused_frame (K : Crypto) (secret : Bytes) (s : MState)
    (h : ∀ m, s.conv.smp.state ≠ some (.waitingForSecret m)) :
    runM (provideAuthenticationSecret K secret) s =
      .ok (.error .notWaitingForSecret, { s with conv := ensureSmpConv s.conv }) := by
  unfold provideAuthenticationSecret
  rw [runM_bind, continueSMP_refused_keeps_state K secret s h, bindM_error]

/-- … with a state that is set the call changes nothing at all -/
theorem provideAuthenticationSecret_refused_unchanged (K : Crypto) (secret : Bytes) (s : MState) (st : SmpState)
    (hst : s.conv.smp.state = some st) (h : ∀ m, st ≠ .waitingForSecret m) :
    runM (provideAuthenticationSecret K secret) s = .ok (.error .notWaitingForSecret, s) := by
  unfold provideAuthenticationSecret
  rw [runM_bind, continueSMP_refused_unchanged K secret s st hst h, bindM_error]

/-- a conversation in the middle of an SMP run it has started: encrypted, waiting for the peer's message 2 -/
def exExpect2 : MState :=
  ⟨{ msgState := .encrypted, version := some .v3, policies := 6, smp := { state := some .expect2, secret := some 7 } },
    {}, ["smp:x"], []⟩

/-- the hypotheses are satisfiable, and the run survives the refused call: state, secret and log as before -/
example (K : Crypto) (secret : Bytes) :
    (∀ m, exExpect2.conv.smp.state ≠ some (.waitingForSecret m)) ∧
    runM (provideAuthenticationSecret K secret) exExpect2 = .ok (.error .notWaitingForSecret, exExpect2) ∧
    runM (continueSMP K secret) exExpect2 = .ok (.error .notWaitingForSecret, exExpect2) :=
  ⟨fun m hm => (by cases hm),
   provideAuthenticationSecret_refused_unchanged K secret exExpect2 .expect2 rfl (fun m hm => by cases hm),
   continueSMP_refused_unchanged K secret exExpect2 .expect2 rfl (fun m hm => by cases hm)⟩

/-- … and a fresh conversation (nil SMP state): only `ensureSMP` shows -/
example (K : Crypto) (secret : Bytes) (env : Env) :
    runM (provideAuthenticationSecret K secret) ⟨{}, env, [], []⟩ =
      .ok (.error .notWaitingForSecret, ⟨{ smp := { state := some .expect1 } }, env, [], []⟩) := by
  rw [provideAuthenticationSecret_refused_frame K secret _ (fun m hm => by cases hm)]
  rfl

/-! ## 2. C15: a message of unknown type leaves the fragment context alone -/

/-- **C15 (repaired code, exact).**  `receiveUnit` on a message classified `unknown` (OTR enabled; any fuel, with
    or without `forgetFragments`): no plaintext, nothing to send beyond the injections that were pending, no error;
    the log gains ReceivedMessageUnrecognized; the conversation is exactly what it was but for the injection queue
    handed out — in particular `fragCtx` is untouched (before the repair it was emptied): a message whose instance
    tags are never looked at does not disturb the fragment stream of the peer -/
theorem receiveUnit_unknown_frame (K : Crypto) (fuel : Nat) (msg : Bytes) (fg : Bool) (s : MState)
    (hp : isOTREnabled s.conv.policies = true) (hg : guessMessageType msg = .unknown) :
    runM (receiveUnit K (fuel + 1) msg fg) s =
      .ok (.ok ⟨none, s.conv.injections, none⟩,
        { s with conv := { s.conv with injections := [] }, events := s.events ++ ["msg:14"] }) := by
  rw [receiveUnit]
  simp only [runM_bind, runM_getc, bindM_ok, hp, Bool.not_true, Bool.false_eq_true, ↓reduceIte, hg,
    runM_msgEvent, runM_pure, runM_modc, Bool.false_and, toSendEncoded, Option.isSome_none, withInjects,
    List.nil_append]
  rfl

/-- the same for `Receive` -/
theorem receive_unknown_frame (K : Crypto) (msg : Bytes) (s : MState)
    (hp : isOTREnabled s.conv.policies = true) (hg : guessMessageType msg = .unknown) :
    runM (receive K msg) s =
      .ok (.ok ⟨none, s.conv.injections, none⟩,
        { s with conv := { s.conv with injections := [] }, events := s.events ++ ["msg:14"] }) :=
  receiveUnit_unknown_frame K (msg.length + 1) msg true s hp hg

/-- in particular: the fragments collected so far, the peer tag, the version and all key material are what they were -/
theorem receive_unknown_fragCtx (K : Crypto) (msg : Bytes) (s s' : MState) (r : Except Err RecvResult)
    (hp : isOTREnabled s.conv.policies = true) (hg : guessMessageType msg = .unknown)
    (hr : runM (receive K msg) s = .ok (r, s')) :
    s'.conv.fragCtx = s.conv.fragCtx ∧ s'.conv.theirTag = s.conv.theirTag ∧ s'.conv.version = s.conv.version ∧
    s'.conv.keys = s.conv.keys ∧ s'.conv.ake = s.conv.ake ∧ s'.conv.smp = s.conv.smp ∧
    s'.conv.msgState = s.conv.msgState ∧ s'.env = s.env := by
  rw [receive_unknown_frame K msg s hp hg] at hr
  simp only [Res.ok.injEq, Prod.mk.injEq] at hr
  rw [← hr.2]
  exact ⟨rfl, rfl, rfl, rfl, rfl, rfl, rfl, rfl⟩

/-- an encoded message of a type the library does not know (0x20) -/
def exUnknownMsg : Bytes := strBytes "?OTR:AAMg."

/-- a conversation that has collected the first of two fragments of its peer -/
def exMidFragment : MState :=
  ⟨{ version := some .v3, policies := 6, ourTag := 514, theirTag := 257,
     fragCtx := { frag := [97, 98], index := 1, len := 2 } }, {}, [], []⟩

/-- the hypotheses are satisfiable, and the half-collected message survives -/
example (K : Crypto) :
    isOTREnabled exMidFragment.conv.policies = true ∧ guessMessageType exUnknownMsg = .unknown ∧
    ∃ s', runM (receive K exUnknownMsg) exMidFragment = .ok (.ok ⟨none, [], none⟩, s') ∧
      s'.conv.fragCtx = { frag := [97, 98], index := 1, len := 2 } ∧
      s'.events = ["msg:14"] := by
  have hp : isOTREnabled exMidFragment.conv.policies = true := by decide
  have hg : guessMessageType exUnknownMsg = .unknown := by decide
  exact ⟨hp, hg, _, receive_unknown_frame K exUnknownMsg exMidFragment hp hg, rfl, rfl⟩

/-! ## 3. C11/C12: a `StartAuthenticate` refused for lack of randomness keeps the SMP state -/

/-- `randMPIs k len` attempts all `k` reads, never throws or panics, and touches only the tape and diagnostics -/
theorem randMPIs_run : ∀ (k len : Nat) (s : MState), ∃ v env' mm',
    runM (randMPIs k len) s = .ok (.ok v, { s with env := env', mismatch := mm' }) ∧
      EnvStep s.env env' ∧ v.length = k
  | 0, _, s => ⟨[], s.env, s.mismatch, rfl, EnvStep.refl _, rfl⟩
  | k + 1, len, s => by
    obtain ⟨r, env1, mm1, h1, e1, -⟩ := randRead_run len s
    obtain ⟨v, env2, mm2, h2, e2, hl⟩ := randMPIs_run k len { s with env := env1, mismatch := mm1 }
    refine ⟨r.map bytesToNat :: v, env2, mm2, ?_, e1.trans e2, by simp [hl]⟩
    rw [randMPIs]
    simp only [runM_bind, h1, bindM_ok, h2, runM_pure]

/-- `smpSecretFor` reads the conversation and computes; without the two long-term keys it panics -/
theorem smpSecretFor_run (K : Crypto) (ini : Bool) (secret : Bytes) (s : MState) :
    (∃ v, runM (smpSecretFor K ini secret) s = .ok (.ok v, s)) ∨
    (∃ p, runM (smpSecretFor K ini secret) s = .panic p) := by
  unfold smpSecretFor
  simp only [runM_bind, runM_getc, bindM_ok]
  cases s.conv.theirKey with
  | none => right; exact ⟨_, rfl⟩
  | some tk =>
    cases s.conv.ourCurrentKey with
    | none => right; exact ⟨_, rfl⟩
    | some ok => left; exact ⟨_, rfl⟩

theorem paramLen_run (s : MState) :
    (∃ v, runM paramLen s = .ok (.ok v, s)) ∨ (∃ p, runM paramLen s = .panic p) := by
  unfold paramLen
  simp only [runM_bind, runM_getc, bindM_ok]
  cases s.conv.version with
  | none => right; exact ⟨_, rfl⟩
  | some v => left; exact ⟨_, rfl⟩

/-- **repaired code: a refused `startAuthenticateExpect1` changes nothing in the conversation.**  The call throws
    only `cantAuthenticate` (not encrypted: the whole state is untouched) or `shortRandom` (one of the four reads
    failed); in both cases conversation and log are exactly as before — only the randomness tape has advanced.
    Before the repair the freshly computed secret had already overwritten `smp.secret` of the run in progress. -/
theorem startAuthenticateExpect1_refused (K : Crypto) (q secret : Bytes) (s s' : MState) (e : Err)
    (h : runM (startAuthenticateExpect1 K q secret) s = .ok (.error e, s')) :
    ∃ env' mm', s' = { s with env := env', mismatch := mm' } ∧ EnvStep s.env env' ∧
      ((e = .cantAuthenticate ∧ s.conv.msgState ≠ .encrypted ∧ s' = s) ∨
       (e = .shortRandom ∧ s.conv.msgState = .encrypted)) := by
  unfold startAuthenticateExpect1 at h
  simp only [runM_bind, runM_getc, bindM_ok, runM_ite, runM_throw, runM_pure] at h
  by_cases hm : s.conv.msgState = .encrypted
  · simp only [hm, ne_eq, not_true_eq_false, ↓reduceIte, bindM_ok] at h
    rcases smpSecretFor_run K true secret s with ⟨sec, hs⟩ | ⟨p, hs⟩
    · rw [hs] at h
      simp only [bindM_ok] at h
      rcases paramLen_run s with ⟨len, hl⟩ | ⟨p, hl⟩
      · rw [hl] at h
        simp only [bindM_ok] at h
        obtain ⟨v, env', mm', hr, he, -⟩ := randMPIs_run 4 len s
        rw [hr] at h
        simp only [bindM_ok] at h
        split at h
        · simp only [runM_bind, runM_modc, bindM_ok, runM_pure, Res.ok.injEq, Prod.mk.injEq, reduceCtorEq,
            false_and] at h
        · simp only [runM_throw, Res.ok.injEq, Prod.mk.injEq, Except.error.injEq] at h
          exact ⟨env', mm', h.2.symm, he, Or.inr ⟨h.1.symm, hm⟩⟩
      · rw [hl] at h; cases h
    · rw [hs] at h; cases h
  · simp only [ne_eq, hm, not_false_eq_true, ↓reduceIte, bindM_error, Res.ok.injEq, Prod.mk.injEq,
      Except.error.injEq] at h
    exact ⟨s.env, s.mismatch, h.2.symm, EnvStep.refl _, Or.inl ⟨h.1.symm, hm, h.2.symm⟩⟩

/-- **C11/C12 (repaired code).**  If the randomness read of `startAuthenticateExpect1` fails — the call throws
    `shortRandom` — the conversation's SMP component (secret, `s1`, state, question, …) is exactly what it was
    before the call; so is the rest of the conversation and the log -/
theorem startAuthenticateExpect1_short_random_keeps_smp (K : Crypto) (q secret : Bytes) (s s' : MState)
    (h : runM (startAuthenticateExpect1 K q secret) s = .ok (.error .shortRandom, s')) :
    s'.conv.smp = s.conv.smp ∧ s'.conv = s.conv ∧ s'.events = s.events ∧ EnvStep s.env s'.env := by
  obtain ⟨env', mm', rfl, he, -⟩ := startAuthenticateExpect1_refused K q secret s s' _ h
  exact ⟨rfl, rfl, rfl, he⟩

/-- when exactly the randomness fails: one of the four reads of `randMPIs 4 len` returned nothing
    (`allSome vs = none`; `vs` always has length 4, so this is the only way not to get four numbers) -/
theorem startAuthenticateExpect1_run_short_random (K : Crypto) (q secret : Bytes) (s s1 : MState)
    (tk ok : DsaPub) (v : Version) (vs : List (Option Nat))
    (hm : s.conv.msgState = .encrypted) (htk : s.conv.theirKey = some tk) (hok : s.conv.ourCurrentKey = some ok)
    (hv : s.conv.version = some v)
    (hr : runM (randMPIs 4 v.parameterLength) s = .ok (.ok vs, s1)) (hfail : allSome vs = none) :
    runM (startAuthenticateExpect1 K q secret) s = .ok (.error .shortRandom, s1) := by
  unfold startAuthenticateExpect1 smpSecretFor paramLen
  simp only [runM_bind, runM_getc, bindM_ok, runM_ite, runM_throw, runM_pure, hm, ne_eq, not_true_eq_false,
    ↓reduceIte, htk, hok, hv, hr, hfail]

/-- how `startAuthenticate` reports a refusal of `startAuthenticateExpect1` (question acceptable): the error is
    passed on — also the abort TLV of the other states is lost — and nothing else happens -/
theorem startAuthenticate_run_of_expect1_error (K : Crypto) (q secret : Bytes) (s s1 : MState) (e : Err)
    (hq1 : q.contains 0 = false) (hq2 : q.length ≤ maxSMPQuestionLength)
    (h : runM (startAuthenticateExpect1 K q secret) { s with conv := ensureSmpConv s.conv } = .ok (.error e, s1)) :
    runM (startAuthenticate K q secret) s = .ok (.error e, s1) := by
  have hq2' : ¬ q.length > maxSMPQuestionLength := by omega
  unfold startAuthenticate
  simp only [runM_bind, runM_getc, bindM_ok, runM_ite, runM_throw, runM_pure, hq1, Bool.false_eq_true, ↓reduceIte,
    hq2', runM_modc]
  cases hst : s.conv.smp.state with
  | none =>
    rw [ensureSmpConv_of_none _ hst] at h
    simp only [Option.isNone_none, ↓reduceIte, bindM_ok, h, bindM_error]
  | some st =>
    rw [ensureSmpConv_of_some _ st hst] at h
    simp only [Option.isNone_some, Bool.false_eq_true, ↓reduceIte, bindM_ok, hst]
    cases st <;> simp only [runM_bind, h, bindM_error]

/-- **C11/C12 (repaired code), API level.**  `StartAuthenticate` (question acceptable) when the randomness read of
    `startAuthenticateExpect1` fails: the call throws `shortRandom`, nothing is sent, and the conversation is what
    it was, except that a nil SMP state has become EXPECT1 (`ensureSMP` runs before): the SMP component is
    `{ old with state := some (old.state.getD .expect1) }` — identical to the old one whenever a state was set. -/
theorem startAuthenticate_short_random_keeps_smp (K : Crypto) (q secret : Bytes) (s s1 : MState)
    (hq1 : q.contains 0 = false) (hq2 : q.length ≤ maxSMPQuestionLength)
    (h : runM (startAuthenticateExpect1 K q secret) { s with conv := ensureSmpConv s.conv } =
      .ok (.error .shortRandom, s1)) :
    runM (startAuthenticate K q secret) s = .ok (.error .shortRandom, s1) ∧
    s1.conv = ensureSmpConv s.conv ∧
    s1.conv.smp = { s.conv.smp with state := some (s.conv.smp.state.getD .expect1) } ∧
    (∀ st, s.conv.smp.state = some st → s1.conv.smp = s.conv.smp ∧ s1.conv = s.conv) ∧
    (s.conv.smp.state = none → s1.conv.smp = { s.conv.smp with state := some .expect1 }) ∧
    s1.events = s.events ∧ EnvStep s.env s1.env := by
  have hrun := startAuthenticate_run_of_expect1_error K q secret s s1 _ hq1 hq2 h
  obtain ⟨-, hc, hev, hes⟩ := startAuthenticateExpect1_short_random_keeps_smp K q secret _ s1 h
  have hc : s1.conv = ensureSmpConv s.conv := hc
  refine ⟨hrun, hc, by rw [hc]; rfl, fun st hst => ?_, fun hst => ?_, hev, hes⟩
  · rw [hc, ensureSmpConv_of_some _ st hst]; exact ⟨rfl, rfl⟩
  · rw [hc, ensureSmpConv_of_none _ hst]

/-- a conversation in the middle of an SMP run it has started (EXPECT2, secret 7), with both long-term keys, and
    a randomness source whose next four reads fail -/
def exExpect2NoRand : MState :=
  ⟨{ msgState := .encrypted, version := some .v3, policies := 6, theirKey := some ⟨7, 7, 7, 7⟩,
     ourCurrentKey := some ⟨5, 5, 5, 5⟩, smp := { state := some .expect2, secret := some 7 } },
    { rand := [none, none, none, none] }, ["smp:x"], []⟩

/-- the hypotheses are satisfiable, and the run in progress survives the refused call: `startAuthenticateExpect1`
    and `startAuthenticate` throw `shortRandom`; state EXPECT2 and secret 7 are still there (before the repair the
    secret had been replaced by the one computed from the new `secret` argument); only the tape is used up -/
example (K : Crypto) (q secret : Bytes) (hq1 : q.contains 0 = false) (hq2 : q.length ≤ maxSMPQuestionLength) :
    runM (startAuthenticateExpect1 K q secret) exExpect2NoRand =
      .ok (.error .shortRandom, { exExpect2NoRand with env := {} }) ∧
    runM (startAuthenticate K q secret) exExpect2NoRand =
      .ok (.error .shortRandom, { exExpect2NoRand with env := {} }) ∧
    ({ exExpect2NoRand with env := {} } : MState).conv.smp = { state := some .expect2, secret := some 7 } := by
  have h1 : runM (startAuthenticateExpect1 K q secret) exExpect2NoRand =
      .ok (.error .shortRandom, { exExpect2NoRand with env := {} }) :=
    startAuthenticateExpect1_run_short_random K q secret exExpect2NoRand _ ⟨7, 7, 7, 7⟩ ⟨5, 5, 5, 5⟩ .v3
      [none, none, none, none] rfl rfl rfl rfl rfl rfl
  refine ⟨h1, ?_, rfl⟩
  exact (startAuthenticate_short_random_keeps_smp K q secret exExpect2NoRand _ hq1 hq2
    (by rw [ensureSmpConv_of_some _ .expect2 rfl]; exact h1)).1

/-- … and with a nil SMP state only `ensureSMP` shows -/
example (K : Crypto) (q secret : Bytes) (hq1 : q.contains 0 = false) (hq2 : q.length ≤ maxSMPQuestionLength) :
    ∃ s1, runM (startAuthenticate K q secret)
        { exExpect2NoRand with conv := { exExpect2NoRand.conv with smp := {} } } = .ok (.error .shortRandom, s1) ∧
      s1.conv.smp = { state := some .expect1 } := by
  have h1 := startAuthenticateExpect1_run_short_random K q secret
    { exExpect2NoRand with conv := { exExpect2NoRand.conv with smp := { state := some .expect1 } } } _
    ⟨7, 7, 7, 7⟩ ⟨5, 5, 5, 5⟩ .v3 [none, none, none, none] rfl rfl rfl rfl rfl rfl
  obtain ⟨hr, -, hs, -⟩ := startAuthenticate_short_random_keeps_smp K q secret
    { exExpect2NoRand with conv := { exExpect2NoRand.conv with smp := {} } } _ hq1 hq2
    (by rw [ensureSmpConv_of_none _ rfl]; exact h1)
  exact ⟨_, hr, hs⟩

/-! ## 4. C15: an out-of-sequence fragment binds nothing -/

/-- **C15 (repaired code).**  A fragment that is addressed to this conversation (`ignore = false`), whose prefix and
    body parse (`ok1 = true`, piece `ix` of `l`), whose numbering is legal, but that is neither a first piece nor the
    piece that follows the ones collected in `before` (same total): `receiveFragment` returns the empty context
    without an error, and — whatever looking at its prefix did (state `s1`) — version, long-term key choice and
    peer instance tag are those before the call.  Only a first piece or the next piece of the stream being
    collected binds the conversation. -/
theorem receiveFragment_out_of_sequence_unbinds (before : FragCtx) (data : Bytes) (s s1 : MState) (body d : Bytes)
    (ix l : Nat)
    (hp : runM (parseFragmentPrefix data) s = .ok (.ok (body, false, true), s1))
    (hpf : parseFragment body = some (d, ix, l))
    (hlegal : ¬ (ix = 0 ∨ l = 0 ∨ ix > l))
    (hfirst : ix ≠ 1) (hnext : ¬ ((before.index + 1) % 65536 = ix ∧ before.len = l)) :
    runM (receiveFragment before data) s = .ok (.ok FragCtx.empty, unbindState s s1) ∧
    (unbindState s s1).conv.version = s.conv.version ∧
    (unbindState s s1).conv.ourCurrentKey = s.conv.ourCurrentKey ∧
    (unbindState s s1).conv.theirTag = s.conv.theirTag := by
  have ho : fragOutOfSequence before ix l := ⟨hfirst, hnext⟩
  have hrun : runM (receiveFragment before data) s = .ok (.ok FragCtx.empty, unbindState s s1) := by
    rw [receiveFragment_run_of_prefix before data s s1 body false true hp]
    simp only [Bool.false_eq_true, ↓reduceIte, hpf]
    rw [if_pos (Or.inr ho), fragAccept_outOfSequence before d ix l hlegal ho]
  have hd : false = true ∨ fragmentDiscarded before true (parseFragment body) := by
    right; rw [hpf]; exact Or.inr ho
  obtain ⟨hc, h1, h2, h3⟩ := receiveFragment_discarded_unbinds before data s s1 _ body false true _ hp hd hrun
  exact ⟨hrun, h1, h2, h3⟩

/-- … while a first piece, or the next piece of the stream being collected, keeps what looking at its prefix
    committed the conversation to (state `s1`) -/
theorem receiveFragment_in_sequence_binds (before : FragCtx) (data : Bytes) (s s1 : MState) (body d : Bytes)
    (ix l : Nat)
    (hp : runM (parseFragmentPrefix data) s = .ok (.ok (body, false, true), s1))
    (hpf : parseFragment body = some (d, ix, l))
    (hlegal : ¬ (ix = 0 ∨ l = 0 ∨ ix > l))
    (hseq : ix = 1 ∨ ((before.index + 1) % 65536 = ix ∧ before.len = l)) :
    runM (receiveFragment before data) s = .ok (.ok (fragAccept before d ix l), s1) := by
  have hno : ¬ ((ix = 0 ∨ l = 0 ∨ ix > l) ∨ fragOutOfSequence before ix l) := by
    rintro (h | ⟨h1, h2⟩)
    · exact hlegal h
    · rcases hseq with h | h
      · exact h1 h
      · exact h2 h
  rw [receiveFragment_run_of_prefix before data s s1 body false true hp]
  simp only [Bool.false_eq_true, ↓reduceIte, hpf]
  rw [if_neg hno]

/-- the hypotheses are satisfiable: a fresh conversation that allows v2 and has a long-term key holds piece 1 of 3;
    piece 3 of 3 arrives.  Looking at its prefix commits to v2 and selects the key; the piece is out of sequence,
    the context is forgotten, and version and key choice are taken back -/
example :
    let s : MState := ⟨{ policies := 6, ourKeys := [⟨1, 1, 1, 1⟩], fragCtx := ⟨[97], 1, 3⟩ }, {}, [], []⟩
    ∃ s1, runM (parseFragmentPrefix (strBytes "?OTR,00003,00003,x,")) s =
        .ok (.ok (strBytes "00003,00003,x,", false, true), s1) ∧
      s1.conv.version = some .v2 ∧ s1.conv.ourCurrentKey = some ⟨1, 1, 1, 1⟩ ∧
      parseFragment (strBytes "00003,00003,x,") = some ([120], 3, 3) ∧
      ¬ (3 = 0 ∨ 3 = 0 ∨ 3 > 3) ∧ (3 : Nat) ≠ 1 ∧ ¬ ((s.conv.fragCtx.index + 1) % 65536 = 3 ∧ s.conv.fragCtx.len = 3) ∧
      ∃ s', runM (receiveFragment s.conv.fragCtx (strBytes "?OTR,00003,00003,x,")) s = .ok (.ok FragCtx.empty, s') ∧
        s'.conv.version = none ∧ s'.conv.ourCurrentKey = none := by
  refine ⟨_, rfl, rfl, rfl, by decide, by decide, by decide, by decide, _, rfl, rfl, rfl⟩

end Otr
