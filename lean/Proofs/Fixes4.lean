/-
  Proofs.Fixes4 — theorems about the fourth round of repairs mirrored in the model (Otr/Conv.lean):

  §1  C12: a `ProvideAuthenticationSecret` that nobody asked for is refused and changes nothing: `continueSMP`
        outside `waitingForSecret` throws `notWaitingForSecret` and leaves the conversation as it was, except that
        a nil SMP state becomes EXPECT1 (`ensureSMP`) — continueSMP_refused_keeps_state (exact),
        continueSMP_refused_unchanged (state ≠ nil: the whole `MState` is untouched),
        provideAuthenticationSecret_refused_frame / _unchanged (the API call: nothing is sent), with a concrete
        conversation in EXPECT2 (the run that the refused call no longer aborts behind the peer's back).
  §2  C15: a message of an unknown type — whose instance tags are never looked at — does not disturb a fragment
        stream of the peer: receiveUnit_unknown_frame (exact: no plaintext, only the pending injections to send, no
        error; the conversation is what it was but for the emptied injection queue, the log gains
        ReceivedMessageUnrecognized), receive_unknown_frame, receive_unknown_fragCtx, with a concrete message.
-/
import Proofs.ConvLife
namespace Otr

/-! ## 1. C12: a refused `ProvideAuthenticationSecret` keeps the SMP state -/

/-- the conversation after `ensureSMP`: a nil SMP state becomes EXPECT1, any other state — and everything else —
    stays -/
def ensureSmpConv (c : Conv) : Conv :=
  { c with smp := { c.smp with state := some (c.smp.state.getD .expect1) } }

theorem ensureSmpConv_of_some (c : Conv) (st : SmpState) (h : c.smp.state = some st) : ensureSmpConv c = c := by
  unfold ensureSmpConv
  rw [h, Option.getD_some, ← h]

theorem ensureSmpConv_of_none (c : Conv) (h : c.smp.state = none) :
    ensureSmpConv c = { c with smp := { c.smp with state := some .expect1 } } := by
  unfold ensureSmpConv
  rw [h, Option.getD_none]

/-- everything but the SMP state is as before, and the SMP state is the old one unless that was nil -/
theorem ensureSmpConv_frame (c : Conv) :
    ensureSmpConv c = { c with smp := { c.smp with state := (ensureSmpConv c).smp.state } } ∧
    (ensureSmpConv c).smp.state = some (c.smp.state.getD .expect1) ∧
    (∀ st, c.smp.state = some st → (ensureSmpConv c).smp.state = some st) ∧
    (c.smp.state = none → (ensureSmpConv c).smp.state = some .expect1) :=
  ⟨rfl, rfl, fun st h => by rw [ensureSmpConv_of_some c st h, h], fun h => by rw [ensureSmpConv_of_none c h]⟩

/-- **C12 (repaired code, exact).**  `continueSMP` in any state but `waitingForSecret` (nobody asked for a secret):
    the call throws `notWaitingForSecret`; randomness, clock, log and conversation are untouched, except that a nil
    SMP state becomes EXPECT1.  In particular a run in progress (EXPECT2, EXPECT3, EXPECT4) is not reset behind the
    peer's back. -/
theorem continueSMP_refused_keeps_state (K : Crypto) (secret : Bytes) (s : MState)
    (h : ∀ m, s.conv.smp.state ≠ some (.waitingForSecret m)) :
    runM (continueSMP K secret) s =
      .ok (.error .notWaitingForSecret, { s with conv := ensureSmpConv s.conv }) := by
  unfold continueSMP
  rw [runM_bind, runM_getc, bindM_ok]
  split
  · rename_i m hst
    exact absurd hst (h m)
  · rw [runM_bind, runM_modc, bindM_ok, runM_throw]
    rfl

/-- … with a state that is set (the normal case: `ensureSMP` has run in every earlier SMP call), the call changes
    nothing at all -/
theorem continueSMP_refused_unchanged (K : Crypto) (secret : Bytes) (s : MState) (st : SmpState)
    (hst : s.conv.smp.state = some st) (h : ∀ m, st ≠ .waitingForSecret m) :
    runM (continueSMP K secret) s = .ok (.error .notWaitingForSecret, s) := by
  rw [continueSMP_refused_keeps_state K secret s (fun m hm => h m (by rw [hst] at hm; exact Option.some.inj hm)),
    ensureSmpConv_of_some _ st hst]

/-- **C12 (repaired code, exact), API level.**  `ProvideAuthenticationSecret` when nobody asked for a secret: the
    error `notWaitingForSecret` is returned — so no message is produced, nothing is queued for injection
    (`injections` is part of the conversation), no event is raised, no randomness is consumed — and the
    conversation is what it was except that a nil SMP state becomes EXPECT1 -/
theorem provideAuthenticationSecret_refused_frame (K : Crypto) (secret : Bytes) (s : MState)
    (h : ∀ m, s.conv.smp.state ≠ some (.waitingForSecret m)) :
    runM (provideAuthenticationSecret K secret) s =
      .ok (.error .notWaitingForSecret, { s with conv := ensureSmpConv s.conv }) := by
  unfold provideAuthenticationSecret
  rw [runM_bind, continueSMP_refused_keeps_state K secret s h, bindM_error]

/-- … with a state that is set the call changes nothing at all -/
theorem provideAuthenticationSecret_refused_unchanged (K : Crypto) (secret : Bytes) (s : MState) (st : SmpState)
    (hst : s.conv.smp.state = some st) (h : ∀ m, st ≠ .waitingForSecret m) :
    runM (provideAuthenticationSecret K secret) s = .ok (.error .notWaitingForSecret, s) := by
  unfold provideAuthenticationSecret
  rw [runM_bind, continueSMP_refused_unchanged K secret s st hst h, bindM_error]

/-- a conversation in the middle of an SMP run it has started: encrypted, waiting for the peer's message 2 -/
def exExpect2 : MState :=
  ⟨{ msgState := .encrypted, version := some .v3, policies := 6, smp := { state := some .expect2, secret := some 7 } },
    {}, ["smp:x"], []⟩

/-- the hypotheses are satisfiable, and the run survives the refused call: state, secret and log as before -/
example (K : Crypto) (secret : Bytes) :
    (∀ m, exExpect2.conv.smp.state ≠ some (.waitingForSecret m)) ∧
    runM (provideAuthenticationSecret K secret) exExpect2 = .ok (.error .notWaitingForSecret, exExpect2) ∧
    runM (continueSMP K secret) exExpect2 = .ok (.error .notWaitingForSecret, exExpect2) :=
  ⟨fun m hm => (by cases hm),
   provideAuthenticationSecret_refused_unchanged K secret exExpect2 .expect2 rfl (fun m hm => by cases hm),
   continueSMP_refused_unchanged K secret exExpect2 .expect2 rfl (fun m hm => by cases hm)⟩

/-- … and a fresh conversation (nil SMP state): only `ensureSMP` shows -/
example (K : Crypto) (secret : Bytes) (env : Env) :
    runM (provideAuthenticationSecret K secret) ⟨{}, env, [], []⟩ =
      .ok (.error .notWaitingForSecret, ⟨{ smp := { state := some .expect1 } }, env, [], []⟩) := by
  rw [provideAuthenticationSecret_refused_frame K secret _ (fun m hm => by cases hm)]
  rfl

/-! ## 2. C15: a message of unknown type leaves the fragment context alone -/

/-- **C15 (repaired code, exact).**  `receiveUnit` on a message classified `unknown` (OTR enabled; any fuel, with
    or without `forgetFragments`): no plaintext, nothing to send beyond the injections that were pending, no error;
    the log gains ReceivedMessageUnrecognized; the conversation is exactly what it was but for the injection queue
    handed out — in particular `fragCtx` is untouched (before the repair it was emptied): a message whose instance
    tags are never looked at does not disturb the fragment stream of the peer -/
theorem receiveUnit_unknown_frame (K : Crypto) (fuel : Nat) (msg : Bytes) (fg : Bool) (s : MState)
    (hp : isOTREnabled s.conv.policies = true) (hg : guessMessageType msg = .unknown) :
    runM (receiveUnit K (fuel + 1) msg fg) s =
      .ok (.ok ⟨none, s.conv.injections, none⟩,
        { s with conv := { s.conv with injections := [] }, events := s.events ++ ["msg:14"] }) := by
  rw [receiveUnit]
  simp only [runM_bind, runM_getc, bindM_ok, hp, Bool.not_true, Bool.false_eq_true, ↓reduceIte, hg,
    runM_msgEvent, runM_pure, runM_modc, Bool.false_and, toSendEncoded, Option.isSome_none, withInjects,
    List.nil_append]
  rfl

/-- the same for `Receive` -/
theorem receive_unknown_frame (K : Crypto) (msg : Bytes) (s : MState)
    (hp : isOTREnabled s.conv.policies = true) (hg : guessMessageType msg = .unknown) :
    runM (receive K msg) s =
      .ok (.ok ⟨none, s.conv.injections, none⟩,
        { s with conv := { s.conv with injections := [] }, events := s.events ++ ["msg:14"] }) :=
  receiveUnit_unknown_frame K (msg.length + 1) msg true s hp hg

/-- in particular: the fragments collected so far, the peer tag, the version and all key material are what they were -/
theorem receive_unknown_fragCtx (K : Crypto) (msg : Bytes) (s s' : MState) (r : Except Err RecvResult)
    (hp : isOTREnabled s.conv.policies = true) (hg : guessMessageType msg = .unknown)
    (hr : runM (receive K msg) s = .ok (r, s')) :
    s'.conv.fragCtx = s.conv.fragCtx ∧ s'.conv.theirTag = s.conv.theirTag ∧ s'.conv.version = s.conv.version ∧
    s'.conv.keys = s.conv.keys ∧ s'.conv.ake = s.conv.ake ∧ s'.conv.smp = s.conv.smp ∧
    s'.conv.msgState = s.conv.msgState ∧ s'.env = s.env := by
  rw [receive_unknown_frame K msg s hp hg] at hr
  simp only [Res.ok.injEq, Prod.mk.injEq] at hr
  rw [← hr.2]
  exact ⟨rfl, rfl, rfl, rfl, rfl, rfl, rfl, rfl⟩

/-- an encoded message of a type the library does not know (0x20) -/
def exUnknownMsg : Bytes := strBytes "?OTR:AAMg."

/-- a conversation that has collected the first of two fragments of its peer -/
def exMidFragment : MState :=
  ⟨{ version := some .v3, policies := 6, ourTag := 514, theirTag := 257,
     fragCtx := { frag := [97, 98], index := 1, len := 2 } }, {}, [], []⟩

/-- the hypotheses are satisfiable, and the half-collected message survives -/
example (K : Crypto) :
    isOTREnabled exMidFragment.conv.policies = true ∧ guessMessageType exUnknownMsg = .unknown ∧
    ∃ s', runM (receive K exUnknownMsg) exMidFragment = .ok (.ok ⟨none, [], none⟩, s') ∧
      s'.conv.fragCtx = { frag := [97, 98], index := 1, len := 2 } ∧
      s'.events = ["msg:14"] := by
  have hp : isOTREnabled exMidFragment.conv.policies = true := by decide
  have hg : guessMessageType exUnknownMsg = .unknown := by decide
  exact ⟨hp, hg, _, receive_unknown_frame K exUnknownMsg exMidFragment hp hg, rfl, rfl⟩

end Otr
