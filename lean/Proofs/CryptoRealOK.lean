/-
  Proofs.CryptoRealOK — the hypotheses of the panic-freedom theorem (property C13) hold for the executable
  cryptography `Crypto.real` (the implementation the compiled driver runs and which is compared differentially with
  Go's crypto/*, math/big, constbn).

  `CryptoOK K` (Proofs/NoPanicBase.lean) = `GroupOK K` ∧ `∀ k d, 20 ≤ (K.mac2 k d).length`.
    * the length part is unconditional: Proofs/ShaLength.lean proves that SHA-256 / SHA-1 / HMAC of `Otr/CryptoReal`
      return 32 / 20 bytes for every input (structure of the implementation, the round function is not unfolded);
    * `GroupOK Crypto.real` follows from `Crypto.real_arithOK` (gexp is exponentiation mod p, modInv is the modular
      inverse: Proofs/Smp.lean over Otr/CryptoReal/NumLemmas.lean) and the primality of p = `dhP` (RFC 3526 group 5),
      which stays a hypothesis exactly as in Props.C11 / Props.C12 — no primality certificate is checked here.
  Hence `api_sequence_no_panic_real`: with the executable cryptography no sequence of API calls from a fresh
  conversation reaches a panic site, under the single hypothesis `Nat.Prime dhP`.

  Also the output-length hypotheses of three theorems of Proofs/Spec.lean (C10) are discharged for `Crypto.real`.

  Import graph: Proofs.NoPanic (side of the `Otr.Inv` of Proofs.NoPanicBase), Proofs.Smp and Proofs.Spec (neither
  imports an `Otr.Inv`): no clash.
-/
import Proofs.ShaLength
import Proofs.NoPanic
import Proofs.Smp
import Proofs.Spec
namespace Otr
open ConvData

/-! ## the fields of `Crypto.real` -/

theorem Crypto.real_hash1 : Crypto.real.hash1 = CryptoReal.sha1 := rfl
theorem Crypto.real_hash2 : Crypto.real.hash2 = CryptoReal.sha256 := rfl
theorem Crypto.real_mac1 : Crypto.real.mac1 = CryptoReal.hmacSha1 := rfl
theorem Crypto.real_mac2 : Crypto.real.mac2 = CryptoReal.hmacSha256 := rfl

/-! ## output lengths -/

/-- SHA-1 (`otrVersion.hash`, fingerprints, data-message keys): 20 bytes -/
theorem Crypto.real_hash1_length (d : Bytes) : (Crypto.real.hash1 d).length = 20 :=
  CryptoReal.sha1_length d

/-- SHA-256 (`otrVersion.hash2`, AKE keys): 32 bytes -/
theorem Crypto.real_hash2_length (d : Bytes) : (Crypto.real.hash2 d).length = 32 :=
  CryptoReal.sha256_length d

/-- HMAC-SHA1 (data-message authenticator): 20 bytes -/
theorem Crypto.real_mac1_length (k d : Bytes) : (Crypto.real.mac1 k d).length = 20 :=
  CryptoReal.hmacSha1_length k d

/-- HMAC-SHA256 (AKE): 32 bytes -/
theorem Crypto.real_mac2_length (k d : Bytes) : (Crypto.real.mac2 k d).length = 32 :=
  CryptoReal.hmacSha256_length k d

/-- the second field of `CryptoOK`: `macSig[:20]` in `revealSig.serialize` / `sig.serialize` is in range -/
theorem Crypto.real_mac2_len (k d : Bytes) : 20 ≤ (Crypto.real.mac2 k d).length := by
  rw [Crypto.real_mac2_length]; decide

/-- the two kernel-evaluated instances of Proofs/NoPanicBase.lean are now instances of the general fact -/
example : (Crypto.real.mac2 [] []).length = 32 := Crypto.real_mac2_length _ _
example : (Crypto.real.mac2 (List.replicate 70 7) (strBytes "abc")).length = 32 := Crypto.real_mac2_length _ _

/-! ## group arithmetic -/

/-- the first field of `CryptoOK`, for p prime: `ModInverse` succeeds off the multiples of p, powers and products
    of non-multiples of p are non-multiples, the generator 2 is not a multiple -/
theorem Crypto.real_groupOK (hp : Nat.Prime dhP) : GroupOK Crypto.real :=
  have h := group_facts_of_arithOK Crypto.real_arithOK hp
  ⟨h.1, h.2.1, h.2.2.1, h.2.2.2⟩

/-- the hypothesis is not known false: `two_pow_dhQ` (2^q ≡ 1 mod p, kernel evaluation of the executable `powMod`;
    p = 2q+1, so p passes the Fermat test to base 2), and the fields of `GroupOK` hold on samples by evaluation -/
example : Crypto.real.modInv 3 dhP ≠ none := by decide +kernel
example : Crypto.real.gexp 5 (dhQ + 17) % dhP ≠ 0 := by decide +kernel

/-! ## `CryptoOK Crypto.real` and the no-panic theorem for the executable cryptography -/

theorem Crypto.real_cryptoOK (hp : Nat.Prime dhP) : CryptoOK Crypto.real :=
  ⟨Crypto.real_groupOK hp, Crypto.real_mac2_len⟩

/-- **no sequence of API calls panics with the executable cryptography**: from every freshly created conversation
    (any version preset or none, any policies, any key list incl. empty, any fragment size, error handler, query text
    and instance tag), every sequence of API calls — each with its own arguments, randomness tape, signing-oracle tape
    and clock — runs to a final conversation (no panic site of the model is reached) on which the invariant holds.
    Only hypothesis: p is prime. -/
theorem api_sequence_no_panic_real (hp : Nat.Prime dhP) (version : Option Version) (policies : Policies)
    (keys : List DsaPub) (fragmentSize : Nat) (errHandler : Bool) (friendlyQuery : Bytes) (ourTag : Nat)
    (steps : List ApiStep) :
    ∃ c', runApi Crypto.real (freshConv version policies keys fragmentSize errHandler friendlyQuery ourTag) steps
        = .ok c' ∧ Inv Crypto.real c' :=
  api_sequence_no_panic_fresh Crypto.real (Crypto.real_cryptoOK hp) version policies keys fragmentSize errHandler
    friendlyQuery ourTag steps

/-- the same from any conversation that satisfies the invariant -/
theorem api_sequence_no_panic_real_from (hp : Nat.Prime dhP) (steps : List ApiStep) (c : Conv)
    (hc : Inv Crypto.real c) : ∃ c', runApi Crypto.real c steps = .ok c' ∧ Inv Crypto.real c' :=
  api_sequence_no_panic Crypto.real (Crypto.real_cryptoOK hp) steps c hc

/-- one call, as `wp` statement (no panic, invariant again whether the call returned or threw) -/
theorem apiCall_inv_real (hp : Nat.Prime dhP) (call : ApiCall) (s : MState) (h : Inv Crypto.real s.conv) :
    wp (call.run Crypto.real) (fun _ s' => Inv Crypto.real s'.conv) NoP s :=
  apiCall_inv Crypto.real (Crypto.real_cryptoOK hp) call s h

/-- an instance: a conversation that allows both versions and has one long-term key receives a query message
    (which makes it generate a DH key pair from the tape and send a DH-Commit), then garbage, then is asked to send
    and to start SMP -/
example (hp : Nat.Prime dhP) :
    ∃ c', runApi Crypto.real (freshConv none (allowV2 ||| allowV3) [⟨7, 3, 2, 4⟩] 100 true [] 0x101)
        [⟨.receive (strBytes "?OTRv23?"), { rand := [some (List.replicate 40 1), some (List.replicate 16 2), none] }⟩,
         ⟨.receive (strBytes "?OTR:AAMD"), {}⟩,
         ⟨.send (strBytes "hello"), { now := 5 }⟩,
         ⟨.smpStart [] (strBytes "secret"), {}⟩] = .ok c' ∧ Inv Crypto.real c' :=
  api_sequence_no_panic_real hp _ _ _ _ _ _ _ _

/-! ## the output-length hypotheses of Proofs/Spec.lean (property C10), discharged -/

/-- `calculateAKEKeys` = the spec's ssid, (c, m1, m2), (c', m1', m2'): `calculateAKEKeys_spec` without its
    hypothesis `(h2 1 s).length = 32` -/
theorem calculateAKEKeys_spec_real (s : Nat) :
    calculateAKEKeys Crypto.real s =
      ((Spec.akeKeys Crypto.real s).ssid, AkeKeys.revealOfSpec (Spec.akeKeys Crypto.real s),
        AkeKeys.sigOfSpec (Spec.akeKeys Crypto.real s)) :=
  calculateAKEKeys_spec Crypto.real s (Crypto.real_hash2_length _)

/-- `revealSig_serialize_spec` without its hypothesis on the MAC length -/
theorem revealSig_serialize_spec_real (r enc m2 : Bytes) :
    RevealSig.serialize ⟨r, appendData [] enc, Crypto.real.mac2 m2 (appendData [] enc)⟩ =
      .ok (Spec.revealSigBody Crypto.real r enc m2) :=
  revealSig_serialize_spec Crypto.real r enc m2 (Crypto.real_mac2_len _ _)

/-- `sig_serialize_spec` without its hypothesis on the MAC length -/
theorem sig_serialize_spec_real (enc m2 : Bytes) :
    Sig.serialize ⟨appendData [] enc, Crypto.real.mac2 m2 (appendData [] enc)⟩ =
      .ok (Spec.signatureBody Crypto.real enc m2) :=
  sig_serialize_spec Crypto.real enc m2 (Crypto.real_mac2_len _ _)

end Otr
