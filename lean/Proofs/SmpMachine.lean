/-
  Proofs.SmpMachine — the SMP STATE MACHINE of the conversation (property C12, recovery), over ALL states:
  "every failure path returns to a state from which a fresh SMP run with equal secrets still succeeds" and "no user
  call made in an SMP state that does not expect it reports success or crashes".
  Proofs.Smp has the algebra (`smp_honest_run`, `c11_equal_success`: a run that starts from fresh first-message
  state succeeds) and the success-event guard; Proofs.RecvSmp lifts the guard to `Receive`.  This file adds the
  transitions.  Every theorem but `smp_fresh_run_checks_pass` (which needs `K.ArithOK`) holds for every crypto record `K`: pure
  decision logic.

  0  randomness       : `randRead`/`randMPIs` look only at the tape (`relocOut`, `randMPIs_reloc`, `randMPIs_run_conv`)
  1  StartAuthenticate: `startAuthenticateExpect1_run`, `startAuthenticate_run` (EXACT, from every SMP state: nil,
                        EXPECT1–4, waiting), `smp_never_stuck`, `startAuthenticate_state_independent` (same SMP1 TLV,
                        same secret, same first-message state as from the initial component; the final states differ
                        only in the fields `question`, `s2`, `s3` which the call leaves alone), `smpStartPrefix` (the
                        abort TLV goes first iff a run was under way).  Hypotheses: `SendReady K s.conv` (encrypted,
                        version and instance tag set, DH key present, session keys derivable — Proofs.SendShape), both
                        long-term keys known, the question without NUL and short enough, four successful reads.
  2  aborting         : `abortAuthentication_state` (every state, every outcome: EXPECT1, nothing logged),
                        `abortAuthentication_resets` (exact: one data message whose only TLV is the abort TLV)
  3  the table        : `SmpTag`, `SmpKind`, `SmpCheck`, `SmpReply`, `SmpEvt`, `smpTable`, `smpCheck`;
                        `processSMPTLV_state_table` — for every state, every TLV of type 2–7 with any value bytes, every
                        run that returns: (state tag after, reply, log entries) = `smpTable (tag before) (kind)
                        (smpCheck K s t kind)`; `smpCheck_congr` (the checks read version, s1, s2, s3, the tape only)
  4  exact runs       : `processSMPTLV_abort_run` (incoming abort, every state), `processSMPTLV_smp1_run` (incoming
                        first message in nil/EXPECT1), `receiveSMP1_state_independent`
  5  user calls       : `provideAuthenticationSecret_refused_every_state` (lifts `continueSMP_refused_keeps_state` of
                        Proofs.Fixes4 to the five states ≠ waiting); success only via `receive` is
                        `api_smp_success_only_via_receive` of Proofs.RecvSmp
  5a responder        : `continueSMP_run` (exact: ProvideAuthenticationSecret while waiting reads only the stored first
                        message of the SMP component; EXPECT3 with `smp2Gen` of the fresh exponents)
  5b link to the algebra: `smp1Fresh_as_smp1Gen` (the question does not enter the arithmetic),
                        `smp_fresh_run_checks_pass` (under `K.ArithOK`, with the side conditions of `c11_equal_success`:
                        after any history all four checks of a fresh run with equal secrets say `passed`)
  6  witnesses        : `exSmpSession m` (an encrypted session with an ARBITRARY SMP component `m`) satisfies the
                        hypotheses of §1, §2 for every `K`

  MODEL OBSERVATIONS (exact rules copied from the model, which mirrors /repo/smp_state_machine.go, data_message.go):
    * an UNPARSABLE SMP TLV does not reset the state machine: `processSMPTLV` returns the error "corrupt data
      message", sends no abort TLV and leaves the state where it was (only nil → EXPECT1); the rule "unparsable →
      EXPECT1 + abort" is NOT what the code does.  (The error makes `processTLVs` drop the replies of the whole
      data message.)
    * third message accepted, secrets equal, but the randomness for the fourth message cannot be read: the log gets
      `smp:6:100` (success) AND `smp:2:0` (cheated), the peer gets an abort TLV (row msg3/noRandom of the table).
    * `StartAuthenticate` overwrites `secret`, `s1`, `state` only; `question`, `s2`, `s3` of an earlier run stay in
      memory until the next wipe (they are never read by the initiator's side).
-/
import Proofs.RecvSmp
import Proofs.Fixes4
set_option linter.unusedSimpArgs false
set_option linter.unusedVariables false
namespace Otr

/-! ## 0. randomness reads do not look at the conversation -/

/-- an outcome with conversation and log replaced -/
def relocOut {α} (c : Conv) (e : List String) : Out α → Out α
  | .ok (r, s) => .ok (r, { s with conv := c, events := e })
  | .panic p => .panic p

theorem randReadAux_reloc (fuel n : Nat) (acc : Bytes) (s : MState) (c : Conv) (e : List String) :
    runM (randReadAux fuel n acc) { s with conv := c, events := e } =
      relocOut c e (runM (randReadAux fuel n acc) s) := by
  induction fuel generalizing acc s with
  | zero => simp [randReadAux, relocOut]
  | succ fuel ih =>
    unfold randReadAux
    by_cases hl : acc.length = n
    · simp [hl, relocOut]
    · simp only [hl, ↓reduceIte, runM_bind, runM_get, bindM_ok]
      cases hr : s.env.rand with
      | nil => simp [hr, relocOut]
      | cons x rest =>
        cases x with
        | none => simp [hr, relocOut]
        | some b =>
          simp only [hr, runM_bind, runM_set, bindM_ok]
          by_cases h1 : acc.length + b.length > n
          · simp [h1, relocOut]
          · by_cases h2 : b.isEmpty
            · simp [h1, h2, relocOut]
            · simp only [h1, h2, ↓reduceIte, Bool.false_eq_true]
              exact ih (acc ++ b) { s with env := { s.env with rand := rest } }

theorem randRead_reloc (n : Nat) (s : MState) (c : Conv) (e : List String) :
    runM (randRead n) { s with conv := c, events := e } = relocOut c e (runM (randRead n) s) := by
  unfold randRead
  split
  · rfl
  · exact randReadAux_reloc _ _ _ _ _ _

theorem randMPIs_reloc (k len : Nat) (s : MState) (c : Conv) (e : List String) :
    runM (randMPIs k len) { s with conv := c, events := e } = relocOut c e (runM (randMPIs k len) s) := by
  induction k generalizing s with
  | zero => rfl
  | succ k ih =>
    unfold randMPIs
    simp only [runM_bind, randRead_reloc]
    obtain ⟨r, env1, mm1, h1, -, -⟩ := randRead_run len s
    rw [h1]
    simp only [relocOut, bindM_ok]
    have := ih { s with env := env1, mismatch := mm1 }
    simp only at this
    rw [this]
    obtain ⟨v, env2, mm2, h2, -, -⟩ := randMPIs_run k len { s with env := env1, mismatch := mm1 }
    rw [h2]
    simp only [relocOut, bindM_ok, runM_pure]

/-- a successful run of `randMPIs` from `s` is the same run from any state with the same tape -/
theorem randMPIs_run_conv (k len : Nat) (s s1 : MState) (vs : List (Option Nat)) (c : Conv)
    (h : runM (randMPIs k len) s = .ok (.ok vs, s1)) :
    runM (randMPIs k len) { s with conv := c } = .ok (.ok vs, { s1 with conv := c }) ∧ s1.conv = s.conv ∧
      s1.events = s.events := by
  obtain ⟨v, env2, mm2, h2, -, -⟩ := randMPIs_run k len s
  rw [h2] at h
  simp only [Res.ok.injEq, Prod.mk.injEq, Except.ok.injEq] at h
  obtain ⟨hv, hs⟩ := h
  subst hv hs
  refine ⟨?_, rfl, rfl⟩
  have := randMPIs_reloc k len s c s.events
  rw [h2] at this
  exact this

/-! ## 1. `StartAuthenticate` from every SMP state -/

/-- generateSMPSecret as a function of the conversation (long-term keys `tk`, `ok`, the session id) -/
def smpSecretOf (K : Crypto) (c : Conv) (tk ok : DsaPub) (initiator : Bool) (secret : Bytes) : Nat :=
  bytesToNat (K.hash2 ([1] ++ (if initiator then ok.fingerprint K else tk.fingerprint K) ++
    (if initiator then tk.fingerprint K else ok.fingerprint K) ++ c.ssid ++ secret))

theorem smpSecretFor_run_keys (K : Crypto) (ini : Bool) (secret : Bytes) (s : MState) (tk ok : DsaPub)
    (htk : s.conv.theirKey = some tk) (hok : s.conv.ourCurrentKey = some ok) :
    runM (smpSecretFor K ini secret) s = .ok (.ok (smpSecretOf K s.conv tk ok ini secret), s) := by
  unfold smpSecretFor smpSecretOf
  simp only [runM_bind, runM_getc, bindM_ok, htk, hok, runM_pure]
  cases ini <;> rfl

/-- the first-message state a fresh run builds from the four exponents drawn and the question -/
def smp1Fresh (K : Crypto) (q : Bytes) (a2 a3 r2 r3 : Nat) : Smp1State :=
  { smp1Gen K a2 a3 r2 r3 with
    msg := if q.isEmpty then (smp1Gen K a2 a3 r2 r3).msg
           else { (smp1Gen K a2 a3 r2 r3).msg with hasQuestion := true, question := q } }

/-- the conversation once a run has been started: secret, first-message state, EXPECT2; the fields `question`,
    `s2`, `s3` of an earlier run are left as they were (they are never read by the initiator's side of the run) -/
def Conv.smpStarted (c : Conv) (sec : Nat) (s1 : Smp1State) : Conv :=
  { c with smp := { c.smp with secret := some sec, s1 := some s1, state := some .expect2 } }

/-- exact: `startAuthenticateExpect1` with four successful reads.  Nothing in it looks at the SMP component. -/
theorem startAuthenticateExpect1_run (K : Crypto) (q secret : Bytes) (s s1 : MState) (tk ok : DsaPub) (v : Version)
    (a2 a3 r2 r3 : Nat)
    (hm : s.conv.msgState = .encrypted) (htk : s.conv.theirKey = some tk) (hok : s.conv.ourCurrentKey = some ok)
    (hv : s.conv.version = some v)
    (hr : runM (randMPIs 4 v.parameterLength) s = .ok (.ok [some a2, some a3, some r2, some r3], s1)) :
    runM (startAuthenticateExpect1 K q secret) s =
      .ok (.ok [(smp1Fresh K q a2 a3 r2 r3).msg.tlv],
        { s1 with conv := s.conv.smpStarted (smpSecretOf K s.conv tk ok true secret) (smp1Fresh K q a2 a3 r2 r3) }) := by
  have hc : s1.conv = s.conv := (randMPIs_run_conv 4 _ s s1 _ s.conv hr).2.1
  unfold startAuthenticateExpect1 paramLen
  simp only [runM_bind, runM_getc, bindM_ok, runM_ite, runM_throw, runM_pure, hm, ne_eq, not_true_eq_false,
    ↓reduceIte, smpSecretFor_run_keys K true secret s tk ok htk hok, hv, hr, allSome, Option.map_some, runM_modc,
    hc]
  simp only [Conv.smpStarted, smp1Fresh, hm, hv]

/-- `SendReady` does not mention the SMP component -/
theorem SendReady.of_smp {K : Crypto} {c : Conv} (h : SendReady K c) (m : Smp) : SendReady K { c with smp := m } :=
  ⟨h.enc, h.wf, h.tag, h.keys⟩

/-- what `StartAuthenticate` sends before the first message: an abort TLV iff a run was under way (any state but
    nil / EXPECT1) -/
def smpStartPrefix : Option SmpState → List Tlv
  | none => []
  | some .expect1 => []
  | some _ => [smpAbortTlv]

/-- the data message (fragments as configured) that carries the TLVs `tlvs` and no text, flag IGNORE_UNREADABLE -/
def smpWire (K : Crypto) (c : Conv) (tlvs : List Tlv) : List Bytes :=
  dataWireWith K messageFlagIgnoreUnreadable c (cipherOf K c.keys (plainBytes [] tlvs))

theorem smpWire_smp (K : Crypto) (c : Conv) (m : Smp) (tlvs : List Tlv) :
    smpWire K { c with smp := m } tlvs = smpWire K c tlvs := rfl

/-- sending TLVs from a ready state: exact -/
theorem sendTlvs_ready (K : Crypto) (tlvs : List Tlv) (s : MState) (h : SendReady K s.conv) :
    runM (do let (msgs, _) ← createSerializedDataMessage K [] messageFlagIgnoreUnreadable tlvs; return msgs) s =
      .ok (.ok (smpWire K s.conv tlvs), { s with conv := s.conv.afterDataSent K [] s.env.now }) := by
  simp only [runM_bind, createSerializedDataMessage_ready K [] _ tlvs s h, bindM_ok, runM_pure]
  rfl

/-- **exact: `StartAuthenticate` from EVERY SMP state** (nil, EXPECT1–4, waiting for the secret), in a session that
    can send, with an acceptable question and four successful reads `a2 a3 r2 r3`: the call succeeds; it sends ONE
    data message carrying (an abort TLV if a run was under way, then) the first message built from the fresh
    exponents; the SMP state is EXPECT2 with the fresh first-message state and the secret derived from `secret`;
    nothing is logged. -/
theorem startAuthenticate_run (K : Crypto) (q secret : Bytes) (s s1 : MState) (tk ok : DsaPub) (v : Version)
    (a2 a3 r2 r3 : Nat)
    (hs : SendReady K s.conv) (htk : s.conv.theirKey = some tk) (hok : s.conv.ourCurrentKey = some ok)
    (hv : s.conv.version = some v)
    (hq1 : q.contains 0 = false) (hq2 : q.length ≤ maxSMPQuestionLength)
    (hr : runM (randMPIs 4 v.parameterLength) s = .ok (.ok [some a2, some a3, some r2, some r3], s1)) :
    runM (startAuthenticate K q secret) s =
      .ok (.ok (smpWire K s.conv (smpStartPrefix s.conv.smp.state ++ [(smp1Fresh K q a2 a3 r2 r3).msg.tlv])),
        { s1 with conv := (s.conv.smpStarted (smpSecretOf K s.conv tk ok true secret)
            (smp1Fresh K q a2 a3 r2 r3)).afterDataSent K [] s1.env.now }) := by
  have hq2' : ¬ q.length > maxSMPQuestionLength := by omega
  have key : ∀ (c : Conv), ensureSmpConv s.conv = c →
      runM (startAuthenticateExpect1 K q secret) { s with conv := c } =
        .ok (.ok [(smp1Fresh K q a2 a3 r2 r3).msg.tlv],
          { s1 with conv := s.conv.smpStarted (smpSecretOf K s.conv tk ok true secret) (smp1Fresh K q a2 a3 r2 r3) }) := by
    intro c hc
    subst hc
    have h1 := (randMPIs_run_conv 4 _ s s1 _ (ensureSmpConv s.conv) hr).1
    have h2 := startAuthenticateExpect1_run K q secret { s with conv := ensureSmpConv s.conv } _ tk ok v a2 a3 r2 r3
      hs.enc htk hok hv h1
    exact h2
  have tail : ∀ tlvs, runM (createSerializedDataMessage K [] messageFlagIgnoreUnreadable tlvs)
      { s1 with conv := s.conv.smpStarted (smpSecretOf K s.conv tk ok true secret) (smp1Fresh K q a2 a3 r2 r3) } =
      .ok (.ok (smpWire K s.conv tlvs, (sendKeysOf K s.conv.keys).extraKey),
        { s1 with conv := (s.conv.smpStarted (smpSecretOf K s.conv tk ok true secret)
            (smp1Fresh K q a2 a3 r2 r3)).afterDataSent K [] s1.env.now }) := by
    intro tlvs
    exact createSerializedDataMessage_ready K [] _ tlvs _ (hs.of_smp _)
  unfold startAuthenticate
  simp only [runM_bind, runM_getc, bindM_ok, runM_ite, runM_throw, runM_pure, hq1, Bool.false_eq_true, ↓reduceIte,
    hq2', runM_modc]
  cases hst : s.conv.smp.state with
  | none =>
    have hk := key _ (ensureSmpConv_of_none _ hst)
    simp only [Option.isNone_none, ↓reduceIte, bindM_ok, hk, smpStartPrefix, List.nil_append, tail]
  | some st =>
    have hk := key _ (ensureSmpConv_of_some _ st hst)
    simp only [Option.isNone_some, Bool.false_eq_true, ↓reduceIte, bindM_ok, hst]
    cases st <;> simp only [runM_bind, hk, bindM_ok, runM_pure, smpStartPrefix, List.nil_append,
      List.cons_append, tail]

/-- **C12, recovery: the SMP state machine is never stuck.**  From EVERY SMP state — nil, EXPECT1, EXPECT2, EXPECT3,
    EXPECT4, waiting for the secret — `StartAuthenticate` (session able to send, question without NUL and short
    enough, four successful reads) succeeds, logs nothing, and ends in EXPECT2 with the first-message state built
    from the fresh exponents and the secret derived from `secret`; what goes out is one data message with (an abort
    TLV iff a run was under way, then) the SMP1 / SMP1Q TLV of that fresh state. -/
theorem smp_never_stuck (K : Crypto) (q secret : Bytes) (s s1 : MState) (tk ok : DsaPub) (v : Version)
    (a2 a3 r2 r3 : Nat)
    (hs : SendReady K s.conv) (htk : s.conv.theirKey = some tk) (hok : s.conv.ourCurrentKey = some ok)
    (hv : s.conv.version = some v)
    (hq1 : q.contains 0 = false) (hq2 : q.length ≤ maxSMPQuestionLength)
    (hr : runM (randMPIs 4 v.parameterLength) s = .ok (.ok [some a2, some a3, some r2, some r3], s1)) :
    ∃ t, runM (startAuthenticate K q secret) s =
        .ok (.ok (smpWire K s.conv (smpStartPrefix s.conv.smp.state ++ [(smp1Fresh K q a2 a3 r2 r3).msg.tlv])), t) ∧
      t.conv.smp.state = some .expect2 ∧
      t.conv.smp.s1 = some (smp1Fresh K q a2 a3 r2 r3) ∧
      t.conv.smp.secret = some (smpSecretOf K s.conv tk ok true secret) ∧
      t.events = s.events ∧ t.conv.msgState = .encrypted :=
  ⟨_, startAuthenticate_run K q secret s s1 tk ok v a2 a3 r2 r3 hs htk hok hv hq1 hq2 hr, rfl, rfl, rfl,
    (randMPIs_run_conv 4 _ s s1 _ s.conv hr).2.2, hs.enc⟩

/-- the abort TLV is sent first exactly when a run was under way -/
theorem smpStartPrefix_eq (st : Option SmpState) :
    smpStartPrefix st = if st = none ∨ st = some .expect1 then [] else [smpAbortTlv] := by
  cases st with
  | none => rfl
  | some st => cases st <;> simp [smpStartPrefix]

/-- **C12, recovery: a fresh run does not depend on the history of the SMP component.**  Take any state `s` and
    replace its SMP component by an arbitrary other one `m'` (in particular by the initial one `{}`): with the same
    randomness `StartAuthenticate` succeeds from both; the SMP1 TLV is the same; both end in EXPECT2 with the same
    secret and the same first-message state; the two final states are identical except for the fields `question`,
    `s2`, `s3` of the SMP component, which `StartAuthenticate` leaves as they were (and which the initiator's side
    of a run never reads: `processSMPTLV_initiator_reads`).  The data messages differ only by the abort TLV that
    precedes the SMP1 TLV when a run was under way. -/
theorem startAuthenticate_state_independent (K : Crypto) (q secret : Bytes) (s s1 : MState) (tk ok : DsaPub)
    (v : Version) (a2 a3 r2 r3 : Nat) (m' : Smp)
    (hs : SendReady K s.conv) (htk : s.conv.theirKey = some tk) (hok : s.conv.ourCurrentKey = some ok)
    (hv : s.conv.version = some v)
    (hq1 : q.contains 0 = false) (hq2 : q.length ≤ maxSMPQuestionLength)
    (hr : runM (randMPIs 4 v.parameterLength) s = .ok (.ok [some a2, some a3, some r2, some r3], s1)) :
    ∃ t t',
      runM (startAuthenticate K q secret) s =
        .ok (.ok (smpWire K s.conv (smpStartPrefix s.conv.smp.state ++ [(smp1Fresh K q a2 a3 r2 r3).msg.tlv])), t) ∧
      runM (startAuthenticate K q secret) { s with conv := { s.conv with smp := m' } } =
        .ok (.ok (smpWire K s.conv (smpStartPrefix m'.state ++ [(smp1Fresh K q a2 a3 r2 r3).msg.tlv])), t') ∧
      t' = { t with conv := { t.conv with smp :=
              { t.conv.smp with question := m'.question, s2 := m'.s2, s3 := m'.s3 } } } ∧
      t.conv.smp = { s.conv.smp with secret := some (smpSecretOf K s.conv tk ok true secret),
                                      s1 := some (smp1Fresh K q a2 a3 r2 r3), state := some .expect2 } := by
  have h1 := startAuthenticate_run K q secret s s1 tk ok v a2 a3 r2 r3 hs htk hok hv hq1 hq2 hr
  have hr' := (randMPIs_run_conv 4 _ s s1 _ { s.conv with smp := m' } hr).1
  have h2 := startAuthenticate_run K q secret { s with conv := { s.conv with smp := m' } } _ tk ok v a2 a3 r2 r3
    (hs.of_smp m') htk hok hv hq1 hq2 hr'
  exact ⟨_, _, h1, h2, rfl, rfl⟩

/-! ## 2. aborting: `AbortAuthentication` and an incoming abort TLV -/

theorem SendFrame.smp_events {s s' : MState} (h : SendFrame s s') :
    s'.conv.smp = s.conv.smp ∧ s'.events = s.events := by
  simp only [SendFrame, Keeps, sendKept, Prod.mk.injEq] at h
  exact ⟨h.2.2.2.2.2.2.2.2.2.2.2.2.2.1, h.1⟩

/-- the log entry of `smpEvent n pct` -/
def smpEv (n pct : Nat) : String := s!"smp:{n}:{pct}"

theorem smpEvent_eq (n pct : Nat) : smpEvent n pct = ev (smpEv n pct) := rfl

/-- the conversation with the SMP state tag set -/
def Conv.withSmpState (c : Conv) (st : SmpState) : Conv := { c with smp := { c.smp with state := some st } }

/-- **`AbortAuthentication`, every state, every outcome** (also when the data message cannot be built): whenever the
    call returns, the SMP state is EXPECT1, the rest of the SMP component is as before and nothing is logged -/
theorem abortAuthentication_state (K : Crypto) (s s' : MState) (r : Except Err (List Bytes))
    (h : runM (abortAuthentication K) s = .ok (r, s')) :
    s'.conv.smp = { s.conv.smp with state := some .expect1 } ∧ s'.events = s.events := by
  unfold abortAuthentication at h
  simp only [runM_bind, runM_modc, bindM_ok] at h
  cases hx : runM (createSerializedDataMessage K [] messageFlagIgnoreUnreadable [smpAbortTlv])
      { s with conv := { s.conv with smp := { s.conv.smp with state := some .expect1 } } } with
  | panic p => rw [hx] at h; cases h
  | ok v =>
    obtain ⟨r1, s1⟩ := v
    have hf := (createSerializedDataMessage_sendFrame K [] messageFlagIgnoreUnreadable [smpAbortTlv] _ _ _ hx).smp_events
    rw [hx] at h
    cases r1 with
    | error e =>
      simp only [bindM_error, Res.ok.injEq, Prod.mk.injEq] at h
      rw [← h.2]; exact hf
    | ok a =>
      simp only [bindM_ok, runM_pure, Res.ok.injEq, Prod.mk.injEq] at h
      rw [← h.2]; exact hf

/-- **`AbortAuthentication` resets, exact**: in a session that can send, from every SMP state the call succeeds,
    sends exactly one data message whose only TLV is the abort TLV, and the SMP state is EXPECT1 -/
theorem abortAuthentication_resets (K : Crypto) (s : MState) (hs : SendReady K s.conv) :
    runM (abortAuthentication K) s =
      .ok (.ok (smpWire K s.conv [smpAbortTlv]),
        { s with conv := (s.conv.withSmpState .expect1).afterDataSent K [] s.env.now }) ∧
    ((s.conv.withSmpState .expect1).afterDataSent K [] s.env.now).smp.state = some .expect1 := by
  refine ⟨?_, rfl⟩
  unfold abortAuthentication
  simp only [runM_bind, runM_modc, bindM_ok]
  have := createSerializedDataMessage_ready K [] messageFlagIgnoreUnreadable [smpAbortTlv]
    { s with conv := s.conv.withSmpState .expect1 } (hs.of_smp _)
  simp only [Conv.withSmpState] at this
  simp only [this, bindM_ok, runM_pure]
  rfl

/-! ## 3. the transition table of `processSMPTLV` -/

/-- the SMP state without its payload -/
inductive SmpTag where
  | expect1 | expect2 | expect3 | expect4 | waiting
  deriving DecidableEq, Repr

def SmpState.tag : SmpState → SmpTag
  | .expect1 => .expect1 | .expect2 => .expect2 | .expect3 => .expect3 | .expect4 => .expect4
  | .waitingForSecret _ => .waiting

/-- the tag of the stored state; nil counts as EXPECT1 (`ensureSMP` runs first in every SMP entry point) -/
def smpTagOf (o : Option SmpState) : SmpTag := (o.getD .expect1).tag

/-- the kinds of SMP TLV: types 2 and 7 (first message without / with question), 3, 4, 5, 6 (abort) -/
inductive SmpKind where
  | msg1 | msg2 | msg3 | msg4 | abort
  deriving DecidableEq, Repr

def smpKindOf (typ : Nat) : Option SmpKind :=
  if typ = tlvTypeSMPAbort then some .abort
  else if typ = tlvTypeSMP1 ∨ typ = tlvTypeSMP1WithQuestion then some .msg1
  else if typ = tlvTypeSMP2 then some .msg2
  else if typ = tlvTypeSMP3 then some .msg3
  else if typ = tlvTypeSMP4 then some .msg4
  else none

/-- the state in which a message of this kind is expected -/
def SmpKind.expected : SmpKind → SmpTag
  | .msg1 => .expect1 | .msg2 => .expect2 | .msg3 => .expect3 | .msg4 => .expect4 | .abort => .expect1

/-- what the handler finds out about the message -/
inductive SmpCheck where
  /-- the payload does not parse (wrong number of MPIs, truncated, no NUL after the question) -/
  | unparsable
  /-- group membership, exponent range or a zero-knowledge proof fails -/
  | rejected
  /-- everything verifies, but the randomness for the answer cannot be read -/
  | noRandom
  /-- everything verifies (third / fourth message) and the secrets differ -/
  | mismatch
  /-- everything verifies (third / fourth message: and the secrets are equal) -/
  | passed
  deriving DecidableEq, Repr

/-- what is returned to the TLV loop: no reply, the abort TLV, the next message of the run, or the error
    "corrupt data message" (which makes `processTLVs` drop all replies of the data message) -/
inductive SmpReply where
  | nothing | abort | next | error
  deriving DecidableEq, Repr

/-- log entries: `smp:n:pct`, or the request for the secret (with the question if there is one) -/
inductive SmpEvt where
  | plain (n pct : Nat) | ask
  deriving DecidableEq, Repr

/-- **the table**: (state before, kind of TLV, result of the checks) ↦ (state after, reply, log entries) -/
def smpTable (tag : SmpTag) (k : SmpKind) (chk : SmpCheck) : SmpTag × SmpReply × List SmpEvt :=
  match k, chk, decide (tag = k.expected) with
  -- an incoming abort: EXPECT1, no reply, in every state
  | .abort, _, _ => (.expect1, .nothing, [.plain smpAbort 0])
  -- an unparsable payload: error, state untouched, in every state
  | _, .unparsable, _ => (tag, .error, [])
  -- a message in a state that does not expect it: reset, abort TLV
  | _, _, false => (.expect1, .abort, [.plain smpError 0])
  -- expected, but a check fails: reset, abort TLV
  | _, .rejected, true => (.expect1, .abort, [.plain smpCheated 0])
  -- first message accepted: wait for the user's secret
  | .msg1, _, true => (.waiting, .nothing, [.ask])
  -- second message accepted
  | .msg2, .noRandom, true => (.expect1, .abort, [.plain smpCheated 0])
  | .msg2, _, true => (.expect4, .next, [.plain smpInProgress 60])
  -- third message accepted: the run ends here for the responder
  | .msg3, .mismatch, true => (.expect1, .abort, [.plain smpFailure 100])
  | .msg3, .noRandom, true => (.expect1, .abort, [.plain smpSuccess 100, .plain smpCheated 0])
  | .msg3, _, true => (.expect1, .next, [.plain smpSuccess 100])
  -- fourth message accepted: the run ends here for the initiator
  | .msg4, .mismatch, true => (.expect1, .abort, [.plain smpFailure 100])
  | .msg4, _, true => (.expect1, .nothing, [.plain smpSuccess 100])

/-- the numbers `randMPIs k len` yields from the tape of `s` (none: a read fails) -/
def randNats (k len : Nat) (s : MState) : Option (List Nat) :=
  match runM (randMPIs k len) s with
  | .ok (.ok vs, _) => allSome vs
  | _ => none

/-- the bytes `randRead len` yields from the tape of `s` -/
def randBytes (len : Nat) (s : MState) : Option Bytes :=
  match runM (randRead len) s with
  | .ok (.ok r, _) => r
  | _ => none

theorem randNats_conv (k len : Nat) (s : MState) (c : Conv) (e : List String) :
    randNats k len { s with conv := c, events := e } = randNats k len s := by
  unfold randNats
  rw [randMPIs_reloc]
  obtain ⟨v, env2, mm2, h2, -, -⟩ := randMPIs_run k len s
  rw [h2]; rfl

theorem randBytes_conv (len : Nat) (s : MState) (c : Conv) (e : List String) :
    randBytes len { s with conv := c, events := e } = randBytes len s := by
  unfold randBytes
  rw [randRead_reloc]
  obtain ⟨v, env2, mm2, h2, -, -⟩ := randRead_run len s
  rw [h2]; rfl

/-- the first message a type-2 / type-7 TLV carries -/
def smpMsg1Of (t : Tlv) : Option Smp1Msg :=
  if t.typ = tlvTypeSMP1 then toSmp1 t.value else toSmp1Q t.value

def smpParamLen (c : Conv) : Nat :=
  match c.version with
  | some v => v.parameterLength
  | none => 0

/-- **the checks**, as a function of the TLV, the stored run state, the negotiated version and the tape -/
def smpCheck (K : Crypto) (s : MState) (t : Tlv) (k : SmpKind) : SmpCheck :=
  match k with
  | .abort => .passed
  | .msg1 =>
    match smpMsg1Of t with
    | none => .unparsable
    | some m => if smp1Verify K (smpGE s.conv.version) m then .passed else .rejected
  | .msg2 =>
    match toSmp2 t.value with
    | none => .unparsable
    | some m =>
      match s.conv.smp.s1 with
      | none => .rejected
      | some s1 =>
        if smp2Verify K (smpGE s.conv.version) s1 m then
          (match randNats 4 (smpParamLen s.conv) s with
           | some [_, _, _, _] => .passed
           | _ => .noRandom)
        else .rejected
  | .msg3 =>
    match toSmp3 t.value with
    | none => .unparsable
    | some m =>
      match s.conv.smp.s2 with
      | none => .rejected
      | some s2 =>
        match smp3Verify K (smpGE s.conv.version) s2 m with
        | .ok true =>
          (match smp3Success K s2 m with
           | .ok true => if (randBytes (smpParamLen s.conv) s).isSome then .passed else .noRandom
           | _ => .mismatch)
        | _ => .rejected
  | .msg4 =>
    match toSmp4 t.value with
    | none => .unparsable
    | some m =>
      match s.conv.smp.s1, s.conv.smp.s3 with
      | some s1, some s3 =>
        if smp4Verify K (smpGE s.conv.version) s3 m then
          (if smp4Success K s1 s3 m then .passed else .mismatch)
        else .rejected
      | _, _ => .rejected

/-- the log entry of `smpEventQ` -/
def smpEvQ (n pct : Nat) (q : Bytes) : String := s!"smp:{n}:{pct}:{if q.isEmpty then "-" else toHex q}"
theorem smpEventQ_eq (n pct : Nat) (q : Bytes) : smpEventQ n pct q = ev (smpEvQ n pct q) := rfl

def smpEvtStr (t : Tlv) : SmpEvt → String
  | .plain n pct => smpEv n pct
  | .ask =>
    match smpMsg1Of t with
    | some m => if m.hasQuestion then smpEvQ smpAskForAnswer 25 m.question else smpEv smpAskForSecret 25
    | none => ""

def smpReplyMatches (t : Tlv) : SmpReply → Except Err (Option Tlv) → Prop
  | .nothing, r => r = .ok none
  | .abort, r => r = .ok (some smpAbortTlv)
  | .next, r => ∃ tlv, r = .ok (some tlv) ∧ tlv.typ = t.typ + 1
  | .error, r => r = .error (.other "corrupt data message")

/-- a run ends as the row `row` of the table says -/
def SmpRowPost (s : MState) (t : Tlv) (row : SmpTag × SmpReply × List SmpEvt) :
    Except Err (Option Tlv) → MState → Prop :=
  fun r s' => smpTagOf s'.conv.smp.state = row.1 ∧ smpReplyMatches t row.2.1 r ∧
    s'.events = s.events ++ row.2.2.map (smpEvtStr t)

section Table
open SmpWP

theorem WP_randMPIs_run (k len : Nat) (st : MState) (Q : Except Err (List (Option Nat)) → MState → Prop)
    (h : ∀ vs st1, randNats k len st = allSome vs → st1.events = st.events → st1.conv = st.conv → Q (.ok vs) st1) :
    WP (randMPIs k len) Q st := by
  intro r st' hr
  obtain ⟨v, env2, mm2, h2, -, -⟩ := randMPIs_run k len st
  have hr' : runM (randMPIs k len) st = .ok (r, st') := hr
  rw [h2] at hr'
  simp only [Res.ok.injEq, Prod.mk.injEq] at hr'
  obtain ⟨rfl, rfl⟩ := hr'
  refine h v _ ?_ rfl rfl
  unfold randNats; rw [h2]

theorem WP_randRead_run (len : Nat) (st : MState) (Q : Except Err (Option Bytes) → MState → Prop)
    (h : ∀ v st1, randBytes len st = v → st1.events = st.events → st1.conv = st.conv → Q (.ok v) st1) :
    WP (randRead len) Q st := by
  intro r st' hr
  obtain ⟨v, env2, mm2, h2, -, -⟩ := randRead_run len st
  have hr' : runM (randRead len) st = .ok (r, st') := hr
  rw [h2] at hr'
  simp only [Res.ok.injEq, Prod.mk.injEq] at hr'
  obtain ⟨rfl, rfl⟩ := hr'
  refine h v _ ?_ rfl rfl
  unfold randBytes; rw [h2]

attribute [local irreducible] SmpWP.WP SmpRowPost

local macro "smp_tab_go" : tactic => `(tactic| repeat' (first
    | (simp only [WP_bind, WP_getc, WP_pure, WP_ite, WP_modc, WP_ev, WP_throw, WP_goPanic,
        setSmpState, smpEvent_eq, smpEventQ_eq, smpAbortWith, smpWipe, Option.getD_some,
        optNat, paramLen])
    | intro _
    | apply And.intro
    | (refine WP_randMPIs_run _ _ _ _ ?_
       rintro _ ⟨_, _, _, _⟩ hrand he hc
       simp only at he hc
       subst he hc)
    | (refine WP_randRead_run _ _ _ ?_
       rintro _ ⟨_, _, _, _⟩ hrand he hc
       simp only at he hc
       subst he hc)
    | split))

theorem smpTable_unexpected (tag : SmpTag) (k : SmpKind) (chk : SmpCheck) (hk : k ≠ .abort)
    (hc : chk ≠ .unparsable) (ht : tag ≠ k.expected) :
    smpTable tag k chk = (.expect1, .abort, [.plain smpError 0]) := by
  cases k <;> cases chk <;> cases tag <;> simp_all [smpTable, SmpKind.expected]

theorem smpCheck_msg1_parsed (K : Crypto) (s : MState) (t : Tlv) (h : smpMsg1Of t ≠ none) :
    smpCheck K s t .msg1 ≠ .unparsable := by
  unfold smpCheck
  cases hm : smpMsg1Of t with
  | none => exact absurd hm h
  | some m => simp only; split <;> simp
theorem smpCheck_msg2_parsed (K : Crypto) (s : MState) (t : Tlv) (m : Smp2Msg) (h : toSmp2 t.value = some m) :
    smpCheck K s t .msg2 ≠ .unparsable := by
  unfold smpCheck; simp only [h]; (repeat' split) <;> simp
theorem smpCheck_msg3_parsed (K : Crypto) (s : MState) (t : Tlv) (m : Smp3Msg) (h : toSmp3 t.value = some m) :
    smpCheck K s t .msg3 ≠ .unparsable := by
  unfold smpCheck; simp only [h]; (repeat' split) <;> simp
theorem smpCheck_msg4_parsed (K : Crypto) (s : MState) (t : Tlv) (m : Smp4Msg) (h : toSmp4 t.value = some m) :
    smpCheck K s t .msg4 ≠ .unparsable := by
  unfold smpCheck; simp only [h]; (repeat' split) <;> simp

local macro "smp_tab_close" st:ident : tactic => `(tactic| (
  unfold SmpRowPost
  first
    | (cases $st:ident <;> first
        | (exfalso; simp_all; done)
        | (rw [smpTable_unexpected] <;> first
            | decide
            | exact smpCheck_msg1_parsed _ _ _ (by simp [smpMsg1Of, tlvTypeSMP1, *]) | exact smpCheck_msg2_parsed _ _ _ _ ‹_›
            | exact smpCheck_msg3_parsed _ _ _ _ ‹_› | exact smpCheck_msg4_parsed _ _ _ _ ‹_›
            | (simp [smpTagOf, SmpState.tag, smpReplyMatches, smpEvtStr, SmpKind.expected]; done)))
    | (simp_all [smpCheck, smpTable, smpTagOf, SmpState.tag, SmpKind.expected, smpReplyMatches, smpEvtStr,
        smpParamLen, smpMsg1Of, randBytes_conv, randNats_conv, Smp3Msg.tlv, Smp4Msg.tlv, genSMPTLV, tlvTypeSMP3, tlvTypeSMP4, tlvTypeSMP1,
        tlvTypeSMP1WithQuestion]; done)
    | (cases $st:ident <;> simp_all [smpCheck, smpTable, smpTagOf, SmpState.tag, SmpKind.expected, smpReplyMatches,
        smpEvtStr, smpParamLen, smpMsg1Of, randBytes_conv, randNats_conv, Smp3Msg.tlv, Smp4Msg.tlv, genSMPTLV, tlvTypeSMP3, tlvTypeSMP4,
        tlvTypeSMP1, tlvTypeSMP1WithQuestion]; done)))

local macro "smp_typ" ht:ident : tactic => `(tactic|
  simp (config := { decide := true }) only [$ht:ident, tlvTypeSMPAbort, tlvTypeSMP1, tlvTypeSMP2, tlvTypeSMP3,
    tlvTypeSMP4, tlvTypeSMP1WithQuestion, ↓reduceIte, or_self, or_false, false_or, or_true, true_or])

theorem smpBody_table_abort (K : Crypto) (t : Tlv) (st : SmpState) (s0 : MState) (v : Version)
    (hst : s0.conv.smp.state = some st) (hv : s0.conv.version = some v)
    (ht : t.typ = 6) :
    WP (ConvData.smpBody K t st (smpGE (some v)))
      (SmpRowPost s0 t (smpTable st.tag .abort (smpCheck K s0 t .abort))) s0 := by
  unfold ConvData.smpBody
  smp_typ ht
  smp_tab_go
  all_goals (smp_tab_close st)

theorem smpBody_table_msg1 (K : Crypto) (t : Tlv) (st : SmpState) (s0 : MState) (v : Version)
    (hst : s0.conv.smp.state = some st) (hv : s0.conv.version = some v)
    (ht : t.typ = 2) :
    WP (ConvData.smpBody K t st (smpGE (some v)))
      (SmpRowPost s0 t (smpTable st.tag .msg1 (smpCheck K s0 t .msg1))) s0 := by
  unfold ConvData.smpBody
  smp_typ ht
  smp_tab_go
  all_goals (smp_tab_close st)

theorem smpBody_table_msg1q (K : Crypto) (t : Tlv) (st : SmpState) (s0 : MState) (v : Version)
    (hst : s0.conv.smp.state = some st) (hv : s0.conv.version = some v)
    (ht : t.typ = 7) :
    WP (ConvData.smpBody K t st (smpGE (some v)))
      (SmpRowPost s0 t (smpTable st.tag .msg1 (smpCheck K s0 t .msg1))) s0 := by
  unfold ConvData.smpBody
  smp_typ ht
  smp_tab_go
  all_goals (smp_tab_close st)

theorem smpBody_table_msg2 (K : Crypto) (t : Tlv) (st : SmpState) (s0 : MState) (v : Version)
    (hst : s0.conv.smp.state = some st) (hv : s0.conv.version = some v)
    (ht : t.typ = 3) :
    WP (ConvData.smpBody K t st (smpGE (some v)))
      (SmpRowPost s0 t (smpTable st.tag .msg2 (smpCheck K s0 t .msg2))) s0 := by
  unfold ConvData.smpBody
  smp_typ ht
  smp_tab_go
  all_goals (smp_tab_close st)

theorem smpBody_table_msg3 (K : Crypto) (t : Tlv) (st : SmpState) (s0 : MState) (v : Version)
    (hst : s0.conv.smp.state = some st) (hv : s0.conv.version = some v)
    (ht : t.typ = 4) :
    WP (ConvData.smpBody K t st (smpGE (some v)))
      (SmpRowPost s0 t (smpTable st.tag .msg3 (smpCheck K s0 t .msg3))) s0 := by
  unfold ConvData.smpBody
  smp_typ ht
  smp_tab_go
  all_goals (smp_tab_close st)

theorem smpBody_table_msg4 (K : Crypto) (t : Tlv) (st : SmpState) (s0 : MState) (v : Version)
    (hst : s0.conv.smp.state = some st) (hv : s0.conv.version = some v)
    (ht : t.typ = 5) :
    WP (ConvData.smpBody K t st (smpGE (some v)))
      (SmpRowPost s0 t (smpTable st.tag .msg4 (smpCheck K s0 t .msg4))) s0 := by
  unfold ConvData.smpBody
  smp_typ ht
  smp_tab_go
  all_goals (smp_tab_close st)


/-- the dispatch of `processSMPTLV` follows the table, for every kind of SMP TLV and every stored state -/
theorem smpBody_table (K : Crypto) (t : Tlv) (st : SmpState) (s0 : MState) (v : Version) (k : SmpKind)
    (hst : s0.conv.smp.state = some st) (hv : s0.conv.version = some v) (hk : smpKindOf t.typ = some k) :
    WP (ConvData.smpBody K t st (smpGE (some v)))
      (SmpRowPost s0 t (smpTable st.tag k (smpCheck K s0 t k))) s0 := by
  unfold smpKindOf at hk
  split at hk
  · cases hk; exact smpBody_table_abort K t st s0 v hst hv ‹_›
  · split at hk
    · cases hk
      rename_i h
      rcases h with h | h
      · exact smpBody_table_msg1 K t st s0 v hst hv h
      · exact smpBody_table_msg1q K t st s0 v hst hv h
    · split at hk
      · cases hk; exact smpBody_table_msg2 K t st s0 v hst hv ‹_›
      · split at hk
        · cases hk; exact smpBody_table_msg3 K t st s0 v hst hv ‹_›
        · split at hk
          · cases hk; exact smpBody_table_msg4 K t st s0 v hst hv ‹_›
          · cases hk

/-- `processSMPTLV` = `ensureSMP`, then the dispatch from the stored state under the version's group test; with no
    version negotiated it panics (nil `c.version`) -/
theorem processSMPTLV_head (K : Crypto) (t : Tlv) (s : MState) :
    runM (processSMPTLV K t) s =
      match s.conv.version with
      | some v => runM (ConvData.smpBody K t (s.conv.smp.state.getD .expect1) (smpGE (some v)))
                    { s with conv := ensureSmpConv s.conv }
      | none => .panic "isGroupElement: nil version" := by
  rw [ConvData.processSMPTLV_eq]
  simp only [runM_bind, runM_getc, bindM_ok, setSmpState, smpIsGroupElement]
  cases hst : s.conv.smp.state with
  | none =>
    simp only [Option.isNone_none, ↓reduceIte, runM_modc, bindM_ok, runM_bind, runM_getc, Option.getD_some,
      Option.getD_none, ensureSmpConv_of_none _ hst]
    cases hv : s.conv.version with
    | none => rfl
    | some v => cases v <;> rfl
  | some st =>
    simp only [Option.isNone_some, Bool.false_eq_true, ↓reduceIte, runM_pure, bindM_ok, runM_bind, runM_getc,
      hst, Option.getD_some]
    have he : ensureSmpConv s.conv = s.conv := ensureSmpConv_of_some _ st hst
    rw [he]
    cases hv : s.conv.version with
    | none => rfl
    | some v => cases v <;> rfl

/-- the checks read the version, the stored run states `s1`, `s2`, `s3` and the tape — not the state tag, the
    secret, the question, nor anything else of the conversation -/
theorem smpCheck_congr (K : Crypto) (s : MState) (c' : Conv) (e : List String) (t : Tlv) (k : SmpKind)
    (hv : c'.version = s.conv.version) (h1 : c'.smp.s1 = s.conv.smp.s1) (h2 : c'.smp.s2 = s.conv.smp.s2)
    (h3 : c'.smp.s3 = s.conv.smp.s3) :
    smpCheck K { s with conv := c', events := e } t k = smpCheck K s t k := by
  have hl : smpParamLen c' = smpParamLen s.conv := by unfold smpParamLen; rw [hv]
  unfold smpCheck
  simp only [randNats_conv, randBytes_conv, hv, h1, h2, h3, hl]

theorem smpCheck_ensure (K : Crypto) (s : MState) (t : Tlv) (k : SmpKind) :
    smpCheck K { s with conv := ensureSmpConv s.conv } t k = smpCheck K s t k :=
  smpCheck_congr K s (ensureSmpConv s.conv) s.events t k rfl rfl rfl rfl

/-- **C12: the transition table of `processSMPTLV`, every state, every SMP TLV (types 2–7, any value bytes), every
    `K`.**  Whenever the call returns (i.e. does not end in a Go panic), the SMP state tag afterwards, the reply and
    the log entries appended are those of the row `smpTable (state before) (kind of TLV) (result of the checks)`:
      * abort TLV (type 6): EXPECT1, no reply, `smp:1:0` — in every state;
      * unparsable payload: error "corrupt data message", state as before (only nil → EXPECT1), nothing logged;
      * a message in a state that does not expect it: EXPECT1, abort TLV, `smp:0:0` (error);
      * expected but a check fails: EXPECT1, abort TLV, `smp:2:0` (cheated);
      * accepted: 1 → waiting for the secret; 2 → EXPECT4 + third message; 3 → EXPECT1 + fourth message (success) or
        abort (failure); 4 → EXPECT1, no reply (success) or abort (failure).
    No hypothesis on the state: without a negotiated version the call panics, so the premise is false. -/
theorem processSMPTLV_state_table (K : Crypto) (t : Tlv) (s s' : MState) (r : Except Err (Option Tlv)) (k : SmpKind)
    (hk : smpKindOf t.typ = some k) (h : runM (processSMPTLV K t) s = .ok (r, s')) :
    smpTagOf s'.conv.smp.state = (smpTable (smpTagOf s.conv.smp.state) k (smpCheck K s t k)).1 ∧
    smpReplyMatches t (smpTable (smpTagOf s.conv.smp.state) k (smpCheck K s t k)).2.1 r ∧
    s'.events = s.events ++ (smpTable (smpTagOf s.conv.smp.state) k (smpCheck K s t k)).2.2.map (smpEvtStr t) := by
  rw [processSMPTLV_head] at h
  cases hv : s.conv.version with
  | none => rw [hv] at h; cases h
  | some v =>
    rw [hv] at h
    have hw := smpBody_table K t (s.conv.smp.state.getD .expect1) { s with conv := ensureSmpConv s.conv } v k
      rfl hv hk
    have := SmpWP.WP_elim hw h
    rw [smpCheck_ensure] at this
    unfold SmpRowPost at this
    exact this

end Table

/-! ## 4. exact runs: an incoming abort, an incoming first message -/

/-- **an incoming abort TLV, every state (exact)**: EXPECT1, no reply, the abort notification `smp:1:0` and nothing
    else in the log; the rest of the conversation — and of the SMP component — is untouched -/
theorem processSMPTLV_abort_run (K : Crypto) (t : Tlv) (s : MState) (v : Version)
    (ht : t.typ = tlvTypeSMPAbort) (hv : s.conv.version = some v) :
    runM (processSMPTLV K t) s =
      .ok (.ok none, { s with conv := s.conv.withSmpState .expect1, events := s.events ++ [smpEv smpAbort 0] }) := by
  rw [processSMPTLV_head, hv]
  unfold ConvData.smpBody
  simp only [ht, ↓reduceIte, runM_bind, setSmpState, runM_modc, bindM_ok, smpEvent_eq, runM_ev, runM_pure]
  rfl

theorem smpEv_abort_ne_success : smpEv smpAbort 0 ≠ smpSuccessEvent := by decide
theorem smpEv_abort_ne_failure : smpEv smpAbort 0 ≠ smpEv smpFailure 100 := by decide

/-- the conversation after the first message `m` has been accepted: waiting for the secret; the question is stored
    if there is one -/
def Conv.smpAsked (c : Conv) (m : Smp1Msg) : Conv :=
  { c with smp := { c.smp with
      state := some (.waitingForSecret m)
      question := if m.hasQuestion then some m.question else c.smp.question } }

/-- **an incoming first message after a reset (state nil or EXPECT1), exact.**  The outcome is a function of the
    message, `K` and the version only: rejected (EXPECT1, abort TLV, `smp:2:0`) or accepted (waiting for the secret
    with exactly this message, the request for the secret logged, no reply).  Nothing of an earlier run (`secret`,
    `s1`, `s2`, `s3`, an old question) is read. -/
theorem processSMPTLV_smp1_run (K : Crypto) (t : Tlv) (s : MState) (v : Version) (m : Smp1Msg)
    (ht : t.typ = tlvTypeSMP1 ∨ t.typ = tlvTypeSMP1WithQuestion)
    (hst : s.conv.smp.state = none ∨ s.conv.smp.state = some .expect1)
    (hv : s.conv.version = some v) (hm : smpMsg1Of t = some m) :
    runM (processSMPTLV K t) s =
      if smp1Verify K (smpGE (some v)) m then
        .ok (.ok none, { s with conv := s.conv.smpAsked m, events := s.events ++ [smpEvtStr t .ask] })
      else
        .ok (.ok (some smpAbortTlv),
          { s with conv := s.conv.withSmpState .expect1, events := s.events ++ [smpEv smpCheated 0] }) := by
  have hty : t.typ ≠ tlvTypeSMPAbort := by
    rcases ht with h | h <;> rw [h] <;> decide
  have hgd : s.conv.smp.state.getD .expect1 = .expect1 := by
    rcases hst with h | h <;> rw [h] <;> rfl
  have hm' : (if t.typ = tlvTypeSMP1 then toSmp1 t.value else toSmp1Q t.value) = some m := hm
  rw [processSMPTLV_head, hv]
  unfold ConvData.smpBody
  simp only [hty, ht, ↓reduceIte, hm', hgd]
  by_cases hver : smp1Verify K (smpGE (some v)) m = true
  · simp only [hver, Bool.not_true, Bool.false_eq_true, ↓reduceIte, smpEvtStr, hm]
    by_cases hq : m.hasQuestion = true
    · simp only [hq, ↓reduceIte, runM_bind, runM_modc, bindM_ok, smpEventQ_eq, runM_ev, setSmpState, runM_pure,
        Conv.smpAsked]
      rfl
    · simp only [hq, Bool.false_eq_true, ↓reduceIte, runM_bind, runM_modc, bindM_ok, smpEvent_eq, runM_ev, setSmpState,
        runM_pure, Conv.smpAsked]
      rfl
  · simp only [hver, Bool.not_false, Bool.not_eq_true, ↓reduceIte, smpAbortWith, runM_bind, smpEvent_eq, runM_ev,
      bindM_ok, setSmpState, runM_modc, runM_pure]
    simp only [Bool.not_eq_true] at hver
    simp only [hver, Bool.not_false, ↓reduceIte, Bool.false_eq_true, runM_bind, runM_ev, bindM_ok, runM_modc, runM_pure]
    rfl

/-- **C12, recovery on the responder's side: after a reset an honest first message is processed exactly as from the
    initial state.**  Replace the SMP component of `s` by any other one `m'` whose state is nil or EXPECT1 (e.g. the
    initial `{}`): the reply is the same, the log entries appended are the same, the resulting state tag — and the
    first message stored with it — is the same, and each conversation keeps its own fields of earlier runs (`secret`,
    `s1`, `s2`, `s3`, and the question unless the message brings one), which play no part. -/
theorem receiveSMP1_state_independent (K : Crypto) (t : Tlv) (s : MState) (v : Version) (m : Smp1Msg) (m' : Smp)
    (ht : t.typ = tlvTypeSMP1 ∨ t.typ = tlvTypeSMP1WithQuestion)
    (hst : s.conv.smp.state = none ∨ s.conv.smp.state = some .expect1)
    (hst' : m'.state = none ∨ m'.state = some .expect1)
    (hv : s.conv.version = some v) (hm : smpMsg1Of t = some m) :
    ∃ r t1 t2 evs,
      runM (processSMPTLV K t) s = .ok (.ok r, t1) ∧
      runM (processSMPTLV K t) { s with conv := { s.conv with smp := m' } } = .ok (.ok r, t2) ∧
      t1.events = s.events ++ evs ∧ t2.events = s.events ++ evs ∧
      t2.conv.smp.state = t1.conv.smp.state ∧
      (t1.conv.smp.state = some (.waitingForSecret m) ∧ r = none ∧ smp1Verify K (smpGE (some v)) m = true ∨
       t1.conv.smp.state = some .expect1 ∧ r = some smpAbortTlv ∧ smp1Verify K (smpGE (some v)) m = false) ∧
      t2.conv = { t1.conv with smp := t2.conv.smp } ∧
      t1.conv.smp = { s.conv.smp with state := t1.conv.smp.state, question := t1.conv.smp.question } ∧
      t2.conv.smp = { m' with state := t1.conv.smp.state, question := t2.conv.smp.question } ∧
      (m.hasQuestion = true → t1.conv.smp.state = some (.waitingForSecret m) →
        t1.conv.smp.question = some m.question ∧ t2.conv.smp.question = some m.question) := by
  have h1 := processSMPTLV_smp1_run K t s v m ht hst hv hm
  have h2 := processSMPTLV_smp1_run K t { s with conv := { s.conv with smp := m' } } v m ht hst' hv hm
  by_cases hver : smp1Verify K (smpGE (some v)) m = true
  · rw [if_pos hver] at h1 h2
    refine ⟨_, _, _, _, h1, h2, rfl, rfl, rfl, Or.inl ⟨rfl, rfl, hver⟩, rfl, rfl, rfl, ?_⟩
    intro hq _
    simp only [Conv.smpAsked, hq, ↓reduceIte, and_self]
  · rw [if_neg hver] at h1 h2
    simp only [Bool.not_eq_true] at hver
    refine ⟨_, _, _, _, h1, h2, rfl, rfl, rfl, Or.inr ⟨rfl, rfl, hver⟩, rfl, rfl, rfl, ?_⟩
    intro _ hc
    simp only [Conv.withSmpState, Option.some.injEq, reduceCtorEq] at hc

/-! ## 5. user calls in a state that does not expect them -/

/-- is the state "waiting for the secret"? -/
def smpIsWaiting : Option SmpState → Bool
  | some (.waitingForSecret _) => true
  | _ => false

/-- **`ProvideAuthenticationSecret` in EVERY state other than waiting-for-the-secret** (nil, EXPECT1, EXPECT2,
    EXPECT3, EXPECT4): refused with `notWaitingForSecret`; no panic, nothing sent, nothing logged, no randomness used;
    the conversation is what it was (a nil SMP state becomes EXPECT1) — in particular a run in progress is not reset
    and no success is reported -/
theorem provideAuthenticationSecret_refused_every_state (K : Crypto) (secret : Bytes) (s : MState)
    (h : smpIsWaiting s.conv.smp.state = false) :
    runM (provideAuthenticationSecret K secret) s =
      .ok (.error .notWaitingForSecret, { s with conv := ensureSmpConv s.conv }) ∧
    (ensureSmpConv s.conv).smp.state = some (s.conv.smp.state.getD .expect1) ∧
    (∀ st, s.conv.smp.state = some st → ensureSmpConv s.conv = s.conv) ∧
    smpTagOf (ensureSmpConv s.conv).smp.state = smpTagOf s.conv.smp.state := by
  have h' : ∀ m, s.conv.smp.state ≠ some (.waitingForSecret m) := by
    intro m hm; rw [hm] at h; cases h
  refine ⟨provideAuthenticationSecret_refused_frame K secret s h', rfl,
    fun st hst => ensureSmpConv_of_some _ st hst, ?_⟩
  cases hs : s.conv.smp.state <;> simp [ensureSmpConv, smpTagOf, hs]

/-- the five states in which the call is refused -/
theorem smpIsWaiting_false_iff (o : Option SmpState) :
    smpIsWaiting o = false ↔
      o = none ∨ o = some .expect1 ∨ o = some .expect2 ∨ o = some .expect3 ∨ o = some .expect4 := by
  cases o with
  | none => simp [smpIsWaiting]
  | some st => cases st <;> simp [smpIsWaiting]

/-! ## 5a. the responder's answer -/

/-- **exact: `continueSMP` (ProvideAuthenticationSecret) while waiting for the secret**, seven successful reads: the
    second-message state is built from the stored first message `m1`, the secret derived from the user's input and
    the fresh exponents; EXPECT3; the reply is the SMP2 TLV.  Of the SMP component only `m1` is read. -/
theorem continueSMP_run (K : Crypto) (secret : Bytes) (s s1 : MState) (tk ok : DsaPub) (v : Version) (m1 : Smp1Msg)
    (b2 b3 r2 r3 r4 r5 r6 : Nat)
    (hst : s.conv.smp.state = some (.waitingForSecret m1))
    (hm : s.conv.msgState = .encrypted) (htk : s.conv.theirKey = some tk) (hok : s.conv.ourCurrentKey = some ok)
    (hv : s.conv.version = some v)
    (hr : runM (randMPIs 7 v.parameterLength) s =
      .ok (.ok [some b2, some b3, some r2, some r3, some r4, some r5, some r6], s1)) :
    runM (continueSMP K secret) s =
      .ok (.ok (smp2Gen K (smpSecretOf K s.conv tk ok false secret) m1 b2 b3 r2 r3 r4 r5 r6).msg.tlv,
        { s1 with conv := { s.conv with smp := { s.conv.smp with
            secret := some (smpSecretOf K s.conv tk ok false secret)
            s2 := some (smp2Gen K (smpSecretOf K s.conv tk ok false secret) m1 b2 b3 r2 r3 r4 r5 r6)
            state := some .expect3 } } }) := by
  have h1 := (randMPIs_run_conv 7 _ s s1 _
    { s.conv with smp := { s.conv.smp with secret := some (smpSecretOf K s.conv tk ok false secret) } } hr).1
  simp only [hm, hv, hst] at h1
  unfold continueSMP paramLen
  simp only [runM_bind, runM_getc, bindM_ok, hst, hm, ne_eq, not_true_eq_false, ↓reduceIte,
    smpSecretFor_run_keys K false secret s tk ok htk hok, runM_modc, hv, runM_pure, h1, allSome, Option.map_some]


/-! ## 5b. the link to the algebra of Proofs.Smp -/

/-- the question does not enter the arithmetic: in every later step of a run the first-message state stored by a
    fresh `StartAuthenticate` behaves as `smp1Gen` of the same four exponents -/
theorem smp1Fresh_as_smp1Gen (K : Crypto) (q : Bytes) (a2 a3 r2 r3 : Nat) :
    (∀ ge, smp1Verify K ge (smp1Fresh K q a2 a3 r2 r3).msg = smp1Verify K ge (smp1Gen K a2 a3 r2 r3).msg) ∧
    (∀ y b2 b3 r2' r3' r4 r5 r6, smp2Gen K y (smp1Fresh K q a2 a3 r2 r3).msg b2 b3 r2' r3' r4 r5 r6 =
      smp2Gen K y (smp1Gen K a2 a3 r2 r3).msg b2 b3 r2' r3' r4 r5 r6) ∧
    (∀ ge m, smp2Verify K ge (smp1Fresh K q a2 a3 r2 r3) m = smp2Verify K ge (smp1Gen K a2 a3 r2 r3) m) ∧
    (∀ x m r4 r5 r6 r7, smp3Gen K x (smp1Fresh K q a2 a3 r2 r3) m r4 r5 r6 r7 =
      smp3Gen K x (smp1Gen K a2 a3 r2 r3) m r4 r5 r6 r7) ∧
    (∀ s3 m, smp4Success K (smp1Fresh K q a2 a3 r2 r3) s3 m = smp4Success K (smp1Gen K a2 a3 r2 r3) s3 m) := by
  unfold smp1Fresh
  cases q.isEmpty <;> exact ⟨fun _ => rfl, fun _ _ _ _ _ _ _ _ => rfl, fun _ _ => rfl, fun _ _ _ _ _ _ => rfl,
    fun _ _ => rfl⟩

/-- **C12, recovery, the link to the algebra: after ANY history a fresh run with equal secrets passes every check of
    the state machine.**  `s1` is the first-message state that `StartAuthenticate` stores from every SMP state
    (`smp_never_stuck`), `x` the common secret, `s2` the responder's second-message state.  Under `K.ArithOK` the third
    and fourth messages are generated without panic, and — as soon as the version's group test accepts the ten
    transmitted elements and the ten transmitted proof exponents are nonzero (the 2^-1535 events of
    `c11_equal_success`) — `smpCheck` says `passed` for each of the four TLVs in the state the run has produced at
    that point, WHATEVER else the two SMP components hold from earlier runs.  By `processSMPTLV_state_table` the rows
    are then: 1 → waiting for the secret; 2 → EXPECT4 + third message; 3 → EXPECT1 + fourth message + `smp:6:100`;
    4 → EXPECT1 + `smp:6:100`. -/
theorem smp_fresh_run_checks_pass {K : Crypto} (A : K.ArithOK) (q : Bytes) (ver : Option Version)
    (x a2 a3 r2 r3 b2 b3 r2' r3' r4 r5 r6 r4' r5' r6' r7 r7' : Nat) :
    let s1 := smp1Fresh K q a2 a3 r2 r3
    let s2 := smp2Gen K x s1.msg b2 b3 r2' r3' r4 r5 r6
    ∃ s3 m4, smp3Gen K x s1 s2.msg r4' r5' r6' r7 = .ok s3 ∧ smp4Gen K s2 s3.msg r7' = .ok m4 ∧
      ((∀ n ∈ smpTransmitted (smp1Gen K a2 a3 r2 r3) s2 s3 m4, smpGE ver n = true) →
       (∀ d ∈ smpExponents (smp1Gen K a2 a3 r2 r3) s2 s3 m4, 1 ≤ d) →
       ∀ (sA sB : MState) (t1 t2 t3 t4 : Tlv), sA.conv.version = ver → sB.conv.version = ver →
        (smpMsg1Of t1 = some s1.msg → smpCheck K sB t1 .msg1 = .passed) ∧
        (toSmp2 t2.value = some s2.msg → sA.conv.smp.s1 = some s1 →
          (∃ n1 n2 n3 n4, randNats 4 (smpParamLen sA.conv) sA = some [n1, n2, n3, n4]) →
          smpCheck K sA t2 .msg2 = .passed) ∧
        (toSmp3 t3.value = some s3.msg → sB.conv.smp.s2 = some s2 →
          (randBytes (smpParamLen sB.conv) sB).isSome = true → smpCheck K sB t3 .msg3 = .passed) ∧
        (toSmp4 t4.value = some m4 → sA.conv.smp.s1 = some s1 → sA.conv.smp.s3 = some s3 →
          smpCheck K sA t4 .msg4 = .passed)) := by
  intro s1 s2
  obtain ⟨e1, e2, e3, e4, e5⟩ := smp1Fresh_as_smp1Gen K q a2 a3 r2 r3
  obtain ⟨s3, m4, h3, h4, hall⟩ := c11_equal_success A (smpGE ver) x a2 a3 r2 r3 b2 b3 r2' r3' r4 r5 r6 r4' r5' r6' r7 r7'
  have hs2 : s2 = smp2Gen K x (smp1Gen K a2 a3 r2 r3).msg b2 b3 r2' r3' r4 r5 r6 := e2 _ _ _ _ _ _ _ _
  refine ⟨s3, m4, ?_, ?_, ?_⟩
  · rw [show smp3Gen K x s1 s2.msg r4' r5' r6' r7 = smp3Gen K x (smp1Gen K a2 a3 r2 r3) s2.msg r4' r5' r6' r7 from
      e4 _ _ _ _ _ _, hs2]
    exact h3
  · rw [hs2]; exact h4
  · intro hT hE sA sB t1 t2 t3 t4 hvA hvB
    rw [hs2] at hT hE
    obtain ⟨v1, v2, v3, w3, v4, w4⟩ := hall hT hE
    rw [← hs2] at v2 v3 w3
    refine ⟨?_, ?_, ?_, ?_⟩
    · intro hp
      simp only [smpCheck, hp, hvB]
      rw [show smp1Verify K (smpGE ver) s1.msg = smp1Verify K (smpGE ver) (smp1Gen K a2 a3 r2 r3).msg from e1 _, v1]
      rfl
    · rintro hp hs ⟨n1, n2, n3, n4, hr⟩
      simp only [smpCheck, hp, hs, hvA, hr]
      rw [show smp2Verify K (smpGE ver) s1 s2.msg = smp2Verify K (smpGE ver) (smp1Gen K a2 a3 r2 r3) s2.msg from
        e3 _ _, v2]
      rfl
    · intro hp hs hr
      simp only [smpCheck, hp, hs, hvB, v3, w3, hr]
      rfl
    · intro hp h1 h3'
      simp only [smpCheck, hp, h1, h3', hvA, v4]
      rw [show smp4Success K s1 s3 m4 = smp4Success K (smp1Gen K a2 a3 r2 r3) s3 m4 from e5 _ _, w4]
      rfl


/-! ## 6. the hypotheses are satisfiable -/

/-- an encrypted OTRv2 session some messages in, both long-term keys known, four reads of 16 bytes on the tape,
    with an ARBITRARY SMP component `m` -/
def exSmpSession (m : Smp) : MState :=
  ⟨{ version := some .v2, msgState := .encrypted, keys := Keys.example1, theirKey := some ⟨7, 7, 7, 7⟩,
     ourCurrentKey := some ⟨5, 5, 5, 5⟩, smp := m },
   { rand := [some (List.replicate 16 1), some (List.replicate 16 2), some (List.replicate 16 3),
              some (List.replicate 16 4)] }, ["smp:x"], []⟩

theorem exSmpSession_ready (K : Crypto) (m : Smp) : SendReady K (exSmpSession m).conv :=
  ⟨rfl, ⟨by simp [exSmpSession], fun _ => by simp [exSmpSession, Keys.example1]⟩, Or.inl rfl, ⟨_, rfl⟩⟩

theorem exSmpSession_rand (m : Smp) :
    runM (randMPIs 4 Version.v2.parameterLength) (exSmpSession m) =
      .ok (.ok [some (bytesToNat (List.replicate 16 1)), some (bytesToNat (List.replicate 16 2)),
                some (bytesToNat (List.replicate 16 3)), some (bytesToNat (List.replicate 16 4))],
        { exSmpSession m with env := {} }) := rfl

/-- `smp_never_stuck` / `startAuthenticate_run` apply to this session whatever its SMP component is — e.g. in the
    middle of a run as responder (EXPECT3, stale secret and question): the call succeeds and ends in EXPECT2 -/
example (K : Crypto) (m : Smp) :
    ∃ t, runM (startAuthenticate K [63] [115]) (exSmpSession m) =
        .ok (.ok (smpWire K (exSmpSession m).conv (smpStartPrefix m.state ++
          [(smp1Fresh K [63] (bytesToNat (List.replicate 16 1)) (bytesToNat (List.replicate 16 2))
            (bytesToNat (List.replicate 16 3)) (bytesToNat (List.replicate 16 4))).msg.tlv])), t) ∧
      t.conv.smp.state = some .expect2 ∧ t.events = ["smp:x"] := by
  obtain ⟨t, h, hs, -, -, he, -⟩ := smp_never_stuck K [63] [115] (exSmpSession m) _ ⟨7, 7, 7, 7⟩ ⟨5, 5, 5, 5⟩ .v2
    _ _ _ _ (exSmpSession_ready K m) rfl rfl rfl (by decide) (by decide) (exSmpSession_rand m)
  exact ⟨t, h, hs, he⟩

/-- the prefix is the abort TLV exactly when a run was under way -/
example : smpStartPrefix (some .expect3) = [smpAbortTlv] ∧ smpStartPrefix (some .expect1) = [] ∧
    smpStartPrefix none = [] ∧ smpStartPrefix (some (.waitingForSecret ⟨1, 2, 3, 4, 5, 6, false, []⟩)) = [smpAbortTlv] :=
  ⟨rfl, rfl, rfl, rfl⟩

/-- `startAuthenticate_state_independent` with the history "responder in EXPECT3" against the initial component -/
example (K : Crypto) :
    ∃ t t' w w', runM (startAuthenticate K [] [115]) (exSmpSession { state := some .expect3, secret := some 9 }) =
        .ok (.ok w, t) ∧
      runM (startAuthenticate K [] [115]) (exSmpSession {}) = .ok (.ok w', t') ∧
      t'.conv.smp = t.conv.smp ∧ t'.conv = t.conv := by
  obtain ⟨t, t', h1, h2, ht, hsmp⟩ := startAuthenticate_state_independent K [] [115]
    (exSmpSession { state := some .expect3, secret := some 9 }) _ ⟨7, 7, 7, 7⟩ ⟨5, 5, 5, 5⟩ .v2 _ _ _ _ {}
    (exSmpSession_ready K _) rfl rfl rfl (by decide) (by decide) (exSmpSession_rand _)
  refine ⟨t, t', _, _, h1, h2, ?_, ?_⟩
  · rw [ht, hsmp]; rfl
  · rw [ht]
    have : t.conv.smp.question = none ∧ t.conv.smp.s2 = none ∧ t.conv.smp.s3 = none := by
      rw [hsmp]; exact ⟨rfl, rfl, rfl⟩
    obtain ⟨c, e, ev, mm⟩ := t
    simp only at this ⊢
    obtain ⟨q1, q2, q3⟩ := this
    rw [← q1, ← q2, ← q3]

/-- `abortAuthentication_resets` applies in every SMP state of this session -/
example (K : Crypto) (m : Smp) :
    ∃ t, runM (abortAuthentication K) (exSmpSession m) = .ok (.ok (smpWire K (exSmpSession m).conv [smpAbortTlv]), t) ∧
      t.conv.smp.state = some .expect1 :=
  ⟨_, (abortAuthentication_resets K (exSmpSession m) (exSmpSession_ready K m)).1, rfl⟩

/-- an incoming abort in the middle of a run: the run is over, only the abort notification is logged; the table
    theorem applies to this run -/
example (K : Crypto) :
    runM (processSMPTLV K smpAbortTlv) (exSmpSession { state := some .expect4 }) =
      .ok (.ok none, { exSmpSession { state := some .expect1 } with events := ["smp:x", "smp:1:0"] }) ∧
    smpKindOf smpAbortTlv.typ = some .abort ∧
    smpTable .expect4 .abort .passed = (.expect1, .nothing, [.plain smpAbort 0]) :=
  ⟨processSMPTLV_abort_run K smpAbortTlv _ .v2 rfl rfl, rfl, rfl⟩

/-- a first message that parses (type 2, six MPIs) met after a reset -/
example : smpMsg1Of (⟨1, 2, 3, 4, 5, 6, false, []⟩ : Smp1Msg).tlv = some ⟨1, 2, 3, 4, 5, 6, false, []⟩ ∧
    (⟨1, 2, 3, 4, 5, 6, false, []⟩ : Smp1Msg).tlv.typ = tlvTypeSMP1 ∧
    (exSmpSession { state := some .expect1, secret := some 9 }).conv.smp.state = some .expect1 := by
  refine ⟨?_, rfl, rfl⟩
  unfold smpMsg1Of
  rw [if_pos (show (⟨1, 2, 3, 4, 5, 6, false, []⟩ : Smp1Msg).tlv.typ = tlvTypeSMP1 from rfl)]
  exact smp1_roundtrip _ rfl rfl (mpisFit_of_lt _ (by decide))

/-- `provideAuthenticationSecret_refused_every_state` in EXPECT3 -/
example (K : Crypto) :
    smpIsWaiting (exSmpSession { state := some .expect3 }).conv.smp.state = false ∧
    runM (provideAuthenticationSecret K [1]) (exSmpSession { state := some .expect3 }) =
      .ok (.error .notWaitingForSecret, exSmpSession { state := some .expect3 }) := by
  refine ⟨rfl, ?_⟩
  rw [(provideAuthenticationSecret_refused_every_state K [1] _ rfl).1]
  rfl

/-- `continueSMP_run`: a session waiting for the secret with seven reads on the tape -/
example (K : Crypto) :
    ∃ tlv t, runM (continueSMP K [115])
        ⟨{ (exSmpSession { state := some (.waitingForSecret ⟨1, 2, 3, 4, 5, 6, false, []⟩), s2 := none }).conv with },
         { rand := List.replicate 7 (some (List.replicate 16 1)) }, [], []⟩ = .ok (.ok tlv, t) ∧
      t.conv.smp.state = some .expect3 ∧ tlv.typ = tlvTypeSMP2 :=
  ⟨_, _, continueSMP_run K [115] _ _ ⟨7, 7, 7, 7⟩ ⟨5, 5, 5, 5⟩ .v2 ⟨1, 2, 3, 4, 5, 6, false, []⟩ _ _ _ _ _ _ _
    rfl rfl rfl rfl rfl (rfl : runM (randMPIs 7 Version.v2.parameterLength) _ = .ok (.ok
      (List.replicate 7 (some (bytesToNat (List.replicate 16 1)))), _)), rfl, rfl⟩

end Otr
