/-
  Proofs.ResendWitness — why the naive bound on `resendMsgs` is not the invariant, and non-vacuity of `RInv`.

  Naive statement: "`resendMsgs.length ≤ 1` unless `mayRetransmit = exact` and the conversation is not encrypted".
  It is false of the model (and of the Go code it mirrors): texts queued by `Send` under required encryption stay
  queued when the key exchange completes but the new DH key pair cannot be drawn (`akeHasFinished` returns the
  error of `generateNewDHKeyPair`, so `retransmitAfterCompletedExchange` skips the retransmission) — the
  conversation is then ENCRYPTED with `mayRetransmit = exact` and any number of texts retained.  An error message of
  the peer relabels them (`withPrefix`), and any TLV-only data message (heartbeat, SMP, extra key) sets
  `mayRetransmit = no` without touching the list: all three modes occur with more than one text.
  `naive_bound_not_inductive`: the step "error message in such a state", as a run of the model.
-/
import Proofs.ResendApi
namespace Otr

/-- a conversation in the state described above: encrypted, two texts still queued in the mode `exact` -/
def stuckQueue : Conv :=
  { msgState := .encrypted, mayRetransmit := .exact, resendMsgs := [[104, 105], [104, 111]] }

/-- it satisfies the invariant for the queue `[hi, ho]` (non-vacuity of `RInv` with two texts) -/
theorem stuckQueue_rinv : RInv [[104, 105], [104, 111]] stuckQueue :=
  ⟨rfl, Or.inr (List.suffix_refl _), (fun _ => List.suffix_refl _), (fun h => by cases h)⟩

/-- **witness against the naive bound**: an error message of the peer received in that state leaves an encrypted
    conversation with `mayRetransmit = withPrefix` (not `exact`) and TWO retained texts; `RInv` still holds -/
theorem naive_bound_not_inductive :
    (∃ r s', runM (receiveErrorMessage (strBytes "?OTR Error: x")) ⟨stuckQueue, {}, [], []⟩ = .ok (r, s')) ∧
    ∀ r s', runM (receiveErrorMessage (strBytes "?OTR Error: x")) ⟨stuckQueue, {}, [], []⟩ = .ok (r, s') →
      s'.conv.msgState = .encrypted ∧ s'.conv.mayRetransmit = .withPrefix ∧ s'.conv.resendMsgs.length = 2 ∧
      RInv [[104, 105], [104, 111]] s'.conv := by
  have key : ∀ r s', runM (receiveErrorMessage (strBytes "?OTR Error: x")) ⟨stuckQueue, {}, [], []⟩ = .ok (r, s') →
      s'.conv.msgState = .encrypted ∧ s'.conv.mayRetransmit = .withPrefix ∧ s'.conv.resendMsgs.length = 2 ∧
      RInv [[104, 105], [104, 111]] s'.conv := by
    intro r s' h
    unfold receiveErrorMessage at h
    simp only [runM_bind, runM_getc, bindM_ok, stuckQueue, beq_self_eq_true, ↓reduceIte, runM_modc, msgEventMsg,
      runM_ev, runM_pure, Res.ok.injEq, Prod.mk.injEq] at h
    rw [← h.2]
    exact ⟨rfl, rfl, rfl, ⟨rfl, Or.inr (List.suffix_refl _), (fun h => by cases h), (fun h => by cases h)⟩⟩
  refine ⟨?_, key⟩
  unfold receiveErrorMessage
  simp only [runM_bind, runM_getc, bindM_ok, stuckQueue, beq_self_eq_true, ↓reduceIte, runM_modc, msgEventMsg,
    runM_ev, runM_pure]
  exact ⟨_, _, rfl⟩

/-- non-vacuity of `apiCall_resend` / `send_queue`: a `Send` under required encryption in a fresh plaintext
    conversation queues its text, and the invariant holds for the extended queue -/
example (K : Crypto) :
    ∃ r s', runM (send K [104, 105]) ⟨{ policies := allowV3 ||| requireEncryption }, {}, [], []⟩ = .ok (r, s') ∧
      s'.conv.resendMsgs = [[104, 105]] ∧ s'.conv.mayRetransmit = .exact ∧ RInv [[104, 105]] s'.conv := by
  have h := send_requireEncryption K [104, 105] ⟨{ policies := allowV3 ||| requireEncryption }, {}, [], []⟩
    (by decide) rfl (by decide) rfl
  refine ⟨_, _, h, rfl, rfl, ?_⟩
  exact ⟨rfl, Or.inl (Nat.le_refl _), fun _ => List.suffix_refl _, fun _ => Or.inl rfl⟩

end Otr
