/-
  Proofs.InjNoThrow — `Receive` and `Send` never throw (`receive_nt`, `send_nt`): predicate `NT`, walk `nt_walk`.
-/
import Proofs.ResendInj
set_option linter.unusedSimpArgs false
set_option linter.unusedVariables false
namespace Otr

/-! ## 0. computations that never throw -/

/-- `x` never throws: every non-panicking run returns a value -/
def NT {α} (x : M α) : Prop := ∀ s e s', runM x s ≠ .ok (.error e, s')

theorem NT.pure {α} (a : α) : NT (pure a : M α) := by
  intro s e s' h; simp only [runM_pure, Res.ok.injEq, Prod.mk.injEq, reduceCtorEq, false_and] at h
theorem NT.goPanic {α} (site : String) : NT (goPanic site : M α) := by
  intro s e s' h; simp only [runM_goPanic] at h; cases h
theorem NT.getc : NT getc := by
  intro s e s' h; simp only [runM_getc, Res.ok.injEq, Prod.mk.injEq, reduceCtorEq, false_and] at h
theorem NT.now : NT now := by
  intro s e s' h; simp only [runM_now, Res.ok.injEq, Prod.mk.injEq, reduceCtorEq, false_and] at h
theorem NT.modc (f : Conv → Conv) : NT (modc f) := by
  intro s e s' h; simp only [runM_modc, Res.ok.injEq, Prod.mk.injEq, reduceCtorEq, false_and] at h
theorem NT.ev (e : String) : NT (ev e) := by
  intro s e s' h; simp only [runM_ev, Res.ok.injEq, Prod.mk.injEq, reduceCtorEq, false_and] at h
theorem NT.mism (e : String) : NT (mism e) := by
  intro s e s' h; simp only [runM_mism, Res.ok.injEq, Prod.mk.injEq, reduceCtorEq, false_and] at h

theorem NT.bind {α β} {x : M α} {f : α → M β} (hx : NT x) (hf : ∀ a, NT (f a)) : NT (x >>= f) := by
  intro s e s' h
  rw [runM_bind] at h
  rcases bindM_error_inv h with h1 | ⟨a, s1, -, h2⟩
  · exact hx _ _ _ h1
  · exact hf a _ _ _ h2

theorem NT.tryCatch {α} {x : M α} {h : Err → M α} (hh : ∀ e, NT (h e)) : NT (tryCatch x h) := by
  intro s e s' hr
  rw [runM_tryCatch] at hr
  cases hx : runM x s with
  | panic p => rw [hx] at hr; cases hr
  | ok v =>
    obtain ⟨v, s1⟩ := v
    rw [hx] at hr
    cases v with
    | ok a => simp only [catchM_ok, Res.ok.injEq, Prod.mk.injEq, reduceCtorEq, false_and] at hr
    | error er => simp only [catchM_error] at hr; exact hh er _ _ _ hr

theorem NT.forIn {γ σ : Type} (l : List γ) (init : σ) (f : γ → σ → M (ForInStep σ))
    (hf : ∀ a b, NT (f a b)) : NT (forIn l init f) := by
  induction l generalizing init with
  | nil => exact NT.pure _
  | cons a l ih =>
    rw [List.forIn_cons]
    refine NT.bind (hf a init) ?_
    intro r
    cases r with
    | done b => exact NT.pure _
    | yield b => exact ih b

syntax "nt_walk" "[" term,* "]" : tactic
macro_rules
  | `(tactic| nt_walk [$ls,*]) => do
    let tacs ← ls.getElems.mapM fun l => `(tactic| with_reducible exact $l)
    `(tactic| repeat' (first
      | with_reducible exact NT.pure _ | with_reducible exact NT.goPanic _ | with_reducible exact NT.getc
      | with_reducible exact NT.modc _ | with_reducible exact NT.now | with_reducible exact NT.ev _
      | with_reducible exact NT.mism _
      $[| $tacs:tactic]*
      | with_reducible apply NT.tryCatch | with_reducible apply NT.bind
      | with_reducible apply NT.forIn
      | with_reducible intro _ | split | dsimp only))

theorem msgEvent_nt (n : Nat) : NT (msgEvent n) := by unfold msgEvent; nt_walk []
theorem msgEventMsg_nt (n : Nat) (m : Bytes) : NT (msgEventMsg n m) := by unfold msgEventMsg; nt_walk []
theorem msgEventErr_nt (n : Nat) : NT (msgEventErr n) := by unfold msgEventErr; nt_walk []
theorem generatePotentialErrorMessage_nt (c : Nat) : NT (generatePotentialErrorMessage c) := by
  unfold generatePotentialErrorMessage; nt_walk []
theorem notifyDataMessageError_nt (e : Err) : NT (notifyDataMessageError e) := by
  unfold notifyDataMessageError; nt_walk [msgEvent_nt _, generatePotentialErrorMessage_nt _]
theorem updateLastSent_nt : NT updateLastSent := by unfold updateLastSent; nt_walk []
theorem getAke_nt : NT getAke := by unfold getAke; nt_walk []
theorem modAke_nt (f : Ake → Ake) : NT (modAke f) := NT.modc _
theorem initAKE_nt : NT initAKE := NT.modc _
theorem retransmit_nt (K : Crypto) : NT (retransmit K) := by
  unfold retransmit; nt_walk [msgEvent_nt _, updateLastSent_nt]
theorem maybeRetransmit_nt (K : Crypto) : NT (maybeRetransmit K) := by
  unfold maybeRetransmit; nt_walk [retransmit_nt K]
theorem retransmitAfterCompletedExchange_nt (K : Crypto) (b a : AuthState) (e : Option Err) :
    NT (retransmitAfterCompletedExchange K b a e) := by
  unfold retransmitAfterCompletedExchange; nt_walk [maybeRetransmit_nt K]
theorem optNat_nt (site : String) (v : Option Nat) : NT (optNat site v) := by unfold optNat; nt_walk []
theorem recvDHCommit_nt (K : Crypto) (st : AuthState) (msg : Bytes) : NT (recvDHCommit K st msg) := by
  unfold recvDHCommit recvDHCommitNone akeTry; nt_walk [getAke_nt, optNat_nt _ _, modAke_nt _]
theorem recvDHKey_nt (K : Crypto) (st : AuthState) (msg : Bytes) : NT (recvDHKey K st msg) := by
  unfold recvDHKey akeTry; nt_walk [getAke_nt, optNat_nt _ _, modAke_nt _]
theorem recvRevealSig_nt (K : Crypto) (st : AuthState) (msg : Bytes) : NT (recvRevealSig K st msg) := by
  unfold recvRevealSig akeTry; nt_walk [getAke_nt, optNat_nt _ _, modAke_nt _]
theorem recvSig_nt (K : Crypto) (st : AuthState) (msg : Bytes) : NT (recvSig K st msg) := by
  unfold recvSig akeTry; nt_walk [getAke_nt, optNat_nt _ _, modAke_nt _]
theorem processAKE_nt (K : Crypto) (t : Nat) (m : Bytes) : NT (processAKE K t m) := by
  unfold processAKE
  nt_walk [initAKE_nt, getAke_nt, modAke_nt _, recvDHCommit_nt K _ _, recvDHKey_nt K _ _, recvRevealSig_nt K _ _,
    recvSig_nt K _ _, retransmitAfterCompletedExchange_nt K _ _ _]
theorem processDataMessageRaw_nt (K : Crypto) (h m : Bytes) : NT (processDataMessageRaw K h m) := by
  unfold processDataMessageRaw; nt_walk [msgEvent_nt _]
theorem receiveDataMessage_nt (K : Crypto) (h b : Bytes) : NT (receiveDataMessage K h b) := by
  unfold receiveDataMessage; nt_walk [processDataMessageRaw_nt K _ _, notifyDataMessageError_nt _]
theorem receiveDecodedCore_nt (K : Crypto) (m : Bytes) : NT (receiveDecodedCore K m) := by
  unfold receiveDecodedCore; nt_walk [receiveDataMessage_nt K _ _, processAKE_nt K _ _, msgEventErr_nt _]
theorem receiveDecoded_nt (K : Crypto) (m : Bytes) : NT (receiveDecoded K m) := by
  unfold receiveDecoded; nt_walk [receiveDecodedCore_nt K _]
theorem receiveQueryMessage_nt (K : Crypto) (m : Bytes) : NT (receiveQueryMessage K m) := by
  unfold receiveQueryMessage; nt_walk [msgEventErr_nt _]
theorem checkPlaintextPolicies_nt (p : Bytes) : NT (checkPlaintextPolicies p) := by
  unfold checkPlaintextPolicies; nt_walk [msgEventMsg_nt _ _]
theorem receiveTaggedPlaintext_nt (K : Crypto) (m : Bytes) : NT (receiveTaggedPlaintext K m) := by
  unfold receiveTaggedPlaintext; nt_walk [msgEventErr_nt _, checkPlaintextPolicies_nt _]
theorem receiveErrorMessage_nt (m : Bytes) : NT (receiveErrorMessage m) := by
  unfold receiveErrorMessage; nt_walk [msgEventMsg_nt _ _]
theorem fragEncode_nt (m : Bytes) : NT (fragEncode m) := by unfold fragEncode; nt_walk []
theorem toSendEncoded_nt (ts : List Bytes) (e : Option Err) : NT (toSendEncoded ts e) := by
  unfold toSendEncoded; nt_walk [fragEncode_nt _]
theorem withInjects_nt (v : List Bytes) : NT (withInjects v) := by unfold withInjects; nt_walk []

theorem receiveUnit_nt (K : Crypto) : ∀ (fuel : Nat) (m : Bytes) (fg : Bool), NT (receiveUnit K fuel m fg) := by
  intro fuel
  induction fuel with
  | zero => intro m fg; rw [receiveUnit]; nt_walk []
  | succ fuel ih =>
    intro m fg
    rw [receiveUnit]
    refine NT.bind NT.getc fun c => ?_
    split
    · exact NT.pure _
    · dsimp only
      split
      all_goals
        nt_walk [receiveErrorMessage_nt _, withInjects_nt _, receiveQueryMessage_nt K _,
          receiveTaggedPlaintext_nt K _, checkPlaintextPolicies_nt _, toSendEncoded_nt _ _, msgEvent_nt _,
          receiveDecoded_nt K _, ih _ _]

/-- **`Receive` never throws**: whatever it has to report is in the returned error -/
theorem receive_nt (K : Crypto) (m : Bytes) : NT (receive K m) := receiveUnit_nt K _ m true

theorem resendLater_nt (m : Bytes) : NT (resendLater m) := by unfold resendLater; nt_walk []
theorem appendWhitespaceTag_nt (m : Bytes) : NT (appendWhitespaceTag m) := by unfold appendWhitespaceTag; nt_walk []

/-- **`Send` never throws** -/
theorem send_nt (K : Crypto) (m : Bytes) : NT (send K m) := by
  unfold send
  nt_walk [msgEvent_nt _, updateLastSent_nt, resendLater_nt _, withInjects_nt _, appendWhitespaceTag_nt _,
    generatePotentialErrorMessage_nt _]

end Otr
