/-
  Proofs.Fixes5Api — `khist_mac_keys_never_lost` (Proofs.Fixes5) for ALL API call sequences from a fresh
  conversation, with the panic-freedom of Proofs.NoPanic (via Proofs.KeysRefineApi).
-/
import Proofs.KeysRefineApi
import Proofs.Fixes5
set_option linter.unusedVariables false
namespace Otr

/-- **C09 at the API level (repaired code): no MAC key that is to be disclosed is ever lost.**  Let `c1` be the
    conversation after the calls `pre` and `c2` the one after the further calls `mid`, from a fresh conversation
    (any policies, long-term keys, randomness and signing tapes, clock values; both runs end without panic).  A MAC
    key that at `c1` waits in the reveal queue or in the MAC history (a key used to accept a message) still waits
    there at `c2`, or a data message generated completely on the way carried it in its reveal field — across any
    number of key exchanges, `End`s and disconnects of the peer. -/
theorem api_mac_keys_never_lost (K : Crypto) (hK : CryptoOK K) (version : Option Version)
    (policies : Policies) (keys : List DsaPub) (fragmentSize : Nat) (errHandler : Bool) (friendlyQuery : Bytes)
    (ourTag : Nat) (pre mid : List ApiStep) :
    ∃ c1 c2,
      runApi K (freshConv version policies keys fragmentSize errHandler friendlyQuery ourTag) pre = .ok c1 ∧
      runApi K c1 mid = .ok c2 ∧
      runApi K (freshConv version policies keys fragmentSize errHandler friendlyQuery ourTag) (pre ++ mid) = .ok c2 ∧
      ∀ b, c1.keys.Pending b → c2.keys.Pending b ∨ RevealedIn K c1.keys c2.keys b := by
  obtain ⟨c1, h1, -, hc1, -⟩ := api_sequence_keys_refine K hK version policies keys fragmentSize errHandler
    friendlyQuery ourTag pre
  obtain ⟨c2, h2, -, -, -⟩ := api_sequence_keys_refine K hK version policies keys fragmentSize errHandler
    friendlyQuery ourTag (pre ++ mid)
  have h12 : runApi K c1 mid = .ok c2 := by
    rw [runApi_append, h1] at h2
    exact h2
  exact ⟨c1, c2, h1, h12, h2, fun b hp => runApi_mac_keys_never_lost K mid c1 c2 hc1 h12 b hp⟩

end Otr
