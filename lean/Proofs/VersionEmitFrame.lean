/-
  Proofs.VersionEmitFrame — groundwork for Proofs.VersionEmit2 (property C16, emission): the frame `EB`
  (the authentication state stays or falls back to `none`; the message state does not become `encrypted`; the
  injection queue only grows by error replies) and a walk through every function of the conversation model
  outside the key exchange (`processAKE`, `sendDHCommit`).
-/
import Proofs.VersionEmitWalk
set_option linter.unusedSimpArgs false
set_option linter.unusedVariables false
namespace Otr

/-- a reply produced by the error-message handler: `?OTR Error: E<code>` -/
def IsErrReply (y : Bytes) : Prop := ∃ code : Nat, y = errorMarker ++ [32] ++ strBytes s!"E{code}"

def EB (s s' : MState) : Prop :=
  (authStateOf s'.conv = authStateOf s.conv ∨ authStateOf s'.conv = .none) ∧
  (s'.conv.msgState = .encrypted → s.conv.msgState = .encrypted) ∧
  (∀ y ∈ s'.conv.injections, y ∈ s.conv.injections ∨ IsErrReply y)

theorem EB.mk {s s' : MState} (h1 : authStateOf s'.conv = authStateOf s.conv ∨ authStateOf s'.conv = .none)
    (h2 : s'.conv.msgState = .encrypted → s.conv.msgState = .encrypted)
    (h3 : ∀ y ∈ s'.conv.injections, y ∈ s.conv.injections ∨ IsErrReply y) : EB s s' := ⟨h1, h2, h3⟩

theorem EB.refl (s : MState) : EB s s := ⟨Or.inl rfl, id, fun _ h => Or.inl h⟩

theorem EB.trans {a b c : MState} (h1 : EB a b) (h2 : EB b c) : EB a c := by
  refine ⟨?_, fun h => h1.2.1 (h2.2.1 h), fun y hy => ?_⟩
  · rcases h2.1 with h | h
    · rw [h]; exact h1.1
    · exact Or.inr h
  · rcases h2.2.2 y hy with h | h
    · exact h1.2.2 y h
    · exact Or.inr h

instance : Frame EB where
  refl := EB.refl
  trans := EB.trans

theorem EB.of_conv {s s' : MState} (ha : s'.conv.ake = s.conv.ake) (hm : s'.conv.msgState = s.conv.msgState)
    (hi : s'.conv.injections = s.conv.injections) : EB s s' :=
  ⟨Or.inl (by unfold authStateOf; rw [ha]), fun h => by rw [← hm]; exact h, fun y hy => Or.inl (by rw [← hi]; exact hy)⟩

macro "eb_leaf" : tactic => `(tactic| first
  | exact Stable.modc _ (fun _ => EB.mk (Or.inl rfl) id (fun _ h => Or.inl h))
  | (refine Stable.modc _ (fun s => ?_); (try dsimp only);
     split <;> exact EB.mk (Or.inl rfl) id (fun _ h => Or.inl h))
  | exact Stable.modc _ (fun _ => EB.mk (Or.inr rfl) (fun h => by cases h) (fun _ h => Or.inl h))
  | exact Stable.mism _ (fun _ => EB.mk (Or.inl rfl) id (fun _ h => Or.inl h))
  | exact Stable.ev _ (fun _ => EB.mk (Or.inl rfl) id (fun _ h => Or.inl h)))

macro "eb_core" : tactic => `(tactic| first
  | exact Stable.pure _ | exact Stable.throw _ | exact Stable.goPanic _
  | exact Stable.getc | exact Stable.get | exact Stable.now
  | eb_leaf
  | with_reducible apply Stable.bind | with_reducible apply Stable.tryCatch
  | with_reducible apply Stable.ite | with_reducible apply Stable.map
  | with_reducible apply Stable.forIn)

syntax "eb_walk" "[" term,* "]" : tactic
macro_rules
  | `(tactic| eb_walk [$ls,*]) => do
    let tacs ← ls.getElems.mapM fun l => `(tactic| with_reducible apply $l)
    `(tactic| repeat' (first | eb_core $[| $tacs:tactic]* | with_reducible intro _ | split | dsimp only))

theorem Stable.send_eb {α} {x : M α} (h : Stable SendFrame x) : Stable EB x :=
  Stable.mono (fun s s' hs => by
    have h2 : sendKept s' = sendKept s := hs
    unfold sendKept at h2
    simp only [Prod.mk.injEq] at h2
    exact EB.of_conv h2.2.2.2.2.2.2.2.2.2.2.2.2.1 h2.2.2.2.2.1 h2.2.2.2.2.2.2.2.2.2.2.2.2.2.2.2.2.1) h

/-! ### events, randomness, headers, sending -/

theorem msgEvent_eb (n : Nat) : Stable EB (msgEvent n) := by
  unfold msgEvent; eb_walk []
theorem msgEventMsg_eb (n : Nat) (m : Bytes) : Stable EB (msgEventMsg n m) := by
  unfold msgEventMsg; eb_walk []
theorem msgEventErr_eb (n : Nat) : Stable EB (msgEventErr n) := by
  unfold msgEventErr; eb_walk []
theorem secEvent_eb (n : Nat) : Stable EB (secEvent n) := by
  unfold secEvent; eb_walk []
theorem smpEvent_eb (n p : Nat) : Stable EB (smpEvent n p) := by
  unfold smpEvent; eb_walk []
theorem smpEventQ_eb (n p : Nat) (q : Bytes) : Stable EB (smpEventQ n p q) := by
  unfold smpEventQ; eb_walk []

theorem randRead_eb (n : Nat) : Stable EB (randRead n) := (randRead_sendFrame n).send_eb
theorem randomInto_eb (n : Nat) : Stable EB (randomInto n) := (randomInto_sendFrame n).send_eb
theorem messageHeader_eb (t : Nat) : Stable EB (messageHeader t) := (messageHeader_sendFrame t).send_eb
theorem wrapMessageHeader_eb (t : Nat) (m : Bytes) : Stable EB (wrapMessageHeader t m) := by
  unfold wrapMessageHeader; eb_walk [messageHeader_eb]
theorem genDataMsgWithFlag_eb (K : Crypto) (m : Bytes) (f : Nat) (tlvs : List Tlv) :
    Stable EB (genDataMsgWithFlag K m f tlvs) := (genDataMsgWithFlag_sendFrame K m f tlvs).send_eb
theorem createSerializedDataMessage_eb (K : Crypto) (m : Bytes) (f : Nat) (tlvs : List Tlv) :
    Stable EB (createSerializedDataMessage K m f tlvs) :=
  (createSerializedDataMessage_sendFrame K m f tlvs).send_eb
theorem updateLastSent_eb : Stable EB updateLastSent := by
  unfold updateLastSent; eb_walk []
theorem fragEncode_eb (msg : Bytes) : Stable EB (fragEncode msg) := by
  unfold fragEncode; eb_walk []
theorem withInjects_eb (vms : List Bytes) : Stable EB (withInjects vms) := by
  unfold withInjects
  refine Stable.bind Stable.getc fun c => ?_
  refine Stable.bind (Stable.modc _ (fun _ => EB.mk (Or.inl rfl) id (fun _ h => by cases h))) fun _ => ?_
  exact Stable.pure _
theorem generatePotentialErrorMessage_eb (code : Nat) : Stable EB (generatePotentialErrorMessage code) := by
  unfold generatePotentialErrorMessage
  refine Stable.bind Stable.getc fun c => ?_
  refine Stable.ite ?_ (Stable.pure _)
  refine Stable.modc _ (fun _ => EB.mk (Or.inl rfl) id (fun y h => ?_))
  rw [List.mem_append, List.mem_singleton] at h
  exact h.elim Or.inl (fun h => Or.inr ⟨code, h⟩)
theorem malformedMessage_eb : Stable EB malformedMessage := by
  unfold malformedMessage; eb_walk [msgEvent_eb, generatePotentialErrorMessage_eb]
theorem resendLater_eb (m : Bytes) : Stable EB (resendLater m) := by
  unfold resendLater; eb_walk []
theorem resendLast_eb (m : Bytes) : Stable EB (resendLast m) := by
  unfold resendLast; eb_walk []
theorem verifyInstanceTags_eb (their our : Nat) : Stable EB (verifyInstanceTags their our) := by
  unfold verifyInstanceTags; eb_walk [malformedMessage_eb, msgEvent_eb]
theorem parseMessageHeader_eb (m : Bytes) : Stable EB (parseMessageHeader m) := by
  unfold parseMessageHeader; eb_walk [malformedMessage_eb, verifyInstanceTags_eb]
theorem toSendEncoded_eb (ts : List Bytes) (e : Option Err) : Stable EB (toSendEncoded ts e) := by
  unfold toSendEncoded; eb_walk [fragEncode_eb]

/-! ### retransmission, the time stamp of `processAKE` -/

theorem retransmit_eb (K : Crypto) : Stable EB (retransmit K) := by
  unfold retransmit
  eb_walk [genDataMsgWithFlag_eb, wrapMessageHeader_eb, msgEvent_eb, updateLastSent_eb]
theorem maybeRetransmit_eb (K : Crypto) : Stable EB (maybeRetransmit K) := by
  unfold maybeRetransmit; eb_walk [retransmit_eb]
theorem retransmitAfterCompletedExchange_eb (K : Crypto) (b a : AuthState) (e : Option Err) :
    Stable EB (retransmitAfterCompletedExchange K b a e) := by
  unfold retransmitAfterCompletedExchange
  eb_walk [maybeRetransmit_eb, genDataMsgWithFlag_eb, wrapMessageHeader_eb]

/-! ### SMP, TLVs, data messages -/

theorem processSMPTLV_eb (K : Crypto) (t : Tlv) : Stable EB (processSMPTLV K t) := by
  intro s r s' hr
  have h := ConvData.processSMPTLV_frame K t s
  unfold ConvData.wp at h
  rw [show ConvData.run' (processSMPTLV K t) s = runM (processSMPTLV K t) s from rfl, hr] at h
  unfold ConvData.SmpFrame at h
  exact EB.of_conv (by rw [h]) (by rw [h]) (by rw [h])

theorem processDisconnectedTLV_eb : Stable EB processDisconnectedTLV := by
  unfold processDisconnectedTLV
  refine Stable.bind Stable.getc fun c => ?_
  refine Stable.bind (Stable.modc _ (fun _ => EB.mk (Or.inr rfl) (fun h => by cases h) (fun _ h => Or.inl h))) fun _ => ?_
  eb_walk [secEvent_eb]

theorem processExtraSymmetricKeyTLV_eb (t : Tlv) (x : Bytes) :
    Stable EB (processExtraSymmetricKeyTLV t x) := by
  unfold processExtraSymmetricKeyTLV; eb_walk []

theorem processTLVs_eb (K : Crypto) (tlvs : List Tlv) (x : Bytes) : Stable EB (processTLVs K tlvs x) := by
  unfold processTLVs
  eb_walk [processDisconnectedTLV_eb, processExtraSymmetricKeyTLV_eb, processSMPTLV_eb]

theorem processDataMessageTail_eb (K : Crypto) (dm : DataMsg) (tlvs : List Tlv) (x : Bytes) :
    Stable EB (processDataMessageTail K dm tlvs x) := by
  unfold processDataMessageTail
  eb_walk [randRead_eb, processTLVs_eb, genDataMsgWithFlag_eb, wrapMessageHeader_eb]

theorem processDataMessageRaw_eb (K : Crypto) (header msg : Bytes) :
    Stable EB (processDataMessageRaw K header msg) := by
  unfold processDataMessageRaw
  eb_walk [processDataMessageTail_eb, msgEvent_eb]

theorem potentialHeartbeat_eb (K : Crypto) (plain : Option Bytes) : Stable EB (potentialHeartbeat K plain) := by
  unfold potentialHeartbeat
  eb_walk [genDataMsgWithFlag_eb, wrapMessageHeader_eb, updateLastSent_eb, msgEvent_eb]

theorem notifyDataMessageError_eb (e : Err) : Stable EB (notifyDataMessageError e) := by
  unfold notifyDataMessageError
  eb_walk [msgEvent_eb, generatePotentialErrorMessage_eb]

theorem receiveDataMessage_eb (K : Crypto) (header body : Bytes) :
    Stable EB (receiveDataMessage K header body) := by
  unfold receiveDataMessage
  eb_walk [processDataMessageRaw_eb, potentialHeartbeat_eb, notifyDataMessageError_eb]

/-! ### plaintext, error message, versions, fragments -/

theorem checkPlaintextPolicies_eb (p : Bytes) : Stable EB (checkPlaintextPolicies p) := by
  unfold checkPlaintextPolicies; eb_walk [msgEventMsg_eb]

theorem receiveErrorMessage_eb (m : Bytes) : Stable EB (receiveErrorMessage m) := by
  unfold receiveErrorMessage; eb_walk [msgEventMsg_eb]

theorem setKeyMatchingVersion_eb : Stable EB setKeyMatchingVersion := by
  unfold setKeyMatchingVersion; eb_walk []

theorem commitToVersionFrom_eb (vs : Nat) : Stable EB (commitToVersionFrom vs) := by
  unfold commitToVersionFrom; eb_walk [setKeyMatchingVersion_eb]

theorem checkVersion_eb (m : Bytes) : Stable EB (checkVersion m) := by
  unfold checkVersion; eb_walk [commitToVersionFrom_eb]

theorem parseFragmentPrefix_eb (d : Bytes) : Stable EB (parseFragmentPrefix d) := by
  unfold parseFragmentPrefix; eb_walk [commitToVersionFrom_eb, verifyInstanceTags_eb]

theorem receiveFragment_eb (b : FragCtx) (d : Bytes) : Stable EB (receiveFragment b d) := by
  unfold receiveFragment
  eb_walk [parseFragmentPrefix_eb, msgEvent_eb]

/-! ### the other API calls -/

theorem appendWhitespaceTag_eb (m : Bytes) : Stable EB (appendWhitespaceTag m) := by
  unfold appendWhitespaceTag; eb_walk []

theorem send_eb (K : Crypto) (m : Bytes) : Stable EB (send K m) := by
  unfold send
  eb_walk [msgEvent_eb, updateLastSent_eb, resendLater_eb, withInjects_eb, appendWhitespaceTag_eb,
    createSerializedDataMessage_eb, generatePotentialErrorMessage_eb]

theorem smpWipe_eb : Stable EB smpWipe := by
  unfold smpWipe; eb_walk []

theorem endSession_eb (K : Crypto) : Stable EB (endSession K) := by
  unfold endSession
  eb_walk [smpWipe_eb, createSerializedDataMessage_eb, secEvent_eb]

theorem smpSecretFor_eb (K : Crypto) (i : Bool) (sec : Bytes) : Stable EB (smpSecretFor K i sec) := by
  unfold smpSecretFor; eb_walk []
theorem paramLen_eb : Stable EB paramLen := by
  unfold paramLen; eb_walk []
theorem randMPIs_eb (k len : Nat) : Stable EB (randMPIs k len) := by
  induction k with
  | zero => unfold randMPIs; eb_walk []
  | succ k ih => unfold randMPIs; eb_walk [randRead_eb, ih]

theorem startAuthenticateExpect1_eb (K : Crypto) (q sec : Bytes) :
    Stable EB (startAuthenticateExpect1 K q sec) := by
  unfold startAuthenticateExpect1
  eb_walk [smpSecretFor_eb, paramLen_eb, randMPIs_eb]

theorem startAuthenticate_eb (K : Crypto) (q sec : Bytes) : Stable EB (startAuthenticate K q sec) := by
  unfold startAuthenticate
  eb_walk [startAuthenticateExpect1_eb, createSerializedDataMessage_eb]

theorem continueSMP_eb (K : Crypto) (sec : Bytes) : Stable EB (continueSMP K sec) := by
  unfold continueSMP
  eb_walk [smpSecretFor_eb, paramLen_eb, randMPIs_eb, smpEvent_eb]

theorem provideAuthenticationSecret_eb (K : Crypto) (sec : Bytes) :
    Stable EB (provideAuthenticationSecret K sec) := by
  unfold provideAuthenticationSecret
  eb_walk [continueSMP_eb, createSerializedDataMessage_eb]

theorem abortAuthentication_eb (K : Crypto) : Stable EB (abortAuthentication K) := by
  unfold abortAuthentication
  eb_walk [createSerializedDataMessage_eb]

theorem useExtraSymmetricKey_eb (K : Crypto) (u : Nat) (d : Bytes) : Stable EB (useExtraSymmetricKey K u d) := by
  unfold useExtraSymmetricKey
  eb_walk [createSerializedDataMessage_eb]

end Otr
