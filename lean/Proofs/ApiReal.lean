/-
  Proofs.ApiReal — the whole-history theorems that carry the hypothesis `CryptoOK K`, instantiated for the executable
  cryptography `Crypto.real` (the instance the compiled driver runs and that is compared differentially with Go's
  crypto): by `Crypto.real_cryptoOK` (Proofs/CryptoRealOK.lean) the only hypothesis left is `Nat.Prime dhP`.
  No new mathematics: every theorem is the general one applied to `Crypto.real`.
-/
import Proofs.CryptoRealOK
import Proofs.KeysRefineApi
import Proofs.EventsFresh
import Proofs.Fixes5Api
import Proofs.ResendApi
import Proofs.InjDrain
import Proofs.FragBound
import Proofs.VersionInv
namespace Otr

theorem api_c19_bounded_real (hp : Nat.Prime dhP) :
    type_of% (api_c19_bounded Crypto.real (Crypto.real_cryptoOK hp)) :=
  api_c19_bounded Crypto.real (Crypto.real_cryptoOK hp)

theorem api_sequence_keys_refine_real (hp : Nat.Prime dhP) :
    type_of% (api_sequence_keys_refine Crypto.real (Crypto.real_cryptoOK hp)) :=
  api_sequence_keys_refine Crypto.real (Crypto.real_cryptoOK hp)

theorem api_c05_no_replay_within_session_real (hp : Nat.Prime dhP) :
    type_of% (api_c05_no_replay_within_session Crypto.real (Crypto.real_cryptoOK hp)) :=
  api_c05_no_replay_within_session Crypto.real (Crypto.real_cryptoOK hp)

theorem api_c09_queue_provenance_real (hp : Nat.Prime dhP) :
    type_of% (api_c09_queue_provenance Crypto.real (Crypto.real_cryptoOK hp)) :=
  api_c09_queue_provenance Crypto.real (Crypto.real_cryptoOK hp)

theorem api_mac_keys_never_lost_real (hp : Nat.Prime dhP) :
    type_of% (api_mac_keys_never_lost Crypto.real (Crypto.real_cryptoOK hp)) :=
  api_mac_keys_never_lost Crypto.real (Crypto.real_cryptoOK hp)

theorem api_sequence_events_balance_fresh_real (hp : Nat.Prime dhP) :
    type_of% (api_sequence_events_balance_fresh Crypto.real (Crypto.real_cryptoOK hp)) :=
  api_sequence_events_balance_fresh Crypto.real (Crypto.real_cryptoOK hp)

theorem api_resend_bounded_real (hp : Nat.Prime dhP) :
    type_of% (api_resend_bounded Crypto.real (Crypto.real_cryptoOK hp)) :=
  api_resend_bounded Crypto.real (Crypto.real_cryptoOK hp)

theorem api_injections_empty_real (hp : Nat.Prime dhP) :
    type_of% (api_injections_empty Crypto.real (Crypto.real_cryptoOK hp)) :=
  api_injections_empty Crypto.real (Crypto.real_cryptoOK hp)

theorem api_fragCtx_bounded_real (hp : Nat.Prime dhP) :
    type_of% (api_fragCtx_bounded Crypto.real (Crypto.real_cryptoOK hp)) :=
  api_fragCtx_bounded Crypto.real (Crypto.real_cryptoOK hp)

theorem api_version_allowed_real (hp : Nat.Prime dhP) :
    type_of% (api_version_allowed Crypto.real (Crypto.real_cryptoOK hp)) :=
  api_version_allowed Crypto.real (Crypto.real_cryptoOK hp)

theorem api_version_sticky_real (hp : Nat.Prime dhP) :
    type_of% (api_version_sticky Crypto.real (Crypto.real_cryptoOK hp)) :=
  api_version_sticky Crypto.real (Crypto.real_cryptoOK hp)

end Otr
