/-
  Proofs.ConvData — the data-message receive path of the conversation model (Otr/Conv.lean):
  guard structure of `processDataMessageRaw` (C02), exact frame of rejected messages (C06),
  lift to `receiveDataMessage`, panic freedom of the data path (C13), one-step replay link (C05).

  Main theorems (namespace `Otr`):
    c02_not_encrypted, c02_unparsable, c02_bad_keys, c02_bad_mac, c02_replayed_counter,
    replayState_frame, replayState_eq_self, replayState_eq_self_of_regressed, c02_guard, c02_tamper,
    c06_recv_not_encrypted, c06_recv_unparsable, c06_recv_bad_keys, c06_recv_bad_mac,
    c06_recv_replayed_counter, withErrorReply_spec,
    extractMPIsAlloc_le, extractMPIs_length, tlv_deserialize_length, parseTlvs_length, plainDataMsg_tlvs_length,
    c05_counter_recorded, c05_immediate_replay_rejected,
    c13_raw_panic_sites, c13_raw_no_panic_data_path, c13_raw_no_panic, c13_receiveDataMessage_no_panic,
    raw_preserves_smpWaitWF.
  Helper calculus and lemmas live in namespace `Otr.ConvData` (`run'`, `wp`, `wp_exec`, frames, counters,
  `SmpWF`/`SmpNumWF`/`SmpWaitWF` preservation by processSMPTLV, startAuthenticate, continueSMP,
  provideAuthenticationSecret, abortAuthentication, smpWipe).
-/
import Otr.Conv
import Proofs.Msg
namespace Otr
set_option linter.unusedSimpArgs false
set_option linter.unusedVariables false
namespace ConvData

/-- run an `M` computation from a state -/
def run' {α} (x : M α) (s : MState) : Res (Except Err α × MState) := (ExceptT.run x).run s

theorem run'_pure {α} (a : α) (s : MState) : run' (pure a : M α) s = .ok (.ok a, s) := rfl

theorem run'_bind {α β} (x : M α) (f : α → M β) (s : MState) :
    run' (x >>= f) s =
      match run' x s with
      | .ok (.ok a, s') => run' (f a) s'
      | .ok (.error e, s') => .ok (.error e, s')
      | .panic p => .panic p := by
  unfold run'
  show (ExceptT.run (x >>= f)).run s = _
  rw [ExceptT.run_bind]
  simp only [StateT.run_bind]
  cases h : (ExceptT.run x).run s with
  | panic p => rfl
  | ok r =>
    obtain ⟨r, s'⟩ := r
    cases r <;> rfl

theorem run'_getc (s : MState) : run' getc s = .ok (.ok s.conv, s) := rfl
theorem run'_modc (f : Conv → Conv) (s : MState) : run' (modc f) s = .ok (.ok (), { s with conv := f s.conv }) := rfl
theorem run'_ev (e : String) (s : MState) : run' (ev e) s = .ok (.ok (), { s with events := s.events ++ [e] }) := rfl
theorem run'_throw {α} (e : Err) (s : MState) : run' (throw e : M α) s = .ok (.error e, s) := rfl
theorem run'_goPanic {α} (site : String) (s : MState) : run' (goPanic site : M α) s = .panic site := rfl
theorem run'_get (s : MState) : run' (get : M MState) s = .ok (.ok s, s) := rfl
theorem run'_set (t s : MState) : run' (set t : M PUnit) s = .ok (.ok ⟨⟩, t) := rfl

theorem run'_tryCatch {α} (x : M α) (h : Err → M α) (s : MState) :
    run' (tryCatch x h) s =
      match run' x s with
      | .ok (.ok a, s') => .ok (.ok a, s')
      | .ok (.error e, s') => run' (h e) s'
      | .panic p => .panic p := by
  unfold run'
  show (ExceptT.run (ExceptT.tryCatch x h)).run s = _
  unfold ExceptT.tryCatch
  simp only [ExceptT.run_mk, StateT.run_bind]
  change (StateT.run x s >>= _) = match StateT.run x s with
      | .ok (.ok a, s') => .ok (.ok a, s')
      | .ok (.error e, s') => StateT.run (h e) s'
      | .panic p => .panic p
  cases StateT.run x s with
  | panic p => rfl
  | ok r =>
    obtain ⟨r, s'⟩ := r
    cases r <;> rfl


theorem run'_ite {α} (c : Prop) [Decidable c] (x y : M α) (s : MState) :
    run' (if c then x else y) s = if c then run' x s else run' y s := by
  split <;> rfl

/-! ### weakest preconditions over `run'` -/

/-- `wp x Q S s`: running `x` from `s` either ends (normally or with a thrown error) in a result and
    state satisfying `Q`, or panics at a site in `S` -/
def wp {α} (x : M α) (Q : Except Err α → MState → Prop) (S : String → Prop) (s : MState) : Prop :=
  match run' x s with
  | .ok (r, s') => Q r s'
  | .panic site => S site

theorem wp_pure {α} (a : α) (Q : Except Err α → MState → Prop) (S) (s : MState) :
    wp (pure a : M α) Q S s ↔ Q (.ok a) s := Iff.rfl

theorem wp_bind {α β} (x : M α) (f : α → M β) (Q : Except Err β → MState → Prop) (S) (s : MState) :
    wp (x >>= f) Q S s ↔
      wp x (fun r s' => match r with
        | .ok a => wp (f a) Q S s'
        | .error e => Q (.error e) s') S s := by
  unfold wp
  rw [run'_bind]
  rcases run' x s with ⟨(e | a), u⟩ | p <;> exact Iff.rfl

theorem wp_getc (Q : Except Err Conv → MState → Prop) (S) (s : MState) :
    wp getc Q S s ↔ Q (.ok s.conv) s := Iff.rfl
theorem wp_modc (f : Conv → Conv) (Q : Except Err Unit → MState → Prop) (S) (s : MState) :
    wp (modc f) Q S s ↔ Q (.ok ()) { s with conv := f s.conv } := Iff.rfl
theorem wp_ev (e : String) (Q : Except Err Unit → MState → Prop) (S) (s : MState) :
    wp (ev e) Q S s ↔ Q (.ok ()) { s with events := s.events ++ [e] } := Iff.rfl
theorem wp_mism (e : String) (Q : Except Err Unit → MState → Prop) (S) (s : MState) :
    wp (mism e) Q S s ↔ Q (.ok ()) { s with mismatch := s.mismatch ++ [e] } := Iff.rfl
theorem wp_throw {α} (e : Err) (Q : Except Err α → MState → Prop) (S) (s : MState) :
    wp (throw e : M α) Q S s ↔ Q (.error e) s := Iff.rfl
theorem wp_goPanic {α} (site : String) (Q : Except Err α → MState → Prop) (S : String → Prop) (s : MState) :
    wp (goPanic site : M α) Q S s ↔ S site := Iff.rfl
theorem wp_get (Q : Except Err MState → MState → Prop) (S) (s : MState) :
    wp (get : M MState) Q S s ↔ Q (.ok s) s := Iff.rfl
theorem wp_set (t : MState) (Q : Except Err PUnit → MState → Prop) (S) (s : MState) :
    wp (set t : M PUnit) Q S s ↔ Q (.ok ⟨⟩) t := Iff.rfl
theorem wp_now (Q : Except Err Nat → MState → Prop) (S) (s : MState) :
    wp now Q S s ↔ Q (.ok s.env.now) s := Iff.rfl

theorem wp_ite {α} (c : Prop) [Decidable c] (x y : M α) (Q : Except Err α → MState → Prop) (S) (s : MState) :
    wp (if c then x else y) Q S s ↔ if c then wp x Q S s else wp y Q S s := by
  split <;> exact Iff.rfl

theorem wp_tryCatch {α} (x : M α) (h : Err → M α) (Q : Except Err α → MState → Prop) (S) (s : MState) :
    wp (tryCatch x h) Q S s ↔
      wp x (fun r s' => match r with
        | .ok a => Q (.ok a) s'
        | .error e => wp (h e) Q S s') S s := by
  unfold wp
  rw [run'_tryCatch]
  rcases run' x s with ⟨(e | a), u⟩ | p <;> exact Iff.rfl

theorem wp_mono {α} (x : M α) (Q Q' : Except Err α → MState → Prop) (S S' : String → Prop) (s : MState)
    (h : wp x Q S s) (hQ : ∀ r s', Q r s' → Q' r s') (hS : ∀ site, S site → S' site) : wp x Q' S' s := by
  unfold wp at h ⊢
  revert h
  rcases run' x s with ⟨r, u⟩ | p
  · exact hQ _ _
  · exact hS _

theorem wp_of_run {α} (x : M α) (Q : Except Err α → MState → Prop) (S) (s s' : MState) (r : Except Err α)
    (h : wp x Q S s) (hr : run' x s = .ok (r, s')) : Q r s' := by
  unfold wp at h; rw [hr] at h; exact h

theorem wp_of_panic {α} (x : M α) (Q : Except Err α → MState → Prop) (S : String → Prop) (s : MState) (site : String)
    (h : wp x Q S s) (hr : run' x s = .panic site) : S site := by
  unfold wp at h; rw [hr] at h; exact h

theorem msgEvent_7 : msgEvent evNotInPrivate = ev "msg:7" := rfl
theorem msgEvent_8 : msgEvent evUnreadable = ev "msg:8" := rfl
theorem msgEvent_9 : msgEvent evMalformed = ev "msg:9" := rfl
theorem msgEvent_10 : msgEvent evHeartbeatReceived = ev "msg:10" := rfl

/-! ### `processDataMessageRaw`: explicit decision structure -/

/-- the decrypted bytes of an accepted data message (`decrypt` ignores a counterEncipher failure) -/
def plainBytesOf (K : Crypto) (sk : SessionKeys) (dm : DataMsg) : Bytes :=
  (K.ctr sk.recvAES (dm.topHalfCtr ++ List.replicate 8 0) dm.encryptedMsg).getD dm.encryptedMsg

/-- state after the counter and the MAC-key history have been updated for an accepted message -/
def acceptState (s : MState) (dm : DataMsg) (sk : SessionKeys) : MState :=
  { s with conv := { s.conv with keys :=
      { s.conv.keys with
        counters := updateCounter (findCounter s.conv.keys.counters dm.recipientKeyID dm.senderKeyID).2
          { (findCounter s.conv.keys.counters dm.recipientKeyID dm.senderKeyID).1 with theirCounter := bytesToNat dm.topHalfCtr },
        macHistory := addMacKey s.conv.keys.macHistory dm.recipientKeyID dm.senderKeyID sk.recvMAC } } }

/-- what `processDataMessageRaw` does once a message has passed all five guards -/
def acceptCont (K : Crypto) (dm : DataMsg) (sk : SessionKeys) : M (Option Bytes × Option Bytes × Option Err) := do
  let plainBytes := match K.ctr sk.recvAES (dm.topHalfCtr ++ List.replicate 8 0) dm.encryptedMsg with
    | some d => d
    | none => dm.encryptedMsg
  let (p, _) := PlainDataMsg.deserialize plainBytes
  let plain ← if p.message.isEmpty then do msgEvent evHeartbeatReceived; pure none else pure (some p.message)
  tryCatch (do let ts ← processDataMessageTail K dm p.tlvs sk.extraKey; pure (plain, ts, none))
    (fun e => pure (plain, none, some e))

/-- the state after a rejected replay: only `findCounter`'s entry creation is visible -/
def replayState (s : MState) (dm : DataMsg) : MState :=
  { s with conv := { s.conv with keys :=
      { s.conv.keys with counters := (findCounter s.conv.keys.counters dm.recipientKeyID dm.senderKeyID).2 } } }

theorem raw_eq (K : Crypto) (header msg : Bytes) (s : MState) :
    run' (processDataMessageRaw K header msg) s =
      if s.conv.msgState ≠ .encrypted then
        .ok (.ok (none, none, some .notInPrivate), { s with events := s.events ++ ["msg:7"] })
      else match DataMsg.deserialize msg with
        | none => .ok (.ok (none, none, some (.other "dataMsg.deserialize")), s)
        | some dm =>
          match s.conv.keys.deriveSessionKeys K dm.recipientKeyID dm.senderKeyID with
          | .error e => .ok (.ok (none, none, some e), s)
          | .ok sk =>
            if K.mac1 sk.recvMAC (header ++ dm.unsignedRaw) ≠ dm.authenticator then
              .ok (.ok (none, none, some (.conflict "bad signature MAC in encrypted signature")), s)
            else if bytesToNat dm.topHalfCtr ≤
                (findCounter s.conv.keys.counters dm.recipientKeyID dm.senderKeyID).1.theirCounter then
              .ok (.ok (none, none, some (.conflict "counter regressed")), replayState s dm)
            else run' (acceptCont K dm sk) (acceptState s dm sk) := by
  unfold processDataMessageRaw
  simp only [run'_bind, run'_getc]
  by_cases h1 : s.conv.msgState ≠ .encrypted
  · rw [if_pos h1, if_pos h1]; rfl
  · rw [if_neg h1, if_neg h1]
    cases h2 : DataMsg.deserialize msg with
    | none => rfl
    | some dm =>
      simp only []
      cases h3 : s.conv.keys.deriveSessionKeys K dm.recipientKeyID dm.senderKeyID with
      | error e => rfl
      | ok sk =>
        simp only []
        by_cases h4 : K.mac1 sk.recvMAC (header ++ dm.unsignedRaw) ≠ dm.authenticator
        · rw [if_pos h4, if_pos h4]; rfl
        · rw [if_neg h4, if_neg h4]
          simp only [run'_bind, run'_modc]
          unfold Keys.checkMessageCounter
          by_cases h5 : bytesToNat dm.topHalfCtr ≤
                (findCounter s.conv.keys.counters dm.recipientKeyID dm.senderKeyID).1.theirCounter
          · simp only [h5, ↓reduceIte]; rfl
          · simp only [h5, ↓reduceIte, run'_bind, run'_modc]
            rfl

/-- the accepted continuation, in terms of the run of `processDataMessageTail` -/
theorem acceptCont_run (K : Crypto) (dm : DataMsg) (sk : SessionKeys) (t : MState) :
    run' (acceptCont K dm sk) t =
      match run' (processDataMessageTail K dm (PlainDataMsg.deserialize (plainBytesOf K sk dm)).1.tlvs sk.extraKey)
          (if (PlainDataMsg.deserialize (plainBytesOf K sk dm)).1.message.isEmpty
            then { t with events := t.events ++ ["msg:10"] } else t) with
      | .ok (.ok ts, u) =>
        .ok (.ok (if (PlainDataMsg.deserialize (plainBytesOf K sk dm)).1.message.isEmpty then none
                  else some (PlainDataMsg.deserialize (plainBytesOf K sk dm)).1.message, ts, none), u)
      | .ok (.error e, u) =>
        .ok (.ok (if (PlainDataMsg.deserialize (plainBytesOf K sk dm)).1.message.isEmpty then none
                  else some (PlainDataMsg.deserialize (plainBytesOf K sk dm)).1.message, none, some e), u)
      | .panic site => .panic site := by
  have hp : (match K.ctr sk.recvAES (dm.topHalfCtr ++ List.replicate 8 0) dm.encryptedMsg with
      | some d => d
      | none => dm.encryptedMsg) = plainBytesOf K sk dm := by
    unfold plainBytesOf; cases K.ctr sk.recvAES (dm.topHalfCtr ++ List.replicate 8 0) dm.encryptedMsg <;> rfl
  unfold acceptCont
  simp only [hp]
  by_cases hE : (PlainDataMsg.deserialize (plainBytesOf K sk dm)).1.message.isEmpty = true
  · simp only [hE, ↓reduceIte, run'_bind, msgEvent_10, run'_ev, run'_pure, run'_tryCatch]
    generalize run' (processDataMessageTail K dm _ sk.extraKey) _ = r
    rcases r with ⟨(e | a), u⟩ | p <;> rfl
  · simp only [hE, Bool.false_eq_true, ↓reduceIte, run'_bind, run'_pure, run'_tryCatch]
    generalize run' (processDataMessageTail K dm _ sk.extraKey) _ = r
    rcases r with ⟨(e | a), u⟩ | p <;> rfl

/-! ### A1/A2: the five rejection cases, with the exact final state (C02, C06) -/

theorem pickOurKeys_error_isConflict (k : Keys) (a : Nat) (e : Err)
    (h : k.pickOurKeys a = .error e) : e.isConflict = true := by
  unfold Keys.pickOurKeys at h
  repeat' split at h
  all_goals first
    | (injection h with h; subst h; rfl)
    | (injection h)

theorem pickTheirKey_error_isConflict (k : Keys) (a : Nat) (e : Err)
    (h : k.pickTheirKey a = .error e) : e.isConflict = true := by
  unfold Keys.pickTheirKey at h
  repeat' split at h
  all_goals first
    | (injection h with h; subst h; rfl)
    | (injection h)

/-- every error of `deriveSessionKeys` is a conflict error -/
theorem deriveSessionKeys_error_isConflict (K : Crypto) (k : Keys) (a b : Nat) (e : Err)
    (h : k.deriveSessionKeys K a b = .error e) : e.isConflict = true := by
  unfold Keys.deriveSessionKeys at h
  split at h
  · injection h with h; subst h
    exact pickOurKeys_error_isConflict _ _ _ (by assumption)
  · split at h
    · injection h with h; subst h
      exact pickTheirKey_error_isConflict _ _ _ (by assumption)
    · split at h
      · injection h
      · injection h with h; subst h; rfl

end ConvData

open ConvData

/-- not in an encrypted session: rejected with errMessageNotInPrivate; only the event `msg:7` is added -/
theorem c02_not_encrypted (K : Crypto) (header msg : Bytes) (s : MState)
    (h : s.conv.msgState ≠ .encrypted) :
    run' (processDataMessageRaw K header msg) s =
      .ok (.ok (none, none, some .notInPrivate), { s with events := s.events ++ ["msg:7"] }) := by
  rw [raw_eq, if_pos h]

/-- unparsable data message: rejected with a non-conflict error, state untouched -/
theorem c02_unparsable (K : Crypto) (header msg : Bytes) (s : MState)
    (h : s.conv.msgState = .encrypted) (hp : DataMsg.deserialize msg = none) :
    run' (processDataMessageRaw K header msg) s =
      .ok (.ok (none, none, some (.other "dataMsg.deserialize")), s) := by
  rw [raw_eq, if_neg (by simp [h]), hp]

/-- key ids outside the window (or a missing key): rejected with the conflict error of
    `deriveSessionKeys`, state untouched -/
theorem c02_bad_keys (K : Crypto) (header msg : Bytes) (s : MState) (dm : DataMsg) (e : Err)
    (h : s.conv.msgState = .encrypted) (hp : DataMsg.deserialize msg = some dm)
    (hk : s.conv.keys.deriveSessionKeys K dm.recipientKeyID dm.senderKeyID = .error e) :
    run' (processDataMessageRaw K header msg) s = .ok (.ok (none, none, some e), s) ∧ e.isConflict = true := by
  refine ⟨?_, deriveSessionKeys_error_isConflict K _ _ _ e hk⟩
  rw [raw_eq, if_neg (by simp [h]), hp]
  simp only [hk]

/-- MAC mismatch: rejected with a conflict error, state untouched -/
theorem c02_bad_mac (K : Crypto) (header msg : Bytes) (s : MState) (dm : DataMsg) (sk : SessionKeys)
    (h : s.conv.msgState = .encrypted) (hp : DataMsg.deserialize msg = some dm)
    (hk : s.conv.keys.deriveSessionKeys K dm.recipientKeyID dm.senderKeyID = .ok sk)
    (hm : K.mac1 sk.recvMAC (header ++ dm.unsignedRaw) ≠ dm.authenticator) :
    run' (processDataMessageRaw K header msg) s =
      .ok (.ok (none, none, some (.conflict "bad signature MAC in encrypted signature")), s) := by
  rw [raw_eq, if_neg (by simp [h]), hp]
  simp only [hk]
  rw [if_pos hm]

/-- counter not fresh (MAC verified, i.e. a replay of an authentic message): rejected with a conflict
    error; the only possible state change is the counter entry `findCounter` creates -/
theorem c02_replayed_counter (K : Crypto) (header msg : Bytes) (s : MState) (dm : DataMsg) (sk : SessionKeys)
    (h : s.conv.msgState = .encrypted) (hp : DataMsg.deserialize msg = some dm)
    (hk : s.conv.keys.deriveSessionKeys K dm.recipientKeyID dm.senderKeyID = .ok sk)
    (hm : K.mac1 sk.recvMAC (header ++ dm.unsignedRaw) = dm.authenticator)
    (hc : bytesToNat dm.topHalfCtr ≤
        (findCounter s.conv.keys.counters dm.recipientKeyID dm.senderKeyID).1.theirCounter) :
    run' (processDataMessageRaw K header msg) s =
      .ok (.ok (none, none, some (.conflict "counter regressed")), replayState s dm) := by
  rw [raw_eq, if_neg (by simp [h]), hp]
  simp only [hk]
  rw [if_neg (by simp [hm]), if_pos hc]

/-- `replayState` differs from the start state at most in `conv.keys.counters`, which gains at most the
    zero entry for the message's key-id pair -/
theorem replayState_frame (s : MState) (dm : DataMsg) :
    (replayState s dm).env = s.env ∧ (replayState s dm).events = s.events ∧
    (replayState s dm).mismatch = s.mismatch ∧
    (replayState s dm).conv = { s.conv with keys := { s.conv.keys with counters := (replayState s dm).conv.keys.counters } } ∧
    ((replayState s dm).conv.keys.counters = s.conv.keys.counters ∨
     (replayState s dm).conv.keys.counters = s.conv.keys.counters ++ [⟨dm.recipientKeyID, dm.senderKeyID, 0, 0⟩]) := by
  refine ⟨rfl, rfl, rfl, rfl, ?_⟩
  unfold replayState findCounter
  split
  · left; rfl
  · right; rfl

/-- when the pair already has a counter entry a rejected replay changes nothing at all -/
theorem replayState_eq_self (s : MState) (dm : DataMsg) (c : Counter)
    (h : s.conv.keys.counters.find? (fun c => c.ourKeyID == dm.recipientKeyID && c.theirKeyID == dm.senderKeyID) = some c) :
    replayState s dm = s := by
  unfold replayState findCounter
  rw [h]

/-- a rejected replay with a positive counter always finds the entry, hence changes nothing:
    `theirCounter ≥ ctr > 0` cannot come from the freshly created zero entry.
    (`DataMsg.deserialize` only returns messages with `bytesToNat topHalfCtr ≠ 0`.) -/
theorem replayState_eq_self_of_regressed (s : MState) (dm : DataMsg)
    (hnz : bytesToNat dm.topHalfCtr ≠ 0)
    (hc : bytesToNat dm.topHalfCtr ≤
        (findCounter s.conv.keys.counters dm.recipientKeyID dm.senderKeyID).1.theirCounter) :
    replayState s dm = s := by
  unfold replayState
  unfold findCounter at hc ⊢
  split
  · rfl
  · rename_i hf
    rw [hf] at hc
    simp at hc
    omega

namespace ConvData

/-- the five guards of `processDataMessageRaw`, all passed -/
def Accepts (K : Crypto) (header msg : Bytes) (s : MState) (dm : DataMsg) (sk : SessionKeys) : Prop :=
  s.conv.msgState = .encrypted ∧
  DataMsg.deserialize msg = some dm ∧
  s.conv.keys.deriveSessionKeys K dm.recipientKeyID dm.senderKeyID = .ok sk ∧
  K.mac1 sk.recvMAC (header ++ dm.unsignedRaw) = dm.authenticator ∧
  (findCounter s.conv.keys.counters dm.recipientKeyID dm.senderKeyID).1.theirCounter < bytesToNat dm.topHalfCtr

/-- events produced by TLV processing: SMP events, extra-symmetric-key events, security events -/
def tlvEvent (e : String) : Prop :=
  e.toList.take 4 = "smp:".toList ∨ e.toList.take 4 = "key:".toList ∨ e.toList.take 4 = "sec:".toList

/-- a message that passes the guards runs the accepted continuation from `acceptState` -/
theorem raw_of_accepts (K : Crypto) (header msg : Bytes) (s : MState) (dm : DataMsg) (sk : SessionKeys)
    (h : Accepts K header msg s dm sk) :
    run' (processDataMessageRaw K header msg) s = run' (acceptCont K dm sk) (acceptState s dm sk) := by
  obtain ⟨h1, h2, h3, h4, h5⟩ := h
  rw [raw_eq, if_neg (by simp [h1]), h2]
  simp only [h3]
  rw [if_neg (by simp [h4]), if_neg (by omega)]

/-- a message that fails a guard is rejected: `(none, none, some e)`, and the final state is the start
    state up to the `msg:7` event and the counter entry created by `findCounter` -/
theorem raw_of_not_accepts (K : Crypto) (header msg : Bytes) (s : MState)
    (h : ¬ ∃ dm sk, Accepts K header msg s dm sk) :
    ∃ e t, run' (processDataMessageRaw K header msg) s = .ok (.ok (none, none, some e), t) ∧
      t.env = s.env ∧ t.mismatch = s.mismatch ∧
      (t.events = s.events ∨ t.events = s.events ++ ["msg:7"]) ∧
      (t.conv = s.conv ∨ ∃ dm, DataMsg.deserialize msg = some dm ∧ t = replayState s dm) := by
  rw [raw_eq]
  by_cases h1 : s.conv.msgState ≠ .encrypted
  · rw [if_pos h1]
    exact ⟨_, _, rfl, rfl, rfl, Or.inr rfl, Or.inl rfl⟩
  · rw [if_neg h1]
    cases h2 : DataMsg.deserialize msg with
    | none => exact ⟨_, _, rfl, rfl, rfl, Or.inl rfl, Or.inl rfl⟩
    | some dm =>
      simp only []
      cases h3 : s.conv.keys.deriveSessionKeys K dm.recipientKeyID dm.senderKeyID with
      | error e => exact ⟨_, _, rfl, rfl, rfl, Or.inl rfl, Or.inl rfl⟩
      | ok sk =>
        simp only []
        by_cases h4 : K.mac1 sk.recvMAC (header ++ dm.unsignedRaw) ≠ dm.authenticator
        · simp only [if_pos h4]
          exact ⟨_, _, rfl, rfl, rfl, Or.inl rfl, Or.inl rfl⟩
        · simp only [if_neg h4]
          by_cases h5 : bytesToNat dm.topHalfCtr ≤
                (findCounter s.conv.keys.counters dm.recipientKeyID dm.senderKeyID).1.theirCounter
          · rw [if_pos h5]
            exact ⟨_, _, rfl, rfl, rfl, Or.inl rfl, Or.inr ⟨dm, rfl, rfl⟩⟩
          · exfalso
            exact h ⟨dm, sk, by simpa using h1, h2, h3, by simpa using h4, by omega⟩

/-- the plaintext delivered by the accepted continuation is `none` (heartbeat) or the NUL-terminated
    prefix of the decryption -/
theorem acceptCont_plain (K : Crypto) (dm : DataMsg) (sk : SessionKeys) (t t' : MState)
    (plain toSend : Option Bytes) (err : Option Err)
    (h : run' (acceptCont K dm sk) t = .ok (.ok (plain, toSend, err), t')) :
    plain = none ∨ plain = some ((plainBytesOf K sk dm).takeWhile (· != 0)) := by
  rw [acceptCont_run] at h
  have hm : (PlainDataMsg.deserialize (plainBytesOf K sk dm)).1.message = (plainBytesOf K sk dm).takeWhile (· != 0) := rfl
  split at h
  · injection h with h; injection h with h1 h2; injection h1 with h1; injection h1 with h1
    rw [← h1]; split
    · left; rfl
    · right; rw [hm]
  · injection h with h; injection h with h1 h2; injection h1 with h1; injection h1 with h1
    rw [← h1]; split
    · left; rfl
    · right; rw [hm]
  · injection h

end ConvData
open ConvData

/-- **C02 guard.**  If `processDataMessageRaw` delivers a plaintext, or produces a reply, or any TLV
    was processed (SMP state, message state changed, or an SMP/extra-key/security event was emitted),
    then the message passed all five guards — encrypted session, well-formed message, key ids in the
    window, MAC over `header ++ unsignedRaw` equal to the authenticator under the receiving MAC key,
    fresh counter — and the delivered plaintext is the NUL-terminated prefix of the decryption. -/
theorem c02_guard (K : Crypto) (header msg : Bytes) (s s' : MState)
    (plain toSend : Option Bytes) (err : Option Err)
    (hrun : run' (processDataMessageRaw K header msg) s = .ok (.ok (plain, toSend, err), s'))
    (hacc : plain ≠ none ∨ toSend ≠ none ∨ s'.conv.smp ≠ s.conv.smp ∨ s'.conv.msgState ≠ s.conv.msgState ∨
      ∃ e ∈ s'.events.drop s.events.length, tlvEvent e) :
    ∃ dm sk,
      s.conv.msgState = .encrypted ∧
      DataMsg.deserialize msg = some dm ∧
      s.conv.keys.deriveSessionKeys K dm.recipientKeyID dm.senderKeyID = .ok sk ∧
      K.mac1 sk.recvMAC (header ++ dm.unsignedRaw) = dm.authenticator ∧
      (findCounter s.conv.keys.counters dm.recipientKeyID dm.senderKeyID).1.theirCounter < bytesToNat dm.topHalfCtr ∧
      (plain = none ∨ plain = some
        (((K.ctr sk.recvAES (dm.topHalfCtr ++ List.replicate 8 0) dm.encryptedMsg).getD dm.encryptedMsg).takeWhile (· != 0))) := by
  by_cases hA : ∃ dm sk, Accepts K header msg s dm sk
  · obtain ⟨dm, sk, hA⟩ := hA
    refine ⟨dm, sk, hA.1, hA.2.1, hA.2.2.1, hA.2.2.2.1, hA.2.2.2.2, ?_⟩
    rw [raw_of_accepts K header msg s dm sk hA] at hrun
    exact acceptCont_plain K dm sk _ _ _ _ _ hrun
  · exfalso
    obtain ⟨e, t, hr, _, _, hev, hc⟩ := raw_of_not_accepts K header msg s hA
    rw [hr] at hrun
    injection hrun with hrun; injection hrun with h1 h2; injection h1 with h1
    injection h1 with hp h1; injection h1 with hts _
    subst h2
    have hsmp : t.conv.smp = s.conv.smp ∧ t.conv.msgState = s.conv.msgState := by
      rcases hc with hc | ⟨dm, _, hc⟩
      · rw [hc]; exact ⟨rfl, rfl⟩
      · rw [hc]; exact ⟨rfl, rfl⟩
    rcases hacc with h | h | h | h | ⟨e', he', hte⟩
    · exact h hp.symm
    · exact h hts.symm
    · exact h hsmp.1
    · exact h hsmp.2
    · rcases hev with hev | hev
      · rw [hev] at he'; simp at he'
      · rw [hev] at he'; simp at he'
        subst he'
        revert hte; unfold tlvEvent; decide

namespace ConvData
/-! ### A3: lifting to `receiveDataMessage` -/

/-- the event and (when an error-message handler is installed) the injected `?OTR Error:` reply -/
def withErrorReply (evn code : String) (s : MState) : MState :=
  { s with
    events := s.events ++ [evn],
    conv := if s.conv.errHandler then
        { s.conv with injections := s.conv.injections ++ [errorMarker ++ [32] ++ strBytes code] }
      else s.conv }

/-- state after `notifyDataMessageError e` -/
def notifyState (e : Err) (s : MState) : MState :=
  if e = .notInPrivate then s
  else if e.isConflict then withErrorReply "msg:8" "E1" s
  else withErrorReply "msg:9" "E2" s

theorem run'_genErr (code : Nat) (s : MState) :
    run' (generatePotentialErrorMessage code) s =
      .ok (.ok (), { s with conv := if s.conv.errHandler then
        { s.conv with injections := s.conv.injections ++ [errorMarker ++ [32] ++ strBytes s!"E{code}"] }
        else s.conv }) := by
  unfold generatePotentialErrorMessage
  simp only [run'_bind, run'_getc]
  by_cases h : s.conv.errHandler = true
  · simp only [h, ↓reduceIte, run'_modc]
  · simp only [h, Bool.false_eq_true, ↓reduceIte, run'_pure]

theorem run'_notify (e : Err) (s : MState) :
    run' (notifyDataMessageError e) s = .ok (.ok (), notifyState e s) := by
  unfold notifyDataMessageError notifyState
  by_cases h1 : e = .notInPrivate
  · subst h1; rfl
  · have h1' : (e == Err.notInPrivate) = false := by simpa using h1
    simp only [h1', Bool.false_eq_true, ↓reduceIte, h1]
    by_cases h2 : e.isConflict = true
    · simp only [h2, ↓reduceIte, run'_bind, msgEvent_8, run'_ev, run'_genErr]
      rfl
    · simp only [h2, Bool.false_eq_true, ↓reduceIte, run'_bind, msgEvent_9, run'_ev, run'_genErr]
      rfl

theorem run'_potentialHeartbeat_none (K : Crypto) (s : MState) :
    run' (potentialHeartbeat K none) s = .ok (.ok none, s) := by
  unfold potentialHeartbeat
  rfl

/-- IGNORE_UNREADABLE as `receiveDataMessage` reads it off the first body byte -/
def ignoreUnreadable (body : Bytes) : Bool :=
  match body with
  | [] => false
  | f :: _ => f.toNat &&& 1 == 1

theorem ignoreUnreadable_iff (body : Bytes) :
    ignoreUnreadable body = true ↔ body.head?.map (·.toNat &&& 1) = some 1 := by
  cases body with
  | nil => simp [ignoreUnreadable]
  | cons f r => simp [ignoreUnreadable]

/-- whatever `processDataMessageRaw` rejects, `receiveDataMessage` rejects: nothing is delivered, nothing
    is sent; the error is reported (and notified) unless the sender set IGNORE_UNREADABLE -/
theorem recvData_of_raw_reject (K : Crypto) (header body : Bytes) (s t : MState) (e : Err)
    (h : run' (processDataMessageRaw K header body) s = .ok (.ok (none, none, some e), t)) :
    run' (receiveDataMessage K header body) s =
      if ignoreUnreadable body then .ok (.ok (none, [], none), t)
      else .ok (.ok (none, [], some e), notifyState e t) := by
  unfold receiveDataMessage
  simp only [run'_bind, h]
  change run' (match (if ignoreUnreadable body = true then none else some e) with
    | some e => _
    | none => _) t = _
  by_cases hf : ignoreUnreadable body = true
  · simp only [hf, ↓reduceIte, run'_bind, run'_tryCatch, run'_potentialHeartbeat_none, run'_pure]
    rfl
  · simp only [hf, Bool.false_eq_true, ↓reduceIte, run'_bind, run'_notify, run'_pure]

theorem notifyState_conflict (e : Err) (s : MState) (h : e.isConflict = true) :
    notifyState e s = withErrorReply "msg:8" "E1" s := by
  unfold notifyState
  have : e ≠ .notInPrivate := by intro h'; subst h'; simp [Err.isConflict] at h
  simp only [this, h, ↓reduceIte]

end ConvData
open ConvData

/-- `receiveDataMessage` outside an encrypted session: error `notInPrivate` (suppressed by
    IGNORE_UNREADABLE), event `msg:7` only, no notification, no reply, conversation untouched -/
theorem c06_recv_not_encrypted (K : Crypto) (header body : Bytes) (s : MState)
    (h : s.conv.msgState ≠ .encrypted) :
    run' (receiveDataMessage K header body) s =
      .ok (.ok (none, [], if ignoreUnreadable body then none else some .notInPrivate),
        { s with events := s.events ++ ["msg:7"] }) := by
  rw [recvData_of_raw_reject K header body s _ _ (c02_not_encrypted K header body s h)]
  split <;> rfl

/-- unparsable data message: `msg:9` (malformed) and the `E2` error reply; with IGNORE_UNREADABLE nothing at all -/
theorem c06_recv_unparsable (K : Crypto) (header body : Bytes) (s : MState)
    (h : s.conv.msgState = .encrypted) (hp : DataMsg.deserialize body = none) :
    run' (receiveDataMessage K header body) s =
      if ignoreUnreadable body then .ok (.ok (none, [], none), s)
      else .ok (.ok (none, [], some (.other "dataMsg.deserialize")), withErrorReply "msg:9" "E2" s) := by
  rw [recvData_of_raw_reject K header body s _ _ (c02_unparsable K header body s h hp)]
  rfl

/-- key ids outside the window: `msg:8` (unreadable) and the `E1` error reply; with IGNORE_UNREADABLE nothing -/
theorem c06_recv_bad_keys (K : Crypto) (header body : Bytes) (s : MState) (dm : DataMsg) (e : Err)
    (h : s.conv.msgState = .encrypted) (hp : DataMsg.deserialize body = some dm)
    (hk : s.conv.keys.deriveSessionKeys K dm.recipientKeyID dm.senderKeyID = .error e) :
    run' (receiveDataMessage K header body) s =
      if ignoreUnreadable body then .ok (.ok (none, [], none), s)
      else .ok (.ok (none, [], some e), withErrorReply "msg:8" "E1" s) := by
  obtain ⟨hr, hc⟩ := c02_bad_keys K header body s dm e h hp hk
  rw [recvData_of_raw_reject K header body s _ _ hr, notifyState_conflict e s hc]

/-- MAC mismatch: `msg:8` (unreadable) and the `E1` error reply; with IGNORE_UNREADABLE nothing -/
theorem c06_recv_bad_mac (K : Crypto) (header body : Bytes) (s : MState) (dm : DataMsg) (sk : SessionKeys)
    (h : s.conv.msgState = .encrypted) (hp : DataMsg.deserialize body = some dm)
    (hk : s.conv.keys.deriveSessionKeys K dm.recipientKeyID dm.senderKeyID = .ok sk)
    (hm : K.mac1 sk.recvMAC (header ++ dm.unsignedRaw) ≠ dm.authenticator) :
    run' (receiveDataMessage K header body) s =
      if ignoreUnreadable body then .ok (.ok (none, [], none), s)
      else .ok (.ok (none, [], some (.conflict "bad signature MAC in encrypted signature")),
        withErrorReply "msg:8" "E1" s) := by
  rw [recvData_of_raw_reject K header body s _ _ (c02_bad_mac K header body s dm sk h hp hk hm)]
  rfl

/-- replayed counter: as for a MAC mismatch, from `replayState s dm` (which is `s` itself:
    `replayState_eq_self_of_regressed`) -/
theorem c06_recv_replayed_counter (K : Crypto) (header body : Bytes) (s : MState) (dm : DataMsg) (sk : SessionKeys)
    (h : s.conv.msgState = .encrypted) (hp : DataMsg.deserialize body = some dm)
    (hk : s.conv.keys.deriveSessionKeys K dm.recipientKeyID dm.senderKeyID = .ok sk)
    (hm : K.mac1 sk.recvMAC (header ++ dm.unsignedRaw) = dm.authenticator)
    (hc : bytesToNat dm.topHalfCtr ≤
        (findCounter s.conv.keys.counters dm.recipientKeyID dm.senderKeyID).1.theirCounter) :
    run' (receiveDataMessage K header body) s =
      if ignoreUnreadable body then .ok (.ok (none, [], none), replayState s dm)
      else .ok (.ok (none, [], some (.conflict "counter regressed")),
        withErrorReply "msg:8" "E1" (replayState s dm)) := by
  rw [recvData_of_raw_reject K header body s _ _ (c02_replayed_counter K header body s dm sk h hp hk hm hc)]
  rfl

/-- what `withErrorReply` changes: one event, and one injected error reply iff a handler is installed -/
theorem withErrorReply_spec (evn code : String) (s : MState) :
    (withErrorReply evn code s).env = s.env ∧
    (withErrorReply evn code s).mismatch = s.mismatch ∧
    (withErrorReply evn code s).events = s.events ++ [evn] ∧
    (s.conv.errHandler = false → (withErrorReply evn code s).conv = s.conv) ∧
    (s.conv.errHandler = true → (withErrorReply evn code s).conv =
      { s.conv with injections := s.conv.injections ++ [errorMarker ++ [32] ++ strBytes code] }) := by
  refine ⟨rfl, rfl, rfl, ?_, ?_⟩ <;> intro h <;> simp [withErrorReply, h]

/-! ### B6: allocation bound of `ExtractMPIs`; TLV lengths -/

/-- the `make([]*big.Int, count)` request of ExtractMPIs is at most a quarter of the input length -/
theorem extractMPIsAlloc_le (d : Bytes) : extractMPIsAlloc d ≤ d.length / 4 := by
  unfold extractMPIsAlloc
  split
  · exact Nat.zero_le _
  · rename_i count rest h
    split
    · exact Nat.zero_le _
    · rename_i hc
      have hl : rest.length ≤ d.length := by
        unfold extractWord at h
        split at h
        · injection h with h; injection h with _ h; subst h; simp; omega
        · injection h
      have := Nat.div_le_div_right (c := 4) hl
      omega

/-- when ExtractMPIs succeeds it returns exactly the number of values it allocated room for -/
theorem extractMPIsN_length (n : Nat) (d : Bytes) (vs : List Nat) (r : Bytes)
    (h : extractMPIsN n d = some (vs, r)) : vs.length = n := by
  induction n generalizing d vs r with
  | zero => unfold extractMPIsN at h; injection h with h; injection h with h _; subst h; rfl
  | succ n ih =>
    unfold extractMPIsN at h
    split at h
    · injection h
    · split at h
      · injection h
      · rename_i h2
        injection h with h; injection h with h _; subst h
        simp [ih _ _ _ h2]

theorem extractMPIs_length (d : Bytes) (vs : List Nat) (r : Bytes)
    (h : extractMPIs d = some (vs, r)) : vs.length = extractMPIsAlloc d ∧ vs.length ≤ d.length / 4 := by
  have hb := extractMPIsAlloc_le d
  unfold extractMPIs at h
  unfold extractMPIsAlloc at hb ⊢
  split at h
  · injection h
  · rename_i count rest hw
    simp only [hw] at hb ⊢
    split at h
    · injection h
    · rename_i hc
      rw [if_neg hc] at hb ⊢
      have := extractMPIsN_length _ _ _ _ h
      omega

/-- `Tlv.deserialize` only returns TLVs whose value has exactly the announced length -/
theorem tlv_deserialize_length (b : Bytes) (t : Tlv) (h : Tlv.deserialize b = some t) :
    t.value.length = t.len := by
  unfold Tlv.deserialize at h
  split at h
  · injection h
  · split at h
    · injection h
    · split at h
      · injection h
      · injection h with h; subst h
        simp only [List.length_take]; omega

theorem parseTlvs_length (fuel : Nat) (b : Bytes) :
    ∀ t ∈ (parseTlvs fuel b).1, t.value.length = t.len := by
  induction fuel generalizing b with
  | zero => intro t ht; simp [parseTlvs] at ht
  | succ n ih =>
    intro t ht
    unfold parseTlvs at ht
    split at ht
    · simp at ht
    · split at ht
      · simp at ht
      · rename_i t0 h0
        simp only [List.mem_cons] at ht
        rcases ht with ht | ht
        · subst ht; exact tlv_deserialize_length _ _ h0
        · exact ih _ t ht

/-- every TLV handed to `processTLVs` by `processDataMessageRaw` has `value.length = len`
    (so the slice `tlvValue[:tlvLength]` in processExtraSymmetricKeyTLV is always in range) -/
theorem plainDataMsg_tlvs_length (b : Bytes) :
    ∀ t ∈ (PlainDataMsg.deserialize b).1.tlvs, t.value.length = t.len := by
  unfold PlainDataMsg.deserialize
  exact parseTlvs_length _ _

namespace ConvData

/-! ### randomness reads: total, touch only `env` and `mismatch` -/

theorem run'_mism (e : String) (s : MState) :
    run' (mism e) s = .ok (.ok (), { s with mismatch := s.mismatch ++ [e] }) := rfl

theorem randReadAux_spec (fuel n : Nat) (acc : Bytes) (s : MState) :
    ∃ v s', run' (randReadAux fuel n acc) s = .ok (.ok v, s') ∧ s'.conv = s.conv ∧ s'.events = s.events := by
  induction fuel generalizing acc s with
  | zero => exact ⟨_, _, rfl, rfl, rfl⟩
  | succ k ih =>
    unfold randReadAux
    simp only [run'_bind, run'_ite, run'_pure, run'_get]
    split
    · exact ⟨_, _, rfl, rfl, rfl⟩
    · split
      · exact ⟨_, _, rfl, rfl, rfl⟩
      · exact ⟨_, _, rfl, rfl, rfl⟩
      · simp only [run'_bind, run'_set, run'_ite, run'_mism, run'_pure]
        split
        · exact ⟨_, _, rfl, rfl, rfl⟩
        · split
          · exact ⟨_, _, rfl, rfl, rfl⟩
          · obtain ⟨v, s', h, hc, he⟩ := ih (acc ++ _) { s with env := { s.env with rand := _ } }
            exact ⟨v, s', h, hc, he⟩

theorem randRead_spec (n : Nat) (s : MState) :
    ∃ v s', run' (randRead n) s = .ok (.ok v, s') ∧ s'.conv = s.conv ∧ s'.events = s.events := by
  unfold randRead
  split
  · exact ⟨_, _, rfl, rfl, rfl⟩
  · exact randReadAux_spec _ _ _ _

/-- `randRead` never panics or throws and touches only `env.rand` and `mismatch` -/
theorem wp_randRead (n : Nat) (Q : Except Err (Option Bytes) → MState → Prop) (S) (s : MState)
    (h : ∀ v s', s'.conv = s.conv → s'.events = s.events → Q (.ok v) s') : wp (randRead n) Q S s := by
  obtain ⟨v, s', hr, hc, he⟩ := randRead_spec n s
  unfold wp; rw [hr]; exact h v s' hc he

theorem wp_randMPIs (k len : Nat) (Q : Except Err (List (Option Nat)) → MState → Prop) (S) (s : MState)
    (h : ∀ v s', s'.conv = s.conv → s'.events = s.events → Q (.ok v) s') : wp (randMPIs k len) Q S s := by
  induction k generalizing s Q with
  | zero => exact h _ _ rfl rfl
  | succ k ih =>
    unfold randMPIs
    rw [wp_bind]
    apply wp_randRead
    intro v s1 hc1 he1
    simp only [wp_bind]
    apply ih
    intro vs s2 hc2 he2
    simp only [wp_pure]
    exact h _ _ (hc2.trans hc1) (he2.trans he1)

/-- sequencing through an intermediate assertion -/
theorem wp_bind_cut {α β} (x : M α) (f : α → M β) (P : MState → Prop)
    (Q : Except Err β → MState → Prop) (S) (s : MState)
    (hx : wp x (fun _ s' => P s') S s)
    (hf : ∀ a s', P s' → wp (f a) Q S s')
    (he : ∀ e s', P s' → Q (.error e) s') : wp (x >>= f) Q S s := by
  rw [wp_bind]
  refine wp_mono _ _ _ _ _ _ hx ?_ (fun _ h => h)
  intro r s' hP
  cases r with
  | ok a => exact hf a s' hP
  | error e => exact he e s' hP

/-! ### SMP TLV processing: frame and panic sites -/

/-- `processSMPTLV` after the state has been ensured and read: the dispatch on the TLV type -/
def smpBody (K : Crypto) (t : Tlv) (st : SmpState) (isGE : Nat → Bool) : M (Option Tlv) := do
  if t.typ = tlvTypeSMPAbort then do
    setSmpState .expect1
    smpEvent smpAbort 0
    return none
  else if t.typ = tlvTypeSMP1 ∨ t.typ = tlvTypeSMP1WithQuestion then
    match (if t.typ = tlvTypeSMP1 then toSmp1 t.value else toSmp1Q t.value) with
    | none => throw (.other "corrupt data message")
    | some m =>
      match st with
      | .expect1 =>
        if !smp1Verify K isGE m then smpAbortWith smpCheated
        else do
          if m.hasQuestion then do
            modc fun c => { c with smp := { c.smp with question := some m.question } }
            smpEventQ smpAskForAnswer 25 m.question
          else smpEvent smpAskForSecret 25
          setSmpState (.waitingForSecret m)
          return none
      | _ => smpAbortWith smpError
  else if t.typ = tlvTypeSMP2 then
    match toSmp2 t.value with
    | none => throw (.other "corrupt data message")
    | some m =>
      match st with
      | .expect2 =>
        let c ← getc
        match c.smp.s1 with
        | none => goPanic "receiveMessage2: nil smp.s1"
        | some s1 =>
          if !smp2Verify K isGE s1 m then smpAbortWith smpCheated
          else do
            let len ← paramLen
            match allSome (← randMPIs 4 len) with
            | some [r4, r5, r6, r7] =>
              let x ← optNat "generateSMP3: nil secret" c.smp.secret
              match smp3Gen K x s1 m r4 r5 r6 r7 with
              | .panic s => goPanic s
              | .ok s3 =>
                smpEvent smpInProgress 60
                modc fun c => { c with smp := { c.smp with s3 := some s3 } }
                setSmpState .expect4
                return some s3.msg.tlv
            | _ => smpAbortWith smpCheated
      | _ => smpAbortWith smpError
  else if t.typ = tlvTypeSMP3 then
    match toSmp3 t.value with
    | none => throw (.other "corrupt data message")
    | some m =>
      match st with
      | .expect3 =>
        let c ← getc
        match c.smp.s2 with
        | none => goPanic "receiveMessage3: nil smp.s2"
        | some s2 =>
          match smp3Verify K isGE s2 m with
          | .panic s => goPanic s
          | .ok false => smpAbortWith smpCheated
          | .ok true =>
            match smp3Success K s2 m with
            | .panic s => goPanic s
            | .ok false => do
              smpEvent smpFailure 100
              setSmpState .expect1
              return some smpAbortTlv
            | .ok true => do
              smpEvent smpSuccess 100
              let len ← paramLen
              match ← randRead len with
              | none => smpAbortWith smpCheated
              | some r7 =>
                match smp4Gen K s2 m (bytesToNat r7) with
                | .panic s => goPanic s
                | .ok m4 =>
                  smpWipe
                  setSmpState .expect1
                  return some m4.tlv
      | _ => smpAbortWith smpError
  else if t.typ = tlvTypeSMP4 then
    match toSmp4 t.value with
    | none => throw (.other "corrupt data message")
    | some m =>
      match st with
      | .expect4 =>
        let c ← getc
        match c.smp.s1, c.smp.s3 with
        | some s1, some s3 =>
          if !smp4Verify K isGE s3 m then smpAbortWith smpCheated
          else if !smp4Success K s1 s3 m then do
            smpEvent smpFailure 100
            setSmpState .expect1
            return some smpAbortTlv
          else do
            smpEvent smpSuccess 100
            smpWipe
            setSmpState .expect1
            return none
        | _, _ => goPanic "receiveMessage4: nil smp.s1/s3"
      | _ => smpAbortWith smpError
  else throw (.other "corrupt data message")

theorem processSMPTLV_eq (K : Crypto) (t : Tlv) :
    processSMPTLV K t = (do
      let c ← getc
      if c.smp.state.isNone then setSmpState .expect1
      let st := ((← getc).smp.state).getD .expect1
      let isGE ← smpIsGroupElement
      smpBody K t st isGE) := rfl

def SmpFrame (c c' : Conv) : Prop := c' = { c with smp := c'.smp }
theorem SmpFrame.refl (c : Conv) : SmpFrame c c := rfl
theorem SmpFrame.trans {a b c : Conv} (h1 : SmpFrame a b) (h2 : SmpFrame b c) : SmpFrame a c := by
  unfold SmpFrame at *; rw [h2, h1]

def smpStateSites : List String :=
  ["receiveMessage2: nil smp.s1", "generateSMP3: nil secret", "receiveMessage3: nil smp.s2",
   "receiveMessage4: nil smp.s1/s3", "divMod: ModInverse returned nil"]
def nilVersionSites : List String := ["parameterLength: nil version", "isGroupElement: nil version"]

def smpSites (v : Option Version) (site : String) : Prop :=
  site ∈ smpStateSites ∨ (v = none ∧ site ∈ nilVersionSites)

theorem divModP_panic (K : Crypto) (l r : Nat) (site : String) (h : divModP K l r = .panic site) :
    site = "divMod: ModInverse returned nil" := by
  unfold divModP at h; split at h
  · injection h
  · injection h with h; exact h.symm

theorem res_bind_panic {α β} (x : Res α) (f : α → Res β) (site : String) (h : (x >>= f) = .panic site) :
    x = .panic site ∨ ∃ a, x = .ok a ∧ f a = .panic site := by
  cases x with
  | ok a => right; exact ⟨a, rfl, h⟩
  | panic p => left; simpa using h

theorem smp3Gen_panic (K : Crypto) (x : Nat) (s1 : Smp1State) (m2 : Smp2Msg) (r4 r5 r6 r7 : Nat) (site : String)
    (h : smp3Gen K x s1 m2 r4 r5 r6 r7 = .panic site) : site = "divMod: ModInverse returned nil" := by
  unfold smp3Gen at h
  rcases res_bind_panic _ _ _ h with h | ⟨a, _, h⟩
  · exact divModP_panic _ _ _ _ h
  · rcases res_bind_panic _ _ _ h with h | ⟨b, _, h⟩
    · exact divModP_panic _ _ _ _ h
    · injection h

theorem smp3Verify_panic (K : Crypto) (isGE : Nat → Bool) (s2 : Smp2State) (m : Smp3Msg) (site : String)
    (h : smp3Verify K isGE s2 m = .panic site) : site = "divMod: ModInverse returned nil" := by
  unfold smp3Verify at h
  split at h
  · injection h
  · split at h
    · injection h
    · split at h
      · injection h
      · rcases res_bind_panic _ _ _ h with h | ⟨a, _, h⟩
        · exact divModP_panic _ _ _ _ h
        · injection h

theorem smp3Success_panic (K : Crypto) (s2 : Smp2State) (m : Smp3Msg) (site : String)
    (h : smp3Success K s2 m = .panic site) : site = "divMod: ModInverse returned nil" := by
  unfold smp3Success at h
  rcases res_bind_panic _ _ _ h with h | ⟨a, _, h⟩
  · exact divModP_panic _ _ _ _ h
  · injection h

theorem smp4Gen_panic (K : Crypto) (s2 : Smp2State) (m3 : Smp3Msg) (r7 : Nat) (site : String)
    (h : smp4Gen K s2 m3 r7 = .panic site) : site = "divMod: ModInverse returned nil" := by
  unfold smp4Gen at h
  rcases res_bind_panic _ _ _ h with h | ⟨a, _, h⟩
  · exact divModP_panic _ _ _ _ h
  · injection h

theorem wp_ite' {α} (c : Prop) [Decidable c] (x y : M α) (Q : Except Err α → MState → Prop) (S) (s : MState) :
    wp (if c then x else y) Q S s ↔ (c → wp x Q S s) ∧ (¬ c → wp y Q S s) := by
  split <;> simp [*]

theorem smpBody_frame (K : Crypto) (t : Tlv) (st : SmpState) (isGE : Nat → Bool) (s : MState) :
    wp (smpBody K t st isGE) (fun _ s' => SmpFrame s.conv s'.conv) (smpSites s.conv.version) s := by
  unfold smpBody
  simp only [setSmpState, smpEvent, smpEventQ, smpWipe, smpAbortWith, optNat, paramLen]
  repeat' (first
    | simp only [wp_bind, wp_getc, wp_modc, wp_ite', wp_pure, wp_throw, wp_ev, wp_goPanic]
    | refine ⟨fun _ => ?_, fun _ => ?_⟩
    | (apply wp_randMPIs; intro _ _ hc _)
    | (apply wp_randRead; intro _ _ hc _)
    | split)
  all_goals first
    | exact SmpFrame.refl _
    | rfl
    | (right; refine ⟨?_, by decide⟩; simp_all; done)
    | (left; decide)
    | (simp only [SmpFrame, *]; done)
    | (left; rename_i h; first
        | rw [smp3Gen_panic _ _ _ _ _ _ _ _ _ h]
        | rw [smp3Verify_panic _ _ _ _ _ h]
        | rw [smp3Success_panic _ _ _ _ h]
        | rw [smp4Gen_panic _ _ _ _ _ h]
       decide)
    | skip


theorem processSMPTLV_frame (K : Crypto) (t : Tlv) (s : MState) :
    wp (processSMPTLV K t) (fun _ s' => SmpFrame s.conv s'.conv) (smpSites s.conv.version) s := by
  rw [processSMPTLV_eq]
  simp only [setSmpState, smpIsGroupElement]
  repeat' (first
    | simp only [wp_bind, wp_getc, wp_modc, wp_ite', wp_pure, wp_throw, wp_ev, wp_goPanic]
    | refine ⟨fun _ => ?_, fun _ => ?_⟩
    | split)
  all_goals first
    | exact wp_mono _ _ _ _ _ _ (smpBody_frame K t _ _ _) (fun _ _ h => SmpFrame.trans (by rfl) h) (fun _ h => h)
    | (right; refine ⟨?_, by decide⟩; simp_all; done)
    | skip


/-- loop rule: an assertion preserved by every iteration (on normal and exceptional exit) holds after `forIn` -/
theorem wp_forIn {β γ : Type} (l : List β) (f : β → γ → M (ForInStep γ)) (I : MState → Prop) (S : String → Prop)
    (hstep : ∀ b ∈ l, ∀ g s, I s → wp (f b g) (fun _ s' => I s') S s) :
    ∀ init s, I s → wp (forIn l init f) (fun _ s' => I s') S s := by
  induction l with
  | nil => intro init s h; exact h
  | cons a as ih =>
    intro init s h
    rw [List.forIn_cons]
    apply wp_bind_cut _ _ I
    · exact hstep a (by simp) init s h
    · intro r s' h'
      cases r with
      | done b => exact h'
      | yield b => exact ih (fun b hb => hstep b (by simp [hb])) b s' h'
    · intro e s' h'; exact h'

/-- the state-independent part of what TLV processing can do to the conversation -/
structure TlvInv (I : Conv → Prop) : Prop where
  smp : ∀ c m, I c → I { c with smp := m }
  disc : ∀ c, I c → I { c with lastMessageStateChange := none, msgState := .finished, smp := {}, ake := none,
                                        keys := { oldMACKeys := c.keys.oldMACKeys ++ c.keys.macHistory.map (·.key) } }

theorem SmpFrame.inv {I : Conv → Prop} (hI : TlvInv I) {c c' : Conv} (h : SmpFrame c c') (hc : I c) : I c' := by
  unfold SmpFrame at h; rw [h]; exact hI.smp _ _ hc

def extraKeySite : String := "processExtraSymmetricKeyTLV: tlvValue[:tlvLength]"

theorem processTLVs_inv (K : Crypto) (tlvs : List Tlv) (x : Bytes) (I : Conv → Prop) (hI : TlvInv I)
    (hlen : ∀ t ∈ tlvs, t.value.length = t.len) (s : MState) (h : I s.conv) :
    wp (processTLVs K tlvs x) (fun _ s' => I s'.conv ∧ s'.conv.version = s.conv.version)
      (smpSites s.conv.version) s := by
  unfold processTLVs
  simp only [wp_bind]
  refine wp_mono _ (fun _ s' => I s'.conv ∧ s'.conv.version = s.conv.version) _ _ _ _ ?_ ?_ (fun _ h => h)
  · apply wp_forIn _ _ (fun s' => I s'.conv ∧ s'.conv.version = s.conv.version)
    · intro t ht g s1 ⟨h1, hv1⟩
      simp only [processDisconnectedTLV, processExtraSymmetricKeyTLV, secEvent]
      repeat' (first
        | simp only [wp_bind, wp_getc, wp_modc, wp_ite', wp_pure, wp_throw, wp_ev, wp_goPanic]
        | refine ⟨fun _ => ?_, fun _ => ?_⟩
        | split)
      all_goals first
        | exact ⟨h1, hv1⟩
        | exact ⟨hI.disc _ h1, hv1⟩
        | (exfalso; have := hlen t ht; omega)
        | skip
      refine wp_mono _ _ _ _ _ _ (processSMPTLV_frame K t s1) ?_ (fun site hs => by rw [← hv1]; exact hs)
      intro r s2 hf
      have hI2 : I s2.conv := hf.inv hI h1
      have hv2 : s2.conv.version = s.conv.version := by
        rw [← hv1]; unfold SmpFrame at hf; rw [hf]
      cases r with
      | error e => exact ⟨hI2, hv2⟩
      | ok a => cases a <;> exact ⟨hI2, hv2⟩
    · exact ⟨h, rfl⟩
  · intro r s' h'
    cases r with
    | ok a => exact h'
    | error e => exact h'


/-! ### counters -/

/-- the key-id predicate used by `findCounter` -/
def kp (a b : Nat) : Counter → Bool := fun c => c.ourKeyID == a && c.theirKeyID == b

/-- the receive counter recorded for a key-id pair (0 when there is no entry) -/
def ctrOf (cs : List Counter) (a b : Nat) : Nat := (findCounter cs a b).1.theirCounter

theorem findCounter_of_some (cs : List Counter) (a b : Nat) (c : Counter)
    (h : cs.find? (kp a b) = some c) : findCounter cs a b = (c, cs) := by
  unfold findCounter; unfold kp at h; rw [h]

theorem findCounter_of_none (cs : List Counter) (a b : Nat)
    (h : cs.find? (kp a b) = none) : findCounter cs a b = (⟨a, b, 0, 0⟩, cs ++ [⟨a, b, 0, 0⟩]) := by
  unfold findCounter; unfold kp at h; rw [h]

theorem ctrOf_eq (cs : List Counter) (a b : Nat) :
    ctrOf cs a b = match cs.find? (kp a b) with | some c => c.theirCounter | none => 0 := by
  unfold ctrOf
  cases h : cs.find? (kp a b) with
  | some c => rw [findCounter_of_some _ _ _ _ h]
  | none => rw [findCounter_of_none _ _ _ h]

theorem findCounter_ids (cs : List Counter) (a b : Nat) :
    (findCounter cs a b).1.ourKeyID = a ∧ (findCounter cs a b).1.theirKeyID = b := by
  cases h : cs.find? (kp a b) with
  | some c =>
    rw [findCounter_of_some _ _ _ _ h]
    have := List.find?_some h
    simpa [kp] using this
  | none => rw [findCounter_of_none _ _ _ h]; exact ⟨rfl, rfl⟩

theorem findCounter_find (cs : List Counter) (a b : Nat) :
    (findCounter cs a b).2.find? (kp a b) = some (findCounter cs a b).1 := by
  cases h : cs.find? (kp a b) with
  | some c => rw [findCounter_of_some _ _ _ _ h]; exact h
  | none =>
    rw [findCounter_of_none _ _ _ h]
    simp only [List.find?_append, h]
    simp [kp]

theorem ctrOf_findCounter_snd (cs : List Counter) (a b a' b' : Nat) :
    ctrOf (findCounter cs a b).2 a' b' = ctrOf cs a' b' := by
  rw [ctrOf_eq, ctrOf_eq]
  cases h : cs.find? (kp a b) with
  | some c => rw [findCounter_of_some _ _ _ _ h]
  | none =>
    rw [findCounter_of_none _ _ _ h]
    simp only [List.find?_append]
    cases h2 : List.find? (kp a' b') cs with
    | some c => rfl
    | none =>
      simp only [Option.none_or, List.find?_cons, List.find?_nil]
      cases kp a' b' ⟨a, b, 0, 0⟩ <;> rfl

theorem find?_map_kp (l : List Counter) (g : Counter → Counter) (a b : Nat)
    (hg : ∀ x, kp a b (g x) = kp a b x) : (l.map g).find? (kp a b) = (l.find? (kp a b)).map g := by
  induction l with
  | nil => rfl
  | cons x xs ih =>
    simp only [List.map_cons, List.find?_cons, hg]
    split
    · rfl
    · exact ih

/-- updating any field of the entry of pair `(a, b)` but its key ids: lookups see the new entry for `(a, b)`
    and are unchanged elsewhere -/
theorem ctrOf_updateCounter (cs : List Counter) (c' : Counter) (a' b' : Nat) :
    ctrOf (updateCounter cs c') a' b' =
      match cs.find? (kp a' b') with
      | some c => if kp c'.ourKeyID c'.theirKeyID c then c'.theirCounter else c.theirCounter
      | none => 0 := by
  rw [ctrOf_eq]
  unfold updateCounter
  rw [find?_map_kp]
  · cases h : List.find? (kp a' b') cs with
    | none => rfl
    | some c =>
      simp only [Option.map_some]
      by_cases hk : (c.ourKeyID == c'.ourKeyID && c.theirKeyID == c'.theirKeyID) = true <;> simp [kp, hk]
  · intro x
    simp only [kp]
    split
    · rename_i h
      simp only [Bool.and_eq_true, beq_iff_eq] at h
      rw [h.1, h.2]
    · rfl

/-- lemma A: after recording counter `n` for pair `(a, b)`, that pair's counter is `n` -/
theorem ctrOf_record (cs : List Counter) (a b n : Nat) :
    ctrOf (updateCounter (findCounter cs a b).2 { (findCounter cs a b).1 with theirCounter := n }) a b = n := by
  rw [ctrOf_updateCounter, findCounter_find]
  have := findCounter_ids cs a b
  simp [kp]

/-- lemma B: bumping our send counter for a pair leaves every receive counter unchanged -/
theorem ctrOf_bumpOur (cs : List Counter) (a b n a' b' : Nat) :
    ctrOf (updateCounter (findCounter cs a b).2 { (findCounter cs a b).1 with ourCounter := n }) a' b' =
      ctrOf cs a' b' := by
  rw [ctrOf_updateCounter, ← ctrOf_findCounter_snd cs a b a' b', ctrOf_eq]
  cases h : List.find? (kp a' b') (findCounter cs a b).2 with
  | none => rfl
  | some c =>
    simp only
    split
    · rename_i hk
      -- c matches (a, b) and (a', b'): it is the first (a, b) entry
      have hc := List.find?_some h
      have hids := findCounter_ids cs a b
      simp only [kp, Bool.and_eq_true, beq_iff_eq] at hk hc
      have hab : a' = a ∧ b' = b := by
        constructor
        · rw [← hc.1, hk.1, hids.1]
        · rw [← hc.2, hk.2, hids.2]
      rw [hab.1, hab.2, findCounter_find] at h
      injection h with h
      rw [← h]
    · rfl

/-- lemma C: pruning entries of other key generations does not affect a pair that is kept -/
theorem ctrOf_filter (cs : List Counter) (q : Counter → Bool) (a b : Nat)
    (hq : ∀ c, kp a b c = true → q c = true) : ctrOf (cs.filter q) a b = ctrOf cs a b := by
  rw [ctrOf_eq, ctrOf_eq, List.find?_filter]
  have : (fun c => decide (q c = true ∧ kp a b c = true)) = kp a b := by
    funext c
    cases h : kp a b c
    · simp
    · simp [hq c h]
  simp only [this]


/-! ### sending a data message (reply path) -/

theorem wp_randomInto (n : Nat) (Q : Except Err Bytes → MState → Prop) (S) (s : MState)
    (h : ∀ r s', s'.conv = s.conv → s'.events = s.events → Q r s') : wp (randomInto n) Q S s := by
  unfold randomInto
  rw [wp_bind]
  apply wp_randRead
  intro v s' hc he
  cases v with
  | none => exact h _ _ hc he
  | some b => exact h _ _ hc he

/-- only `ourTag` may differ -/
def TagFrame (c c' : Conv) : Prop := c' = { c with ourTag := c'.ourTag }

theorem generateInstanceTagAux_frame (fuel : Nat) (s : MState) :
    wp (generateInstanceTagAux fuel) (fun _ s' => TagFrame s.conv s'.conv ∧ s'.events = s.events) (fun _ => False) s := by
  induction fuel generalizing s with
  | zero => exact ⟨rfl, rfl⟩
  | succ k ih =>
    unfold generateInstanceTagAux
    rw [wp_bind]
    apply wp_randomInto
    intro r s1 hc he
    cases r with
    | error e => exact ⟨by unfold TagFrame; rw [hc], he⟩
    | ok b =>
      simp only [wp_ite']
      refine ⟨fun _ => ?_, fun _ => ?_⟩
      · refine wp_mono _ _ _ _ _ _ (ih s1) ?_ (fun _ h => h)
        intro r s2 ⟨h2, he2⟩
        exact ⟨by unfold TagFrame at *; rw [h2, hc], he2.trans he⟩
      · exact ⟨by unfold TagFrame; simp only [hc], he⟩

theorem messageHeader_frame (t : Nat) (s : MState) :
    wp (messageHeader t) (fun _ s' => TagFrame s.conv s'.conv ∧ s'.events = s.events)
      (fun site => site = "messageHeader: nil version" ∧ s.conv.version = none) s := by
  unfold messageHeader generateInstanceTag
  simp only [wp_bind, wp_getc]
  split
  · rename_i h; exact ⟨rfl, h⟩
  · exact ⟨rfl, rfl⟩
  · simp only [wp_bind, wp_getc, wp_ite', wp_pure, wp_get]
    refine ⟨fun _ => ⟨rfl, trivial⟩, fun _ => ?_⟩
    refine wp_mono _ _ _ _ _ _ (generateInstanceTagAux_frame _ s) ?_ (fun _ h => h.elim)
    intro r s' h
    cases r <;> exact h


/-- what sending a data message leaves untouched in the key-management context: key ids, DH keys,
    and every receive counter -/
def KeysCore (k k' : Keys) : Prop :=
  k'.ourKeyID = k.ourKeyID ∧ k'.theirKeyID = k.theirKeyID ∧ k'.ourCur = k.ourCur ∧ k'.ourPrev = k.ourPrev ∧
  k'.theirCur = k.theirCur ∧ k'.theirPrev = k.theirPrev ∧ ∀ a b, ctrOf k'.counters a b = ctrOf k.counters a b

def GenRel (c c' : Conv) : Prop :=
  c'.version = c.version ∧ c'.msgState = c.msgState ∧ c'.smp = c.smp ∧ KeysCore c.keys c'.keys

def genSites (c : Conv) (site : String) : Prop :=
  (site = "messageHeader: nil version" ∧ c.version = none) ∨
  (site = "genDataMsg: nil ourCurrentDHKeys.pub" ∧ c.msgState = .encrypted ∧ c.keys.ourCur = none)

theorem genDataMsgWithFlag_spec (K : Crypto) (message : Bytes) (flag : Nat) (tlvs : List Tlv) (s : MState) :
    wp (genDataMsgWithFlag K message flag tlvs) (fun _ s' => GenRel s.conv s'.conv) (genSites s.conv) s := by
  unfold genDataMsgWithFlag
  simp only [encryptPlain, resendLast]
  simp only [wp_bind, wp_getc, wp_ite', wp_throw]
  refine ⟨fun _ => ⟨rfl, rfl, rfl, rfl, rfl, rfl, rfl, rfl, rfl, fun _ _ => rfl⟩, fun _ => ?_⟩
  split
  · exact ⟨rfl, rfl, rfl, rfl, rfl, rfl, rfl, rfl, rfl, fun _ _ => rfl⟩
  · simp only [wp_bind, wp_getc, wp_modc, wp_pure]
    split <;> simp only [wp_pure]
    all_goals
      refine wp_mono _ _ _ _ _ _ (messageHeader_frame _ _) ?_ ?_
      · intro r s2 ⟨hf, _⟩
        have hver : s2.conv.version = s.conv.version := by rw [hf]
        have hms : s2.conv.msgState = s.conv.msgState := by rw [hf]
        have hsmp : s2.conv.smp = s.conv.smp := by rw [hf]
        have hkeys : KeysCore s.conv.keys s2.conv.keys := by
          rw [hf]
          exact ⟨rfl, rfl, rfl, rfl, rfl, rfl, fun a b => ctrOf_bumpOur _ _ _ _ a b⟩
        cases r with
        | error e => exact ⟨hver, hms, hsmp, hkeys⟩
        | ok hdr =>
          simp only
          split
          · simp only [wp_bind, wp_getc, wp_modc, wp_pure, wp_ite']
            refine ⟨fun _ => ⟨fun _ => ?_, fun _ => ?_⟩, fun _ => ?_⟩ <;> exact ⟨hver, hms, hsmp, hkeys⟩
          · rename_i hcur
            refine Or.inr ⟨rfl, by simpa using ‹¬ s.conv.msgState ≠ MsgState.encrypted›, ?_⟩
            rw [← hkeys.2.2.1]; exact hcur
      · intro site ⟨h1, h2⟩
        exact Or.inl ⟨h1, h2⟩


/-! ### `processDataMessageTail` -/

/-- TLV processing and reply part of `processDataMessageTail` -/
def tailRest (K : Crypto) (tlvs : List Tlv) (extraKey : Bytes) : M (Option Bytes) := do
  let replies ← processTLVs K tlvs extraKey
  if replies.length > 0 then do
    let (reply, _) ← genDataMsgWithFlag K [] (decideFlagFrom replies) replies
    let ts ← wrapMessageHeader msgTypeData reply.serialize
    return some ts
  return none

theorem GenRel.trans {a b c : Conv} (h1 : GenRel a b) (h2 : GenRel b c) : GenRel a c := by
  obtain ⟨a1, a2, a3, a4, a5, a6, a7, a8, a9, a10⟩ := h1
  obtain ⟨b1, b2, b3, b4, b5, b6, b7, b8, b9, b10⟩ := h2
  exact ⟨b1.trans a1, b2.trans a2, b3.trans a3, b4.trans a4, b5.trans a5, b6.trans a6, b7.trans a7,
    b8.trans a8, b9.trans a9, fun x y => (b10 x y).trans (a10 x y)⟩

theorem TagFrame.genRel {c c' : Conv} (h : TagFrame c c') : GenRel c c' := by
  unfold TagFrame at h; rw [h]
  exact ⟨rfl, rfl, rfl, rfl, rfl, rfl, rfl, rfl, rfl, fun _ _ => rfl⟩

theorem tailRest_wp (K : Crypto) (tlvs : List Tlv) (x : Bytes)
    (I : Conv → Prop) (hI : TlvInv I) (hgen : ∀ c c', GenRel c c' → I c → I c')
    (hlen : ∀ t ∈ tlvs, t.value.length = t.len) (s : MState) (h : I s.conv) :
    wp (tailRest K tlvs x) (fun _ s' => I s'.conv)
      (fun site => smpSites s.conv.version site ∨ ∃ c, I c ∧ genSites c site) s := by
  unfold tailRest
  rw [wp_bind]
  refine wp_mono _ _ _ _ _ _ (processTLVs_inv K tlvs x I hI hlen s h) ?_ (fun _ h => Or.inl h)
  intro r s1 ⟨h1, hv1⟩
  cases r with
  | error e => exact h1
  | ok replies =>
    simp only [wp_ite', wp_pure, wp_bind]
    refine ⟨fun _ => ?_, fun _ => h1⟩
    refine wp_mono _ _ _ _ _ _ (genDataMsgWithFlag_spec K _ _ _ s1) ?_ (fun _ hs => Or.inr ⟨_, h1, hs⟩)
    intro r s2 hg
    have h2 : I s2.conv := hgen _ _ hg h1
    cases r with
    | error e => exact h2
    | ok a =>
      simp only [wrapMessageHeader, wp_bind, wp_pure]
      refine wp_mono _ _ _ _ _ _ (messageHeader_frame _ s2) ?_ ?_
      · intro r s3 ⟨hf, _⟩
        have h3 : I s3.conv := hgen _ _ hf.genRel h2
        cases r <;> exact h3
      · intro site ⟨hs1, hs2⟩
        right
        exact ⟨s2.conv, h2, Or.inl ⟨hs1, hs2⟩⟩


theorem tail_wp (K : Crypto) (dm : DataMsg) (tlvs : List Tlv) (x : Bytes)
    (I : Conv → Prop) (hI : TlvInv I) (hgen : ∀ c c', GenRel c c' → I c → I c')
    (hlen : ∀ t ∈ tlvs, t.value.length = t.len) (s : MState)
    (hrot1 : ∀ np, I { s.conv with keys := (s.conv.keys.rotateOurKeys K dm.recipientKeyID np).1 })
    (hrot2 : ∀ np, I { s.conv with keys :=
        ((s.conv.keys.rotateOurKeys K dm.recipientKeyID np).1).rotateTheirKey dm.senderKeyID dm.y }) :
    wp (processDataMessageTail K dm tlvs x) (fun _ s' => I s'.conv)
      (fun site => smpSites s.conv.version site ∨ ∃ c, I c ∧ genSites c site) s := by
  have hrest : ∀ s1 : MState, I s1.conv → s1.conv.version = s.conv.version →
      wp (tailRest K tlvs x) (fun _ s' => I s'.conv)
        (fun site => smpSites s.conv.version site ∨ ∃ c, I c ∧ genSites c site) s1 := by
    intro s1 h1 hv
    have := tailRest_wp K tlvs x I hI hgen hlen s1 h1
    rw [hv] at this
    exact this
  unfold tailRest at hrest
  unfold processDataMessageTail
  simp only [wp_bind, wp_getc, wp_ite', wp_modc, wp_throw, wp_pure] at hrest ⊢
  refine ⟨fun _ => ?_, fun _ => ?_⟩
  · apply wp_randRead
    intro np s1 hc he
    simp only [wp_bind, wp_modc, wp_ite', wp_pure]
    simp only [hc]
    cases hE : (Keys.rotateOurKeys K s.conv.keys dm.recipientKeyID np).snd with
    | none =>
      simp only [wp_bind, wp_modc, wp_ite', wp_pure, Option.isNone_none, true_implies, not_true_eq_false,
        false_implies, and_true]
      exact hrest ⟨_, s1.env, s1.events, s1.mismatch⟩ (hrot2 np) rfl
    | some e =>
      simp only [Option.isNone_some, Bool.false_eq_true, false_implies, not_false_eq_true, true_implies, true_and]
      refine wp_mono _ _ _ _ _ _ (processTLVs_inv K tlvs x I hI hlen ⟨_, s1.env, s1.events, s1.mismatch⟩ (hrot1 np))
        ?_ (fun _ h => Or.inl h)
      intro r s2 ⟨h2, _⟩
      cases r with
      | error e => exact h2
      | ok a => simp only [wp_bind, wp_throw]; exact h2
  · cases hE : (Keys.rotateOurKeys K s.conv.keys dm.recipientKeyID none).snd with
    | none =>
      simp only [wp_bind, wp_modc, wp_ite', wp_pure, Option.isNone_none, true_implies, not_true_eq_false,
        false_implies, and_true]
      exact hrest ⟨_, s.env, s.events, s.mismatch⟩ (hrot2 none) rfl
    | some e =>
      simp only [wp_bind, wp_modc, wp_ite', wp_pure, Option.isNone_some, Bool.false_eq_true, false_implies,
        not_false_eq_true, true_implies, true_and]
      refine wp_mono _ _ _ _ _ _ (processTLVs_inv K tlvs x I hI hlen ⟨_, s.env, s.events, s.mismatch⟩ (hrot1 none))
        ?_ (fun _ h => Or.inl h)
      intro r s2 ⟨h2, _⟩
      cases r with
      | error e => exact h2
      | ok a => simp only [wp_bind, wp_throw]; exact h2


/-! ### C05 link: an accepted counter is recorded, an immediate replay is rejected -/

theorem pickOurKeys_ok_ne_zero (k : Keys) (a : Nat) (r : Option DhPair)
    (h : k.pickOurKeys a = .ok r) : a ≠ 0 ∧ k.ourKeyID ≠ 0 := by
  unfold Keys.pickOurKeys at h
  split at h
  · injection h
  · rename_i hn; simpa using hn

theorem pickTheirKey_ok_ne_zero (k : Keys) (a : Nat) (r : Option Nat)
    (h : k.pickTheirKey a = .ok r) : a ≠ 0 ∧ k.theirKeyID ≠ 0 := by
  unfold Keys.pickTheirKey at h
  split at h
  · injection h
  · rename_i hn; simpa using hn

theorem deriveSessionKeys_ok_ne_zero (K : Crypto) (k : Keys) (a b : Nat) (sk : SessionKeys)
    (h : k.deriveSessionKeys K a b = .ok sk) : a ≠ 0 ∧ b ≠ 0 := by
  unfold Keys.deriveSessionKeys at h
  split at h
  · injection h
  · rename_i h1
    split at h
    · injection h
    · rename_i h2
      exact ⟨(pickOurKeys_ok_ne_zero _ _ _ h1).1, (pickTheirKey_ok_ne_zero _ _ _ h2).1⟩

theorem ctrOf_rotateOurKeys (K : Crypto) (k : Keys) (rid sid : Nat) (np : Option Bytes) (h : rid ≠ 0) :
    ctrOf (k.rotateOurKeys K rid np).1.counters rid sid = ctrOf k.counters rid sid := by
  unfold Keys.rotateOurKeys
  split
  · rename_i he
    have hq : ∀ c, kp rid sid c = true → (c.ourKeyID != k.ourKeyID - 1) = true := by
      intro c hc
      simp only [kp, Bool.and_eq_true, beq_iff_eq] at hc
      simp only [bne_iff_ne, ne_eq]
      omega
    cases np
    · rfl
    · exact ctrOf_filter _ _ _ _ hq
  · rfl

theorem ctrOf_rotateTheirKey (k : Keys) (rid sid y : Nat) (h : sid ≠ 0) :
    ctrOf (k.rotateTheirKey sid y).counters rid sid = ctrOf k.counters rid sid := by
  unfold Keys.rotateTheirKey
  split
  · rename_i he
    have hq : ∀ c, kp rid sid c = true → (c.theirKeyID != k.theirKeyID - 1) = true := by
      intro c hc
      simp only [kp, Bool.and_eq_true, beq_iff_eq] at hc
      simp only [bne_iff_ne, ne_eq]
      omega
    exact ctrOf_filter _ _ _ _ hq
  · rfl

/-- "while the session is encrypted, the receive counter for `(rid, sid)` is at least `n`" -/
def CtrInv (rid sid n : Nat) (c : Conv) : Prop :=
  c.msgState = .encrypted → n ≤ ctrOf c.keys.counters rid sid

theorem CtrInv.tlvInv (rid sid n : Nat) : TlvInv (CtrInv rid sid n) where
  smp := fun c m h => h
  disc := fun c h hm => by cases hm

theorem CtrInv.gen (rid sid n : Nat) (c c' : Conv) (hg : GenRel c c') (h : CtrInv rid sid n c) :
    CtrInv rid sid n c' := by
  intro hm
  obtain ⟨_, h2, _, _, _, _, _, _, _, h10⟩ := hg
  rw [h10]; exact h (h2 ▸ hm)

end ConvData
open ConvData

/-- **C05 link, state form.**  After `processDataMessageRaw` has accepted a message (whatever happens in
    TLV processing: success, error, key rotation, reply), the final state — while still encrypted —
    records a receive counter for the message's key-id pair that is at least the message's counter. -/
theorem c05_counter_recorded (K : Crypto) (header msg : Bytes) (s s' : MState) (dm : DataMsg) (sk : SessionKeys)
    (r : Except Err (Option Bytes × Option Bytes × Option Err))
    (hA : Accepts K header msg s dm sk)
    (hrun : run' (processDataMessageRaw K header msg) s = .ok (r, s')) :
    s'.conv.msgState = .encrypted →
      bytesToNat dm.topHalfCtr ≤
        (findCounter s'.conv.keys.counters dm.recipientKeyID dm.senderKeyID).1.theirCounter := by
  rw [raw_of_accepts K header msg s dm sk hA, acceptCont_run] at hrun
  obtain ⟨_, _, hk, _, _⟩ := hA
  obtain ⟨hr, hs⟩ := deriveSessionKeys_ok_ne_zero K _ _ _ _ hk
  -- the tail preserves the counter invariant
  have htail : ∀ t0 : MState, t0.conv = (acceptState s dm sk).conv →
      wp (processDataMessageTail K dm (PlainDataMsg.deserialize (plainBytesOf K sk dm)).1.tlvs sk.extraKey)
        (fun _ u => CtrInv dm.recipientKeyID dm.senderKeyID (bytesToNat dm.topHalfCtr) u.conv)
        (fun _ => True) t0 := by
    intro t0 ht0
    refine wp_mono _ _ _ _ _ _ (tail_wp K dm _ sk.extraKey _
      (CtrInv.tlvInv dm.recipientKeyID dm.senderKeyID (bytesToNat dm.topHalfCtr))
      (CtrInv.gen _ _ _) (plainDataMsg_tlvs_length _) t0 ?_ ?_) (fun _ _ h => h) (fun _ _ => trivial)
    · intro np _
      show _ ≤ ctrOf _ _ _
      rw [ctrOf_rotateOurKeys K _ _ _ _ hr, ht0]
      exact Nat.le_of_eq (ctrOf_record _ _ _ _).symm
    · intro np _
      show _ ≤ ctrOf _ _ _
      rw [ctrOf_rotateTheirKey _ _ _ _ hs, ctrOf_rotateOurKeys K _ _ _ _ hr, ht0]
      exact Nat.le_of_eq (ctrOf_record _ _ _ _).symm
  have hfin : CtrInv dm.recipientKeyID dm.senderKeyID (bytesToNat dm.topHalfCtr) s'.conv := by
    have := htail (if (PlainDataMsg.deserialize (plainBytesOf K sk dm)).1.message.isEmpty
            then { acceptState s dm sk with events := (acceptState s dm sk).events ++ ["msg:10"] }
            else acceptState s dm sk) (by split <;> rfl)
    unfold wp at this
    split at hrun
    · rename_i heq; rw [heq] at this
      injection hrun with hrun; injection hrun with _ hrun; rw [← hrun]; exact this
    · rename_i heq; rw [heq] at this
      injection hrun with hrun; injection hrun with _ hrun; rw [← hrun]; exact this
    · injection hrun
  exact hfin

/-- **C05 link.**  Feeding an accepted data message again to the state it produced is always rejected:
    the result is `(none, none, some e)` with `e` either `notInPrivate` (the message itself ended the
    session) or a conflict error (key ids rotated out of the window, MAC keys no longer derivable or
    different, or counter not fresh).  The second run changes nothing but possibly the `msg:7` event. -/
theorem c05_immediate_replay_rejected (K : Crypto) (header msg : Bytes) (s s' : MState) (dm : DataMsg) (sk : SessionKeys)
    (r : Except Err (Option Bytes × Option Bytes × Option Err))
    (hA : Accepts K header msg s dm sk)
    (hrun : run' (processDataMessageRaw K header msg) s = .ok (r, s')) :
    ∃ e s'', run' (processDataMessageRaw K header msg) s' = .ok (.ok (none, none, some e), s'') ∧
      (e = .notInPrivate ∨ e.isConflict = true) ∧
      s''.conv = s'.conv ∧ s''.env = s'.env := by
  have hrec := c05_counter_recorded K header msg s s' dm sk r hA hrun
  have hp := hA.2.1
  have hnz : bytesToNat dm.topHalfCtr ≠ 0 := by have := hA.2.2.2.2; omega
  by_cases h1 : s'.conv.msgState = .encrypted
  · cases h3 : s'.conv.keys.deriveSessionKeys K dm.recipientKeyID dm.senderKeyID with
    | error e =>
      obtain ⟨hr, hc⟩ := c02_bad_keys K header msg s' dm e h1 hp h3
      exact ⟨e, s', hr, Or.inr hc, rfl, rfl⟩
    | ok sk' =>
      by_cases h4 : K.mac1 sk'.recvMAC (header ++ dm.unsignedRaw) = dm.authenticator
      · refine ⟨_, _, c02_replayed_counter K header msg s' dm sk' h1 hp h3 h4 (hrec h1), Or.inr rfl, ?_⟩
        rw [replayState_eq_self_of_regressed s' dm hnz (hrec h1)]
        exact ⟨rfl, rfl⟩
      · exact ⟨_, _, c02_bad_mac K header msg s' dm sk' h1 hp h3 h4, Or.inr rfl, rfl, rfl⟩
  · exact ⟨_, _, c02_not_encrypted K header msg s' h1, Or.inl rfl, rfl, rfl⟩


namespace ConvData

/-! ### B5: panics of `processDataMessageRaw` -/

theorem TlvInv.true : TlvInv (fun _ => True) := ⟨fun _ _ _ => trivial, fun _ _ => trivial⟩

/-- a panic of `processDataMessageRaw` is a panic of `processDataMessageTail` on an accepted message -/
theorem raw_panic_tail (K : Crypto) (header msg : Bytes) (s : MState) (site : String)
    (h : run' (processDataMessageRaw K header msg) s = .panic site) :
    ∃ dm sk t0, Accepts K header msg s dm sk ∧ t0.conv = (acceptState s dm sk).conv ∧
      run' (processDataMessageTail K dm (PlainDataMsg.deserialize (plainBytesOf K sk dm)).1.tlvs sk.extraKey) t0
        = .panic site := by
  by_cases hA : ∃ dm sk, Accepts K header msg s dm sk
  · obtain ⟨dm, sk, hA⟩ := hA
    rw [raw_of_accepts K header msg s dm sk hA, acceptCont_run] at h
    refine ⟨dm, sk, (if (PlainDataMsg.deserialize (plainBytesOf K sk dm)).1.message.isEmpty
            then { acceptState s dm sk with events := (acceptState s dm sk).events ++ ["msg:10"] }
            else acceptState s dm sk), hA, ?_, ?_⟩
    · split <;> rfl
    · split at h
      · injection h
      · injection h
      · rename_i heq; injection h with h; rw [← h]; exact heq
  · obtain ⟨e, t, hr, _⟩ := raw_of_not_accepts K header msg s hA
    rw [hr] at h; injection h

/-- the DH-key well-formedness that excludes the reply-path panics -/
def DataWF (c : Conv) : Prop :=
  c.version ≠ none ∧ (c.msgState = .encrypted → c.keys.ourCur ≠ none)

theorem DataWF.tlvInv : TlvInv DataWF where
  smp := fun c m h => h
  disc := fun c h => ⟨h.1, fun hm => by cases hm⟩

theorem DataWF.gen (c c' : Conv) (hg : GenRel c c') (h : DataWF c) : DataWF c' := by
  obtain ⟨h1, h2, _, _, _, h6, _⟩ := hg
  exact ⟨h1 ▸ h.1, fun hm => h6 ▸ h.2 (h2 ▸ hm)⟩

theorem rotateOurKeys_ourCur (K : Crypto) (k : Keys) (rid : Nat) (np : Option Bytes) (h : k.ourCur ≠ none) :
    (k.rotateOurKeys K rid np).1.ourCur ≠ none := by
  unfold Keys.rotateOurKeys
  split
  · cases np
    · exact h
    · simp
  · exact h

theorem rotateTheirKey_ourCur (k : Keys) (sid y : Nat) : (k.rotateTheirKey sid y).ourCur = k.ourCur := by
  unfold Keys.rotateTheirKey
  split <;> rfl

end ConvData
open ConvData

/-- **C13, data path, unconditional.**  `processDataMessageRaw` never panics before TLV processing; a
    panic can only be one of: a site inside `processSMPTLV` (SMP state machine with inconsistent
    stored state, or `ModInverse` returning nil), a nil protocol version
    (only when `conv.version = none`), or a nil current DH key in the reply path.
    In particular `processExtraSymmetricKeyTLV` cannot panic (parsed TLVs have `value.length = len`). -/
theorem c13_raw_panic_sites (K : Crypto) (header msg : Bytes) (s : MState) (site : String)
    (h : run' (processDataMessageRaw K header msg) s = .panic site) :
    s.conv.msgState = .encrypted ∧
    (site ∈ smpStateSites ∨
     (s.conv.version = none ∧ (site ∈ nilVersionSites ∨ site = "messageHeader: nil version")) ∨
     site = "genDataMsg: nil ourCurrentDHKeys.pub") := by
  obtain ⟨dm, sk, t0, hA, ht0, hp⟩ := raw_panic_tail K header msg s site h
  refine ⟨hA.1, ?_⟩
  have hv : t0.conv.version = s.conv.version := by rw [ht0]; rfl
  have := wp_of_panic _ _ _ _ _
    (tail_wp K dm _ sk.extraKey (fun c => c.version = s.conv.version)
      ⟨fun _ _ h => h, fun _ h => h⟩ (fun c c' hg h => hg.1.trans h)
      (plainDataMsg_tlvs_length _) t0 (fun _ => hv) (fun _ => hv)) hp
  rcases this with hs | ⟨c, hc, hg⟩
  · rw [hv] at hs
    rcases hs with hs | ⟨h1, h2⟩
    · exact Or.inl hs
    · exact Or.inr (Or.inl ⟨h1, Or.inl h2⟩)
  · rcases hg with ⟨h1, h2⟩ | ⟨h1, _⟩
    · exact Or.inr (Or.inl ⟨hc ▸ h2, Or.inr h1⟩)
    · exact Or.inr (Or.inr h1)

/-- **C13, data path, well-formed state.**  With a protocol version and a current DH key pair (true in
    every encrypted state reached through the AKE), the only possible panics of `processDataMessageRaw`
    are the five SMP-state sites inside `processSMPTLV`. -/
theorem c13_raw_no_panic_data_path (K : Crypto) (header msg : Bytes) (s : MState) (site : String)
    (hver : s.conv.version ≠ none) (hcur : s.conv.keys.ourCur ≠ none)
    (h : run' (processDataMessageRaw K header msg) s = .panic site) :
    site ∈ smpStateSites := by
  obtain ⟨dm, sk, t0, hA, ht0, hp⟩ := raw_panic_tail K header msg s site h
  have hv : t0.conv.version = s.conv.version := by rw [ht0]; rfl
  have := wp_of_panic _ _ _ _ _
    (tail_wp K dm _ sk.extraKey DataWF DataWF.tlvInv DataWF.gen
      (plainDataMsg_tlvs_length _) t0 ?_ ?_) hp
  · rcases this with hs | ⟨c, hc, hg⟩
    · rcases hs with hs | ⟨h1, _⟩
      · exact hs
      · rw [hv] at h1; exact absurd h1 hver
    · rcases hg with ⟨_, h2⟩ | ⟨_, h2, h3⟩
      · exact absurd h2 hc.1
      · exact absurd h3 (hc.2 h2)
  · intro np
    refine ⟨by rw [ht0]; exact hver, fun _ => ?_⟩
    exact rotateOurKeys_ourCur K _ _ _ (by rw [ht0]; exact hcur)
  · intro np
    refine ⟨by rw [ht0]; exact hver, fun _ => ?_⟩
    show (Keys.rotateTheirKey _ _ _).ourCur ≠ none
    rw [rotateTheirKey_ourCur]
    exact rotateOurKeys_ourCur K _ _ _ (by rw [ht0]; exact hcur)


namespace ConvData

/-! ### A4: the authenticated bytes -/

theorem extractWord_suffix (d r : Bytes) (n : Nat) (h : extractWord d = some (n, r)) : r <:+ d := by
  unfold extractWord at h
  split at h
  · injection h with h; injection h with _ h; subst h
    exact ⟨[_, _, _, _], rfl⟩
  · injection h

theorem extractData_suffix (d v r : Bytes) (h : extractData d = some (v, r)) : r <:+ d := by
  unfold extractData at h
  split at h
  · injection h
  · rename_i n rest hw
    split at h
    · injection h
    · injection h with h; injection h with _ h; subst h
      exact (List.drop_suffix _ _).trans (extractWord_suffix _ _ _ hw)

theorem extractMPI_suffix (d r : Bytes) (n : Nat) (h : extractMPI d = some (n, r)) : r <:+ d := by
  unfold extractMPI at h
  split at h
  · injection h
  · rename_i v rest hd
    injection h with h; injection h with _ h; subst h
    exact extractData_suffix _ _ _ hd

/-- `deserializeUnsigned` consumes a prefix: the rest it returns is a suffix of the input, and
    `unsignedRaw` is exactly the consumed prefix -/
theorem deserializeUnsigned_split (msg : Bytes) (m : DataMsg) (rest : Bytes)
    (h : deserializeUnsigned msg = some (m, rest)) :
    msg = m.unsignedRaw ++ rest ∧ m.authenticator = [] ∧ m.oldMACKeys = [] := by
  unfold deserializeUnsigned at h
  split at h
  · injection h
  · rename_i f in1
    split at h
    · injection h
    · rename_i skid in2 h1
      split at h
      · injection h
      · rename_i rkid in3 h2
        split at h
        · injection h
        · rename_i y in4 h3
          by_cases hl : in4.length < 8
          · simp only [hl, ↓reduceIte] at h; injection h
          · by_cases hz : bytesToNat (in4.take 8) = 0
            · simp only [hl, hz, ↓reduceIte] at h; injection h
            · cases h4 : extractData (in4.drop 8) with
              | none => simp only [hl, hz, h4, ↓reduceIte] at h; injection h
              | some er =>
                obtain ⟨enc, rest'⟩ := er
                simp only [hl, hz, h4, ↓reduceIte] at h
                injection h with h; injection h with hm hr
                subst hr; subst hm
                have hsuf : rest' <:+ f :: in1 :=
                  (((((extractData_suffix _ _ _ h4).trans (List.drop_suffix _ _)).trans
                    (extractMPI_suffix _ _ _ h3)).trans (extractWord_suffix _ _ _ h2)).trans
                    (extractWord_suffix _ _ _ h1)).trans (List.suffix_cons _ _)
                obtain ⟨p, hp⟩ := hsuf
                refine ⟨?_, rfl, rfl⟩
                simp only
                rw [← hp]
                simp

/-- a parsed data message is `unsignedRaw ++ authenticator ++ (revealed MAC keys section)`, and all
    the authenticated fields were parsed from `unsignedRaw` alone -/
theorem dataMsg_deserialize_split (msg : Bytes) (dm : DataMsg) (h : DataMsg.deserialize msg = some dm) :
    ∃ m0 tail, deserializeUnsigned msg = some (m0, dm.authenticator ++ tail) ∧
      msg = dm.unsignedRaw ++ dm.authenticator ++ tail ∧ dm.authenticator.length = 20 ∧
      dm = { m0 with authenticator := dm.authenticator, oldMACKeys := dm.oldMACKeys } := by
  unfold DataMsg.deserialize at h
  split at h
  · injection h
  · rename_i m rest hu
    split at h
    · injection h
    · rename_i hl
      split at h
      · injection h
      · split at h
        · injection h
        · rename_i ks _
          injection h with h; subst h
          obtain ⟨hs, _, _⟩ := deserializeUnsigned_split msg m rest hu
          refine ⟨m, rest.drop hashLength, ?_, ?_, ?_, rfl⟩
          · simp only [List.take_append_drop]; exact hu
          · simp only [List.append_assoc, List.take_append_drop]; exact hs
          · simp only [List.length_take, hashLength] at hl ⊢; omega

end ConvData
open ConvData

/-- **C02 tamper.**  Whatever header bytes and message bytes are presented, if anything is delivered or
    any TLV is acted upon, then the message bytes split as `raw ++ auth ++ tail` with `auth` of 20 bytes,
    every authenticated field (flag, key ids, `y`, counter, ciphertext) was parsed from `raw`, and
    `mac1 recvMAC (header ++ raw) = auth` under the receiving MAC key of the named key-id pair:
    acceptance goes through the MAC equation over exactly the header and the consumed prefix. -/
theorem c02_tamper (K : Crypto) (header msg : Bytes) (s s' : MState)
    (plain toSend : Option Bytes) (err : Option Err)
    (hrun : run' (processDataMessageRaw K header msg) s = .ok (.ok (plain, toSend, err), s'))
    (hacc : plain ≠ none ∨ toSend ≠ none ∨ s'.conv.smp ≠ s.conv.smp ∨ s'.conv.msgState ≠ s.conv.msgState ∨
      ∃ e ∈ s'.events.drop s.events.length, tlvEvent e) :
    ∃ (m0 : DataMsg) (raw auth tail : Bytes) (sk : SessionKeys),
      msg = raw ++ auth ++ tail ∧ auth.length = 20 ∧
      deserializeUnsigned msg = some (m0, auth ++ tail) ∧ m0.unsignedRaw = raw ∧
      s.conv.keys.deriveSessionKeys K m0.recipientKeyID m0.senderKeyID = .ok sk ∧
      K.mac1 sk.recvMAC (header ++ raw) = auth := by
  obtain ⟨dm, sk, _, hp, hk, hm, _, _⟩ := c02_guard K header msg s s' plain toSend err hrun hacc
  obtain ⟨m0, tail, hu, hs, hl, hdm⟩ := dataMsg_deserialize_split msg dm hp
  have h1 : dm.unsignedRaw = m0.unsignedRaw := by rw [hdm]
  have h2 : dm.recipientKeyID = m0.recipientKeyID := by rw [hdm]
  have h3 : dm.senderKeyID = m0.senderKeyID := by rw [hdm]
  refine ⟨m0, dm.unsignedRaw, dm.authenticator, tail, sk, hs, hl, hu, h1.symm, ?_, hm⟩
  rw [← h2, ← h3]; exact hk


namespace ConvData

/-! ### SMP state well-formedness -/

/-- the stored SMP values each state relies on are present -/
def SmpWF (c : Conv) : Prop :=
  (c.smp.state = some .expect2 → c.smp.s1 ≠ none ∧ c.smp.secret ≠ none) ∧
  (c.smp.state = some .expect3 → c.smp.s2 ≠ none) ∧
  (c.smp.state = some .expect4 → c.smp.s1 ≠ none ∧ c.smp.s3 ≠ none)

/-- symbolic execution of an `M` program under `wp` -/
macro "wp_exec" : tactic => `(tactic| repeat' (first
    | simp only [wp_bind, wp_getc, wp_modc, wp_ite', wp_pure, wp_throw, wp_ev, wp_goPanic, wp_now]
    | refine ⟨fun _ => ?_, fun _ => ?_⟩
    | (apply wp_randMPIs; intro _ _ hc _)
    | (apply wp_randRead; intro _ _ hc _)
    | split))

theorem smpBody_wf (K : Crypto) (t : Tlv) (st : SmpState) (isGE : Nat → Bool) (s : MState)
    (h : SmpWF s.conv) :
    wp (smpBody K t st isGE) (fun _ s' => SmpWF s'.conv) (fun _ => True) s := by
  unfold smpBody
  simp only [setSmpState, smpEvent, smpEventQ, smpWipe, smpAbortWith, optNat, paramLen]
  wp_exec
  all_goals first
    | trivial
    | exact h
    | (simp [SmpWF]; done)
    | (simp_all [SmpWF]; done)
    | skip

/-- `processSMPTLV` preserves `SmpWF` (whatever the outcome: reply, abort, error) -/
theorem processSMPTLV_wf (K : Crypto) (t : Tlv) (s : MState) (h : SmpWF s.conv) :
    wp (processSMPTLV K t) (fun _ s' => SmpWF s'.conv) (fun _ => True) s := by
  rw [processSMPTLV_eq]
  simp only [setSmpState, smpIsGroupElement]
  repeat' (first
    | simp only [wp_bind, wp_getc, wp_modc, wp_ite', wp_pure, wp_throw, wp_ev, wp_goPanic]
    | refine ⟨fun _ => ?_, fun _ => ?_⟩
    | split)
  all_goals first
    | trivial
    | exact smpBody_wf K t _ _ _ h
    | (refine smpBody_wf K t _ _ _ ?_; simp_all [SmpWF]; done)
    | skip

theorem smpWipe_wf (s : MState) : wp smpWipe (fun _ s' => SmpWF s'.conv) (fun _ => True) s := by
  simp [smpWipe, wp_modc, SmpWF]

/-- sending a data message does not touch the SMP context -/
theorem createSDM_smp (K : Crypto) (msg : Bytes) (flag : Nat) (tlvs : List Tlv) (s : MState) :
    wp (createSerializedDataMessage K msg flag tlvs) (fun _ s' => s'.conv.smp = s.conv.smp) (fun _ => True) s := by
  unfold createSerializedDataMessage
  rw [wp_bind]
  refine wp_mono _ _ _ _ _ _ (genDataMsgWithFlag_spec K _ _ _ s) ?_ (fun _ _ => trivial)
  intro r s1 hg
  cases r with
  | error e => exact hg.2.2.1
  | ok a =>
    simp only [wrapMessageHeader, wp_bind, wp_pure]
    refine wp_mono _ _ _ _ _ _ (messageHeader_frame _ s1) ?_ (fun _ _ => trivial)
    intro r s2 ⟨hf, _⟩
    have h2 : s2.conv.smp = s.conv.smp := by rw [hf]; exact hg.2.2.1
    cases r with
    | error e => exact h2
    | ok hdr =>
      simp only [updateLastSent, fragEncode]
      wp_exec
      all_goals first
        | trivial
        | exact h2
        | skip


theorem smpSecretFor_conv (K : Crypto) (ini : Bool) (secret : Bytes) (Q : Except Err Nat → MState → Prop) (s : MState)
    (h : ∀ r, Q r s) : wp (smpSecretFor K ini secret) Q (fun _ => True) s := by
  unfold smpSecretFor
  wp_exec
  all_goals first
    | trivial
    | exact h _

theorem startAuthenticateExpect1_wf (K : Crypto) (question secret : Bytes) (s : MState) (h : SmpWF s.conv) :
    wp (startAuthenticateExpect1 K question secret) (fun _ s' => SmpWF s'.conv) (fun _ => True) s := by
  unfold startAuthenticateExpect1
  simp only [wp_bind, wp_getc, wp_ite', wp_throw]
  refine ⟨fun _ => h, fun _ => ?_⟩
  apply smpSecretFor_conv
  intro r
  cases r with
  | error e => exact h
  | ok sec =>
    simp only [paramLen]
    wp_exec
    all_goals first
      | trivial
      | (simp_all [SmpWF]; done)
      | skip

theorem createSDM_wf (K : Crypto) (msg : Bytes) (flag : Nat) (tlvs : List Tlv) (s : MState) (h : SmpWF s.conv) :
    wp (createSerializedDataMessage K msg flag tlvs) (fun _ s' => SmpWF s'.conv) (fun _ => True) s := by
  refine wp_mono _ _ _ _ _ _ (createSDM_smp K msg flag tlvs s) ?_ (fun _ h => h)
  intro r s' hs
  unfold SmpWF at *
  rw [hs]; exact h

/-- `StartAuthenticate` preserves `SmpWF` -/
theorem startAuthenticate_wf (K : Crypto) (question secret : Bytes) (s : MState) (h : SmpWF s.conv) :
    wp (startAuthenticate K question secret) (fun _ s' => SmpWF s'.conv) (fun _ => True) s := by
  unfold startAuthenticate
  simp only [wp_bind, wp_getc]
  wp_exec
  all_goals first | exact h | skip
  all_goals
    refine wp_mono _ _ _ _ _ _ (startAuthenticateExpect1_wf K _ _ _ ?_) ?_ (fun _ h => h)
    · first
        | exact h
        | (simp_all [SmpWF]; done)
    · intro r s2 h2
      cases r with
      | error e => exact h2
      | ok a =>
        refine wp_mono _ _ _ _ _ _ (createSDM_wf K _ _ _ s2 h2) ?_ (fun _ h => h)
        intro r s3 h3
        cases r <;> exact h3

/-- `continueSMP` (ProvideAuthenticationSecret) preserves `SmpWF` -/
theorem continueSMP_wf (K : Crypto) (secret : Bytes) (s : MState) (h : SmpWF s.conv) :
    wp (continueSMP K secret) (fun _ s' => SmpWF s'.conv) (fun _ => True) s := by
  unfold continueSMP
  simp only [wp_bind, wp_getc]
  split
  · simp only [wp_bind, wp_ite', wp_modc, wp_throw]
    refine ⟨fun _ => by simp [SmpWF], fun _ => ?_⟩
    apply smpSecretFor_conv
    intro r
    cases r with
    | error e => exact h
    | ok sec =>
      simp only [paramLen, smpEvent]
      wp_exec
      all_goals first
        | trivial
        | (simp_all [SmpWF]; done)
        | skip
  · simp only [wp_bind, wp_modc, wp_throw]
    -- repaired code: the state is kept (a nil state becomes EXPECT1)
    unfold SmpWF at h ⊢
    cases hst : s.conv.smp.state with
    | none => simp
    | some st => simpa [hst] using h

theorem provideAuthenticationSecret_wf (K : Crypto) (secret : Bytes) (s : MState) (h : SmpWF s.conv) :
    wp (provideAuthenticationSecret K secret) (fun _ s' => SmpWF s'.conv) (fun _ => True) s := by
  unfold provideAuthenticationSecret
  rw [wp_bind]
  refine wp_mono _ _ _ _ _ _ (continueSMP_wf K secret s h) ?_ (fun _ h => h)
  intro r s2 h2
  cases r with
  | error e => exact h2
  | ok a =>
    simp only [wp_bind, wp_pure]
    refine wp_mono _ _ _ _ _ _ (createSDM_wf K _ _ _ s2 h2) ?_ (fun _ h => h)
    intro r s3 h3
    cases r <;> exact h3

/-- `abortAuthentication` preserves `SmpWF` -/
theorem abortAuthentication_wf (K : Crypto) (s : MState) (h : SmpWF s.conv) :
    wp (abortAuthentication K) (fun _ s' => SmpWF s'.conv) (fun _ => True) s := by
  unfold abortAuthentication
  simp only [wp_bind, wp_modc, wp_pure]
  refine wp_mono _ _ _ _ _ _ (createSDM_wf K _ _ _ _ (by simp [SmpWF])) ?_ (fun _ h => h)
  intro r s3 h3
  cases r <;> exact h3


/-! ### SMP: no panic from a well-formed state -/

/-- the values we divide by when processing SMP message 3 (our own `Pb`, `Qb`) are invertible -/
def SmpNumWF (K : Crypto) (c : Conv) : Prop :=
  ∀ x, c.smp.s2 = some x → K.modInv x.qb dhP ≠ none ∧ K.modInv x.pb dhP ≠ none

theorem divModP_ok (K : Crypto) (l r : Nat) (h : K.modInv r dhP ≠ none) : ∃ v, divModP K l r = .ok v := by
  unfold divModP
  cases hm : K.modInv r dhP with
  | none => exact absurd hm h
  | some inv => exact ⟨_, rfl⟩

theorem smp3Gen_ok (K : Crypto) (x : Nat) (s1 : Smp1State) (m2 : Smp2Msg) (r4 r5 r6 r7 : Nat)
    (h1 : K.modInv m2.qb dhP ≠ none) (h2 : K.modInv m2.pb dhP ≠ none) (site : String) :
    smp3Gen K x s1 m2 r4 r5 r6 r7 ≠ .panic site := by
  intro h
  unfold smp3Gen at h
  obtain ⟨v1, e1⟩ := divModP_ok K (mulModP (gexp1 K r4) (K.gexp (K.gexp m2.g2b s1.a2) x)) m2.qb h1
  obtain ⟨v2, e2⟩ := divModP_ok K (K.gexp (K.gexp m2.g3b s1.a3) r4) m2.pb h2
  simp only [e1, e2, Res.bind_ok] at h
  injection h

theorem smp3Verify_ok (K : Crypto) (isGE : Nat → Bool) (s2 : Smp2State) (m : Smp3Msg)
    (h1 : K.modInv s2.qb dhP ≠ none) (site : String) : smp3Verify K isGE s2 m ≠ .panic site := by
  intro h
  unfold smp3Verify at h
  obtain ⟨v1, e1⟩ := divModP_ok K m.qa s2.qb h1
  split at h
  · injection h
  · split at h
    · injection h
    · split at h
      · injection h
      · simp only [e1, Res.bind_ok] at h
        injection h

theorem smp3Success_ok (K : Crypto) (s2 : Smp2State) (m : Smp3Msg)
    (h1 : K.modInv s2.pb dhP ≠ none) (site : String) : smp3Success K s2 m ≠ .panic site := by
  intro h
  unfold smp3Success at h
  obtain ⟨v1, e1⟩ := divModP_ok K m.pa s2.pb h1
  simp only [e1, Res.bind_ok] at h
  injection h

theorem smp4Gen_ok (K : Crypto) (s2 : Smp2State) (m3 : Smp3Msg) (r7 : Nat)
    (h1 : K.modInv s2.qb dhP ≠ none) (site : String) : smp4Gen K s2 m3 r7 ≠ .panic site := by
  intro h
  unfold smp4Gen at h
  obtain ⟨v1, e1⟩ := divModP_ok K m3.qa s2.qb h1
  simp only [e1, Res.bind_ok] at h
  injection h

theorem smpState_of_getD (o : Option SmpState) (x : SmpState) (h : o.getD .expect1 = x) (hx : x ≠ .expect1) :
    o = some x := by
  cases o with
  | none => exact absurd h.symm hx
  | some y => simp at h; rw [h]

theorem of_not_bnot (b : Bool) (h : ¬ (!b) = true) : b = true := by
  cases b
  · exact absurd rfl h
  · rfl

theorem smp2Verify_ge (K : Crypto) (isGE : Nat → Bool) (s1 : Smp1State) (m : Smp2Msg)
    (h : smp2Verify K isGE s1 m = true) : isGE m.pb = true ∧ isGE m.qb = true := by
  unfold smp2Verify at h
  simp only [Bool.and_eq_true] at h
  exact ⟨h.1.1.1.1.1.2, h.1.1.1.1.2⟩

theorem smpBody_safe (K : Crypto) (t : Tlv) (isGE : Nat → Bool) (s : MState)
    (hwf : SmpWF s.conv) (hnum : SmpNumWF K s.conv) (hv : s.conv.version ≠ none)
    (hinv : ∀ a, a % dhP ≠ 0 → K.modInv a dhP ≠ none) (hge : ∀ n, isGE n = true → n % dhP ≠ 0) :
    wp (smpBody K t ((s.conv.smp.state).getD .expect1) isGE)
      (fun _ s' => SmpWF s'.conv ∧ SmpNumWF K s'.conv) (fun _ => False) s := by
  unfold smpBody
  simp only [setSmpState, smpEvent, smpEventQ, smpWipe, smpAbortWith, optNat, paramLen]
  wp_exec
  all_goals first
    | exact ⟨hwf, hnum⟩
    | (refine ⟨?_, ?_⟩ <;> simp_all [SmpWF, SmpNumWF]; done)
    | exact (hwf.1 (smpState_of_getD _ _ ‹_ = SmpState.expect2› (by decide))).1 ‹s.conv.smp.s1 = none›
    | exact (hwf.1 (smpState_of_getD _ _ ‹_ = SmpState.expect2› (by decide))).2 ‹s.conv.smp.secret = none›
    | exact hv ‹s.conv.version = none›
    | exact hwf.2.1 (smpState_of_getD _ _ ‹_ = SmpState.expect3› (by decide)) ‹s.conv.smp.s2 = none›
    | exact smp3Verify_ok K _ _ _ (hnum _ ‹s.conv.smp.s2 = some _›).1 _ ‹smp3Verify _ _ _ _ = Res.panic _›
    | exact smp3Success_ok K _ _ (hnum _ ‹s.conv.smp.s2 = some _›).2 _ ‹smp3Success _ _ _ = Res.panic _›
    | exact smp4Gen_ok K _ _ _ (hnum _ ‹s.conv.smp.s2 = some _›).1 _ ‹smp4Gen _ _ _ _ = Res.panic _›
    | skip
  · have hnv := ‹¬(!smp2Verify K isGE _ _) = true›
    have hpan := ‹smp3Gen K _ _ _ _ _ _ _ = Res.panic _›
    have hver := of_not_bnot _ hnv
    obtain ⟨hpb, hqb⟩ := smp2Verify_ge _ _ _ _ hver
    exact smp3Gen_ok K _ _ _ _ _ _ _ (hinv _ (hge _ hqb)) (hinv _ (hge _ hpb)) _ hpan
  · have hst := ‹_ = SmpState.expect4›
    have hall := ‹∀ (s1 : Smp1State) (s3 : Smp3State), _ → _ → False›
    obtain ⟨h1, h3⟩ := hwf.2.2 (smpState_of_getD _ _ hst (by decide))
    cases e1 : s.conv.smp.s1 with
    | none => exact h1 e1
    | some a =>
      cases e3 : s.conv.smp.s3 with
      | none => exact h3 e3
      | some b => exact hall a b e1 e3


theorem smpBody_safe' (K : Crypto) (t : Tlv) (st : SmpState) (isGE : Nat → Bool) (s : MState)
    (hst : st = (s.conv.smp.state).getD .expect1)
    (hwf : SmpWF s.conv) (hnum : SmpNumWF K s.conv) (hv : s.conv.version ≠ none)
    (hinv : ∀ a, a % dhP ≠ 0 → K.modInv a dhP ≠ none) (hge : ∀ n, isGE n = true → n % dhP ≠ 0) :
    wp (smpBody K t st isGE)
      (fun _ s' => SmpWF s'.conv ∧ SmpNumWF K s'.conv) (fun _ => False) s := by
  subst hst; exact smpBody_safe K t isGE s hwf hnum hv hinv hge

theorem isGroupElement_mod (n : Nat) (h : isGroupElement n = true) : n % dhP ≠ 0 := by
  unfold isGroupElement at h
  simp only [Bool.and_eq_true, decide_eq_true_eq] at h
  rw [Nat.mod_eq_of_lt (by omega)]
  omega

theorem wp_and {α} (x : M α) (Q1 Q2 : Except Err α → MState → Prop) (S1 S2 : String → Prop) (s : MState)
    (h1 : wp x Q1 S1 s) (h2 : wp x Q2 S2 s) :
    wp x (fun r s' => Q1 r s' ∧ Q2 r s') (fun site => S1 site ∧ S2 site) s := by
  unfold wp at *
  revert h1 h2
  rcases run' x s with ⟨r, u⟩ | p
  · exact fun a b => ⟨a, b⟩
  · exact fun a b => ⟨a, b⟩

/-- **SMP TLV processing cannot panic from a well-formed state** (protocol version set, stored SMP
    values present, our own `Pb`/`Qb` invertible), given that `ModInverse` succeeds on non-multiples of
    `p`; well-formedness is preserved. -/
theorem processSMPTLV_safe (K : Crypto) (t : Tlv) (s : MState)
    (hwf : SmpWF s.conv) (hnum : SmpNumWF K s.conv) (hv : s.conv.version ≠ none)
    (hinv : ∀ a, a % dhP ≠ 0 → K.modInv a dhP ≠ none) :
    wp (processSMPTLV K t) (fun _ s' => SmpWF s'.conv ∧ SmpNumWF K s'.conv) (fun _ => False) s := by
  rw [processSMPTLV_eq]
  simp only [setSmpState, smpIsGroupElement]
  repeat' (first
    | simp only [wp_bind, wp_getc, wp_modc, wp_ite', wp_pure, wp_throw, wp_ev, wp_goPanic]
    | refine ⟨fun _ => ?_, fun _ => ?_⟩
    | split)
  all_goals first
    | exact hv ‹s.conv.version = none›
    | skip
  all_goals
    refine smpBody_safe' K t _ _ _ rfl ?_ ?_ ?_ hinv ?_
    · first
        | exact hwf
        | (simp_all [SmpWF]; done)
    · exact hnum
    · exact hv
    · first
        | exact isGroupElement_mod
        | (intro n hn; simpa using hn)


/-! ### the whole data path from a well-formed state -/

/-- loop of `processTLVs` with an arbitrary invariant that `processSMPTLV` and the disconnect TLV preserve -/
theorem processTLVs_gen (K : Crypto) (tlvs : List Tlv) (x : Bytes) (I : Conv → Prop) (S : String → Prop)
    (hdisc : ∀ c, I c → I { c with lastMessageStateChange := none, msgState := .finished, smp := {}, ake := none,
                                        keys := { oldMACKeys := c.keys.oldMACKeys ++ c.keys.macHistory.map (·.key) } })
    (hsmp : ∀ t s, I s.conv → wp (processSMPTLV K t) (fun _ s' => I s'.conv) S s)
    (hlen : ∀ t ∈ tlvs, t.value.length = t.len) (s : MState) (h : I s.conv) :
    wp (processTLVs K tlvs x) (fun _ s' => I s'.conv) S s := by
  unfold processTLVs
  simp only [wp_bind]
  refine wp_mono _ (fun _ s' => I s'.conv) _ _ _ _ ?_ ?_ (fun _ h => h)
  · apply wp_forIn _ _ (fun s' => I s'.conv)
    · intro t ht g s1 h1
      simp only [processDisconnectedTLV, processExtraSymmetricKeyTLV, secEvent]
      repeat' (first
        | simp only [wp_bind, wp_getc, wp_modc, wp_ite', wp_pure, wp_throw, wp_ev, wp_goPanic]
        | refine ⟨fun _ => ?_, fun _ => ?_⟩
        | split)
      all_goals first
        | exact h1
        | exact hdisc _ h1
        | (exfalso; have := hlen t ht; omega)
        | skip
      refine wp_mono _ _ _ _ _ _ (hsmp t s1 h1) ?_ (fun _ hs => hs)
      intro r s2 h2
      cases r with
      | error e => exact h2
      | ok a => cases a <;> exact h2
    · exact h
  · intro r s' h'
    cases r with
    | ok a => exact h'
    | error e => exact h'

theorem tailRest_gen (K : Crypto) (tlvs : List Tlv) (x : Bytes) (I : Conv → Prop) (S : String → Prop)
    (hdisc : ∀ c, I c → I { c with lastMessageStateChange := none, msgState := .finished, smp := {}, ake := none,
                                        keys := { oldMACKeys := c.keys.oldMACKeys ++ c.keys.macHistory.map (·.key) } })
    (hsmp : ∀ t s, I s.conv → wp (processSMPTLV K t) (fun _ s' => I s'.conv) S s)
    (hgen : ∀ c c', GenRel c c' → I c → I c')
    (hlen : ∀ t ∈ tlvs, t.value.length = t.len) (s : MState) (h : I s.conv) :
    wp (tailRest K tlvs x) (fun _ s' => I s'.conv)
      (fun site => S site ∨ ∃ c, I c ∧ genSites c site) s := by
  unfold tailRest
  rw [wp_bind]
  refine wp_mono _ _ _ _ _ _ (processTLVs_gen K tlvs x I S hdisc hsmp hlen s h) ?_ (fun _ h => Or.inl h)
  intro r s1 h1
  cases r with
  | error e => exact h1
  | ok replies =>
    simp only [wp_ite', wp_pure, wp_bind]
    refine ⟨fun _ => ?_, fun _ => h1⟩
    refine wp_mono _ _ _ _ _ _ (genDataMsgWithFlag_spec K _ _ _ s1) ?_ (fun _ hs => Or.inr ⟨_, h1, hs⟩)
    intro r s2 hg
    have h2 : I s2.conv := hgen _ _ hg h1
    cases r with
    | error e => exact h2
    | ok a =>
      simp only [wrapMessageHeader, wp_bind, wp_pure]
      refine wp_mono _ _ _ _ _ _ (messageHeader_frame _ s2) ?_ ?_
      · intro r s3 ⟨hf, _⟩
        have h3 : I s3.conv := hgen _ _ hf.genRel h2
        cases r <;> exact h3
      · intro site ⟨hs1, hs2⟩
        right
        exact ⟨s2.conv, h2, Or.inl ⟨hs1, hs2⟩⟩

theorem tail_gen (K : Crypto) (dm : DataMsg) (tlvs : List Tlv) (x : Bytes) (I : Conv → Prop) (S : String → Prop)
    (hdisc : ∀ c, I c → I { c with lastMessageStateChange := none, msgState := .finished, smp := {}, ake := none,
                                        keys := { oldMACKeys := c.keys.oldMACKeys ++ c.keys.macHistory.map (·.key) } })
    (hsmp : ∀ t s, I s.conv → wp (processSMPTLV K t) (fun _ s' => I s'.conv) S s)
    (hgen : ∀ c c', GenRel c c' → I c → I c')
    (hlen : ∀ t ∈ tlvs, t.value.length = t.len) (s : MState)
    (hrot1 : ∀ np, I { s.conv with keys := (s.conv.keys.rotateOurKeys K dm.recipientKeyID np).1 })
    (hrot2 : ∀ np, I { s.conv with keys :=
        ((s.conv.keys.rotateOurKeys K dm.recipientKeyID np).1).rotateTheirKey dm.senderKeyID dm.y }) :
    wp (processDataMessageTail K dm tlvs x) (fun _ s' => I s'.conv)
      (fun site => S site ∨ ∃ c, I c ∧ genSites c site) s := by
  have hrest : ∀ s1 : MState, I s1.conv →
      wp (tailRest K tlvs x) (fun _ s' => I s'.conv)
        (fun site => S site ∨ ∃ c, I c ∧ genSites c site) s1 :=
    fun s1 h1 => tailRest_gen K tlvs x I S hdisc hsmp hgen hlen s1 h1
  unfold tailRest at hrest
  unfold processDataMessageTail
  simp only [wp_bind, wp_getc, wp_ite', wp_modc, wp_throw, wp_pure] at hrest ⊢
  refine ⟨fun _ => ?_, fun _ => ?_⟩
  · apply wp_randRead
    intro np s1 hc he
    simp only [wp_bind, wp_modc, wp_ite', wp_pure]
    simp only [hc]
    cases hE : (Keys.rotateOurKeys K s.conv.keys dm.recipientKeyID np).snd with
    | none =>
      simp only [wp_bind, wp_modc, wp_ite', wp_pure, Option.isNone_none, true_implies, not_true_eq_false,
        false_implies, and_true]
      exact hrest ⟨_, s1.env, s1.events, s1.mismatch⟩ (hrot2 np)
    | some e =>
      simp only [Option.isNone_some, Bool.false_eq_true, false_implies, not_false_eq_true, true_implies, true_and]
      refine wp_mono _ _ _ _ _ _
        (processTLVs_gen K tlvs x I S hdisc hsmp hlen ⟨_, s1.env, s1.events, s1.mismatch⟩ (hrot1 np))
        ?_ (fun _ h => Or.inl h)
      intro r s2 h2
      cases r with
      | error e => exact h2
      | ok a => simp only [wp_bind, wp_throw]; exact h2
  · cases hE : (Keys.rotateOurKeys K s.conv.keys dm.recipientKeyID none).snd with
    | none =>
      simp only [wp_bind, wp_modc, wp_ite', wp_pure, Option.isNone_none, true_implies, not_true_eq_false,
        false_implies, and_true]
      exact hrest ⟨_, s.env, s.events, s.mismatch⟩ (hrot2 none)
    | some e =>
      simp only [wp_bind, wp_modc, wp_ite', wp_pure, Option.isNone_some, Bool.false_eq_true, false_implies,
        not_false_eq_true, true_implies, true_and]
      refine wp_mono _ _ _ _ _ _
        (processTLVs_gen K tlvs x I S hdisc hsmp hlen ⟨_, s.env, s.events, s.mismatch⟩ (hrot1 none))
        ?_ (fun _ h => Or.inl h)
      intro r s2 h2
      cases r with
      | error e => exact h2
      | ok a => simp only [wp_bind, wp_throw]; exact h2


/-- well-formedness of an encrypted conversation as far as the data path is concerned -/
def FullWF (K : Crypto) (c : Conv) : Prop := SmpWF c ∧ SmpNumWF K c ∧ DataWF c

theorem FullWF.of_smp_eq (K : Crypto) {c c' : Conv} (hs : c'.smp = c.smp) (hd : DataWF c') (h : FullWF K c) :
    FullWF K c' := by
  refine ⟨?_, ?_, hd⟩
  · have := h.1; unfold SmpWF at *; rw [hs]; exact this
  · have := h.2.1; unfold SmpNumWF at *; rw [hs]; exact this

theorem FullWF.smpTLV (K : Crypto) (hinv : ∀ a, a % dhP ≠ 0 → K.modInv a dhP ≠ none) (t : Tlv) (s : MState)
    (h : FullWF K s.conv) :
    wp (processSMPTLV K t) (fun _ s' => FullWF K s'.conv) (fun _ => False) s := by
  have h1 := processSMPTLV_safe K t s h.1 h.2.1 h.2.2.1 hinv
  have h2 := processSMPTLV_frame K t s
  refine wp_mono _ _ _ _ _ _ (wp_and _ _ _ _ _ _ h1 h2) ?_ (fun _ hs => hs.1)
  intro r s' ⟨⟨ha, hb⟩, hf⟩
  exact ⟨ha, hb, hf.inv DataWF.tlvInv h.2.2⟩

theorem tail_safe (K : Crypto) (hinv : ∀ a, a % dhP ≠ 0 → K.modInv a dhP ≠ none)
    (dm : DataMsg) (tlvs : List Tlv) (x : Bytes) (hlen : ∀ t ∈ tlvs, t.value.length = t.len)
    (s : MState) (h : FullWF K s.conv) (hcur : s.conv.keys.ourCur ≠ none) :
    wp (processDataMessageTail K dm tlvs x) (fun _ s' => FullWF K s'.conv) (fun _ => False) s := by
  refine wp_mono _ _ _ _ _ _ (tail_gen K dm tlvs x (FullWF K) (fun _ => False) ?_ (FullWF.smpTLV K hinv) ?_ hlen s ?_ ?_)
    (fun _ _ h => h) ?_
  · intro c hc
    refine ⟨by simp [SmpWF], by simp [SmpNumWF], DataWF.tlvInv.disc c hc.2.2⟩
  · intro c c' hg hc
    exact FullWF.of_smp_eq K hg.2.2.1 (DataWF.gen c c' hg hc.2.2) hc
  · intro np
    refine FullWF.of_smp_eq K (c := s.conv) rfl ⟨h.2.2.1, fun _ => ?_⟩ h
    exact rotateOurKeys_ourCur K _ _ _ hcur
  · intro np
    refine FullWF.of_smp_eq K (c := s.conv) rfl ⟨h.2.2.1, fun _ => ?_⟩ h
    show (Keys.rotateTheirKey _ _ _).ourCur ≠ none
    rw [rotateTheirKey_ourCur]
    exact rotateOurKeys_ourCur K _ _ _ hcur
  · intro site hs
    rcases hs with hs | ⟨c, hc, hg⟩
    · exact hs
    · rcases hg with ⟨_, h2⟩ | ⟨_, h2, h3⟩
      · exact absurd h2 hc.2.2.1
      · exact absurd h3 (hc.2.2.2 h2)

end ConvData
open ConvData

/-- **C13 for data messages.**  From a well-formed state — protocol version set, current DH key pair
    present, SMP context consistent (`SmpWF`), our own SMP values `Pb`, `Qb` invertible (`SmpNumWF`) — and
    with `ModInverse` succeeding on every non-multiple of `p`, `processDataMessageRaw` does not panic on
    any input whatsoever, and the final state is again well-formed. -/
theorem c13_raw_no_panic (K : Crypto) (header msg : Bytes) (s : MState)
    (hinv : ∀ a, a % dhP ≠ 0 → K.modInv a dhP ≠ none)
    (hwf : SmpWF s.conv) (hnum : SmpNumWF K s.conv)
    (hver : s.conv.version ≠ none) (hcur : s.conv.keys.ourCur ≠ none) :
    ∃ r s', run' (processDataMessageRaw K header msg) s = .ok (.ok r, s') ∧
      SmpWF s'.conv ∧ SmpNumWF K s'.conv ∧ s'.conv.version ≠ none ∧
      (s'.conv.msgState = .encrypted → s'.conv.keys.ourCur ≠ none) := by
  have hfull : FullWF K s.conv := ⟨hwf, hnum, hver, fun _ => hcur⟩
  by_cases hA : ∃ dm sk, Accepts K header msg s dm sk
  · obtain ⟨dm, sk, hA⟩ := hA
    rw [raw_of_accepts K header msg s dm sk hA, acceptCont_run]
    have ht := tail_safe K hinv dm _ sk.extraKey (plainDataMsg_tlvs_length (plainBytesOf K sk dm))
      (if (PlainDataMsg.deserialize (plainBytesOf K sk dm)).1.message.isEmpty
        then { acceptState s dm sk with events := (acceptState s dm sk).events ++ ["msg:10"] }
        else acceptState s dm sk)
      (by split <;> exact FullWF.of_smp_eq K (c := s.conv) rfl ⟨hver, fun _ => hcur⟩ hfull)
      (by split <;> exact hcur)
    unfold wp at ht
    split
    · rename_i heq; rw [heq] at ht; exact ⟨_, _, rfl, ht.1, ht.2.1, ht.2.2.1, ht.2.2.2⟩
    · rename_i heq; rw [heq] at ht; exact ⟨_, _, rfl, ht.1, ht.2.1, ht.2.2.1, ht.2.2.2⟩
    · rename_i heq; rw [heq] at ht; exact ht.elim
  · obtain ⟨e, t, hr, _, _, _, hc⟩ := raw_of_not_accepts K header msg s hA
    refine ⟨_, t, hr, ?_⟩
    rcases hc with hc | ⟨dm, _, hc⟩
    · rw [hc]; exact ⟨hwf, hnum, hver, fun _ => hcur⟩
    · rw [hc]; exact ⟨hwf, hnum, hver, fun _ => hcur⟩


namespace ConvData

/-! ### `receiveDataMessage` from a well-formed state -/

theorem notifyState_fullWF (K : Crypto) (e : Err) (s : MState) (h : FullWF K s.conv) :
    FullWF K (notifyState e s).conv := by
  unfold notifyState withErrorReply
  repeat' split
  all_goals first
    | exact h
    | exact FullWF.of_smp_eq K (c := s.conv) rfl h.2.2 h

theorem potentialHeartbeat_safe (K : Crypto) (plain : Option Bytes) (s : MState) (h : FullWF K s.conv) :
    wp (potentialHeartbeat K plain) (fun _ s' => FullWF K s'.conv) (fun _ => False) s := by
  unfold potentialHeartbeat
  simp only [wp_ite', wp_pure, wp_bind, wp_getc, wp_now]
  refine ⟨fun _ => h, fun _ => ⟨fun _ => h, fun _ => ⟨fun _ => h, fun _ => ?_⟩⟩⟩
  refine wp_mono _ _ _ _ _ _ (genDataMsgWithFlag_spec K _ _ _ s) ?_ ?_
  · intro r s1 hg
    have h1 : FullWF K s1.conv := FullWF.of_smp_eq K hg.2.2.1 (DataWF.gen _ _ hg h.2.2) h
    cases r with
    | error e => exact h1
    | ok a =>
      simp only [wrapMessageHeader, wp_bind, wp_pure]
      refine wp_mono _ _ _ _ _ _ (messageHeader_frame _ s1) ?_ ?_
      · intro r s2 ⟨hf, _⟩
        have hg2 := hf.genRel
        have h2 : FullWF K s2.conv := FullWF.of_smp_eq K hg2.2.2.1 (DataWF.gen _ _ hg2 h1.2.2) h1
        cases r with
        | error e => exact h2
        | ok hdr =>
          simp only [updateLastSent, msgEvent]
          wp_exec
          exact FullWF.of_smp_eq K (c := s2.conv) rfl h2.2.2 h2
      · intro site ⟨_, hv⟩
        exact h1.2.2.1 hv
  · intro site hs
    rcases hs with ⟨_, h2⟩ | ⟨_, h2, h3⟩
    · exact h.2.2.1 h2
    · exact h.2.2.2 h2 h3

end ConvData
open ConvData

/-- **C13 for `receiveDataMessage`.**  From a well-formed state (as in `c13_raw_no_panic`) the whole
    data-message receive path — guards, TLVs, SMP, reply, error notification, heartbeat — ends without
    panic and without a thrown error, in a well-formed state. -/
theorem c13_receiveDataMessage_no_panic (K : Crypto) (header body : Bytes) (s : MState)
    (hinv : ∀ a, a % dhP ≠ 0 → K.modInv a dhP ≠ none)
    (hwf : SmpWF s.conv) (hnum : SmpNumWF K s.conv)
    (hver : s.conv.version ≠ none) (hcur : s.conv.keys.ourCur ≠ none) :
    ∃ r s', run' (receiveDataMessage K header body) s = .ok (.ok r, s') ∧
      SmpWF s'.conv ∧ SmpNumWF K s'.conv ∧ s'.conv.version ≠ none ∧
      (s'.conv.msgState = .encrypted → s'.conv.keys.ourCur ≠ none) := by
  obtain ⟨r, s1, hr, h1⟩ := c13_raw_no_panic K header body s hinv hwf hnum hver hcur
  have hf1 : FullWF K s1.conv := ⟨h1.1, h1.2.1, h1.2.2.1, h1.2.2.2⟩
  have key : wp (receiveDataMessage K header body)
      (fun r s' => (∃ a, r = .ok a) ∧ FullWF K s'.conv) (fun _ => False) s := by
    unfold receiveDataMessage
    rw [wp_bind]
    unfold wp
    rw [hr]
    simp only []
    show wp _ _ _ s1
    split
    · simp only [wp_bind, wp_pure]
      unfold wp
      rw [run'_notify]
      exact ⟨⟨_, rfl⟩, notifyState_fullWF K _ _ hf1⟩
    · simp only [wp_bind, wp_tryCatch, wp_pure]
      refine wp_mono _ _ _ _ _ _ (potentialHeartbeat_safe K _ s1 hf1) ?_ (fun _ h => h)
      intro r s2 h2
      cases r with
      | ok a => exact ⟨⟨_, rfl⟩, h2⟩
      | error e =>
        simp only [wp_bind, wp_pure]
        unfold wp
        rw [run'_notify]
        exact ⟨⟨_, rfl⟩, notifyState_fullWF K _ _ h2⟩
  unfold wp at key
  split at key
  · rename_i r' s' heq
    obtain ⟨⟨a, ha⟩, hf⟩ := key
    subst ha
    exact ⟨a, s', heq, hf.1, hf.2.1, hf.2.2.1, hf.2.2.2⟩
  · exact key.elim


namespace ConvData

/-! ### where `SmpNumWF` comes from: validated message 1, then our own message 2 -/

/-- the message-1 values kept while waiting for the user's secret were validated as group elements -/
def SmpWaitWF (c : Conv) : Prop :=
  ∀ m, c.smp.state = some (.waitingForSecret m) → m.g2a % dhP ≠ 0 ∧ m.g3a % dhP ≠ 0

theorem smp1Verify_ge (K : Crypto) (isGE : Nat → Bool) (m : Smp1Msg)
    (h : smp1Verify K isGE m = true) : isGE m.g2a = true ∧ isGE m.g3a = true := by
  unfold smp1Verify at h
  simp only [Bool.and_eq_true] at h
  exact ⟨h.1.1.1.1, h.1.1.1.2⟩

theorem smpBody_wait (K : Crypto) (t : Tlv) (st : SmpState) (isGE : Nat → Bool) (s : MState)
    (hge : ∀ n, isGE n = true → n % dhP ≠ 0) (h : SmpWaitWF s.conv) :
    wp (smpBody K t st isGE) (fun _ s' => SmpWaitWF s'.conv) (fun _ => True) s := by
  unfold smpBody
  simp only [setSmpState, smpEvent, smpEventQ, smpWipe, smpAbortWith, optNat, paramLen]
  wp_exec
  all_goals first
    | trivial
    | exact h
    | (simp [SmpWaitWF]; done)
    | skip
  all_goals
    have hv := smp1Verify_ge K isGE _ (of_not_bnot _ ‹¬(!smp1Verify K isGE _) = true›)
    intro m hm
    simp only [Option.some.injEq, SmpState.waitingForSecret.injEq] at hm
    subst hm
    exact ⟨hge _ hv.1, hge _ hv.2⟩


theorem processSMPTLV_wait (K : Crypto) (t : Tlv) (s : MState) (h : SmpWaitWF s.conv) :
    wp (processSMPTLV K t) (fun _ s' => SmpWaitWF s'.conv) (fun _ => True) s := by
  rw [processSMPTLV_eq]
  simp only [setSmpState, smpIsGroupElement]
  repeat' (first
    | simp only [wp_bind, wp_getc, wp_modc, wp_ite', wp_pure, wp_throw, wp_ev, wp_goPanic]
    | refine ⟨fun _ => ?_, fun _ => ?_⟩
    | split)
  all_goals first
    | trivial
    | skip
  all_goals
    refine smpBody_wait K t _ _ _ ?_ ?_
    · first
        | exact isGroupElement_mod
        | (intro n hn; simpa using hn)
    · first
        | exact h
        | (simp [SmpWaitWF]; done)

/-- hypotheses on the group arithmetic under which our own SMP values are invertible:
    `ModInverse` succeeds off the multiples of `p`, exponentiation and multiplication stay off the
    multiples of `p` (i.e. `p` is prime and `gexp` is exponentiation mod `p`) -/
structure GroupOK (K : Crypto) : Prop where
  inv : ∀ a, a % dhP ≠ 0 → K.modInv a dhP ≠ none
  exp : ∀ b e, b % dhP ≠ 0 → K.gexp b e % dhP ≠ 0
  mul : ∀ a b, a % dhP ≠ 0 → b % dhP ≠ 0 → a * b % dhP ≠ 0
  gen : dhG % dhP ≠ 0

theorem smp2Gen_num (K : Crypto) (hK : GroupOK K) (y : Nat) (m1 : Smp1Msg) (b2 b3 r2 r3 r4 r5 r6 : Nat)
    (h2 : m1.g2a % dhP ≠ 0) (h3 : m1.g3a % dhP ≠ 0) :
    K.modInv (smp2Gen K y m1 b2 b3 r2 r3 r4 r5 r6).qb dhP ≠ none ∧
    K.modInv (smp2Gen K y m1 b2 b3 r2 r3 r4 r5 r6).pb dhP ≠ none := by
  constructor
  · apply hK.inv
    show mulModP (gexp1 K r4) (K.gexp (K.gexp m1.g2a b2) y) % dhP ≠ 0
    unfold mulModP gexp1
    rw [Nat.mod_mod]
    exact hK.mul _ _ (hK.exp _ _ hK.gen) (hK.exp _ _ (hK.exp _ _ h2))
  · apply hK.inv
    show K.gexp (K.gexp m1.g3a b3) r4 % dhP ≠ 0
    exact hK.exp _ _ (hK.exp _ _ h3)

/-- `continueSMP` establishes `SmpNumWF` for the message-2 state it stores -/
theorem continueSMP_num (K : Crypto) (hK : GroupOK K) (secret : Bytes) (s : MState)
    (hw : SmpWaitWF s.conv) (hn : SmpNumWF K s.conv) :
    wp (continueSMP K secret) (fun _ s' => SmpNumWF K s'.conv ∧ SmpWaitWF s'.conv) (fun _ => True) s := by
  unfold continueSMP
  simp only [wp_bind, wp_getc]
  split
  · rename_i m1 hst
    obtain ⟨h2, h3⟩ := hw m1 hst
    simp only [wp_bind, wp_ite', wp_modc, wp_throw]
    refine ⟨fun _ => ⟨hn, by simp [SmpWaitWF]⟩, fun _ => ?_⟩
    apply smpSecretFor_conv
    intro r
    cases r with
    | error e => exact ⟨hn, hw⟩
    | ok sec =>
      simp only [paramLen, smpEvent]
      wp_exec
      all_goals first
        | trivial
        | exact ⟨hn, hw⟩
        | (intro hx; simp at hx; done)
        | (intro hx
           simp only [Option.some.injEq] at hx
           subst hx
           exact smp2Gen_num K hK _ _ _ _ _ _ _ _ _ h2 h3)
        | (intro hx
           refine hn _ ?_
           rw [← hx]
           simp only [*])
        | skip
  · simp only [wp_bind, wp_modc, wp_throw]
    refine ⟨hn, ?_⟩
    -- repaired code: the state is kept (a nil state becomes EXPECT1)
    unfold SmpWaitWF at hw ⊢
    cases hst : s.conv.smp.state with
    | none => simp
    | some st => simpa [hst] using hw


/-- `SmpNumWF ∧ SmpWaitWF` -/
def SmpNW (K : Crypto) (c : Conv) : Prop := SmpNumWF K c ∧ SmpWaitWF c

theorem SmpNW.of_smp_eq (K : Crypto) {c c' : Conv} (hs : c'.smp = c.smp) (h : SmpNW K c) : SmpNW K c' := by
  unfold SmpNW SmpNumWF SmpWaitWF at *
  rw [hs]; exact h

theorem createSDM_nw (K : Crypto) (msg : Bytes) (flag : Nat) (tlvs : List Tlv) (s : MState) (h : SmpNW K s.conv) :
    wp (createSerializedDataMessage K msg flag tlvs) (fun _ s' => SmpNW K s'.conv) (fun _ => True) s := by
  refine wp_mono _ _ _ _ _ _ (createSDM_smp K msg flag tlvs s) ?_ (fun _ h => h)
  intro r s' hs
  exact SmpNW.of_smp_eq K hs h

theorem startAuthenticateExpect1_nw (K : Crypto) (question secret : Bytes) (s : MState) (h : SmpNW K s.conv) :
    wp (startAuthenticateExpect1 K question secret) (fun _ s' => SmpNW K s'.conv) (fun _ => True) s := by
  unfold startAuthenticateExpect1
  simp only [wp_bind, wp_getc, wp_ite', wp_throw]
  refine ⟨fun _ => h, fun _ => ?_⟩
  apply smpSecretFor_conv
  intro r
  cases r with
  | error e => exact h
  | ok sec =>
    simp only [paramLen]
    wp_exec
    all_goals first
      | trivial
      | exact h
      | (intro hx; simp at hx; done)
      | (intro hx
         refine h.1 _ ?_
         rw [← hx]
         simp only [*])
      | (intro hx
         refine h.2 _ ?_
         rw [← hx]
         simp only [*])
      | skip

theorem startAuthenticate_nw (K : Crypto) (question secret : Bytes) (s : MState) (h : SmpNW K s.conv) :
    wp (startAuthenticate K question secret) (fun _ s' => SmpNW K s'.conv) (fun _ => True) s := by
  unfold startAuthenticate
  simp only [wp_bind, wp_getc]
  wp_exec
  all_goals first | exact h | exact h.1 _ | exact h.2 _ | skip
  all_goals
    refine wp_mono _ _ _ _ _ _ (startAuthenticateExpect1_nw K _ _ _ ?_) ?_ (fun _ h => h)
    · first
        | exact h
        | exact ⟨h.1, by simp [SmpWaitWF]⟩
    · intro r s2 h2
      cases r with
      | error e => exact h2
      | ok a =>
        refine wp_mono _ _ _ _ _ _ (createSDM_nw K _ _ _ s2 h2) ?_ (fun _ h => h)
        intro r s3 h3
        cases r <;> exact h3

theorem provideAuthenticationSecret_nw (K : Crypto) (hK : GroupOK K) (secret : Bytes) (s : MState)
    (h : SmpNW K s.conv) :
    wp (provideAuthenticationSecret K secret) (fun _ s' => SmpNW K s'.conv) (fun _ => True) s := by
  unfold provideAuthenticationSecret
  rw [wp_bind]
  refine wp_mono _ _ _ _ _ _ (continueSMP_num K hK secret s h.2 h.1) ?_ (fun _ h => h)
  intro r s2 h2
  cases r with
  | error e => exact h2
  | ok a =>
    simp only [wp_bind, wp_pure]
    refine wp_mono _ _ _ _ _ _ (createSDM_nw K _ _ _ s2 h2) ?_ (fun _ h => h)
    intro r s3 h3
    cases r <;> exact h3

theorem abortAuthentication_nw (K : Crypto) (s : MState) (h : SmpNW K s.conv) :
    wp (abortAuthentication K) (fun _ s' => SmpNW K s'.conv) (fun _ => True) s := by
  unfold abortAuthentication
  simp only [wp_bind, wp_modc, wp_pure]
  refine wp_mono _ _ _ _ _ _ (createSDM_nw K _ _ _ _ ?_) ?_ (fun _ h => h)
  · obtain ⟨hn, hw⟩ := h
    exact ⟨hn, by simp [SmpWaitWF]⟩
  · intro r s3 h3
    cases r <;> exact h3

/-- `processSMPTLV` preserves `SmpNW` from a well-formed state -/
theorem processSMPTLV_nw (K : Crypto) (t : Tlv) (s : MState)
    (hinv : ∀ a, a % dhP ≠ 0 → K.modInv a dhP ≠ none)
    (hwf : SmpWF s.conv) (hv : s.conv.version ≠ none) (h : SmpNW K s.conv) :
    wp (processSMPTLV K t) (fun _ s' => SmpNW K s'.conv) (fun _ => True) s := by
  have h1 := processSMPTLV_safe K t s hwf h.1 hv hinv
  have h2 := processSMPTLV_wait K t s h.2
  refine wp_mono _ _ _ _ _ _ (wp_and _ _ _ _ _ _ h1 h2) ?_ (fun _ _ => trivial)
  intro r s' ⟨⟨_, hb⟩, hc⟩
  exact ⟨hb, hc⟩


theorem SmpWaitWF.of_smp_eq {c c' : Conv} (hs : c'.smp = c.smp) (h : SmpWaitWF c) : SmpWaitWF c' := by
  unfold SmpWaitWF at *; rw [hs]; exact h

end ConvData
open ConvData

/-- `processDataMessageRaw` preserves `SmpWaitWF` (unconditionally) -/
theorem raw_preserves_smpWaitWF (K : Crypto) (header msg : Bytes) (s s' : MState)
    (r : Except Err (Option Bytes × Option Bytes × Option Err))
    (h : SmpWaitWF s.conv) (hrun : run' (processDataMessageRaw K header msg) s = .ok (r, s')) :
    SmpWaitWF s'.conv := by
  by_cases hA : ∃ dm sk, Accepts K header msg s dm sk
  · obtain ⟨dm, sk, hA⟩ := hA
    rw [raw_of_accepts K header msg s dm sk hA, acceptCont_run] at hrun
    have ht := tail_gen K dm (PlainDataMsg.deserialize (plainBytesOf K sk dm)).1.tlvs sk.extraKey
      SmpWaitWF (fun _ => True)
      (fun c _ => by simp [SmpWaitWF]) (fun t s h => processSMPTLV_wait K t s h)
      (fun c c' hg hc => SmpWaitWF.of_smp_eq hg.2.2.1 hc)
      (plainDataMsg_tlvs_length (plainBytesOf K sk dm))
      (if (PlainDataMsg.deserialize (plainBytesOf K sk dm)).1.message.isEmpty
        then { acceptState s dm sk with events := (acceptState s dm sk).events ++ ["msg:10"] }
        else acceptState s dm sk)
      (fun np => by split <;> exact SmpWaitWF.of_smp_eq (c := s.conv) rfl h)
      (fun np => by split <;> exact SmpWaitWF.of_smp_eq (c := s.conv) rfl h)
    unfold wp at ht
    split at hrun
    · rename_i heq; rw [heq] at ht
      injection hrun with hrun; injection hrun with _ hrun; rw [← hrun]; exact ht
    · rename_i heq; rw [heq] at ht
      injection hrun with hrun; injection hrun with _ hrun; rw [← hrun]; exact ht
    · injection hrun
  · obtain ⟨e, t, hr, _, _, _, hc⟩ := raw_of_not_accepts K header msg s hA
    rw [hr] at hrun
    injection hrun with hrun; injection hrun with _ hrun; subst hrun
    rcases hc with hc | ⟨dm, _, hc⟩
    · rw [hc]; exact h
    · rw [hc]; exact h


/-! ### the peer's disconnect TLV is acted upon even when the key rotation fails (repair c2434f4) -/

namespace ConvData

/-- two-phase loop rule: the iterations over `l1` neither throw nor leave the loop, the iteration `d` establishes
    `I`, the iterations over `l2` preserve it (on normal and exceptional exit) -/
theorem wp_forIn_phase {β γ : Type} (l1 l2 : List β) (d : β) (f : β → γ → M (ForInStep γ)) (I : MState → Prop)
    (S : String → Prop)
    (h1 : ∀ b ∈ l1, ∀ g s, wp (f b g) (fun r _ => ∃ g', r = .ok (.yield g')) S s)
    (hd : ∀ g s, wp (f d g) (fun _ s' => I s') S s)
    (h2 : ∀ b ∈ l2, ∀ g s, I s → wp (f b g) (fun _ s' => I s') S s) :
    ∀ init s, wp (forIn (l1 ++ d :: l2) init f) (fun _ s' => I s') S s := by
  induction l1 with
  | nil =>
    intro init s
    rw [List.nil_append, List.forIn_cons]
    apply wp_bind_cut _ _ I
    · exact hd init s
    · intro r s' h'
      cases r with
      | done b => exact h'
      | yield b => exact wp_forIn l2 f I S h2 b s' h'
    · intro e s' h'; exact h'
  | cons a as ih =>
    intro init s
    rw [List.cons_append, List.forIn_cons, wp_bind]
    refine wp_mono _ _ _ _ _ _ (h1 a (by simp) init s) ?_ (fun _ h => h)
    intro r s' ⟨g', hr⟩
    subst hr
    exact ih (fun b hb => h1 b (by simp [hb])) g' s'

/-- **the peer's disconnect TLV is acted upon**: when the TLVs of a message contain a disconnected TLV and no SMP
    TLV comes before it (SMP TLVs are the only ones that can make `processTLVs` stop with an error), every outcome
    of `processTLVs` - normal, or an error thrown by a later TLV - is in the `finished` state; from any state -/
theorem processTLVs_disconnect (K : Crypto) (pre post : List Tlv) (d : Tlv) (x : Bytes) (s : MState)
    (hd : d.typ = tlvTypeDisconnected) (hpre : ∀ t ∈ pre, t.typ < 2 ∨ 8 ≤ t.typ) :
    wp (processTLVs K (pre ++ d :: post) x) (fun _ s' => s'.conv.msgState = .finished) (fun _ => True) s := by
  unfold processTLVs
  simp only [wp_bind]
  refine wp_mono _ (fun _ s' => s'.conv.msgState = .finished) _ _ _ _ ?_ ?_ (fun _ h => h)
  · apply wp_forIn_phase pre post d _ (fun s' => s'.conv.msgState = .finished)
    · intro t ht g s1
      have := hpre t ht
      simp only [processDisconnectedTLV, processExtraSymmetricKeyTLV, secEvent, tlvTypePadding, tlvTypeDisconnected,
        tlvTypeExtraSymmetricKey]
      repeat' (first
        | simp only [wp_bind, wp_getc, wp_modc, wp_ite', wp_pure, wp_ev, wp_goPanic]
        | refine ⟨fun _ => ?_, fun _ => ?_⟩
        | split)
      all_goals first
        | exact ⟨_, rfl⟩
        | trivial
        | (exfalso; omega)
    · intro g s1
      have hd' : d.typ = 1 := hd
      simp only [hd', processDisconnectedTLV, secEvent, tlvTypePadding, tlvTypeDisconnected, ge_iff_le,
        Nat.reduceLeDiff, ↓reduceIte, Nat.succ_ne_self]
      repeat' (first
        | simp only [wp_bind, wp_getc, wp_modc, wp_ite', wp_pure, wp_ev]
        | refine ⟨fun _ => ?_, fun _ => ?_⟩
        | split)
      all_goals rfl
    · intro t ht g s1 h1
      simp only [processDisconnectedTLV, processExtraSymmetricKeyTLV, secEvent]
      repeat' (first
        | simp only [wp_bind, wp_getc, wp_modc, wp_ite', wp_pure, wp_ev, wp_goPanic]
        | refine ⟨fun _ => ?_, fun _ => ?_⟩
        | split)
      all_goals first
        | exact h1
        | trivial
        | skip
      refine wp_mono _ _ _ _ _ _ (processSMPTLV_frame K t s1) ?_ (fun _ _ => trivial)
      intro r s2 hf
      have h2 : s2.conv.msgState = .finished := by
        unfold SmpFrame at hf; rw [hf]; exact h1
      cases r with
      | error e => exact h2
      | ok a => cases a <;> exact h2
  · intro r s' h'
    cases r with
    | ok a => exact h'
    | error e => exact h'

/-- the reply part of `processDataMessageTail` does not touch the message state -/
theorem tailReply_msgState (K : Crypto) (replies : List Tlv) (s : MState) (m : MsgState) (h : s.conv.msgState = m) :
    wp (if replies.length > 0 then
          genDataMsgWithFlag K [] (decideFlagFrom replies) replies >>= fun p =>
            wrapMessageHeader msgTypeData p.fst.serialize >>= fun ts => pure (some ts)
        else pure none : M (Option Bytes)) (fun _ s' => s'.conv.msgState = m) (fun _ => True) s := by
  simp only [wp_ite', wp_pure, wp_bind]
  refine ⟨fun _ => ?_, fun _ => h⟩
  refine wp_mono _ _ _ _ _ _ (genDataMsgWithFlag_spec K _ _ _ s) ?_ (fun _ _ => trivial)
  intro r s2 hg
  have h2 : s2.conv.msgState = m := hg.2.1.trans h
  cases r with
  | error e => exact h2
  | ok a =>
    simp only [wrapMessageHeader, wp_bind, wp_pure]
    refine wp_mono _ _ _ _ _ _ (messageHeader_frame _ s2) ?_ (fun _ _ => trivial)
    intro r s3 ⟨hf, _⟩
    have h3 : s3.conv.msgState = m := by unfold TagFrame at hf; rw [hf]; exact h2
    cases r <;> exact h3

/-- **an accepted data message carrying the peer's disconnect TLV ends the conversation, whatever the key rotation
    does**: every outcome of `processDataMessageTail` - a reply, nothing, the rotation error, an error of a later
    TLV - is in the `finished` state (no SMP TLV before the disconnect TLV; from any state) -/
theorem tail_disconnect (K : Crypto) (dm : DataMsg) (pre post : List Tlv) (d : Tlv) (x : Bytes) (s : MState)
    (hd : d.typ = tlvTypeDisconnected) (hpre : ∀ t ∈ pre, t.typ < 2 ∨ 8 ≤ t.typ) :
    wp (processDataMessageTail K dm (pre ++ d :: post) x)
      (fun _ s' => s'.conv.msgState = .finished) (fun _ => True) s := by
  unfold processDataMessageTail
  simp only [wp_bind, wp_getc, wp_ite', wp_modc, wp_pure]
  refine ⟨fun _ => ?_, fun _ => ?_⟩
  · apply wp_randRead
    intro np s1 hc he
    refine ⟨fun _ => ?_, fun _ => ?_⟩
    all_goals
      refine wp_mono _ _ _ _ _ _ (processTLVs_disconnect K pre post d x _ hd hpre) ?_ (fun _ h => h)
      intro r s2 h2
      cases r with
      | error e' => exact h2
      | ok a =>
        dsimp only
        split
        · simp only [wp_bind, wp_throw]; exact h2
        · exact tailReply_msgState K a s2 _ h2
  · refine ⟨fun _ => ?_, fun _ => ?_⟩
    all_goals
      refine wp_mono _ _ _ _ _ _ (processTLVs_disconnect K pre post d x _ hd hpre) ?_ (fun _ h => h)
      intro r s2 h2
      cases r with
      | error e' => exact h2
      | ok a =>
        dsimp only
        split
        · simp only [wp_bind, wp_throw]; exact h2
        · exact tailReply_msgState K a s2 _ h2

/-- **the defect repaired in `processDataMessageWithRawErrors`, as a theorem** (form: `processDataMessageTail`, the part
    of the function that runs once the message is authentic and accepted - MAC verified, counter fresh).
    The message asks for a rotation of our keys (`rotatesOur`), the draw of the new key fails (`randRead 40`
    returns `none`), the TLVs carry a disconnected TLV with no SMP TLV before it: then the call reports an error
    AND the conversation is `finished` (before the repair it stayed `encrypted`). -/
theorem receive_disconnect_despite_rotation_failure (K : Crypto) (dm : DataMsg) (pre post : List Tlv) (d : Tlv)
    (x : Bytes) (s s0 : MState)
    (hd : d.typ = tlvTypeDisconnected) (hpre : ∀ t ∈ pre, t.typ < 2 ∨ 8 ≤ t.typ)
    (hrot : s.conv.keys.rotatesOur dm.recipientKeyID = true)
    (hfail : run' (randRead 40) s = .ok (.ok none, s0))
    (r : Except Err (Option Bytes)) (s' : MState)
    (hrun : run' (processDataMessageTail K dm (pre ++ d :: post) x) s = .ok (r, s')) :
    s'.conv.msgState = .finished ∧ ∃ e, r = .error e := by
  have h1 := tail_disconnect K dm pre post d x s hd hpre
  have h2 : wp (processDataMessageTail K dm (pre ++ d :: post) x) (fun r _ => ∃ e, r = .error e) (fun _ => True) s := by
    unfold processDataMessageTail
    simp only [wp_bind, wp_getc, wp_ite', wp_modc, wp_pure]
    refine ⟨fun _ => ?_, fun h => absurd hrot h⟩
    have hid : dm.recipientKeyID = s.conv.keys.ourKeyID := by
      simpa [Keys.rotatesOur] using hrot
    have hfu : Keys.rotateOurKeys K s.conv.keys dm.recipientKeyID none = (s.conv.keys, some .shortRandom) := by
      unfold Keys.rotateOurKeys
      rw [if_pos hid]
    have hw : ∀ Q S, wp (randRead 40) Q S s = Q (.ok none) s0 := by
      intro Q S; unfold wp; rw [hfail]
    rw [hw]
    simp only [hfu, wp_bind, wp_ite', wp_pure, Option.isNone_some, Bool.false_eq_true, false_implies,
      not_false_eq_true, true_implies, true_and]
    refine wp_mono _ _ _ _ _ _ (processTLVs_disconnect K pre post d x _ hd hpre) ?_ (fun _ h => h)
    intro r s2 _
    cases r with
    | error e => exact ⟨e, rfl⟩
    | ok a => simp only [wp_throw]; exact ⟨_, rfl⟩
  unfold wp at h1 h2
  rw [hrun] at h1 h2
  exact ⟨h1, h2⟩


/-- non-vacuity: an encrypted state whose next randomness read fails, a message asking for a rotation (`recipientKeyID`
    = our key id) and carrying a lone disconnected TLV: the hypotheses hold, so the conversation ends -/
example (K : Crypto) (dm : DataMsg) (hid : dm.recipientKeyID = 1) (x : Bytes) (r : Except Err (Option Bytes))
    (s' : MState)
    (hrun : run' (processDataMessageTail K dm ([] ++ { typ := tlvTypeDisconnected, len := 0, value := [] } :: []) x)
      { conv := { msgState := .encrypted, keys := { ourKeyID := 1 } }, env := { rand := [none] } } = .ok (r, s')) :
    s'.conv.msgState = .finished ∧ ∃ e, r = .error e :=
  receive_disconnect_despite_rotation_failure K dm [] [] _ x _
    { conv := { msgState := .encrypted, keys := { ourKeyID := 1 } }, env := { rand := [] } }
    rfl (fun _ h => nomatch h) (by rw [hid]; rfl) rfl r s' hrun

end ConvData
end Otr
