/-
  Proofs.InjDrain — the pending replies (`injections`) are handed out by the call that produced them
  (completes Proofs.ResendInj): `Drains`, `receiveUnit_step`, `receive_drains_injections`,
  `send_drains_injections`, `apiCall_injections_empty`, `api_injections_empty`, `api_injections_bounded`;
  builds on Proofs.InjNoThrow (`receive_nt`, `send_nt`) and Proofs.InjGrows (frames `KeepInj`, `Grows`).
  Paths of `receive`/`send` that do NOT drain (exactly as in the Go code): OTR disabled by the policies, and a
  version-1 key exchange message; both leave `injections` untouched (witnesses in section 7).
-/
import Proofs.InjGrows
set_option linter.unusedSimpArgs false
set_option linter.unusedVariables false
namespace Otr

/-! ## 3. draining -/

theorem runM_bind_ok_inv {α β} {x : M α} {f : α → M β} {s s' : MState} {b : β}
    (h : runM (x >>= f) s = .ok (.ok b, s')) :
    ∃ a s1, runM x s = .ok (.ok a, s1) ∧ runM (f a) s1 = .ok (.ok b, s') := by
  rw [runM_bind] at h
  exact bindM_ok_inv h

/-- every returning run of `x` ends with no reply pending, and its result (seen through `p`) contains, in one
    piece, the replies that were pending when it started -/
def Drains {α} (p : α → List Bytes) (x : M α) : Prop :=
  ∀ s a s', runM x s = .ok (.ok a, s') → s'.conv.injections = [] ∧ s.conv.injections <:+: p a

/-- every returning run of `x` either drains (as above) or leaves the pending replies alone -/
def DrainsOrKeeps {α} (p : α → List Bytes) (x : M α) : Prop :=
  ∀ s a s', runM x s = .ok (.ok a, s') →
    (s'.conv.injections = [] ∧ s.conv.injections <:+: p a) ∨ s'.conv.injections = s.conv.injections

theorem withInjects_run (vms : List Bytes) (s : MState) :
    runM (withInjects vms) s =
      .ok (.ok (vms ++ s.conv.injections), { s with conv := { s.conv with injections := [] } }) := by
  simp only [withInjects, runM_bind, runM_getc, bindM_ok, runM_modc, runM_pure]

theorem Drains.fin {α} (vms : List Bytes) (g : List Bytes → α) (p : α → List Bytes) (hp : ∀ v, p (g v) = v) :
    Drains p (withInjects vms >>= fun v => pure (g v)) := by
  intro s a s' h
  obtain ⟨v, s1, h1, h2⟩ := runM_bind_ok_inv h
  rw [withInjects_run] at h1
  simp only [Res.ok.injEq, Prod.mk.injEq, Except.ok.injEq] at h1
  simp only [runM_pure, Res.ok.injEq, Prod.mk.injEq, Except.ok.injEq] at h2
  rw [← h2.2, ← h2.1, ← h1.2, hp, ← h1.1]
  exact ⟨rfl, vms, [], by simp⟩

theorem Drains.grows_bind {α β} {p : β → List Bytes} {x : M α} {f : α → M β} (hx : Stable Grows x)
    (hf : ∀ a, Drains p (f a)) : Drains p (x >>= f) := by
  intro s b s' h
  obtain ⟨a, s1, h1, h2⟩ := runM_bind_ok_inv h
  obtain ⟨t, ht⟩ := hx s _ s1 h1
  obtain ⟨k1, u, v, k2⟩ := hf a s1 b s' h2
  refine ⟨k1, u, t ++ v, ?_⟩
  rw [← k2, ht]; simp

/-- a nested `receiveUnit` (a message reassembled from fragments), then the final hand-out -/
theorem Drains.nested {α} {x : M RecvResult} (hx : DrainsOrKeeps RecvResult.toSend x)
    (g : RecvResult → List Bytes → α) (p : α → List Bytes) (hp : ∀ r v, p (g r v) = v) :
    Drains p (x >>= fun r => withInjects r.toSend >>= fun v => pure (g r v)) := by
  intro s a s' h
  obtain ⟨r, s1, h1, h2⟩ := runM_bind_ok_inv h
  obtain ⟨k1, u, v, k2⟩ := Drains.fin r.toSend (g r) p (hp r) s1 a s' h2
  refine ⟨k1, ?_⟩
  obtain ⟨v', s2, h3, h4⟩ := runM_bind_ok_inv h2
  rw [withInjects_run] at h3
  simp only [Res.ok.injEq, Prod.mk.injEq, Except.ok.injEq] at h3
  simp only [runM_pure, Res.ok.injEq, Prod.mk.injEq, Except.ok.injEq] at h4
  rw [← h4.1, hp, ← h3.1]
  rcases hx s r s1 h1 with ⟨e, u', w', k3⟩ | k
  · exact ⟨u', w' ++ s1.conv.injections, by rw [← k3]; simp⟩
  · exact ⟨r.toSend, [], by rw [k]; simp⟩

theorem Drains.toDK {α} {p : α → List Bytes} {x : M α} (h : Drains p x) : DrainsOrKeeps p x :=
  fun s a s' hr => Or.inl (h s a s' hr)

theorem resendLater_ki (m : Bytes) : Stable KeepInj (resendLater m) := by
  unfold resendLater
  ki_walk []

/-- walk for `Stable Grows` goals inside `receiveUnit` / `send` -/
macro "gr_walk" : tactic => `(tactic| first
  | (refine Stable.ki_gr ?_; ki_walk [resendLater_ki _]; done)
  | r_walk [(receiveErrorMessage_ki _).ki_gr, Stable.ofBook (receiveQueryMessage_book _ _),
    Stable.ofBook (receiveTaggedPlaintext_book _ _), Stable.ofBook (checkPlaintextPolicies_book _),
    Stable.ofBook (toSendEncoded_book _ _), receiveFragment_gr _ _, Stable.ofBook (msgEvent_book _),
    receiveDecoded_gr _ _, Stable.ofBook updateLastSent_book, Stable.ofBook (appendWhitespaceTag_book _),
    (createSerializedDataMessage_ki _ _ _ _).ki_gr, generatePotentialErrorMessage_gr _])

/-! ## 4. `receiveUnit` -/

/-- one level of `receiveUnit`, given the behaviour of the nested level: the call drains, except when OTR is
    disabled by the policies or the message is a version-1 key exchange — these two return at once and leave
    the pending replies where they are -/
theorem receiveUnit_step (K : Crypto) (fuel : Nat)
    (ih : ∀ m fg, DrainsOrKeeps RecvResult.toSend (receiveUnit K fuel m fg)) (m : Bytes) (fg : Bool)
    (s : MState) (a : RecvResult) (s' : MState)
    (h : runM (receiveUnit K (fuel + 1) m fg) s = .ok (.ok a, s')) :
    (isOTREnabled s.conv.policies = true ∧ guessMessageType m ≠ .v1KeyExch →
      s'.conv.injections = [] ∧ s.conv.injections <:+: a.toSend) ∧
    (¬ (isOTREnabled s.conv.policies = true ∧ guessMessageType m ≠ .v1KeyExch) →
      s'.conv.injections = s.conv.injections ∧ a.toSend = []) := by
  rw [receiveUnit] at h
  obtain ⟨c, s1, h1, h2⟩ := runM_bind_ok_inv h
  simp only [runM_getc, Res.ok.injEq, Prod.mk.injEq, Except.ok.injEq] at h1
  obtain ⟨rfl, rfl⟩ := h1
  split at h2
  · rename_i hd
    simp only [runM_pure, Res.ok.injEq, Prod.mk.injEq, Except.ok.injEq] at h2
    rw [← h2.1, ← h2.2]
    refine ⟨fun hc => ?_, fun _ => ⟨rfl, rfl⟩⟩
    rw [hc.1] at hd; cases hd
  · rename_i hd
    have hen : isOTREnabled s.conv.policies = true := by
      cases hx : isOTREnabled s.conv.policies with
      | true => rfl
      | false => rw [hx] at hd; exact absurd rfl hd
    dsimp only at h2
    split at h2
    all_goals
      clear h
      rename_i hg
      first
      | (simp only [runM_pure, Res.ok.injEq, Prod.mk.injEq, Except.ok.injEq] at h2
         rw [← h2.1, ← h2.2]
         exact ⟨fun hc => absurd hg hc.2, fun _ => ⟨rfl, rfl⟩⟩)
      | (refine ⟨fun _ => ?_, fun hn => absurd ⟨hen, by rw [hg]; simp⟩ hn⟩
         refine (?_ : Drains RecvResult.toSend _) s a s' h2
         repeat' (first
           | with_reducible exact Drains.fin _ _ _ (fun _ => rfl)
           | with_reducible exact Drains.nested (ih _ _) _ _ (fun _ _ => rfl)
           | with_reducible refine Drains.grows_bind (by with_unfolding_all gr_walk) (fun _ => ?_)
           | split | dsimp only))

theorem receiveUnit_dk (K : Crypto) : ∀ (fuel : Nat) (m : Bytes) (fg : Bool),
    DrainsOrKeeps RecvResult.toSend (receiveUnit K fuel m fg) := by
  intro fuel
  induction fuel with
  | zero =>
    intro m fg s a s' h
    rw [receiveUnit] at h
    simp only [runM_bind, runM_mism, bindM_ok, runM_pure, Res.ok.injEq, Prod.mk.injEq, Except.ok.injEq] at h
    right; rw [← h.2]
  | succ fuel ih =>
    intro m fg s a s' h
    obtain ⟨h1, h2⟩ := receiveUnit_step K fuel ih m fg s a s' h
    by_cases hc : isOTREnabled s.conv.policies = true ∧ guessMessageType m ≠ .v1KeyExch
    · exact Or.inl (h1 hc)
    · exact Or.inr (h2 hc).1

/-- the two ways in which `Receive` returns without looking at the pending replies: OTR is disabled by the
    policies, or the message is a version-1 key exchange (rejected at once) -/
def receiveSkips (c : Conv) (m : Bytes) : Prop :=
  isOTREnabled c.policies = false ∨ guessMessageType m = .v1KeyExch

instance (c : Conv) (m : Bytes) : Decidable (receiveSkips c m) := by unfold receiveSkips; infer_instance

/-- **A (Receive).**  For every crypto record, every state and every input: a `Receive` that does not panic
    returns a value (it never throws); unless it returns at once (`receiveSkips`), it ends with NO reply pending
    and the messages it hands out contain, in one piece and in order, every reply that was pending when it
    started.  When it returns at once it hands out nothing and leaves the pending replies as they were. -/
theorem receive_drains_injections (K : Crypto) (m : Bytes) (s : MState) (r : Except Err RecvResult) (s' : MState)
    (h : runM (receive K m) s = .ok (r, s')) :
    ∃ v, r = .ok v ∧
      (¬ receiveSkips s.conv m → s'.conv.injections = [] ∧ s.conv.injections <:+: v.toSend) ∧
      (receiveSkips s.conv m → s'.conv.injections = s.conv.injections ∧ v.toSend = []) := by
  cases r with
  | error e => exact absurd h (receive_nt K m s e s')
  | ok v =>
    refine ⟨v, rfl, ?_⟩
    obtain ⟨h1, h2⟩ := receiveUnit_step K _ (receiveUnit_dk K _) m true s v s' h
    have hiff : ¬ receiveSkips s.conv m ↔ (isOTREnabled s.conv.policies = true ∧ guessMessageType m ≠ .v1KeyExch) := by
      unfold receiveSkips
      cases isOTREnabled s.conv.policies <;> simp
    exact ⟨fun hn => h1 (hiff.1 hn), fun hs => h2 (fun hc => (hiff.2 hc) hs)⟩

/-- in particular: no reply pending before, none pending after — on every path -/
theorem receive_injections_empty (K : Crypto) (m : Bytes) (s : MState) (r : Except Err RecvResult) (s' : MState)
    (h : runM (receive K m) s = .ok (r, s')) (he : s.conv.injections = []) : s'.conv.injections = [] := by
  obtain ⟨v, -, h1, h2⟩ := receive_drains_injections K m s r s' h
  by_cases hs : receiveSkips s.conv m
  · rw [(h2 hs).1, he]
  · exact (h1 hs).1

/-! ## 5. `send` -/

theorem send_step (K : Crypto) (m : Bytes) (s : MState) (a : List Bytes × Option Err) (s' : MState)
    (h : runM (send K m) s = .ok (.ok a, s')) :
    (isOTREnabled s.conv.policies = true → s'.conv.injections = [] ∧ s.conv.injections <:+: a.1) ∧
    (isOTREnabled s.conv.policies = false → s'.conv.injections = s.conv.injections ∧ a.1 = [m]) := by
  unfold send at h
  obtain ⟨c, s1, h1, h2⟩ := runM_bind_ok_inv h
  simp only [runM_getc, Res.ok.injEq, Prod.mk.injEq, Except.ok.injEq] at h1
  obtain ⟨rfl, rfl⟩ := h1
  clear h
  split at h2
  · rename_i hd
    simp only [runM_pure, Res.ok.injEq, Prod.mk.injEq, Except.ok.injEq] at h2
    rw [← h2.1, ← h2.2]
    refine ⟨fun hc => ?_, fun _ => ⟨rfl, rfl⟩⟩
    rw [hc] at hd; cases hd
  · rename_i hd
    have hen : isOTREnabled s.conv.policies = true := by
      cases hx : isOTREnabled s.conv.policies with
      | true => rfl
      | false => rw [hx] at hd; exact absurd rfl hd
    refine ⟨fun _ => ?_, fun hn => by rw [hen] at hn; cases hn⟩
    refine (?_ : Drains Prod.fst _) s a s' h2
    repeat' (first
      | with_reducible exact Drains.fin _ _ _ (fun _ => rfl)
      | with_reducible refine Drains.grows_bind (by with_unfolding_all gr_walk) (fun _ => ?_)
      | split | dsimp only)

/-- **A (Send).**  For every crypto record, every state and every text: a `Send` that does not panic returns a
    value (it never throws); unless OTR is disabled by the policies it ends with NO reply pending and the
    messages it hands out contain, in one piece and in order, every reply that was pending when it started
    (also when it reports an error: encryption failed, conversation finished).  With OTR disabled it hands out
    the text and leaves the pending replies as they were. -/
theorem send_drains_injections (K : Crypto) (m : Bytes) (s : MState) (r : Except Err (List Bytes × Option Err))
    (s' : MState) (h : runM (send K m) s = .ok (r, s')) :
    ∃ v, r = .ok v ∧
      (isOTREnabled s.conv.policies = true → s'.conv.injections = [] ∧ s.conv.injections <:+: v.1) ∧
      (isOTREnabled s.conv.policies = false → s'.conv.injections = s.conv.injections ∧ v.1 = [m]) := by
  cases r with
  | error e => exact absurd h (send_nt K m s e s')
  | ok v => exact ⟨v, rfl, send_step K m s v s' h⟩

theorem send_injections_empty (K : Crypto) (m : Bytes) (s : MState) (r : Except Err (List Bytes × Option Err))
    (s' : MState) (h : runM (send K m) s = .ok (r, s')) (he : s.conv.injections = []) :
    s'.conv.injections = [] := by
  obtain ⟨v, -, h1, h2⟩ := send_drains_injections K m s r s' h
  cases hx : isOTREnabled s.conv.policies with
  | true => exact (h1 hx).1
  | false => rw [(h2 hx).1, he]

/-! ## 6. whole API calls and histories -/

/-- **every API call, every argument, every environment**: a call that starts with no reply pending ends with
    no reply pending (whether it returns or throws) -/
theorem apiCall_injections_empty (K : Crypto) (call : ApiCall) (s : MState) (r : Except Err Unit) (s' : MState)
    (h : runM (call.run K) s = .ok (r, s')) (he : s.conv.injections = []) : s'.conv.injections = [] := by
  by_cases hc : (∀ m, call ≠ .receive m) ∧ (∀ m, call ≠ .send m)
  · rw [apiCall_injections_kept_partial K call s r s' h hc, he]
  · cases call with
    | receive m => obtain ⟨r0, h0⟩ := runM_drop _ _ _ _ h; exact receive_injections_empty K m s r0 s' h0 he
    | send m => obtain ⟨r0, h0⟩ := runM_drop _ _ _ _ h; exact send_injections_empty K m s r0 s' h0 he
    | _ => exact absurd ⟨fun _ => by simp, fun _ => by simp⟩ hc

theorem runApi_injections_empty (K : Crypto) (steps : List ApiStep) : ∀ (c c' : Conv),
    c.injections = [] → runApi K c steps = .ok c' → c'.injections = [] := by
  induction steps with
  | nil =>
    intro c c' he h
    simp only [runApi, Res.ok.injEq] at h
    subst h; exact he
  | cons st rest ih =>
    intro c c' he h
    simp only [runApi] at h
    cases hr : runM (st.call.run K) { conv := c, env := st.env } with
    | panic p => rw [hr] at h; cases h
    | ok v =>
      obtain ⟨r, s'⟩ := v
      rw [hr] at h
      exact ih s'.conv c' (apiCall_injections_empty K st.call _ r s' hr he) h

/-- **pending replies over whole histories (C19 / C06).**  For every crypto record (with `CryptoOK`), every fresh
    conversation and every sequence of API calls with arbitrary arguments, randomness/signing tapes and clocks:
    the run ends without panic, and in the final conversation (hence after every prefix, i.e. between any two
    calls) NO reply is pending: replies to rejected traffic do not accumulate, and a reply is handed out by the
    very call that produced it. -/
theorem api_injections_empty (K : Crypto) (hK : CryptoOK K) (version : Option Version) (policies : Policies)
    (keys : List DsaPub) (fragmentSize : Nat) (errHandler : Bool) (friendlyQuery : Bytes) (ourTag : Nat)
    (steps : List ApiStep) :
    ∃ c, runApi K (freshConv version policies keys fragmentSize errHandler friendlyQuery ourTag) steps = .ok c ∧
      c.injections = [] := by
  obtain ⟨c, hr, -⟩ := api_sequence_no_panic_fresh K hK version policies keys fragmentSize errHandler
    friendlyQuery ourTag steps
  exact ⟨c, hr, runApi_injections_empty K steps _ c rfl hr⟩

/-- the bound asked for, as a corollary -/
theorem api_injections_bounded (K : Crypto) (hK : CryptoOK K) (version : Option Version) (policies : Policies)
    (keys : List DsaPub) (fragmentSize : Nat) (errHandler : Bool) (friendlyQuery : Bytes) (ourTag : Nat)
    (steps : List ApiStep) :
    ∃ c, runApi K (freshConv version policies keys fragmentSize errHandler friendlyQuery ourTag) steps = .ok c ∧
      c.injections.length ≤ 0 := by
  obtain ⟨c, hr, he⟩ := api_injections_empty K hK version policies keys fragmentSize errHandler friendlyQuery
    ourTag steps
  exact ⟨c, hr, by rw [he]; exact Nat.le_refl _⟩

/-! ## 7. non-vacuity, and the paths that do not drain -/

/-- non-vacuity of `receive_drains_injections` (draining case): a plain text arrives while a reply is pending -/
example (K : Crypto) :
    ∃ v s', runM (receive K [104, 105]) ⟨{ policies := allowV3, injections := [[1, 2]] }, {}, [], []⟩ = .ok (.ok v, s') ∧
      ¬ receiveSkips ({ policies := allowV3, injections := [[1, 2]] } : Conv) [104, 105] ∧
      v.toSend = [[1, 2]] ∧ s'.conv.injections = [] :=
  ⟨_, _, rfl, by decide, rfl, rfl⟩

/-- the path that does not drain, 1: OTR disabled by the policies (as in the Go code: `Receive` returns the
    message before `withInjectionsPlain`); unreachable with a reply pending by `api_injections_empty` -/
example (K : Crypto) :
    ∃ v s', runM (receive K [104, 105]) ⟨{ policies := 0, injections := [[1, 2]] }, {}, [], []⟩ = .ok (.ok v, s') ∧
      receiveSkips ({ policies := 0, injections := [[1, 2]] } : Conv) [104, 105] ∧
      v.toSend = [] ∧ s'.conv.injections = [[1, 2]] :=
  ⟨_, _, rfl, by decide, rfl, rfl⟩

/-- the path that does not drain, 2: a version-1 key exchange message (`?OTR:AAEK…`) is rejected at once -/
example (K : Crypto) :
    ∃ v s', runM (receive K (strBytes "?OTR:AAEK")) ⟨{ policies := allowV3, injections := [[1, 2]] }, {}, [], []⟩ =
        .ok (.ok v, s') ∧
      receiveSkips ({ policies := allowV3, injections := [[1, 2]] } : Conv) (strBytes "?OTR:AAEK") ∧
      v.toSend = [] ∧ v.err = some .unsupportedVersion ∧ s'.conv.injections = [[1, 2]] :=
  ⟨_, _, rfl, by decide, rfl, rfl, rfl⟩

/-- non-vacuity of `send_drains_injections`: `Send` in a finished conversation reports the error and still
    hands out the pending reply -/
example (K : Crypto) :
    ∃ v s', runM (send K [104, 105])
        ⟨{ policies := allowV3, msgState := .finished, injections := [[1, 2]] }, {}, [], []⟩ = .ok (.ok v, s') ∧
      v.1 = [[1, 2]] ∧ v.2.isSome = true ∧ s'.conv.injections = [] :=
  ⟨_, _, rfl, rfl, rfl, rfl⟩

/-- `Send` with OTR disabled does not drain (as in the Go code) -/
example (K : Crypto) :
    ∃ v s', runM (send K [104, 105]) ⟨{ policies := 0, injections := [[1, 2]] }, {}, [], []⟩ = .ok (.ok v, s') ∧
      v.1 = [[104, 105]] ∧ s'.conv.injections = [[1, 2]] :=
  ⟨_, _, rfl, rfl, rfl⟩

/-- a reply produced and handed out by the same call: `Send` in an encrypted conversation without usable keys,
    with an error handler: the error reply `?OTR Error: E0` is in the result, nothing stays pending -/
example (K : Crypto) :
    ∃ v s', runM (send K [104, 105])
        ⟨{ policies := allowV3, errHandler := true, msgState := .encrypted }, {}, [], []⟩ = .ok (.ok v, s') ∧
      v.1.length = 1 ∧ v.2.isSome = true ∧ s'.conv.injections = [] :=
  ⟨_, _, rfl, by decide, by decide, rfl⟩

end Otr
