/-
  Proofs.Fixes5 — theorems about the repair of `processDisconnectedTLV` mirrored in the model (Otr/Conv.lean):
  when the peer's disconnect TLV arrives, the MAC keys of the conversation that ends are no longer thrown away
  with the rest of the key context; they wait in the reveal queue for the first data message of the next
  conversation, as they already did after `End` (`endSession`) and across a re-keying (`akeHasFinished`).

  §1  the call: processDisconnectedTLV_keys (exact key context), processDisconnectedTLV_keeps_keys_to_reveal
        (no DH keys, key ids 0, no counters, no MAC history, queue = old queue ++ keys of the old MAC history),
        processDisconnectedTLV_loses_no_mac_key, processDisconnectedTLV_queue_length (exact) / _queue_bound
        (≤ |old queue| + 4 from a bounded context); disconnect_then_ake_reveals (peer disconnect, then a completed
        key exchange: the old queue and every key of the old MAC history are in the new reveal queue);
        (Proofs.Fixes5Send: disconnect_then_ake_next_message_reveals — hence in the reveal field of the next data
        message, which empties the queue; separate because Proofs.Fixes2 can not be imported with Proofs.NoPanic).
  §2  key-context histories (Proofs.KeysRefine): after the disconnect the key context is dead — no step changes it,
        `End` and a further disconnect keep the queue (Keys.Dead.histE, disc_queue_kept_histE, disc_queue_bound_histE:
        the bound holds until a key exchange completes);
        Keys.Pending (a MAC key waits in the queue or in the MAC history), KStep'.pending,
        SessionBoundary.pending / .queued, and
        khist_mac_keys_never_lost: along EVERY history of steps and session boundaries (key exchanges, `End`,
        disconnects) a pending MAC key stays pending until a complete send reveals it (`RevealedIn`) — false
        before this repair (the disconnect boundary dropped them); runApi_mac_keys_never_lost (API level).
  §3  the hypotheses are satisfiable: a concrete conversation that is disconnected and re-keyed.
-/
import Proofs.ConvLife
import Proofs.KeysRefine
set_option linter.unusedSimpArgs false
set_option linter.unusedVariables false
namespace Otr

/-! ## 1. the call -/

/-- the key context after the peer's disconnect TLV, exactly: the zero value but for the reveal queue, which holds
    the old queue followed by the keys of the old MAC history (in its order) -/
theorem processDisconnectedTLV_keys (s : MState) (r : Except Err Unit) (s' : MState)
    (h : runM processDisconnectedTLV s = .ok (r, s')) :
    s'.conv.keys =
      { oldMACKeys := s.conv.keys.oldMACKeys ++ s.conv.keys.macHistory.map (fun u : MacUse => u.key) } := by
  rw [processDisconnectedTLV_run] at h
  simp only [Res.ok.injEq, Prod.mk.injEq] at h
  rw [← h.2]

/-- **repaired code (C08/C09).**  After `processDisconnectedTLV` the key context has no DH keys (ours: current
    and previous; the peer's: current and previous), key ids 0, no counters and no MAC history; the reveal queue
    is the old queue followed by the keys of the old MAC history -/
theorem processDisconnectedTLV_keeps_keys_to_reveal (s : MState) (r : Except Err Unit) (s' : MState)
    (h : runM processDisconnectedTLV s = .ok (r, s')) :
    s'.conv.keys.ourCur = none ∧ s'.conv.keys.ourPrev = none ∧
    s'.conv.keys.theirCur = none ∧ s'.conv.keys.theirPrev = none ∧
    s'.conv.keys.ourKeyID = 0 ∧ s'.conv.keys.theirKeyID = 0 ∧
    s'.conv.keys.counters = [] ∧ s'.conv.keys.macHistory = [] ∧
    s'.conv.keys.oldMACKeys =
      s.conv.keys.oldMACKeys ++ s.conv.keys.macHistory.map (fun u : MacUse => u.key) := by
  rw [processDisconnectedTLV_keys s r s' h]
  exact ⟨rfl, rfl, rfl, rfl, rfl, rfl, rfl, rfl, rfl⟩

/-- no MAC key that is still to be disclosed is lost by the peer's disconnect -/
theorem processDisconnectedTLV_loses_no_mac_key (s : MState) (r : Except Err Unit) (s' : MState)
    (h : runM processDisconnectedTLV s = .ok (r, s')) :
    (∀ k ∈ s.conv.keys.oldMACKeys, k ∈ s'.conv.keys.oldMACKeys) ∧
    (∀ u ∈ s.conv.keys.macHistory, u.key ∈ s'.conv.keys.oldMACKeys) := by
  rw [(processDisconnectedTLV_keeps_keys_to_reveal s r s' h).2.2.2.2.2.2.2.2]
  exact ⟨fun k hk => List.mem_append_left _ hk, fun u hu => List.mem_append_right _ (List.mem_map_of_mem hu)⟩

/-- the length of the reveal queue after the disconnect, exactly -/
theorem processDisconnectedTLV_queue_length (s : MState) (r : Except Err Unit) (s' : MState)
    (h : runM processDisconnectedTLV s = .ok (r, s')) :
    s'.conv.keys.oldMACKeys.length = s.conv.keys.oldMACKeys.length + s.conv.keys.macHistory.length := by
  rw [(processDisconnectedTLV_keeps_keys_to_reveal s r s' h).2.2.2.2.2.2.2.2, List.length_append, List.length_map]

/-- **bound (C19).**  From a bounded key context (`Keys.Bnd`: what every conversation driven through the API
    has, `runApi_bounded`) the disconnect adds at most 4 keys to the reveal queue, and the context stays bounded -/
theorem processDisconnectedTLV_queue_bound (s : MState) (r : Except Err Unit) (s' : MState)
    (hb : s.conv.keys.Bnd) (h : runM processDisconnectedTLV s = .ok (r, s')) :
    s'.conv.keys.oldMACKeys.length ≤ s.conv.keys.oldMACKeys.length + 4 ∧ s'.conv.keys.Bnd := by
  refine ⟨?_, ?_⟩
  · rw [processDisconnectedTLV_queue_length s r s' h]
    have := hb.lengths.2
    omega
  · rw [processDisconnectedTLV_keys s r s' h]
    exact .inr ⟨rfl, rfl, .inl rfl⟩

/-- **repaired code (C09): peer disconnect, then a completed key exchange.**  `s1` is the state after the peer's
    disconnect; `s2` is any later state whose reveal queue still holds what `s1`'s held (nothing touches the key
    context in between: `disc_queue_kept_histE`) and in which a key exchange is about to complete.  Then every key
    waiting in the reveal queue before the disconnect, and the key of every entry of the MAC history before the
    disconnect, is in the reveal queue of the new conversation. -/
theorem disconnect_then_ake_reveals (K : Crypto) (s s1 s2 s3 : MState) (r1 : Except Err Unit) (a : Ake)
    (r3 : Except Err (Option Err))
    (h1 : runM processDisconnectedTLV s = .ok (r1, s1))
    (hq : ∀ b ∈ s1.conv.keys.oldMACKeys, b ∈ s2.conv.keys.oldMACKeys)
    (ha : s2.conv.ake = some a)
    (h3 : runM (akeHasFinished K) s2 = .ok (r3, s3)) :
    (∀ k ∈ s.conv.keys.oldMACKeys, k ∈ s3.conv.keys.oldMACKeys) ∧
    (∀ u ∈ s.conv.keys.macHistory, u.key ∈ s3.conv.keys.oldMACKeys) := by
  obtain ⟨d1, d2⟩ := processDisconnectedTLV_loses_no_mac_key s r1 s1 h1
  obtain ⟨c1, -⟩ := akeHasFinished_carries_mac_keys K s2 a ha r3 s3 h3
  exact ⟨fun k hk => c1 _ (hq _ (d1 k hk)), fun u hu => c1 _ (hq _ (d2 u hu))⟩

/-! ## 2. histories of the key context -/

/-- the key context the disconnect boundary leaves -/
def Keys.afterDisc (k : Keys) : Keys :=
  { oldMACKeys := k.oldMACKeys ++ k.macHistory.map (fun u : MacUse => u.key) }

theorem SessionBoundary.disc' {K} (k : Keys) : SessionBoundary K k k.afterDisc := .disc k

theorem Keys.afterDisc_dead (k : Keys) : k.afterDisc.Dead := ⟨rfl, rfl, .inl rfl⟩

/-- a dead key context (no counters, no MAC history, a key id 0) goes nowhere as long as no key exchange
    completes: steps are impossible, `End` and a further disconnect keep the reveal queue -/
theorem Keys.Dead.histE {K} {k k' : Keys} (h : k.Dead) (hs : KHistE K k k') :
    k'.Dead ∧ k'.oldMACKeys = k.oldMACKeys := by
  induction hs with
  | refl => exact ⟨h, rfl⟩
  | step _ hs ih => rw [ih.1.step' hs]; exact ih
  | endS _ ih => exact ⟨⟨ih.1.1, ih.1.2.1, ih.1.2.2⟩, ih.2⟩
  | @disc k1 _ ih =>
    refine ⟨⟨rfl, rfl, .inl rfl⟩, ?_⟩
    show k1.oldMACKeys ++ k1.macHistory.map (fun u : MacUse => u.key) = _
    rw [ih.1.2.1, List.map_nil, List.append_nil, ih.2]

/-- after the peer's disconnect the reveal queue stays exactly what the disconnect left, whatever happens short
    of a completed key exchange -/
theorem disc_queue_kept_histE {K} {k k' : Keys} (hs : KHistE K k.afterDisc k') :
    k'.oldMACKeys = k.oldMACKeys ++ k.macHistory.map (fun u : MacUse => u.key) :=
  (k.afterDisc_dead.histE hs).2

/-- **bound (C19) after a disconnect**: from a bounded key context, the reveal queue holds at most
    |old queue| + 4 keys until the next key exchange completes (no data message can be sent before) -/
theorem disc_queue_bound_histE {K} {k k' : Keys} (hb : k.Bnd) (hs : KHistE K k.afterDisc k') :
    k'.oldMACKeys.length ≤ k.oldMACKeys.length + 4 := by
  rw [disc_queue_kept_histE hs, List.length_append, List.length_map]
  have := hb.lengths.2
  omega

/-- the MAC key `b` is still to be disclosed: it waits in the reveal queue, or it is the key of an entry of the MAC
    history (a key used to accept a message — or recorded when sending — whose pair is still in the window) -/
def Keys.Pending (k : Keys) (b : Bytes) : Prop := b ∈ k.oldMACKeys ∨ ∃ u ∈ k.macHistory, u.key = b

/-- somewhere in the history from `k0` to `k` a complete send (`KStep.send`: a data message was generated with
    its header) happened in a state whose reveal queue held `b`: the message carried `b`
    (`genDataMsgWithFlag_outcome`: `dm.oldMACKeys` is the whole queue) -/
def RevealedIn (K : Crypto) (k0 k : Keys) (b : Bytes) : Prop :=
  ∃ n1 n2 k1, KHist K n1 k0 k1 ∧ b ∈ k1.oldMACKeys ∧
    (∃ sk, k1.deriveSessionKeys K (k1.ourKeyID - 1) k1.theirKeyID = .ok sk) ∧ KHist K n2 (k1.afterSend K) k

theorem RevealedIn.extend {K k0 k k' b n} (h : RevealedIn K k0 k b) (hs : KHist K n k k') : RevealedIn K k0 k' b := by
  obtain ⟨n1, n2, k1, h1, hb, hd, h2⟩ := h
  exact ⟨n1, _, k1, h1, hb, hd, h2.trans hs⟩

theorem afterSendAbort_old (K : Crypto) (k : Keys) : (k.afterSendAbort K).oldMACKeys = k.oldMACKeys := rfl

theorem afterSendAbort_mac (K : Crypto) (k : Keys) :
    (k.afterSendAbort K).macHistory =
      addMacKey k.macHistory (k.ourKeyID - 1) k.theirKeyID (k.recvMACOf K (k.ourKeyID - 1) k.theirKeyID) := rfl

theorem afterCheck_mac (K : Crypto) (k : Keys) (r s n : Nat) :
    (k.afterCheck K r s n).macHistory = addMacKey k.macHistory r s (k.recvMACOf K r s) := by
  unfold Keys.afterCheck
  rw [checkMessageCounter_fst]
  rfl

/-- one step: a pending key stays pending, unless the step is a complete send and the key was in the queue (then
    the message has just revealed it) -/
theorem KStep'.pending {K} {k k' : Keys} {b : Bytes} (hs : KStep' K k k') (hp : k.Pending b) :
    k'.Pending b ∨
    (b ∈ k.oldMACKeys ∧ k' = k.afterSend K ∧
      ∃ sk, k.deriveSessionKeys K (k.ourKeyID - 1) k.theirKeyID = .ok sk) := by
  cases hs with
  | base hbs =>
    cases hbs with
    | recv r s n y p hacc =>
      left
      rcases hp with hq | ⟨u, hu, rfl⟩
      · left; rw [afterAccept_old]; exact List.mem_append_left _ hq
      · rcases kept_or_disclosed (K := K) k r s (addMacKey_mem_old r s (k.recvMACOf K r s) hu) with hk | hd
        · right; exact ⟨u, by rw [afterAccept_mac]; exact hk, rfl⟩
        · left; rw [afterAccept_old]; exact List.mem_append_right _ (List.mem_map_of_mem hd)
    | send hd =>
      rcases hp with hq | ⟨u, hu, rfl⟩
      · right; exact ⟨hq, rfl, hd⟩
      · left; right
        have h : u ∈ (k.afterSend K).macHistory := addMacKey_mem_old _ _ _ hu
        exact ⟨u, h, rfl⟩
    | reject => exact .inl hp
  | recvNoRot r s n hacc _ =>
    left
    rcases hp with hq | ⟨u, hu, rfl⟩
    · left; rw [afterCheck_old]; exact hq
    · right; exact ⟨u, by rw [afterCheck_mac]; exact addMacKey_mem_old _ _ _ hu, rfl⟩
  | replay r s hd => exact .inl hp
  | sendAbort hd =>
    left
    rcases hp with hq | ⟨u, hu, rfl⟩
    · left; exact hq
    · right; exact ⟨u, by rw [afterSendAbort_mac]; exact addMacKey_mem_old _ _ _ hu, rfl⟩

/-- a session boundary keeps every pending key pending … -/
theorem SessionBoundary.pending {K} {k k' : Keys} {b : Bytes} (hb : SessionBoundary K k k') (hp : k.Pending b) :
    k'.Pending b := by
  cases hb with
  | ake ak r hc =>
    left
    rw [generateNewDHKeyPair_oldMACKeys]
    refine List.mem_append_right _ ?_
    rcases hp with hq | ⟨u, hu, rfl⟩
    · exact List.mem_append_left _ hq
    · exact List.mem_append_right _ (List.mem_map_of_mem hu)
  | endS => exact hp
  | disc =>
    left
    rcases hp with hq | ⟨u, hu, rfl⟩
    · exact List.mem_append_left _ hq
    · exact List.mem_append_right _ (List.mem_map_of_mem hu)

/-- … and the two boundaries that wipe the MAC history (a completed key exchange, the peer's disconnect) put it
    in the reveal queue -/
theorem SessionBoundary.queued {K} {k k' : Keys} {b : Bytes} (hb : SessionBoundary K k k') (hp : k.Pending b)
    (hne : k' ≠ { k with ourCur := none, ourPrev := none, theirCur := k.theirCur.map (fun _ => 0) }) :
    b ∈ k'.oldMACKeys := by
  cases hb with
  | ake ak r hc =>
    rw [generateNewDHKeyPair_oldMACKeys]
    refine List.mem_append_right _ ?_
    rcases hp with hq | ⟨u, hu, rfl⟩
    · exact List.mem_append_left _ hq
    · exact List.mem_append_right _ (List.mem_map_of_mem hu)
  | endS => exact absurd rfl hne
  | disc =>
    rcases hp with hq | ⟨u, hu, rfl⟩
    · exact List.mem_append_left _ hq
    · exact List.mem_append_right _ (List.mem_map_of_mem hu)

/-- **C09 (repaired code): no MAC key that is to be disclosed is ever lost.**  Along every history of the key
    context — key-management steps and session boundaries: completed key exchanges, `End`, the peer's disconnect —
    a MAC key that waits in the reveal queue or in the MAC history keeps waiting there, until a data message
    that was generated completely carries it in its reveal field.  (Before the repair of `processDisconnectedTLV`
    the disconnect boundary dropped all of them.) -/
theorem khist_mac_keys_never_lost {K n k0 k} (h : KHist K n k0 k) {b : Bytes} (hp : k0.Pending b) :
    k.Pending b ∨ RevealedIn K k0 k b := by
  induction h with
  | refl => exact .inl hp
  | @step n k0' k1 k2 hh hs ih =>
    rcases ih hp with ih | ih
    · rcases hs.pending ih with h2 | ⟨hq, rfl, hd⟩
      · exact .inl h2
      · exact .inr ⟨_, 0, k1, hh, hq, hd, .refl _⟩
    · exact .inr (ih.extend (.ofStep hs))
  | @boundary n k0' k1 k2 hh hb ih =>
    rcases ih hp with ih | ih
    · exact .inl (hb.pending ih)
    · exact .inr (ih.extend (.ofBoundary hb))

/-- the same along an API history (no hypothesis on the cryptography): from a conversation with a clean AKE key
    context, whenever the sequence of calls runs to the end -/
theorem runApi_mac_keys_never_lost (K : Crypto) (steps : List ApiStep) (c c' : Conv) (hc : AkeClean c)
    (hr : runApi K c steps = .ok c') (b : Bytes) (hp : c.keys.Pending b) :
    c'.keys.Pending b ∨ RevealedIn K c.keys c'.keys b := by
  obtain ⟨-, n, hn⟩ := runApi_keys_refine K steps c c' hc hr
  exact khist_mac_keys_never_lost hn hp

/-! ## 3. the hypotheses are satisfiable -/

/-- an encrypted conversation some messages in (key context `Keys.example1`: queue `[0xCC]`, MAC history
    `[0xAA]`, `[0xBB]`) -/
def discExample : MState := ⟨{ msgState := .encrypted, keys := Keys.example1 }, {}, [], []⟩

/-- the state after the peer's disconnect: only the three keys to be revealed remain, GoneInsecure is raised -/
def discExample1 : MState :=
  ⟨{ msgState := .finished, keys := { oldMACKeys := [[0xCC], [0xAA], [0xBB]] } }, {}, ["sec:0"], []⟩

theorem discExample_run : runM processDisconnectedTLV discExample = .ok (.ok (), discExample1) := by
  rw [processDisconnectedTLV_run]; rfl

example : Keys.example1.Bnd := .inl ⟨by decide, by decide, ⟨by decide, by decide⟩, ⟨by decide, by decide⟩⟩

/-- … then a key exchange completes (an AKE context with the zero key context): whatever the cryptography, the run
    exists and all three keys are in the new reveal queue, as `disconnect_then_ake_reveals` says -/
example (K : Crypto) : ∃ r3 s3,
    runM (akeHasFinished K) { discExample1 with conv := { discExample1.conv with ake := some {} } } = .ok (r3, s3) ∧
    [0xCC] ∈ s3.conv.keys.oldMACKeys ∧ [0xAA] ∈ s3.conv.keys.oldMACKeys ∧ [0xBB] ∈ s3.conv.keys.oldMACKeys := by
  obtain ⟨r0, env', mm', -, h3⟩ := akeHasFinished_run K
    { discExample1 with conv := { discExample1.conv with ake := some {} } } {} rfl
  refine ⟨_, _, h3, ?_⟩
  obtain ⟨c1, c2⟩ := disconnect_then_ake_reveals K discExample discExample1
    { discExample1 with conv := { discExample1.conv with ake := some {} } } _ _ {} _ discExample_run
    (fun b hb => hb) rfl h3
  exact ⟨c1 _ (by decide), c2 ⟨2, 1, [0xAA]⟩ (by decide), c2 ⟨2, 2, [0xBB]⟩ (by decide)⟩

/-- pending keys of the example, and the disconnect boundary in a history -/
example : Keys.example1.Pending [0xAA] := .inr ⟨⟨2, 1, [0xAA]⟩, by decide, rfl⟩
example : KHist Crypto.dummy 1 Keys.example1 { oldMACKeys := [[0xCC], [0xAA], [0xBB]] } := .ofBoundary (.disc _)
example : KHistE Crypto.dummy Keys.example1.afterDisc Keys.example1.afterDisc := .refl _
/-- the statement before the repair (`keys = {}` after the disconnect) is false for this conversation -/
example : discExample1.conv.keys ≠ {} := by decide

end Otr
