/-
  Proofs.RecvSmp — the SMP success guard of C12 and the SMP event discipline, lifted from the TLV handler
  `processSMPTLV` to the whole of `Conversation.Receive` (every state, every byte string, fragments included) and
  to the API calls.  Rests on Proofs.RecvGuards (`receive_kind`: every call is `Post`-steps only, or `Pre`-steps,
  `receiveDataMessage` | `processAKE` on the decoded leaf, `Post`-steps; `receiveDataMessage_core`) and on
  `c12_success_event_guard` of Proofs.Smp.

  1  `SmpDead`, `SmpReach`   : what the TLVs of one data message can make of the SMP component — nothing; a state from
                               which no message leads to success (nil, EXPECT1, waiting for the secret); or, from
                               EXPECT2, EXPECT4 with a fresh third-message state.  `processSMPTLV_reach` (weakest
                               preconditions of Proofs.Smp).  `SmpReach.expect3/expect4`.
  2  `SmpQ`                  : frame "SMP component kept, no `smp:` entry appended"; `processAKE_sq` (a key exchange
                               message, in every authentication state, is quiet for SMP); `Post.smpQ`
  3  `SmpGuarded K tlvs`     : frame of the data path of an accepted message; `SuccessAt`; `processSMPTLV_sg`,
                               `processTLVs_sg` (`Stable.forIn_mem`), `acceptCont_sg`, `receiveDataMessage_sg`
  4  whole `Receive`         : `receive_no_smp_event_unless_data`, `receive_smp_success_guard`,
                               `receive_smp_success_cases`, `receive_smp_success_states`
  5  API calls               : `EvIn L` (the entries appended belong to `L`), `apiCall_events`, `ApiCall.mayLog`,
                               `api_smp_success_only_via_receive`
  6  witnesses               : `wDataSmp4_success` (success is raised), `wDataSmp24_success` (EXPECT2 → success in one
                               message: the second case of `SuccessCases` cannot be dropped), `wWaiting_cheated`
  No invariant and no `CryptoOK`: the only hypothesis on a run is that it does not panic.
-/
import Proofs.RecvGuards
import Proofs.Smp
set_option linter.unusedSimpArgs false
set_option linter.unusedVariables false
namespace Otr
open ConvData

/-! ## 1. what one data message can do to the SMP component -/

/-- SMP states from which no message can lead to success without an API call in between: nil, EXPECT1,
    waiting for the secret -/
def SmpDead (m : Smp) : Prop :=
  m.state = none ∨ m.state = some .expect1 ∨ ∃ q, m.state = some (.waitingForSecret q)

/-- what TLV processing within one data message can make of the SMP component `m`: nothing; a dead state; or —
    from EXPECT2, by an accepted SMP2 TLV — the same component with the third-message state filled in, in EXPECT4
    (EXPECT2 only between the two assignments) -/
def SmpReach (m m' : Smp) : Prop :=
  m' = m ∨ SmpDead m' ∨
  (m.state = some .expect2 ∧ ∃ s3 st', (st' = .expect2 ∨ st' = .expect4) ∧
    m' = { m with s3 := some s3, state := some st' })

theorem SmpReach.refl (m : Smp) : SmpReach m m := Or.inl rfl

theorem SmpDead.not_expect2 {m : Smp} (h : SmpDead m) : m.state ≠ some .expect2 := by
  rcases h with h | h | ⟨q, h⟩ <;> rw [h] <;> simp

theorem SmpReach.trans {a b c : Smp} (h1 : SmpReach a b) (h2 : SmpReach b c) : SmpReach a c := by
  rcases h1 with h1 | h1 | ⟨ha, s3, st', hst, hb⟩
  · rw [h1] at h2; exact h2
  · rcases h2 with h2 | h2 | ⟨hb, -⟩
    · rw [h2]; exact Or.inr (Or.inl h1)
    · exact Or.inr (Or.inl h2)
    · exact absurd hb h1.not_expect2
  · rcases h2 with h2 | h2 | ⟨hb2, s3', st'', hst', hc⟩
    · rw [h2]; exact Or.inr (Or.inr ⟨ha, s3, st', hst, hb⟩)
    · exact Or.inr (Or.inl h2)
    · refine Or.inr (Or.inr ⟨ha, s3', st'', hst', ?_⟩)
      rw [hc, hb]

/-- in EXPECT3 the component is the one the message found -/
theorem SmpReach.expect3 {m m' : Smp} (h : SmpReach m m') (h3 : m'.state = some .expect3) : m' = m := by
  rcases h with h | h | ⟨-, s3, st', hst, hb⟩
  · exact h
  · rcases h with h | h | ⟨q, h⟩ <;> rw [h] at h3 <;> cases h3
  · rw [hb] at h3
    rcases hst with h | h <;> rw [h] at h3 <;> cases h3

/-- in EXPECT4 it is the one the message found, or the message found EXPECT2 and an SMP2 TLV before this one was
    accepted (the third-message state `s3` is what `smp3Gen` made of it and fresh randomness) -/
theorem SmpReach.expect4 {m m' : Smp} (h : SmpReach m m') (h4 : m'.state = some .expect4) :
    m' = m ∨ (m.state = some .expect2 ∧ ∃ s3, m' = { m with s3 := some s3, state := some .expect4 }) := by
  rcases h with h | h | ⟨ha, s3, st', hst, hb⟩
  · exact Or.inl h
  · rcases h with h | h | ⟨q, h⟩ <;> rw [h] at h4 <;> cases h4
  · right
    refine ⟨ha, s3, ?_⟩
    rw [hb] at h4
    rcases hst with h | h
    · rw [h] at h4; cases h4
    · rw [hb, h]

attribute [local irreducible] SmpWP.WP

open SmpWP in
local macro "smp_wp_go'" : tactic => `(tactic| repeat' (first
    | (simp only [WP_bind, WP_getc, WP_pure, WP_ite, WP_modc, WP_ev, WP_throw, WP_goPanic,
        setSmpState, smpEvent, smpEventQ, smpAbortWith, smpWipe, smpIsGroupElement, Option.getD_some,
        optNat, paramLen])
    | intro _
    | apply And.intro
    | (refine WP_mono (randMPIs_frame _ _ _) ?_
       rintro _ ⟨_, _, _, _⟩ ⟨he, hc⟩
       simp only at he hc
       subst he hc)
    | (refine WP_mono (randRead_frame _ _) ?_
       rintro _ ⟨_, _, _, _⟩ ⟨he, hc⟩
       simp only at he hc
       subst he hc)
    | split))

theorem processSMPTLV_reach_wp (K : Crypto) (t : Tlv) (st : MState) :
    SmpWP.WP (processSMPTLV K t) (fun _ st' => SmpReach st.conv.smp st'.conv.smp) st := by
  unfold processSMPTLV
  smp_wp_go'
  all_goals first | exact Or.inl rfl | (exact Or.inr (Or.inl (Or.inr (Or.inl rfl)))) | (exact Or.inr (Or.inl (Or.inr (Or.inr ⟨_, rfl⟩)))) | skip
  all_goals (
    have hst : st.conv.smp.state = some .expect2 := by
      cases hs : st.conv.smp.state <;> simp_all
    exact Or.inr (Or.inr ⟨hst, _, _, Or.inr rfl, rfl⟩))

/-- **one SMP TLV**: what `processSMPTLV` makes of the SMP component is `SmpReach`able -/
theorem processSMPTLV_reach (K : Crypto) (t : Tlv) (s s' : MState) (r : Except Err (Option Tlv))
    (h : runM (processSMPTLV K t) s = .ok (r, s')) : SmpReach s.conv.smp s'.conv.smp :=
  SmpWP.WP_elim (processSMPTLV_reach_wp K t s) h

/-! ## 2. quiet for SMP: the frame `SmpQ` (SMP component kept, no `smp:` entry appended) -/

/-- a log entry of the SMP event family (`smp:…`) -/
def isSmpTag (e : String) : Bool := e.toList.take 4 == ['s', 'm', 'p', ':']

theorem isSmpTag_success : isSmpTag smpSuccessEvent = true := by decide

theorem isSmpTag_of_tlv_smp {e : String} (h : e.toList.take 4 = "smp:".toList) : isSmpTag e = true := by
  unfold isSmpTag; rw [h]; rfl

theorem notSmp_prefix (p x : String) (hp : p.toList.length = 4) (hne : p.toList ≠ ['s', 'm', 'p', ':']) :
    isSmpTag (p ++ x) = false := by
  unfold isSmpTag
  rw [String.toList_append, List.take_append_of_le_length (by omega), List.take_of_length_le (by omega)]
  simpa using hne

theorem notSmp_msg (x : String) : isSmpTag ("msg:" ++ x) = false := notSmp_prefix _ _ (by decide) (by decide)
theorem notSmp_key (x : String) : isSmpTag ("key:" ++ x) = false := notSmp_prefix _ _ (by decide) (by decide)
theorem notSmp_sec (x : String) : isSmpTag ("sec:" ++ x) = false := notSmp_prefix _ _ (by decide) (by decide)

theorem isMsgTag_notSmp {e : String} (h : isMsgTag e = true) : isSmpTag e = false := by
  unfold isMsgTag at h
  rw [beq_iff_eq] at h
  unfold isSmpTag
  rw [h]; rfl

/-- the events appended are `l`, all satisfying `P` -/
def EvP (P : String → Prop) (s s' : MState) : Prop := ∃ l, s'.events = s.events ++ l ∧ ∀ e ∈ l, P e

theorem EvP.refl (P : String → Prop) (s : MState) : EvP P s s := ⟨[], by simp, by simp⟩

theorem EvP.trans {P : String → Prop} {a b c : MState} (h1 : EvP P a b) (h2 : EvP P b c) : EvP P a c := by
  obtain ⟨e1, he1, hf1⟩ := h1
  obtain ⟨e2, he2, hf2⟩ := h2
  refine ⟨e1 ++ e2, by rw [he2, he1, List.append_assoc], ?_⟩
  intro e he
  rcases List.mem_append.1 he with h | h
  · exact hf1 e h
  · exact hf2 e h

theorem EvP.of_events_eq {P : String → Prop} {s s' : MState} (h : s'.events = s.events) : EvP P s s' :=
  ⟨[], by simp [h], by simp⟩

theorem EvP.mono {P Q : String → Prop} (h : ∀ e, P e → Q e) {s s' : MState} (hp : EvP P s s') : EvP Q s s' := by
  obtain ⟨l, he, hl⟩ := hp
  exact ⟨l, he, fun e hm => h e (hl e hm)⟩

theorem EvP.newEvents {P : String → Prop} {s s' : MState} (h : EvP P s s') : ∀ e ∈ newEvents s s', P e := by
  obtain ⟨l, he, hl⟩ := h
  rw [newEvents_of_append he]; exact hl

instance (P : String → Prop) : Frame (EvP P) where
  refl := EvP.refl P
  trans := EvP.trans

theorem MsgOnly.evP {s s' : MState} (h : MsgOnly s s') : EvP (fun e => isMsgTag e = true) s s' := h

/-- quiet for SMP: the SMP component is kept and no `smp:` entry is appended -/
def SmpQ (s s' : MState) : Prop := s'.conv.smp = s.conv.smp ∧ EvP (fun e => isSmpTag e = false) s s'

instance : Frame SmpQ where
  refl s := ⟨rfl, EvP.refl _ s⟩
  trans h1 h2 := ⟨h2.1.trans h1.1, EvP.trans h1.2 h2.2⟩

theorem SmpQ.conv {s : MState} {c : Conv} (h : c.smp = s.conv.smp) : SmpQ s { s with conv := c } :=
  ⟨h, EvP.of_events_eq rfl⟩
theorem SmpQ.mism (s : MState) (e : String) : SmpQ s { s with mismatch := s.mismatch ++ [e] } :=
  ⟨rfl, EvP.of_events_eq rfl⟩
theorem SmpQ.ev (s : MState) (e : String) (he : isSmpTag e = false) : SmpQ s { s with events := s.events ++ [e] } :=
  ⟨rfl, [e], rfl, by simpa using he⟩
theorem SmpQ.env {s : MState} {env' : Env} {mm' : List String} : SmpQ s { s with env := env', mismatch := mm' } :=
  ⟨rfl, EvP.of_events_eq rfl⟩

theorem Post.smpQ {s s' : MState} (h : Post s s') : SmpQ s s' :=
  ⟨h.fields.2.2.2.1, EvP.mono (fun _ => isMsgTag_notSmp) h.2.evP⟩

theorem SmpQ.ofSendFrame {α} {x : M α} (h : Stable SendFrame x) : Stable SmpQ x := by
  intro s r s' hr
  have hk := h s r s' hr
  simp only [Keeps, sendKept, Prod.mk.injEq] at hk
  obtain ⟨he, -, -, -, -, -, -, -, -, -, -, -, -, hsmp, -⟩ := hk
  exact ⟨hsmp, EvP.of_events_eq he⟩

/-- side condition of an `ev`: the entry is not an SMP event -/
macro "not_smp" : tactic => `(tactic| first
  | decide
  | (simp only [toString, String.append_assoc, notSmp_msg, notSmp_key, notSmp_sec]; done)
  | (simp only [msgEvent, msgEventMsg, msgEventErr, secEvent, toString, String.append_assoc,
      notSmp_msg, notSmp_key, notSmp_sec]; done))

macro "sq_leaf" : tactic => `(tactic| first
  | exact Stable.modc _ (fun _ => SmpQ.conv rfl)
  | (refine Stable.modc _ (fun s => SmpQ.conv ?_) <;> ((try dsimp only); split <;> rfl))
  | exact Stable.mism _ (fun s => SmpQ.mism s _)
  | exact Stable.ev _ (fun s => SmpQ.ev s _ (by not_smp)))

macro "sq_core" : tactic => `(tactic| first
  | exact Stable.pure _ | exact Stable.throw _ | exact Stable.goPanic _
  | exact Stable.getc | exact Stable.get | exact Stable.now
  | sq_leaf
  | with_reducible apply Stable.bind | with_reducible apply Stable.tryCatch
  | with_reducible apply Stable.ite | with_reducible apply Stable.map
  | with_reducible apply Stable.forIn)

/-- `sq_walk [lemmas]`: as `stable [lemmas]`, for the frame `SmpQ` -/
syntax "sq_walk" "[" term,* "]" : tactic
macro_rules
  | `(tactic| sq_walk [$ls,*]) => do
    let tacs ← ls.getElems.mapM fun l => `(tactic| with_reducible apply $l)
    `(tactic| repeat' (first | sq_core $[| $tacs:tactic]* | with_reducible intro _ | split | dsimp only))

theorem msgEvent_sq (n : Nat) : Stable SmpQ (msgEvent n) := by
  unfold msgEvent; sq_walk []
theorem randRead_sq (n : Nat) : Stable SmpQ (randRead n) :=
  randRead_stable (fun s env' mm' h => SmpQ.env) n
theorem randomInto_sq (n : Nat) : Stable SmpQ (randomInto n) := by
  unfold randomInto; sq_walk [randRead_sq]

theorem signOracle_sq (mb : Bytes) : Stable SmpQ (signOracle mb) := by
  intro s r s' h
  unfold signOracle at h
  simp only [runM_bind, runM_get, bindM_ok] at h
  split at h
  · simp only [runM_bind, runM_mism, bindM_ok, runM_pure, Res.ok.injEq, Prod.mk.injEq] at h
    rw [← h.2]; exact SmpQ.mism s _
  · simp only [runM_bind, runM_set, bindM_ok] at h
    split at h
    · simp only [runM_bind, runM_mism, bindM_ok, runM_pure, Res.ok.injEq, Prod.mk.injEq] at h
      rw [← h.2]
      exact ⟨rfl, EvP.of_events_eq rfl⟩
    · simp only [runM_pure, bindM_ok, Res.ok.injEq, Prod.mk.injEq] at h
      rw [← h.2]
      exact ⟨rfl, EvP.of_events_eq rfl⟩

theorem messageHeader_sq (t : Nat) : Stable SmpQ (messageHeader t) :=
  SmpQ.ofSendFrame (messageHeader_sendFrame t)
theorem wrapMessageHeader_sq (t : Nat) (m : Bytes) : Stable SmpQ (wrapMessageHeader t m) := by
  unfold wrapMessageHeader; sq_walk [messageHeader_sq]
theorem genDataMsgWithFlag_sq (K : Crypto) (m : Bytes) (f : Nat) (tlvs : List Tlv) :
    Stable SmpQ (genDataMsgWithFlag K m f tlvs) :=
  SmpQ.ofSendFrame (genDataMsgWithFlag_sendFrame K m f tlvs)
theorem updateLastSent_sq : Stable SmpQ updateLastSent := by
  unfold updateLastSent; sq_walk []

theorem getAke_sq : Stable SmpQ getAke := by
  unfold getAke; sq_walk []
theorem modAke_sq (f : Ake → Ake) : Stable SmpQ (modAke f) := by
  unfold modAke; sq_walk []
theorem optNat_sq (site : String) (v : Option Nat) : Stable SmpQ (optNat site v) := by
  unfold optNat; sq_walk []
theorem akeEncrypt_sq (K : Crypto) (key data : Bytes) : Stable SmpQ (akeEncrypt K key data) := by
  unfold akeEncrypt; sq_walk []
theorem resToM_sq {α} (r : Res α) : Stable SmpQ (resToM r) := by
  unfold resToM; sq_walk []
theorem initAKE_sq : Stable SmpQ initAKE := by
  unfold initAKE; sq_walk []
theorem setSecretExponent_sq (K : Crypto) (x : Bytes) : Stable SmpQ (setSecretExponent K x) := by
  unfold setSecretExponent; sq_walk [modAke_sq]
theorem generateEncryptedSignature_sq (K : Crypto) (key : AkeKeys) :
    Stable SmpQ (generateEncryptedSignature K key) := by
  unfold generateEncryptedSignature
  sq_walk [getAke_sq, optNat_sq, signOracle_sq, akeEncrypt_sq]
theorem calcAKEKeys_sq (K : Crypto) : Stable SmpQ (calcAKEKeys K) := by
  unfold calcAKEKeys; sq_walk [getAke_sq, optNat_sq, modAke_sq]
theorem serializeDHCommit_sq (K : Crypto) : Stable SmpQ (serializeDHCommit K) := by
  unfold serializeDHCommit; sq_walk [getAke_sq, optNat_sq]
theorem serializeDHKey_sq : Stable SmpQ serializeDHKey := by
  unfold serializeDHKey; sq_walk [getAke_sq, optNat_sq]
theorem dhKeyMessage_sq (K : Crypto) : Stable SmpQ (dhKeyMessage K) := by
  unfold dhKeyMessage
  sq_walk [initAKE_sq, randomInto_sq, setSecretExponent_sq, serializeDHKey_sq]
theorem revealSigMessage_sq (K : Crypto) : Stable SmpQ (revealSigMessage K) := by
  unfold revealSigMessage
  sq_walk [calcAKEKeys_sq, modAke_sq, getAke_sq, generateEncryptedSignature_sq, resToM_sq]
theorem sigMessage_sq (K : Crypto) : Stable SmpQ (sigMessage K) := by
  unfold sigMessage
  sq_walk [modAke_sq, getAke_sq, generateEncryptedSignature_sq, resToM_sq]
theorem processDHCommit_sq (m : Bytes) : Stable SmpQ (processDHCommit m) := by
  unfold processDHCommit; sq_walk [modAke_sq]
theorem processDHKey_sq (m : Bytes) : Stable SmpQ (processDHKey m) := by
  unfold processDHKey; sq_walk [modAke_sq, getAke_sq]
theorem processEncryptedSig_sq (K : Crypto) (es tm : Bytes) (keys : AkeKeys) :
    Stable SmpQ (processEncryptedSig K es tm keys) := by
  unfold processEncryptedSig; sq_walk [modAke_sq, getAke_sq, optNat_sq]
theorem processRevealSig_sq (K : Crypto) (m : Bytes) : Stable SmpQ (processRevealSig K m) := by
  unfold processRevealSig
  sq_walk [modAke_sq, getAke_sq, calcAKEKeys_sq, processEncryptedSig_sq]
theorem processSig_sq (K : Crypto) (m : Bytes) : Stable SmpQ (processSig K m) := by
  unfold processSig; sq_walk [getAke_sq, processEncryptedSig_sq]
theorem akeSetTheirCurrent_sq : Stable SmpQ akeSetTheirCurrent := by
  unfold akeSetTheirCurrent; sq_walk [modAke_sq, getAke_sq, optNat_sq]
theorem akeSetOurCurrent_sq : Stable SmpQ akeSetOurCurrent := by
  unfold akeSetOurCurrent; sq_walk [modAke_sq, getAke_sq, optNat_sq]
theorem recvDHCommitNone_sq (K : Crypto) (m : Bytes) : Stable SmpQ (recvDHCommitNone K m) := by
  unfold recvDHCommitNone akeTry
  sq_walk [modAke_sq, dhKeyMessage_sq, wrapMessageHeader_sq, processDHCommit_sq]
theorem recvDHCommit_sq (K : Crypto) (st : AuthState) (m : Bytes) : Stable SmpQ (recvDHCommit K st m) := by
  unfold recvDHCommit akeTry
  sq_walk [recvDHCommitNone_sq, modAke_sq, processDHCommit_sq, wrapMessageHeader_sq, serializeDHKey_sq,
    serializeDHCommit_sq, getAke_sq, optNat_sq]
theorem recvDHKey_sq (K : Crypto) (st : AuthState) (m : Bytes) : Stable SmpQ (recvDHKey K st m) := by
  unfold recvDHKey akeTry
  sq_walk [processDHKey_sq, revealSigMessage_sq, wrapMessageHeader_sq, akeSetTheirCurrent_sq,
    akeSetOurCurrent_sq, modAke_sq]
theorem retransmit_sq (K : Crypto) : Stable SmpQ (retransmit K) := by
  unfold retransmit
  sq_walk [genDataMsgWithFlag_sq, wrapMessageHeader_sq, msgEvent_sq, updateLastSent_sq]
theorem maybeRetransmit_sq (K : Crypto) : Stable SmpQ (maybeRetransmit K) := by
  unfold maybeRetransmit; sq_walk [retransmit_sq]
theorem retransmitAfterCompletedExchange_sq (K : Crypto) (b a : AuthState) (e : Option Err) :
    Stable SmpQ (retransmitAfterCompletedExchange K b a e) := by
  unfold retransmitAfterCompletedExchange
  sq_walk [maybeRetransmit_sq, genDataMsgWithFlag_sq, wrapMessageHeader_sq]
theorem akeHasFinished_sq (K : Crypto) : Stable SmpQ (akeHasFinished K) := by
  unfold akeHasFinished secEvent
  sq_walk [getAke_sq, modAke_sq, randRead_sq]
theorem recvRevealSig_sq (K : Crypto) (st : AuthState) (m : Bytes) : Stable SmpQ (recvRevealSig K st m) := by
  unfold recvRevealSig akeTry
  sq_walk [processRevealSig_sq, sigMessage_sq, wrapMessageHeader_sq, akeSetTheirCurrent_sq,
     akeSetOurCurrent_sq, modAke_sq, processSig_sq, akeHasFinished_sq]
theorem recvSig_sq (K : Crypto) (st : AuthState) (m : Bytes) : Stable SmpQ (recvSig K st m) := by
  unfold recvSig akeTry
  sq_walk [processRevealSig_sq, sigMessage_sq, wrapMessageHeader_sq, akeSetTheirCurrent_sq,
     akeSetOurCurrent_sq, modAke_sq, processSig_sq, akeHasFinished_sq]

/-- **a key exchange message never touches the SMP component and raises no SMP event** (in particular a new key
    exchange inside an encrypted conversation leaves an authentication in progress as it is) -/
theorem processAKE_sq (K : Crypto) (t : Nat) (m : Bytes) : Stable SmpQ (processAKE K t m) := by
  unfold processAKE
  sq_walk [initAKE_sq, getAke_sq, modAke_sq, recvDHCommit_sq, recvDHKey_sq, retransmitAfterCompletedExchange_sq,
    recvRevealSig_sq, recvSig_sq]

/-! ## 3. the data step: the frame `SmpGuarded` -/

theorem ne_success_of_notSmp {e : String} (h : isSmpTag e = false) : e ≠ smpSuccessEvent := by
  intro he; rw [he, isSmpTag_success] at h; cases h

/-- the condition under which the success event may appear in a data step that starts in `s` and processes the
    TLVs `tlvs`: one of them, `t`, met a state `st` — same protocol version, SMP component `SmpReach`able from
    the one of `s` — in which `SmpSuccessGuard K t st`, the conclusion of `c12_success_event_guard`, holds -/
def SuccessAt (K : Crypto) (tlvs : List Tlv) (s : MState) : Prop :=
  ∃ t ∈ tlvs, ∃ st : MState, SmpSuccessGuard K t st ∧ st.conv.version = s.conv.version ∧
    SmpReach s.conv.smp st.conv.smp

/-- a step of the data path while the TLVs `tlvs` are processed: the version is kept, the SMP component moves along
    `SmpReach`, and the success event is appended only under `SuccessAt` -/
def SmpGuarded (K : Crypto) (tlvs : List Tlv) (s s' : MState) : Prop :=
  s'.conv.version = s.conv.version ∧ SmpReach s.conv.smp s'.conv.smp ∧
  ∃ l, s'.events = s.events ++ l ∧ (smpSuccessEvent ∈ l → SuccessAt K tlvs s)

theorem SuccessAt.pre {K : Crypto} {tlvs : List Tlv} {a b : MState} (hv : b.conv.version = a.conv.version)
    (hr : SmpReach a.conv.smp b.conv.smp) (h : SuccessAt K tlvs b) : SuccessAt K tlvs a := by
  obtain ⟨t, ht, st, hg, hv', hr'⟩ := h
  exact ⟨t, ht, st, hg, hv'.trans hv, hr.trans hr'⟩

instance (K : Crypto) (tlvs : List Tlv) : Frame (SmpGuarded K tlvs) where
  refl s := ⟨rfl, SmpReach.refl _, [], by simp, by simp⟩
  trans := by
    rintro a b c ⟨v1, r1, l1, e1, g1⟩ ⟨v2, r2, l2, e2, g2⟩
    refine ⟨v2.trans v1, r1.trans r2, l1 ++ l2, by rw [e2, e1, List.append_assoc], fun hm => ?_⟩
    rcases List.mem_append.1 hm with h | h
    · exact g1 h
    · exact (g2 h).pre v1 r1

theorem SmpGuarded.of_quiet {K : Crypto} {tlvs : List Tlv} {s s' : MState} (hv : s'.conv.version = s.conv.version)
    (h : SmpQ s s') : SmpGuarded K tlvs s s' := by
  obtain ⟨hs, l, he, hl⟩ := h
  exact ⟨hv, Or.inl hs, l, he, fun hm => absurd rfl (ne_success_of_notSmp (hl _ hm))⟩

theorem SmpGuarded.conv {K : Crypto} {tlvs : List Tlv} {s : MState} {c : Conv} (hv : c.version = s.conv.version)
    (h : c.smp = s.conv.smp) : SmpGuarded K tlvs s { s with conv := c } :=
  SmpGuarded.of_quiet hv (SmpQ.conv h)
theorem SmpGuarded.dead {K : Crypto} {tlvs : List Tlv} {s : MState} {c : Conv} (hv : c.version = s.conv.version)
    (h : SmpDead c.smp) : SmpGuarded K tlvs s { s with conv := c } :=
  ⟨hv, Or.inr (Or.inl h), [], by simp, by simp⟩
theorem SmpGuarded.mism {K : Crypto} {tlvs : List Tlv} (s : MState) (e : String) :
    SmpGuarded K tlvs s { s with mismatch := s.mismatch ++ [e] } := SmpGuarded.of_quiet rfl (SmpQ.mism s e)
theorem SmpGuarded.ev {K : Crypto} {tlvs : List Tlv} (s : MState) (e : String) (he : isSmpTag e = false) :
    SmpGuarded K tlvs s { s with events := s.events ++ [e] } := SmpGuarded.of_quiet rfl (SmpQ.ev s e he)
theorem SmpGuarded.env {K : Crypto} {tlvs : List Tlv} {s : MState} {env' : Env} {mm' : List String} :
    SmpGuarded K tlvs s { s with env := env', mismatch := mm' } := SmpGuarded.of_quiet rfl SmpQ.env

theorem SmpGuarded.ofSendFrame {K : Crypto} {tlvs : List Tlv} {α} {x : M α} (h : Stable SendFrame x) :
    Stable (SmpGuarded K tlvs) x := by
  intro s r s' hr
  have hk := h s r s' hr
  have hq := SmpQ.ofSendFrame h s r s' hr
  simp only [Keeps, sendKept, Prod.mk.injEq] at hk
  exact SmpGuarded.of_quiet hk.2.2.2.1 hq

macro "sg_leaf" : tactic => `(tactic| first
  | exact Stable.modc _ (fun _ => SmpGuarded.conv rfl rfl)
  | (refine Stable.modc _ (fun s => SmpGuarded.conv ?_ ?_) <;> ((try dsimp only); split <;> rfl))
  | exact Stable.mism _ (fun s => SmpGuarded.mism s _)
  | exact Stable.ev _ (fun s => SmpGuarded.ev s _ (by not_smp)))

macro "sg_core" : tactic => `(tactic| first
  | exact Stable.pure _ | exact Stable.throw _ | exact Stable.goPanic _
  | exact Stable.getc | exact Stable.get | exact Stable.now
  | sg_leaf
  | with_reducible apply Stable.bind | with_reducible apply Stable.tryCatch
  | with_reducible apply Stable.ite | with_reducible apply Stable.map)

/-- `sg_walk [lemmas]`: as `stable [lemmas]`, for the frames `SmpGuarded K tlvs` -/
syntax "sg_walk" "[" term,* "]" : tactic
macro_rules
  | `(tactic| sg_walk [$ls,*]) => do
    let tacs ← ls.getElems.mapM fun l => `(tactic| with_reducible apply $l)
    `(tactic| repeat' (first | sg_core $[| $tacs:tactic]* | with_reducible intro _ | split | dsimp only))

/-- a loop whose body is stable for the elements of the list is stable -/
theorem Stable.forIn_mem {R : MState → MState → Prop} [Frame R] {γ σ : Type} (l : List γ) (init : σ)
    (f : γ → σ → M (ForInStep σ)) (hf : ∀ a ∈ l, ∀ b, Stable R (f a b)) : Stable R (ForIn.forIn l init f) := by
  induction l generalizing init with
  | nil => exact Stable.pure _
  | cons a l ih =>
    rw [List.forIn_cons]
    refine Stable.bind (hf a (by simp) init) ?_
    intro r
    cases r with
    | done b => exact Stable.pure _
    | yield b => exact ih b (fun a' ha' => hf a' (by simp [ha']))

/-- **one SMP TLV of the message** (`c12_success_event_guard`, `processSMPTLV_reach`, `processSMPTLV_ver`) -/
theorem processSMPTLV_sg (K : Crypto) (tlvs : List Tlv) (t : Tlv) (ht : t ∈ tlvs) :
    Stable (SmpGuarded K tlvs) (processSMPTLV K t) := by
  intro s r s' h
  have hv : s'.conv.version = s.conv.version := congrArg Prod.fst (processSMPTLV_ver K t s r s' h)
  obtain ⟨l, he, hg⟩ := c12_success_event_guard K t s s' r h
  exact ⟨hv, processSMPTLV_reach K t s s' r h, l, he, fun hm => ⟨t, ht, s, hg hm, rfl, SmpReach.refl _⟩⟩

theorem processDisconnectedTLV_sg (K : Crypto) (tlvs : List Tlv) :
    Stable (SmpGuarded K tlvs) processDisconnectedTLV := by
  unfold processDisconnectedTLV secEvent
  refine Stable.bind Stable.getc fun c =>
    Stable.bind (Stable.modc _ (fun _ => SmpGuarded.dead rfl (Or.inl rfl))) fun _ => ?_
  sg_walk []

theorem processExtraSymmetricKeyTLV_sg (K : Crypto) (tlvs : List Tlv) (t : Tlv) (x : Bytes) :
    Stable (SmpGuarded K tlvs) (processExtraSymmetricKeyTLV t x) := by
  unfold processExtraSymmetricKeyTLV; sg_walk []

theorem processTLVs_sg (K : Crypto) (tlvs : List Tlv) (x : Bytes) :
    Stable (SmpGuarded K tlvs) (processTLVs K tlvs x) := by
  unfold processTLVs
  refine Stable.bind (Stable.forIn_mem _ _ _ fun t ht b => ?_) (fun _ => Stable.pure _)
  sg_walk [processDisconnectedTLV_sg, processExtraSymmetricKeyTLV_sg, processSMPTLV_sg K tlvs t ht]

theorem randRead_sg (K : Crypto) (tlvs : List Tlv) (n : Nat) : Stable (SmpGuarded K tlvs) (randRead n) :=
  randRead_stable (fun s env' mm' h => SmpGuarded.env) n

theorem wrapMessageHeader_sg (K : Crypto) (tlvs : List Tlv) (t : Nat) (m : Bytes) :
    Stable (SmpGuarded K tlvs) (wrapMessageHeader t m) := by
  unfold wrapMessageHeader; sg_walk [SmpGuarded.ofSendFrame (messageHeader_sendFrame _)]

theorem processDataMessageTail_sg (K : Crypto) (dm : DataMsg) (tlvs : List Tlv) (x : Bytes) :
    Stable (SmpGuarded K tlvs) (processDataMessageTail K dm tlvs x) := by
  unfold processDataMessageTail
  sg_walk [processTLVs_sg, randRead_sg, SmpGuarded.ofSendFrame (genDataMsgWithFlag_sendFrame _ _ _ _),
    wrapMessageHeader_sg]

theorem msgEvent_sg (K : Crypto) (tlvs : List Tlv) (n : Nat) : Stable (SmpGuarded K tlvs) (msgEvent n) := by
  unfold msgEvent; sg_walk []
theorem updateLastSent_sg (K : Crypto) (tlvs : List Tlv) : Stable (SmpGuarded K tlvs) updateLastSent := by
  unfold updateLastSent; sg_walk []
theorem potentialHeartbeat_sg (K : Crypto) (tlvs : List Tlv) (p : Option Bytes) :
    Stable (SmpGuarded K tlvs) (potentialHeartbeat K p) := by
  unfold potentialHeartbeat
  sg_walk [SmpGuarded.ofSendFrame (genDataMsgWithFlag_sendFrame _ _ _ _), wrapMessageHeader_sg, updateLastSent_sg,
    msgEvent_sg]
theorem generatePotentialErrorMessage_sg (K : Crypto) (tlvs : List Tlv) (code : Nat) :
    Stable (SmpGuarded K tlvs) (generatePotentialErrorMessage code) := by
  unfold generatePotentialErrorMessage; sg_walk []
theorem notifyDataMessageError_sg (K : Crypto) (tlvs : List Tlv) (e : Err) :
    Stable (SmpGuarded K tlvs) (notifyDataMessageError e) := by
  unfold notifyDataMessageError
  sg_walk [msgEvent_sg, generatePotentialErrorMessage_sg]

/-- the TLVs of an accepted data message: what `PlainDataMsg.deserialize` finds behind the text of the decryption -/
def dataTlvs (K : Crypto) (sk : SessionKeys) (dm : DataMsg) : List Tlv :=
  (PlainDataMsg.deserialize (plainBytesOf K sk dm)).1.tlvs

theorem acceptCont_sg (K : Crypto) (dm : DataMsg) (sk : SessionKeys) :
    Stable (SmpGuarded K (dataTlvs K sk dm)) (acceptCont K dm sk) := by
  intro t r u h
  have h' : run' (acceptCont K dm sk) t = .ok (r, u) := h
  rw [acceptCont_run] at h'
  have h0 : SmpGuarded K (dataTlvs K sk dm) t
      (if (PlainDataMsg.deserialize (plainBytesOf K sk dm)).1.message.isEmpty
        then { t with events := t.events ++ ["msg:10"] } else t) := by
    split
    · exact SmpGuarded.ev t _ (by decide)
    · exact Frame.refl _
  refine Frame.trans h0 ?_
  split at h'
  · rename_i ts u' hrun
    simp only [Res.ok.injEq, Prod.mk.injEq] at h'
    rw [← h'.2]
    exact processDataMessageTail_sg K dm _ sk.extraKey _ _ _ hrun
  · rename_i e u' hrun
    simp only [Res.ok.injEq, Prod.mk.injEq] at h'
    rw [← h'.2]
    exact processDataMessageTail_sg K dm _ sk.extraKey _ _ _ hrun
  · cases h'

/-- **the data step of an accepted message**: from the state `s1` in which header and body pass the five guards -/
theorem receiveDataMessage_sg (K : Crypto) (header body : Bytes) (s1 s2 : MState) (dm : DataMsg) (sk : SessionKeys)
    (hA : Accepts K header body s1 dm sk) (r : Except Err (Option Bytes × List Bytes × Option Err))
    (h : runM (receiveDataMessage K header body) s1 = .ok (r, s2)) :
    SmpGuarded K (dataTlvs K sk dm) s1 s2 := by
  have hraw : runM (processDataMessageRaw K header body) s1 = runM (acceptCont K dm sk) (acceptState s1 dm sk) :=
    raw_of_accepts K header body s1 dm sk hA
  have h0 : SmpGuarded K (dataTlvs K sk dm) s1 (acceptState s1 dm sk) := SmpGuarded.conv rfl rfl
  unfold receiveDataMessage at h
  rw [runM_bind, hraw] at h
  cases hac : runM (acceptCont K dm sk) (acceptState s1 dm sk) with
  | panic p => rw [hac] at h; cases h
  | ok v =>
    obtain ⟨v, t⟩ := v
    have h1 := acceptCont_sg K dm sk _ _ _ hac
    rw [hac] at h
    cases v with
    | error e =>
      simp only [bindM_error, Res.ok.injEq, Prod.mk.injEq] at h
      rw [← h.2]; exact Frame.trans h0 h1
    | ok x =>
      simp only [bindM_ok] at h
      refine Frame.trans h0 (Frame.trans h1 ?_)
      exact (by sg_walk [potentialHeartbeat_sg, notifyDataMessageError_sg] :
        Stable (SmpGuarded K (dataTlvs K sk dm)) _) _ _ _ h

/-! ## 4. whole `Receive` -/

theorem SmpQ.no_smp {s s' : MState} (h : SmpQ s s') : ∀ e ∈ newEvents s s', isSmpTag e = false := h.2.newEvents

theorem SmpQ.no_success {s s' : MState} (h : SmpQ s s') : smpSuccessEvent ∉ newEvents s s' := by
  intro hm
  have := h.no_smp _ hm
  rw [isSmpTag_success] at this; cases this

/-- the leaf of the call is a data message that passed the five guards of `c02_guard` under the message state and
    key context before the call: it is authentic and from the peer -/
def AuthenticLeaf (K : Crypto) (c : Conv) (msg : Bytes) (dm : DataMsg) (sk : SessionKeys) : Prop :=
  ∃ leaf header body, receiveLeaf c msg = some leaf ∧ guessMessageType leaf = .data ∧
    LeafDecoded leaf header body msgTypeData ∧ DataGuards K c header body dm sk

/-- **no SMP event and no change of the SMP component unless an authentic data message is processed.**  For every
    state and every byte string: a `Receive` call — returning or throwing — whose leaf is not a data message that
    passes the five data guards under the state before the call (plaintext, query, error, key exchange messages
    in every authentication state, fragments that complete nothing, data messages that are rejected) leaves the SMP
    component exactly as it was and appends no `smp:` entry to the log -/
theorem receive_no_smp_event_unless_data (K : Crypto) (msg : Bytes) (s s' : MState) (r : Except Err RecvResult)
    (h : runM (receive K msg) s = .ok (r, s')) (hna : ¬ ∃ dm sk, AuthenticLeaf K s.conv msg dm sk) :
    s'.conv.smp = s.conv.smp ∧ ∀ e ∈ newEvents s s', isSmpTag e = false := by
  suffices hq : SmpQ s s' from ⟨hq.1, hq.no_smp⟩
  rcases receive_kind K msg s s' r h with hp | ⟨leaf, header, body, s1, s2, hl, ho, hdec, hpre, hpost, hcore⟩
  · exact hp.smpQ
  · obtain ⟨f1, f2, -⟩ := hpre.fields
    rcases hcore with ⟨hg, rc, hrun⟩ | ⟨hne, rc, hrun⟩
    · rcases receiveDataMessage_core K header body s1 s2 rc hrun with ⟨dm, sk, hA, -⟩ | ⟨hq, -⟩
      · exfalso
        rw [hg] at hdec
        exact hna ⟨dm, sk, leaf, header, body, hl, hg, hdec, DataGuards.of_accepts hA f1 f2⟩
      · exact (Frame.trans hpre.post (Frame.trans hq hpost)).smpQ
    · exact Frame.trans hpre.post.smpQ (Frame.trans (processAKE_sq K _ body s1 rc s2 hrun) hpost.smpQ)

/-- **C12 lifted: the SMP success guard for whole `Receive`.**  For every state and every byte string: if the log
    entries appended during the call — returning or throwing — contain the SMP success event (`smp:6:100`), then
    (a) the leaf of the call is a data message that passes the five data guards under the message state and key
        context before the call (`AuthenticLeaf`: authentic, from the peer, not a replay),
    (b) one of the TLVs behind its text, `t`, was processed in a state `st` whose SMP component is
        `SmpReach`able from the one before the call, and
    (c) `SmpSuccessGuard K t st`, the conclusion of `c12_success_event_guard`, holds: `t` is an SMP3 TLV that met
        EXPECT3, parsed, passed `smp3Verify` (ranges of exponents and group elements, the three zero-knowledge
        proofs) and the final comparison `smp3Success` against the stored second-message state — or an SMP4 TLV that
        met EXPECT4 and passed `smp4Verify` and `smp4Success` (`receive_smp_success_cases` spells (b)+(c) out in
        terms of the SMP component before the call) -/
theorem receive_smp_success_guard (K : Crypto) (msg : Bytes) (s s' : MState) (r : Except Err RecvResult)
    (h : runM (receive K msg) s = .ok (r, s')) (hs : smpSuccessEvent ∈ newEvents s s') :
    ∃ dm sk, AuthenticLeaf K s.conv msg dm sk ∧
      ∃ t ∈ dataTlvs K sk dm, ∃ st : MState, SmpSuccessGuard K t st ∧ SmpReach s.conv.smp st.conv.smp := by
  rcases receive_kind K msg s s' r h with hp | ⟨leaf, header, body, s1, s2, hl, ho, hdec, hpre, hpost, hcore⟩
  · exact absurd hs hp.smpQ.no_success
  · obtain ⟨f1, f2, -, f4, -⟩ := hpre.fields
    rcases hcore with ⟨hg, rc, hrun⟩ | ⟨hne, rc, hrun⟩
    · rcases receiveDataMessage_core K header body s1 s2 rc hrun with ⟨dm, sk, hA, -⟩ | ⟨hq, -⟩
      · obtain ⟨-, -, l, he, hgd⟩ := receiveDataMessage_sg K header body s1 s2 dm sk hA rc hrun
        obtain ⟨e1, e3, hn, hm1, hm3⟩ := chain_newEvents hpre.2 he hpost.2
        rw [hn] at hs
        have hnm : isMsgTag smpSuccessEvent = false := by decide
        have hl' : smpSuccessEvent ∈ l := by
          rcases List.mem_append.1 hs with h1 | h1
          · rcases List.mem_append.1 h1 with h2 | h2
            · rw [hm1 _ h2] at hnm; cases hnm
            · exact h2
          · rw [hm3 _ h1] at hnm; cases hnm
        obtain ⟨t, ht, st, hg', -, hr⟩ := hgd hl'
        rw [hg] at hdec
        rw [f4] at hr
        exact ⟨dm, sk, ⟨leaf, header, body, hl, hg, hdec, DataGuards.of_accepts hA f1 f2⟩, t, ht, st, hg', hr⟩
      · exact absurd hs (Frame.trans hpre.post (Frame.trans hq hpost)).smpQ.no_success
    · exact absurd hs
        (Frame.trans hpre.post.smpQ (Frame.trans (processAKE_sq K _ body s1 rc s2 hrun) hpost.smpQ)).no_success

/-- (b) and (c) of `receive_smp_success_guard` in terms of the SMP component `m` the call found -/
def SuccessCases (K : Crypto) (m : Smp) (t : Tlv) : Prop :=
  (t.typ = tlvTypeSMP3 ∧ m.state = some .expect3 ∧ ∃ msg3 s2 v, toSmp3 t.value = some msg3 ∧ m.s2 = some s2 ∧
      smp3Verify K (smpGE v) s2 msg3 = .ok true ∧ smp3Success K s2 msg3 = .ok true) ∨
  (t.typ = tlvTypeSMP4 ∧ ∃ msg4 s1 s3 v, toSmp4 t.value = some msg4 ∧ m.s1 = some s1 ∧
      smp4Verify K (smpGE v) s3 msg4 = true ∧ smp4Success K s1 s3 msg4 = true ∧
      ((m.state = some .expect4 ∧ m.s3 = some s3) ∨ m.state = some .expect2))

theorem successCases_of_guard (K : Crypto) (m : Smp) (t : Tlv) (st : MState) (hg : SmpSuccessGuard K t st)
    (hr : SmpReach m st.conv.smp) : SuccessCases K m t := by
  rcases hg with ⟨ht, msg3, s2, hp, hst, hs2, hv, hsu⟩ | ⟨ht, msg4, s1, s3, hp, hst, hs1, hs3, hv, hsu⟩
  · have := hr.expect3 hst
    rw [this] at hst hs2
    exact Or.inl ⟨ht, hst, msg3, s2, _, hp, hs2, hv, hsu⟩
  · rcases hr.expect4 hst with h4 | ⟨h2, s3', h4⟩
    · rw [h4] at hst hs1 hs3
      exact Or.inr ⟨ht, msg4, s1, s3, _, hp, hs1, hv, hsu, Or.inl ⟨hst, hs3⟩⟩
    · rw [h4] at hs1
      exact Or.inr ⟨ht, msg4, s1, s3, _, hp, hs1, hv, hsu, Or.inr h2⟩

/-- **C12 lifted, in terms of the state before the call.**  If a `Receive` call appends the SMP success event, its
    leaf is an authentic data message one of whose TLVs is
    * an SMP3 TLV — the conversation was in EXPECT3 (so the user had answered: only `ProvideAuthenticationSecret`
      leads there), the TLV parsed and passed `smp3Verify` and `smp3Success` against the second-message state
      stored before the call; or
    * an SMP4 TLV that parsed and passed `smp4Verify` and `smp4Success` against the first- and third-message
      state — the conversation was in EXPECT4 and the third-message state is the stored one, or it was in EXPECT2
      and the same data message carried, before this TLV, an SMP2 TLV that was accepted (the third-message state is
      then the one just generated from fresh randomness).
    `v` is the protocol version in force when the TLV was processed. -/
theorem receive_smp_success_cases (K : Crypto) (msg : Bytes) (s s' : MState) (r : Except Err RecvResult)
    (h : runM (receive K msg) s = .ok (r, s')) (hs : smpSuccessEvent ∈ newEvents s s') :
    ∃ dm sk, AuthenticLeaf K s.conv msg dm sk ∧ ∃ t ∈ dataTlvs K sk dm, SuccessCases K s.conv.smp t := by
  obtain ⟨dm, sk, ha, t, ht, st, hg, hr⟩ := receive_smp_success_guard K msg s s' r h hs
  exact ⟨dm, sk, ha, t, ht, successCases_of_guard K _ t st hg hr⟩

/-- in particular: no success unless the conversation was encrypted and in EXPECT2, EXPECT3 or EXPECT4 -/
theorem receive_smp_success_states (K : Crypto) (msg : Bytes) (s s' : MState) (r : Except Err RecvResult)
    (h : runM (receive K msg) s = .ok (r, s')) (hs : smpSuccessEvent ∈ newEvents s s') :
    s.conv.msgState = .encrypted ∧
    (s.conv.smp.state = some .expect2 ∨ s.conv.smp.state = some .expect3 ∨ s.conv.smp.state = some .expect4) := by
  obtain ⟨dm, sk, ⟨leaf, header, body, -, -, -, hd⟩, t, -, hc⟩ := receive_smp_success_cases K msg s s' r h hs
  refine ⟨hd.1, ?_⟩
  rcases hc with ⟨-, h3, -⟩ | ⟨-, _, _, _, _, -, -, -, -, ⟨h4, -⟩ | h2⟩
  · exact Or.inr (Or.inl h3)
  · exact Or.inr (Or.inr h4)
  · exact Or.inl h2

/-! ## 5. the other API calls -/

/-- the events appended all belong to the list `L` -/
abbrev EvIn (L : List String) : MState → MState → Prop := EvP (fun e => e ∈ L)

theorem EvIn.ev {L : List String} (s : MState) (e : String) (he : e ∈ L) :
    EvIn L s { s with events := s.events ++ [e] } := ⟨[e], rfl, by simpa using he⟩

theorem EvIn.ofSendFrame {L : List String} {α} {x : M α} (h : Stable SendFrame x) : Stable (EvIn L) x := by
  intro s r s' hr
  have hk := h s r s' hr
  simp only [Keeps, sendKept, Prod.mk.injEq] at hk
  exact EvP.of_events_eq hk.1

macro "ei_leaf" : tactic => `(tactic| first
  | exact Stable.modc _ (fun _ => EvP.of_events_eq rfl)
  | exact Stable.mism _ (fun _ => EvP.of_events_eq rfl)
  | exact Stable.ev _ (fun s => EvIn.ev s _ (by decide)))

macro "ei_core" : tactic => `(tactic| first
  | exact Stable.pure _ | exact Stable.throw _ | exact Stable.goPanic _
  | exact Stable.getc | exact Stable.get | exact Stable.now
  | ei_leaf
  | with_reducible apply Stable.bind | with_reducible apply Stable.tryCatch
  | with_reducible apply Stable.ite | with_reducible apply Stable.map)

/-- `ei_walk [lemmas]`: as `stable [lemmas]`, for the frames `EvIn L` -/
syntax "ei_walk" "[" term,* "]" : tactic
macro_rules
  | `(tactic| ei_walk [$ls,*]) => do
    let tacs ← ls.getElems.mapM fun l => `(tactic| with_reducible apply $l)
    `(tactic| repeat' (first | ei_core $[| $tacs:tactic]* | with_reducible intro _ | split | dsimp only))

theorem randRead_ei (L : List String) (n : Nat) : Stable (EvIn L) (randRead n) :=
  randRead_stable (fun s env' mm' h => EvP.of_events_eq rfl) n
theorem randMPIs_ei (L : List String) (k len : Nat) : Stable (EvIn L) (randMPIs k len) := by
  induction k with
  | zero => unfold randMPIs; ei_walk []
  | succ k ih => unfold randMPIs; ei_walk [randRead_ei, ih]
theorem smpSecretFor_ei (L : List String) (K : Crypto) (i : Bool) (sec : Bytes) :
    Stable (EvIn L) (smpSecretFor K i sec) := by
  unfold smpSecretFor; ei_walk []
theorem paramLen_ei (L : List String) : Stable (EvIn L) paramLen := by
  unfold paramLen; ei_walk []

/-- StartAuthenticate appends nothing to the log -/
theorem startAuthenticate_ei (K : Crypto) (q sec : Bytes) : Stable (EvIn []) (startAuthenticate K q sec) := by
  unfold startAuthenticate startAuthenticateExpect1
  ei_walk [smpSecretFor_ei, paramLen_ei, randMPIs_ei, EvIn.ofSendFrame (createSerializedDataMessage_sendFrame _ _ _ _)]

/-- ProvideAuthenticationSecret appends at most the "cheated" event `smp:2:0` (its randomness ran short) -/
theorem provideAuthenticationSecret_ei (K : Crypto) (sec : Bytes) :
    Stable (EvIn ["smp:2:0"]) (provideAuthenticationSecret K sec) := by
  unfold provideAuthenticationSecret continueSMP smpEvent
  ei_walk [smpSecretFor_ei, paramLen_ei, randMPIs_ei, EvIn.ofSendFrame (createSerializedDataMessage_sendFrame _ _ _ _)]

/-- AbortAuthentication appends nothing to the log -/
theorem abortAuthentication_ei (K : Crypto) : Stable (EvIn []) (abortAuthentication K) := by
  unfold abortAuthentication
  ei_walk [EvIn.ofSendFrame (createSerializedDataMessage_sendFrame _ _ _ _)]

/-- Send appends message events only: encryption required, encryption error, connection ended -/
theorem send_ei (K : Crypto) (m : Bytes) : Stable (EvIn ["msg:0", "msg:1", "msg:2"]) (send K m) := by
  unfold send msgEvent updateLastSent resendLater withInjects appendWhitespaceTag generatePotentialErrorMessage
  ei_walk [EvIn.ofSendFrame (createSerializedDataMessage_sendFrame _ _ _ _)]

/-- End appends at most GoneInsecure -/
theorem endSession_ei (K : Crypto) : Stable (EvIn ["sec:0"]) (endSession K) := by
  unfold endSession smpWipe secEvent
  ei_walk [EvIn.ofSendFrame (createSerializedDataMessage_sendFrame _ _ _ _)]

/-- UseExtraSymmetricKey appends nothing to the log -/
theorem useExtraSymmetricKey_ei (K : Crypto) (u : Nat) (d : Bytes) : Stable (EvIn []) (useExtraSymmetricKey K u d) := by
  unfold useExtraSymmetricKey
  ei_walk [EvIn.ofSendFrame (createSerializedDataMessage_sendFrame _ _ _ _)]

/-- what an API call other than `receive` can append to the event log -/
def ApiCall.mayLog : ApiCall → List String
  | .send _ => ["msg:0", "msg:1", "msg:2"]
  | .endSession => ["sec:0"]
  | .smpSecret _ => ["smp:2:0"]
  | _ => []

/-- **the log entries of every API call but `receive`**: StartAuthenticate, AbortAuthentication,
    UseExtraSymmetricKey, the harness hook `sendtlvs` and `setfrag` append nothing; ProvideAuthenticationSecret at
    most "cheated" (`smp:2:0`); Send only `msg:0/1/2`; End only `sec:0` -/
theorem apiCall_events (K : Crypto) (call : ApiCall) (s : MState) (r : Except Err Unit) (s' : MState)
    (hc : ∀ m, call ≠ .receive m) (h : runM (call.run K) s = .ok (r, s')) :
    ∃ l, s'.events = s.events ++ l ∧ ∀ e ∈ l, e ∈ call.mayLog := by
  cases call with
  | receive m => exact absurd rfl (hc m)
  | send m => obtain ⟨r0, h0⟩ := runM_drop _ _ _ _ h; exact send_ei K m _ _ _ h0
  | endSession => obtain ⟨r0, h0⟩ := runM_drop _ _ _ _ h; exact endSession_ei K _ _ _ h0
  | smpStart q sec => obtain ⟨r0, h0⟩ := runM_drop _ _ _ _ h; exact startAuthenticate_ei K q sec _ _ _ h0
  | smpSecret sec => obtain ⟨r0, h0⟩ := runM_drop _ _ _ _ h; exact provideAuthenticationSecret_ei K sec _ _ _ h0
  | smpAbort => obtain ⟨r0, h0⟩ := runM_drop _ _ _ _ h; exact abortAuthentication_ei K _ _ _ h0
  | extraKey u d => obtain ⟨r0, h0⟩ := runM_drop _ _ _ _ h; exact useExtraSymmetricKey_ei K u d _ _ _ h0
  | sendTlvs text flag tlvs =>
    obtain ⟨r0, h0⟩ := runM_drop _ _ _ _ h
    exact (EvIn.ofSendFrame (L := []) (createSerializedDataMessage_sendFrame K text flag tlvs)) _ _ _ h0
  | setFragmentSize n =>
    have : Stable (EvIn []) (modc fun c => { c with fragmentSize := n }) := by ei_walk []
    exact this _ _ _ h

/-- **among the API calls only `receive` can raise the SMP success event** — and then only under
    `receive_smp_success_guard` -/
theorem api_smp_success_only_via_receive (K : Crypto) (call : ApiCall) (s : MState) (r : Except Err Unit)
    (s' : MState) (h : runM (call.run K) s = .ok (r, s')) (hs : smpSuccessEvent ∈ newEvents s s') :
    ∃ m, call = .receive m ∧ ∃ r0, runM (receive K m) s = .ok (r0, s') := by
  by_cases hc : ∀ m, call ≠ .receive m
  · exfalso
    obtain ⟨l, he, hl⟩ := apiCall_events K call s r s' hc h
    rw [newEvents_of_append he] at hs
    have := hl _ hs
    revert this
    cases call <;> simp only [ApiCall.mayLog] <;> decide
  · simp only [not_forall, not_not] at hc
    obtain ⟨m, hm⟩ := hc
    subst hm
    exact ⟨m, rfl, runM_drop _ _ _ _ h⟩

/-! ## 6. witnesses: the hypotheses are satisfiable -/

/-- the text `A` and the SMP4 TLV `rb = 1, cr = 0, d7 = 1` -/
def wSmp4Plain : Bytes := [65, 0] ++ (⟨0, 1, 1⟩ : Smp4Msg).tlv.serialize

/-- an authentic data message (for `wCryptoMac`: key ids 2/2, counter 9) carrying `wSmp4Plain` -/
def wDataSmp4 : Bytes :=
  msgMarker ++ b64encode ([0, 2, 3] ++ [0] ++ [0, 0, 0, 2] ++ [0, 0, 0, 2] ++ [0, 0, 0, 1, 5] ++
    [0, 0, 0, 0, 0, 0, 0, 9] ++ be32 wSmp4Plain.length ++ wSmp4Plain ++ List.replicate 20 0 ++ [0, 0, 0, 0]) ++ [46]

def wS1 : Smp1State := ⟨1, 1, 1, 1, ⟨1, 1, 0, 0, 1, 1, false, []⟩⟩
def wS3 : Smp3State := ⟨1, 1, 1, 1, 1, 1, 1, 1, ⟨1, 1, 0, 1, 1, 1, 1, 0⟩⟩

/-- the encrypted conversation `wEncrypted` (OTRv2) as the initiator of an authentication that waits for the
    fourth message -/
def wExpect4 : MState :=
  { wEncrypted with conv := { wEncrypted.conv with
      smp := { state := some .expect4, secret := some 1, s1 := some wS1, s3 := some wS3 } } }

/-- **`Receive` does raise the success event** (toy cryptography `wCryptoMac`: every power is 1, the hash is empty,
    so the proof `cr = 0, d7 = 1` verifies and `Rb^a3 = 1 = Pa/Pb`): the data message `wDataSmp4` received in
    `wExpect4` delivers its text, appends `smp:6:100` and resets the SMP component -/
theorem wDataSmp4_success :
    ∃ rr s', runM (receive wCryptoMac wDataSmp4) wExpect4 = .ok (.ok rr, s') ∧
      (rr.plain = some [65] ∧ smpSuccessEvent ∈ newEvents wExpect4 s' ∧ s'.conv.smp = { state := some .expect1 }) :=
  run_witness (by decide +kernel)

/-- the conclusion of `receive_smp_success_cases` for this call: the SMP4 disjunct, from EXPECT4 -/
example : ∃ dm sk, AuthenticLeaf wCryptoMac wExpect4.conv wDataSmp4 dm sk ∧
    ∃ t ∈ dataTlvs wCryptoMac sk dm, SuccessCases wCryptoMac wExpect4.conv.smp t := by
  obtain ⟨rr, s', h, -, hs, -⟩ := wDataSmp4_success
  exact receive_smp_success_cases _ _ _ _ _ h hs

/-- … and `receive_no_smp_event_unless_data` has something to exclude: this call changed the SMP component -/
example : ∃ r s', runM (receive wCryptoMac wDataSmp4) wExpect4 = .ok (r, s') ∧ s'.conv.smp ≠ wExpect4.conv.smp := by
  obtain ⟨rr, s', h, -, -, hsmp⟩ := wDataSmp4_success
  exact ⟨_, s', h, by rw [hsmp]; decide⟩

/-- `wCryptoMac` with a modular inverse that always answers 1 -/
def wCryptoInv : Crypto := { wCryptoMac with modInv := fun _ _ => some 1 }

/-- the text `A`, an SMP2 TLV and an SMP4 TLV in one data message -/
def wSmp24Plain : Bytes :=
  [65, 0] ++ (⟨1, 1, 0, 0, 1, 1, 1, 1, 0, 1, 1⟩ : Smp2Msg).tlv.serialize ++ (⟨0, 1, 1⟩ : Smp4Msg).tlv.serialize

def wDataSmp24 : Bytes :=
  msgMarker ++ b64encode ([0, 2, 3] ++ [0] ++ [0, 0, 0, 2] ++ [0, 0, 0, 2] ++ [0, 0, 0, 1, 5] ++
    [0, 0, 0, 0, 0, 0, 0, 9] ++ be32 wSmp24Plain.length ++ wSmp24Plain ++ List.replicate 20 0 ++ [0, 0, 0, 0]) ++ [46]

/-- the initiator right after StartAuthenticate (EXPECT2), with randomness for the third message and the reply -/
def wExpect2 : MState :=
  { conv := { wEncrypted.conv with smp := { state := some .expect2, secret := some 1, s1 := some wS1 } },
    env := { rand := List.replicate 4 (some (List.replicate (Version.parameterLength .v2) 1)) ++
                     List.replicate 3 (some (List.replicate 40 1)) } }

/-- **the EXPECT2 case of `SuccessCases` cannot be dropped**: one data message with an SMP2 and an SMP4 TLV takes the
    initiator from EXPECT2 through EXPECT4 to success within a single `Receive` call — the events are "in
    progress", "success" (toy cryptography; with the real one the sender would have to prove knowledge of a
    discrete logarithm relative to `Qa/Qb`, which depends on randomness drawn while this very message is processed) -/
theorem wDataSmp24_success :
    ∃ rr s', runM (receive wCryptoInv wDataSmp24) wExpect2 = .ok (.ok rr, s') ∧
      (newEvents wExpect2 s' = ["smp:5:60", smpSuccessEvent, "msg:11"] ∧
       wExpect2.conv.smp.state = some .expect2 ∧ s'.conv.smp = { state := some .expect1 }) :=
  run_witness (by decide +kernel)

/-- the responder of an authentication, asked for the secret, without randomness for the second message -/
def wWaiting : MState :=
  { conv := { wEncrypted.conv with
      theirKey := some wKey
      ourCurrentKey := some wKey
      smp := { state := some (SmpState.waitingForSecret ⟨1, 1, 0, 0, 1, 1, false, []⟩) } },
    env := {} }

/-- the one SMP entry of `ApiCall.mayLog` is attained: ProvideAuthenticationSecret without randomness logs "cheated" -/
theorem wWaiting_cheated :
    ∃ r s', runM ((ApiCall.smpSecret [1]).run wCryptoMac) wWaiting = .ok (.ok r, s') ∧
      newEvents wWaiting s' = ["smp:2:0"] :=
  run_witness (by decide +kernel)

/-- the hypotheses of `api_smp_success_only_via_receive` hold together (for a `receive`, as they must) -/
example : ∃ r s', runM ((ApiCall.receive wDataSmp4).run wCryptoMac) wExpect4 = .ok (.ok r, s') ∧
    smpSuccessEvent ∈ newEvents wExpect4 s' :=
  run_witness (by decide +kernel)

/-- the hypothesis of `receive_no_smp_event_unless_data` holds for every input in a conversation that is not
    encrypted … -/
example (K : Crypto) (msg : Bytes) : ¬ ∃ dm sk, AuthenticLeaf K wFresh.conv msg dm sk := by
  rintro ⟨dm, sk, leaf, header, body, -, -, -, hd⟩
  exact absurd hd.1 (by decide)

/-- … and for a key exchange message in an encrypted one -/
example (K : Crypto) : ¬ ∃ dm sk, AuthenticLeaf K wExpect4.conv wCommitV2 dm sk := by
  rintro ⟨dm, sk, leaf, header, body, hl, hg, -⟩
  have : receiveLeaf wExpect4.conv wCommitV2 = some wCommitV2 := by decide +kernel
  rw [this] at hl
  cases hl
  revert hg
  decide +kernel

end Otr

