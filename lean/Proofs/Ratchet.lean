/-
  Proofs.Ratchet — the TWO-PARTY ratchet theorem behind property C04:
  "over a reliable FIFO channel in an encrypted session every text sent is delivered exactly once,
   unchanged and in order, for every interleaving of sends and deliveries, any number in flight,
   every ratchet position".

  System    : Wire, Sys2 (two `Keys` + two FIFO queues), Keys.wire, Keys.deliver, Step2
              (sendA | sendB | deliverAB | deliverBA), Sys2.init (state right after the AKE)
  Counters  : lookup / thr (what `findCounter` returns), lookup_store, lookup_bump,
              lookup_filter_our/their, thr_afterAccept_self/le, thr_afterSend, sendCtr_afterAccept
  Invariant : Ids (R1 windows), MsgOK (R3/R4 per message), WireLe (R4 order), Dir (one direction:
              R2 key identity against the ghost registry, R3, R4, and the two counter facts c1/c2),
              Inv = Ids ∧ Dir A→B ∧ Dir B→A
  Induction : Dir.send, Dir.recv, Dir.peerSend, Dir.peerRecv, Ids.recv; inv_init, inv_step
              (RegStep: how the ghost registries grow), inv_reachable
  Ghost     : Ghost (registries, keys used by the senders, payload logs), GStep (erases to Step2,
              every Step2 lifts), GInv, ginv_init, ginv_step, ginv_reachable
  C04       : c04_send_enabled (4), c04_deliveries_accepted / c04_delivery_enabled (2),
              c04_exactly_once_in_order, c04_prefix, c04_drained, c04_can_drain (2),
              sessionKeys_agree, c04_key_agreement (3), c04_unchanged, c04_reachable,
              c04_never_stuck; Step2.ksteps / Reach.ksteps (link to KStep of Proofs.Keys)
  Tests     : exec (simulator, exec_sound), checkInv, runSched, explore — clearly marked, `decide`d
  Hypotheses: about `K : Crypto` only `hcomm` (DH commutativity) and `Ghost.Distinct` (the two
              parties never generate the same public key), both only for key agreement; the AKE
              pairs satisfy `DhPair.ok` (pub = g^priv).
  Core Lean only.
-/
import Proofs.Keys
namespace Otr
open List

/-! ## Counter lookup -/

/-- the counter entry `findCounter` returns for the pair `(i, j)` (all-zero if there is none) -/
def lookup (cs : List Counter) (i j : Nat) : Counter := (findCounter cs i j).1

/-- the highest counter received under `(our i, their j)` -/
def thr (cs : List Counter) (i j : Nat) : Nat := (lookup cs i j).theirCounter

theorem lookup_eq (cs : List Counter) (i j : Nat) :
    lookup cs i j = (cs.find? (ctrMatch i j)).getD ⟨i, j, 0, 0⟩ := by
  unfold lookup
  rcases findCounter_cases cs i j with ⟨c, h1, h2⟩ | ⟨h1, h2⟩
  · rw [h2, h1]; rfl
  · rw [h2, h1]; rfl

theorem lookup_findCounter2 (cs : List Counter) (r s i j : Nat) :
    lookup (findCounter cs r s).2 i j = lookup cs i j := by
  rw [lookup_eq, lookup_eq]
  rcases findCounter_cases cs r s with ⟨c, _, h2⟩ | ⟨h1, h2⟩
  · rw [h2]
  · rw [h2]
    simp only [find?_append]
    cases h : cs.find? (ctrMatch i j) with
    | some c => rfl
    | none =>
      simp only [Option.none_or, find?_cons, find?_nil]
      cases hm : ctrMatch i j ⟨r, s, 0, 0⟩ with
      | true =>
        have := ctrMatch_iff.mp hm
        simp only at this
        obtain ⟨rfl, rfl⟩ := this
        rfl
      | false => rfl

theorem lookup_upd (cs : List Counter) (r s : Nat) (c' : Counter) (h1 : c'.ourKeyID = r)
    (h2 : c'.theirKeyID = s) (i j : Nat) :
    lookup (updateCounter (findCounter cs r s).2 c') i j =
      if i = r ∧ j = s then c' else lookup cs i j := by
  rw [lookup_eq, updateCounter_find]
  by_cases h : i = r ∧ j = s
  · obtain ⟨rfl, rfl⟩ := h
    rw [findCounter_find]
    have : ctrMatch c'.ourKeyID c'.theirKeyID (findCounter cs i j).1 = true :=
      ctrMatch_iff.mpr (by rw [h1, h2]; exact findCounter_ids cs i j)
    simp only [Option.map_some, this, ↓reduceIte, Option.getD_some, and_self]
  · rw [if_neg h, ← lookup_findCounter2 cs r s i j, lookup_eq]
    cases hf : (findCounter cs r s).2.find? (ctrMatch i j) with
    | none => rfl
    | some x =>
      have hx := ctrMatch_iff.mp (find?_some hf)
      have : ctrMatch c'.ourKeyID c'.theirKeyID x = false := by
        rw [Bool.eq_false_iff]
        intro hm
        have hm' := ctrMatch_iff.mp hm
        apply h
        rw [← hx.1, ← hx.2, hm'.1, hm'.2]
        exact ⟨h1, h2⟩
      simp only [Option.map_some, this, Bool.false_eq_true, ↓reduceIte, Option.getD_some]

theorem lookup_ids (cs : List Counter) (i j : Nat) :
    (lookup cs i j).ourKeyID = i ∧ (lookup cs i j).theirKeyID = j := findCounter_ids cs i j

theorem lookup_store (cs : List Counter) (r s n i j : Nat) :
    lookup (storeCtr cs r s n) i j =
      if thr cs r s < n ∧ i = r ∧ j = s then { lookup cs r s with theirCounter := n }
      else lookup cs i j := by
  unfold storeCtr
  by_cases hn : n ≤ (findCounter cs r s).1.theirCounter
  · rw [if_pos hn, lookup_findCounter2]
    have : ¬ (thr cs r s < n ∧ i = r ∧ j = s) := by
      intro h; have := h.1; unfold thr lookup at this; omega
    rw [if_neg this]
  · rw [if_neg hn]
    refine (lookup_upd cs r s { lookup cs r s with theirCounter := n }
      (lookup_ids cs r s).1 (lookup_ids cs r s).2 i j).trans ?_
    have : thr cs r s < n := by unfold thr lookup; omega
    simp only [this, true_and]

theorem lookup_bump (cs : List Counter) (r s i j : Nat) :
    lookup (bumpCtr cs r s) i j =
      if i = r ∧ j = s then
        { lookup cs r s with
          ourCounter := (if (lookup cs r s).ourCounter = 0 then 1 else (lookup cs r s).ourCounter) + 1 }
      else lookup cs i j := by
  unfold bumpCtr
  exact lookup_upd cs r s { lookup cs r s with
      ourCounter := (if (lookup cs r s).ourCounter = 0 then 1 else (lookup cs r s).ourCounter) + 1 }
    (lookup_ids cs r s).1 (lookup_ids cs r s).2 i j

theorem lookup_filter_our (cs : List Counter) (x i j : Nat) :
    lookup (cs.filter (fun c => c.ourKeyID != x)) i j =
      if i = x then ⟨i, j, 0, 0⟩ else lookup cs i j := by
  rw [lookup_eq, find?_filter]
  by_cases h : i = x
  · rw [if_pos h]
    have : cs.find? (fun a => decide ((a.ourKeyID != x) = true ∧ ctrMatch i j a = true)) = none := by
      rw [find?_eq_none]
      intro c _
      simp only [bne_iff_ne, ne_eq, decide_eq_true_eq, not_and]
      intro h1 h2
      exact h1 (by rw [(ctrMatch_iff.mp h2).1, h])
    rw [this]; rfl
  · rw [if_neg h, lookup_eq]
    have : (fun a : Counter => decide ((a.ourKeyID != x) = true ∧ ctrMatch i j a = true)) = ctrMatch i j := by
      funext a
      cases hm : ctrMatch i j a with
      | true =>
        have := (ctrMatch_iff.mp hm).1
        simp only [bne_iff_ne, ne_eq, and_true, decide_eq_true_eq]
        omega
      | false => simp
    rw [this]

theorem lookup_filter_their (cs : List Counter) (x i j : Nat) :
    lookup (cs.filter (fun c => c.theirKeyID != x)) i j =
      if j = x then ⟨i, j, 0, 0⟩ else lookup cs i j := by
  rw [lookup_eq, find?_filter]
  by_cases h : j = x
  · rw [if_pos h]
    have : cs.find? (fun a => decide ((a.theirKeyID != x) = true ∧ ctrMatch i j a = true)) = none := by
      rw [find?_eq_none]
      intro c _
      simp only [bne_iff_ne, ne_eq, decide_eq_true_eq, not_and]
      intro h1 h2
      exact h1 (by rw [(ctrMatch_iff.mp h2).2, h])
    rw [this]; rfl
  · rw [if_neg h, lookup_eq]
    have : (fun a : Counter => decide ((a.theirKeyID != x) = true ∧ ctrMatch i j a = true)) = ctrMatch i j := by
      funext a
      cases hm : ctrMatch i j a with
      | true =>
        have := (ctrMatch_iff.mp hm).2
        simp only [bne_iff_ne, ne_eq, and_true, decide_eq_true_eq]
        omega
      | false => simp
    rw [this]

/-! ## Fields of `afterAccept` / `afterSend` -/

/-- the counters after the `rotateOurKeys` part of `afterAccept` -/
def ctrs1 (k : Keys) (r s n : Nat) : List Counter :=
  if r = k.ourKeyID then (storeCtr k.counters r s n).filter (fun c => c.ourKeyID != k.ourKeyID - 1)
  else storeCtr k.counters r s n

theorem afterAccept_counters {K} (k : Keys) (r s n y : Nat) (p : Bytes) :
    (k.afterAccept K r s n y p).counters =
      if s = k.theirKeyID then (ctrs1 k r s n).filter (fun c => c.theirKeyID != k.theirKeyID - 1)
      else ctrs1 k r s n := by
  unfold Keys.afterAccept ctrs1
  rw [rotateTheir_counters, rotateOur_theirKeyID, rotateOur_counters, checkMessageCounter_fst]
  rfl

theorem thr_afterAccept_le {K} (k : Keys) (r s n y : Nat) (p : Bytes) (i j : Nat)
    (h : ¬ (i = r ∧ j = s)) :
    thr (k.afterAccept K r s n y p).counters i j ≤ thr k.counters i j := by
  rw [afterAccept_counters]
  have h0 : thr (storeCtr k.counters r s n) i j = thr k.counters i j := by
    unfold thr; rw [lookup_store]
    have : ¬ (thr k.counters r s < n ∧ i = r ∧ j = s) := fun h' => h h'.2
    rw [if_neg this]
  have h1 : thr (ctrs1 k r s n) i j ≤ thr k.counters i j := by
    unfold ctrs1
    split
    · unfold thr at h0 ⊢; rw [lookup_filter_our]; split
      · exact Nat.zero_le _
      · exact Nat.le_of_eq h0
    · exact Nat.le_of_eq h0
  split
  · unfold thr at h1 ⊢; rw [lookup_filter_their]; split
    · exact Nat.zero_le _
    · exact h1
  · exact h1

theorem thr_afterAccept_self {K} (k : Keys) (r s n y : Nat) (p : Bytes)
    (ho : 1 ≤ k.ourKeyID) (ht : 1 ≤ k.theirKeyID) (hn : thr k.counters r s < n) :
    thr (k.afterAccept K r s n y p).counters r s = n := by
  rw [afterAccept_counters]
  have h0 : thr (storeCtr k.counters r s n) r s = n := by
    unfold thr; rw [lookup_store]
    simp only [hn, and_self, ↓reduceIte]
  have h1 : thr (ctrs1 k r s n) r s = n := by
    unfold ctrs1
    split
    · rename_i hr
      unfold thr at h0 ⊢; rw [lookup_filter_our, if_neg (by omega)]; exact h0
    · exact h0
  split
  · rename_i hs
    unfold thr at h1 ⊢; rw [lookup_filter_their, if_neg (by omega)]; exact h1
  · exact h1

theorem rotateOur_fields {K} (k : Keys) (r : Nat) (p : Bytes) :
    (k.rotateOurKeys K r (some p)).1.ourCur =
      (if r = k.ourKeyID then some ⟨K.gexp dhG (bytesToNat p), p⟩ else k.ourCur) ∧
    (k.rotateOurKeys K r (some p)).1.ourPrev = (if r = k.ourKeyID then k.ourCur else k.ourPrev) ∧
    (k.rotateOurKeys K r (some p)).1.theirCur = k.theirCur ∧
    (k.rotateOurKeys K r (some p)).1.theirPrev = k.theirPrev := by
  by_cases h : r = k.ourKeyID
  · subst h; rw [rotateOur_eq]; simp only [↓reduceIte, and_self]
  · rw [rotateOur_ne k r _ h]; simp only [h, ↓reduceIte, and_self]

theorem rotateTheir_fields (k : Keys) (s y : Nat) :
    (k.rotateTheirKey s y).theirCur = (if s = k.theirKeyID then some y else k.theirCur) ∧
    (k.rotateTheirKey s y).theirPrev = (if s = k.theirKeyID then k.theirCur else k.theirPrev) ∧
    (k.rotateTheirKey s y).ourCur = k.ourCur ∧
    (k.rotateTheirKey s y).ourPrev = k.ourPrev := by
  by_cases h : s = k.theirKeyID
  · subst h; rw [rotateTheir_eq]; simp only [↓reduceIte, and_self]
  · rw [rotateTheir_ne k s _ h]; simp only [h, ↓reduceIte, and_self]

theorem afterAccept_fields {K} (k : Keys) (r s n y : Nat) (p : Bytes) :
    (k.afterAccept K r s n y p).ourCur =
      (if r = k.ourKeyID then some ⟨K.gexp dhG (bytesToNat p), p⟩ else k.ourCur) ∧
    (k.afterAccept K r s n y p).ourPrev = (if r = k.ourKeyID then k.ourCur else k.ourPrev) ∧
    (k.afterAccept K r s n y p).theirCur = (if s = k.theirKeyID then some y else k.theirCur) ∧
    (k.afterAccept K r s n y p).theirPrev = (if s = k.theirKeyID then k.theirCur else k.theirPrev) := by
  unfold Keys.afterAccept
  refine ⟨?_, ?_, ?_, ?_⟩
  · rw [(rotateTheir_fields _ _ _).2.2.1, (rotateOur_fields _ _ _).1, checkMessageCounter_fst]; rfl
  · rw [(rotateTheir_fields _ _ _).2.2.2, (rotateOur_fields _ _ _).2.1, checkMessageCounter_fst]; rfl
  · rw [(rotateTheir_fields _ _ _).1, rotateOur_theirKeyID, (rotateOur_fields _ _ _).2.2.1,
      checkMessageCounter_fst]; rfl
  · rw [(rotateTheir_fields _ _ _).2.1, rotateOur_theirKeyID, (rotateOur_fields _ _ _).2.2.1,
      (rotateOur_fields _ _ _).2.2.2, checkMessageCounter_fst]; rfl

theorem thr_afterSend {K} (k : Keys) (i j : Nat) :
    thr (k.afterSend K).counters i j = thr k.counters i j := by
  show thr (bumpCtr k.counters (k.ourKeyID - 1) k.theirKeyID) i j = _
  unfold thr
  rw [lookup_bump]
  split
  · rename_i h; rw [h.1, h.2]
  · rfl

theorem sendCtr_eq (k : Keys) :
    k.sendCtr = if (lookup k.counters (k.ourKeyID - 1) k.theirKeyID).ourCounter = 0 then 1
      else (lookup k.counters (k.ourKeyID - 1) k.theirKeyID).ourCounter := rfl

theorem sendCtr_pos (k : Keys) : 1 ≤ k.sendCtr := by
  rw [sendCtr_eq]; split <;> omega

/-- accepting a message that rotates nothing leaves the next send counter alone -/
theorem sendCtr_afterAccept {K} (k : Keys) (r s n y : Nat) (p : Bytes)
    (hr : r ≠ k.ourKeyID) (hs : s ≠ k.theirKeyID) :
    (k.afterAccept K r s n y p).sendCtr = k.sendCtr := by
  rw [sendCtr_eq, sendCtr_eq, afterAccept_counters, afterAccept_ourKeyID, afterAccept_theirKeyID]
  unfold ctrs1
  rw [if_neg hr, if_neg hs, if_neg hs, if_neg hr, lookup_store]
  split
  · rename_i h; rw [h.2.1, h.2.2]
  · rfl

theorem stored_sendCtr {k : Keys} {n : Nat}
    (h : k.Stored Counter.ourCounter (k.ourKeyID - 1) k.theirKeyID (n + 1)) (ho : 1 ≤ k.ourKeyID) :
    n < k.sendCtr := by
  rcases h with h | h | ⟨c, hc, hn⟩
  · omega
  · omega
  · unfold Keys.sendCtr
    rw [findCounter_of_some hc]
    simp only
    split <;> omega

/-! ## The two-party system -/

/-- what a data message carries as far as key management is concerned -/
structure Wire where
  /-- senderKeyID (= sender.ourKeyID - 1 at send time) -/
  s : Nat
  /-- recipientKeyID (= sender.theirKeyID at send time) -/
  r : Nat
  /-- counter (= sender.sendCtr at send time) -/
  n : Nat
  /-- the sender's next DH public key (= pub of sender.ourCur) -/
  y : Nat
  /-- an opaque payload identifier (stands for the text) -/
  txt : Nat
  deriving Repr, DecidableEq

structure Sys2 where
  a : Keys
  b : Keys
  /-- in flight A → B, oldest first -/
  qab : List Wire
  /-- in flight B → A, oldest first -/
  qba : List Wire
  deriving Repr, DecidableEq

/-- the public half of the current DH pair (0 if there is none: never the case in a session) -/
def Keys.pubCur (k : Keys) : Nat :=
  match k.ourCur with
  | some p => p.pub
  | none => 0

/-- the data message `genDataMsgWithFlag` builds for payload `t` -/
def Keys.wire (k : Keys) (t : Nat) : Wire :=
  ⟨k.ourKeyID - 1, k.theirKeyID, k.sendCtr, k.pubCur, t⟩

/-- `genDataMsgWithFlag` succeeds: the session keys for `(ourKeyID - 1, theirKeyID)` can be derived -/
def Keys.canSend (K : Crypto) (k : Keys) : Prop :=
  ∃ sk, k.deriveSessionKeys K (k.ourKeyID - 1) k.theirKeyID = .ok sk

/-- the receiver accepts `m` -/
def Keys.acceptsWire (K : Crypto) (k : Keys) (m : Wire) : Prop := k.accepts K m.r m.s m.n

/-- the receiver's state after accepting `m` (`newPriv`: the fresh exponent read in `rotateOurKeys`) -/
def Keys.deliver (K : Crypto) (k : Keys) (m : Wire) (newPriv : Bytes) : Keys :=
  k.afterAccept K m.r m.s m.n m.y newPriv

/-- one step of the two-party system over two reliable FIFO channels -/
inductive Step2 (K : Crypto) : Sys2 → Sys2 → Prop
  | sendA (a b : Keys) (qab qba : List Wire) (t : Nat) : a.canSend K →
      Step2 K ⟨a, b, qab, qba⟩ ⟨a.afterSend K, b, qab ++ [a.wire t], qba⟩
  | sendB (a b : Keys) (qab qba : List Wire) (t : Nat) : b.canSend K →
      Step2 K ⟨a, b, qab, qba⟩ ⟨a, b.afterSend K, qab, qba ++ [b.wire t]⟩
  | deliverAB (a b : Keys) (m : Wire) (qab qba : List Wire) (newPriv : Bytes) : b.acceptsWire K m →
      Step2 K ⟨a, b, m :: qab, qba⟩ ⟨a, b.deliver K m newPriv, qab, qba⟩
  | deliverBA (a b : Keys) (m : Wire) (qab qba : List Wire) (newPriv : Bytes) : a.acceptsWire K m →
      Step2 K ⟨a, b, qab, m :: qba⟩ ⟨a.deliver K m newPriv, b, qab, qba⟩

/-- a DH pair as `rotateOurKeys` / the AKE build it -/
def DhPair.ok (K : Crypto) (p : DhPair) : Prop := p.pub = K.gexp dhG (bytesToNat p.priv)

def DhPair.gen (K : Crypto) (priv : Bytes) : DhPair := ⟨K.gexp dhG (bytesToNat priv), priv⟩

theorem DhPair.gen_ok (K : Crypto) (priv : Bytes) : (DhPair.gen K priv).ok K := rfl

/-- the state right after the key exchange: A holds the pairs `a1` (id 1, the AKE pair), `a2`
    (id 2, fresh); B holds `b1`, `b2`; each knows the other's AKE public key as key 1 -/
def Sys2.init (a1 a2 b1 b2 : DhPair) : Sys2 :=
  ⟨Keys.postAKE a2 a1 b1.pub, Keys.postAKE b2 b1 a1.pub, [], []⟩

/-! ## The invariant -/

/-- ghost registry update -/
def regUpd (rg : Nat → DhPair) (i : Nat) (p : DhPair) : Nat → DhPair := fun j => if j = i then p else rg j

/-- the registry of the receiver of `m` after it accepted `m` -/
def regAfter (K : Crypto) (rg : Nat → DhPair) (k : Keys) (m : Wire) (newPriv : Bytes) : Nat → DhPair :=
  if m.r = k.ourKeyID then regUpd rg (k.ourKeyID + 1) (DhPair.gen K newPriv) else rg

theorem regAfter_old {K rg k m p} {i : Nat} (h : i ≤ k.ourKeyID) : regAfter K rg k m p i = rg i := by
  unfold regAfter
  split
  · show (if i = k.ourKeyID + 1 then _ else rg i) = rg i
    rw [if_neg (by omega)]
  · rfl

/-- R1: the windows of the two parties overlap as they should -/
structure Ids (x y : Keys) : Prop where
  ox : 2 ≤ x.ourKeyID
  oy : 2 ≤ y.ourKeyID
  tx : 1 ≤ x.theirKeyID
  ty : 1 ≤ y.theirKeyID
  wxl : x.ourKeyID ≤ y.theirKeyID + 1
  wxu : y.theirKeyID ≤ x.ourKeyID
  wyl : y.ourKeyID ≤ x.theirKeyID + 1
  wyu : x.theirKeyID ≤ y.ourKeyID

theorem Ids.symm {x y : Keys} (h : Ids x y) : Ids y x :=
  ⟨h.oy, h.ox, h.ty, h.tx, h.wyl, h.wyu, h.wxl, h.wxu⟩

/-- R3/R4 for one in-flight message `m` sent by `x`, to be received by `y` -/
structure MsgOK (rx : Nat → DhPair) (x y : Keys) (m : Wire) : Prop where
  s_lo : y.theirKeyID ≤ m.s + 1
  s_hi : m.s + 1 ≤ x.ourKeyID
  s_pos : 1 ≤ m.s
  r_lo : y.ourKeyID ≤ m.r + 1
  r_hi : m.r ≤ x.theirKeyID
  r_pos : 1 ≤ m.r
  y_eq : m.y = (rx (m.s + 1)).pub
  /-- the receiver has not yet seen this counter under the pair -/
  fresh : thr y.counters m.r m.s < m.n
  /-- the sender's pair is retired, or its send counter is beyond `m.n` -/
  sent : x.Stored Counter.ourCounter m.s m.r (m.n + 1)

/-- order of the in-flight messages (R4) -/
def WireLe (m m' : Wire) : Prop := m.s ≤ m'.s ∧ m.r ≤ m'.r ∧ (m.s = m'.s → m.r = m'.r → m.n < m'.n)

/-- the part of the invariant that concerns the direction `x → y`; `rx`: ghost registry of all DH
    pairs `x` generated, by key id -/
structure Dir (K : Crypto) (rx : Nat → DhPair) (x y : Keys) (q : List Wire) : Prop where
  regok : ∀ i, 1 ≤ i → i ≤ x.ourKeyID → (rx i).ok K
  cur : x.ourCur = some (rx x.ourKeyID)
  prev : x.ourPrev = some (rx (x.ourKeyID - 1))
  tcur : y.theirCur = some (rx y.theirKeyID).pub
  tprev : 2 ≤ y.theirKeyID → y.theirPrev = some (rx (y.theirKeyID - 1)).pub
  msgs : ∀ m ∈ q, MsgOK rx x y m
  sorted : q.Pairwise WireLe
  /-- the receiver has seen nothing under pairs the sender has not reached yet -/
  c1 : ∀ i j, (x.ourKeyID ≤ i ∨ x.theirKeyID < j) → thr y.counters j i = 0
  /-- the sender's next counter is beyond what the receiver saw under the sender's current pair -/
  c2 : thr y.counters x.theirKeyID (x.ourKeyID - 1) < x.sendCtr

/-- the invariant of the two-party system; `ra`, `rb`: ghost registries of the DH pairs generated
    by A and B, by key id -/
structure Inv (K : Crypto) (ra rb : Nat → DhPair) (s : Sys2) : Prop where
  ids : Ids s.a s.b
  ab : Dir K ra s.a s.b s.qab
  ba : Dir K rb s.b s.a s.qba

/-! ## Preservation, one direction at a time -/

theorem Ids.send {K} {x y : Keys} (h : Ids x y) : Ids (x.afterSend K) y :=
  ⟨h.ox, h.oy, h.tx, h.ty, h.wxl, h.wxu, h.wyl, h.wyu⟩

theorem Ids.recv {K rx} {x y : Keys} {m : Wire} (h : Ids x y) (hm : MsgOK rx x y m) (p : Bytes) :
    Ids x (y.deliver K m p) := by
  have ho := afterAccept_ourKeyID (K := K) y m.r m.s m.n m.y p
  have ht := afterAccept_theirKeyID (K := K) y m.r m.s m.n m.y p
  have h1 := hm.s_lo; have h2 := hm.s_hi; have h3 := hm.r_lo; have h4 := hm.r_hi
  obtain ⟨a1, a2, a3, a4, a5, a6, a7, a8⟩ := h
  unfold Keys.deliver
  refine ⟨?_, ?_, ?_, ?_, ?_, ?_, ?_, ?_⟩ <;> (split at ho <;> split at ht <;> omega)

/-- `x` sends one more message -/
theorem Dir.send {K rx} {x y : Keys} {q : List Wire} (hid : Ids x y) (h : Dir K rx x y q)
    (hs : x.canSend K) (t : Nat) : Dir K rx (x.afterSend K) y (q ++ [x.wire t]) := by
  have hox := hid.ox
  have hnew : MsgOK rx (x.afterSend K) y (x.wire t) := by
    refine ⟨?_, ?_, ?_, ?_, ?_, ?_, ?_, ?_, ?_⟩
    · show y.theirKeyID ≤ x.ourKeyID - 1 + 1
      have := hid.wxu; omega
    · show x.ourKeyID - 1 + 1 ≤ x.ourKeyID
      omega
    · show 1 ≤ x.ourKeyID - 1
      omega
    · exact hid.wyl
    · exact Nat.le_refl _
    · exact hid.tx
    · show x.pubCur = (rx (x.ourKeyID - 1 + 1)).pub
      have : x.ourKeyID - 1 + 1 = x.ourKeyID := by omega
      rw [this]; unfold Keys.pubCur; rw [h.cur]
    · exact h.c2
    · exact afterSend_stored x
  refine ⟨h.regok, h.cur, h.prev, h.tcur, h.tprev, ?_, ?_, h.c1, ?_⟩
  · intro m hm
    rw [mem_append, mem_singleton] at hm
    rcases hm with hm | rfl
    · have h0 := h.msgs m hm
      exact ⟨h0.s_lo, h0.s_hi, h0.s_pos, h0.r_lo, h0.r_hi, h0.r_pos, h0.y_eq, h0.fresh,
        h0.sent.afterSend monoProj_our⟩
    · exact hnew
  · rw [pairwise_append]
    refine ⟨h.sorted, pairwise_singleton _ _, ?_⟩
    intro m hm w hw
    rw [mem_singleton] at hw; subst hw
    have h0 := h.msgs m hm
    refine ⟨?_, h0.r_hi, ?_⟩
    · show m.s ≤ x.ourKeyID - 1
      have := h0.s_hi; omega
    · intro e1 e2
      show m.n < x.sendCtr
      have e1' : m.s = x.ourKeyID - 1 := e1
      have e2' : m.r = x.theirKeyID := e2
      have := h0.sent; rw [e1', e2'] at this
      exact stored_sendCtr this (by omega)
  · exact Nat.lt_trans h.c2 (c05_send_counter_next hs)

/-- `y` accepts the head of the queue -/
theorem Dir.recv {K rx} {x y : Keys} {m : Wire} {q : List Wire} (hid : Ids x y)
    (h : Dir K rx x y (m :: q)) (p : Bytes) : Dir K rx x (y.deliver K m p) q := by
  have hm := h.msgs m mem_cons_self
  have hsorted := pairwise_cons.mp h.sorted
  have ho := afterAccept_ourKeyID (K := K) y m.r m.s m.n m.y p
  have ht := afterAccept_theirKeyID (K := K) y m.r m.s m.n m.y p
  have hf := afterAccept_fields (K := K) y m.r m.s m.n m.y p
  have hoy : 1 ≤ y.ourKeyID := by have := hid.oy; omega
  have hox := hid.ox
  refine ⟨h.regok, h.cur, h.prev, ?_, ?_, ?_, hsorted.2, ?_, ?_⟩
  · unfold Keys.deliver
    rw [hf.2.2.1, ht]
    split
    · rename_i e; rw [hm.y_eq, e]
    · exact h.tcur
  · unfold Keys.deliver
    rw [hf.2.2.2, ht]
    split
    · intro _; rw [h.tcur, Nat.add_sub_cancel]
    · exact h.tprev
  · intro m' hm'
    have h0 := h.msgs m' (mem_cons_of_mem _ hm')
    have hle := hsorted.1 m' hm'
    refine ⟨?_, h0.s_hi, h0.s_pos, ?_, h0.r_hi, h0.r_pos, h0.y_eq, ?_, h0.sent⟩
    · unfold Keys.deliver; rw [ht]
      have := hle.1; have := h0.s_lo
      split <;> omega
    · unfold Keys.deliver; rw [ho]
      have := hle.2.1; have := h0.r_lo
      split <;> omega
    · unfold Keys.deliver
      by_cases e : m'.r = m.r ∧ m'.s = m.s
      · rw [e.1, e.2, thr_afterAccept_self _ _ _ _ _ _ hoy hid.ty hm.fresh]
        exact hle.2.2 e.2.symm e.1.symm
      · exact Nat.lt_of_le_of_lt (thr_afterAccept_le _ _ _ _ _ _ _ _ e) h0.fresh
  · intro i j hij
    have e : ¬ (j = m.r ∧ i = m.s) := by have := hm.s_hi; have := hm.r_hi; omega
    have := thr_afterAccept_le (K := K) y m.r m.s m.n m.y p j i e
    have := h.c1 i j hij
    unfold Keys.deliver; omega
  · unfold Keys.deliver
    by_cases e : x.theirKeyID = m.r ∧ x.ourKeyID - 1 = m.s
    · rw [e.1, e.2, thr_afterAccept_self _ _ _ _ _ _ hoy hid.ty hm.fresh]
      have := hm.sent; rw [← e.1, ← e.2] at this
      exact stored_sendCtr this (by omega)
    · exact Nat.lt_of_le_of_lt (thr_afterAccept_le _ _ _ _ _ _ _ _ e) h.c2

/-- `y` (the receiver of this direction) sends something in the other direction -/
theorem Dir.peerSend {K rx} {x y : Keys} {q : List Wire} (h : Dir K rx x y q) :
    Dir K rx x (y.afterSend K) q := by
  refine ⟨h.regok, h.cur, h.prev, h.tcur, h.tprev, ?_, h.sorted, ?_, ?_⟩
  · intro m hm
    have h0 := h.msgs m hm
    exact ⟨h0.s_lo, h0.s_hi, h0.s_pos, h0.r_lo, h0.r_hi, h0.r_pos, h0.y_eq,
      by rw [thr_afterSend]; exact h0.fresh, h0.sent⟩
  · intro i j hij; rw [thr_afterSend]; exact h.c1 i j hij
  · rw [thr_afterSend]; exact h.c2

/-- `x` (the sender of this direction) accepts a message `m'` of the other direction -/
theorem Dir.peerRecv {K rx} {x y : Keys} {q : List Wire} (hid : Ids x y)
    (h : Dir K rx x y q) (m' : Wire) (p : Bytes) :
    Dir K (regAfter K rx x m' p) (x.deliver K m' p) y q := by
  have ho := afterAccept_ourKeyID (K := K) x m'.r m'.s m'.n m'.y p
  have ht := afterAccept_theirKeyID (K := K) x m'.r m'.s m'.n m'.y p
  have hf := afterAccept_fields (K := K) x m'.r m'.s m'.n m'.y p
  have hox := hid.ox; have htx := hid.tx; have hwxu := hid.wxu
  have homono : x.ourKeyID ≤ (x.afterAccept K m'.r m'.s m'.n m'.y p).ourKeyID := by
    rw [ho]; split <;> omega
  have htmono : x.theirKeyID ≤ (x.afterAccept K m'.r m'.s m'.n m'.y p).theirKeyID := by
    rw [ht]; split <;> omega
  refine ⟨?_, ?_, ?_, ?_, ?_, ?_, h.sorted, ?_, ?_⟩
  · intro i hi1 hi2
    unfold Keys.deliver at hi2
    rw [ho] at hi2
    unfold regAfter
    split
    · rename_i e
      rw [if_pos e] at hi2
      show (if i = x.ourKeyID + 1 then _ else rx i).ok K
      split
      · exact DhPair.gen_ok K p
      · exact h.regok i hi1 (by omega)
    · rename_i e
      rw [if_neg e] at hi2
      exact h.regok i hi1 hi2
  · unfold Keys.deliver regAfter
    rw [hf.1, ho]
    split
    · show _ = some (if x.ourKeyID + 1 = x.ourKeyID + 1 then _ else _)
      rw [if_pos rfl]; rfl
    · exact h.cur
  · unfold Keys.deliver regAfter
    rw [hf.2.1, ho]
    split
    · show _ = some (if x.ourKeyID + 1 - 1 = x.ourKeyID + 1 then _ else _)
      rw [if_neg (by omega), Nat.add_sub_cancel]; exact h.cur
    · exact h.prev
  · rw [regAfter_old hwxu]; exact h.tcur
  · intro h2; rw [regAfter_old (by omega)]; exact h.tprev h2
  · intro m hm
    have h0 := h.msgs m hm
    refine ⟨h0.s_lo, Nat.le_trans h0.s_hi homono, h0.s_pos, h0.r_lo, Nat.le_trans h0.r_hi htmono,
      h0.r_pos, ?_, h0.fresh, ?_⟩
    · rw [regAfter_old h0.s_hi]; exact h0.y_eq
    · exact h0.sent.afterAccept monoProj_our (by omega) htx _ _ _ _ _
  · intro i j hij
    apply h.c1
    unfold Keys.deliver at hij
    omega
  · unfold Keys.deliver
    by_cases e : m'.r ≠ x.ourKeyID ∧ m'.s ≠ x.theirKeyID
    · rw [sendCtr_afterAccept _ _ _ _ _ _ e.1 e.2, ho, ht, if_neg e.1, if_neg e.2]
      exact h.c2
    · have hz : thr y.counters (x.afterAccept K m'.r m'.s m'.n m'.y p).theirKeyID
          ((x.afterAccept K m'.r m'.s m'.n m'.y p).ourKeyID - 1) = 0 := by
        apply h.c1
        rw [ho, ht]
        split <;> split <;> omega
      rw [hz]
      exact sendCtr_pos _

/-! ## Session keys are derivable for every pair inside the window -/

/-- in an invariant state, `y` derives for every in-window pair `(i, j)` exactly the session keys
    computed from its own pair `ry i` and the public half of the peer's pair `rx j` -/
theorem Dir.derive {K rx ry} {x y : Keys} {q q' : List Wire} (hid : Ids x y)
    (hx : Dir K rx x y q) (hy : Dir K ry y x q') {i j : Nat} (hi : 1 ≤ i) (hj : 1 ≤ j)
    (hio : i = y.ourKeyID ∨ i + 1 = y.ourKeyID) (hjt : j = y.theirKeyID ∨ j + 1 = y.theirKeyID) :
    y.deriveSessionKeys K i j = .ok (sessionKeysOf K (ry i).priv (ry i).pub (rx j).pub) := by
  have hoy := hid.oy; have hty := hid.ty
  have h1 : y.pickOurKeys i = .ok (some (ry i)) := by
    unfold Keys.pickOurKeys
    rw [if_neg (by omega)]
    rcases hio with rfl | h
    · rw [if_pos rfl, hy.cur]
    · rw [if_neg (by omega), if_pos (by omega), hy.prev]
      have : y.ourKeyID - 1 = i := by omega
      rw [this]
  have h2 : y.pickTheirKey j = .ok (some (rx j).pub) := by
    unfold Keys.pickTheirKey
    rw [if_neg (by omega)]
    rcases hjt with rfl | h
    · rw [if_pos rfl, hx.tcur]
    · rw [if_neg (by omega), if_pos (by omega), hx.tprev (by omega)]
      have : y.theirKeyID - 1 = j := by omega
      rw [this]
  unfold Keys.deriveSessionKeys
  rw [h1, h2]

/-- the head of a queue is accepted by its receiver, with the session keys of the registry -/
theorem Dir.head_accepted {K rx ry} {x y : Keys} {m : Wire} {q q' : List Wire} (hid : Ids x y)
    (hx : Dir K rx x y (m :: q)) (hy : Dir K ry y x q') :
    y.deriveSessionKeys K m.r m.s = .ok (sessionKeysOf K (ry m.r).priv (ry m.r).pub (rx m.s).pub) ∧
    y.acceptsWire K m := by
  have hm := hx.msgs m mem_cons_self
  have h1 := hm.s_lo; have h2 := hm.s_hi; have h3 := hm.r_lo; have h4 := hm.r_hi
  have hd := Dir.derive hid hx hy hm.r_pos hm.s_pos
    (by have := hid.wyu; omega) (by have := hid.wxl; omega)
  exact ⟨hd, ⟨_, hd⟩, hm.fresh⟩

/-- the sender can always send, with the session keys of the registry -/
theorem Dir.can_send {K rx ry} {x y : Keys} {q q' : List Wire} (hid : Ids x y)
    (hx : Dir K rx x y q) (hy : Dir K ry y x q') :
    x.deriveSessionKeys K (x.ourKeyID - 1) x.theirKeyID =
      .ok (sessionKeysOf K (rx (x.ourKeyID - 1)).priv (rx (x.ourKeyID - 1)).pub (ry x.theirKeyID).pub) :=
  Dir.derive hid.symm hy hx (by have := hid.ox; omega) hid.tx
    (by have := hid.ox; omega) (.inl rfl)

/-! ## The invariant holds initially and is preserved by every step -/

/-- the registry right after the key exchange: ids 1 and 2 -/
def reg0 (p1 p2 : DhPair) : Nat → DhPair := fun i => if i = 1 then p1 else p2

theorem dir_init {K} (a1 a2 : DhPair) (y2 y1 : DhPair) (h1 : a1.ok K) (h2 : a2.ok K) :
    Dir K (reg0 a1 a2) (Keys.postAKE a2 a1 y1.pub) (Keys.postAKE y2 y1 a1.pub) [] := by
  refine ⟨?_, rfl, rfl, rfl, ?_, ?_, Pairwise.nil, ?_, ?_⟩
  · intro i _ _
    unfold reg0; split
    · exact h1
    · exact h2
  · intro h
    have h' : 2 ≤ 1 := h
    omega
  · intro m hm; cases hm
  · intro i j _; rfl
  · show 0 < 1; omega

theorem inv_init {K} (a1 a2 b1 b2 : DhPair) (ha1 : a1.ok K) (ha2 : a2.ok K) (hb1 : b1.ok K)
    (hb2 : b2.ok K) : Inv K (reg0 a1 a2) (reg0 b1 b2) (Sys2.init a1 a2 b1 b2) := by
  refine ⟨?_, dir_init a1 a2 b2 b1 ha1 ha2, dir_init b1 b2 a2 a1 hb1 hb2⟩
  exact ⟨(by show 2 ≤ 2; omega), (by show 2 ≤ 2; omega), (by show 1 ≤ 1; omega), (by show 1 ≤ 1; omega),
    (by show 2 ≤ 1 + 1; omega), (by show 1 ≤ 2; omega), (by show 2 ≤ 1 + 1; omega), (by show 1 ≤ 2; omega)⟩

/-- the registries after a step: a delivery that rotates the receiver's key registers the new pair -/
inductive RegStep (K : Crypto) (ra rb : Nat → DhPair) : Sys2 → Sys2 → (Nat → DhPair) → (Nat → DhPair) → Prop
  | sendA (a b qab qba t) : RegStep K ra rb ⟨a, b, qab, qba⟩ ⟨a.afterSend K, b, qab ++ [a.wire t], qba⟩ ra rb
  | sendB (a b qab qba t) : RegStep K ra rb ⟨a, b, qab, qba⟩ ⟨a, b.afterSend K, qab, qba ++ [b.wire t]⟩ ra rb
  | deliverAB (a b m qab qba p) :
      RegStep K ra rb ⟨a, b, m :: qab, qba⟩ ⟨a, b.deliver K m p, qab, qba⟩ ra (regAfter K rb b m p)
  | deliverBA (a b m qab qba p) :
      RegStep K ra rb ⟨a, b, qab, m :: qba⟩ ⟨a.deliver K m p, b, qab, qba⟩ (regAfter K ra a m p) rb

/-- the registries only grow: entries of ids already handed out do not change -/
theorem RegStep.grows {K ra rb s s' ra' rb'} (h : RegStep K ra rb s s' ra' rb') :
    (∀ i, i ≤ s.a.ourKeyID → ra' i = ra i) ∧ (∀ i, i ≤ s.b.ourKeyID → rb' i = rb i) := by
  cases h with
  | sendA => exact ⟨fun _ _ => rfl, fun _ _ => rfl⟩
  | sendB => exact ⟨fun _ _ => rfl, fun _ _ => rfl⟩
  | deliverAB => exact ⟨fun _ _ => rfl, fun _ hi => regAfter_old hi⟩
  | deliverBA => exact ⟨fun _ hi => regAfter_old hi, fun _ _ => rfl⟩

theorem Inv.sendA {K ra rb} {a b : Keys} {qab qba : List Wire} (h : Inv K ra rb ⟨a, b, qab, qba⟩)
    (hc : a.canSend K) (t : Nat) : Inv K ra rb ⟨a.afterSend K, b, qab ++ [a.wire t], qba⟩ :=
  ⟨h.ids.send, h.ab.send h.ids hc t, h.ba.peerSend⟩

theorem Inv.sendB {K ra rb} {a b : Keys} {qab qba : List Wire} (h : Inv K ra rb ⟨a, b, qab, qba⟩)
    (hc : b.canSend K) (t : Nat) : Inv K ra rb ⟨a, b.afterSend K, qab, qba ++ [b.wire t]⟩ :=
  ⟨h.ids.symm.send.symm, h.ab.peerSend, h.ba.send h.ids.symm hc t⟩

theorem Inv.deliverAB {K ra rb} {a b : Keys} {m : Wire} {qab qba : List Wire}
    (h : Inv K ra rb ⟨a, b, m :: qab, qba⟩) (p : Bytes) :
    Inv K ra (regAfter K rb b m p) ⟨a, b.deliver K m p, qab, qba⟩ :=
  ⟨h.ids.recv (h.ab.msgs m mem_cons_self) p, h.ab.recv h.ids p, h.ba.peerRecv h.ids.symm m p⟩

theorem Inv.deliverBA {K ra rb} {a b : Keys} {m : Wire} {qab qba : List Wire}
    (h : Inv K ra rb ⟨a, b, qab, m :: qba⟩) (p : Bytes) :
    Inv K (regAfter K ra a m p) rb ⟨a.deliver K m p, b, qab, qba⟩ :=
  ⟨(h.ids.symm.recv (h.ba.msgs m mem_cons_self) p).symm, h.ab.peerRecv h.ids m p,
    h.ba.recv h.ids.symm p⟩

/-- **the invariant is inductive** (all four kinds of step); the registries grow as `RegStep` says -/
theorem inv_step {K ra rb s s'} (h : Inv K ra rb s) (hs : Step2 K s s') :
    ∃ ra' rb', RegStep K ra rb s s' ra' rb' ∧ Inv K ra' rb' s' := by
  cases hs with
  | sendA a b qab qba t hc => exact ⟨ra, rb, .sendA .., h.sendA hc t⟩
  | sendB a b qab qba t hc => exact ⟨ra, rb, .sendB .., h.sendB hc t⟩
  | deliverAB a b m qab qba p _ => exact ⟨ra, _, .deliverAB .., h.deliverAB p⟩
  | deliverBA a b m qab qba p _ => exact ⟨_, rb, .deliverBA .., h.deliverBA p⟩

/-! ## C04: sends and deliveries are always enabled -/

/-- **C04 (4)**: in an invariant state both parties can send (`genDataMsgWithFlag` finds its keys) -/
theorem c04_send_enabled {K ra rb s} (h : Inv K ra rb s) : s.a.canSend K ∧ s.b.canSend K :=
  ⟨⟨_, Dir.can_send h.ids h.ab h.ba⟩, ⟨_, Dir.can_send h.ids.symm h.ba h.ab⟩⟩

/-- **C04 (2)**: the head of each non-empty queue is accepted by its receiver -/
theorem c04_deliveries_accepted {K ra rb s} (h : Inv K ra rb s) :
    (∀ m rest, s.qab = m :: rest → s.b.acceptsWire K m) ∧
    (∀ m rest, s.qba = m :: rest → s.a.acceptsWire K m) := by
  obtain ⟨a, b, qab, qba⟩ := s
  constructor
  · intro m rest e
    have e' : qab = m :: rest := e
    subst e'
    exact (Dir.head_accepted h.ids h.ab h.ba).2
  · intro m rest e
    have e' : qba = m :: rest := e
    subst e'
    exact (Dir.head_accepted h.ids.symm h.ba h.ab).2

/-- so a delivery step is enabled whenever a queue is non-empty, for every fresh exponent; it
    removes exactly the head of the queue -/
theorem c04_delivery_enabled {K ra rb s} (h : Inv K ra rb s) (p : Bytes) :
    (∀ m rest, s.qab = m :: rest → Step2 K s ⟨s.a, s.b.deliver K m p, rest, s.qba⟩) ∧
    (∀ m rest, s.qba = m :: rest → Step2 K s ⟨s.a.deliver K m p, s.b, s.qab, rest⟩) := by
  have hacc := c04_deliveries_accepted h
  obtain ⟨a, b, qab, qba⟩ := s
  constructor
  · intro m rest e
    have e' : qab = m :: rest := e
    subst e'
    exact .deliverAB a b m rest qba p (hacc.1 m rest rfl)
  · intro m rest e
    have e' : qba = m :: rest := e
    subst e'
    exact .deliverBA a b m qab rest p (hacc.2 m rest rfl)

/-- and a send step is enabled in every invariant state, for every payload -/
theorem c04_send_step_enabled {K ra rb s} (h : Inv K ra rb s) (t : Nat) :
    Step2 K s ⟨s.a.afterSend K, s.b, s.qab ++ [s.a.wire t], s.qba⟩ ∧
    Step2 K s ⟨s.a, s.b.afterSend K, s.qab, s.qba ++ [s.b.wire t]⟩ := by
  have hc := c04_send_enabled h
  obtain ⟨a, b, qab, qba⟩ := s
  exact ⟨.sendA a b qab qba t hc.1, .sendB a b qab qba t hc.2⟩

/-! ## Key agreement -/

/-- the session keys `x` computes for a message under its pair `m.s` and the peer's pair `m.r` -/
def keysOf (K : Crypto) (rx ry : Nat → DhPair) (m : Wire) : SessionKeys :=
  sessionKeysOf K (rx m.s).priv (rx m.s).pub (ry m.r).pub

/-- `calculateDHSessionKeys` on the two sides: the same secret (DH commutativity), opposite ends
    (the public keys differ), hence one side's sending keys are the other side's receiving keys -/
theorem sessionKeys_agree {K : Crypto}
    (hcomm : ∀ x y, K.gexp (K.gexp dhG x) y = K.gexp (K.gexp dhG y) x)
    {px py : DhPair} (hx : px.ok K) (hy : py.ok K) (hne : px.pub ≠ py.pub) :
    (sessionKeysOf K py.priv py.pub px.pub).recvAES = (sessionKeysOf K px.priv px.pub py.pub).sendAES ∧
    (sessionKeysOf K py.priv py.pub px.pub).recvMAC = (sessionKeysOf K px.priv px.pub py.pub).sendMAC ∧
    (sessionKeysOf K py.priv py.pub px.pub).sendAES = (sessionKeysOf K px.priv px.pub py.pub).recvAES ∧
    (sessionKeysOf K py.priv py.pub px.pub).sendMAC = (sessionKeysOf K px.priv px.pub py.pub).recvMAC ∧
    (sessionKeysOf K py.priv py.pub px.pub).extraKey = (sessionKeysOf K px.priv px.pub py.pub).extraKey := by
  have hsec : K.gexp px.pub (bytesToNat py.priv) = K.gexp py.pub (bytesToNat px.priv) := by
    unfold DhPair.ok at hx hy
    rw [hx, hy]; exact hcomm _ _
  unfold sessionKeysOf
  rw [hsec]
  rcases Nat.lt_or_gt_of_ne hne with h | h
  · have h1 : py.pub > px.pub := h
    have h2 : ¬ px.pub > py.pub := by omega
    simp only [if_pos h1, if_neg h2, and_self]
  · have h1 : px.pub > py.pub := h
    have h2 : ¬ py.pub > px.pub := by omega
    simp only [if_pos h1, if_neg h2, and_self]

/-- **C04 (3)**, registry form: the keys the receiver derives for the head of a queue are the mirror
    image of the keys computed from the sender's pair `m.s` and the receiver's pair `m.r` -/
theorem Dir.head_keys {K rx ry} {x y : Keys} {m : Wire} {q q' : List Wire}
    (hcomm : ∀ x y, K.gexp (K.gexp dhG x) y = K.gexp (K.gexp dhG y) x)
    (hid : Ids x y) (hx : Dir K rx x y (m :: q)) (hy : Dir K ry y x q')
    (hdist : ∀ i j, 1 ≤ i → i ≤ x.ourKeyID → 1 ≤ j → j ≤ y.ourKeyID → (rx i).pub ≠ (ry j).pub) :
    ∃ skY, y.deriveSessionKeys K m.r m.s = .ok skY ∧
      skY.recvAES = (keysOf K rx ry m).sendAES ∧ skY.recvMAC = (keysOf K rx ry m).sendMAC := by
  have hm := hx.msgs m mem_cons_self
  have h2 := hm.s_hi; have h4 := hm.r_hi; have := hid.wyu
  have hok1 := hx.regok m.s hm.s_pos (by omega)
  have hok2 := hy.regok m.r hm.r_pos (by omega)
  have hag := sessionKeys_agree hcomm hok1 hok2
    (hdist m.s m.r hm.s_pos (by omega) hm.r_pos (by omega))
  exact ⟨_, (Dir.head_accepted hid hx hy).1, hag.1, hag.2.1⟩

/-! ## The ghost-instrumented system: registries, keys used by the senders, payload logs -/

structure Ghost where
  /-- every DH pair A generated, by key id -/
  ra : Nat → DhPair
  /-- every DH pair B generated, by key id -/
  rb : Nat → DhPair
  /-- the session keys A derived when it built each message still in flight, oldest first -/
  kab : List SessionKeys
  kba : List SessionKeys
  /-- payloads A sent / B received / B sent / A received, oldest first -/
  sentA : List Nat
  recvB : List Nat
  sentB : List Nat
  recvA : List Nat

def Ghost.init (a1 a2 b1 b2 : DhPair) : Ghost := ⟨reg0 a1 a2, reg0 b1 b2, [], [], [], [], [], []⟩

/-- `Step2` with the ghost state carried along; the ghost state never influences a step -/
inductive GStep (K : Crypto) : Sys2 × Ghost → Sys2 × Ghost → Prop
  | sendA (a b : Keys) (qab qba : List Wire) (t : Nat) (g : Ghost) (sk : SessionKeys) :
      a.deriveSessionKeys K (a.ourKeyID - 1) a.theirKeyID = .ok sk →
      GStep K (⟨a, b, qab, qba⟩, g)
        (⟨a.afterSend K, b, qab ++ [a.wire t], qba⟩,
          { g with kab := g.kab ++ [sk], sentA := g.sentA ++ [t] })
  | sendB (a b : Keys) (qab qba : List Wire) (t : Nat) (g : Ghost) (sk : SessionKeys) :
      b.deriveSessionKeys K (b.ourKeyID - 1) b.theirKeyID = .ok sk →
      GStep K (⟨a, b, qab, qba⟩, g)
        (⟨a, b.afterSend K, qab, qba ++ [b.wire t]⟩,
          { g with kba := g.kba ++ [sk], sentB := g.sentB ++ [t] })
  | deliverAB (a b : Keys) (m : Wire) (qab qba : List Wire) (p : Bytes) (g : Ghost) :
      b.acceptsWire K m →
      GStep K (⟨a, b, m :: qab, qba⟩, g)
        (⟨a, b.deliver K m p, qab, qba⟩,
          { g with rb := regAfter K g.rb b m p, kab := g.kab.tail, recvB := g.recvB ++ [m.txt] })
  | deliverBA (a b : Keys) (m : Wire) (qab qba : List Wire) (p : Bytes) (g : Ghost) :
      a.acceptsWire K m →
      GStep K (⟨a, b, qab, m :: qba⟩, g)
        (⟨a.deliver K m p, b, qab, qba⟩,
          { g with ra := regAfter K g.ra a m p, kba := g.kba.tail, recvA := g.recvA ++ [m.txt] })

/-- erasing the ghost state gives a step of the real system … -/
theorem GStep.erase {K s g s' g'} (h : GStep K (s, g) (s', g')) : Step2 K s s' := by
  cases h with
  | sendA a b qab qba t g sk hd => exact .sendA a b qab qba t ⟨sk, hd⟩
  | sendB a b qab qba t g sk hd => exact .sendB a b qab qba t ⟨sk, hd⟩
  | deliverAB a b m qab qba p g hacc => exact .deliverAB a b m qab qba p hacc
  | deliverBA a b m qab qba p g hacc => exact .deliverBA a b m qab qba p hacc

/-- … and every step of the real system is the erasure of a ghost step, from any ghost state -/
theorem Step2.lift {K s s'} (h : Step2 K s s') (g : Ghost) : ∃ g', GStep K (s, g) (s', g') := by
  cases h with
  | sendA a b qab qba t hc => obtain ⟨sk, hd⟩ := hc; exact ⟨_, .sendA a b qab qba t g sk hd⟩
  | sendB a b qab qba t hc => obtain ⟨sk, hd⟩ := hc; exact ⟨_, .sendB a b qab qba t g sk hd⟩
  | deliverAB a b m qab qba p hacc => exact ⟨_, .deliverAB a b m qab qba p g hacc⟩
  | deliverBA a b m qab qba p hacc => exact ⟨_, .deliverBA a b m qab qba p g hacc⟩

theorem keysOf_regAfter_r {K rx ry k m p} {m' : Wire} (h : m'.r ≤ k.ourKeyID) :
    keysOf K rx (regAfter K ry k m p) m' = keysOf K rx ry m' := by
  unfold keysOf; rw [regAfter_old h]

theorem keysOf_regAfter_s {K rx ry k m p} {m' : Wire} (h : m'.s ≤ k.ourKeyID) :
    keysOf K (regAfter K rx k m p) ry m' = keysOf K rx ry m' := by
  unfold keysOf; rw [regAfter_old h]

/-- the invariant of the instrumented system -/
structure GInv (K : Crypto) (s : Sys2) (g : Ghost) : Prop where
  inv : Inv K g.ra g.rb s
  /-- the keys each sender used are the ones computed from the registries -/
  kab : g.kab = s.qab.map (keysOf K g.ra g.rb)
  kba : g.kba = s.qba.map (keysOf K g.rb g.ra)
  /-- received ++ in flight = sent, in order -/
  fifoAB : g.recvB ++ s.qab.map Wire.txt = g.sentA
  fifoBA : g.recvA ++ s.qba.map Wire.txt = g.sentB

theorem ginv_init {K} (a1 a2 b1 b2 : DhPair) (ha1 : a1.ok K) (ha2 : a2.ok K) (hb1 : b1.ok K)
    (hb2 : b2.ok K) : GInv K (Sys2.init a1 a2 b1 b2) (Ghost.init a1 a2 b1 b2) :=
  ⟨inv_init a1 a2 b1 b2 ha1 ha2 hb1 hb2, rfl, rfl, rfl, rfl⟩

theorem ginv_step {K s g s' g'} (h : GInv K s g) (hs : GStep K (s, g) (s', g')) : GInv K s' g' := by
  cases hs with
  | sendA a b qab qba t g sk hd =>
    have hk := Dir.can_send h.inv.ids h.inv.ab h.inv.ba
    have hsk : sk = keysOf K g.ra g.rb (a.wire t) := by
      have : Except.ok sk = Except.ok _ := hd.symm.trans hk
      exact Except.ok.inj this
    refine ⟨h.inv.sendA ⟨sk, hd⟩ t, ?_, h.kba, ?_, h.fifoBA⟩
    · show g.kab ++ [sk] = (qab ++ [a.wire t]).map _
      rw [map_append, h.kab, hsk]; rfl
    · show g.recvB ++ (qab ++ [a.wire t]).map Wire.txt = g.sentA ++ [t]
      rw [map_append, ← append_assoc, h.fifoAB]; rfl
  | sendB a b qab qba t g sk hd =>
    have hk := Dir.can_send h.inv.ids.symm h.inv.ba h.inv.ab
    have hsk : sk = keysOf K g.rb g.ra (b.wire t) := by
      have : Except.ok sk = Except.ok _ := hd.symm.trans hk
      exact Except.ok.inj this
    refine ⟨h.inv.sendB ⟨sk, hd⟩ t, h.kab, ?_, h.fifoAB, ?_⟩
    · show g.kba ++ [sk] = (qba ++ [b.wire t]).map _
      rw [map_append, h.kba, hsk]; rfl
    · show g.recvA ++ (qba ++ [b.wire t]).map Wire.txt = g.sentB ++ [t]
      rw [map_append, ← append_assoc, h.fifoBA]; rfl
  | deliverAB a b m qab qba p g hacc =>
    have hwyu : a.theirKeyID ≤ b.ourKeyID := h.inv.ids.wyu
    refine ⟨h.inv.deliverAB p, ?_, ?_, ?_, h.fifoBA⟩
    · show g.kab.tail = qab.map (keysOf K g.ra (regAfter K g.rb b m p))
      rw [h.kab]
      show qab.map _ = _
      apply map_congr_left
      intro m' hm'
      have : m'.r ≤ a.theirKeyID := (h.inv.ab.msgs m' (mem_cons_of_mem _ hm')).r_hi
      exact (keysOf_regAfter_r (by omega)).symm
    · show g.kba = qba.map (keysOf K (regAfter K g.rb b m p) g.ra)
      rw [h.kba]
      apply map_congr_left
      intro m' hm'
      have : m'.s + 1 ≤ b.ourKeyID := (h.inv.ba.msgs m' hm').s_hi
      exact (keysOf_regAfter_s (by omega)).symm
    · show (g.recvB ++ [m.txt]) ++ qab.map Wire.txt = g.sentA
      rw [append_assoc]; exact h.fifoAB
  | deliverBA a b m qab qba p g hacc =>
    have hwxu : b.theirKeyID ≤ a.ourKeyID := h.inv.ids.wxu
    refine ⟨h.inv.deliverBA p, ?_, ?_, h.fifoAB, ?_⟩
    · show g.kab = qab.map (keysOf K (regAfter K g.ra a m p) g.rb)
      rw [h.kab]
      apply map_congr_left
      intro m' hm'
      have : m'.s + 1 ≤ a.ourKeyID := (h.inv.ab.msgs m' hm').s_hi
      exact (keysOf_regAfter_s (by omega)).symm
    · show g.kba.tail = qba.map (keysOf K g.rb (regAfter K g.ra a m p))
      rw [h.kba]
      show qba.map _ = _
      apply map_congr_left
      intro m' hm'
      have : m'.r ≤ b.theirKeyID := (h.inv.ba.msgs m' (mem_cons_of_mem _ hm')).r_hi
      exact (keysOf_regAfter_r (by omega)).symm
    · show (g.recvA ++ [m.txt]) ++ qba.map Wire.txt = g.sentB
      rw [append_assoc]; exact h.fifoBA

/-! ## Schedules -/

/-- `s` is reachable from `s0` by some schedule: any interleaving of sends and deliveries -/
inductive Reach (K : Crypto) (s0 : Sys2) : Sys2 → Prop
  | init : Reach K s0 s0
  | step {s s'} : Reach K s0 s → Step2 K s s' → Reach K s0 s'

/-- the same for the instrumented system -/
inductive GReach (K : Crypto) (c0 : Sys2 × Ghost) : Sys2 × Ghost → Prop
  | init : GReach K c0 c0
  | step {c c'} : GReach K c0 c → GStep K c c' → GReach K c0 c'

/-- every schedule of the real system is a schedule of the instrumented one -/
theorem Reach.lift {K s0 s} (h : Reach K s0 s) (g0 : Ghost) : ∃ g, GReach K (s0, g0) (s, g) := by
  induction h with
  | init => exact ⟨g0, .init⟩
  | step _ hs ih =>
    obtain ⟨g, hg⟩ := ih
    obtain ⟨g', hg'⟩ := hs.lift g
    exact ⟨g', .step hg hg'⟩

theorem GReach.erase' {K c0 c} (h : GReach K c0 c) : Reach K c0.1 c.1 := by
  induction h with
  | init => exact .init
  | step _ hs ih => exact .step ih (GStep.erase (g := _) (g' := _) hs)

theorem GReach.erase {K s0 g0 s g} (h : GReach K (s0, g0) (s, g)) : Reach K s0 s := h.erase'

theorem ginv_reachable' {K c0 c} (h0 : GInv K c0.1 c0.2) (h : GReach K c0 c) : GInv K c.1 c.2 := by
  induction h with
  | init => exact h0
  | step _ hs ih => exact ginv_step ih hs

theorem ginv_reachable {K s0 g0 s g} (h0 : GInv K s0 g0) (h : GReach K (s0, g0) (s, g)) :
    GInv K s g := ginv_reachable' (c0 := (s0, g0)) h0 h

/-- **the invariant holds after every schedule** from the state right after the key exchange -/
theorem inv_reachable {K} {a1 a2 b1 b2 : DhPair} (ha1 : a1.ok K) (ha2 : a2.ok K) (hb1 : b1.ok K)
    (hb2 : b2.ok K) {s : Sys2} (h : Reach K (Sys2.init a1 a2 b1 b2) s) :
    ∃ ra rb, Inv K ra rb s := by
  obtain ⟨g, hg⟩ := h.lift (Ghost.init a1 a2 b1 b2)
  exact ⟨g.ra, g.rb, (ginv_reachable (ginv_init a1 a2 b1 b2 ha1 ha2 hb1 hb2) hg).inv⟩

/-! ## C04 — the theorems -/

/-- **C04 (2), exactly once and in order**: after every schedule, what B has received followed by
    what is still in flight is exactly what A sent (and vice versa) -/
theorem c04_exactly_once_in_order {K s0 g0 s g} (h0 : GInv K s0 g0) (h : GReach K (s0, g0) (s, g)) :
    g.recvB ++ s.qab.map Wire.txt = g.sentA ∧ g.recvA ++ s.qba.map Wire.txt = g.sentB :=
  ⟨(ginv_reachable h0 h).fifoAB, (ginv_reachable h0 h).fifoBA⟩

/-- in particular the received sequence is always a prefix of the sent one … -/
theorem c04_prefix {K s0 g0 s g} (h0 : GInv K s0 g0) (h : GReach K (s0, g0) (s, g)) :
    g.recvB <+: g.sentA ∧ g.recvA <+: g.sentB :=
  ⟨⟨_, (ginv_reachable h0 h).fifoAB⟩, ⟨_, (ginv_reachable h0 h).fifoBA⟩⟩

/-- … and once the queues are drained, B has received exactly the payloads A sent, in the order A
    sent them, each once; and vice versa -/
theorem c04_drained {K s0 g0 s g} (h0 : GInv K s0 g0) (h : GReach K (s0, g0) (s, g))
    (hab : s.qab = []) (hba : s.qba = []) : g.recvB = g.sentA ∧ g.recvA = g.sentB := by
  have h1 := c04_exactly_once_in_order h0 h
  rw [hab, hba] at h1
  simpa using h1

theorem GReach.head {K c c1 c2} (h1 : GStep K c c1) (h2 : GReach K c1 c2) : GReach K c c2 := by
  induction h2 with
  | init => exact .step .init h1
  | step _ hs ih => exact .step ih hs

/-- the queues can always be drained: from every invariant state there is a continuation of the
    schedule (deliveries only) that empties both queues; nothing ever gets stuck in a queue -/
theorem c04_can_drain {K} : ∀ (n : Nat) (s : Sys2) (g : Ghost), GInv K s g →
    s.qab.length + s.qba.length = n →
    ∃ s' g', GReach K (s, g) (s', g') ∧ s'.qab = [] ∧ s'.qba = [] ∧
      g'.sentA = g.sentA ∧ g'.sentB = g.sentB
  | 0, s, g, _, hn => by
    refine ⟨s, g, .init, ?_, ?_, rfl, rfl⟩
    · exact length_eq_zero_iff.mp (by omega)
    · exact length_eq_zero_iff.mp (by omega)
  | n + 1, s, g, h, hn => by
    obtain ⟨a, b, qab, qba⟩ := s
    cases qab with
    | cons m rest =>
      have hacc := (Dir.head_accepted h.inv.ids h.inv.ab h.inv.ba).2
      have hstep := GStep.deliverAB a b m rest qba [] g hacc
      have hinv := ginv_step h hstep
      obtain ⟨s', g', hr, e1, e2, e3, e4⟩ := c04_can_drain n _ _ hinv (by
        simp only [length_cons] at hn ⊢; omega)
      exact ⟨s', g', .head hstep hr, e1, e2, e3, e4⟩
    | nil =>
      cases qba with
      | nil => simp at hn
      | cons m rest =>
        have hacc := (Dir.head_accepted h.inv.ids.symm h.inv.ba h.inv.ab).2
        have hstep := GStep.deliverBA a b m [] rest [] g hacc
        have hinv := ginv_step h hstep
        obtain ⟨s', g', hr, e1, e2, e3, e4⟩ := c04_can_drain n _ _ hinv (by
          simp only [length_cons, length_nil] at hn ⊢; omega)
        exact ⟨s', g', .head hstep hr, e1, e2, e3, e4⟩

/-- the two parties never generated the same public key (hypothesis of the key-agreement part;
    compared are only pairs that are both in use) -/
def Ghost.Distinct (g : Ghost) (s : Sys2) : Prop :=
  ∀ i j, 1 ≤ i → i ≤ s.a.ourKeyID → 1 ≤ j → j ≤ s.b.ourKeyID → (g.ra i).pub ≠ (g.rb j).pub

/-- **C04 (3), key agreement**: for the head `m` of a queue, the session keys the receiver derives
    for `(m.r, m.s)` decrypt and authenticate what the sender produced with the keys it derived
    when it built `m` (`skA`: recorded in the ghost queue at send time):
    receiving AES key = sending AES key, receiving MAC key = sending MAC key. -/
theorem c04_key_agreement {K : Crypto} {s : Sys2} {g : Ghost}
    (hcomm : ∀ x y, K.gexp (K.gexp dhG x) y = K.gexp (K.gexp dhG y) x)
    (h : GInv K s g) (hdist : g.Distinct s) :
    (∀ m rest, s.qab = m :: rest → ∃ skA ks skB, g.kab = skA :: ks ∧
      s.b.deriveSessionKeys K m.r m.s = .ok skB ∧
      skB.recvAES = skA.sendAES ∧ skB.recvMAC = skA.sendMAC) ∧
    (∀ m rest, s.qba = m :: rest → ∃ skB ks skA, g.kba = skB :: ks ∧
      s.a.deriveSessionKeys K m.r m.s = .ok skA ∧
      skA.recvAES = skB.sendAES ∧ skA.recvMAC = skB.sendMAC) := by
  obtain ⟨a, b, qab, qba⟩ := s
  constructor
  · intro m rest e
    have e' : qab = m :: rest := e
    subst e'
    obtain ⟨skB, h1, h2, h3⟩ := Dir.head_keys hcomm h.inv.ids h.inv.ab h.inv.ba hdist
    exact ⟨_, _, skB, h.kab, h1, h2, h3⟩
  · intro m rest e
    have e' : qba = m :: rest := e
    subst e'
    obtain ⟨skA, h1, h2, h3⟩ := Dir.head_keys hcomm h.inv.ids.symm h.inv.ba h.inv.ab
      (fun i j hi1 hi2 hj1 hj2 => (hdist j i hj1 hj2 hi1 hi2).symm)
    exact ⟨_, _, skA, h.kba, h1, h2, h3⟩

/-- **C04, all of it, for every schedule** from the state right after the key exchange: whatever
    the interleaving of sends and deliveries, however many messages are in flight, wherever the
    ratchets are — both parties can send, the head of each queue is accepted, received ++ in flight
    = sent, and (given DH commutativity and distinct public keys) the receiver's keys for the head
    of each queue mirror the keys its sender used. -/
theorem c04_reachable {K : Crypto} {a1 a2 b1 b2 : DhPair} (ha1 : a1.ok K) (ha2 : a2.ok K)
    (hb1 : b1.ok K) (hb2 : b2.ok K) {s : Sys2} {g : Ghost}
    (h : GReach K (Sys2.init a1 a2 b1 b2, Ghost.init a1 a2 b1 b2) (s, g)) :
    (s.a.canSend K ∧ s.b.canSend K) ∧
    ((∀ m rest, s.qab = m :: rest → s.b.acceptsWire K m) ∧
     (∀ m rest, s.qba = m :: rest → s.a.acceptsWire K m)) ∧
    (g.recvB ++ s.qab.map Wire.txt = g.sentA ∧ g.recvA ++ s.qba.map Wire.txt = g.sentB) ∧
    ((∀ x y, K.gexp (K.gexp dhG x) y = K.gexp (K.gexp dhG y) x) → g.Distinct s →
      (∀ m rest, s.qab = m :: rest → ∃ skA ks skB, g.kab = skA :: ks ∧
        s.b.deriveSessionKeys K m.r m.s = .ok skB ∧
        skB.recvAES = skA.sendAES ∧ skB.recvMAC = skA.sendMAC) ∧
      (∀ m rest, s.qba = m :: rest → ∃ skB ks skA, g.kba = skB :: ks ∧
        s.a.deriveSessionKeys K m.r m.s = .ok skA ∧
        skA.recvAES = skB.sendAES ∧ skA.recvMAC = skB.sendMAC)) := by
  have hg := ginv_reachable (ginv_init a1 a2 b1 b2 ha1 ha2 hb1 hb2) h
  exact ⟨c04_send_enabled hg.inv, c04_deliveries_accepted hg.inv, ⟨hg.fifoAB, hg.fifoBA⟩,
    fun hcomm hdist => c04_key_agreement hcomm hg hdist⟩

/-- the same for the uninstrumented system: after every schedule both parties can send and the
    head of each queue is accepted — no `Send` fails, no delivery is rejected -/
theorem c04_never_stuck {K : Crypto} {a1 a2 b1 b2 : DhPair} (ha1 : a1.ok K) (ha2 : a2.ok K)
    (hb1 : b1.ok K) (hb2 : b2.ok K) {s : Sys2} (h : Reach K (Sys2.init a1 a2 b1 b2) s) :
    (s.a.canSend K ∧ s.b.canSend K) ∧
    (∀ m rest, s.qab = m :: rest → s.b.acceptsWire K m) ∧
    (∀ m rest, s.qba = m :: rest → s.a.acceptsWire K m) := by
  obtain ⟨ra, rb, hinv⟩ := inv_reachable ha1 ha2 hb1 hb2 h
  exact ⟨c04_send_enabled hinv, c04_deliveries_accepted hinv⟩

/-- "unchanged": with agreeing AES keys and an involutive counter mode, the receiver decrypts what
    the sender encrypted to the original plaintext -/
theorem c04_unchanged {K : Crypto}
    (hinv : ∀ k iv d d', K.ctr k iv d = some d' → K.ctr k iv d' = some d)
    {skA skB : SessionKeys} (hk : skB.recvAES = skA.sendAES) {iv pt ct : Bytes}
    (henc : K.ctr skA.sendAES iv pt = some ct) : K.ctr skB.recvAES iv ct = some pt := by
  rw [hk]; exact hinv _ _ _ _ henc

/-- the hypothesis of `c04_unchanged` holds for the real AES-CTR -/
theorem ctr_real_involutive (k iv d d' : Bytes) (h : Crypto.real.ctr k iv d = some d') :
    Crypto.real.ctr k iv d' = some d := CryptoReal.aesCtr_involutive k iv d d' h

/-! ## Link to the one-party step relation of `Proofs.Keys` -/

/-- each step of the two-party system is a `KStep` of A and a `KStep` of B (so everything proved
    about `KSteps` — C05, C09, C19 — applies to both parties of every schedule) -/
theorem Step2.ksteps {K s s'} (h : Step2 K s s') : KStep K s.a s'.a ∧ KStep K s.b s'.b := by
  cases h with
  | sendA a b qab qba t hc => exact ⟨.send a hc, .reject b⟩
  | sendB a b qab qba t hc => exact ⟨.reject a, .send b hc⟩
  | deliverAB a b m qab qba p hacc => exact ⟨.reject a, .recv b m.r m.s m.n m.y p hacc⟩
  | deliverBA a b m qab qba p hacc => exact ⟨.recv a m.r m.s m.n m.y p hacc, .reject b⟩

theorem Reach.ksteps {K s0 s} (h : Reach K s0 s) : KSteps K s0.a s.a ∧ KSteps K s0.b s.b := by
  induction h with
  | init => exact ⟨.refl _, .refl _⟩
  | step _ hs ih => exact ⟨.tail ih.1 hs.ksteps.1, .tail ih.2 hs.ksteps.2⟩

/-! ## TESTS (not the theorem): an executable simulator, an executable check of the arithmetic part
    of the invariant, concrete schedules, and an exhaustive bounded exploration.
    Everything below is evaluated by the kernel (`decide`) with the constant crypto `Crypto.dummy`;
    it only shows that the definitions above compute what they are meant to. -/

inductive Act where
  | sA (t : Nat) | sB (t : Nat) | dAB (p : Bytes) | dBA (p : Bytes)
  deriving Repr, DecidableEq

def Keys.canSendB (K : Crypto) (k : Keys) : Bool :=
  match k.deriveSessionKeys K (k.ourKeyID - 1) k.theirKeyID with
  | .ok _ => true
  | .error _ => false

def Keys.acceptsB (K : Crypto) (k : Keys) (m : Wire) : Bool :=
  (match k.deriveSessionKeys K m.r m.s with
   | .ok _ => true
   | .error _ => false) && decide (thr k.counters m.r m.s < m.n)

theorem Keys.canSendB_iff {K} {k : Keys} : k.canSendB K = true ↔ k.canSend K := by
  unfold Keys.canSendB Keys.canSend
  cases h : k.deriveSessionKeys K (k.ourKeyID - 1) k.theirKeyID with
  | ok sk => simp
  | error e => simp

theorem Keys.acceptsB_iff {K} {k : Keys} {m : Wire} : k.acceptsB K m = true ↔ k.acceptsWire K m := by
  unfold Keys.acceptsB Keys.acceptsWire Keys.accepts
  have : thr k.counters m.r m.s = (findCounter k.counters m.r m.s).1.theirCounter := rfl
  rw [this]
  cases h : k.deriveSessionKeys K m.r m.s with
  | ok sk => simp
  | error e => simp

/-- outcome of trying one action -/
inductive Outcome where
  | ok (s : Sys2)
  /-- delivery from an empty queue: nothing to do -/
  | idle
  /-- `genDataMsgWithFlag` would fail, or the receiver would reject the head of the queue -/
  | stuck

def exec (K : Crypto) (s : Sys2) : Act → Outcome
  | .sA t => if s.a.canSendB K then .ok ⟨s.a.afterSend K, s.b, s.qab ++ [s.a.wire t], s.qba⟩ else .stuck
  | .sB t => if s.b.canSendB K then .ok ⟨s.a, s.b.afterSend K, s.qab, s.qba ++ [s.b.wire t]⟩ else .stuck
  | .dAB p =>
    match s.qab with
    | [] => .idle
    | m :: rest => if s.b.acceptsB K m then .ok ⟨s.a, s.b.deliver K m p, rest, s.qba⟩ else .stuck
  | .dBA p =>
    match s.qba with
    | [] => .idle
    | m :: rest => if s.a.acceptsB K m then .ok ⟨s.a.deliver K m p, s.b, s.qab, rest⟩ else .stuck

/-- the simulator only makes steps of `Step2` -/
theorem exec_sound {K s act s'} (h : exec K s act = .ok s') : Step2 K s s' := by
  obtain ⟨a, b, qab, qba⟩ := s
  cases act with
  | sA t =>
    simp only [exec] at h
    split at h
    · rename_i hc; cases h; exact .sendA a b qab qba t (Keys.canSendB_iff.mp hc)
    · cases h
  | sB t =>
    simp only [exec] at h
    split at h
    · rename_i hc; cases h; exact .sendB a b qab qba t (Keys.canSendB_iff.mp hc)
    · cases h
  | dAB p =>
    cases qab with
    | nil => simp only [exec] at h; cases h
    | cons m rest =>
      simp only [exec] at h
      split at h
      · rename_i hc; cases h; exact .deliverAB a b m rest qba p (Keys.acceptsB_iff.mp hc)
      · cases h
  | dBA p =>
    cases qba with
    | nil => simp only [exec] at h; cases h
    | cons m rest =>
      simp only [exec] at h
      split at h
      · rename_i hc; cases h; exact .deliverBA a b m qab rest p (Keys.acceptsB_iff.mp hc)
      · cases h

instance (m m' : Wire) : Decidable (WireLe m m') := by unfold WireLe; infer_instance

/-- executable check of R1 -/
def checkIds (x y : Keys) : Bool :=
  decide (2 ≤ x.ourKeyID ∧ 2 ≤ y.ourKeyID ∧ 1 ≤ x.theirKeyID ∧ 1 ≤ y.theirKeyID ∧
    x.ourKeyID ≤ y.theirKeyID + 1 ∧ y.theirKeyID ≤ x.ourKeyID ∧
    y.ourKeyID ≤ x.theirKeyID + 1 ∧ x.theirKeyID ≤ y.ourKeyID)

/-- executable check of the registry-free part of `Dir`: R3, R4, c2, and the conclusions (the
    sender can send, the head is accepted) -/
def checkDir (K : Crypto) (x y : Keys) (q : List Wire) : Bool :=
  q.all (fun m => decide (y.theirKeyID ≤ m.s + 1 ∧ m.s + 1 ≤ x.ourKeyID ∧ 1 ≤ m.s ∧
      y.ourKeyID ≤ m.r + 1 ∧ m.r ≤ x.theirKeyID ∧ 1 ≤ m.r ∧ thr y.counters m.r m.s < m.n)) &&
  decide (q.Pairwise WireLe) &&
  decide (thr y.counters x.theirKeyID (x.ourKeyID - 1) < x.sendCtr) &&
  x.canSendB K &&
  (match q with
   | [] => true
   | m :: _ => y.acceptsB K m)

def checkInv (K : Crypto) (s : Sys2) : Bool :=
  checkIds s.a s.b && checkDir K s.a s.b s.qab && checkDir K s.b s.a s.qba

/-- run a schedule; `none` as soon as an action is stuck or `checkInv` fails -/
def runSched (K : Crypto) : List Act → Sys2 → Option Sys2
  | [], s => if checkInv K s then some s else none
  | act :: rest, s =>
    if checkInv K s then
      match exec K s act with
      | .ok s' => runSched K rest s'
      | .idle => runSched K rest s
      | .stuck => none
    else none

/-- explore every schedule of length ≤ `d` over the four actions: `true` iff no action is ever
    stuck and `checkInv` holds in every state visited -/
def explore (K : Crypto) : Nat → Sys2 → Bool
  | 0, s => checkInv K s
  | d + 1, s =>
    checkInv K s &&
    [Act.sA 7, Act.sB 8, Act.dAB [1], Act.dBA [2]].all (fun act =>
      match exec K s act with
      | .ok s' => explore K d s'
      | .idle => true
      | .stuck => false)

def testInit : Sys2 := Sys2.init ⟨1, [1]⟩ ⟨1, [2]⟩ ⟨1, [3]⟩ ⟨1, [4]⟩

/-- TEST: a ping-pong run in which both ratchets advance twice, with a straggler sent under an old
    key (A sends two, B answers after the first, A sends again before the second arrives) -/
example :
    (runSched Crypto.dummy
      [.sA 1, .sA 2, .dAB [5], .sB 3, .dBA [6], .sA 4, .dAB [7], .dAB [8], .sB 5, .dBA [9], .sA 6, .dAB [10]]
      testInit).map
      (fun s => (s.a.ourKeyID, s.a.theirKeyID, s.b.ourKeyID, s.b.theirKeyID, s.qab.length, s.qba.length))
      = some (4, 3, 4, 4, 0, 0) := by decide +kernel

/-- TEST: many messages in flight in both directions before anything is delivered -/
example :
    (runSched Crypto.dummy
      [.sA 1, .sB 2, .sA 3, .sB 4, .sA 5, .dBA [5], .dBA [6], .sA 6, .dAB [7], .dAB [8], .dAB [9], .dAB [10],
       .sB 7, .dBA [11]] testInit).map
      (fun s => (s.a.ourKeyID, s.a.theirKeyID, s.b.ourKeyID, s.b.theirKeyID, s.qab.length, s.qba.length))
      = some (3, 3, 3, 2, 0, 0) := by decide +kernel

/-- TEST: every schedule of length ≤ 6 (4^6 leaves) keeps `checkInv` and never gets stuck -/
example : explore Crypto.dummy 6 testInit = true := by decide +kernel

end Otr
