/-
  Proofs.ResendBook — the frame `Book` used by Proofs.ResendInv: what almost all of the conversation code leaves
  alone — the retransmission bookkeeping (`mayRetransmit`, `retransmitting`, `resendMsgs`), the pending replies
  (`injections`), the fragment context, the policies, the error-handler flag and the message state.

  One walk through every function reachable from an API call that does not write one of these fields
  (`*_book`), in the style of Proofs.Events (`*_life`).  The writers (`generatePotentialErrorMessage`,
  `withInjects`, `resendLater`, `resendLast`, `genDataMsgWithFlag`, `retransmit`, `receiveErrorMessage`, `send`,
  `endSession`, `akeHasFinished`, `processDisconnectedTLV`, the fragment branch of `receiveUnit`) are treated in
  Proofs.ResendInv.
-/
import Proofs.NoPanic
import Proofs.Events
set_option linter.unusedSimpArgs false
set_option linter.unusedVariables false
namespace Otr

/-- the components `Book` speaks about -/
def bookKept (s : MState) :=
  (s.conv.mayRetransmit, s.conv.retransmitting, s.conv.resendMsgs, s.conv.injections, s.conv.fragCtx,
   s.conv.policies, s.conv.errHandler, s.conv.msgState)

/-- the bookkeeping frame: retransmission state, pending replies, fragment context, policies, error-handler
    flag and message state are unchanged -/
abbrev Book : MState → MState → Prop := Keeps bookKept

/-- leaves of a walk for `Book` -/
macro "book_leaf" : tactic => `(tactic| first
  | exact Stable.modc _ (fun _ => rfl)
  | (refine Stable.modc _ (fun s => ?_); show bookKept _ = bookKept _; unfold bookKept; dsimp only; split <;> rfl)
  | exact Stable.mism _ (fun _ => rfl)
  | exact Stable.ev _ (fun _ => rfl))

macro "book_core" : tactic => `(tactic| first
  | exact Stable.pure _ | exact Stable.throw _ | exact Stable.goPanic _
  | exact Stable.getc | exact Stable.get | exact Stable.now
  | book_leaf
  | with_reducible apply Stable.bind | with_reducible apply Stable.tryCatch
  | with_reducible apply Stable.ite | with_reducible apply Stable.map
  | with_reducible apply Stable.forIn)

/-- `book_walk [lemmas]`: as `stable [lemmas]`, for frames whose leaves are closed by `book_leaf` -/
syntax "book_walk" "[" term,* "]" : tactic
macro_rules
  | `(tactic| book_walk [$ls,*]) => do
    let tacs ← ls.getElems.mapM fun l => `(tactic| with_reducible apply $l)
    `(tactic| repeat' (first | book_core $[| $tacs:tactic]* | with_reducible intro _ | split | dsimp only))

/-! ### events -/

theorem msgEvent_book (n : Nat) : Stable Book (msgEvent n) := by
  unfold msgEvent; book_walk []
theorem msgEventMsg_book (n : Nat) (m : Bytes) : Stable Book (msgEventMsg n m) := by
  unfold msgEventMsg; book_walk []
theorem msgEventErr_book (n : Nat) : Stable Book (msgEventErr n) := by
  unfold msgEventErr; book_walk []
theorem secEvent_book (n : Nat) : Stable Book (secEvent n) := by
  unfold secEvent; book_walk []
theorem smpEvent_book (n p : Nat) : Stable Book (smpEvent n p) := by
  unfold smpEvent; book_walk []
theorem smpEventQ_book (n p : Nat) (q : Bytes) : Stable Book (smpEventQ n p q) := by
  unfold smpEventQ; book_walk []

/-! ### randomness, headers -/

theorem randRead_book (n : Nat) : Stable Book (randRead n) :=
  randRead_stable (fun s env' mm' h => rfl) n

theorem randomInto_book (n : Nat) : Stable Book (randomInto n) := by
  unfold randomInto; book_walk [randRead_book]

theorem signOracle_book (mb : Bytes) : Stable Book (signOracle mb) := by
  intro s r s' h
  obtain ⟨r0, env', mm', hr⟩ := signOracle_run' mb s
  rw [hr] at h
  simp only [Res.ok.injEq, Prod.mk.injEq] at h
  rw [← h.2]; rfl

theorem generateInstanceTagAux_book (fuel : Nat) : Stable Book (generateInstanceTagAux fuel) := by
  induction fuel with
  | zero => unfold generateInstanceTagAux; book_walk []
  | succ n ih => unfold generateInstanceTagAux; book_walk [randomInto_book, ih]

theorem generateInstanceTag_book : Stable Book generateInstanceTag := by
  unfold generateInstanceTag; book_walk [generateInstanceTagAux_book]

theorem messageHeader_book (t : Nat) : Stable Book (messageHeader t) := by
  unfold messageHeader; book_walk [generateInstanceTag_book]

theorem wrapMessageHeader_book (t : Nat) (m : Bytes) : Stable Book (wrapMessageHeader t m) := by
  unfold wrapMessageHeader; book_walk [messageHeader_book]

theorem updateLastSent_book : Stable Book updateLastSent := by
  unfold updateLastSent; book_walk []

theorem fragEncode_book (msg : Bytes) : Stable Book (fragEncode msg) := by
  unfold fragEncode; book_walk []

theorem toSendEncoded_book (ts : List Bytes) (e : Option Err) : Stable Book (toSendEncoded ts e) := by
  unfold toSendEncoded; book_walk [fragEncode_book]

/-! ### version -/

theorem setKeyMatchingVersion_book : Stable Book setKeyMatchingVersion := by
  unfold setKeyMatchingVersion; book_walk []

theorem commitToVersionFrom_book (vs : Nat) : Stable Book (commitToVersionFrom vs) := by
  unfold commitToVersionFrom; book_walk [setKeyMatchingVersion_book]

theorem checkVersion_book (m : Bytes) : Stable Book (checkVersion m) := by
  unfold checkVersion; book_walk [commitToVersionFrom_book]

/-! ### the AKE, everything except `akeHasFinished` and the retransmission -/

theorem getAke_book : Stable Book getAke := by
  unfold getAke; book_walk []
theorem modAke_book (f : Ake → Ake) : Stable Book (modAke f) := by
  unfold modAke; book_walk []
theorem optNat_book (site : String) (v : Option Nat) : Stable Book (optNat site v) := by
  unfold optNat; book_walk []
theorem akeEncrypt_book (K : Crypto) (key data : Bytes) : Stable Book (akeEncrypt K key data) := by
  unfold akeEncrypt; book_walk []
theorem resToM_book {α} (r : Res α) : Stable Book (resToM r) := by
  unfold resToM; book_walk []
theorem initAKE_book : Stable Book initAKE := by
  unfold initAKE; book_walk []
theorem setSecretExponent_book (K : Crypto) (x : Bytes) : Stable Book (setSecretExponent K x) := by
  unfold setSecretExponent; book_walk [modAke_book]

theorem generateEncryptedSignature_book (K : Crypto) (key : AkeKeys) :
    Stable Book (generateEncryptedSignature K key) := by
  unfold generateEncryptedSignature
  book_walk [getAke_book, optNat_book, signOracle_book, akeEncrypt_book]

theorem calcAKEKeys_book (K : Crypto) : Stable Book (calcAKEKeys K) := by
  unfold calcAKEKeys; book_walk [getAke_book, optNat_book, modAke_book]

theorem serializeDHCommit_book (K : Crypto) : Stable Book (serializeDHCommit K) := by
  unfold serializeDHCommit; book_walk [getAke_book, optNat_book]
theorem serializeDHKey_book : Stable Book serializeDHKey := by
  unfold serializeDHKey; book_walk [getAke_book, optNat_book]

theorem dhCommitMessage_book (K : Crypto) : Stable Book (dhCommitMessage K) := by
  unfold dhCommitMessage
  book_walk [initAKE_book, randomInto_book, setSecretExponent_book, modAke_book, getAke_book, optNat_book,
    akeEncrypt_book, serializeDHCommit_book]

theorem dhKeyMessage_book (K : Crypto) : Stable Book (dhKeyMessage K) := by
  unfold dhKeyMessage
  book_walk [initAKE_book, randomInto_book, setSecretExponent_book, serializeDHKey_book]

theorem revealSigMessage_book (K : Crypto) : Stable Book (revealSigMessage K) := by
  unfold revealSigMessage
  book_walk [calcAKEKeys_book, modAke_book, getAke_book, generateEncryptedSignature_book, resToM_book]

theorem sigMessage_book (K : Crypto) : Stable Book (sigMessage K) := by
  unfold sigMessage
  book_walk [modAke_book, getAke_book, generateEncryptedSignature_book, resToM_book]

theorem processDHCommit_book (m : Bytes) : Stable Book (processDHCommit m) := by
  unfold processDHCommit; book_walk [modAke_book]

theorem processDHKey_book (m : Bytes) : Stable Book (processDHKey m) := by
  unfold processDHKey; book_walk [modAke_book, getAke_book]

theorem processEncryptedSig_book (K : Crypto) (es tm : Bytes) (keys : AkeKeys) :
    Stable Book (processEncryptedSig K es tm keys) := by
  unfold processEncryptedSig; book_walk [modAke_book, getAke_book, optNat_book]

theorem processRevealSig_book (K : Crypto) (m : Bytes) : Stable Book (processRevealSig K m) := by
  unfold processRevealSig
  book_walk [modAke_book, getAke_book, calcAKEKeys_book, processEncryptedSig_book]

theorem processSig_book (K : Crypto) (m : Bytes) : Stable Book (processSig K m) := by
  unfold processSig; book_walk [getAke_book, processEncryptedSig_book]

theorem akeSetTheirCurrent_book : Stable Book akeSetTheirCurrent := by
  unfold akeSetTheirCurrent; book_walk [modAke_book, getAke_book, optNat_book]
theorem akeSetOurCurrent_book : Stable Book akeSetOurCurrent := by
  unfold akeSetOurCurrent; book_walk [modAke_book, getAke_book, optNat_book]

theorem recvDHCommitNone_book (K : Crypto) (m : Bytes) : Stable Book (recvDHCommitNone K m) := by
  unfold recvDHCommitNone akeTry
  book_walk [modAke_book, dhKeyMessage_book, wrapMessageHeader_book, processDHCommit_book]

theorem recvDHCommit_book (K : Crypto) (st : AuthState) (m : Bytes) : Stable Book (recvDHCommit K st m) := by
  unfold recvDHCommit akeTry
  book_walk [recvDHCommitNone_book, modAke_book, processDHCommit_book, wrapMessageHeader_book, serializeDHKey_book,
    serializeDHCommit_book, getAke_book, optNat_book]

theorem recvDHKey_book (K : Crypto) (st : AuthState) (m : Bytes) : Stable Book (recvDHKey K st m) := by
  unfold recvDHKey akeTry
  book_walk [processDHKey_book, revealSigMessage_book, wrapMessageHeader_book, akeSetTheirCurrent_book,
    akeSetOurCurrent_book, modAke_book]

theorem sendDHCommit_book (K : Crypto) : Stable Book (sendDHCommit K) := by
  unfold sendDHCommit
  book_walk [dhCommitMessage_book, wrapMessageHeader_book, modAke_book]

/-! ### SMP -/

theorem smpSecretFor_book (K : Crypto) (i : Bool) (sec : Bytes) : Stable Book (smpSecretFor K i sec) := by
  unfold smpSecretFor; book_walk []
theorem paramLen_book : Stable Book paramLen := by
  unfold paramLen; book_walk []
theorem randMPIs_book (k len : Nat) : Stable Book (randMPIs k len) := by
  induction k with
  | zero => unfold randMPIs; book_walk []
  | succ k ih => unfold randMPIs; book_walk [randRead_book, ih]
theorem smpIsGroupElement_book : Stable Book smpIsGroupElement := by
  unfold smpIsGroupElement; book_walk []
theorem smpWipe_book : Stable Book smpWipe := by
  unfold smpWipe; book_walk []
theorem setSmpState_book (st : SmpState) : Stable Book (setSmpState st) := by
  unfold setSmpState; book_walk []
theorem smpAbortWith_book (n : Nat) : Stable Book (smpAbortWith n) := by
  unfold smpAbortWith; book_walk [smpEvent_book, setSmpState_book]

theorem startAuthenticateExpect1_book (K : Crypto) (q sec : Bytes) :
    Stable Book (startAuthenticateExpect1 K q sec) := by
  unfold startAuthenticateExpect1
  book_walk [smpSecretFor_book, paramLen_book, randMPIs_book]

theorem continueSMP_book (K : Crypto) (sec : Bytes) : Stable Book (continueSMP K sec) := by
  unfold continueSMP
  book_walk [smpSecretFor_book, paramLen_book, randMPIs_book, smpEvent_book]

open ConvData in
theorem smpBody_book (K : Crypto) (t : Tlv) (st : SmpState) (isGE : Nat → Bool) :
    Stable Book (smpBody K t st isGE) := by
  unfold smpBody
  book_walk [setSmpState_book, smpEvent_book, smpEventQ_book, smpAbortWith_book, paramLen_book,
    randMPIs_book, randRead_book, optNat_book, smpWipe_book]

open ConvData in
theorem processSMPTLV_book (K : Crypto) (t : Tlv) : Stable Book (processSMPTLV K t) := by
  rw [processSMPTLV_eq]
  book_walk [setSmpState_book, smpIsGroupElement_book, smpBody_book]

theorem processExtraSymmetricKeyTLV_book (t : Tlv) (x : Bytes) :
    Stable Book (processExtraSymmetricKeyTLV t x) := by
  unfold processExtraSymmetricKeyTLV; book_walk []

/-! ### query, whitespace tag, plaintext -/

theorem checkPlaintextPolicies_book (p : Bytes) : Stable Book (checkPlaintextPolicies p) := by
  unfold checkPlaintextPolicies; book_walk [msgEventMsg_book]

theorem receiveQueryMessage_book (K : Crypto) (m : Bytes) : Stable Book (receiveQueryMessage K m) := by
  unfold receiveQueryMessage
  book_walk [commitToVersionFrom_book, sendDHCommit_book, msgEventErr_book]

theorem receiveTaggedPlaintext_book (K : Crypto) (m : Bytes) : Stable Book (receiveTaggedPlaintext K m) := by
  unfold receiveTaggedPlaintext
  book_walk [commitToVersionFrom_book, sendDHCommit_book, msgEventErr_book, checkPlaintextPolicies_book]

theorem appendWhitespaceTag_book (m : Bytes) : Stable Book (appendWhitespaceTag m) := by
  unfold appendWhitespaceTag; book_walk []

end Otr
