/-
  Proofs.RevealBound — the TWO-PARTY constant bound on the MAC-key reveal queue (property C19).

  One-party facts (Proofs.Keys): the queue `oldMACKeys` grows only when an accepted message rotates a
  key, and is emptied by every send; in the one-party model the number of rotations between two sends
  is not bounded.  Here, in the two-party FIFO system of Proofs.Ratchet (`Sys2`, `Step2`, `Inv`):

  * a party `x` rotates its OWN key only on a message that acknowledges its current key
    (`m.r = x.ourKeyID`); the peer acknowledges a key only after it has received a message sent under
    it; so after an own-key rotation no acknowledgement of the new key can be in flight or be
    produced until `x` sends again                                            (`Side.no`)
  * `x` rotates THEIR key only on a message sent under the peer's newest key (`m.s = x.theirKeyID`);
    the peer moves on to a newer key only after it has seen `x` acknowledge the current one, and `x`
    acknowledges only by sending                                             (`Side.nt`)
  * every MAC-history entry of `x` belongs to `x`'s previous own key (`ourKeyID - 1`): an entry for
    the current own key is recorded only by the very message that rotates it   (`Side.ho`)
  * hence an own-key rotation reveals at most 2 keys, a their-key rotation at most 1, one message at
    most 2 (`disclosedBy_length_le`), and between two sends of `x` at most one rotation of each kind
    happens: the queue never holds more than 2 + 1 = 3 keys                     (`Side.qb`)

  Invariant : Side (per party, with two ghost flags "rotated own / their key since my last send"),
              RInv (both parties, flags existentially quantified)
  Induction : Side.send, Side.peerSend, Side.peerRecv, Side.recv; rinv_init, rinv_step,
              rinv_reachable
  C19       : c19_two_party_reveal_bound (C = 3, every reachable state, both parties),
              c19_two_party_outgoing_bound (what a data message reveals), c19_two_party_step_le2
              (one step adds at most 2 keys), c19_two_party_flags (the refined bound 2·ro + rt)
  Tightness : runSched_reach, c19_bound_attained (a 10-step schedule that reaches 3, `decide`d)
  Hypotheses: those of `inv_reachable` only (the four AKE pairs satisfy `DhPair.ok`).
  Core Lean only.
-/
import Proofs.Ratchet
namespace Otr
open List

/-! ## Counting revealed history entries -/

/-- a duplicate-free (by pair) list of history entries: the entries selected by `p` are at most as
    many as the pairs they can have -/
theorem filter_pairs_length_le (l : List MacUse) (p : MacUse → Bool) (cs : List (Nat × Nat))
    (hn : (l.map MacUse.pair).Nodup) (hc : ∀ u ∈ l, p u = true → u.pair ∈ cs) :
    (l.filter p).length ≤ cs.length := by
  have h1 : ((l.filter p).map MacUse.pair).Nodup := hn.sublist (filter_sublist.map _)
  have h2 := nodup_subset_length _ cs h1 (by
    intro x hx
    rw [mem_map] at hx
    obtain ⟨u, hu, rfl⟩ := hx
    rw [mem_filter] at hu
    exact hc u hu.1 hu.2)
  rwa [length_map] at h2

/-- all MAC-history entries belong to the previous own key -/
def Keys.HistPrev (k : Keys) : Prop := ∀ u ∈ k.macHistory, u.ourKeyID + 1 = k.ourKeyID

instance (k : Keys) : Decidable k.HistPrev := by unfold Keys.HistPrev; infer_instance

/-- with all history entries under the previous own key, accepting `(r, s)` reveals at most 2 keys
    if it rotates our key, at most 1 if it rotates only their key, none otherwise -/
theorem disclosedBy_length_le {K} {k : Keys} (hwf : WF k) (hho : k.HistPrev) {r s : Nat}
    (hw : InWin k.ourKeyID k.theirKeyID r s) :
    (k.disclosedBy K r s).length ≤
      if r = k.ourKeyID then 2 else if s = k.theirKeyID then 1 else 0 := by
  have hp1 := addMacKey_pairsOK r s (k.recvMACOf K r s) hwf.mac hw
  have hop := hwf.our_pos
  have htp := hwf.their_pos
  unfold Keys.disclosedBy
  simp only [length_append]
  by_cases hr : r = k.ourKeyID
  · simp only [hr, ↓reduceIte]
    rw [hr] at hp1
    have h1 := filter_pairs_length_le _ (fun u => u.ourKeyID == k.ourKeyID - 1)
      [(k.ourKeyID - 1, k.theirKeyID), (k.ourKeyID - 1, k.theirKeyID - 1)] hp1.nodup (by
        intro u hu hpu
        have hwin := hp1.win u.pair (mem_map_of_mem hu)
        have hpu' : u.ourKeyID = k.ourKeyID - 1 := by simpa using hpu
        unfold InWin at hwin
        simp only [MacUse.pair] at hwin
        simp only [MacUse.pair, mem_cons, Prod.mk.injEq, not_mem_nil, or_false]
        omega)
    have h2 : (if s = k.theirKeyID then
        (filter (fun u => u.theirKeyID == k.theirKeyID - 1)
          (forgetMacKeys (addMacKey k.macHistory k.ourKeyID s (k.recvMACOf K k.ourKeyID s))
            (fun u => u.ourKeyID == k.ourKeyID - 1)).2) else ([] : List MacUse)).length = 0 := by
      split
      · rename_i hs
        have hnd := ((hp1.rotOur hop).perm (forget_our_pairs _ _)).nodup
        have := filter_pairs_length_le _ (fun u => u.theirKeyID == k.theirKeyID - 1) [] hnd (by
          intro u hu hpu
          exfalso
          have hpu' : u.theirKeyID = k.theirKeyID - 1 := by simpa using hpu
          rw [forget_mem_iff] at hu
          have hne : u.ourKeyID ≠ k.ourKeyID - 1 := by simpa using hu.2
          rcases addMacKey_mem hu.1 with hold | hnew
          · have := hho u hold; omega
          · rw [hnew] at hpu'
            simp only at hpu'
            omega)
        simpa using this
      · rfl
    simp only [length_cons, length_nil] at h1
    omega
  · have hr1 : r + 1 = k.ourKeyID := by unfold InWin at hw; omega
    simp only [hr, ↓reduceIte, length_nil, Nat.zero_add]
    split
    · have h1 := filter_pairs_length_le _ (fun u => u.theirKeyID == k.theirKeyID - 1)
        [(k.ourKeyID - 1, k.theirKeyID - 1)] hp1.nodup (by
          intro u hu hpu
          have hpu' : u.theirKeyID = k.theirKeyID - 1 := by simpa using hpu
          have ho : u.ourKeyID + 1 = k.ourKeyID := by
            rcases addMacKey_mem hu with hold | hnew
            · exact hho u hold
            · rw [hnew]; exact hr1
          simp only [MacUse.pair, mem_cons, Prod.mk.injEq, not_mem_nil, or_false]
          omega)
      simpa using h1
    · exact Nat.le_refl _

/-- the history after accepting `(r, s)` again lies under the (new) previous own key -/
theorem HistPrev.afterAccept {K} {k : Keys} (hwf : WF k) (hho : k.HistPrev) {r s : Nat}
    (hw : InWin k.ourKeyID k.theirKeyID r s) (n y : Nat) (p : Bytes) :
    (k.afterAccept K r s n y p).HistPrev := by
  have hp1 := addMacKey_pairsOK r s (k.recvMACOf K r s) hwf.mac hw
  have hop := hwf.our_pos
  intro u hu
  rw [afterAccept_mac] at hu
  rw [afterAccept_ourKeyID]
  unfold Keys.keptBy at hu
  simp only at hu
  -- membership in the history after the own-key part
  have key : ∀ u, u ∈ (if r = k.ourKeyID then
        (forgetMacKeys (addMacKey k.macHistory r s (k.recvMACOf K r s))
          (fun u => u.ourKeyID == k.ourKeyID - 1)).2
      else addMacKey k.macHistory r s (k.recvMACOf K r s)) →
      u.ourKeyID + 1 = if r = k.ourKeyID then k.ourKeyID + 1 else k.ourKeyID := by
    intro u hu
    by_cases hr : r = k.ourKeyID
    · simp only [hr, ↓reduceIte] at hu ⊢
      rw [forget_mem_iff] at hu
      have hne : u.ourKeyID ≠ k.ourKeyID - 1 := by simpa using hu.2
      rw [hr] at hp1
      have hwin := hp1.win u.pair (mem_map_of_mem hu.1)
      unfold InWin at hwin
      simp only [MacUse.pair] at hwin
      omega
    · simp only [hr, ↓reduceIte] at hu ⊢
      rcases addMacKey_mem hu with hold | hnew
      · exact hho u hold
      · rw [hnew]; unfold InWin at hw; simp only; omega
  split at hu
  · exact key u ((forget_mem_iff _ _ _).mp hu).1
  · exact key u hu

theorem HistPrev.afterSend {K} {k : Keys} (hwf : WF k) (hho : k.HistPrev) : (k.afterSend K).HistPrev := by
  intro u hu
  have hu' : u ∈ addMacKey k.macHistory (k.ourKeyID - 1) k.theirKeyID
      (k.recvMACOf K (k.ourKeyID - 1) k.theirKeyID) := hu
  show u.ourKeyID + 1 = k.ourKeyID
  rcases addMacKey_mem hu' with hold | hnew
  · exact hho u hold
  · rw [hnew]; have := hwf.our_pos; simp only; omega

/-! ## The invariant, one party at a time -/

/-- the bound that goes with the two ghost flags -/
def revBnd (ro rt : Bool) : Nat := (if ro then 2 else 0) + (if rt then 1 else 0)

theorem revBnd_le (ro rt : Bool) : revBnd ro rt ≤ 3 := by
  cases ro <;> cases rt <;> decide

/-- the part of the invariant that concerns the reveal queue of party `x` (peer `y`, `q` = the
    messages in flight from `x` to `y`).  Ghost flags: `ro` = `x` has rotated its own key since its
    last send, `rt` = `x` has rotated the peer's key since its last send. -/
structure Side (x y : Keys) (q : List Wire) (ro rt : Bool) : Prop where
  wf : WF x
  /-- after an own-key rotation the peer has not seen the new key, and nothing in flight shows it -/
  no : ro = true → y.theirKeyID < x.ourKeyID ∧ ∀ m ∈ q, m.s + 1 < x.ourKeyID
  /-- after a their-key rotation the peer has no newer key, and nothing in flight lets it make one -/
  nt : rt = true → y.ourKeyID ≤ x.theirKeyID ∧ ∀ m ∈ q, m.r < x.theirKeyID
  ho : x.HistPrev
  qb : x.oldMACKeys.length ≤ revBnd ro rt

/-- `x` sends: the queue is emptied, both flags are cleared -/
theorem Side.send {K} {x y : Keys} {q : List Wire} {ro rt : Bool} (h : Side x y q ro rt)
    (hc : x.canSend K) (t : Nat) : Side (x.afterSend K) y (q ++ [x.wire t]) false false := by
  obtain ⟨sk, hsk⟩ := hc
  refine ⟨h.wf.afterSend (derive_ok_inWin hsk).1, ?_, ?_, HistPrev.afterSend h.wf h.ho, ?_⟩
  · intro e; cases e
  · intro e; cases e
  · exact Nat.zero_le _

/-- the peer sends: nothing `Side x` talks about changes -/
theorem Side.peerSend {K} {x y : Keys} {q : List Wire} {ro rt : Bool} (h : Side x y q ro rt) :
    Side x (y.afterSend K) q ro rt :=
  ⟨h.wf, h.no, h.nt, h.ho, h.qb⟩

/-- the peer accepts the head of the queue -/
theorem Side.peerRecv {K} {x y : Keys} {m : Wire} {q : List Wire} {ro rt : Bool}
    (h : Side x y (m :: q) ro rt) (p : Bytes) : Side x (y.deliver K m p) q ro rt := by
  have ho := afterAccept_ourKeyID (K := K) y m.r m.s m.n m.y p
  have ht := afterAccept_theirKeyID (K := K) y m.r m.s m.n m.y p
  refine ⟨h.wf, ?_, ?_, h.ho, h.qb⟩
  · intro e
    obtain ⟨h1, h2⟩ := h.no e
    have hm := h2 m mem_cons_self
    refine ⟨?_, fun m' hm' => h2 m' (mem_cons_of_mem _ hm')⟩
    unfold Keys.deliver
    rw [ht]
    split <;> omega
  · intro e
    obtain ⟨h1, h2⟩ := h.nt e
    have hm := h2 m mem_cons_self
    refine ⟨?_, fun m' hm' => h2 m' (mem_cons_of_mem _ hm')⟩
    unfold Keys.deliver
    rw [ho]
    split <;> omega

/-- `x` accepts a message `m` of the other direction.  `hr`, `hs`: what `MsgOK` says about `m`
    (built by `y`); `hwxu`, `hwyl`: the windows overlap (`Ids`); `hq`: what `MsgOK` says about the
    messages `x` has in flight. -/
theorem Side.recv {K} {x y : Keys} {q : List Wire} {ro rt : Bool} {m : Wire} (h : Side x y q ro rt)
    (hacc : x.acceptsWire K m) (p : Bytes)
    (hr : m.r ≤ y.theirKeyID) (hs : m.s + 1 ≤ y.ourKeyID)
    (hwxu : y.theirKeyID ≤ x.ourKeyID) (hwyl : y.ourKeyID ≤ x.theirKeyID + 1)
    (hq : ∀ m' ∈ q, m'.s + 1 ≤ x.ourKeyID ∧ m'.r ≤ x.theirKeyID) :
    Side (x.deliver K m p) y q (ro || decide (m.r = x.ourKeyID)) (rt || decide (m.s = x.theirKeyID)) := by
  obtain ⟨⟨sk, hsk⟩, _⟩ := hacc
  have hw := (derive_ok_inWin hsk).1
  have ho := afterAccept_ourKeyID (K := K) x m.r m.s m.n m.y p
  have ht := afterAccept_theirKeyID (K := K) x m.r m.s m.n m.y p
  have hro : ro = true → m.r ≠ x.ourKeyID := by
    intro e; have := (h.no e).1; omega
  have hrt : rt = true → m.s ≠ x.theirKeyID := by
    intro e; have := (h.nt e).1; omega
  unfold Keys.deliver
  refine ⟨h.wf.afterAccept m.n m.y p hw, ?_, ?_, HistPrev.afterAccept h.wf h.ho hw m.n m.y p, ?_⟩
  · intro e
    rw [ho]
    by_cases hrr : m.r = x.ourKeyID
    · rw [if_pos hrr]
      exact ⟨by omega, fun m' hm' => by have := (hq m' hm').1; omega⟩
    · rw [if_neg hrr]
      have e' : ro = true := by simpa [hrr] using e
      exact h.no e'
  · intro e
    rw [ht]
    by_cases hss : m.s = x.theirKeyID
    · rw [if_pos hss]
      exact ⟨by omega, fun m' hm' => by have := (hq m' hm').2; omega⟩
    · rw [if_neg hss]
      have e' : rt = true := by simpa [hss] using e
      exact h.nt e'
  · rw [afterAccept_old, length_append, length_map]
    have hd := disclosedBy_length_le (K := K) h.wf h.ho hw
    have hqb := h.qb
    unfold revBnd at hqb ⊢
    by_cases hrr : m.r = x.ourKeyID <;> by_cases hss : m.s = x.theirKeyID <;>
      cases ro <;> cases rt <;>
      simp only [hrr, hss, ↓reduceIte, decide_true, decide_false, Bool.or_true, Bool.or_false,
        Bool.false_eq_true, Nat.add_zero, Nat.zero_add, Nat.reduceAdd, ne_eq, not_true_eq_false,
        not_false_eq_true, forall_const, imp_false] at hd hqb hro hrt ⊢ <;>
      omega

/-! ## Both parties -/

/-- the reveal-queue invariant of the two-party system: `Side` for A and for B, for some value of the
    four ghost flags -/
def RInv (s : Sys2) : Prop :=
  ∃ roA rtA roB rtB, Side s.a s.b s.qab roA rtA ∧ Side s.b s.a s.qba roB rtB

theorem side_init (a b : DhPair) (y : Nat) (k : Keys) : Side (Keys.postAKE a b y) k [] false false :=
  ⟨wf_postAKE a b y, (fun e => by cases e), (fun e => by cases e), (fun _ hu => nomatch hu),
    Nat.zero_le _⟩

theorem rinv_init (a1 a2 b1 b2 : DhPair) : RInv (Sys2.init a1 a2 b1 b2) :=
  ⟨false, false, false, false, side_init _ _ _ _, side_init _ _ _ _⟩

/-- **the reveal-queue invariant is inductive** over `Step2`, given the ratchet invariant `Inv` -/
theorem rinv_step {K ra rb s s'} (hi : Inv K ra rb s) (h : RInv s) (hs : Step2 K s s') : RInv s' := by
  obtain ⟨roA, rtA, roB, rtB, hA, hB⟩ := h
  cases hs with
  | sendA a b qab qba t hc => exact ⟨false, false, roB, rtB, hA.send hc t, hB.peerSend⟩
  | sendB a b qab qba t hc => exact ⟨roA, rtA, false, false, hA.peerSend, hB.send hc t⟩
  | deliverAB a b m qab qba p hacc =>
    have hm := hi.ab.msgs m mem_cons_self
    refine ⟨roA, rtA, _, _, hA.peerRecv p,
      hB.recv hacc p hm.r_hi hm.s_hi hi.ids.wyu hi.ids.wxl ?_⟩
    intro m' hm'
    have h0 := hi.ba.msgs m' hm'
    exact ⟨h0.s_hi, h0.r_hi⟩
  | deliverBA a b m qab qba p hacc =>
    have hm := hi.ba.msgs m mem_cons_self
    refine ⟨_, _, roB, rtB,
      hA.recv hacc p hm.r_hi hm.s_hi hi.ids.wxu hi.ids.wyl ?_, hB.peerRecv p⟩
    intro m' hm'
    have h0 := hi.ab.msgs m' hm'
    exact ⟨h0.s_hi, h0.r_hi⟩

/-- **the reveal-queue invariant holds after every schedule** from the state right after the key
    exchange -/
theorem rinv_reachable {K} {a1 a2 b1 b2 : DhPair} (ha1 : a1.ok K) (ha2 : a2.ok K) (hb1 : b1.ok K)
    (hb2 : b2.ok K) {s : Sys2} (h : Reach K (Sys2.init a1 a2 b1 b2) s) : RInv s := by
  induction h with
  | init => exact rinv_init a1 a2 b1 b2
  | step hr hs ih =>
    obtain ⟨ra, rb, hinv⟩ := inv_reachable ha1 ha2 hb1 hb2 hr
    exact rinv_step hinv ih hs

/-! ## C19, two-party form -/

/-- **C19, two parties**: in every state of every schedule (any interleaving of sends and
    deliveries, any number of messages in flight, any number of consecutive deliveries without a send
    in between) the reveal queue of either party holds at most 3 MAC keys. -/
theorem c19_two_party_reveal_bound {K} {a1 a2 b1 b2 : DhPair} (ha1 : a1.ok K) (ha2 : a2.ok K)
    (hb1 : b1.ok K) (hb2 : b2.ok K) {s : Sys2} (h : Reach K (Sys2.init a1 a2 b1 b2) s) :
    s.a.oldMACKeys.length ≤ 3 ∧ s.b.oldMACKeys.length ≤ 3 := by
  obtain ⟨roA, rtA, roB, rtB, hA, hB⟩ := rinv_reachable ha1 ha2 hb1 hb2 h
  exact ⟨Nat.le_trans hA.qb (revBnd_le _ _), Nat.le_trans hB.qb (revBnd_le _ _)⟩

/-- the refined form: with `ro` / `rt` = "has rotated its own / the peer's key since its last send",
    the queue holds at most `2·ro + rt` keys, all history entries lie under the previous own key, and
    a flag that is set excludes a second rotation of that kind before the next send: no message in
    flight to the party (`q'`, any `Inv` state) would rotate that key again -/
theorem c19_two_party_flags {K} {a1 a2 b1 b2 : DhPair} (ha1 : a1.ok K) (ha2 : a2.ok K)
    (hb1 : b1.ok K) (hb2 : b2.ok K) {s : Sys2} (h : Reach K (Sys2.init a1 a2 b1 b2) s) :
    ∃ roA rtA roB rtB,
      s.a.oldMACKeys.length ≤ revBnd roA rtA ∧ s.b.oldMACKeys.length ≤ revBnd roB rtB ∧
      s.a.HistPrev ∧ s.b.HistPrev ∧
      (roA = true → ∀ m ∈ s.qba, m.r ≠ s.a.ourKeyID) ∧
      (rtA = true → ∀ m ∈ s.qba, m.s ≠ s.a.theirKeyID) ∧
      (roB = true → ∀ m ∈ s.qab, m.r ≠ s.b.ourKeyID) ∧
      (rtB = true → ∀ m ∈ s.qab, m.s ≠ s.b.theirKeyID) := by
  obtain ⟨roA, rtA, roB, rtB, hA, hB⟩ := rinv_reachable ha1 ha2 hb1 hb2 h
  obtain ⟨ra, rb, hi⟩ := inv_reachable ha1 ha2 hb1 hb2 h
  refine ⟨roA, rtA, roB, rtB, hA.qb, hB.qb, hA.ho, hB.ho, ?_, ?_, ?_, ?_⟩
  · intro e m hm
    have := (hA.no e).1; have := (hi.ba.msgs m hm).r_hi; omega
  · intro e m hm
    have := (hA.nt e).1; have := (hi.ba.msgs m hm).s_hi; omega
  · intro e m hm
    have := (hB.no e).1; have := (hi.ab.msgs m hm).r_hi; omega
  · intro e m hm
    have := (hB.nt e).1; have := (hi.ab.msgs m hm).s_hi; omega

/-- the MAC keys the next outgoing data message reveals (`genDataMsgWithFlag`: the first component of
    the `revealMACKeys` call whose second component is `afterSend`) -/
def Keys.revealedBySend (K : Crypto) (k : Keys) : List Bytes :=
  ((k.recordMac (k.ourKeyID - 1) k.theirKeyID
      (k.recvMACOf K (k.ourKeyID - 1) k.theirKeyID)).bumpOur.revealMACKeys).1

theorem afterSend_eq_reveal {K} (k : Keys) :
    k.afterSend K = ((k.recordMac (k.ourKeyID - 1) k.theirKeyID
      (k.recvMACOf K (k.ourKeyID - 1) k.theirKeyID)).bumpOur.revealMACKeys).2 := rfl

theorem revealedBySend_eq {K} (k : Keys) : k.revealedBySend K = k.oldMACKeys := rfl

/-- **C19, outgoing messages**: whatever the history, a data message sent from a reachable state
    reveals at most 3 MAC keys (and leaves the queue empty): no outgoing message grows with the
    length of the preceding history. -/
theorem c19_two_party_outgoing_bound {K} {a1 a2 b1 b2 : DhPair} (ha1 : a1.ok K) (ha2 : a2.ok K)
    (hb1 : b1.ok K) (hb2 : b2.ok K) {s : Sys2} (h : Reach K (Sys2.init a1 a2 b1 b2) s) :
    ((s.a.revealedBySend K).length ≤ 3 ∧ (s.a.afterSend K).oldMACKeys = []) ∧
    ((s.b.revealedBySend K).length ≤ 3 ∧ (s.b.afterSend K).oldMACKeys = []) := by
  have hb := c19_two_party_reveal_bound ha1 ha2 hb1 hb2 h
  exact ⟨⟨hb.1, rfl⟩, ⟨hb.2, rfl⟩⟩

/-- **C19, one step**: in the two-party system a single step adds at most 2 keys to either queue
    (the one-party bound `c19_recv_le3` is 3) -/
theorem c19_two_party_step_le2 {K} {a1 a2 b1 b2 : DhPair} (ha1 : a1.ok K) (ha2 : a2.ok K)
    (hb1 : b1.ok K) (hb2 : b2.ok K) {s s' : Sys2} (h : Reach K (Sys2.init a1 a2 b1 b2) s)
    (hs : Step2 K s s') :
    s'.a.oldMACKeys.length ≤ s.a.oldMACKeys.length + 2 ∧
    s'.b.oldMACKeys.length ≤ s.b.oldMACKeys.length + 2 := by
  obtain ⟨roA, rtA, roB, rtB, hA, hB⟩ := rinv_reachable ha1 ha2 hb1 hb2 h
  have key : ∀ (x : Keys) (m : Wire) (p : Bytes), WF x → x.HistPrev → x.acceptsWire K m →
      (x.deliver K m p).oldMACKeys.length ≤ x.oldMACKeys.length + 2 := by
    intro x m p hwf hho hacc
    obtain ⟨⟨sk, hsk⟩, _⟩ := hacc
    have hd := disclosedBy_length_le (K := K) hwf hho (derive_ok_inWin hsk).1
    unfold Keys.deliver
    rw [afterAccept_old, length_append, length_map]
    split at hd
    · omega
    · split at hd <;> omega
  cases hs with
  | sendA a b qab qba t hc => exact ⟨Nat.zero_le _, Nat.le_add_right _ _⟩
  | sendB a b qab qba t hc => exact ⟨Nat.le_add_right _ _, Nat.zero_le _⟩
  | deliverAB a b m qab qba p hacc => exact ⟨Nat.le_add_right _ _, key b m p hB.wf hB.ho hacc⟩
  | deliverBA a b m qab qba p hacc => exact ⟨key a m p hA.wf hA.ho hacc, Nat.le_add_right _ _⟩

/-! ## The bound is attained -/

/-- the simulator's runs are schedules of `Step2` -/
theorem runSched_reach {K} : ∀ (acts : List Act) (s0 s s' : Sys2), Reach K s0 s →
    runSched K acts s = some s' → Reach K s0 s'
  | [], s0, s, s', hr, h => by
    unfold runSched at h
    split at h
    · cases h; exact hr
    · cases h
  | act :: rest, s0, s, s', hr, h => by
    unfold runSched at h
    split at h
    · split at h
      · rename_i s1 he
        exact runSched_reach rest s0 s1 s' (.step hr (exec_sound he)) h
      · exact runSched_reach rest s0 s s' hr h
      · cases h
    · cases h

/-- the schedule  A sends, B sends, B receives, B sends, A receives, A sends, A receives, B receives,
    B sends, A receives  -/
def sched3 : List Act :=
  [.sA 1, .sB 2, .dAB [5], .sB 3, .dBA [6], .sA 4, .dBA [7], .dAB [8], .sB 5, .dBA [9]]

/-- TEST (evaluated by the kernel, constant crypto): after `sched3` A's reveal queue holds 3 keys -/
theorem sched3_result :
    (runSched Crypto.dummy sched3 testInit).map
      (fun s => (s.a.oldMACKeys.length, s.b.oldMACKeys.length, s.a.ourKeyID, s.a.theirKeyID,
        s.b.ourKeyID, s.b.theirKeyID)) = some (3, 0, 3, 3, 3, 2) := by decide +kernel

/-- **the constant 3 is attained**: a reachable state (of the system with the constant crypto, whose
    AKE pairs satisfy the hypotheses of `c19_two_party_reveal_bound`) in which A's queue holds exactly
    3 keys — so 3 is the least constant for which `c19_two_party_reveal_bound` holds -/
theorem c19_bound_attained :
    ∃ s, Reach Crypto.dummy (Sys2.init ⟨1, [1]⟩ ⟨1, [2]⟩ ⟨1, [3]⟩ ⟨1, [4]⟩) s ∧
      s.a.oldMACKeys.length = 3 := by
  have h := sched3_result
  cases hrun : runSched Crypto.dummy sched3 testInit with
  | none => rw [hrun] at h; cases h
  | some s =>
    rw [hrun] at h
    simp only [Option.map_some, Option.some.injEq, Prod.mk.injEq] at h
    exact ⟨s, runSched_reach sched3 testInit testInit s .init hrun, h.1⟩

/-- the hypotheses of the theorems above are satisfiable: the test pairs are well-formed for the
    constant crypto -/
example : (⟨1, [1]⟩ : DhPair).ok Crypto.dummy ∧ (⟨1, [2]⟩ : DhPair).ok Crypto.dummy ∧
    (⟨1, [3]⟩ : DhPair).ok Crypto.dummy ∧ (⟨1, [4]⟩ : DhPair).ok Crypto.dummy := ⟨rfl, rfl, rfl, rfl⟩

end Otr
