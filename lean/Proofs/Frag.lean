/-
  Proofs.Frag — property C14 "fragmentation is lossless, bounded, and reassembled exactly once".

  Sender side   : fragmentPrefix_length (1), c14_bounded (2), fragment_eq / fragment_length
  Number format : fmt05d_explicit, fmt05d_digits, fmt05d_no_comma, bytesToUint16_fmt05d (3)
  Round trip    : c14_lossless (4)  — receiver = `reassembleStep` folded over the pieces
  Any arrivals  : c14_only_complete, c14_only_complete_finished (5) — invariant `CtxInv`
  Delivery      : c14_once, deliverStep_cases, c14_invalid_noop, c14_replay_noop,
                  c14_after_delivery, c14_exactly_once (6)
  Repaired parsers (ParseUint, nothing after the last comma): bytesToUint16_eq_some_iff / _range /
                  _signed_rejected / _too_big, parseItag_eq_some_iff / _range / _signed_rejected,
                  parseFragment_trailing_rejected(_body), parseFragment_eq_some_iff, parseFragment_some
  Core Lean only.
-/
import Otr.Frag
namespace Otr

theorem decDigits_lt (f n : Nat) (h : n < 10) : decDigits (f + 1) n = [b8 (48 + n)] := by
  simp only [decDigits, h, ↓reduceIte]

theorem decDigits_ge (f n : Nat) (h : 10 ≤ n) :
    decDigits (f + 1) n = decDigits f (n / 10) ++ [b8 (48 + n % 10)] := by
  have : ¬ n < 10 := by omega
  simp only [decDigits, this, ↓reduceIte]

/-- the decimal digit `d` as an ASCII byte -/
def dig (d : Nat) : UInt8 := b8 (48 + d)

theorem dig_zero : dig 0 = 48 := rfl

theorem fmt05d_explicit (k : Nat) (h : k < 100000) :
    fmt05d k =
      [dig (k / 10000), dig (k / 1000 % 10), dig (k / 100 % 10), dig (k / 10 % 10), dig (k % 10)] := by
  unfold fmt05d
  show List.replicate (5 - (decDigits (19 + 1) k).length) 48 ++ decDigits (19 + 1) k = _
  by_cases h1 : k < 10
  · rw [decDigits_lt _ _ h1]
    have e1 : k / 10000 = 0 := by omega
    have e2 : k / 1000 % 10 = 0 := by omega
    have e3 : k / 100 % 10 = 0 := by omega
    have e4 : k / 10 % 10 = 0 := by omega
    have e5 : k % 10 = k := by omega
    rw [e1, e2, e3, e4, e5]; rfl
  · rw [decDigits_ge _ _ (by omega)]
    by_cases h2 : k < 100
    · rw [decDigits_lt _ _ (by omega)]
      have e1 : k / 10000 = 0 := by omega
      have e2 : k / 1000 % 10 = 0 := by omega
      have e3 : k / 100 % 10 = 0 := by omega
      have e4 : k / 10 % 10 = k / 10 := by omega
      rw [e1, e2, e3, e4]; rfl
    · rw [decDigits_ge _ _ (by omega)]
      by_cases h3 : k < 1000
      · rw [decDigits_lt _ _ (by omega)]
        have e1 : k / 10000 = 0 := by omega
        have e2 : k / 1000 % 10 = 0 := by omega
        have e3 : k / 100 % 10 = k / 10 / 10 := by omega
        rw [e1, e2, e3]; rfl
      · rw [decDigits_ge _ _ (by omega)]
        by_cases h4 : k < 10000
        · rw [decDigits_lt _ _ (by omega)]
          have e1 : k / 10000 = 0 := by omega
          have e2 : k / 1000 % 10 = k / 10 / 10 / 10 := by omega
          have e3 : k / 100 % 10 = k / 10 / 10 % 10 := by omega
          rw [e1, e2, e3]; rfl
        · rw [decDigits_ge _ _ (by omega)]
          rw [decDigits_lt _ _ (by omega)]
          have e1 : k / 10000 = k / 10 / 10 / 10 / 10 := by omega
          have e2 : k / 1000 % 10 = k / 10 / 10 / 10 % 10 := by omega
          have e3 : k / 100 % 10 = k / 10 / 10 % 10 := by omega
          rw [e1, e2, e3]; rfl


theorem dig_toNat (d : Nat) (h : d < 10) : (dig d).toNat = 48 + d := by
  simp only [dig, b8_toNat]; omega

theorem dig_ne (d : Nat) (h : d < 10) (c : UInt8) (hc : c.toNat < 48) : dig d ≠ c := by
  intro e
  have := congrArg UInt8.toNat e
  rw [dig_toNat d h] at this
  omega

theorem isDigit_iff (c : UInt8) : isDigit c = true ↔ 48 ≤ c.toNat ∧ c.toNat ≤ 57 := by
  simp only [isDigit, Bool.and_eq_true, decide_eq_true_eq, UInt8.le_iff_toNat_le]
  rfl

theorem isDigit_dig (d : Nat) (h : d < 10) : isDigit (dig d) = true := by
  rw [isDigit_iff, dig_toNat d h]; omega

theorem atoi_cons (c : UInt8) (r : Bytes) (h45 : c ≠ 45) (h43 : c ≠ 43) :
    atoi (c :: r) = if !(c :: r).all isDigit then none else
      if decVal (c :: r) ≤ 9223372036854775807 then some (decVal (c :: r) : Int) else none := by
  unfold atoi
  split
  rename_i x neg ds heq
  split at heq
  · rename_i e; injection e with e1 e2; exact absurd e1 h45
  · rename_i e; injection e with e1 e2; exact absurd e1 h43
  · injection heq with e1 e2
    subst e1 e2
    simp only [List.isEmpty_cons, Bool.false_or, Bool.false_eq_true, ↓reduceIte]


theorem decVal_fmt05d (k : Nat) (h : k < 100000) : decVal (fmt05d k) = k := by
  rw [fmt05d_explicit k h]
  simp only [decVal, List.foldl_cons, List.foldl_nil]
  rw [dig_toNat _ (by omega), dig_toNat _ (by omega), dig_toNat _ (by omega), dig_toNat _ (by omega),
    dig_toNat _ (by omega)]
  omega

theorem fmt05d_length (k : Nat) (h : k < 100000) : (fmt05d k).length = 5 := by
  rw [fmt05d_explicit k h]; rfl

/-- `%05d` output consists of ASCII digits -/
theorem fmt05d_digits (k : Nat) (h : k < 100000) : ∀ c ∈ fmt05d k, isDigit c = true := by
  rw [fmt05d_explicit k h]
  intro c hc
  simp only [List.mem_cons, List.not_mem_nil, or_false] at hc
  rcases hc with rfl | rfl | rfl | rfl | rfl <;> exact isDigit_dig _ (by omega)

theorem fmt05d_all_digits (k : Nat) (h : k < 100000) : (fmt05d k).all isDigit = true := by
  rw [List.all_eq_true]; exact fmt05d_digits k h

/-- `%05d` output contains no comma -/
theorem fmt05d_no_comma (k : Nat) (h : k < 100000) : (44 : UInt8) ∉ fmt05d k := by
  intro hm
  have := (isDigit_iff _).mp (fmt05d_digits k h 44 hm)
  have e : (44 : UInt8).toNat = 44 := rfl
  omega

theorem atoi_fmt05d (k : Nat) (h : k < 100000) : atoi (fmt05d k) = some (k : Int) := by
  have hd := fmt05d_all_digits k h
  have hv := decVal_fmt05d k h
  have hex := fmt05d_explicit k h
  generalize fmt05d k = s at hd hv hex
  have hc : dig (k / 10000) ≠ 45 ∧ dig (k / 10000) ≠ 43 :=
    ⟨dig_ne _ (by omega) _ (by decide), dig_ne _ (by omega) _ (by decide)⟩
  generalize dig (k / 10000) = c at hex hc
  subst hex
  rw [atoi_cons _ _ hc.1 hc.2, hd, hv]
  have : k ≤ 9223372036854775807 := by omega
  simp only [Bool.not_true, Bool.false_eq_true, ↓reduceIte, this]

/-- number round trip: the receiver reads back what `%05d` wrote (3) -/
theorem bytesToUint16_fmt05d (k : Nat) (h : k ≤ 65535) : bytesToUint16 (fmt05d k) = some k := by
  have hd := fmt05d_all_digits k (by omega)
  have hv := decVal_fmt05d k (by omega)
  have hne : (fmt05d k).isEmpty = false := by
    rw [fmt05d_explicit k (by omega)]; rfl
  unfold bytesToUint16
  rw [hne, hd, hv]
  simp only [Bool.not_true, Bool.or_self, Bool.false_eq_true, ↓reduceIte, h]

/-- repaired `bytesToUint16` (`strconv.ParseUint(s, 10, 16)`): exact characterisation -/
theorem bytesToUint16_eq_some_iff (s : Bytes) (v : Nat) :
    bytesToUint16 s = some v ↔ s ≠ [] ∧ s.all isDigit = true ∧ decVal s = v ∧ v ≤ 65535 := by
  unfold bytesToUint16
  cases s with
  | nil => simp
  | cons c r =>
    simp only [List.isEmpty_cons, Bool.false_or, ne_eq, reduceCtorEq, not_false_eq_true, true_and]
    cases hd : (c :: r).all isDigit
    · simp
    · simp only [Bool.not_true, Bool.false_eq_true, ↓reduceIte, true_and]
      constructor
      · intro h
        split at h
        · rename_i hv
          injection h with h
          exact ⟨h, h ▸ hv⟩
        · cases h
      · rintro ⟨rfl, hv⟩
        simp only [hv, ↓reduceIte]

/-- what `bytesToUint16` accepts is a non-empty string of ASCII digits and its value fits 16 bits:
    no sign, no wrap-around -/
theorem bytesToUint16_range (s : Bytes) (v : Nat) (h : bytesToUint16 s = some v) :
    v ≤ 65535 ∧ s.all isDigit = true ∧ s ≠ [] := by
  obtain ⟨h1, h2, _, h4⟩ := (bytesToUint16_eq_some_iff s v).mp h
  exact ⟨h4, h2, h1⟩

/-- a leading sign (`+` or `-`) is not accepted any more -/
theorem bytesToUint16_signed_rejected (r : Bytes) :
    bytesToUint16 (43 :: r) = none ∧ bytesToUint16 (45 :: r) = none := by
  have h43 : isDigit 43 = false := by decide
  have h45 : isDigit 45 = false := by decide
  constructor <;>
    simp only [bytesToUint16, List.isEmpty_cons, List.all_cons, h43, h45, Bool.false_and, Bool.not_false,
      Bool.or_true, ↓reduceIte]

/-- numbers above 65535 are rejected instead of being reduced modulo 2^16 -/
theorem bytesToUint16_too_big (s : Bytes) (h : 65535 < decVal s) : bytesToUint16 s = none := by
  cases hs : bytesToUint16 s with
  | none => rfl
  | some v =>
    obtain ⟨_, _, h3, h4⟩ := (bytesToUint16_eq_some_iff s v).mp hs
    omega

/-- repaired `parseItag` (`strconv.ParseUint(s, 16, 32)`): the value fits 32 bits and is the plain
    hexadecimal value of a non-empty string -/
theorem parseItag_eq_some_iff (s : Bytes) (v : Nat) :
    parseItag s = some v ↔ s ≠ [] ∧ hexVal' s 0 = some v ∧ v ≤ 4294967295 := by
  unfold parseItag
  cases s with
  | nil => simp
  | cons c r =>
    simp only [List.isEmpty_cons, Bool.false_eq_true, ↓reduceIte, ne_eq, reduceCtorEq,
      not_false_eq_true, true_and]
    cases hv : hexVal' (c :: r) 0 with
    | none => simp
    | some w =>
      simp only [Option.some.injEq]
      constructor
      · intro h
        split at h
        · rename_i hw
          injection h with h
          exact ⟨h, h ▸ hw⟩
        · cases h
      · rintro ⟨rfl, hw⟩
        simp only [hw, ↓reduceIte]

theorem parseItag_range (s : Bytes) (v : Nat) (h : parseItag s = some v) : v < 4294967296 := by
  obtain ⟨_, _, h3⟩ := (parseItag_eq_some_iff s v).mp h
  omega

/-- a leading sign (`+` or `-`) is not accepted any more -/
theorem parseItag_signed_rejected (r : Bytes) :
    parseItag (43 :: r) = none ∧ parseItag (45 :: r) = none := by
  have h43 : hexDigitVal 43 = none := by decide
  have h45 : hexDigitVal 45 = none := by decide
  constructor <;>
    simp only [parseItag, List.isEmpty_cons, Bool.false_eq_true, ↓reduceIte, hexVal', h43, h45]


theorem hexDigits_length_le (j : Nat) : ∀ f n, n < 16 ^ (j + 1) → (hexDigits f n).length ≤ j + 1 := by
  induction j with
  | zero =>
    intro f n h
    cases f with
    | zero => simp [hexDigits]
    | succ f =>
      have h' : n < 16 := by simpa using h
      simp only [hexDigits, h', ↓reduceIte, List.length_cons, List.length_nil]
      omega
  | succ j ih =>
    intro f n h
    cases f with
    | zero => simp [hexDigits]
    | succ f =>
      simp only [hexDigits]
      split
      · simp
      · have : n / 16 < 16 ^ (j + 1) := by
          rw [Nat.pow_succ] at h
          exact Nat.div_lt_of_lt_mul (by rw [Nat.mul_comm]; exact h)
        have := ih f (n / 16) this
        simp only [List.length_append, List.length_cons, List.length_nil]
        omega

theorem fmt08x_length (k : Nat) (h : k < 4294967296) : (fmt08x k).length = 8 := by
  have := hexDigits_length_le 7 16 k (by simpa using h)
  simp only [fmt08x, List.length_append, List.length_replicate]
  omega

def hdrLen : Version → Nat | .v2 => 17 | .v3 => 35
def tagLen : Version → Nat | .v2 => 5 | .v3 => 23

/-- the part of the fragment prefix the receiver strips before `parseFragment` -/
def fragTag (v : Version) (itags itagr : Nat) : Bytes :=
  match v with
  | .v2 => otrv2FragPrefix
  | .v3 => otrv3FragPrefix ++ fmt08x itags ++ [124] ++ fmt08x itagr ++ [44]

theorem fragmentPrefix_eq (v : Version) (n total its itr : Nat) :
    fragmentPrefix v n total its itr =
      fragTag v its itr ++ (fmt05d (n + 1) ++ 44 :: (fmt05d total ++ [44])) := by
  cases v <;> simp only [fragmentPrefix, fragTag, List.append_assoc, List.cons_append, List.nil_append]

theorem fragTag_length (v : Version) (its itr : Nat) (h1 : its < 4294967296) (h2 : itr < 4294967296) :
    (fragTag v its itr).length = tagLen v := by
  cases v
  · rfl
  · simp only [fragTag, List.length_append, fmt08x_length _ h1, fmt08x_length _ h2, tagLen]
    rfl

/-- (1) the fragment header has a fixed length -/
theorem fragmentPrefix_length (v : Version) (n total its itr : Nat)
    (hn : n + 1 < 100000) (ht : total < 100000) (h1 : its < 4294967296) (h2 : itr < 4294967296) :
    (fragmentPrefix v n total its itr).length = hdrLen v := by
  rw [fragmentPrefix_eq]
  simp only [List.length_append, List.length_cons, List.length_nil, fragTag_length v its itr h1 h2,
    fmt05d_length _ hn, fmt05d_length _ ht]
  cases v <;> rfl


/-- the `i`-th chunk (zero based) of `data` cut into pieces of `r` bytes -/
def chunk (data : Bytes) (r i : Nat) : Bytes :=
  (data.drop (i * r)).take (min ((i + 1) * r) data.length - i * r)

theorem fragmentPieces_succ (v : Version) (data : Bytes) (r num its itr k i : Nat) :
    fragmentPieces v data r num its itr (k + 1) i =
      (fragmentPrefix v i num its itr ++ chunk data r i ++ [44]) ::
        fragmentPieces v data r num its itr k (i + 1) := rfl

theorem fragmentPieces_length (v : Version) (data : Bytes) (r num its itr : Nat) :
    ∀ k i, (fragmentPieces v data r num its itr k i).length = k := by
  intro k
  induction k with
  | zero => intro i; rfl
  | succ k ih => intro i; rw [fragmentPieces_succ, List.length_cons, ih]

theorem fragmentPieces_take (v : Version) (data : Bytes) (r num its itr : Nat) :
    ∀ k j i, j ≤ k → (fragmentPieces v data r num its itr k i).take j =
      fragmentPieces v data r num its itr j i := by
  intro k
  induction k with
  | zero => intro j i h; have : j = 0 := by omega
            subst this; rfl
  | succ k ih =>
    intro j i h
    cases j with
    | zero => rfl
    | succ j => rw [fragmentPieces_succ, fragmentPieces_succ, List.take_succ_cons, ih j (i + 1) (by omega)]

theorem fragmentPieces_mem (v : Version) (data : Bytes) (r num its itr : Nat) :
    ∀ k i p, p ∈ fragmentPieces v data r num its itr k i →
      ∃ j, i ≤ j ∧ j < i + k ∧ p = fragmentPrefix v j num its itr ++ chunk data r j ++ [44] := by
  intro k
  induction k with
  | zero => intro i p h; cases h
  | succ k ih =>
    intro i p h
    rw [fragmentPieces_succ, List.mem_cons] at h
    rcases h with h | h
    · exact ⟨i, Nat.le_refl _, by omega, h⟩
    · obtain ⟨j, h1, h2, h3⟩ := ih (i + 1) p h
      exact ⟨j, by omega, by omega, h3⟩

theorem chunk_length_le (data : Bytes) (r i : Nat) : (chunk data r i).length ≤ r := by
  simp only [chunk, List.length_take, List.length_drop, Nat.succ_mul]
  omega

/-- what `fragment` returns when it really fragments -/
theorem fragment_eq (v : Version) (its itr : Nat) (data : Bytes) (size : Nat)
    (h1 : its < 4294967296) (h2 : itr < 4294967296)
    (hs : hdrLen v + 1 < size) (hl : size < data.length)
    (hn : numFrags data.length (size - hdrLen v - 1) ≤ 65535) :
    fragment v its itr data size =
      fragmentPieces v data (size - hdrLen v - 1) (numFrags data.length (size - hdrLen v - 1)) its itr
        (numFrags data.length (size - hdrLen v - 1)) 0 := by
  unfold fragment
  simp only [fragmentPrefix_length v 1 1 its itr (by omega) (by omega) h1 h2, maxFragments]
  have c1 : ¬ (data.length ≤ size ∨ size = 0) := by omega
  have c2 : ¬ (size ≤ hdrLen v + 1) := by omega
  have c3 : ¬ (numFrags data.length (size - hdrLen v - 1) > 65535) := by omega
  simp only [c1, c2, c3, ↓reduceIte]

/-- short messages are sent unfragmented -/
theorem fragment_unfragmented (v : Version) (its itr : Nat) (data : Bytes) (size : Nat)
    (hl : data.length ≤ size) : fragment v its itr data size = [data] := by
  unfold fragment
  simp only [hl, true_or, ↓reduceIte]

/-- (2) every piece fits the requested fragment size -/
theorem c14_bounded (v : Version) (its itr : Nat) (data : Bytes) (size : Nat)
    (h1 : its < 4294967296) (h2 : itr < 4294967296)
    (hs : hdrLen v + 1 < size)
    (hn : numFrags data.length (size - hdrLen v - 1) ≤ 65535) :
    ∀ p ∈ fragment v its itr data size, p.length ≤ size := by
  intro p hp
  by_cases hl : data.length ≤ size
  · rw [fragment_unfragmented v its itr data size hl, List.mem_singleton] at hp
    rw [hp]; exact hl
  · rw [fragment_eq v its itr data size h1 h2 hs (by omega) hn] at hp
    obtain ⟨j, _, hj, rfl⟩ := fragmentPieces_mem _ _ _ _ _ _ _ _ _ hp
    have hc := chunk_length_le data (size - hdrLen v - 1) j
    have hp := fragmentPrefix_length v j (numFrags data.length (size - hdrLen v - 1)) its itr
      (by omega) (by omega) h1 h2
    simp only [List.length_append, List.length_cons, List.length_nil, hp]
    omega


/-! ### the receiver on the sender's pieces -/

theorem splitOn_ne_nil (sep : UInt8) : ∀ s : Bytes, splitOn sep s ≠ [] := by
  intro s
  induction s with
  | nil => simp [splitOn]
  | cons c r ih =>
    unfold splitOn
    split
    · simp
    · split
      · simp
      · simp

theorem splitOn_append_sep (sep : UInt8) (a rest : Bytes) (h : sep ∉ a) :
    splitOn sep (a ++ sep :: rest) = a :: splitOn sep rest := by
  induction a with
  | nil => simp [splitOn]
  | cons c a ih =>
    have hc : c ≠ sep := fun e => h (by simp [e])
    have ha : sep ∉ a := fun e => h (List.mem_cons_of_mem _ e)
    rw [List.cons_append, splitOn]
    simp only [hc, ↓reduceIte, ih ha]

/-- what `receiveFragment` does with a piece once the prefix has been accepted -/
def reassembleStep (v : Version) (ctx : FragCtx) (piece : Bytes) : FragCtx :=
  match parseFragment (piece.drop (tagLen v)) with
  | some (d, ix, l) => fragAccept ctx d ix l
  | none => ctx

theorem parseFragment_body (i num : Nat) (c : Bytes) (hi : i ≤ 65535) (hn : num ≤ 65535)
    (hc : (44 : UInt8) ∉ c) :
    parseFragment (fmt05d i ++ 44 :: (fmt05d num ++ [44]) ++ c ++ [44]) = some (c, i, num) := by
  have e : fmt05d i ++ 44 :: (fmt05d num ++ [44]) ++ c ++ [44] =
      fmt05d i ++ 44 :: (fmt05d num ++ 44 :: (c ++ 44 :: [])) := by
    simp only [List.append_assoc, List.cons_append, List.nil_append]
  unfold parseFragment
  rw [e, splitOn_append_sep _ _ _ (fmt05d_no_comma i (by omega)),
    splitOn_append_sep _ _ _ (fmt05d_no_comma num (by omega)), splitOn_append_sep _ _ _ hc]
  simp only [splitOn, List.isEmpty_nil, Bool.not_true, Bool.false_eq_true, ↓reduceIte,
    bytesToUint16_fmt05d i hi, bytesToUint16_fmt05d num hn]

/-- repaired `parseFragment`: anything after the comma that ends the piece makes the fragment
    unparsable (the old code dropped the fourth part silently) -/
theorem parseFragment_trailing_rejected (body p0 p1 p2 p3 : Bytes)
    (hs : splitOn 44 body = [p0, p1, p2, p3]) (h3 : p3 ≠ []) : parseFragment body = none := by
  unfold parseFragment
  rw [hs]
  cases p3 with
  | nil => exact absurd rfl h3
  | cons c r => simp only [List.isEmpty_cons, Bool.not_false, ↓reduceIte]

/-- the same on a concrete shape: `k,n,piece,` followed by a non-empty comma-free rest -/
theorem parseFragment_trailing_rejected_body (p0 p1 c rest : Bytes) (h0 : (44 : UInt8) ∉ p0)
    (h1 : (44 : UInt8) ∉ p1) (hc : (44 : UInt8) ∉ c) (hr : (44 : UInt8) ∉ rest) (hne : rest ≠ []) :
    parseFragment (p0 ++ 44 :: (p1 ++ 44 :: (c ++ 44 :: rest))) = none := by
  have e : splitOn 44 rest = [rest] := by
    -- splitOn of a non-empty comma-free string is the string itself
    induction rest with
    | nil => exact absurd rfl hne
    | cons x r ih =>
      have hx : x ≠ 44 := fun e => hr (by simp [e])
      have hr' : (44 : UInt8) ∉ r := fun e => hr (List.mem_cons_of_mem _ e)
      cases r with
      | nil => simp only [splitOn, hx, ↓reduceIte]
      | cons y r' =>
        have := ih hr' (by simp)
        rw [splitOn]
        simp only [hx, ↓reduceIte, this]
  refine parseFragment_trailing_rejected _ p0 p1 c rest ?_ hne
  rw [splitOn_append_sep _ _ _ h0, splitOn_append_sep _ _ _ h1, splitOn_append_sep _ _ _ hc, e]

/-- exact shape of everything `parseFragment` accepts: four comma-separated parts, the last one
    empty, the first two unsigned decimal numbers that fit 16 bits -/
theorem parseFragment_eq_some_iff (body d : Bytes) (ix l : Nat) :
    parseFragment body = some (d, ix, l) ↔
      ∃ p0 p1, splitOn 44 body = [p0, p1, d, []] ∧ bytesToUint16 p0 = some ix ∧
        bytesToUint16 p1 = some l := by
  unfold parseFragment
  constructor
  · intro h
    split at h
    · rename_i p0 p1 p2 p3 hs
      split at h
      · cases h
      · rename_i h3
        split at h
        · rename_i ix' l' e0 e1
          injection h with h
          injection h with ha hb
          injection hb with hb hc
          subst ha hb hc
          cases p3 with
          | nil => exact ⟨p0, p1, hs, e0, e1⟩
          | cons c r => simp at h3
        · cases h
    · cases h
  · rintro ⟨p0, p1, hs, e0, e1⟩
    rw [hs]
    simp only [List.isEmpty_nil, Bool.not_true, Bool.false_eq_true, ↓reduceIte, e0, e1]

/-- index and total handed to `fragAccept` always fit 16 bits -/
theorem parseFragment_some (body d : Bytes) (ix l : Nat) (h : parseFragment body = some (d, ix, l)) :
    ix ≤ 65535 ∧ l ≤ 65535 := by
  obtain ⟨p0, p1, _, e0, e1⟩ := (parseFragment_eq_some_iff body d ix l).mp h
  exact ⟨(bytesToUint16_range p0 ix e0).1, (bytesToUint16_range p1 l e1).1⟩

theorem reassembleStep_piece (v : Version) (its itr : Nat) (data : Bytes) (r num i : Nat) (ctx : FragCtx)
    (h1 : its < 4294967296) (h2 : itr < 4294967296) (hi : i + 1 ≤ 65535) (hn : num ≤ 65535)
    (hd : (44 : UInt8) ∉ data) :
    reassembleStep v ctx (fragmentPrefix v i num its itr ++ chunk data r i ++ [44]) =
      fragAccept ctx (chunk data r i) (i + 1) num := by
  have hc : (44 : UInt8) ∉ chunk data r i := fun h =>
    hd (List.mem_of_mem_drop (List.mem_of_mem_take h))
  unfold reassembleStep
  rw [fragmentPrefix_eq, List.append_assoc, List.append_assoc, ← fragTag_length v its itr h1 h2,
    List.drop_left, ← List.append_assoc, parseFragment_body (i + 1) num _ hi hn hc]


theorem take_append_chunk (data : Bytes) (r i : Nat) (h : i * r ≤ data.length) :
    data.take (min (i * r) data.length) ++ chunk data r i = data.take (min ((i + 1) * r) data.length) := by
  have e : min ((i + 1) * r) data.length = i * r + (min ((i + 1) * r) data.length - i * r) := by
    rw [Nat.succ_mul]; omega
  rw [Nat.min_eq_left h, chunk]
  generalize min ((i + 1) * r) data.length - i * r = m at e
  rw [e, List.take_add]

/-- the receiver's context after the first `j` pieces of a stream -/
def ctxAfter (data : Bytes) (r num j : Nat) : FragCtx := ⟨data.take (min (j * r) data.length), j, num⟩

theorem fragAccept_first (ctx : FragCtx) (data : Bytes) (r num : Nat) (hn : 1 ≤ num) :
    fragAccept ctx (chunk data r 0) 1 num = ctxAfter data r num 1 := by
  have c1 : ¬ ((1 : Nat) = 0 ∨ num = 0 ∨ 1 > num) := by omega
  have := take_append_chunk data r 0 (by omega)
  simp only [Nat.zero_mul, Nat.zero_min, List.take_zero, List.nil_append, Nat.zero_add] at this
  simp only [fragAccept, c1, ↓reduceIte, ctxAfter, this]

theorem fragAccept_next (data : Bytes) (r num i : Nat) (hi : 1 ≤ i) (hn : i + 1 ≤ num) (hm : num ≤ 65535)
    (hr : i * r ≤ data.length) :
    fragAccept (ctxAfter data r num i) (chunk data r i) (i + 1) num = ctxAfter data r num (i + 1) := by
  have c1 : ¬ (i + 1 = 0 ∨ num = 0 ∨ i + 1 > num) := by omega
  have c2 : ¬ (i + 1 = 1) := by omega
  have c3 : (i + 1) % 65536 = i + 1 ∧ num = num := ⟨by omega, rfl⟩
  simp only [fragAccept, ctxAfter, c1, c2, c3, and_self, ↓reduceIte, take_append_chunk data r i hr]

theorem foldl_pieces_from (v : Version) (its itr : Nat) (data : Bytes) (r num : Nat)
    (h1 : its < 4294967296) (h2 : itr < 4294967296) (hm : num ≤ 65535)
    (hd : (44 : UInt8) ∉ data) (hr : ∀ j, j < num → j * r ≤ data.length) :
    ∀ k i, 1 ≤ i → i + k ≤ num →
      (fragmentPieces v data r num its itr k i).foldl (reassembleStep v) (ctxAfter data r num i) =
        ctxAfter data r num (i + k) := by
  intro k
  induction k with
  | zero => intro i _ _; rfl
  | succ k ih =>
    intro i hi hk
    rw [fragmentPieces_succ, List.foldl_cons,
      reassembleStep_piece v its itr data r num i _ h1 h2 (by omega) hm hd,
      fragAccept_next data r num i hi (by omega) hm (hr i (by omega)),
      ih (i + 1) (by omega) (by omega)]
    congr 1; omega

theorem foldl_pieces (v : Version) (its itr : Nat) (data : Bytes) (r num : Nat)
    (h1 : its < 4294967296) (h2 : itr < 4294967296) (hm : num ≤ 65535)
    (hd : (44 : UInt8) ∉ data) (hr : ∀ j, j < num → j * r ≤ data.length) (ctx : FragCtx) :
    ∀ k, 0 < k → k ≤ num →
      (fragmentPieces v data r num its itr k 0).foldl (reassembleStep v) ctx = ctxAfter data r num k := by
  intro k hk hkn
  obtain ⟨k, rfl⟩ : ∃ k', k = k' + 1 := ⟨k - 1, by omega⟩
  rw [fragmentPieces_succ, List.foldl_cons,
    reassembleStep_piece v its itr data r num 0 _ h1 h2 (by omega) hm hd,
    fragAccept_first ctx data r num (by omega),
    foldl_pieces_from v its itr data r num h1 h2 hm hd hr k 1 (by omega) (by omega)]
  congr 1; omega


/-- every piece below the count starts strictly inside the data: no piece is empty -/
theorem mul_lt_of_lt_numFrags (l r j : Nat) (hr : 0 < r) (h : j < numFrags l r) : j * r < l := by
  have h1 : (j + 1) * r ≤ numFrags l r * r := Nat.mul_le_mul_right r h
  have h2 : numFrags l r * r ≤ l + r - 1 := Nat.div_mul_le_self _ _
  rw [Nat.succ_mul] at h1
  omega

theorem le_numFrags_mul (l r : Nat) (hr : 0 < r) : l ≤ numFrags l r * r := by
  have := Nat.lt_mul_div_succ (l + r - 1) hr
  unfold numFrags
  rw [Nat.mul_succ, Nat.mul_comm] at this
  omega

theorem numFrags_pos (l r : Nat) (hr : 0 < r) (hl : 0 < l) : 0 < numFrags l r := by
  unfold numFrags
  exact Nat.div_pos (by omega) hr

/-- (4) feeding the pieces of `fragment`, in order, to the receiver yields exactly `data`, and the
    context is finished after the last piece and not before -/
theorem c14_lossless (v : Version) (its itr : Nat) (data : Bytes) (size : Nat)
    (h1 : its < 4294967296) (h2 : itr < 4294967296)
    (hs : hdrLen v + 1 < size) (hl : size < data.length)
    (hn : numFrags data.length (size - hdrLen v - 1) ≤ 65535)
    (hd : (44 : UInt8) ∉ data) :
    ((fragment v its itr data size).foldl (reassembleStep v) FragCtx.empty).finished = true ∧
    ((fragment v its itr data size).foldl (reassembleStep v) FragCtx.empty).frag = data ∧
    ∀ k, 0 < k → k < (fragment v its itr data size).length →
      (((fragment v its itr data size).take k).foldl (reassembleStep v) FragCtx.empty).finished = false := by
  rw [fragment_eq v its itr data size h1 h2 hs hl hn]
  generalize hr : size - hdrLen v - 1 = r at hn
  have hr0 : 0 < r := by omega
  generalize hnum : numFrags data.length r = num at hn
  have hjr : ∀ j, j < num → j * r ≤ data.length := by
    intro j hj; rw [← hnum] at hj; exact Nat.le_of_lt (mul_lt_of_lt_numFrags _ _ _ hr0 hj)
  have hbig : data.length ≤ num * r := by rw [← hnum]; exact le_numFrags_mul _ _ hr0
  have hnpos : 0 < num := by rw [← hnum]; exact numFrags_pos _ _ hr0 (by omega)
  have hf := foldl_pieces v its itr data r num h1 h2 hn hd hjr FragCtx.empty
  refine ⟨?_, ?_, ?_⟩
  · rw [hf num hnpos (Nat.le_refl _)]
    simp [ctxAfter, FragCtx.finished, hnpos]
  · rw [hf num hnpos (Nat.le_refl _)]
    simp only [ctxAfter]
    rw [Nat.min_eq_right hbig, List.take_length]
  · intro k hk hkn
    rw [fragmentPieces_length] at hkn
    rw [fragmentPieces_take _ _ _ _ _ _ _ _ _ (Nat.le_of_lt hkn), hf k hk (Nat.le_of_lt hkn)]
    have : k ≠ num := by omega
    simp [ctxAfter, FragCtx.finished, this]


theorem fragment_length (v : Version) (its itr : Nat) (data : Bytes) (size : Nat)
    (h1 : its < 4294967296) (h2 : itr < 4294967296)
    (hs : hdrLen v + 1 < size) (hl : size < data.length)
    (hn : numFrags data.length (size - hdrLen v - 1) ≤ 65535) :
    (fragment v its itr data size).length = numFrags data.length (size - hdrLen v - 1) := by
  rw [fragment_eq v its itr data size h1 h2 hs hl hn, fragmentPieces_length]

/-! ### the receiver on arbitrary arrival sequences -/

/-- an arrival: (data, index, total) as produced by `parseFragment` -/
abbrev Arrival := Bytes × Nat × Nat

def acceptStep (c : FragCtx) (a : Arrival) : FragCtx := fragAccept c a.1 a.2.1 a.2.2

/-- `[(ds[0], i, l), (ds[1], i+1, l), …]` -/
def numbered (l : Nat) : List Bytes → Nat → List Arrival
  | [], _ => []
  | d :: ds, i => (d, i, l) :: numbered l ds (i + 1)

theorem numbered_length (l : Nat) : ∀ ds i, (numbered l ds i).length = ds.length := by
  intro ds
  induction ds with
  | nil => intro i; rfl
  | cons d ds ih => intro i; simp only [numbered, List.length_cons, ih]

theorem numbered_getElem? (l : Nat) : ∀ ds i j, (numbered l ds i)[j]? = ds[j]?.map (fun d => (d, i + j, l)) := by
  intro ds
  induction ds with
  | nil => intro i j; rfl
  | cons d ds ih =>
    intro i j
    cases j with
    | zero => rfl
    | succ j =>
      simp only [numbered, List.getElem?_cons_succ, ih]
      congr 1; funext d; congr 2; omega

theorem numbered_append (l : Nat) (d : Bytes) : ∀ ds i,
    numbered l (ds ++ [d]) i = numbered l ds i ++ [(d, i + ds.length, l)] := by
  intro ds
  induction ds with
  | nil => intro i; rfl
  | cons x ds ih =>
    intro i
    have e : i + 1 + ds.length = i + (ds.length + 1) := by omega
    simp only [List.cons_append, numbered, ih, List.length_cons, e]

/-- the context is empty, or holds fragments 1..index of one stream that arrived in this order -/
def CtxInv (hist : List Arrival) (ctx : FragCtx) : Prop :=
  ctx = FragCtx.empty ∨
  (0 < ctx.index ∧ ∃ ds : List Bytes, ds.length = ctx.index ∧ ctx.frag = ds.flatten ∧
    ctx.index ≤ ctx.len ∧ ctx.index < 65536 ∧ (numbered ctx.len ds 1).Sublist hist)

theorem CtxInv.mono {hist : List Arrival} {ctx : FragCtx} (h : CtxInv hist ctx) (more : List Arrival) :
    CtxInv (hist ++ more) ctx := by
  rcases h with h | ⟨h0, ds, h1, h2, h3, h4, h5⟩
  · exact Or.inl h
  · exact Or.inr ⟨h0, ds, h1, h2, h3, h4, h5.trans (List.sublist_append_left _ _)⟩

theorem CtxInv.step {hist : List Arrival} {ctx : FragCtx} (h : CtxInv hist ctx) (a : Arrival) :
    CtxInv (hist ++ [a]) (acceptStep ctx a) := by
  obtain ⟨d, ix, l⟩ := a
  simp only [acceptStep, fragAccept]
  split
  · exact h.mono _
  · rename_i hv
    split
    · rename_i h1
      subst h1
      refine Or.inr ⟨by simp, [d], rfl, by simp, by simp; omega, by simp, ?_⟩
      exact List.sublist_append_right _ _
    · rename_i h1
      split
      · rename_i h2
        obtain ⟨h2, h3⟩ := h2
        rcases h with h | ⟨h0, ds, e1, e2, e3, e4, e5⟩
        · subst h; simp only [FragCtx.empty] at h2; omega
        · have hix : ix = ctx.index + 1 := by omega
          refine Or.inr ⟨by simp; omega, ds ++ [d], by simp; omega, by simp [e2], by simp; omega,
            by simp; omega, ?_⟩
          simp only [numbered_append]
          rw [h3] at e5
          have : 1 + ds.length = ix := by omega
          rw [this]
          exact List.Sublist.append e5 (List.Sublist.refl _)
      · exact Or.inl rfl

theorem CtxInv.foldl : ∀ (as hist : List Arrival) (ctx : FragCtx), CtxInv hist ctx →
    CtxInv (hist ++ as) (as.foldl acceptStep ctx) := by
  intro as
  induction as with
  | nil => intro hist ctx h; simpa using h
  | cons a as ih =>
    intro hist ctx h
    have := ih (hist ++ [a]) _ (h.step a)
    simpa using this

/-- (5) whatever arrives in whatever order: a non-empty context consists of the fragments
    1..index of one stream (constant total `len`) which arrived in this order -/
theorem c14_only_complete (as : List Arrival) :
    let ctx := as.foldl acceptStep FragCtx.empty
    (ctx.index = 0 → ctx = FragCtx.empty) ∧
    (0 < ctx.index → ∃ ds : List Bytes, ds.length = ctx.index ∧ ctx.frag = ds.flatten ∧
      ctx.index ≤ ctx.len ∧ ctx.index < 65536 ∧ (numbered ctx.len ds 1).Sublist as) := by
  intro ctx
  have h : CtxInv ([] ++ as) ctx := CtxInv.foldl as [] FragCtx.empty (Or.inl rfl)
  rw [List.nil_append] at h
  rcases h with h | ⟨h0, hds⟩
  · refine ⟨fun _ => h, fun h0 => ?_⟩
    rw [h] at h0; exact absurd h0 (by decide)
  · exact ⟨fun e => by omega, fun _ => hds⟩

/-- in particular a finished context is the concatenation of all `len` pieces of one stream -/
theorem c14_only_complete_finished (as : List Arrival) :
    let ctx := as.foldl acceptStep FragCtx.empty
    ctx.finished = true → ∃ ds : List Bytes, ds.length = ctx.len ∧ ctx.frag = ds.flatten ∧
      (numbered ctx.len ds 1).Sublist as := by
  intro ctx hf
  simp only [FragCtx.finished, Bool.and_eq_true, decide_eq_true_eq, beq_iff_eq] at hf
  obtain ⟨ds, h1, h2, _, _, h5⟩ := (c14_only_complete as).2 hf.1
  exact ⟨ds, by rw [h1]; exact hf.2, h2, h5⟩


/-! ### delivery: exactly once -/

/-- the receiver with delivery: a finished message is handed on and the context forgotten -/
def deliverStep (st : FragCtx × List Bytes) (a : Arrival) : FragCtx × List Bytes :=
  let c := fragAccept st.1 a.1 a.2.1 a.2.2
  if c.finished then (FragCtx.empty, st.2 ++ [c.frag]) else (c, st.2)

/-- fragments which `fragAccept` ignores -/
def Arrival.invalid (a : Arrival) : Prop := a.2.1 = 0 ∨ a.2.2 = 0 ∨ a.2.1 > a.2.2

theorem empty_not_finished : FragCtx.empty.finished = false := rfl

theorem fragAccept_finished (before : FragCtx) (d : Bytes) (ix l : Nat)
    (hb : before.finished = false) (hf : (fragAccept before d ix l).finished = true) :
    ix = l ∧ 1 ≤ ix ∧ ¬ (ix = 0 ∨ l = 0 ∨ ix > l) := by
  unfold fragAccept at hf
  split at hf
  · rw [hb] at hf; cases hf
  · rename_i hv
    have e : ix = l := by
      split at hf
      · simp only [FragCtx.finished, Bool.and_eq_true, decide_eq_true_eq, beq_iff_eq] at hf
        exact hf.2
      · split at hf
        · simp only [FragCtx.finished, Bool.and_eq_true, decide_eq_true_eq, beq_iff_eq] at hf
          exact hf.2
        · cases hf
    exact ⟨e, by omega, hv⟩

theorem deliverStep_not_finished (st : FragCtx × List Bytes) (a : Arrival) :
    (deliverStep st a).1.finished = false := by
  unfold deliverStep
  simp only
  split
  · rfl
  · rename_i h; simpa using h

/-- every delivery is triggered by a valid final piece (`index = total ≥ 1`), hands on the assembled
    bytes, and leaves the empty context behind; any other arrival delivers nothing -/
theorem deliverStep_cases (st : FragCtx × List Bytes) (a : Arrival) (hb : st.1.finished = false) :
    ((deliverStep st a).2 = st.2 ∧ (deliverStep st a).1 = acceptStep st.1 a) ∨
    (a.2.1 = a.2.2 ∧ 1 ≤ a.2.1 ∧ ¬ a.invalid ∧ (acceptStep st.1 a).finished = true ∧
      (deliverStep st a).1 = FragCtx.empty ∧
      (deliverStep st a).2 = st.2 ++ [(acceptStep st.1 a).frag]) := by
  unfold deliverStep acceptStep
  simp only
  split
  · rename_i h
    obtain ⟨h1, h2, h3⟩ := fragAccept_finished _ _ _ _ hb h
    exact Or.inr ⟨h1, h2, h3, h, rfl, rfl⟩
  · exact Or.inl ⟨rfl, rfl⟩

theorem deliver_count_aux : ∀ (as : List Arrival) (st : FragCtx × List Bytes), st.1.finished = false →
    (as.foldl deliverStep st).2.length ≤
      st.2.length + (as.filter (fun a => a.2.1 == a.2.2)).length := by
  intro as
  induction as with
  | nil => intro st _; simp
  | cons a as ih =>
    intro st hb
    have := ih (deliverStep st a) (deliverStep_not_finished st a)
    rw [List.foldl_cons]
    rcases deliverStep_cases st a hb with ⟨h, _⟩ | ⟨h1, _, _, _, _, h⟩
    · rw [h] at this
      have hle := List.length_filter_le (fun a : Arrival => a.2.1 == a.2.2) as
      rw [List.filter_cons]
      split
      · simp only [List.length_cons]; omega
      · omega
    · rw [h] at this
      have : (a.2.1 == a.2.2) = true := by simp [h1]
      rw [List.filter_cons, this]
      simp only [List.length_append, List.length_cons, List.length_nil, ↓reduceIte] at *
      omega

/-- (6) at most one delivery per arriving final piece -/
theorem c14_once (as : List Arrival) :
    (as.foldl deliverStep (FragCtx.empty, [])).2.length ≤
      (as.filter (fun a => a.2.1 == a.2.2)).length := by
  have := deliver_count_aux as (FragCtx.empty, []) rfl
  simpa using this

theorem deliverStep_invalid (st : FragCtx × List Bytes) (a : Arrival) (hb : st.1.finished = false)
    (ha : a.invalid) : deliverStep st a = st := by
  have e : fragAccept st.1 a.1 a.2.1 a.2.2 = st.1 := by
    have ha' : a.2.1 = 0 ∨ a.2.2 = 0 ∨ a.2.1 > a.2.2 := ha
    unfold fragAccept; rw [if_pos ha']
  unfold deliverStep
  simp only [e, hb, Bool.false_eq_true, ↓reduceIte]

/-- invalid fragments never change the receiver's state (context or deliveries) -/
theorem c14_invalid_noop (st : FragCtx × List Bytes) (hb : st.1.finished = false) :
    ∀ bs : List Arrival, (∀ a ∈ bs, a.invalid) → bs.foldl deliverStep st = st := by
  intro bs
  induction bs with
  | nil => intro _; rfl
  | cons b bs ih =>
    intro h
    rw [List.foldl_cons, deliverStep_invalid st b hb (h b (by simp))]
    exact ih (fun a ha => h a (List.mem_cons_of_mem _ ha))

theorem deliverStep_empty_not_first (out : List Bytes) (a : Arrival) (ha : a.invalid ∨ a.2.1 ≠ 1) :
    deliverStep (FragCtx.empty, out) a = (FragCtx.empty, out) := by
  rcases ha with ha | ha
  · exact deliverStep_invalid _ a rfl ha
  have e : fragAccept FragCtx.empty a.1 a.2.1 a.2.2 = FragCtx.empty := by
    unfold fragAccept
    split
    · rfl
    · split
      · rename_i h; simp only [FragCtx.empty] at h; omega
      · rfl
  unfold deliverStep
  simp only [e, empty_not_finished, Bool.false_eq_true, ↓reduceIte]

/-- from the empty context nothing is delivered (and nothing remembered) until a valid fragment with
    index 1 arrives: replaying old non-first fragments has no effect -/
theorem c14_replay_noop (out : List Bytes) :
    ∀ bs : List Arrival, (∀ a ∈ bs, a.invalid ∨ a.2.1 ≠ 1) →
      bs.foldl deliverStep (FragCtx.empty, out) = (FragCtx.empty, out) := by
  intro bs
  induction bs with
  | nil => intro _; rfl
  | cons b bs ih =>
    intro h
    rw [List.foldl_cons, deliverStep_empty_not_first out b (h b (by simp))]
    exact ih (fun a ha => h a (List.mem_cons_of_mem _ ha))

/-- after a delivery, invalid fragments and replayed non-first fragments deliver nothing more -/
theorem c14_after_delivery (st : FragCtx × List Bytes) (a : Arrival) (hb : st.1.finished = false)
    (hdel : (deliverStep st a).2 ≠ st.2) (bs : List Arrival)
    (hbs : ∀ b ∈ bs, b.invalid ∨ b.2.1 ≠ 1) :
    bs.foldl deliverStep (deliverStep st a) = (FragCtx.empty, st.2 ++ [(acceptStep st.1 a).frag]) := by
  rcases deliverStep_cases st a hb with ⟨h, _⟩ | ⟨_, _, _, _, h1, h2⟩
  · exact absurd h hdel
  · have e : deliverStep st a = (FragCtx.empty, st.2 ++ [(acceptStep st.1 a).frag]) := by
      rw [← h1, ← h2]
    rw [e]
    exact c14_replay_noop _ bs hbs


/-- `Delivered hist out`: the arrivals `hist` can be cut into consecutive segments, one per delivered
    message, and each message is the in-order concatenation of pieces 1..n (n ≥ 1) of one stream with
    total `n`, all of which arrived inside the message's own segment -/
inductive Delivered : List Arrival → List Bytes → Prop
  | nil : Delivered [] []
  | snoc {hist : List Arrival} {out : List Bytes} (seg : List Arrival) (ds : List Bytes) :
      Delivered hist out → ds ≠ [] → (numbered ds.length ds 1).Sublist seg →
      Delivered (hist ++ seg) (out ++ [ds.flatten])

theorem deliver_segments_aux : ∀ (as done cur : List Arrival) (st : FragCtx × List Bytes),
    Delivered done st.2 → CtxInv cur st.1 → st.1.finished = false →
    ∃ done' cur', done ++ cur ++ as = done' ++ cur' ∧
      Delivered done' (as.foldl deliverStep st).2 ∧ CtxInv cur' (as.foldl deliverStep st).1 := by
  intro as
  induction as with
  | nil => intro done cur st h1 h2 _; exact ⟨done, cur, by simp, h1, h2⟩
  | cons a as ih =>
    intro done cur st h1 h2 hb
    rw [List.foldl_cons]
    have hinv := h2.step a
    have hnf := deliverStep_not_finished st a
    rcases deliverStep_cases st a hb with ⟨e2, e1⟩ | ⟨_, _, _, hfin, e1, e2⟩
    · have := ih done (cur ++ [a]) (deliverStep st a) (by rw [e2]; exact h1) (by rw [e1]; exact hinv) hnf
      simpa using this
    · simp only [FragCtx.finished, Bool.and_eq_true, decide_eq_true_eq, beq_iff_eq] at hfin
      rcases hinv with hinv | ⟨_, ds, d1, d2, _, _, d5⟩
      · rw [hinv] at hfin; exact absurd hfin.1 (by decide)
      · have hne : ds ≠ [] := by
          intro e; rw [e] at d1; simp only [List.length_nil] at d1; omega
        rw [← hfin.2, ← d1] at d5
        have hd := Delivered.snoc (cur ++ [a]) ds h1 hne d5
        rw [← d2, ← e2] at hd
        have := ih (done ++ (cur ++ [a])) [] (deliverStep st a) hd (by rw [e1]; exact Or.inl rfl) hnf
        simpa using this

/-- (6, structural form) exactly once: the arrival sequence splits into consecutive segments, one per
    delivered message — each delivered message is the concatenation of pieces 1..n of one stream that
    arrived in order within its own segment — followed by the arrivals `cur` since the last delivery,
    of which the current context holds a run of pieces 1..index -/
theorem c14_exactly_once (as : List Arrival) :
    ∃ done cur, as = done ++ cur ∧
      Delivered done (as.foldl deliverStep (FragCtx.empty, [])).2 ∧
      CtxInv cur (as.foldl deliverStep (FragCtx.empty, [])).1 := by
  have := deliver_segments_aux as [] [] (FragCtx.empty, []) Delivered.nil (Or.inl rfl) rfl
  simpa using this


/-! ### the hypotheses are satisfiable: concrete instances -/

/-- 40 bytes "ABC…" (no comma) -/
def exData : Bytes := (List.range 40).map (fun i => b8 (65 + i % 26))

-- hypotheses of `c14_bounded` / `c14_lossless` for v2, fragment size 25 (7 data bytes per piece)
example : hdrLen .v2 + 1 < 25 ∧ 25 < exData.length ∧
    exData.length / (25 - hdrLen .v2 - 1) + 1 ≤ 65535 ∧ (44 : UInt8) ∉ exData := by decide
example : (fragment .v2 0 0 exData 25).length = 6 := by decide
example : (fragment .v2 0 0 exData 25).map List.length = [25, 25, 25, 25, 25, 23] := by decide
example : (fragment .v2 0 0 exData 25)[5]? = some (strBytes "?OTR,00006,00006,JKLMN,") := by decide
example : (fragment .v2 0 0 exData 25).foldl (reassembleStep .v2) FragCtx.empty = ⟨exData, 6, 6⟩ := by
  decide
-- the theorems instantiated
example := c14_bounded .v2 0 0 exData 25 (by decide) (by decide) (by decide) (by decide)
example := c14_lossless .v2 0 0 exData 25 (by decide) (by decide) (by decide) (by decide) (by decide)
  (by decide)
-- v3 with instance tags 0x101, 0x202; 60 bytes of data, fragment size 50 (14 data bytes per piece)
def exData60 : Bytes := (List.range 60).map (fun i => b8 (65 + i % 26))
example : hdrLen .v3 + 1 < 50 ∧ 50 < exData60.length ∧
    exData60.length / (50 - hdrLen .v3 - 1) + 1 ≤ 65535 ∧ 257 < 4294967296 ∧ 514 < 4294967296 ∧
    (44 : UInt8) ∉ exData60 := by decide
example : (fragment .v3 257 514 exData60 50).map List.length = [50, 50, 50, 50, 40] := by decide
example : (fragment .v3 257 514 exData60 50)[0]? =
    some (strBytes "?OTR|00000101|00000202,00001,00005,ABCDEFGHIJKLMN,") := by decide
example : (fragment .v3 257 514 exData60 50).foldl (reassembleStep .v3) FragCtx.empty =
    ⟨exData60, 5, 5⟩ := by decide
example := c14_lossless .v3 257 514 exData60 50 (by decide) (by decide) (by decide) (by decide) (by decide)
  (by decide)
-- delivery: a complete stream, a replayed final piece, an invalid piece, an interleaved stream
example : ([([1], 1, 2), ([2], 2, 2), ([2], 2, 2), ([9], 3, 2), ([7], 1, 3), ([5], 1, 1)].foldl deliverStep
    (FragCtx.empty, [])) = (FragCtx.empty, [[1, 2], [5]]) := by decide

end Otr
